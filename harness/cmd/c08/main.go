// c08: executor and generator for property C08 (pkg/compression).
//
// C ops (also evaluated by the extracted model, observations must be identical):
//
//	x86conv enc ip state data   x86Convert with every parameter and result exposed (hook)
//	x86 enc data                the filter as LZMAX86 applies it (hook)
//	zlibenc x c                 ZLIB.Encode(x); c = what compress/zlib level 9 makes of x
//	zlibdec e res               ZLIB.Decode(e); res = what compress/zlib says about e[256:]
//	sysenc x raw                SystemLZMA.Encode(x); raw = what `xz --format=lzma -7` printed
//	lzmaenc x raw0 raw1         LZMA.Encode(x); raw0/raw1 = the library writer's output
//	                            without / with end marker (same properties and dictionary)
//
// P ops (property oracles on the implementation only):
//
//	p_x86_roundtrip data        decode(encode(data)) == data, length kept
//	p_codec name data           Decode(Encode(data)) == data; for the LZMA family the header
//	                            carries len(data) and `xz --format=lzma -d` accepts the stream;
//	                            for ZLIB the 256-byte header is as documented.  The framing is
//	                            judged on a snapshot of what Encode returned (taken before Decode
//	                            gets the slice); the round trip is compared with data as the caller
//	                            holds it after the calls.
//	p_codec_big name len period [pos byte]
//	                            p_codec on an extremely compressible input built in the worker:
//	                            period repeated to len bytes, optionally one odd byte at pos
//	p_codec_sparse name len fill {stride phase bytes}...
//	                            p_codec on a large, highly compressible input with branch opcodes at
//	                            chosen offsets, built in the worker: fill repeated to len bytes, then
//	                            for every triple [bytes] written at offset phase (stride 0) or at
//	                            every offset k*stride-phase, k >= 1 (block boundaries of any
//	                            power-of-two block size from stride upwards)
//	p_codec_noise name len seed p_codec on len incompressible bytes (xorshift from seed), built in the worker
//	p_env_xz                    ok when an xz program is on PATH (which encoder configuration ran)
//	p_seq mode {codec data}...  a HISTORY of calls in one process, results retained and not copied:
//	                            mode bit 0: 0 = all Encodes, then all Decodes; 1 = Encode/Decode
//	                            interleaved.  mode bit 1: 0 = a new codec value for every call (what
//	                            CompressorFromGUID hands out); 1 = ONE codec value per codec name,
//	                            created at its first use and used for every later call of that name
//	                            (a caller that keeps its compressor).  Every retained Encode / Decode
//	                            result must still be what it was right after its own call, must decode
//	                            to its own input, carry its own size; arguments are never modified
//	                            and results do not alias them.
//
// C ops over histories (the model is pure: result i is a function of argument i only):
//
//	lzmaseq {x raw0 raw1}...    e_i := LZMA.Encode(x_i) for all i, all e_i observed after the last call
//	zlibseq {x c}...            the same for ZLIB.Encode
//	sysseq {x raw}...           the same for SystemLZMA.Encode
package main

import (
	"bytes"
	"compress/zlib"
	"encoding/binary"
	"flag"
	"hash/fnv"
	"io"
	"os/exec"
	"strings"

	"github.com/linuxboot/fiano/pkg/compression"
	"github.com/ulikunitz/xz/lzma"
	. "verifharness/common"
)

func b01(s string) bool { return s == "1" }

func opX86Conv(args []string) string {
	out, st, ret := compression.X86ConvertStateForVerif(UnH(args[3]), uint32(UnN(args[1])), uint32(UnN(args[2])), b01(args[0]))
	return "ok " + H(out) + " " + N(uint64(st)) + " " + N(uint64(ret))
}

func opX86(args []string) string {
	return "ok " + H(compression.X86ConvertForVerif(UnH(args[1]), b01(args[0])))
}

func zlibErr(err error) string {
	msg := err.Error()
	switch {
	case strings.Contains(msg, "missing section header"):
		return "err 1"
	case strings.Contains(msg, "size mismatch"):
		return "err 2"
	}
	return "err 3"
}

func opZlibEnc(args []string) string {
	e, err := (&compression.ZLIB{}).Encode(UnH(args[0]))
	if err != nil {
		return "err 3"
	}
	return "ok " + H(e)
}

func opZlibDec(args []string) string {
	d, err := (&compression.ZLIB{}).Decode(UnH(args[0]))
	if err != nil {
		return zlibErr(err)
	}
	return "ok " + H(d)
}

func haveXZ() bool {
	_, err := exec.LookPath("xz")
	return err == nil
}

// CompressorFromGUID chooses SystemLZMA when the program named by the package's
// -xzPath flag is found and the Go encoder otherwise: both configurations are
// reached by setting that flag.
func useXZ(on bool) {
	if on {
		flag.Set("xzPath", "xz")
	} else {
		flag.Set("xzPath", "/nonexistent/xz-disabled-by-verif")
	}
}

func opSysEnc(args []string) string {
	if !haveXZ() {
		return "err 3"
	}
	useXZ(true)
	c := compression.CompressorFromGUID(&compression.LZMAGUID) // a *SystemLZMA: xz is on PATH
	e, err := c.Encode(UnH(args[0]))
	if err != nil {
		return "err 3"
	}
	return "ok " + H(e)
}

func opLzmaEnc(args []string) string {
	e, err := (&compression.LZMA{}).Encode(UnH(args[0]))
	if err != nil {
		return "err 3"
	}
	return "ok " + H(e)
}

// ---- independent runs of the codec cores, used as the model's oracle arguments ----

func rawZlib(x []byte) []byte {
	var b bytes.Buffer
	w, _ := zlib.NewWriterLevel(&b, zlib.BestCompression)
	w.Write(x)
	w.Close()
	return b.Bytes()
}

func rawUnzlib(body []byte) string {
	r, err := zlib.NewReader(bytes.NewReader(body))
	if err != nil {
		return "err"
	}
	d, err := io.ReadAll(r)
	if err != nil {
		return "err"
	}
	return "ok:" + H(d)
}

func rawXZ(x []byte) string {
	cmd := exec.Command("xz", "--format=lzma", "-7", "--stdout")
	cmd.Stdin = bytes.NewReader(x)
	out, err := cmd.Output()
	if err != nil {
		return "err"
	}
	return "ok:" + H(out)
}

// the library writer with the properties and dictionary size found in the
// header of what LZMA.Encode itself emits (they are unexported there)
func rawLzma(x []byte, props byte, dictCap uint32, eos bool) string {
	p, err := lzma.PropertiesForCode(props)
	if err != nil {
		return "err"
	}
	wc := lzma.WriterConfig{SizeInHeader: true, Size: int64(len(x)), EOSMarker: eos, Properties: &p, DictCap: int(dictCap)}
	var b bytes.Buffer
	w, err := wc.NewWriter(&b)
	if err != nil {
		return "err"
	}
	if _, err := w.Write(x); err != nil {
		return "err"
	}
	if err := w.Close(); err != nil {
		return "err"
	}
	return "ok:" + H(b.Bytes())
}

// ---- property oracles ----

func pX86Roundtrip(args []string) string {
	d := UnH(args[0])
	e := compression.X86ConvertForVerif(d, true)
	if len(e) != len(d) {
		return "FAIL encode-changed-length"
	}
	back := compression.X86ConvertForVerif(e, false)
	if !bytes.Equal(back, d) {
		return "FAIL x86-decode-of-encode-differs enc=" + H(e) + " dec=" + H(back)
	}
	return "ok"
}

func codecByName(name string) (compression.Compressor, string) {
	switch name {
	case "lzma":
		return &compression.LZMA{}, "lzma"
	case "golzma": // CompressorFromGUID without an xz program
		useXZ(false)
		return compression.CompressorFromGUID(&compression.LZMAGUID), "lzma"
	case "golzmax86":
		useXZ(false)
		return compression.CompressorFromGUID(&compression.LZMAX86GUID), "lzma"
	case "syslzma": // CompressorFromGUID with the xz program
		if !haveXZ() {
			return nil, ""
		}
		useXZ(true)
		return compression.CompressorFromGUID(&compression.LZMAGUID), "lzma"
	case "syslzmax86":
		if !haveXZ() {
			return nil, ""
		}
		useXZ(true)
		return compression.CompressorFromGUID(&compression.LZMAX86GUID), "lzma"
	case "zlib":
		return compression.CompressorFromGUID(&compression.ZLIBGUID), "zlib"
	case "lz4":
		return &compression.LZ4{}, "lz4"
	}
	return nil, ""
}

func pCodec(args []string) string { return codecOracle(args[0], UnH(args[1])) }

// p_codec_big codec length period [pos byte]: the extremely compressible end of the
// input space, built here from small arguments: [period] repeated to [length] bytes,
// optionally one different byte at [pos].  Same demands as p_codec.
func pCodecBig(args []string) string {
	n := int(UnN(args[1]))
	per := UnH(args[2])
	if len(per) == 0 {
		per = []byte{0}
	}
	x := bytes.Repeat(per, n/len(per)+1)[:n]
	if len(args) >= 5 && n > 0 {
		x[int(UnN(args[3]))%n] = byte(UnN(args[4]))
	}
	return codecOracle(args[0], x)
}

// p_codec_sparse codec length fill {stride phase bytes}...: a large input that stays
// cheap for every codec (mostly [fill]) but has branch opcodes exactly where a caller
// of the filter that works in pieces would have to get them right: [bytes] at offset
// [phase] when stride is 0, else at every offset k*stride-phase (k >= 1) that fits.
// Same demands as p_codec.
func pCodecSparse(args []string) string {
	n := int(UnN(args[1]))
	fill := UnH(args[2])
	if len(fill) == 0 {
		fill = []byte{0}
	}
	x := bytes.Repeat(fill, n/len(fill)+1)[:n]
	put := func(pos int, b []byte) {
		if pos >= 0 && pos+len(b) <= n {
			copy(x[pos:], b)
		}
	}
	for i := 3; i+2 < len(args); i += 3 {
		stride, phase, b := int(UnN(args[i])), int(UnN(args[i+1])), UnH(args[i+2])
		if stride == 0 {
			put(phase, b)
			continue
		}
		for at := stride; at-phase < n; at += stride {
			put(at-phase, b)
		}
	}
	return codecOracle(args[0], x)
}

// p_codec_noise codec length seed: incompressible input (the compressed form is as long
// as the input: the size classes of the COMPRESSED size), built here from a seed.
func pCodecNoise(args []string) string {
	n := int(UnN(args[1]))
	st := UnN(args[2])*0x9E3779B97F4A7C15 + 0x2545F4914F6CDD1D
	x := make([]byte, n+8)
	for i := 0; i < n; i += 8 {
		st ^= st << 13
		st ^= st >> 7
		st ^= st << 17
		binary.LittleEndian.PutUint64(x[i:], st)
	}
	return codecOracle(args[0], x[:n])
}

func fingerprint(b []byte) uint64 {
	h := fnv.New64a()
	h.Write(b)
	return h.Sum64() ^ uint64(len(b))<<48
}

func codecOracle(name string, x []byte) string {
	args := []string{name}
	c, family := codecByName(args[0])
	if c == nil {
		return "skip"
	}
	tag := " codec=" + args[0] + " len=" + N(uint64(len(x)))
	before := fingerprint(x)
	eRet, err := c.Encode(x)
	if err != nil {
		return "FAIL encode-error" + tag + ": " + err.Error()
	}
	argRewritten := fingerprint(x) != before // used only to word a failure below
	// The framing clauses speak of what Encode RETURNED: they are judged on a snapshot taken
	// before Decode sees the slice (the header for ZLIB, the whole stream for the LZMA family,
	// which xz has to accept), so that nothing Decode does to its argument can fail them.
	var e []byte
	switch family {
	case "lzma":
		e = clone(eRet)
	case "zlib":
		e = clone(eRet[:min(len(eRet), 256)])
	}
	eLen := len(eRet)
	d, err := c.Decode(eRet)
	if err != nil {
		return "FAIL decode-of-encode-error" + tag + ": " + err.Error()
	}
	if !bytes.Equal(d, x) { // x as the caller holds it now, the way the repository's own test compares
		if argRewritten {
			return "FAIL encode-modified-its-argument" + tag
		}
		return "FAIL decode-of-encode-differs" + tag
	}
	switch family {
	case "lzma":
		if len(e) < 13 {
			return "FAIL lzma-header-short" + tag
		}
		if binary.LittleEndian.Uint64(e[5:13]) != uint64(len(x)) {
			return "FAIL lzma-header-size" + tag + " header=" + H(e[:13])
		}
		if haveXZ() {
			cmd := exec.Command("xz", "--format=lzma", "-d", "--stdout")
			cmd.Stdin = bytes.NewReader(e)
			out, err := cmd.Output()
			if err != nil {
				return "FAIL xz-rejects" + tag + ": " + err.Error()
			}
			want := x
			if strings.HasSuffix(args[0], "x86") { // the stream holds the filtered bytes
				want = compression.X86ConvertForVerif(x, true)
			}
			if !bytes.Equal(out, want) {
				return "FAIL xz-output-differs" + tag
			}
		}
	case "zlib":
		if len(e) < 256 {
			return "FAIL zlib-header-short" + tag
		}
		if uint64(binary.LittleEndian.Uint32(e[20:24])) != uint64(eLen-256) {
			return "FAIL zlib-header-size" + tag
		}
		for i := 0; i < 256; i++ {
			if (i < 20 || i >= 24) && e[i] != 0 {
				return "FAIL zlib-header-nonzero" + tag
			}
		}
	}
	return "ok"
}

// ---- histories of calls ----

func clone(b []byte) []byte { return append([]byte{}, b...) }

func scramble(b []byte) {
	for i := range b {
		b[i] ^= 0xA5
	}
}

func framingOK(family string, e []byte, n int) string {
	switch family {
	case "lzma":
		if len(e) < 13 {
			return "lzma-header-short"
		}
		if binary.LittleEndian.Uint64(e[5:13]) != uint64(n) {
			return "lzma-header-size header=" + H(e[:13])
		}
	case "zlib":
		if len(e) < 256 {
			return "zlib-header-short"
		}
		if uint64(binary.LittleEndian.Uint32(e[20:24])) != uint64(len(e)-256) {
			return "zlib-header-size"
		}
	}
	return ""
}

// p_seq mode codec1 x1 codec2 x2 ...
func pSeq(args []string) string {
	mode := UnN(args[0])
	interleaved := mode&1 == 1
	sharedValues := mode&2 == 2
	type held struct {
		c      compression.Compressor
		family string
	}
	values := map[string]held{}
	type item struct {
		name, family string
		c            compression.Compressor
		x            []byte // private copy of the input, never handed to the code
		e, eCopy     []byte // what Encode returned (retained as is) and a private copy taken at once
		d, dCopy     []byte // the same for Decode
	}
	var items []*item
	for i := 1; i+1 < len(args); i += 2 {
		items = append(items, &item{name: args[i], x: UnH(args[i+1])})
	}
	tag := func(k int, it *item) string {
		return " step=" + N(uint64(k)) + " codec=" + it.name + " len=" + N(uint64(len(it.x))) + " mode=" + args[0]
	}
	encode := func(k int, it *item) string {
		// the selection flag is set per call: CompressorFromGUID is part of the history
		if h, ok := values[it.name]; ok && sharedValues {
			it.c, it.family = h.c, h.family
		} else {
			it.c, it.family = codecByName(it.name)
			values[it.name] = held{it.c, it.family}
		}
		if it.c == nil {
			return "skip"
		}
		arg := clone(it.x)
		e, err := it.c.Encode(arg)
		if err != nil {
			return "FAIL encode-error" + tag(k, it) + ": " + err.Error()
		}
		if !bytes.Equal(arg, it.x) {
			return "FAIL encode-modified-its-argument" + tag(k, it)
		}
		it.e, it.eCopy = e, clone(e)
		scramble(arg) // the caller reuses its buffer
		if !bytes.Equal(it.e, it.eCopy) {
			return "FAIL encode-result-aliases-argument" + tag(k, it)
		}
		return ""
	}
	decode := func(k int, it *item) string {
		// decode the RETAINED slice, not the private copy: it is what a caller holds
		d, err := it.c.Decode(it.e)
		if err != nil {
			return "FAIL decode-of-retained-encode-error" + tag(k, it) + ": " + err.Error()
		}
		it.d, it.dCopy = d, clone(d)
		return ""
	}
	for k, it := range items {
		if r := encode(k, it); r != "" {
			return r
		}
		if interleaved {
			if r := decode(k, it); r != "" {
				return r
			}
		}
	}
	// every retained encoding is still what it was, and is a proper encoding of ITS input
	for k, it := range items {
		if !bytes.Equal(it.e, it.eCopy) {
			return "FAIL encode-result-changed-by-later-call" + tag(k, it)
		}
		if why := framingOK(it.family, it.e, len(it.x)); why != "" {
			return "FAIL " + why + tag(k, it)
		}
	}
	if !interleaved {
		for k, it := range items {
			if r := decode(k, it); r != "" {
				return r
			}
		}
	}
	for k, it := range items {
		if !bytes.Equal(it.e, it.eCopy) {
			return "FAIL decode-modified-its-argument-or-an-earlier-result" + tag(k, it)
		}
		if !bytes.Equal(it.d, it.dCopy) {
			return "FAIL decode-result-changed-by-later-call" + tag(k, it)
		}
		if !bytes.Equal(it.d, it.x) {
			return "FAIL decode-of-encode-differs" + tag(k, it)
		}
	}
	// results do not alias the decoder's argument: the caller overwrites the encoded buffers
	for _, it := range items {
		scramble(it.e)
	}
	for k, it := range items {
		if !bytes.Equal(it.d, it.x) {
			return "FAIL decode-result-aliases-argument" + tag(k, it)
		}
	}
	return "ok"
}

// C ops: e_i := Encode(x_i) for every i, nothing copied in between, all observed at the end
func seqObs(c compression.Compressor, xs [][]byte) string {
	var es [][]byte
	for _, x := range xs {
		e, err := c.Encode(x)
		if err != nil {
			return "err 3"
		}
		es = append(es, e)
	}
	parts := make([]string, len(es))
	for i, e := range es {
		parts[i] = H(e)
	}
	return "ok " + strings.Join(parts, " ")
}

func everyNth(args []string, n int) [][]byte {
	var xs [][]byte
	for i := 0; i+n <= len(args); i += n {
		xs = append(xs, UnH(args[i]))
	}
	return xs
}

func opLzmaSeq(args []string) string { return seqObs(&compression.LZMA{}, everyNth(args, 3)) }
func opZlibSeq(args []string) string { return seqObs(&compression.ZLIB{}, everyNth(args, 2)) }
func opSysSeq(args []string) string {
	if !haveXZ() {
		return "err 3"
	}
	useXZ(true)
	return seqObs(compression.CompressorFromGUID(&compression.LZMAGUID), everyNth(args, 2))
}

func pEnvXZ(args []string) string {
	if haveXZ() {
		return "ok"
	}
	return "skip"
}

// ---- generators ----

// bytes that drive the filter's state machine
func dense(r *Rng, n int) []byte {
	b := make([]byte, n)
	mode := r.Intn(4)
	for i := range b {
		k := r.Intn(100)
		switch {
		case k < 22:
			b[i] = 0xE8
		case k < 32:
			b[i] = 0xE9
		case k < 55:
			b[i] = 0x00
		case k < 75:
			b[i] = 0xFF
		case k < 80:
			b[i] = byte(r.Pick(0x01, 0xFE, 0x7F, 0x80, 0xE7, 0xEA))
		default:
			b[i] = byte(r.U64())
		}
		if mode == 1 && k >= 55 && k < 75 { // fewer FF, more near misses
			b[i] = byte(r.Pick(0xFE, 0x01, 0xFF))
		}
	}
	return b
}

// something like machine code: calls/jumps with small forward/backward
// displacements between runs of other bytes
func codeLike(r *Rng, n int) []byte {
	b := make([]byte, 0, n+8)
	for len(b) < n {
		switch r.Intn(5) {
		case 0, 1:
			b = append(b, r.Bytes(r.Range(1, 9))...)
		default:
			op := byte(r.Pick(0xE8, 0xE8, 0xE9))
			disp := int32(r.Intn(1<<uint(r.Range(4, 24)))) - int32(r.Pick(0, 0, 1<<10, 1<<20))
			var d [4]byte
			binary.LittleEndian.PutUint32(d[:], uint32(disp))
			b = append(b, op)
			b = append(b, d[:]...)
			if r.Chance(1, 6) { // an opcode inside the operand of the next one
				b = append(b, op)
			}
		}
	}
	return b[:n]
}

func pickLen(r *Rng) int {
	switch r.Intn(10) {
	case 0:
		return r.Intn(6) // 0..5
	case 1:
		return r.Range(5, 12)
	case 2, 3, 4, 5:
		return r.Range(8, 64)
	case 6, 7:
		return r.Range(64, 200)
	case 8:
		return r.Pick(255, 256, 257, 511, 512, 513)
	default:
		if r.Chance(1, 4) {
			return r.Range(300, 1200)
		}
		return r.Range(16, 128)
	}
}

func ipOf(r *Rng) uint32 {
	switch r.Intn(6) {
	case 0:
		return 0
	case 1:
		return uint32(r.Pick(1, 4, 5, 0x1000))
	case 2:
		return 0xFFFFFFFF - uint32(r.Intn(16))
	case 3:
		return 0x00FFFFFF + uint32(r.Intn(3)) - 1
	default:
		return uint32(r.U64())
	}
}

func b2s(b bool) string {
	if b {
		return "1"
	}
	return "0"
}

func emitFilter(emit Emit, d []byte) {
	emit("C", "x86", "1", H(d))
	emit("C", "x86", "0", H(d))
	emit("P", "p_x86_roundtrip", H(d))
}

// all strings of length n over the alphabet
func exhaustive(alpha []byte, n int, f func([]byte)) {
	idx := make([]int, n)
	buf := make([]byte, n)
	for {
		for i := range buf {
			buf[i] = alpha[idx[i]]
		}
		f(buf)
		k := n - 1
		for k >= 0 {
			idx[k]++
			if idx[k] < len(alpha) {
				break
			}
			idx[k] = 0
			k--
		}
		if k < 0 {
			return
		}
	}
}

func genCodecInput(r *Rng, it int) []byte {
	switch {
	case it == 0:
		return []byte{}
	case it < 6:
		return dense(r, it) // lengths 1..5
	}
	var n int
	switch r.Intn(8) {
	case 0:
		n = r.Intn(8)
	case 1, 2, 3:
		n = r.Range(8, 400)
	case 4, 5:
		n = r.Range(400, 5000)
	case 6:
		n = r.Pick(4095, 4096, 4097, 65535, 65536, 65537)
	default:
		n = r.Range(5000, 40000)
	}
	switch r.Intn(5) {
	case 0:
		return r.Bytes(n)
	case 1:
		return dense(r, n)
	case 2:
		return codeLike(r, n)
	case 3:
		return bytes.Repeat([]byte{byte(r.Pick(0, 0xFF, 0xE8, 'a'))}, n)
	default: // compressible text with opcodes sprinkled in
		pat := []byte("fiano \xe8\x00\x00\x00\x00 section \xe9\xff\xff\xff\xff ")
		b := bytes.Repeat(pat, n/len(pat)+1)[:n]
		for k := 0; k < n/50; k++ {
			b[r.Intn(n)] = byte(r.U64())
		}
		return b
	}
}

func gen(r *Rng, tier string, emit Emit) {
	thorough := tier == "thorough"
	emit("P", "p_env_xz")

	// 1. exhaustive short inputs over a reduced alphabet
	alpha := []byte{0xE8, 0x00, 0xFF}
	maxLen := 7
	if thorough {
		alpha = []byte{0xE8, 0x00, 0xFF, 0x41, 0xE9}
	}
	for n := 0; n <= maxLen; n++ {
		exhaustive(alpha, n, func(b []byte) {
			emit("C", "x86", "1", H(b))
			emit("P", "p_x86_roundtrip", H(b))
			if n >= 5 && (thorough || n <= 6) {
				emit("C", "x86", "0", H(b))
			}
		})
	}
	if thorough {
		for n := 8; n <= 9; n++ {
			exhaustive([]byte{0xE8, 0x00, 0xFF}, n, func(b []byte) {
				emit("C", "x86", "1", H(b))
				emit("P", "p_x86_roundtrip", H(b))
			})
		}
	}

	// 2. random dense / code-like buffers, every parameter of x86Convert
	nf := 1500
	if thorough {
		nf = 40000
	}
	for it := 0; it < nf; it++ {
		rr := r.Fork(uint64(it))
		n := pickLen(rr)
		var d []byte
		if rr.Chance(2, 3) {
			d = dense(rr, n)
		} else {
			d = codeLike(rr, n)
		}
		emitFilter(emit, d)
		ip, st := ipOf(rr), uint32(rr.Intn(8))
		if rr.Chance(1, 4) {
			st = uint32(rr.U64())
		}
		enc := rr.Bool()
		emit("C", "x86conv", b2s(enc), N(uint64(ip)), N(uint64(st)), H(d))
		if rr.Chance(1, 3) { // decode what the encoder produced, same ip and state
			e, _, _ := compression.X86ConvertStateForVerif(d, ip, st, true)
			emit("C", "x86conv", "0", N(uint64(ip)), N(uint64(st)), H(e))
		}
	}
	// block-sized buffers (the model is quadratic: a few only)
	nb := 3
	if thorough {
		nb = 40
	}
	for it := 0; it < nb; it++ {
		rr := r.Fork(uint64(1<<32 + it))
		d := dense(rr, rr.Pick(4091, 4095, 4096, 4097, 4101))
		emit("C", "x86", "1", H(d))
		emit("P", "p_x86_roundtrip", H(d))
	}

	// 3. the framing C ops and the codec oracles
	nc := 60
	if thorough {
		nc = 1500
	}
	xz := haveXZ()
	for it := 0; it < nc; it++ {
		rr := r.Fork(uint64(2<<32 + it))
		x := genCodecInput(rr, it)
		small := len(x) <= 3000
		for _, name := range []string{"lzma", "golzmax86", "syslzma", "syslzmax86", "zlib", "lz4"} {
			emit("P", "p_codec", name, H(x))
		}
		if it%8 == 0 {
			emit("P", "p_codec", "golzma", H(x))
		}
		if !small {
			continue
		}
		// ZLIB frame
		emit("C", "zlibenc", H(x), H(rawZlib(x)))
		e, err := (&compression.ZLIB{}).Encode(x)
		if err == nil {
			bad := append([]byte{}, e...)
			switch rr.Intn(7) {
			case 0: // as encoded
			case 1: // truncated
				bad = bad[:rr.Intn(len(bad))]
			case 2: // one more byte
				bad = append(bad, byte(rr.U64()))
			case 3: // size field off by one / by 2^k
				v := binary.LittleEndian.Uint32(bad[20:24]) + uint32(rr.Pick(1, -1, 256, 1<<16))
				binary.LittleEndian.PutUint32(bad[20:24], v)
			case 4: // damage in the compressed stream
				if len(bad) > 256 {
					bad[256+rr.Intn(len(bad)-256)] ^= byte(1 << uint(rr.Intn(8)))
				}
			case 5: // garbage in the unused header bytes (Decode ignores them)
				bad[rr.Pick(0, 19, 24, 255)] = byte(1 + rr.Intn(255))
			case 6: // exactly a header, nothing else / just short of one
				bad = make([]byte, rr.Pick(255, 256, 0, 24))
			}
			res := "err"
			if len(bad) >= 256 {
				res = rawUnzlib(bad[256:])
			}
			emit("C", "zlibdec", H(bad), res)
		}
		// LZMA.Encode: the library's output with the size field rewritten
		if le, err := (&compression.LZMA{}).Encode(x); err == nil && len(le) >= 13 {
			dc := binary.LittleEndian.Uint32(le[1:5])
			emit("C", "lzmaenc", H(x), rawLzma(x, le[0], dc, false), rawLzma(x, le[0], dc, true))
		} else {
			emit("C", "lzmaenc", H(x), "err", "err")
		}
		// SystemLZMA.Encode: xz's output with the size field rewritten
		if xz {
			emit("C", "sysenc", H(x), rawXZ(x))
		}
	}

	// 4. histories: several calls in one process, results retained (state kept between
	// calls, shared output buffers, aliasing with arguments)
	ns := 36
	if thorough {
		ns = 600
	}
	names := []string{"lzma", "golzmax86", "golzma", "syslzma", "syslzmax86", "zlib", "lz4"}
	seqInput := func(rr *Rng) []byte {
		n := rr.Pick(0, 1, 5, 40, 300, 1700, 3000)
		if n >= 40 {
			n += rr.Intn(n / 2)
		}
		if rr.Bool() {
			return dense(rr, n)
		}
		return codeLike(rr, n)
	}
	for it := 0; it < ns; it++ {
		rr := r.Fork(uint64(3<<32 + it))
		k := rr.Range(2, 3)
		args := []string{b2s(rr.Bool())}
		same := ""
		if it < 2*len(names) { // every codec against itself first, both modes
			same = names[it%len(names)]
			args[0] = b2s(it >= len(names))
		} else if rr.Chance(1, 2) {
			same = names[rr.Intn(len(names))]
		}
		for j := 0; j < k; j++ {
			name := same
			if name == "" {
				name = names[rr.Intn(len(names))]
			}
			args = append(args, name, H(seqInput(rr)))
		}
		emit("P", "p_seq", args...)
	}
	// 5. the extremely compressible end (ratios beyond 1000:1), built inside the worker
	nbig := 5
	if thorough {
		nbig = 60
	}
	for _, name := range names {
		for it := 0; it < nbig; it++ {
			rr := r.Fork(uint64(5<<32+it) ^ uint64(len(name))<<20 ^ uint64(name[0])<<28 ^ uint64(name[len(name)-1])<<36)
			n := rr.Pick(600<<10, 1<<20, 1<<20, 2<<20, 4<<20) + rr.Intn(4096)
			if thorough && rr.Chance(1, 6) {
				n = 8<<20 + rr.Intn(4096)
			}
			var per []byte
			switch (it + rr.Intn(2)) % 5 {
			case 0:
				per = []byte{0xFF}
			case 1:
				per = []byte{0x00}
			case 2:
				per = []byte{byte(rr.Pick(0xE8, 0x55, 0x20))}
			default:
				per = rr.Bytes(rr.Range(2, 4))
				if rr.Bool() {
					per[0] = 0xE8
				}
			}
			args := []string{name, N(uint64(n)), H(per)}
			if rr.Chance(1, 2) { // one different byte at the start / middle / end
				pos := rr.Pick(0, n/2, n-1)
				args = append(args, N(uint64(pos)), N(uint64(per[0]^byte(1+rr.Intn(255)))))
			}
			emit("P", "p_codec_big", args...)
		}
	}
	nq := 6
	if thorough {
		nq = 100
	}
	for it := 0; it < nq; it++ {
		rr := r.Fork(uint64(4<<32 + it))
		k := rr.Range(2, 3)
		var la, za, sa []string
		for j := 0; j < k; j++ {
			x := seqInput(rr)
			if le, err := (&compression.LZMA{}).Encode(x); err == nil && len(le) >= 13 {
				props, dc := le[0], binary.LittleEndian.Uint32(le[1:5])
				la = append(la, H(x), rawLzma(x, props, dc, false), rawLzma(x, props, dc, true))
			} else {
				la = append(la, H(x), "err", "err")
			}
			za = append(za, H(x), H(rawZlib(x)))
			if xz {
				sa = append(sa, H(x), rawXZ(x))
			}
		}
		emit("C", "lzmaseq", la...)
		emit("C", "zlibseq", za...)
		if xz {
			emit("C", "sysseq", sa...)
		}
	}

	// (families below were added by the coverage audit; they come last so that the
	// sub-streams of everything above are what they were)

	// 6. histories on codec values the caller KEEPS: one value per codec name, used for
	// every call of that name (state or buffers kept in the codec value; p_seq modes 2/3).
	// First every codec twice/three times on its own value in both orders, then two
	// values taking turns (a b a b), then free mixtures of up to four calls.
	nsv := 26
	if thorough {
		nsv = 400
	}
	for it := 0; it < nsv; it++ {
		rr := r.Fork(uint64(6<<32 + it))
		k := rr.Range(2, 4)
		mode := 2 + rr.Intn(2)
		var pool []string
		switch {
		case it < 2*len(names):
			pool = []string{names[it%len(names)]}
			mode = 2 + it/len(names)
			k = rr.Range(2, 3)
		case rr.Chance(1, 2):
			pool = []string{names[rr.Intn(len(names))], names[rr.Intn(len(names))]}
			k = 4
		default:
			pool = names
		}
		args := []string{N(uint64(mode))}
		for j := 0; j < k; j++ {
			name := pool[rr.Intn(len(pool))]
			if len(pool) == 2 {
				name = pool[j%2]
			}
			args = append(args, name, H(seqInput(rr)))
		}
		emit("P", "p_seq", args...)
	}

	// 7. short buffers through the filtered codecs themselves (LZMAX86.Encode/Decode, not the
	// hook): an opcode within the first three bytes (the start state decides), a convertible
	// call in the last five bytes (the size handed to the filter decides), lengths 5..24
	nsd := 40
	if thorough {
		nsd = 800
	}
	for it := 0; it < nsd; it++ {
		rr := r.Fork(uint64(7<<32 + it))
		n := rr.Range(5, 24)
		if it < 12 {
			n = 5 + it
		}
		var d []byte
		if rr.Chance(2, 3) {
			d = dense(rr, n)
		} else {
			d = codeLike(rr, n)
		}
		what := rr.Intn(3)
		if what != 1 {
			d[rr.Intn(3)] = byte(rr.Pick(0xE8, 0xE9))
		}
		if what != 0 {
			d[n-5] = byte(rr.Pick(0xE8, 0xE9))
			d[n-1] = byte(rr.Pick(0x00, 0xFF))
		}
		emit("P", "p_codec", "golzmax86", H(d))
		if it%2 == 0 {
			emit("P", "p_codec", "syslzmax86", H(d))
		}
	}

	// 8. large inputs with branch opcodes at the block boundaries: 64 KiB .. 1 MiB of a
	// filler, a convertible call/jump lying across (or just before, or at) EVERY multiple
	// of 4096, optionally an unconvertible opcode shortly before it (a pending mask at the
	// boundary), plus one at the very start and one in the last bytes.  A caller that
	// filters in pieces of any power-of-two size from 4 KiB upwards has its seams here.
	call := func(rr *Rng, convertible bool) []byte {
		b := []byte{byte(rr.Pick(0xE8, 0xE8, 0xE9)), byte(rr.U64()), byte(rr.U64()), byte(rr.Pick(0, 0, 0xFF, int(rr.U64()&0xFF))), byte(rr.Pick(0x00, 0xFF))}
		if !convertible {
			b[4] = byte(rr.Pick(0x01, 0x55, 0x7F, 0x80, 0xFE))
		}
		return b
	}
	sparseArgs := func(rr *Rng, name string, n int, stride int) []string {
		fill := [][]byte{{0x90}, {0x00}, {0xCC}, {0xFF}, {0x90, 0x41}}[rr.Intn(5)]
		args := []string{name, N(uint64(n)), H(fill)}
		if stride < 16 { // calls back to back: one lies across a seam at ANY offset sooner or later
			args = append(args, N(uint64(stride)), N(uint64(rr.Intn(stride))), H(call(rr, true)))
			return args
		}
		if rr.Chance(1, 2) { // an opcode that is not converted, 5..8 bytes before the seam
			args = append(args, N(uint64(stride)), N(uint64(rr.Range(5, 8))), H(call(rr, false)))
		}
		args = append(args, N(uint64(stride)), N(uint64(rr.Pick(1, 2, 3, 4, 1, 2, 3, 4, 0, 5))), H(call(rr, true)))
		args = append(args, "0", N(uint64(rr.Intn(3))), H(call(rr, true)))
		args = append(args, "0", N(uint64(n-5-rr.Intn(3))), H(call(rr, true)))
		return args
	}
	nsp := 5
	if thorough {
		nsp = 80
	}
	for _, name := range []string{"golzmax86", "syslzmax86"} {
		for it := 0; it < nsp; it++ {
			rr := r.Fork(uint64(8<<32+it) ^ uint64(name[0])<<28)
			n := rr.Pick(1<<16, 2<<16, 3<<16, 1<<20, 1<<16) + rr.Pick(0, 1, 3, 4, 5, 100, rr.Intn(4096))
			emit("P", "p_codec_sparse", sparseArgs(rr, name, n, 4096)...)
		}
		// pieces of a size that is not a power of two: 1 MiB of convertible calls every 7, 11
		// or 13 bytes (a stride coprime to the piece size puts a call across one of any seven,
		// eleven, thirteen consecutive seams); the filter turns the constant displacement into
		// a ramp, which LZMA still compresses quickly
		nco := 1
		if thorough {
			nco = 12
		}
		for it := 0; it < nco; it++ {
			rr := r.Fork(uint64(8<<32+1<<20+it) ^ uint64(name[0])<<28)
			n := 1<<20 + rr.Intn(4096)
			if thorough && it%4 == 3 {
				n = 4<<20 + rr.Intn(4096)
			}
			emit("P", "p_codec_sparse", sparseArgs(rr, name, n, rr.Pick(7, 7, 11, 13))...)
		}
	}

	// 9. the size classes around 2^24 (the width of a section size field, the LZMA
	// dictionary size): every codec on a constant / sparse input a little above 16 MiB, the
	// codecs that are fast on incompressible data (compressed size above 2^24) on noise.
	// thorough: also 2^25 and 2^26, and 256 KiB of noise through the LZMA family (the Go
	// encoder manages about half a megabyte of noise per second).
	tops := []int{1 << 24}
	if thorough {
		tops = []int{1 << 24, 1 << 24, 1 << 25, 1 << 26}
	}
	for ti, top := range tops {
		for _, name := range names {
			rr := r.Fork(uint64(9<<32+ti) ^ uint64(len(name))<<20 ^ uint64(name[0])<<28 ^ uint64(name[len(name)-1])<<36)
			n := top + rr.Pick(1, 2, 4096, 1+rr.Intn(4096))
			if strings.HasSuffix(name, "x86") {
				emit("P", "p_codec_sparse", sparseArgs(rr, name, n, 65536)...)
			} else {
				emit("P", "p_codec_big", name, N(uint64(n)), H([]byte{byte(rr.Pick(0x00, 0xFF, 0x55)), byte(rr.Pick(0x00, 0xAA))}), N(uint64(n-1)), "1")
			}
			if name == "zlib" || name == "lz4" {
				emit("P", "p_codec_noise", name, N(uint64(top+rr.Intn(4096))), N(rr.U64()&0xFFFF))
			} else if thorough && ti == 0 {
				emit("P", "p_codec_noise", name, N(uint64(1<<18+rr.Intn(4096))), N(rr.U64()&0xFFFF))
			}
		}
	}
}

func main() {
	Register("x86conv", opX86Conv)
	Register("x86", opX86)
	Register("zlibenc", opZlibEnc)
	Register("zlibdec", opZlibDec)
	Register("sysenc", opSysEnc)
	Register("lzmaenc", opLzmaEnc)
	Register("p_x86_roundtrip", pX86Roundtrip)
	Register("p_codec", pCodec)
	Register("p_codec_big", pCodecBig)
	Register("p_codec_sparse", pCodecSparse)
	Register("p_codec_noise", pCodecNoise)
	Register("p_env_xz", pEnvXZ)
	Register("p_seq", pSeq)
	Register("lzmaseq", opLzmaSeq)
	Register("zlibseq", opZlibSeq)
	Register("sysseq", opSysSeq)
	Main(gen)
}
