package main

// Case generator of C16. All randomness comes from the given Rng; keys are
// generated from it (RSA 1024/2048 always, 3072/4096 in the thorough tier; the
// quick tier uses the two fixed test keys of fixedkeys.go for those sizes).
// Whole AMD images (key chain, RTM volume, signed PSP binaries) are built by the
// reference writer of amdimage.go (oracle p_amd_image, C op rtm_validate).

import (
	"crypto"
	"crypto/ecdsa"
	"crypto/elliptic"
	"crypto/rsa"
	"crypto/sha256"
	"crypto/sha512"
	"crypto/x509"
	"encoding/binary"
	"math/big"

	"github.com/linuxboot/fiano/pkg/intel/metadata/cbnt"
	"github.com/tjfoc/gmsm/sm2"
	. "verifharness/common"
)

type pool struct {
	big4096                            int // one in big4096 PSB oracle cases uses a 4096-bit key
	rsa1024, rsa2048, rsa3072, rsa4096 []*rsa.PrivateKey
	extra2048                          *rsa.PrivateKey // a third 2048-bit key for the key chains of p_amd_image
	ecc                                []*ecdsa.PrivateKey
	sm                                 []*sm2.PrivateKey
}

func mustRSA(r *Rng, bits int) *rsa.PrivateKey {
	k, err := rsa.GenerateKey(rngReader{r}, bits)
	if err != nil {
		panic(err)
	}
	return k
}

func fixedKey(h string) *rsa.PrivateKey {
	k, err := x509.ParsePKCS1PrivateKey(UnH(h))
	if err != nil {
		panic(err)
	}
	return k
}

func newPool(r *Rng, tier string) *pool {
	p := &pool{big4096: 12}
	if tier == "thorough" {
		p.big4096 = 5
	}
	for i := 0; i < 3; i++ {
		p.rsa1024 = append(p.rsa1024, mustRSA(r.Fork(uint64(100+i)), 1024))
	}
	for i := 0; i < 2; i++ {
		p.rsa2048 = append(p.rsa2048, mustRSA(r.Fork(uint64(200+i)), 2048))
	}
	p.rsa3072 = append(p.rsa3072, fixedKey(fixedRSA3072))
	p.rsa4096 = append(p.rsa4096, fixedKey(fixedRSA4096))
	if tier == "thorough" {
		p.rsa2048 = append(p.rsa2048, mustRSA(r.Fork(202), 2048), mustRSA(r.Fork(203), 2048))
		p.rsa3072 = append(p.rsa3072, mustRSA(r.Fork(300), 3072))
		p.rsa4096 = append(p.rsa4096, mustRSA(r.Fork(400), 4096))
	}
	for i := 0; i < 6; i++ {
		k, err := ecdsa.GenerateKey(elliptic.P256(), rngReader{r.Fork(uint64(500 + i))})
		if err != nil {
			panic(err)
		}
		p.ecc = append(p.ecc, k)
		s, err := sm2.GenerateKey(rngReader{r.Fork(uint64(600 + i))})
		if err != nil {
			panic(err)
		}
		p.sm = append(p.sm, s)
	}
	p.extra2048 = mustRSA(r.Fork(250), 2048)
	return p
}

func (p *pool) anyRSA(r *Rng) *rsa.PrivateKey {
	switch r.Intn(10) {
	case 0, 1, 2, 3:
		return p.rsa1024[r.Intn(len(p.rsa1024))]
	case 4, 5, 6, 7:
		return p.rsa2048[r.Intn(len(p.rsa2048))]
	case 8:
		return p.rsa3072[r.Intn(len(p.rsa3072))]
	}
	return p.rsa4096[r.Intn(len(p.rsa4096))]
}

func (p *pool) otherPsbRSA(r *Rng, k *rsa.PrivateKey) *rsa.PrivateKey {
	for {
		o := p.psbRSA(r)
		if o != k {
			return o
		}
	}
}

// RSA key usable by PSB (2048 / 4096 bit)
func (p *pool) psbRSA(r *Rng) *rsa.PrivateKey {
	if r.Chance(1, p.big4096) {
		return p.rsa4096[r.Intn(len(p.rsa4096))]
	}
	return p.rsa2048[r.Intn(len(p.rsa2048))]
}

func (p *pool) otherRSA(r *Rng, k *rsa.PrivateKey) *rsa.PrivateKey {
	for {
		o := p.anyRSA(r)
		if o != k {
			return o
		}
	}
}

// number with exactly `bits` significant bits (0 -> 0)
func bigBits(r *Rng, bits int) *big.Int {
	if bits <= 0 {
		return new(big.Int)
	}
	b := r.Bytes((bits + 7) / 8)
	v := new(big.Int).SetBytes(b)
	v.SetBit(v, bits-1, 1)
	for i := v.BitLen() - 1; i >= bits; i-- {
		v.SetBit(v, i, 0)
	}
	return v
}

func coordBits(r *Rng) int {
	switch r.Intn(12) {
	case 0:
		return 0
	case 1:
		return r.Range(1, 8)
	case 2:
		return 248
	case 3:
		return 249
	case 4:
		return 255
	case 5:
		return 257
	case 6:
		return r.Range(258, 400)
	case 7:
		return r.Range(9, 247)
	}
	return 256
}

// the cbnt/bg Key wire fields for an RSA public key, written without the library
func rsaKeyFields(pub *rsa.PublicKey) (size uint16, data []byte) {
	n := pub.N.Bytes()
	data = make([]byte, 4+len(n))
	binary.LittleEndian.PutUint32(data, uint32(pub.E))
	copy(data[4:], reversed(n))
	return uint16(len(n)) << 3, data
}

func keyArgs(alg uint16, ver uint8, size uint16, data []byte) []string {
	return []string{N(uint64(alg)), N(uint64(ver)), N(uint64(size)), H(data)}
}
func sigArgs(scheme uint16, ver uint8, size uint16, ha uint16, data []byte) []string {
	return []string{N(uint64(scheme)), N(uint64(ver)), N(uint64(size)), N(uint64(ha)), H(data)}
}

// sign msg with crypto/rsa directly (not through the library under test)
func rawRSASign(r *Rng, k *rsa.PrivateKey, scheme, ha uint16, msg []byte) []byte {
	var h crypto.Hash
	var d []byte
	if ha == uint16(cbnt.AlgSHA384) {
		h = crypto.SHA384
		s := sha512.Sum384(msg)
		d = s[:]
	} else {
		h = crypto.SHA256
		s := sha256.Sum256(msg)
		d = s[:]
	}
	var sig []byte
	var err error
	if scheme == uint16(cbnt.AlgRSAPSS) {
		sig, err = rsa.SignPSS(rngReader{r}, k, h, d, &rsa.PSSOptions{SaltLength: rsa.PSSSaltLengthEqualsHash})
	} else {
		sig, err = rsa.SignPKCS1v15(nil, k, h, d)
	}
	if err != nil {
		panic(err)
	}
	return sig
}

func flipRandomBit(r *Rng, b []byte) []byte {
	if len(b) == 0 {
		return b
	}
	return flipped(b, r.Intn(len(b)*8))
}

func tierFlag(tier string) string {
	if tier == "thorough" {
		return "1"
	}
	return "0"
}

func genEncodings(r *Rng, emit Emit) {
	// SetPubKey / PubKey
	for i := 0; i < 3; i++ {
		var nb *big.Int
		switch r.Intn(8) {
		case 0:
			nb = new(big.Int)
		case 1:
			nb = bigBits(r, r.Range(1, 64))
		case 2:
			nb = bigBits(r, 8*r.Pick(128, 128, 256, 256, 384, 512))
		case 3:
			nb = bigBits(r, 8*r.Pick(64, 128)-r.Range(1, 9))
		default:
			nb = bigBits(r, r.Range(65, 800))
		}
		e := int64(r.Pick(3, 65537, 0, 1, 0x7fffffff))
		if r.Chance(1, 5) {
			e = int64(r.U64() >> 1)
		}
		if r.Chance(1, 10) {
			e = -int64(r.U64() >> 40)
		}
		emit("C", "set_pub_key", "rsa", Big(nb), I(e))
		if i == 0 {
			emit("C", "bg_set_pub_key", "rsa", Big(nb), I(e))
		}
		if e >= 0 && e < 1<<31 {
			emit("P", "p_key_roundtrip", "rsa", Big(nb), I(e))
		}
	}
	for i := 0; i < 3; i++ {
		x, y := bigBits(r, coordBits(r)), bigBits(r, coordBits(r))
		kind := []string{"ecc", "sm2"}[r.Intn(2)]
		emit("C", "set_pub_key", kind, Big(x), Big(y))
	}
	emit("C", "bg_set_pub_key", "ecc", Big(bigBits(r, 256)), Big(bigBits(r, 256)))
	// PubKey on arbitrary fields
	for i := 0; i < 4; i++ {
		alg := uint16(r.Pick(1, 1, 1, 0x23, 0x1b, 0, 0x14, 0x18))
		n := r.Pick(0, 1, 3, 4, 5, 32, 64, 68, 96, 128, 132, 260)
		size := uint16(r.Pick((n-4)*8, n*8, n*4, n*4+3, 0, 256, 0xFFFF, 0xFFF8, (n-4)*8+7))
		if r.Chance(1, 8) {
			size = uint16(r.U64())
		}
		switch r.Intn(5) {
		case 0, 1: // consistent RSA key; the low three bits of the size do not matter
			alg, n = 1, r.Pick(4, 5, 36, 68, 132, 260, 4+r.Intn(300))
			size = uint16((n-4)*8 + r.Pick(0, 0, 1, 7))
		case 2: // consistent ECC / SM2 key
			alg, n = uint16(r.Pick(0x23, 0x1b)), 2*r.Pick(32, 32, 48, 1, 0)
			size = uint16(n * 4)
		}
		data := r.Bytes(n)
		if r.Chance(1, 3) && n > 0 {
			data[n-1] = 0 // leading zero byte of the big-endian number
		}
		emit("C", "pub_key", keyArgs(alg, uint8(r.Intn(256)), size, data)...)
		emit("C", "bg_pub_key", keyArgs(alg, uint8(r.Intn(256)), size, data)...)
	}
	// SetSignatureByData
	ha := func() string { return N(uint64(r.Pick(0, 0x10, 0xb, 0xc, 0xd, 0x12, 4, 0x99))) }
	for i := 0; i < 2; i++ {
		n := r.Pick(0, 1, 128, 256, 384, 512, 31)
		if r.Chance(1, 40) {
			n = r.Pick(8191, 8192, 8193)
		}
		emit("C", "set_sig", []string{"pss", "ssa"}[r.Intn(2)], H(r.Bytes(n)), ha())
	}
	for i := 0; i < 5; i++ {
		a, b := bigBits(r, coordBits(r)), bigBits(r, coordBits(r))
		if r.Chance(1, 3) {
			a, b = bigBits(r, r.Pick(256, 255, 250, 248, 240, 384, 383, 300, 385)), bigBits(r, r.Pick(256, 255, 249, 247, 384, 257, 1))
		}
		if r.Chance(1, 25) {
			a.Neg(a)
		}
		emit("C", "set_sig", []string{"ecdsa", "sm2"}[r.Intn(2)], Big(a), Big(b), ha())
	}
	// SignatureData
	for i := 0; i < 3; i++ {
		n := r.Pick(0, 1, 63, 64, 64, 65, 95, 96, 96, 97, 128, 32)
		d := r.Bytes(n)
		if n >= 64 && r.Chance(1, 2) {
			// short components: zero the most significant (last) bytes
			for j := 0; j < r.Range(1, 5); j++ {
				d[n/2-1-j] = 0
			}
			if r.Bool() {
				d[n-1] = 0
			}
		}
		emit("C", "sig_data", N(uint64(r.Pick(0x18, 0x1b, 0x16, 0x14, 0, 1, 0x23))), H(d))
	}
}

func genKeySignature(r *Rng, p *pool, tier string, emit Emit) {
	k := p.anyRSA(r)
	if r.Chance(2, 3) { // keep case files small: mostly the 1024-bit keys for the correspondence
		k = p.rsa1024[r.Intn(len(p.rsa1024))]
	}
	scheme := uint16(r.Pick(int(cbnt.AlgRSASSA), int(cbnt.AlgRSAPSS)))
	ha := uint16(r.Pick(int(cbnt.AlgSHA256), int(cbnt.AlgSHA384)))
	msg := r.Bytes(r.Pick(0, 1, 20, 32, 33, 64, 100))
	sig := rawRSASign(r, k, scheme, ha, msg)
	size, data := rsaKeyFields(&k.PublicKey)
	table := []string{Big(k.N), I(int64(k.E)), N(uint64(scheme)), N(uint64(ha)), H(msg), H(sig)}
	alg, kver, sver, ksver, ssize := uint16(cbnt.AlgRSA), uint8(0x10), uint8(0x10), uint8(0x10), size
	vmsg := msg
	vs, vh, vd, vk, vks := scheme, ha, sig, data, size
	switch r.Intn(16) {
	case 0:
		vmsg = flipRandomBit(r, append(exact(msg), 0)[:len(msg)+r.Intn(2)])
	case 1:
		vd = flipRandomBit(r, sig)
	case 2:
		vk = flipRandomBit(r, data)
	case 3:
		vs = uint16(r.Pick(int(cbnt.AlgRSASSA), int(cbnt.AlgRSAPSS), 0x18, 0x1b, 0, 1))
	case 4:
		vh = uint16(r.Pick(0xb, 0xc, 0xd, 4, 0x12, 0x10, 0, 0x99))
	case 5:
		vks = uint16(r.Pick(int(size)+8, int(size)-8, 0, int(size)+1, int(size)|7))
	case 6:
		alg = uint16(r.Pick(0x23, 0x1b, 0, 0x14))
	case 7: // uncovered fields
		kver, sver, ksver, ssize = uint8(r.U64()), uint8(r.U64()), uint8(r.U64()), uint16(r.U64())
	case 8: // ECDSA / SM2 structure: verification is not implemented
		vs = uint16(r.Pick(0x18, 0x1b))
		vd = r.Bytes(r.Pick(64, 96, 63))
	case 9: // ECC key with an RSA signature
		alg, vks, vk = 0x23, 256, r.Bytes(64)
	case 10: // truncated / extended signature
		vd = append(exact(sig), r.Bytes(2)...)[:len(sig)+r.Pick(-1, 1, 2)]
	}
	args := append(keyArgs(alg, kver, vks, vk), sigArgs(vs, sver, ssize, vh, vd)...)
	args = append(args, N(uint64(ksver)), H(vmsg))
	emit("C", "ks_verify", append(args, table...)...)

	// Boot Guard 1.0: RSASSA / SHA-256 only
	bsig := rawRSASign(r, k, uint16(cbnt.AlgRSASSA), uint16(cbnt.AlgSHA256), msg)
	btable := []string{Big(k.N), I(int64(k.E)), N(0x14), N(0xb), H(msg), H(bsig)}
	bs, bh, bd, bk, bmsg, balg, bks := uint16(0x14), uint16(r.Pick(0xb, 0xb, 0xc, 0, 0x99)), bsig, data, msg, uint16(1), size
	switch r.Intn(10) {
	case 0:
		bmsg = flipRandomBit(r, append(exact(msg), 7))
	case 1:
		bd = flipRandomBit(r, bsig)
	case 2:
		bk = flipRandomBit(r, data)
	case 3:
		bs = uint16(r.Pick(0x16, 0x18, 0, 1))
	case 4:
		bks = uint16(r.Pick(int(size)+8, 0, int(size)-8))
	case 5:
		balg = uint16(r.Pick(0x23, 0, 0x14))
	}
	bargs := append(keyArgs(balg, uint8(r.U64()), bks, bk), sigArgs(bs, uint8(r.U64()), uint16(r.U64()), bh, bd)...)
	bargs = append(bargs, N(uint64(r.Intn(256))), H(bmsg))
	emit("C", "bg_ks_verify", append(bargs, btable...)...)
}

// SetSignature field assembly (scheme detection, hash defaulting, sizes, versions) against the model
func genSetSignature(r *Rng, p *pool, emit Emit) {
	msg := H(r.Bytes(r.Pick(0, 1, 32, 50)))
	// what the structure holds before the call: nothing, or an earlier signature of any kind
	prior := func() []string {
		if r.Chance(1, 5) {
			return append(sigArgs(0, 0, 0, 0, nil), "0")
		}
		sc := uint16(r.Pick(int(cbnt.AlgRSASSA), int(cbnt.AlgRSAPSS), int(cbnt.AlgECDSA), int(cbnt.AlgSM2), 0x55))
		hh := uint16(r.Pick(int(cbnt.AlgSHA256), int(cbnt.AlgSHA384), int(cbnt.AlgSHA512), int(cbnt.AlgSM3), int(cbnt.AlgSHA1), 0x99, int(cbnt.AlgNull)))
		n := r.Pick(64, 96, 128, 256, 384, 3)
		return append(sigArgs(sc, uint8(r.Pick(0x10, 0x55)), uint16(r.Pick(n*8, 256, 0x5555)), hh, r.Bytes(n)),
			N(uint64(r.Pick(int(cbnt.AlgSHA256), int(cbnt.AlgSHA384), 0, 0x99))))
	}
	container := func() string { return []string{"sig", "ks", "ks", "km", "bpm"}[r.Intn(5)] }
	k := p.anyRSA(r)
	sa := r.Pick(0, 0, 0, int(cbnt.AlgRSASSA), int(cbnt.AlgRSASSA), int(cbnt.AlgRSAPSS), int(cbnt.AlgRSAPSS), int(cbnt.AlgECDSA), int(cbnt.AlgSM2), 0x99, 1)
	ha := r.Pick(0, 0, int(cbnt.AlgNull), int(cbnt.AlgNull), int(cbnt.AlgSHA256), int(cbnt.AlgSHA384), int(cbnt.AlgSHA1), int(cbnt.AlgSHA512), int(cbnt.AlgSM3), 0x99)
	emit("C", "set_signature", append([]string{container(), privSpec(k), "rsa", Big(k.N), I(int64(k.E)), N(uint64(sa)), N(uint64(ha)), msg, N(r.U64() >> 1)}, prior()...)...)
	e := p.ecc[r.Intn(len(p.ecc))]
	sa = r.Pick(0, 0, int(cbnt.AlgECDSA), int(cbnt.AlgECDSA), int(cbnt.AlgSM2), 0x99)
	ha = r.Pick(0, 0, int(cbnt.AlgNull), int(cbnt.AlgSHA256), int(cbnt.AlgSHA384), int(cbnt.AlgSHA1), int(cbnt.AlgSHA512), int(cbnt.AlgSM3), 0x99)
	emit("C", "set_signature", append([]string{container(), privSpec(e), "ecc", Big(e.X), Big(e.Y), N(uint64(sa)), N(uint64(ha)), msg, N(r.U64() >> 1)}, prior()...)...)
	s := p.sm[r.Intn(len(p.sm))]
	sa = r.Pick(0, 0, int(cbnt.AlgSM2), int(cbnt.AlgSM2), int(cbnt.AlgECDSA), 0x99)
	emit("C", "set_signature", append([]string{container(), privSpec(s), "sm2", Big(s.X), Big(s.Y), N(uint64(sa)), N(uint64(ha)), msg, N(r.U64() >> 1)}, prior()...)...)
}

// sequences of signing operations on one structure: every step is a valid (key, scheme, hash)
func genResign(r *Rng, p *pool, it int, emit Emit) {
	type step struct {
		key          crypto.Signer
		scheme, hash int
	}
	pss, ssa, ecd, sm := int(cbnt.AlgRSAPSS), int(cbnt.AlgRSASSA), int(cbnt.AlgECDSA), int(cbnt.AlgSM2)
	rsaStep := func() step {
		var k *rsa.PrivateKey
		switch r.Intn(8) {
		case 0, 1, 2:
			k = p.rsa2048[r.Intn(len(p.rsa2048))]
		case 3, 4:
			k = p.rsa1024[r.Intn(len(p.rsa1024))]
		case 5, 6:
			k = p.rsa3072[r.Intn(len(p.rsa3072))]
		default:
			k = p.rsa4096[r.Intn(len(p.rsa4096))]
		}
		sc := r.Pick(pss, ssa)
		if (k.Size() == 256 || k.Size() == 384) && r.Chance(1, 2) {
			sc = 0
		}
		return step{k, sc, r.Pick(0, 0, 0, int(cbnt.AlgNull), int(cbnt.AlgSHA256), int(cbnt.AlgSHA384))}
	}
	ecStep := func() step {
		if r.Bool() {
			return step{p.ecc[r.Intn(len(p.ecc))], r.Pick(ecd, 0), r.Pick(0, 0, int(cbnt.AlgNull), int(cbnt.AlgSHA256), int(cbnt.AlgSHA384), int(cbnt.AlgSHA512))}
		}
		return step{p.sm[r.Intn(len(p.sm))], r.Pick(sm, 0), r.Pick(0, 0, int(cbnt.AlgSM3))}
	}
	var steps []step
	switch it % 6 {
	case 0: // RSAPSS with its default hash, then detection with a 2048-bit key (RSASSA, SHA-256)
		steps = []step{{p.rsa2048[0], pss, 0}, {p.rsa2048[r.Intn(len(p.rsa2048))], 0, 0}}
	case 1: // RSASSA/SHA-256, then RSAPSS with a null hash
		steps = []step{{p.rsa2048[0], ssa, int(cbnt.AlgSHA256)}, {p.rsa1024[0], pss, int(cbnt.AlgNull)}}
	case 2: // explicit non-default hash, then null with the same scheme, then the other scheme
		sc := r.Pick(pss, ssa)
		other := map[int]int{pss: ssa, ssa: pss}[sc]
		nd := map[int]int{pss: int(cbnt.AlgSHA256), ssa: int(cbnt.AlgSHA384)}[sc]
		steps = []step{{p.rsa1024[1], sc, nd}, {p.rsa1024[1], sc, 0}, {p.rsa3072[0], other, 0}}
	case 3: // an elliptic-curve signature first, then RSA with a null hash, and back
		steps = []step{ecStep(), rsaStep(), ecStep()}
		steps[1].hash = 0
	default:
		for i := r.Range(2, 4); i > 0; i-- {
			if r.Chance(1, 4) {
				steps = append(steps, ecStep())
			} else {
				steps = append(steps, rsaStep())
			}
		}
	}
	container := []string{"ks", "sig", "km", "bpm", "ks", "km"}[(it/6+it)%6]
	args := []string{container, N(r.U64() >> 1), N(uint64(len(steps)))}
	for _, st := range steps {
		rt := "0"
		if r.Chance(1, 2) {
			rt = "1"
		}
		args = append(args, privSpec(st.key), N(uint64(st.scheme)), N(uint64(st.hash)), H(r.Bytes(r.Pick(1, 24, 32, 60))), rt)
	}
	emit("P", "p_resign", args...)
}

func genSignOracles(r *Rng, p *pool, tier string, it int, emit Emit) {
	all := tierFlag(tier)
	msg := r.Bytes(r.Pick(1, 16, 32, 33, 48, 64, 200))
	seed := N(r.U64() >> 1)
	// RSA: every scheme/hash combination the verifier supports, plus auto detection
	k := p.anyRSA(r)
	if it%4 != 0 {
		k = p.rsa1024[r.Intn(len(p.rsa1024))]
		if it%4 == 1 {
			k = p.rsa2048[r.Intn(len(p.rsa2048))]
		}
	}
	scheme := r.Pick(int(cbnt.AlgRSASSA), int(cbnt.AlgRSAPSS))
	ha := r.Pick(0, int(cbnt.AlgNull), int(cbnt.AlgSHA256), int(cbnt.AlgSHA384))
	if (k.Size() == 256 || k.Size() == 384) && r.Chance(1, 4) {
		scheme, ha = 0, 0 // SetSignatureAuto
	}
	emit("P", "p_sign_verify", privSpec(k), privSpec(p.otherRSA(r, k)), N(uint64(scheme)), N(uint64(ha)), H(msg), seed, all)
	if it%3 == 0 {
		emit("P", "p_bg_sign_verify", privSpec(k), privSpec(p.otherRSA(r, k)), N(uint64(r.Intn(2))), H(msg), seed, all)
	}
	// ECDSA P-256 and SM2
	for j := 0; j < 3; j++ {
		e := p.ecc[r.Intn(len(p.ecc))]
		o := p.ecc[(indexOfECC(p, e)+1)%len(p.ecc)]
		es := r.Pick(int(cbnt.AlgECDSA), int(cbnt.AlgECDSA), 0)
		eh := r.Pick(0, int(cbnt.AlgNull), int(cbnt.AlgSHA256), int(cbnt.AlgSHA384), int(cbnt.AlgSHA512))
		emit("P", "p_sign_verify", privSpec(e), privSpec(o), N(uint64(es)), N(uint64(eh)), H(r.Bytes(r.Pick(1, 31, 32, 33, 64, 120))), N(r.U64()>>1), all)
	}
	s := p.sm[r.Intn(len(p.sm))]
	so := p.sm[(indexOfSM(p, s)+1)%len(p.sm)]
	if it%3 == 0 || tier == "thorough" {
		emit("P", "p_sign_verify", privSpec(s), privSpec(so), N(uint64(r.Pick(int(cbnt.AlgSM2), 0))), N(uint64(r.Pick(0, int(cbnt.AlgSM3)))), H(r.Bytes(r.Pick(1, 32, 77))), N(r.U64()>>1), all)
	}
	// public points with a short coordinate (found by search, deterministic)
	if it%5 == 0 {
		rr := r.Fork(77)
		for tries := 0; tries < 20000; tries++ {
			kk, err := ecdsa.GenerateKey(elliptic.P256(), rngReader{rr})
			if err != nil {
				break
			}
			if kk.X.BitLen() <= 248 || kk.Y.BitLen() <= 248 {
				emit("P", "p_key_roundtrip", "ecc", Big(kk.X), Big(kk.Y))
				emit("P", "p_sign_verify", privSpec(kk), privSpec(p.ecc[0]), N(uint64(cbnt.AlgECDSA)), N(uint64(cbnt.AlgSHA256)), H(r.Bytes(40)), N(r.U64()>>1), all)
				break
			}
		}
	}
	e := p.ecc[r.Intn(len(p.ecc))]
	emit("P", "p_key_roundtrip", "ecc", Big(e.X), Big(e.Y))
	emit("P", "p_key_roundtrip", "sm2", Big(s.X), Big(s.Y))
	// ECDSA with the remaining hash algorithms of the library
	if it%4 == 1 {
		rh := r.Fork(88)
		e := p.ecc[rh.Intn(len(p.ecc))]
		o := p.ecc[(indexOfECC(p, e)+1)%len(p.ecc)]
		emit("P", "p_sign_verify", privSpec(e), privSpec(o), N(uint64(rh.Pick(int(cbnt.AlgECDSA), 0))), N(uint64(rh.Pick(int(cbnt.AlgSHA1), int(cbnt.AlgSM3)))),
			H(rh.Bytes(rh.Pick(1, 19, 20, 21, 32, 90))), N(rh.U64()>>1), all)
	}
}

func indexOfECC(p *pool, k *ecdsa.PrivateKey) int {
	for i, x := range p.ecc {
		if x == k {
			return i
		}
	}
	return 0
}
func indexOfSM(p *pool, k *sm2.PrivateKey) int {
	for i, x := range p.sm {
		if x == k {
			return i
		}
	}
	return 0
}

func sha256Of(b []byte) []byte { s := sha256.Sum256(b); return s[:] }

func genBpmKey(r *Rng, p *pool, tier string, it int, emit Emit) {
	k := p.rsa1024[r.Intn(len(p.rsa1024))]
	_, data := rsaKeyFields(&k.PublicKey)
	good := sha256Of(data[4:])
	// cbnt: list of entries
	n := r.Pick(0, 1, 1, 1, 2, 2, 3)
	var args []string
	args = append(args, N(uint64(n)))
	for i := 0; i < n; i++ {
		usage := []uint64{1, 1, 1, 1, 3, 2, 0, 0x11, 0x8000000000000001, 0x4000000000000000}[r.Intn(10)]
		alg, buf := 0xb, exact(good)
		switch r.Intn(16) {
		case 0:
			buf = flipRandomBit(r, buf)
		case 1:
			alg = r.Pick(0x99, 0, 0x10, 1)
		case 2:
			buf = buf[:r.Pick(0, 31, 20)]
		case 3:
			alg, buf = r.Pick(4, 0xc, 0xd, 0x12), r.Bytes(r.Pick(32, 21, 47, 63, 0)) // wrong length for the algorithm
			if alg == 0x12 && len(buf) == 32 {
				buf = buf[:31] // 32 bytes IS the SM3 length; the model's hash oracle is instantiated for SHA-256 only
			}
		}
		args = append(args, N(usage), N(uint64(alg)), H(buf))
	}
	kalg, kd := 1, data
	switch r.Intn(12) {
	case 0:
		kd = flipRandomBit(r, data)
	case 1:
		kd = data[:r.Pick(0, 1, 3, 4, 5)]
	case 2:
		kalg = r.Pick(0x23, 0x1b, 0)
	case 3: // the exponent is not hashed
		kd = exact(data)
		copy(kd, r.Bytes(4))
	}
	emit("C", "bpmkey", append(args, N(uint64(kalg)), H(kd))...)
	// bg: a single digest
	balg, bbuf := 0xb, exact(good)
	switch r.Intn(7) {
	case 0:
		bbuf = flipRandomBit(r, bbuf)
	case 1:
		balg = r.Pick(0xc, 0x99, 0)
	case 2:
		bbuf = bbuf[:r.Pick(0, 20, 31)]
	case 3:
		balg, bbuf = 4, r.Bytes(r.Pick(32, 19))
	}
	emit("C", "bg_bpmkey", N(uint64(balg)), H(bbuf), N(uint64(kalg)), H(kd))
	if it%2 == 0 {
		kk := p.anyRSA(r)
		emit("P", "p_bpmkey", "cbnt", privSpec(kk), privSpec(p.otherRSA(r, kk)), N(uint64(r.Pick(4, 0xb, 0xc, 0xd, 0x12))), N(uint64(r.Intn(3))), N(r.U64()>>1), tierFlag(tier))
		emit("P", "p_bpmkey", "bg", privSpec(kk), privSpec(p.otherRSA(r, kk)), N(uint64(r.Pick(4, 0xb))), "0", N(r.U64()>>1), tierFlag(tier))
	}
}

func genSegs(r *Rng, fwLen int, valid bool) []segArg {
	n := r.Pick(0, 1, 1, 2, 3, 5)
	var out []segArg
	start := uint64(1)<<32 - uint64(fwLen)
	for i := 0; i < n; i++ {
		size := 0
		if fwLen > 0 {
			size = r.Intn(fwLen/2 + 2)
		}
		off := 0
		if fwLen-size > 0 {
			off = r.Intn(fwLen - size + 1)
		} else {
			size = 0
		}
		flags := uint16(r.Pick(0, 0, 0, 2, 1, 3, 0xfffe))
		g := segArg{flags: flags, base: uint32(start + uint64(off)), size: uint32(size)}
		if !valid {
			switch r.Intn(8) {
			case 0:
				g.size = uint32(fwLen - off + r.Pick(1, 2, 100))
			case 1:
				g.base = uint32(start - uint64(r.Pick(1, 2, 4096)))
			case 2:
				g.base, g.size = 0xffffffff, uint32(r.Pick(1, 2))
			case 3:
				g.base = uint32(r.U64())
			case 4:
				g.size = 0xffffffff
			}
		}
		out = append(out, g)
	}
	return out
}

// segment lists at the boundaries: the whole image, segments that start at the first or end with the last byte
// of the image, empty segments (also at the very end), adjacent, overlapping and repeated segments, non-hashed
// segments that are not backed by the image; every hashed segment lies inside the image
func genSegsBoundary(r *Rng, fwLen int) []segArg {
	start := uint64(1)<<32 - uint64(fwLen)
	var out []segArg
	pOff, pSize := 0, 0
	for i, n := 0, r.Pick(1, 2, 3, 4, 6); i < n; i++ {
		off, size := 0, 0
		flags := uint16(r.Pick(0, 0, 0, 0, 2, 0xfffe))
		switch r.Intn(9) {
		case 0:
			size = fwLen
		case 1: // ends with the last byte
			size = r.Range(0, fwLen)
			off = fwLen - size
		case 2: // starts with the first byte
			size = r.Range(0, fwLen)
		case 3: // empty
			off = r.Range(0, fwLen-1)
		case 4: // directly behind the previous one
			off = pOff + pSize
			size = r.Range(0, fwLen-off)
		case 5: // overlapping the previous one
			off = pOff + pSize/2
			size = r.Range(0, fwLen-off)
		case 6: // the previous one again
			off, size = pOff, pSize
		case 7: // not hashed (inside the image, like every segment of a well-formed manifest)
			flags = uint16(r.Pick(1, 3, 0xffff))
			size = r.Range(0, fwLen)
			off = r.Range(0, fwLen-size)
		default:
			size = r.Range(0, fwLen)
			off = r.Range(0, fwLen-size)
		}
		if off >= fwLen { // base 4 GiB does not fit the 32-bit field: the last byte, or nothing of it
			off, size = fwLen-1, r.Intn(2)
		}
		out = append(out, segArg{flags: flags, base: uint32(start + uint64(off)), size: uint32(size)})
		pOff, pSize = off, size
	}
	return out
}

func segArgs(s []segArg) []string {
	a := []string{N(uint64(len(s)))}
	for _, g := range s {
		a = append(a, N(uint64(g.flags)), N(uint64(g.base)), N(uint64(g.size)))
	}
	return a
}

func ibbStream(fw []byte, segs []segArg) ([]byte, bool) {
	var st []byte
	for _, g := range segs {
		if g.flags&1 == 1 {
			continue
		}
		off := uint64(g.base) - (uint64(1)<<32 - uint64(len(fw)))
		end := off + uint64(g.size)
		if off > end || end > uint64(len(fw)) {
			return nil, false
		}
		st = append(st, fw[off:end]...)
	}
	return st, true
}

func genIbb(r *Rng, tier string, it int, emit Emit) {
	fwLen := r.Pick(1, 16, 16, 64, 64, 200, 300, 600)
	if r.Chance(1, 25) {
		fwLen = 0
	}
	fw := r.Bytes(fwLen)
	valid := r.Chance(5, 6)
	segs := genSegs(r, fwLen, valid)
	emit("C", "ibb_ranges", append([]string{N(uint64(r.Pick(fwLen, fwLen, 0, 1<<24, 1<<32, 1<<33)))}, segArgs(segs)...)...)
	emit("C", "bg_ibb_ranges", append([]string{N(uint64(fwLen))}, segArgs(segs)...)...)
	st, _ := ibbStream(fw, segs)
	dig := sha256Of(st)
	alg := 0xb
	switch r.Intn(8) {
	case 0:
		dig = flipRandomBit(r, dig)
	case 1:
		alg = r.Pick(0x99, 0, 0x10)
	case 2:
		dig = dig[:r.Pick(0, 31)]
	}
	vfw := fw
	if r.Chance(1, 3) {
		vfw = flipRandomBit(r, fw)
	}
	// cbnt: nSE {ndig {alg buf} nseg ...}
	nse := r.Pick(1, 1, 1, 1, 1, 2, 2, 0)
	args := []string{N(uint64(nse))}
	for i := 0; i < nse; i++ {
		if i == 0 {
			nd := r.Pick(1, 1, 1, 1, 2, 2, 2, 0)
			args = append(args, N(uint64(nd)))
			for j := 0; j < nd; j++ {
				if j == 0 {
					args = append(args, N(uint64(alg)), H(dig))
				} else {
					args = append(args, N(uint64(r.Pick(4, 0xb, 0x99))), H(r.Bytes(20)))
				}
			}
			args = append(args, segArgs(segs)...)
		} else {
			args = append(args, "1", N(0xb), H(r.Bytes(32)))
			args = append(args, segArgs(genSegs(r, fwLen, false))...)
		}
	}
	emit("C", "ibb_validate", append(args, H(vfw))...)
	bnse := r.Pick(1, 1, 1, 1, 2, 2, 0)
	bargs := []string{N(uint64(bnse))}
	for i := 0; i < bnse; i++ {
		if i == 0 {
			bargs = append(bargs, N(uint64(alg)), H(dig))
			bargs = append(bargs, segArgs(segs)...)
		} else {
			bargs = append(bargs, N(4), H(r.Bytes(20)))
			bargs = append(bargs, segArgs(genSegs(r, fwLen, false))...)
		}
	}
	emit("C", "bg_ibb_validate", append(bargs, H(vfw))...)
	if it%2 == 0 {
		pl := r.Pick(16, 64, 200, 300)
		pfw := r.Bytes(pl)
		psegs := genSegs(r, pl, true)
		emit("P", "p_ibb", append(append([]string{"cbnt", N(uint64(r.Pick(4, 0xb, 0xc, 0xd, 0x12))), H(pfw)}, segArgs(psegs)...), N(r.U64()>>1), tierFlag(tier))...)
		emit("P", "p_ibb", append(append([]string{"bg", N(uint64(r.Pick(4, 0xb))), H(pfw)}, segArgs(psegs)...), N(r.U64()>>1), tierFlag(tier))...)
	} else {
		rb := r.Fork(9)
		pl := rb.Pick(1, 16, 100, 255, 256, 257, 300)
		pfw := rb.Bytes(pl)
		psegs := genSegsBoundary(rb, pl)
		emit("P", "p_ibb", append(append([]string{"cbnt", N(uint64(rb.Pick(4, 0xb, 0xc, 0xd, 0x12))), H(pfw)}, segArgs(psegs)...), N(rb.U64()>>1), tierFlag(tier))...)
		emit("P", "p_ibb", append(append([]string{"bg", N(uint64(rb.Pick(4, 0xb))), H(pfw)}, segArgs(psegs)...), N(rb.U64()>>1), tierFlag(tier))...)
		// the same lists through the model
		emit("C", "ibb_ranges", append([]string{N(uint64(pl))}, segArgs(psegs)...)...)
		st, _ := ibbStream(pfw, psegs)
		emit("C", "ibb_validate", append(append([]string{"1", "1", N(0xb), H(sha256Of(st))}, segArgs(psegs)...), H(pfw))...)
		emit("C", "bg_ibb_validate", append(append([]string{"1", N(0xb), H(sha256Of(st))}, segArgs(psegs)...), H(pfw))...)
	}
}

func putU32(b []byte, off int, v uint32) {
	if off+4 <= len(b) {
		binary.LittleEndian.PutUint32(b[off:], v)
	}
}

func genPsb(r *Rng, p *pool, tier string, it int, emit Emit) {
	k := p.rsa2048[r.Intn(len(p.rsa2048))]
	if r.Chance(1, 12) {
		k = p.rsa4096[r.Intn(len(p.rsa4096))]
	}
	id := r.Bytes(16)
	conv := r.Intn(2)
	payload := r.Pick(1, 15, 16, 17, 100, 200)
	gap, tail := 0, r.Pick(0, 0, 1, 20)
	if conv == 0 {
		gap = r.Pick(0, 0, 1, 16, 40)
	}
	l := buildPSP(r, k, id, conv, payload, gap, tail)
	keyRaw := psbRootKeyBytes(&k.PublicKey, id, 0, r)
	hname := "b"
	if k.Size() == 512 {
		hname = "c"
	}
	table := []string{Big(k.N), I(int64(k.E)), hname, H(l.raw[:l.signedEnd]), H(l.raw[l.sigStart:l.sigEnd])}
	keys := [][]byte{keyRaw}
	raw := exact(l.raw)
	const offSigned, offParams, offComp, offCSize, offImage = 20, 56, 72, 84, 108
	switch r.Intn(22) {
	case 0:
		raw = flipRandomBit(r, raw)
	case 1:
		putU32(raw, offSigned, 0)
	case 2:
		putU32(raw, offImage, 0)
	case 3:
		copy(raw[offParams:], r.Bytes(16))
	case 4: // exponent size differs from modulus size
		n := k.Size()
		e := n - r.Pick(1, 8)
		keys = [][]byte{psbKeyBytes(1, id, id, 0, r.Bytes(16), uint32(e*8), uint32(n*8), leBytes(big.NewInt(int64(k.E)), e), leBytes(k.N, n))}
	case 5:
		putU32(raw, offSigned, uint32(r.Pick(int(l.sigEnd)+1, 0x7fffffff, 0xffffffff)))
		putU32(raw, offComp, 0)
	case 6:
		putU32(raw, offImage, uint32(r.Pick(k.Size(), k.Size()-1, 1, k.Size()+1)))
		putU32(raw, offComp, 0)
		putU32(raw, offSigned, 1)
	case 7:
		raw = raw[:r.Pick(0, 100, 207, 208, 256, l.signedEnd-1, l.signedEnd, l.sigEnd-1)]
	case 8: // compressed size near the top of uint32: the alignment and the additions wrap
		putU32(raw, offComp, 1)
		putU32(raw, offCSize, uint32(r.Pick(0xffffffff, 0xfffffff1, 0xfffffff0, 0xffffff00, 0xfffffef0, 0xfffffdff)))
	case 9:
		putU32(raw, offComp, uint32(r.Pick(0, 1, 0x80000000)))
	case 10: // signed range overlapping the signature (uncompressed)
		putU32(raw, offComp, 0)
		putU32(raw, offImage, uint32(l.sigEnd))
		putU32(raw, offSigned, uint32(r.Pick(l.sigEnd, l.sigEnd-0x100, l.sigStart-0x100+1)))
	case 11: // key with an empty exponent or modulus, or an odd size
		keys = [][]byte{psbKeyBytes(1, id, id, 0, r.Bytes(16), 0, 0, nil, nil)}
	case 12:
		o := p.rsa1024[0]
		keys = [][]byte{psbRootKeyBytes(&o.PublicKey, id, 0, r)}
	case 13: // several keys, the right one last
		o := p.rsa2048[(r.Intn(len(p.rsa2048)))]
		keys = [][]byte{psbRootKeyBytes(&o.PublicKey, r.Bytes(16), 8, r), keyRaw}
	case 14: // exponent with high bytes set (only the low 64 bits are used)
		kr := exact(keyRaw)
		kr[64+r.Pick(4, 7, 8, 9, k.Size()-1)] ^= byte(1 << uint(r.Intn(8)))
		keys = [][]byte{kr}
	case 15:
		keys = nil
	case 16: // payload of zero bytes: nothing beyond the header
		putU32(raw, offComp, 1)
		putU32(raw, offCSize, 0)
	case 17: // two keys in the set: the header names the first, the signature was made by the second
		o := p.rsa2048[0]
		if o == k || k.Size() != o.Size() {
			o = p.rsa2048[1]
		}
		if o != k && o.Size() == k.Size() {
			l2 := buildPSP(r, o, id, conv, payload, gap, tail)
			raw = exact(l2.raw)
			keys = [][]byte{keyRaw, psbRootKeyBytes(&o.PublicKey, r.Bytes(16), 0, r)}
		}
	}
	args := []string{N(uint64(len(keys)))}
	for _, kr := range keys {
		args = append(args, H(kr))
	}
	args = append(args, H(raw))
	emit("C", "psp_validate", append(args, table...)...)
	if it%3 == 0 {
		kk := p.psbRSA(r)
		pc := r.Intn(2)
		pg := 0
		if pc == 0 {
			pg = r.Pick(0, 1, 24)
		}
		emit("P", "p_psb", privSpec(kk), privSpec(p.otherPsbRSA(r, kk)), N(uint64(pc)), N(uint64(r.Pick(1, 16, 33, 120))), N(uint64(pg)), N(uint64(r.Pick(0, 9))), N(r.U64()>>1), tierFlag(tier))
	}
}

func genToken(r *Rng, p *pool, tier string, it int, emit Emit) {
	root := p.rsa2048[r.Intn(len(p.rsa2048))]
	tk := p.rsa1024[r.Intn(len(p.rsa1024))]
	if r.Chance(1, 4) {
		tk = p.rsa2048[r.Intn(len(p.rsa2048))]
	}
	rootID := r.Bytes(16)
	rootRaw := psbRootKeyBytes(&root.PublicKey, rootID, 0, r)
	tok := buildToken(r, &tk.PublicKey, root, rootID, uint32(r.Pick(0, 1, 2, 8)))
	signedLen := 64 + 2*tk.Size()
	table := []string{Big(root.N), I(int64(root.E)), "b", H(tok[:signedLen]), H(reversed(tok[signedLen : signedLen+root.Size()]))}
	raw := append(exact(tok), r.Bytes(r.Pick(0, 0, 3))...)
	keys := [][]byte{rootRaw}
	switch r.Intn(16) {
	case 0:
		raw = flipRandomBit(r, raw)
	case 1:
		raw = raw[:r.Pick(0, 10, 63, 64, 65, 64+tk.Size(), signedLen-1, signedLen, signedLen+1, len(tok)-1)]
	case 2:
		copy(raw[20:36], r.Bytes(16))
	case 3:
		putU32(raw, 56, uint32(r.Pick(tk.Size()*8+1, 7, tk.Size()*8+8, tk.Size()*8-8, 0)))
	case 4:
		putU32(raw, 60, uint32(r.Pick(tk.Size()*8+4, 9, tk.Size()*8+8, tk.Size()*8-8, 0, 0x10000+tk.Size()*8)))
	case 5:
		keys = nil
	case 6:
		keys = [][]byte{psbKeyBytes(1, rootID, rootID, 0, r.Bytes(16), 0, 2048, nil, r.Bytes(256))}
	case 7:
		keys = [][]byte{psbRootKeyBytes(&p.rsa1024[0].PublicKey, rootID, 0, r)}
	case 8:
		raw = flipped(raw, (signedLen+r.Intn(root.Size()))*8+r.Intn(8))
	case 9: // exponent size 0 with a 4096-bit modulus: the signed length exceeds what was read
		big := &p.rsa4096[0].PublicKey
		raw = buildToken(r, big, root, rootID, 0)
		putU32(raw, 56, 0)
		raw = raw[:r.Pick(64+512+256, 900, 64+1024-1, 64+1024)]
	case 10: // a token that names itself as its certifier and is signed with its own key
		n := tk.Size()
		selfID := r.Bytes(16)
		body := psbKeyBytes(uint32(r.U64()), selfID, selfID, uint32(r.Pick(0, 8)), r.Bytes(16), uint32(n*8), uint32(n*8),
			leBytes(big.NewInt(int64(tk.E)), n), leBytes(tk.N, n))
		raw = append(body, reversed(pssSign(tk, body, r))...)
	case 11: // certified by the second key of the set, which has another size than the token's key
		o := p.rsa4096[0]
		oid := r.Bytes(16)
		keys = [][]byte{rootRaw, psbRootKeyBytes(&o.PublicKey, oid, 0, r)}
		raw = buildToken(r, &tk.PublicKey, o, oid, 8)
		sl := 64 + 2*tk.Size()
		table = []string{Big(o.N), I(int64(o.E)), "c", H(raw[:sl]), H(reversed(raw[sl : sl+o.Size()]))}
	}
	args := []string{N(uint64(len(keys)))}
	for _, kr := range keys {
		args = append(args, H(kr))
	}
	args = append(args, H(raw))
	emit("C", "token_key", append(args, table...)...)
	// NewRootKey
	rk := exact(rootRaw)
	switch r.Intn(6) {
	case 0:
		rk = flipRandomBit(r, rk)
	case 1:
		rk = rk[:r.Pick(0, 63, 64, 100, len(rk)-1)]
	case 2:
		putU32(rk, 56, uint32(r.Pick(3, 0, 16)))
	}
	emit("C", "root_key", H(rk))
	if it%4 == 0 {
		pr := p.psbRSA(r)
		emit("P", "p_token", privSpec(pr), privSpec(p.anyRSA(r)), privSpec(p.otherPsbRSA(r, pr)), N(uint64(r.Pick(0, 5))), N(r.U64()>>1), tierFlag(tier))
	}
}

// whole AMD images: key chain (AMD root key, key database, ABL and OEM tokens), RTM volume, signed PSP binaries
func genAmdImage(r *Rng, p *pool, tier string, it int, emit Emit) {
	k2 := []*rsa.PrivateKey{p.rsa2048[0], p.rsa2048[1], p.extra2048}
	for i := len(k2) - 1; i > 0; i-- {
		j := r.Intn(i + 1)
		k2[i], k2[j] = k2[j], k2[i]
	}
	amd, oem, other := k2[0], k2[1], k2[2]
	abl, dbk := p.rsa1024[r.Intn(len(p.rsa1024))], other
	switch r.Intn(4) {
	case 0: // a 4096-bit root key
		amd, other = p.rsa4096[r.Intn(len(p.rsa4096))], amd
	case 1: // a 4096-bit OEM key
		oem, abl = p.rsa4096[r.Intn(len(p.rsa4096))], oem
	case 2: // small database key: only the root key certifies
		dbk, abl = p.rsa1024[r.Intn(len(p.rsa1024))], other
	}
	level := 1 + (it/6)%2
	emit("P", "p_amd_image", privSpec(amd), privSpec(oem), privSpec(abl), privSpec(dbk), privSpec(other), N(uint64(level)), N(r.U64()>>1), tierFlag(tier))
	rc := r.Fork(3)
	for i := 0; i < 3; i++ {
		genRtmCases(rc, amdKeys{amd: amd, oem: oem, abl: abl, dbk: dbk, other: other}, uint(1+rc.Intn(2)), emit)
	}
}

func gen(r *Rng, tier string, emit Emit) {
	n := 60
	if tier == "thorough" {
		n = 300 // every flip sweep is exhaustive in this tier: about 3 s per iteration
	}
	p := newPool(r.Fork(1), tier)
	for it := 0; it < n; it++ {
		rr := r.Fork(uint64(1000 + it))
		genEncodings(rr.Fork(1), emit)
		genKeySignature(rr.Fork(2), p, tier, emit)
		genSignOracles(rr.Fork(3), p, tier, it, emit)
		genSetSignature(rr.Fork(13), p, emit)
		genResign(rr.Fork(14), p, it, emit)
		genBpmKey(rr.Fork(4), p, tier, it, emit)
		genIbb(rr.Fork(5), tier, it, emit)
		genPsb(rr.Fork(6), p, tier, it, emit)
		genPsb(rr.Fork(16), p, tier, 1, emit)
		genToken(rr.Fork(7), p, tier, it, emit)
		genToken(rr.Fork(17), p, tier, 1, emit)
		if it%6 == 2 || (tier == "thorough" && it%12 == 5) {
			genAmdImage(rr.Fork(18), p, tier, it, emit)
		}
		if it%15 == 0 { // last, so that the other streams keep their values
			rh := rr.Fork(19)
			msg := H(rh.Bytes(rh.Pick(0, 1, 55, 56, 64, 111, 112, 128, 200)))
			emit("P", "p_hash_table", "cbnt", msg)
			emit("P", "p_hash_table", "bg", msg)
		}
	}
}
