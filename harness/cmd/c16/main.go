// c16: executor and generator for property C16 (integrity verdicts:
// pkg/intel/metadata/cbnt, pkg/intel/metadata/bg, pkg/amd/psb).
//
// C ops are also evaluated by the extracted Coq model (ocaml/c16/run.ml); the
// cryptographic oracles of the model are instantiated there with SHA-256 and,
// for signatures, with the one (key, scheme, hash, message, signature) tuple
// the generator produced with the real signer and passes along ("table").
// P ops run property oracles on the implementation with real keys.
package main

import (
	"bytes"
	"crypto/ecdsa"
	"crypto/elliptic"
	"crypto/rsa"
	"encoding/binary"
	"fmt"
	"math/big"
	"strings"
	"time"

	amd_manifest "github.com/linuxboot/fiano/pkg/amd/manifest"
	"github.com/linuxboot/fiano/pkg/amd/psb"
	"github.com/linuxboot/fiano/pkg/intel/metadata/bg"
	"github.com/linuxboot/fiano/pkg/intel/metadata/bg/bgbootpolicy"
	"github.com/linuxboot/fiano/pkg/intel/metadata/bg/bgkey"
	"github.com/linuxboot/fiano/pkg/intel/metadata/cbnt"
	"github.com/linuxboot/fiano/pkg/intel/metadata/cbnt/cbntbootpolicy"
	"github.com/linuxboot/fiano/pkg/intel/metadata/cbnt/cbntkey"
	"github.com/linuxboot/fiano/pkg/uefi"
	"github.com/tjfoc/gmsm/sm2"
	. "verifharness/common"
)

func bigArg(s string) *big.Int {
	v, ok := new(big.Int).SetString(s, 16)
	if !ok {
		panic("bad big number in case file: " + s)
	}
	return v
}

// exact returns a copy of b whose capacity equals its length (Go slices may be
// re-sliced up to their capacity; the model speaks about the length).
func exact(b []byte) []byte {
	c := make([]byte, len(b))
	copy(c, b)
	return c[:len(b):len(b)]
}

// ---------- cbnt / bg Key ----------

func keyObs(alg uint16, ver uint8, size uint16, data []byte) string {
	return fmt.Sprintf("ok %x %x %x %s", alg, ver, size, H(data))
}

func pubArg(args []string) interface{} {
	switch args[0] {
	case "rsa":
		return &rsa.PublicKey{N: bigArg(args[1]), E: int(UnI(args[2]))}
	case "ecc":
		return &ecdsa.PublicKey{Curve: elliptic.P256(), X: bigArg(args[1]), Y: bigArg(args[2])}
	case "sm2":
		return &sm2.PublicKey{Curve: sm2.P256Sm2(), X: bigArg(args[1]), Y: bigArg(args[2])}
	}
	panic("bad key kind")
}

func opSetPubKey(args []string) string {
	var k cbnt.Key
	if err := k.SetPubKey(pubArg(args)); err != nil {
		return "err 4"
	}
	return keyObs(uint16(k.KeyAlg), k.Version, uint16(k.KeySize), k.Data)
}

func opBgSetPubKey(args []string) string {
	var k bg.Key
	if err := k.SetPubKey(pubArg(args)); err != nil {
		return "err 2"
	}
	return keyObs(uint16(k.KeyAlg), k.Version, uint16(k.KeySize), k.Data)
}

func cbntKeyArg(a []string) cbnt.Key {
	return cbnt.Key{KeyAlg: cbnt.Algorithm(UnN(a[0])), Version: uint8(UnN(a[1])), KeySize: cbnt.BitSize(UnN(a[2])), Data: exact(UnH(a[3]))}
}
func bgKeyArg(a []string) bg.Key {
	return bg.Key{KeyAlg: bg.Algorithm(UnN(a[0])), Version: uint8(UnN(a[1])), KeySize: bg.BitSize(UnN(a[2])), Data: exact(UnH(a[3]))}
}

func pubObs(pk interface{}, err error) string {
	if err != nil {
		return "err 2"
	}
	switch k := pk.(type) {
	case *rsa.PublicKey:
		return fmt.Sprintf("ok rsa %s %s", Big(k.N), I(int64(k.E)))
	case ecdsa.PublicKey:
		return fmt.Sprintf("ok ecc %s %s", Big(k.X), Big(k.Y))
	case sm2.PublicKey:
		return fmt.Sprintf("ok sm2 %s %s", Big(k.X), Big(k.Y))
	}
	return fmt.Sprintf("harness-error unexpected key type %T", pk)
}

func opPubKey(args []string) string   { return pubObs(cbntKeyArg(args).PubKey()) }
func opBgPubKey(args []string) string { return pubObs(bgKeyArg(args).PubKey()) }

// ---------- cbnt Signature ----------

func sigDataArg(a []string) (cbnt.SignatureDataInterface, []string) {
	switch a[0] {
	case "pss":
		return cbnt.SignatureRSAPSS(exact(UnH(a[1]))), a[2:]
	case "ssa":
		return cbnt.SignatureRSAASA(exact(UnH(a[1]))), a[2:]
	case "ecdsa":
		return cbnt.SignatureECDSA{R: bigArg(a[1]), S: bigArg(a[2])}, a[3:]
	case "sm2":
		return cbnt.SignatureSM2{R: bigArg(a[1]), S: bigArg(a[2])}, a[3:]
	}
	panic("bad signature kind")
}

func sigObs(s *cbnt.Signature) string {
	return fmt.Sprintf("ok %x %x %x %x %s", uint16(s.SigScheme), s.Version, uint16(s.KeySize), uint16(s.HashAlg), H(s.Data))
}

// set_sig kind ... hashalg: SetSignatureByData on a zero Signature
func opSetSig(args []string) string {
	sd, rest := sigDataArg(args)
	var s cbnt.Signature
	if err := s.SetSignatureByData(sd, cbnt.Algorithm(UnN(rest[0]))); err != nil {
		return "err 4"
	}
	return sigObs(&s)
}

func cbntSigArg(a []string) cbnt.Signature {
	return cbnt.Signature{SigScheme: cbnt.Algorithm(UnN(a[0])), Version: uint8(UnN(a[1])), KeySize: cbnt.BitSize(UnN(a[2])),
		HashAlg: cbnt.Algorithm(UnN(a[3])), Data: exact(UnH(a[4]))}
}
func bgSigArg(a []string) bg.Signature {
	return bg.Signature{SigScheme: bg.Algorithm(UnN(a[0])), Version: uint8(UnN(a[1])), KeySize: bg.BitSize(UnN(a[2])),
		HashAlg: bg.Algorithm(UnN(a[3])), Data: exact(UnH(a[4]))}
}

// sig_data scheme data
func opSigData(args []string) string {
	s := cbnt.Signature{SigScheme: cbnt.Algorithm(UnN(args[0])), Data: exact(UnH(args[1]))}
	sd, err := s.SignatureData()
	if err != nil {
		return "err 1"
	}
	switch v := sd.(type) {
	case cbnt.SignatureRSAPSS:
		return "ok pss " + H(v)
	case cbnt.SignatureRSAASA:
		return "ok ssa " + H(v)
	case cbnt.SignatureECDSA:
		return fmt.Sprintf("ok ecdsa %s %s", Big(v.R), Big(v.S))
	case cbnt.SignatureSM2:
		return fmt.Sprintf("ok sm2 %s %s", Big(v.R), Big(v.S))
	}
	return fmt.Sprintf("harness-error unexpected signature type %T", sd)
}

var ksErrTable = [][2]string{
	{"invalid signature:", "1"},
	{"invalid public key:", "2"},
	{"verification failed:", "3"},
}

// ks_verify key(4) sig(5) ksver msg [table: n e scheme hash msg sig]
func opKsVerify(args []string) string {
	ks := cbnt.KeySignature{Key: cbntKeyArg(args[0:4]), Signature: cbntSigArg(args[4:9]), Version: uint8(UnN(args[9]))}
	return ErrClass(ks.Verify(UnH(args[10])), ksErrTable)
}

func opBgKsVerify(args []string) string {
	ks := bg.KeySignature{Key: bgKeyArg(args[0:4]), Signature: bgSigArg(args[4:9]), Version: uint8(UnN(args[9]))}
	return ErrClass(ks.Verify(UnH(args[10])), ksErrTable)
}

var setSigErrTable = [][2]string{
	{"unable to set public key", "4"},
	{"unable to construct the signature data", "5"},
	{"unable to set the signature", "4"},
}

// set_signature container keyspec pubkind a b signalgo hashalgo msg seed  prior-signature(5) prior-PubKeyHashAlg:
// SetSignature with a real key on a structure that already holds the given signature fields
// (container: sig = cbnt.Signature, ks = cbnt.KeySignature, bpm = the PMSE element of a boot
// policy manifest, km = the key manifest). The observation leaves out the signature bytes
// (they are the signer's, not the library's).
func opSetSignature(args []string) string {
	priv := parsePriv(args[1])
	cbnt.RandReader = rngReader{NewRng(UnN(args[8]))}
	sa, ha, msg := cbnt.Algorithm(UnN(args[5])), cbnt.Algorithm(UnN(args[6])), exact(UnH(args[7]))
	prior := cbntSigArg(args[9:14])
	sigObs := func(g *cbnt.Signature) string {
		return fmt.Sprintf("%x %x %x %x %x", uint16(g.SigScheme), g.Version, uint16(g.KeySize), uint16(g.HashAlg), len(g.Data))
	}
	ksObs := func(ks *cbnt.KeySignature) string {
		return fmt.Sprintf("%x %x %x %x %s ", ks.Version, uint16(ks.Key.KeyAlg), ks.Key.Version, uint16(ks.Key.KeySize), H(ks.Key.Data)) + sigObs(&ks.Signature)
	}
	oldKey := cbnt.Key{KeyAlg: 0x55, Version: 0x55, KeySize: 0x5555, Data: []byte{1, 2, 3}}
	switch args[0] {
	case "sig":
		g := prior
		if err := g.SetSignature(sa, ha, priv, msg); err != nil {
			return ErrClass(err, setSigErrTable)
		}
		return "ok " + sigObs(&g)
	case "ks":
		ks := cbnt.KeySignature{Version: 0x55, Key: oldKey, Signature: prior}
		if err := ks.SetSignature(sa, ha, priv, msg); err != nil {
			return ErrClass(err, setSigErrTable)
		}
		return "ok " + ksObs(&ks)
	case "bpm":
		m := cbntbootpolicy.Manifest{}
		m.PMSE.KeySignature = cbnt.KeySignature{Version: 0x55, Key: oldKey, Signature: prior}
		if err := m.PMSE.SetSignature(sa, ha, priv, msg); err != nil {
			return ErrClass(err, setSigErrTable)
		}
		return "ok " + ksObs(&m.PMSE.KeySignature)
	case "km":
		m := cbntkey.Manifest{PubKeyHashAlg: cbnt.Algorithm(UnN(args[14]))}
		m.KeyAndSignature = cbnt.KeySignature{Version: 0x55, Key: oldKey, Signature: prior}
		if err := m.SetSignature(sa, ha, priv, msg); err != nil {
			return ErrClass(err, setSigErrTable)
		}
		return "ok " + ksObs(&m.KeyAndSignature) + fmt.Sprintf(" %x", uint16(m.PubKeyHashAlg))
	}
	return "harness-error container"
}

// ---------- BPM key hash ----------

var bpmErrTable = [][2]string{
	{"no hash of BPM", "1"},
	{"invalid hash algo", "2"},
	{"invalid hash lenght", "3"},
	{"unsupported key algorithm", "4"},
	{"does not match", "5"},
}

// bpmkey n {usage alg buf} keyalg keydata
func opBpmKey(args []string) string {
	n := int(UnN(args[0]))
	a := args[1:]
	m := cbntkey.Manifest{}
	for i := 0; i < n; i++ {
		m.Hash = append(m.Hash, cbntkey.Hash{Usage: cbntkey.Usage(UnN(a[0])),
			Digest: cbnt.HashStructure{HashAlg: cbnt.Algorithm(UnN(a[1])), HashBuffer: exact(UnH(a[2]))}})
		a = a[3:]
	}
	ks := cbnt.KeySignature{Key: cbnt.Key{KeyAlg: cbnt.Algorithm(UnN(a[0])), Data: exact(UnH(a[1]))}}
	return ErrClass(m.ValidateBPMKey(ks), bpmErrTable)
}

// bg_bpmkey alg buf keyalg keydata
func opBgBpmKey(args []string) string {
	m := bgkey.Manifest{BPKey: bg.HashStructure{HashAlg: bg.Algorithm(UnN(args[0])), HashBuffer: exact(UnH(args[1]))}}
	ks := bg.KeySignature{Key: bg.Key{KeyAlg: bg.Algorithm(UnN(args[2])), Data: exact(UnH(args[3]))}}
	return ErrClass(m.ValidateBPMKey(ks), bpmErrTable)
}

// ---------- IBB ----------

type fakeFW struct{ buf []byte }

func (f *fakeFW) Buf() []byte                        { return f.buf }
func (f *fakeFW) SetBuf(b []byte)                    { f.buf = b }
func (f *fakeFW) Apply(v uefi.Visitor) error         { return nil }
func (f *fakeFW) ApplyChildren(v uefi.Visitor) error { return nil }

var ibbErrTable = [][2]string{
	{"no IBB hashes", "1"},
	{"invalid hash function", "2"},
	{"hash mismatch", "3"},
}

type segArg struct {
	flags      uint16
	base, size uint32
}

func segsArg(a []string) ([]segArg, []string) {
	n := int(UnN(a[0]))
	a = a[1:]
	var out []segArg
	for i := 0; i < n; i++ {
		out = append(out, segArg{uint16(UnN(a[0])), uint32(UnN(a[1])), uint32(UnN(a[2]))})
		a = a[3:]
	}
	return out, a
}

func cbntSegs(s []segArg) []cbntbootpolicy.IBBSegment {
	var out []cbntbootpolicy.IBBSegment
	for _, g := range s {
		out = append(out, cbntbootpolicy.IBBSegment{Flags: g.flags, Base: g.base, Size: g.size})
	}
	return out
}
func bgSegs(s []segArg) []bgbootpolicy.IBBSegment {
	var out []bgbootpolicy.IBBSegment
	for _, g := range s {
		out = append(out, bgbootpolicy.IBBSegment{Flags: g.flags, Base: g.base, Size: g.size})
	}
	return out
}

// nSE { ndig {alg buf} nseg {flags base size} } -> manifest
func cbntBPMArg(a []string) (*cbntbootpolicy.Manifest, []string) {
	m := &cbntbootpolicy.Manifest{}
	n := int(UnN(a[0]))
	a = a[1:]
	for i := 0; i < n; i++ {
		var se cbntbootpolicy.SE
		nd := int(UnN(a[0]))
		a = a[1:]
		for j := 0; j < nd; j++ {
			se.DigestList.List = append(se.DigestList.List, cbnt.HashStructure{HashAlg: cbnt.Algorithm(UnN(a[0])), HashBuffer: exact(UnH(a[1]))})
			a = a[2:]
		}
		var sg []segArg
		sg, a = segsArg(a)
		se.IBBSegments = cbntSegs(sg)
		m.SE = append(m.SE, se)
	}
	return m, a
}

// nSE { alg buf nseg {flags base size} }
func bgBPMArg(a []string) (*bgbootpolicy.Manifest, []string) {
	m := &bgbootpolicy.Manifest{}
	n := int(UnN(a[0]))
	a = a[1:]
	for i := 0; i < n; i++ {
		var se bgbootpolicy.SE
		se.Digest = bg.HashStructure{HashAlg: bg.Algorithm(UnN(a[0])), HashBuffer: exact(UnH(a[1]))}
		a = a[2:]
		var sg []segArg
		sg, a = segsArg(a)
		se.IBBSegments = bgSegs(sg)
		m.SE = append(m.SE, se)
	}
	return m, a
}

func rangesObs(rs []struct{ off, length uint64 }) string {
	var sb strings.Builder
	sb.WriteString("ok")
	for _, r := range rs {
		fmt.Fprintf(&sb, " %x %x", r.off, r.length)
	}
	return sb.String()
}

// ibb_ranges fwsize nseg {flags base size}
func opIbbRanges(args []string) string {
	sg, _ := segsArg(args[1:])
	m := &cbntbootpolicy.Manifest{SE: []cbntbootpolicy.SE{{IBBSegments: cbntSegs(sg)}}}
	var rs []struct{ off, length uint64 }
	for _, r := range m.IBBDataRanges(UnN(args[0])) {
		rs = append(rs, struct{ off, length uint64 }{r.Offset, r.Length})
	}
	return rangesObs(rs)
}

func opBgIbbRanges(args []string) string {
	sg, _ := segsArg(args[1:])
	m := &bgbootpolicy.Manifest{SE: []bgbootpolicy.SE{{IBBSegments: bgSegs(sg)}}}
	var rs []struct{ off, length uint64 }
	for _, r := range m.IBBDataRanges(UnN(args[0])) {
		rs = append(rs, struct{ off, length uint64 }{r.Offset, r.Length})
	}
	return rangesObs(rs)
}

func opIbbValidate(args []string) string {
	m, rest := cbntBPMArg(args)
	return ErrClass(m.ValidateIBB(&fakeFW{buf: exact(UnH(rest[0]))}), ibbErrTable)
}

func opBgIbbValidate(args []string) string {
	m, rest := bgBPMArg(args)
	return ErrClass(m.ValidateIBB(&fakeFW{buf: exact(UnH(rest[0]))}), ibbErrTable)
}

// ---------- AMD PSB ----------

// amdFW maps the first address FindEmbeddedFirmwareStructure probes to offset 0.
type amdFW struct{ img []byte }

const amdBase = 0xfffa0000

func (f amdFW) ImageBytes() []byte                 { return f.img }
func (f amdFW) PhysAddrToOffset(a uint64) uint64   { return a - amdBase }
func (f amdFW) OffsetToPhysAddr(off uint64) uint64 { return off + amdBase }

func efsBytes() []byte {
	var b bytes.Buffer
	_ = binary.Write(&b, binary.LittleEndian, amd_manifest.EmbeddedFirmwareStructure{Signature: amd_manifest.EmbeddedFirmwareStructureSignature})
	return b.Bytes()
}

type ksEntry struct {
	id  []byte
	key *psb.Key
}

// nkeys {rootkeybytes} -> KeySet
func keySetArg(a []string) (psb.KeySet, []ksEntry, []string, string) {
	n := int(UnN(a[0]))
	a = a[1:]
	ks := psb.NewKeySet()
	var entries []ksEntry
	for i := 0; i < n; i++ {
		raw := UnH(a[0])
		a = a[1:]
		k, err := psb.NewRootKey(bytes.NewBuffer(exact(raw)))
		if err != nil {
			return ks, nil, a, "harness-error keyset key does not parse: " + err.Error()
		}
		if err := ks.AddKey(k, psb.KeyDatabaseKey); err != nil {
			return ks, nil, a, "harness-error keyset: " + err.Error()
		}
		entries = append(entries, ksEntry{id: raw[4:20], key: k})
	}
	return ks, entries, a, ""
}

var pspErrTable = [][2]string{
	{"size of signed data cannot be 0", "2"},
	{"size of image cannot be 0", "3"},
	{"is unknown", "4"},
	{"do not match", "5"},
	{"size of signed image cannot be >", "6"},
	{"cannot be <= of sizeSignature", "7"},
	{"could not extract signature from raw", "8"},
	{"could not extract signed data from raw", "9"},
	{"cannot be smaller than or equal to header size", "a"},
	{"could not parse signature from key token", "d"},
	{"length of signed token is not sufficient", "e"},
	{"could not find signing key", "c"},
	{"could not create new token key", "b"},
	{"root key must have certifying key ID", "f"},
	{"cannot parse root key", "b"},
	{"could not get structured key data", "14"},
	{"could not get signature length of a key", "14"},
	{"is not supported", "15"},
	{"does not validate against signing key", "16"},
}

// psp_validate nkeys {rootkeybytes} raw [table: n e hash msg sig]
func opPspValidate(args []string) string {
	ks, entries, rest, bad := keySetArg(args)
	if bad != "" {
		return bad
	}
	raw := UnH(rest[0])
	prefix := efsBytes()
	img := exact(append(append([]byte{}, prefix...), raw...))
	fw, err := amd_manifest.NewAMDFirmware(amdFW{img: img})
	if err != nil {
		return "harness-error " + err.Error()
	}
	res, err := psb.ValidatePSPEntry(fw, ks, uint64(len(prefix)), uint64(len(raw)))
	if err != nil {
		if strings.Contains(err.Error(), "could not create PSB binary") {
			return "err 1"
		}
		return "err ?"
	}
	if res.Error() != nil {
		return ErrClass(res.Error(), pspErrTable)
	}
	for _, e := range entries {
		if e.key == res.SigningKey() {
			return "ok " + H(e.id)
		}
	}
	return "harness-error signing key not from the key set"
}

// fields of a *psb.Key as far as its String() shows them
func psbKeyObs(k *psb.Key) string {
	s := k.String()
	if strings.HasPrefix(s, "could not get RSA key") {
		return "ok invalid-key"
	}
	get := func(prefix string) string {
		for _, line := range strings.Split(s, "\n") {
			if strings.HasPrefix(line, prefix) {
				v := strings.TrimSpace(strings.TrimPrefix(line, prefix))
				if i := strings.Index(v, " "); i >= 0 {
					v = v[:i]
				}
				v = strings.TrimPrefix(v, "0x")
				if v == "" {
					return "-"
				}
				return v
			}
		}
		return "?"
	}
	e := "?"
	if pk, err := k.Get(); err == nil {
		e = I(int64(pk.(*rsa.PublicKey).E))
	}
	return strings.Join([]string{"ok", get("Version ID:"), get("Key ID:"), get("Certifying Key ID:"), get("Key Usage Flag:"),
		get("Exponent size:"), get("Modulus size:"), e, get("Modulus:")}, " ")
}

// token_key nkeys {rootkeybytes} raw [table]
func opTokenKey(args []string) string {
	ks, _, rest, bad := keySetArg(args)
	if bad != "" {
		return bad
	}
	k, err := psb.NewTokenKey(bytes.NewBuffer(exact(UnH(rest[0]))), ks)
	if err != nil {
		return ErrClass(err, pspErrTable)
	}
	return psbKeyObs(k)
}

// root_key raw
func opRootKey(args []string) string {
	k, err := psb.NewRootKey(bytes.NewBuffer(exact(UnH(args[0]))))
	if err != nil {
		return ErrClass(err, pspErrTable)
	}
	return psbKeyObs(k)
}

func main() {
	CaseTimeout = 30 * time.Second // an exhaustive flip sweep with a 2048-bit key takes a few seconds
	Register("set_pub_key", opSetPubKey)
	Register("bg_set_pub_key", opBgSetPubKey)
	Register("pub_key", opPubKey)
	Register("bg_pub_key", opBgPubKey)
	Register("set_sig", opSetSig)
	Register("sig_data", opSigData)
	Register("set_signature", opSetSignature)
	Register("ks_verify", opKsVerify)
	Register("bg_ks_verify", opBgKsVerify)
	Register("bpmkey", opBpmKey)
	Register("bg_bpmkey", opBgBpmKey)
	Register("ibb_ranges", opIbbRanges)
	Register("bg_ibb_ranges", opBgIbbRanges)
	Register("ibb_validate", opIbbValidate)
	Register("bg_ibb_validate", opBgIbbValidate)
	Register("psp_validate", opPspValidate)
	Register("token_key", opTokenKey)
	Register("root_key", opRootKey)
	Register("rtm_validate", opRtmValidate)
	registerOracles()
	Main(gen)
}
