package main

// Whole-image oracle of C16 for pkg/amd/psb: psb.GetKeys (AMD root key, key database, ABL and OEM
// key tokens), psb.ValidateRTM (levels 1 and 2) and psb.ValidatePSPEntries on an AMD firmware image
// with a complete key chain, laid out by a reference writer that does not use fiano: embedded
// firmware structure at offset 0 (amdFW maps the first probed anchor there), PSP and BIOS
// directories of level 1 and 2, entry payloads in shuffled order with and without gaps, decoy
// entries (other instances, other level), signed PSP binaries.

import (
	"bytes"
	"crypto/rsa"
	"encoding/binary"
	"fmt"
	"math/big"
	"sort"
	"strings"

	amd_manifest "github.com/linuxboot/fiano/pkg/amd/manifest"
	"github.com/linuxboot/fiano/pkg/amd/psb"
	. "verifharness/common"
)

// what is wrong with the image (0: nothing)
const (
	twNone             = iota
	twKeydbUnknownID   // key database names a signing key id that is not in the key set
	twKeydbOtherKey    // key database names the AMD root key but was signed by another key
	twAblOtherKey      // ABL token names a member of the key set but was signed by another key
	twOemUnknownCert   // OEM token certified by an id that is not in the key set
	twOemOtherKey      // OEM token names a member but was signed by another key
	twOemSelfCertified // OEM token whose certifying id is its own id, signed with its own key
	twRtmOtherKey      // RTM signature made by a member of the key set that is not the OEM key
	twRtmOtherData     // RTM signature made by the OEM key over other data (the volume without the directories)
	twKeyOutsideSigned // a well-formed key entry between the signed range and the signature of the key database
	twBlobCrossed      // a signed PSP binary names member A but was signed by member B
	twCount
)

type amdRegion struct {
	name string
	data []byte
	// per byte: 'c' covered by the RTM verdict (trust root, OEM token, volume, directories, signature),
	// 'd' / 'a' covered by the key database's / ABL token's acceptance into the key set (and by the RTM verdict
	// when the OEM key's certificates go through them), 'u' no influence, 's' structural (nothing demanded)
	class     []byte
	off       int
	blobType  uint32 // PSP entry type when the region is a signed PSP binary listed in the directory under test
	blobClass []byte // per byte for the ValidatePSPEntries verdict of this binary
	signer    string
}

type amdBuilt struct {
	img       []byte
	class     []byte
	regions   []*amdRegion
	level     uint
	ids       map[string][]byte         // name -> key id (amd, abl, oem, db0, db1, ...)
	pubs      map[string]*rsa.PublicKey // name -> key
	blobTypes []uint32
	blobs     map[uint32]*amdRegion
	outsider  []byte // id of the key entry outside the signed range (twKeyOutsideSigned)
	usesDB    bool   // the OEM key's chain of certificates goes through a key of the key database
	usesABL   bool   // ... through the ABL key
	crossed   uint32 // entry type of the crossed binary (twBlobCrossed), 0 = none
}

func fill(n int, c byte) []byte { return bytes.Repeat([]byte{c}, n) }

func amdFletcher(d []byte) uint32 {
	var c0, c1 uint64
	for i := 0; i < len(d); i += 2 {
		w := uint64(d[i])
		if i+1 < len(d) {
			w |= uint64(d[i+1]) << 8
		}
		c0 = (c0 + w) % 65535
		c1 = (c1 + c0) % 65535
	}
	return uint32(c1<<16 | c0)
}

func amdLE32(v uint32) []byte { b := make([]byte, 4); binary.LittleEndian.PutUint32(b, v); return b }
func amdLE64(v uint64) []byte { b := make([]byte, 8); binary.LittleEndian.PutUint64(b, v); return b }

func amdPSPRec(typ, sub uint8, flags uint16, size uint32, loc uint64) []byte {
	b := []byte{typ, sub, byte(flags), byte(flags >> 8)}
	b = append(b, amdLE32(size)...)
	return append(b, amdLE64(loc)...)
}

func amdBIOSRec(typ, region, instance, f1low, f2 uint8, size uint32, src, dst uint64) []byte {
	b := []byte{typ, region, instance<<4 | f1low&0x0f, f2}
	b = append(b, amdLE32(size)...)
	b = append(b, amdLE64(src)...)
	return append(b, amdLE64(dst)...)
}

func amdTable(cookie, extra uint32, recs [][]byte) []byte {
	b := append(amdLE32(cookie), 0, 0, 0, 0)
	b = append(b, amdLE32(uint32(len(recs)))...)
	b = append(b, amdLE32(extra)...)
	for _, r := range recs {
		b = append(b, r...)
	}
	binary.LittleEndian.PutUint32(b[4:], amdFletcher(b[8:]))
	return b
}

// filler without '$': no accidental directory cookie
func amdFiller(r *Rng, n int) []byte {
	b := r.Bytes(n)
	mode := r.Intn(3)
	for i := range b {
		switch mode {
		case 0:
			b[i] = 0xFF
		case 1:
			b[i] = 0
		}
		if b[i] == 0x24 {
			b[i] = 0x25
		}
	}
	return b
}

// a key database entry (the second key format of keys.go)
func keydbEntry(r *Rng, pub *rsa.PublicKey, id []byte, usage uint32) []byte {
	n := pub.Size()
	var b bytes.Buffer
	b.Write(amdLE32(uint32(80 + n)))
	b.Write(amdLE32(uint32(r.U64())))
	b.Write(amdLE32(usage))
	b.Write(leBytes(big.NewInt(int64(pub.E)), 4))
	b.Write(id[:16])
	b.Write(amdLE32(uint32(n * 8)))
	b.Write(r.Bytes(44))
	b.Write(leBytes(pub.N, n))
	return b.Bytes()
}

// a PSP binary with the given payload, signed with k; the header names id.
// conv 0: uncompressed convention (SizeSigned / SizeImage; gap bytes between signed range and signature),
// conv 1: compressed convention (payload length a multiple of 16 expected by the callers that parse it)
func buildPSPWith(r *Rng, k *rsa.PrivateKey, id []byte, conv int, payload, gap []byte, tail int) pspLayout {
	var hdr psb.PSPHeaderData
	hb := r.Bytes(binary.Size(hdr))
	_ = binary.Read(bytes.NewReader(hb), binary.LittleEndian, &hdr)
	copy(hdr.SignatureParameters[:], id)
	sigSize := k.Size()
	var l pspLayout
	body := exact(payload)
	if conv == 0 {
		hdr.CompressionOptions = 0
		hdr.SizeSigned = uint32(len(payload))
		l.signedEnd = 0x100 + len(payload)
		l.sigStart = l.signedEnd + len(gap)
		hdr.SizeImage = uint32(l.sigStart + sigSize)
	} else {
		if hdr.CompressionOptions == 0 {
			hdr.CompressionOptions = 1
		}
		hdr.CompressedImageSize = uint32(len(payload))
		for len(body)%16 != 0 {
			body = append(body, byte(r.U64()))
		}
		l.signedEnd = len(body) + 0x100
		l.sigStart = l.signedEnd
		gap = nil
		if hdr.SizeSigned == 0 {
			hdr.SizeSigned = 1
		}
		if hdr.SizeImage == 0 {
			hdr.SizeImage = 1
		}
	}
	l.sigEnd = l.sigStart + sigSize
	var b bytes.Buffer
	_ = binary.Write(&b, binary.LittleEndian, &hdr)
	b.Write(r.Bytes(0x100 - b.Len()))
	b.Write(body)
	sig := pssSign(k, b.Bytes()[:l.signedEnd], r)
	b.Write(gap)
	b.Write(sig)
	b.Write(r.Bytes(tail))
	l.raw = b.Bytes()
	return l
}

func pspClasses(l pspLayout) []byte {
	c := fill(len(l.raw), 'u')
	for i := 0; i < l.signedEnd; i++ {
		c[i] = 'c'
	}
	for i := l.sigStart; i < l.sigEnd; i++ {
		c[i] = 'c'
	}
	return c
}

// a key token for pub with the given id, certified by signer under certID
func buildTokenID(r *Rng, pub *rsa.PublicKey, id []byte, signer *rsa.PrivateKey, certID []byte, usage uint32, tail int) ([]byte, []byte) {
	n := pub.Size()
	body := psbKeyBytes(uint32(r.U64()), id, certID, usage, r.Bytes(16), uint32(n*8), uint32(n*8),
		leBytes(big.NewInt(int64(pub.E)), n), leBytes(pub.N, n))
	sig := pssSign(signer, body, r)
	raw := append(append(body, reversed(sig)...), r.Bytes(tail)...)
	c := fill(len(raw), 'u')
	for i := 0; i < len(body)+len(sig); i++ {
		c[i] = 'c'
	}
	return raw, c
}

func isPsbSigner(k *rsa.PrivateKey) bool { return k.Size() == 256 || k.Size() == 512 }

type amdKeys struct {
	amd, oem, abl, dbk, other *rsa.PrivateKey
}

// buildAMDImage: level = BIOS/PSP directory level under test; tw = what is wrong (twNone: nothing).
// The same seed gives the same layout for every tw.
func buildAMDImage(seed uint64, keys amdKeys, level uint, tw int) *amdBuilt {
	r := NewRng(seed)
	rs := r.Fork(1) // structure
	rc := r.Fork(2) // contents
	bt := &amdBuilt{level: level, ids: map[string][]byte{}, pubs: map[string]*rsa.PublicKey{}, blobs: map[uint32]*amdRegion{}}
	newID := func(name string, pub *rsa.PublicKey) []byte {
		id := rc.Bytes(16)
		id[0] |= 1 // never the all-zero id
		bt.ids[name] = id
		bt.pubs[name] = pub
		return id
	}
	var regs []*amdRegion
	add := func(name string, data, class []byte) *amdRegion {
		g := &amdRegion{name: name, data: data, class: class}
		regs = append(regs, g)
		return g
	}

	// a key of the same size as k that is not k (nil: there is none among the five)
	otherSameSize := func(k *rsa.PrivateKey) *rsa.PrivateKey {
		for _, o := range []*rsa.PrivateKey{keys.other, keys.oem, keys.dbk, keys.abl, keys.amd} {
			if o.Size() == k.Size() && o.N.Cmp(k.N) != 0 {
				return o
			}
		}
		return nil
	}

	// ---- keys ----
	var amdReg, dbReg, ablReg, oemReg *amdRegion
	amdID := newID("amd", &keys.amd.PublicKey)
	{
		n := keys.amd.Size()
		raw := append(psbRootKeyBytes(&keys.amd.PublicKey, amdID, uint32(rc.Pick(0, 0, 1, 8)), rc), rc.Bytes(rs.Pick(0, 0, 7))...)
		c := fill(len(raw), 's')  // version, usage, reserved, tail: a stricter parser may look at them
		for i := 4; i < 36; i++ { // key id and certifying key id (equal for a root key)
			c[i] = 'c'
		}
		for i := 56; i < 68; i++ { // sizes, low four exponent bytes
			c[i] = 'c'
		}
		for i := 68; i < 64+n; i++ { // only the low 64 bits of the exponent are used
			c[i] = 's'
		}
		for i := 64 + n; i < 64+2*n; i++ {
			c[i] = 'c'
		}
		amdReg = add("amdkey", raw, c)
	}
	// key database: one or two keys; dbk may certify tokens and sign binaries
	dbID := newID("db0", &keys.dbk.PublicKey)
	dbPayload := append(rc.Bytes(80), keydbEntry(rc, &keys.dbk.PublicKey, dbID, uint32(rc.Pick(0, 2)))...)
	if rs.Bool() {
		id1 := newID("db1", &keys.other.PublicKey)
		dbPayload = append(dbPayload, keydbEntry(rc, &keys.other.PublicKey, id1, uint32(rc.Pick(0, 1, 2)))...)
	}
	dbConv := rs.Intn(2)
	var dbGap []byte
	if dbConv == 0 {
		dbGap = rc.Bytes(rs.Pick(0, 0, 1, 16, 40))
	}
	dbTail := rs.Pick(0, 0, 9)
	dbSigner, dbSignerID := keys.amd, amdID
	switch tw {
	case twKeydbUnknownID:
		dbSignerID = rc.Bytes(16)
	case twKeydbOtherKey:
		if o := otherSameSize(keys.amd); o != nil {
			dbSigner = o
		} else {
			dbSignerID = rc.Bytes(16)
		}
	case twKeyOutsideSigned:
		dbConv = 0
		bt.outsider = rc.Bytes(16)
		dbGap = keydbEntry(rc, &keys.other.PublicKey, bt.outsider, 0)
	}
	dbL := buildPSPWith(rc, dbSigner, dbSignerID, dbConv, dbPayload, dbGap, dbTail)
	dbReg = add("keydb", dbL.raw, bytes.ReplaceAll(pspClasses(dbL), []byte{'c'}, []byte{'d'}))

	// who certifies the ABL and OEM tokens
	type member struct {
		name string
		key  *rsa.PrivateKey
	}
	certs := []member{{"amd", keys.amd}}
	if isPsbSigner(keys.dbk) {
		certs = append(certs, member{"db0", keys.dbk})
	}
	ablCert := certs[rs.Intn(len(certs))]
	ablID := newID("abl", &keys.abl.PublicKey)
	ablSigner, ablCertID := ablCert.key, bt.ids[ablCert.name]
	if tw == twAblOtherKey {
		if o := otherSameSize(ablCert.key); o != nil {
			ablSigner = o
		} else {
			ablCertID = rc.Bytes(16)
		}
	}
	ablRaw, ablC := buildTokenID(rc, &keys.abl.PublicKey, ablID, ablSigner, ablCertID, uint32(rc.Pick(0, 2)), rs.Pick(0, 0, 5))
	ablReg = add("abl", ablRaw, bytes.ReplaceAll(ablC, []byte{'c'}, []byte{'a'}))
	if isPsbSigner(keys.abl) {
		certs = append(certs, member{"abl", keys.abl})
	}
	oemCert := certs[rs.Intn(len(certs))]
	oemID := newID("oem", &keys.oem.PublicKey)
	oemSigner, oemCertID := oemCert.key, bt.ids[oemCert.name]
	switch tw {
	case twOemUnknownCert:
		oemCertID = rc.Bytes(16)
	case twOemOtherKey:
		if o := otherSameSize(oemCert.key); o != nil {
			oemSigner = o
		} else {
			oemCertID = rc.Bytes(16)
		}
	case twOemSelfCertified:
		oemSigner, oemCertID = keys.oem, oemID
	}
	bt.usesABL = oemCert.name == "abl"
	bt.usesDB = oemCert.name == "db0" || (bt.usesABL && ablCert.name == "db0")
	oemRaw, oemC := buildTokenID(rc, &keys.oem.PublicKey, oemID, oemSigner, oemCertID, uint32(psb.PSBSignBIOS), rs.Pick(0, 0, 5))
	oemReg = add("oem", oemRaw, oemC)

	// ---- signed PSP binaries listed in the PSP directory under test ----
	signers := append([]member{}, certs...)
	signers = append(signers, member{"oem", keys.oem})
	blobPool := []uint32{0x01, 0x08, 0x12, 0x24, 0x30}
	nBlobs := rs.Pick(1, 2, 2)
	for i := 0; i < nBlobs; i++ {
		s := signers[rs.Intn(len(signers))]
		conv := rs.Intn(2)
		var gap []byte
		if conv == 0 {
			gap = rc.Bytes(rs.Pick(0, 0, 3, 24))
		}
		k, name := s.key, s.name
		if tw == twBlobCrossed && i == 0 {
			// names s, signed by another member with a signature of the same size
			for _, o := range signers {
				if o.key.N.Cmp(s.key.N) != 0 && o.key.Size() == s.key.Size() {
					k = o.key
					bt.crossed = blobPool[i]
					break
				}
			}
		}
		l := buildPSPWith(rc, k, bt.ids[name], conv, rc.Bytes(rs.Pick(1, 16, 33, 120)), gap, rs.Pick(0, 0, 6))
		g := add(fmt.Sprintf("blob%02x", blobPool[i]), l.raw, fill(len(l.raw), 'u'))
		g.blobType, g.blobClass, g.signer = blobPool[i], pspClasses(l), name
		bt.blobs[blobPool[i]] = g
		bt.blobTypes = append(bt.blobTypes, blobPool[i])
	}

	// ---- RTM volume, signature, decoys ----
	rtm := add("rtm", rc.Bytes(rs.Pick(1, 40, 100, 300)), nil)
	rtm.class = fill(len(rtm.data), 'c')
	rtmSigner := keys.oem
	if tw == twRtmOtherKey {
		rtmSigner = nil
		for _, o := range certs {
			if o.key.N.Cmp(keys.oem.N) != 0 && o.key.Size() == keys.oem.Size() {
				rtmSigner = o.key
			}
		}
		if rtmSigner == nil {
			rtmSigner = otherSameSize(keys.oem)
		}
	}
	sig := add("rtmsig", make([]byte, keys.oem.Size()), fill(keys.oem.Size(), 'c'))
	garbage := func(name string, n int) *amdRegion { return add(name, amdFiller(rc, n), fill(n, 'u')) }

	// ---- directories ----
	type pent struct {
		typ uint8
		reg *amdRegion
		loc uint64 // when reg == nil
		sz  uint32
	}
	type bent struct {
		typ, inst uint8
		reg       *amdRegion
		loc       uint64
		sz        uint32
	}
	hasP2 := level == 2 || rs.Bool()
	hasB2 := level == 2 || rs.Bool()
	var p1e, p2e []pent
	var b1e, b2e []bent
	chain := []pent{{typ: 0x50, reg: dbReg}, {typ: 0x0A, reg: ablReg}}
	for _, t := range bt.blobTypes {
		chain = append(chain, pent{typ: uint8(t), reg: bt.blobs[t]})
	}
	p1e = append(p1e, pent{typ: 0x00, reg: amdReg})
	rtmSet := []bent{{typ: 0x05, reg: oemReg}, {typ: 0x62, reg: rtm}, {typ: 0x07, reg: sig}}
	// decoys of the same types under other instances, and unrelated types
	for i, n := 0, rs.Pick(0, 1, 2, 3); i < n; i++ {
		t := uint8(rs.Pick(0x05, 0x62, 0x07, 0x60, 0x66))
		rtmSet = append(rtmSet, bent{typ: t, inst: uint8(1 + rs.Intn(15)), reg: garbage(fmt.Sprintf("decoy%d", i), rs.Pick(1, 30, 256))})
	}
	otherLevelP := func() []pent { // what the directory of the other level holds: nothing, or unusable entries of the same types
		var e []pent
		for _, t := range []uint8{0x50, 0x0A} {
			if rs.Bool() {
				e = append(e, pent{typ: t, reg: garbage(fmt.Sprintf("otherP%02x", t), rs.Pick(20, 300, 600))})
			}
		}
		return e
	}
	otherLevelB := func() []bent {
		var e []bent
		for _, t := range []uint8{0x05, 0x62, 0x07} {
			if rs.Bool() {
				e = append(e, bent{typ: t, reg: garbage(fmt.Sprintf("otherB%02x", t), rs.Pick(20, 256, 600))})
			}
		}
		return e
	}
	if level == 1 {
		p1e = append(p1e, chain...)
		b1e = append(b1e, rtmSet...)
		if hasP2 {
			p2e = otherLevelP()
		}
		if hasB2 {
			b2e = otherLevelB()
		}
	} else {
		p2e = append(p2e, chain...)
		b2e = append(b2e, rtmSet...)
		p1e = append(p1e, otherLevelP()...)
		b1e = append(b1e, otherLevelB()...)
	}
	shuffleP := func(e []pent) {
		for i := len(e) - 1; i > 0; i-- {
			j := rs.Intn(i + 1)
			e[i], e[j] = e[j], e[i]
		}
	}
	shuffleB := func(e []bent) {
		for i := len(e) - 1; i > 0; i-- {
			j := rs.Intn(i + 1)
			e[i], e[j] = e[j], e[i]
		}
	}
	var p1, p2, b1, b2 *amdRegion
	if hasP2 {
		p2 = add("pspdir2", make([]byte, 16+16*len(p2e)), nil)
		p1e = append(p1e, pent{typ: 0x40, reg: p2, sz: 0x400})
	}
	if hasB2 {
		b2 = add("biosdir2", make([]byte, 16+24*len(b2e)), nil)
		b1e = append(b1e, bent{typ: 0x70, reg: b2, sz: 0x400})
	}
	shuffleP(p1e)
	shuffleP(p2e)
	shuffleB(b1e)
	shuffleB(b2e)
	p1 = add("pspdir1", make([]byte, 16+16*len(p1e)), nil)
	b1 = add("biosdir1", make([]byte, 16+24*len(b1e)), nil)
	for _, g := range []*amdRegion{p1, p2} {
		if g != nil {
			g.class = fill(len(g.data), 's')
		}
	}

	b1.class = fill(len(b1.data), 'c') // signed at both levels
	if b2 != nil {
		b2.class = fill(len(b2.data), map[bool]byte{true: 'c', false: 's'}[level == 2]) // other level: structural
	}

	// ---- layout: shuffled order, with and without gaps ----
	for i := len(regs) - 1; i > 0; i-- {
		j := rs.Intn(i + 1)
		regs[i], regs[j] = regs[j], regs[i]
	}
	cur := 74 + rs.Pick(0, 1, 6, 22)
	for _, g := range regs {
		g.off = cur
		cur += len(g.data) + rs.Pick(0, 0, 0, 1, 5, 30)
	}
	total := cur + rs.Pick(0, 0, 1, 40, 700)
	img := amdFiller(rc, total)
	class := fill(total, 'u')

	// ---- directory contents ----
	mkP := func(cookie uint32, es []pent) []byte {
		var recs [][]byte
		for _, e := range es {
			sz := e.sz
			if sz == 0 {
				sz = uint32(len(e.reg.data))
			}
			recs = append(recs, amdPSPRec(e.typ, uint8(rc.Intn(8)), uint16(rc.U64()), sz, uint64(e.reg.off)))
		}
		return amdTable(cookie, uint32(rc.U64()), recs)
	}
	mkB := func(cookie uint32, es []bent) []byte {
		var recs [][]byte
		for _, e := range es {
			sz := e.sz
			if sz == 0 {
				sz = uint32(len(e.reg.data))
			}
			recs = append(recs, amdBIOSRec(e.typ, uint8(rc.U64()), e.inst, uint8(rc.U64()), uint8(rc.U64()), sz, uint64(e.reg.off), rc.U64()))
		}
		return amdTable(cookie, uint32(rc.U64()), recs)
	}
	copy(p1.data, mkP(amd_manifest.PSPDirectoryTableCookie, p1e))
	if p2 != nil {
		copy(p2.data, mkP(amd_manifest.PSPDirectoryTableLevel2Cookie, p2e))
	}
	copy(b1.data, mkB(amd_manifest.BIOSDirectoryTableCookie, b1e))
	if b2 != nil {
		copy(b2.data, mkB(amd_manifest.BIOSDirectoryTableLevel2Cookie, b2e))
	}
	// RTM signature: volume, then (level 2) the level 1 directory, then the directory of the level
	signed := exact(rtm.data)
	if tw != twRtmOtherData {
		if level == 2 {
			signed = append(signed, b1.data...)
			signed = append(signed, b2.data...)
		} else {
			signed = append(signed, b1.data...)
		}
	}
	if rtmSigner != nil {
		s := reversed(pssSign(rtmSigner, signed, rc))
		copy(sig.data, s) // (a signer of another size: the first bytes of its signature)
	}

	// ---- embedded firmware structure ----
	efs := rc.Bytes(74)
	binary.LittleEndian.PutUint32(efs, amd_manifest.EmbeddedFirmwareStructureSignature)
	binary.LittleEndian.PutUint32(efs[20:], uint32(p1.off))
	slots := []int{24, 28, 32, 40}
	for _, s := range slots {
		binary.LittleEndian.PutUint32(efs[s:], 0)
	}
	binary.LittleEndian.PutUint32(efs[slots[rs.Intn(4)]:], uint32(b1.off))
	copy(img, efs)
	for i := 0; i < 74; i++ {
		class[i] = 's'
	}
	for _, g := range regs {
		copy(img[g.off:], g.data)
		copy(class[g.off:], g.class)
	}
	sort.Slice(regs, func(i, j int) bool { return regs[i].off < regs[j].off })
	bt.img, bt.class, bt.regions = img, class, regs
	return bt
}

func (bt *amdBuilt) region(name string) *amdRegion {
	for _, g := range bt.regions {
		if g.name == name {
			return g
		}
	}
	return nil
}

// rtm_validate level image [oemkey rtm l1 ln sig | table]: psb.ValidateRTM on a whole image; the model
// evaluates validate_rtm on the pieces the generator cut out of the same image (OEM key in root key form,
// RTM volume, level 1 directory, directory of the level, signature entry)
func opRtmValidate(args []string) string {
	fw, err := amdFirmware(UnH(args[1]))
	if err != nil {
		return "harness-error " + err.Error()
	}
	res, err := psb.ValidateRTM(fw, uint(UnN(args[0])))
	if err != nil {
		return "err ?"
	}
	if res.Error() != nil {
		return ErrClass(res.Error(), pspErrTable)
	}
	return "ok"
}

// correspondence cases for rtm_validate: the honest image, one byte changed in the volume, in the
// signature, in a structurally inert byte of a signed directory (checksum and reserved word of the header,
// destination address of an entry), or somewhere outside everything the verdict covers; images signed by
// another key or over other data
func genRtmCases(r *Rng, keys amdKeys, level uint, emit Emit) {
	seed := r.U64() >> 1
	tw := r.Pick(twNone, twNone, twNone, twNone, twRtmOtherKey, twRtmOtherData)
	bt := buildAMDImage(seed, keys, level, tw)
	piece := func(img []byte, name string) []byte {
		g := bt.region(name)
		if g == nil {
			return nil
		}
		return img[g.off : g.off+len(g.data)]
	}
	dirN := "biosdir1"
	if level == 2 {
		dirN = "biosdir2"
	}
	signed := append(append(exact(piece(bt.img, "rtm")), map[bool][]byte{true: piece(bt.img, "biosdir1"), false: nil}[level == 2]...), piece(bt.img, dirN)...)
	hname := "b"
	if keys.oem.Size() == 512 {
		hname = "c"
	}
	table := []string{Big(keys.oem.N), I(int64(keys.oem.E)), hname, H(signed), H(reversed(piece(bt.img, "rtmsig")))}
	if tw != twNone {
		table = []string{Big(keys.oem.N), I(int64(keys.oem.E)), hname, "00", "00"}
	}
	img := exact(bt.img)
	within := func(name string, pick func(n int) int) {
		if g := bt.region(name); g != nil && len(g.data) > 0 {
			img = flipped(img, (g.off+pick(len(g.data)))*8+r.Intn(8))
		}
	}
	inert := func(n int) int { // of a BIOS directory: header bytes 4..7 and 12..15, the last 8 bytes of an entry
		k := (n - 16) / 24
		if k == 0 || r.Bool() {
			return r.Pick(4, 5, 6, 7, 12, 13, 14, 15)
		}
		return 16 + 24*r.Intn(k) + 16 + r.Intn(8)
	}
	switch r.Intn(7) {
	case 0:
		within("rtm", func(n int) int { return r.Pick(0, n-1, r.Intn(n)) })
	case 1:
		within("rtmsig", func(n int) int { return r.Pick(0, n-1, r.Intn(n)) })
	case 2:
		within(dirN, inert)
	case 3:
		within("biosdir1", inert) // covered at level 2 (and at level 1, where it is the directory of the level)
	case 4: // outside
		var us []int
		for i, c := range bt.class {
			if c == 'u' {
				us = append(us, i)
			}
		}
		if len(us) > 0 {
			i := us[r.Intn(len(us))]
			img = flipped(img, i*8+r.Intn(8))
		}
	}
	emit("C", "rtm_validate", append([]string{N(uint64(level)), H(img),
		H(psbRootKeyBytes(&keys.oem.PublicKey, bt.ids["oem"], uint32(psb.PSBSignBIOS), r)),
		H(piece(img, "rtm")), H(piece(img, "biosdir1")), H(piece(img, dirN)), H(piece(img, "rtmsig"))}, table...)...)
}

func (bt *amdBuilt) regionAt(i int) string {
	for _, g := range bt.regions {
		if i >= g.off && i < g.off+len(g.data) {
			return fmt.Sprintf("%s+%d", g.name, i-g.off)
		}
	}
	return "filler"
}

func amdFirmware(img []byte) (*amd_manifest.AMDFirmware, error) {
	return amd_manifest.NewAMDFirmware(amdFW{img: exact(img)})
}

// the verdict of psb.GetKeys on an image, and the ids of the key set it returns
func keysVerdict(img []byte, level uint) (map[string]bool, error) {
	fw, err := amdFirmware(img)
	if err != nil {
		return nil, err
	}
	set, err := psb.GetKeys(fw, level)
	if err != nil {
		return nil, err
	}
	ids := map[string]bool{}
	for _, id := range set.AllKeyIDs() {
		ids[H(id[:])] = true
	}
	return ids, nil
}

// a key database / an ABL token that is not validly certified: its keys must not be in a key set GetKeys
// returns, and the RTM verdict must be an error when the OEM key hangs on them
func (bt *amdBuilt) chainViolation(img []byte, level uint, which byte) string {
	ids, kerr := keysVerdict(img, level)
	rerr := rtmVerdict(img, level)
	switch which {
	case 'd':
		if kerr == nil {
			for name, id := range bt.ids {
				if strings.HasPrefix(name, "db") && ids[H(id)] {
					return "a key of the key database is in the key set GetKeys returns"
				}
			}
		}
		if bt.usesDB && rerr == nil {
			return "the RTM volume is still valid although the OEM key is certified through the key database"
		}
	case 'a':
		if kerr == nil && ids[H(bt.ids["abl"])] {
			return "the ABL key is in the key set GetKeys returns"
		}
		if bt.usesABL && rerr == nil {
			return "the RTM volume is still valid although the OEM key is certified by the ABL key"
		}
	}
	return ""
}

// the verdict of psb.ValidateRTM on an image
func rtmVerdict(img []byte, level uint) error {
	fw, err := amdFirmware(img)
	if err != nil {
		return err
	}
	res, err := psb.ValidateRTM(fw, level)
	if err != nil {
		return err
	}
	if res == nil {
		return fmt.Errorf("no result")
	}
	return res.Error()
}

// the key of a result is a given key (compared by key material through Key.Get; a result without a key, or
// whose key cannot be decoded, says nothing)
func psbKeyOther(k *psb.Key, pub *rsa.PublicKey) bool {
	if k == nil {
		return false
	}
	pk, err := k.Get()
	if err != nil {
		return false
	}
	p, ok := pk.(*rsa.PublicKey)
	return ok && (p.N.Cmp(pub.N) != 0 || p.E != pub.E)
}

func pspDirType(level uint) psb.DirectoryType {
	if level == 2 {
		return psb.PSPDirectoryLevel2
	}
	return psb.PSPDirectoryLevel1
}

// verdicts of psb.ValidatePSPEntries for the given entry types (one entry per type): nil / error per type
func blobVerdicts(img []byte, level uint, types []uint32) ([]error, []*psb.Key, error) {
	fw, err := amdFirmware(img)
	if err != nil {
		return nil, nil, err
	}
	ks, err := psb.GetKeys(fw, level)
	if err != nil {
		return nil, nil, err
	}
	res, err := psb.ValidatePSPEntries(fw, ks, pspDirType(level), types)
	if err != nil {
		return nil, nil, err
	}
	if len(res) != len(types) {
		return nil, nil, fmt.Errorf("%d results for %d entries", len(res), len(types))
	}
	var out []error
	var ids []*psb.Key
	for i := range res {
		out = append(out, res[i].Error())
		ids = append(ids, res[i].SigningKey())
	}
	return out, ids, nil
}

// bytes of the image to flip: all of them, or the neighbourhood of every class boundary and region start
// plus a sample of the rest
func amdFlipBytes(r *Rng, bt *amdBuilt, class []byte, all bool, one int) []int {
	near := make([]bool, len(class))
	mark := func(i int) {
		for j := i - 2; j < i+2; j++ {
			if j >= 0 && j < len(class) {
				near[j] = true
			}
		}
	}
	for i := 1; i < len(class); i++ {
		if class[i] != class[i-1] {
			mark(i)
		}
	}
	for _, g := range bt.regions {
		mark(g.off)
		mark(g.off + len(g.data))
	}
	var out []int
	for i := range class {
		if all || near[i] || r.Intn(one) == 0 {
			out = append(out, i)
		}
	}
	return out
}

// p_amd_image amdkey oemkey ablkey dbkey otherkey level seed all
func pAmdImage(args []string) string {
	var ks [5]*rsa.PrivateKey
	for i := range ks {
		k, ok := parsePriv(args[i]).(*rsa.PrivateKey)
		if !ok {
			return "skip"
		}
		ks[i] = k
	}
	keys := amdKeys{amd: ks[0], oem: ks[1], abl: ks[2], dbk: ks[3], other: ks[4]}
	if !isPsbSigner(keys.amd) || !isPsbSigner(keys.oem) {
		return "skip"
	}
	level := uint(UnN(args[5]))
	seed := UnN(args[6])
	all := args[7] == "1"
	if level != 1 && level != 2 {
		return "skip"
	}
	r := NewRng(seed).Fork(9)
	bt := buildAMDImage(seed, keys, level, twNone)

	// ---- the honest image ----
	fw, err := amdFirmware(bt.img)
	if err != nil {
		return "harness-error image does not parse: " + err.Error()
	}
	set, err := psb.GetKeys(fw, level)
	if err != nil {
		return "FAIL keys-rejected: GetKeys refuses a correctly certified key chain: " + err.Error()
	}
	want := map[string]string{}
	for name, id := range bt.ids {
		want[H(id)] = name
	}
	// every key GetKeys hands out is a certified key of the image, with the certified key material
	// (which keys it leaves out, and under which type it files them, is not demanded)
	for _, id := range set.AllKeyIDs() {
		name, ok := want[H(id[:])]
		if !ok {
			return "FAIL keys-set: key " + id.Hex() + " in the key set is not a certified key of the image"
		}
		if psbKeyOther(set.GetKey(id), bt.pubs[name]) {
			return "FAIL keys-set: key " + name + " of the key set is not the key of the image"
		}
	}
	before := exact(fw.Firmware().ImageBytes())
	for call := 1; call <= 2; call++ {
		res, err := psb.ValidateRTM(fw, level)
		if err != nil {
			return fmt.Sprintf("FAIL rtm-rejected: call %d: correctly signed RTM volume refused: %v", call, err)
		}
		if res.Error() != nil {
			what := "rtm-rejected"
			if !bytes.Equal(before, fw.Firmware().ImageBytes()) {
				what = "rtm-rejected (the call changed the caller's image)"
			}
			return fmt.Sprintf("FAIL %s: call %d: correctly signed RTM volume (level %d) refused: %v", what, call, level, res.Error())
		}
		if psbKeyOther(res.SigningKey(), bt.pubs["oem"]) {
			return "FAIL rtm-key: the RTM volume is reported valid under a key that is not the OEM key"
		}
	}
	// the verdict is a function of the image: the same bytes again, after the calls above
	if err := rtmVerdict(fw.Firmware().ImageBytes(), level); err != nil {
		return "FAIL rtm-rejected (the calls changed the caller's image): validating the same buffer again: " + err.Error()
	}
	if err := rtmVerdict(bt.img, level); err != nil {
		return "FAIL rtm-rejected: " + err.Error()
	}
	// signed PSP binaries of the directory, and the key database itself
	types := append([]uint32{0x50}, bt.blobTypes...)
	verd, ids, err := blobVerdicts(bt.img, level, types)
	if err != nil {
		return "FAIL psb-rejected: ValidatePSPEntries: " + err.Error()
	}
	for i, t := range types {
		if verd[i] != nil {
			return fmt.Sprintf("FAIL psb-rejected: correctly signed PSP entry %#x refused: %v", t, verd[i])
		}
		wantKey := bt.pubs["amd"]
		if i > 0 {
			wantKey = bt.pubs[bt.blobs[t].signer]
		}
		if psbKeyOther(ids[i], wantKey) {
			return fmt.Sprintf("FAIL psb-key: PSP entry %#x is reported valid under a key that is not the one its header names", t)
		}
	}

	// ---- every byte class of the image against the RTM verdict ----
	one := 12
	if all {
		one = 3
	}
	for _, i := range amdFlipBytes(r.Fork(1), bt, bt.class, false, one) {
		if bt.class[i] == 's' {
			continue
		}
		mut := flipped(bt.img, i*8+r.Intn(8))
		if r.Chance(1, 3) { // a single-byte mutation instead of a single-bit one
			mut = byteChanged(r, bt.img, i)
		}
		if bt.class[i] == 'd' || bt.class[i] == 'a' {
			if v := bt.chainViolation(mut, level, bt.class[i]); v != "" {
				return fmt.Sprintf("FAIL covered-bit-accepted: image byte %d (%s) changed: %s", i, bt.regionAt(i), v)
			}
			continue
		}
		err := rtmVerdict(mut, level)
		if bt.class[i] == 'c' && err == nil {
			return fmt.Sprintf("FAIL covered-bit-accepted: image byte %d (%s) changed, RTM volume of level %d still valid", i, bt.regionAt(i), level)
		}
		if bt.class[i] == 'u' && err != nil {
			return fmt.Sprintf("FAIL uncovered-influences: image byte %d (%s) is outside everything the RTM verdict of level %d covers: %v", i, bt.regionAt(i), level, err)
		}
	}
	// ---- the signed PSP binaries against their own verdicts ----
	for k, t := range bt.blobTypes {
		g := bt.blobs[t]
		for _, j := range amdFlipBytes(r.Fork(uint64(10+k)), &amdBuilt{}, g.blobClass, false, one*2) {
			v, _, err := blobVerdicts(flipped(bt.img, (g.off+j)*8+r.Intn(8)), level, types)
			if err != nil {
				// no verdicts at all: an error too, which a covered byte may cause
				if g.blobClass[j] == 'u' {
					return "FAIL uncovered-influences: PSP entry " + g.name + fmt.Sprintf(" byte %d outside signed range and signature makes ValidatePSPEntries fail: ", j) + err.Error()
				}
				continue
			}
			for i := range types {
				switch {
				case types[i] == t && g.blobClass[j] == 'c' && v[i] == nil:
					return fmt.Sprintf("FAIL covered-bit-accepted: PSP entry %s byte %d changed, still valid", g.name, j)
				case types[i] == t && g.blobClass[j] == 'u' && v[i] != nil:
					return fmt.Sprintf("FAIL uncovered-influences: PSP entry %s byte %d outside signed range and signature: %v", g.name, j, v[i])
				case types[i] != t && v[i] != nil:
					return fmt.Sprintf("FAIL uncovered-influences: a change inside PSP entry %s changed the verdict of entry %#x", g.name, types[i])
				}
			}
		}
	}

	// ---- images with one thing wrong ----
	for tw := 1; tw < twCount; tw++ {
		bad := buildAMDImage(seed, keys, level, tw)
		err := rtmVerdict(bad.img, level)
		switch tw {
		case twKeydbUnknownID, twKeydbOtherKey:
			if v := bad.chainViolation(bad.img, level, 'd'); v != "" {
				return "FAIL " + map[int]string{twKeydbUnknownID: "unknown-key-accepted: key database signed under an id that is not in the key set: ",
					twKeydbOtherKey: "other-key-accepted: key database not signed by the AMD root key: "}[tw] + v
			}
		case twAblOtherKey:
			if v := bad.chainViolation(bad.img, level, 'a'); v != "" {
				return "FAIL other-key-accepted: ABL token not signed by the key it names: " + v
			}
		case twKeyOutsideSigned:
			if err != nil {
				return "FAIL uncovered-influences: a key entry outside the signed range of the key database changed the RTM verdict: " + err.Error()
			}
			f, _ := amdFirmware(bad.img)
			s, err := psb.GetKeys(f, level)
			if err != nil {
				continue
			}
			for _, id := range s.AllKeyIDs() {
				if H(id[:]) == H(bad.outsider) {
					return "FAIL unsigned-key-accepted: a key entry outside the signed range of the key database is in the key set"
				}
			}
		case twBlobCrossed:
			if bad.crossed == 0 {
				continue
			}
			v, _, err := blobVerdicts(bad.img, level, types)
			if err != nil {
				continue // no verdicts at all: the wrongly signed entry was not accepted
			}
			for i, t := range types {
				if t == bad.crossed && v[i] == nil {
					return "FAIL other-key-accepted: PSP entry signed by a member of the key set other than the one its header names"
				}
				if t != bad.crossed && v[i] != nil {
					return fmt.Sprintf("FAIL uncovered-influences: verdict of PSP entry %#x changed by another entry: %v", t, v[i])
				}
			}
		default:
			if err == nil {
				return "FAIL " + [...]string{"", "", "", "",
					"token-without-member-accepted: OEM token certified by an id that is not in the key set",
					"other-key-accepted: OEM token not signed by the key it names",
					"token-without-member-accepted: OEM token certified by itself",
					"other-key-accepted: RTM volume signed by a member of the key set that is not the OEM key",
					"data-bit-accepted: RTM signature over the volume without the directories"}[tw]
			}
		}
	}
	return "ok"
}
