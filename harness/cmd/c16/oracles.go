package main

// Property oracles of C16, run on the implementation only, with real keys.
// Every FAIL text starts with a tag naming the clause of the property that broke.

import (
	"bytes"
	"crypto"
	"crypto/ecdsa"
	"crypto/elliptic"
	"crypto/rsa"
	"crypto/sha1"
	"crypto/sha256"
	"crypto/sha512"
	"crypto/x509"
	"encoding/binary"
	"fmt"
	"hash"
	"math/big"
	"strings"

	amd_manifest "github.com/linuxboot/fiano/pkg/amd/manifest"
	"github.com/linuxboot/fiano/pkg/amd/psb"
	"github.com/linuxboot/fiano/pkg/intel/metadata/bg"
	"github.com/linuxboot/fiano/pkg/intel/metadata/bg/bgbootpolicy"
	"github.com/linuxboot/fiano/pkg/intel/metadata/bg/bgkey"
	"github.com/linuxboot/fiano/pkg/intel/metadata/cbnt"
	"github.com/linuxboot/fiano/pkg/intel/metadata/cbnt/cbntbootpolicy"
	"github.com/linuxboot/fiano/pkg/intel/metadata/cbnt/cbntkey"
	"github.com/tjfoc/gmsm/sm2"
	"github.com/tjfoc/gmsm/sm3"
	. "verifharness/common"
)

// ---------- deterministic randomness and keys ----------

type rngReader struct{ r *Rng }

func (x rngReader) Read(p []byte) (int, error) {
	copy(p, x.r.Bytes(len(p)))
	return len(p), nil
}

var sm2UID = []byte{0x31, 0x32, 0x33, 0x34, 0x35, 0x36, 0x37, 0x38, 0x31, 0x32, 0x33, 0x34, 0x35, 0x36, 0x37, 0x38}

// key specs in case files: rsa:<PKCS#1 DER hex>, ecc:<d hex>, sm2:<d hex>
func parsePriv(s string) crypto.Signer {
	kind, val, _ := strings.Cut(s, ":")
	switch kind {
	case "rsa":
		k, err := x509.ParsePKCS1PrivateKey(UnH(val))
		if err != nil {
			panic("bad rsa key in case file: " + err.Error())
		}
		return k
	case "ecc":
		d := bigArg(val)
		x, y := elliptic.P256().ScalarBaseMult(d.Bytes())
		return &ecdsa.PrivateKey{PublicKey: ecdsa.PublicKey{Curve: elliptic.P256(), X: x, Y: y}, D: d}
	case "sm2":
		d := bigArg(val)
		c := sm2.P256Sm2()
		x, y := c.ScalarBaseMult(d.Bytes())
		return &sm2.PrivateKey{PublicKey: sm2.PublicKey{Curve: c, X: x, Y: y}, D: d}
	}
	panic("bad key spec")
}

func privSpec(k crypto.Signer) string {
	switch v := k.(type) {
	case *rsa.PrivateKey:
		return "rsa:" + H(x509.MarshalPKCS1PrivateKey(v))
	case *ecdsa.PrivateKey:
		return "ecc:" + Big(v.D)
	case *sm2.PrivateKey:
		return "sm2:" + Big(v.D)
	}
	panic("bad key")
}

// The harness's own table of the hash algorithms, keyed by the TPM algorithm id literal.
// Expected digests are never taken from the code under test (cbnt/bg Algorithm.Hash()).
var stdHashes = map[uint16]struct {
	size int
	sum  func([]byte) []byte
}{
	0x4:  {20, func(b []byte) []byte { s := sha1.Sum(b); return s[:] }},
	0xb:  {32, func(b []byte) []byte { s := sha256.Sum256(b); return s[:] }},
	0xc:  {48, func(b []byte) []byte { s := sha512.Sum384(b); return s[:] }},
	0xd:  {64, func(b []byte) []byte { s := sha512.Sum512(b); return s[:] }},
	0x12: {32, func(b []byte) []byte { return sm3.Sm3Sum(b) }},
}

func hashOf(alg cbnt.Algorithm, data []byte) []byte {
	h, ok := stdHashes[uint16(alg)]
	if !ok {
		panic(fmt.Sprintf("harness: no reference hash for algorithm %#x", uint16(alg)))
	}
	return h.sum(data)
}

// p_hash_table flavour msg: for every algorithm id, Algorithm.Hash() exists exactly for the
// algorithms of the table (cbnt: SHA-1, SHA-256, SHA-384, SHA-512, SM3; bg: SHA-1, SHA-256),
// reports the standard digest length and computes the standard digest
func pHashTable(args []string) string {
	msg := UnH(args[1])
	ids := []uint16{}
	for a := 0; a <= 0x40; a++ {
		ids = append(ids, uint16(a))
	}
	ids = append(ids, 0x99, 0x100b, 0xffff)
	for _, a := range ids {
		var h hash.Hash
		var err error
		want, known := stdHashes[a]
		if args[0] == "bg" {
			h, err = bg.Algorithm(a).Hash()
			known = known && (a == 0x4 || a == 0xb)
		} else {
			h, err = cbnt.Algorithm(a).Hash()
		}
		if (err == nil) != known {
			return fmt.Sprintf("FAIL hash-table: algorithm %#x: Hash() error = %v, expected supported = %v", a, err, known)
		}
		if !known {
			continue
		}
		if h.Size() != want.size {
			return fmt.Sprintf("FAIL hash-table: algorithm %#x reports a digest of %d bytes, the standard one has %d", a, h.Size(), want.size)
		}
		h.Write(msg[:len(msg)/2])
		h.Write(msg[len(msg)/2:])
		if !bytes.Equal(h.Sum(nil), want.sum(msg)) {
			return fmt.Sprintf("FAIL hash-table: algorithm %#x does not compute the standard digest", a)
		}
	}
	return "ok"
}

// bit positions to flip in a region of n bytes: all of them when the region is
// small or the tier is thorough, else every bit of the first and last few bytes and
// one random bit of every other byte
func flipPositions(r *Rng, n int, all bool) []int {
	return flipPositionsT(r, n, all, 24, 4)
}

func flipPositionsT(r *Rng, n int, all bool, small, edge int) []int {
	var out []int
	for i := 0; i < n; i++ {
		if all || n <= small || i < edge || i >= n-edge {
			for b := 0; b < 8; b++ {
				out = append(out, i*8+b)
			}
		} else {
			out = append(out, i*8+r.Intn(8))
		}
	}
	return out
}

func flipped(b []byte, bit int) []byte {
	c := exact(b)
	c[bit/8] ^= 1 << uint(bit%8)
	return c
}

// a single-byte mutation: byte i replaced by another value (0x00, 0xff or anything else)
func byteChanged(r *Rng, b []byte, i int) []byte {
	c := exact(b)
	v := byte(r.Pick(0, 0xff, int(r.U64()&0xff), int(c[i])^0x80, int(c[i])+1))
	if v == c[i] {
		v ^= 0x55
	}
	c[i] = v
	return c
}

// ---------- sign then verify (cbnt / bg KeySignature) ----------

func cloneKS(ks *cbnt.KeySignature) cbnt.KeySignature {
	c := *ks
	c.Key.Data = exact(ks.Key.Data)
	c.Signature.Data = exact(ks.Signature.Data)
	return c
}

// p_sign_verify keyspec otherkeyspec scheme hash msg seed all
func pSignVerify(args []string) string {
	priv := parsePriv(args[0])
	other := parsePriv(args[1])
	scheme := cbnt.Algorithm(UnN(args[2]))
	ha := cbnt.Algorithm(UnN(args[3]))
	msg := UnH(args[4])
	r := NewRng(UnN(args[5]))
	all := args[6] == "1"
	cbnt.RandReader = rngReader{r.Fork(1)}

	var ks cbnt.KeySignature
	ks.Version, ks.Key.Version, ks.Signature.Version = 0x77, 0x77, 0x77
	if err := ks.SetSignature(scheme, ha, priv, exact(msg)); err != nil {
		tag := "sign-rejected"
		switch {
		case strings.Contains(err.Error(), "length of component") || strings.Contains(err.Error(), "size should be 256") ||
			strings.Contains(err.Error(), "len(x)"):
			tag = "ecdsa-fixed-width"
		case strings.Contains(err.Error(), "'AlgUnknown' is not implemented"):
			tag = "rsa-size-detection"
		}
		return "FAIL " + tag + ": signing a message with a valid key failed: " + err.Error()
	}
	if ks.Version != 0x10 || ks.Key.Version != 0x10 || ks.Signature.Version != 0x10 {
		return "FAIL sign-fields: versions not set to 0x10"
	}
	// the stored public key decodes to the signer's key
	pk, err := ks.Key.PubKey()
	if err != nil {
		return "FAIL key-roundtrip: stored key does not decode: " + err.Error()
	}
	switch k := priv.(type) {
	case *rsa.PrivateKey:
		got, ok := pk.(*rsa.PublicKey)
		if !ok || got.N.Cmp(k.N) != 0 || got.E != k.E {
			return "FAIL key-roundtrip: decoded RSA key differs"
		}
		return rsaSignVerify(&ks, k, other, msg, r, all)
	case *ecdsa.PrivateKey:
		got, ok := pk.(ecdsa.PublicKey)
		if !ok || got.X.Cmp(k.X) != 0 || got.Y.Cmp(k.Y) != 0 {
			return "FAIL key-roundtrip: decoded ECDSA key differs"
		}
		return ecSignVerify(&ks, "ecdsa", k.X, k.Y, other, msg, r, all)
	case *sm2.PrivateKey:
		got, ok := pk.(sm2.PublicKey)
		if !ok || got.X.Cmp(k.X) != 0 || got.Y.Cmp(k.Y) != 0 {
			return "FAIL key-roundtrip: decoded SM2 key differs"
		}
		return ecSignVerify(&ks, "sm2", k.X, k.Y, other, msg, r, all)
	}
	return "harness-error key type"
}

func rsaSignVerify(ks *cbnt.KeySignature, k *rsa.PrivateKey, other crypto.Signer, msg []byte, r *Rng, all bool) string {
	all = all && k.Size() <= 256 // larger keys: sampled sweeps
	if err := ks.Verify(msg); err != nil {
		return fmt.Sprintf("FAIL sign-hash-mismatch: signature made by SetSignature(scheme=%v, hash=%v) does not verify over the same data: %v",
			ks.Signature.SigScheme, ks.Signature.HashAlg, err)
	}
	if len(ks.Signature.Data) != k.Size() || int(ks.Signature.KeySize.InBytes()) != k.Size() {
		return "FAIL sign-fields: RSA signature size"
	}
	// covered: message, signature, key data, key size, algorithms
	for _, bit := range flipPositions(r, len(msg), all) {
		if ks.Verify(flipped(msg, bit)) == nil {
			return fmt.Sprintf("FAIL data-bit-accepted: message bit %d flipped, still verifies", bit)
		}
	}
	for _, bit := range flipPositions(r, len(ks.Signature.Data), all) {
		c := cloneKS(ks)
		c.Signature.Data = flipped(c.Signature.Data, bit)
		if c.Verify(msg) == nil {
			return fmt.Sprintf("FAIL signature-bit-accepted: signature bit %d flipped, still verifies", bit)
		}
	}
	for _, bit := range flipPositions(r, len(ks.Key.Data), all) {
		c := cloneKS(ks)
		c.Key.Data = flipped(c.Key.Data, bit)
		if c.Verify(msg) == nil {
			return fmt.Sprintf("FAIL key-bit-accepted: public key bit %d flipped, still verifies", bit)
		}
	}
	for bit := 0; bit < 16; bit++ {
		c := cloneKS(ks)
		c.Key.KeySize ^= 1 << uint(bit)
		// the size is used in bytes: its low three bits are not covered
		if err := c.Verify(msg); (bit >= 3) == (err == nil) {
			return fmt.Sprintf("FAIL key-bit-accepted: key size bit %d flipped: verdict %v", bit, err)
		}
		c = cloneKS(ks)
		c.Key.KeyAlg ^= 1 << uint(bit)
		if c.Verify(msg) == nil {
			return "FAIL key-bit-accepted: key algorithm changed, still verifies"
		}
		c = cloneKS(ks)
		c.Signature.SigScheme ^= 1 << uint(bit)
		if c.Verify(msg) == nil {
			return "FAIL signature-bit-accepted: scheme changed, still verifies"
		}
		c = cloneKS(ks)
		c.Signature.HashAlg ^= 1 << uint(bit)
		if c.Verify(msg) == nil {
			return "FAIL signature-bit-accepted: hash algorithm changed, still verifies"
		}
	}
	// not covered: the three version bytes and the signature's key size field
	for bit := 0; bit < 16; bit++ {
		c := cloneKS(ks)
		c.Version ^= 1 << uint(bit%8)
		c.Key.Version ^= 1 << uint((bit+3)%8)
		c.Signature.Version ^= 1 << uint((bit+5)%8)
		c.Signature.KeySize ^= 1 << uint(bit)
		if err := c.Verify(msg); err != nil {
			return "FAIL uncovered-influences: changing version / signature key size fields changed the verdict: " + err.Error()
		}
	}
	// a different key
	c := cloneKS(ks)
	if err := c.Key.SetPubKey(other.Public()); err == nil {
		if c.Verify(msg) == nil {
			return "FAIL other-key-accepted"
		}
	}
	return "ok"
}

// ECDSA / SM2: the Go code has no verification; the property asks that what is
// stored is fixed-width, decodes to what the signer produced and verifies under
// the standard algorithm (crypto/ecdsa over the digest named in the structure; SM2 with the
// default user id).
func ecSignVerify(ks *cbnt.KeySignature, kind string, x, y *big.Int, other crypto.Signer, msg []byte, r *Rng, all bool) string {
	if len(ks.Signature.Data) != 64 {
		return fmt.Sprintf("FAIL ecdsa-fixed-width: signature data has %d bytes, expected 64", len(ks.Signature.Data))
	}
	if ks.Signature.KeySize.InBits() != 256 || ks.Key.KeySize.InBits() != 256 || len(ks.Key.Data) != 64 {
		return "FAIL ecdsa-fixed-width: key size fields"
	}
	std := func(keyData, sigData, m []byte) bool {
		c := cloneKS(ks)
		c.Key.Data, c.Signature.Data = keyData, sigData
		pk, err := c.Key.PubKey()
		if err != nil {
			return false
		}
		sd, err := c.Signature.SignatureData()
		if err != nil {
			return false
		}
		switch kind {
		case "ecdsa":
			p := pk.(ecdsa.PublicKey)
			s := sd.(cbnt.SignatureECDSA)
			return ecdsa.Verify(&ecdsa.PublicKey{Curve: elliptic.P256(), X: p.X, Y: p.Y}, hashOf(ks.Signature.HashAlg, m), s.R, s.S)
		default:
			p := pk.(sm2.PublicKey)
			s := sd.(cbnt.SignatureSM2)
			cv := sm2.P256Sm2()
			if !cv.IsOnCurve(p.X, p.Y) {
				return false
			}
			return sm2.Sm2Verify(&sm2.PublicKey{Curve: cv, X: p.X, Y: p.Y}, m, sm2UID, s.R, s.S)
		}
	}
	if !std(ks.Key.Data, ks.Signature.Data, msg) {
		return fmt.Sprintf("FAIL ecdsa-unhashed: stored %s signature (hash=%v) does not verify under the standard algorithm", kind, ks.Signature.HashAlg)
	}
	msgFlips := flipPositionsT(r, len(msg), all, 4, 1)
	sigFlips := flipPositionsT(r, 64, all, 0, 1)
	if kind == "sm2" { // gmsm verification takes about a millisecond: sample, also in the thorough tier
		msgFlips = flipPositionsT(r, len(msg), false, 4, 1)
		sigFlips = flipPositionsT(r, 64, false, 0, 1)
		if !all {
			msgFlips = msgFlips[:min(len(msgFlips), 12)]
			sigFlips = append(sigFlips[:12], sigFlips[len(sigFlips)-12:]...)
		}
	}
	for _, bit := range msgFlips {
		if std(ks.Key.Data, ks.Signature.Data, flipped(msg, bit)) {
			return fmt.Sprintf("FAIL data-bit-accepted: %s message bit %d flipped, still verifies", kind, bit)
		}
	}
	for _, bit := range sigFlips {
		if std(ks.Key.Data, flipped(ks.Signature.Data, bit), msg) {
			return fmt.Sprintf("FAIL signature-bit-accepted: %s signature bit %d", kind, bit)
		}
		if std(flipped(ks.Key.Data, bit), ks.Signature.Data, msg) {
			return fmt.Sprintf("FAIL key-bit-accepted: %s key bit %d", kind, bit)
		}
	}
	c := cloneKS(ks)
	if err := c.Key.SetPubKey(other.Public()); err == nil {
		if std(c.Key.Data, ks.Signature.Data, msg) {
			return "FAIL other-key-accepted"
		}
	}
	// the library's own verdict for these schemes is an error, never success
	if ks.Verify(msg) == nil {
		return "FAIL unimplemented-verify-succeeds"
	}
	return "ok"
}

// p_bg_sign_verify keyspec otherkeyspec auto msg seed all
func pBgSignVerify(args []string) string {
	k := parsePriv(args[0]).(*rsa.PrivateKey)
	other := parsePriv(args[1])
	msg := UnH(args[3])
	r := NewRng(UnN(args[4]))
	all := args[5] == "1" && k.Size() <= 256
	bg.RandReader = rngReader{r.Fork(1)}
	var ks bg.KeySignature
	var err error
	if args[2] == "1" {
		err = ks.SetSignatureAuto(k, exact(msg))
	} else {
		err = ks.SetSignature(bg.AlgRSASSA, k, exact(msg))
	}
	if err != nil {
		return "FAIL sign-rejected: bg: " + err.Error()
	}
	if err := ks.Verify(msg); err != nil {
		return "FAIL sign-hash-mismatch: bg signature does not verify over the same data: " + err.Error()
	}
	clone := func() bg.KeySignature {
		c := ks
		c.Key.Data = exact(ks.Key.Data)
		c.Signature.Data = exact(ks.Signature.Data)
		return c
	}
	for _, bit := range flipPositions(r, len(msg), all) {
		if ks.Verify(flipped(msg, bit)) == nil {
			return fmt.Sprintf("FAIL data-bit-accepted: bg message bit %d", bit)
		}
	}
	for _, bit := range flipPositions(r, len(ks.Signature.Data), all) {
		c := clone()
		c.Signature.Data = flipped(c.Signature.Data, bit)
		if c.Verify(msg) == nil {
			return fmt.Sprintf("FAIL signature-bit-accepted: bg signature bit %d", bit)
		}
	}
	for _, bit := range flipPositions(r, len(ks.Key.Data), all) {
		c := clone()
		c.Key.Data = flipped(c.Key.Data, bit)
		if c.Verify(msg) == nil {
			return fmt.Sprintf("FAIL key-bit-accepted: bg key bit %d", bit)
		}
	}
	for bit := 0; bit < 16; bit++ {
		c := clone()
		c.Version ^= 1 << uint(bit%8)
		c.Key.Version ^= 1 << uint((bit+3)%8)
		c.Signature.Version ^= 1 << uint((bit+5)%8)
		c.Signature.KeySize ^= 1 << uint(bit)
		c.Signature.HashAlg ^= 1 << uint(bit) // bg verifies with SHA-256 whatever the field says
		if err := c.Verify(msg); err != nil {
			return "FAIL uncovered-influences: bg: " + err.Error()
		}
	}
	c := clone()
	if err := c.Key.SetPubKey(other.Public()); err == nil && c.Verify(msg) == nil {
		return "FAIL other-key-accepted"
	}
	return "ok"
}

// p_key_roundtrip kind a b : SetPubKey then PubKey returns the key
func pKeyRoundtrip(args []string) string {
	var k cbnt.Key
	pub := pubArg(args)
	if err := k.SetPubKey(pub); err != nil {
		tag := "key-roundtrip"
		if args[0] != "rsa" {
			tag = "ecdsa-fixed-width"
		}
		return "FAIL " + tag + ": SetPubKey rejects a valid public key: " + err.Error()
	}
	got, err := k.PubKey()
	if err != nil {
		return "FAIL key-roundtrip: " + err.Error()
	}
	want := pubObs(pub, nil)
	if p, ok := pub.(*ecdsa.PublicKey); ok {
		want = pubObs(*p, nil)
	}
	if p, ok := pub.(*sm2.PublicKey); ok {
		want = pubObs(*p, nil)
	}
	if pubObs(got, nil) != want {
		return "FAIL key-roundtrip: decoded key differs"
	}
	if args[0] != "rsa" && len(k.Data) != 64 {
		return "FAIL ecdsa-fixed-width: key data length"
	}
	return "ok"
}

// ---------- BPM key hash ----------

// p_bpmkey flavour keyspec otherkeyspec hashalg extra seed all
func pBpmKey(args []string) string {
	k := parsePriv(args[1]).(*rsa.PrivateKey)
	other := parsePriv(args[2]).(*rsa.PrivateKey)
	alg := cbnt.Algorithm(UnN(args[3]))
	extra := int(UnN(args[4]))
	r := NewRng(UnN(args[5]))
	all := args[6] == "1"
	var key cbnt.Key
	if err := key.SetPubKey(&k.PublicKey); err != nil {
		return "FAIL key-roundtrip: " + err.Error()
	}
	digest := hashOf(alg, key.Data[4:])
	// cbnt: further entries with the BPM usage bit, each with a hash algorithm of its own (all of them have to match)
	type bpmEntry struct {
		alg    cbnt.Algorithm
		digest []byte
	}
	var more []bpmEntry
	if args[0] != "bg" {
		for i, n := 0, r.Pick(0, 1, 1, 2); i < n; i++ {
			a := cbnt.Algorithm(r.Pick(4, 0xb, 0xc, 0xd, 0x12))
			more = append(more, bpmEntry{a, hashOf(a, key.Data[4:])})
		}
	}
	firstAt := r.Intn(len(more) + 1) // position of the digest under test among the BPM entries
	var validateMore func(keyData, dig []byte, more []bpmEntry) error
	var validate func(keyData, dig []byte) error
	if args[0] == "bg" {
		validate = func(keyData, dig []byte) error {
			m := bgkey.Manifest{BPKey: bg.HashStructure{HashAlg: bg.Algorithm(alg), HashBuffer: dig}}
			return m.ValidateBPMKey(bg.KeySignature{Key: bg.Key{KeyAlg: bg.AlgRSA, Data: keyData}})
		}
	} else {
		validateMore = func(keyData, dig []byte, more []bpmEntry) error {
			m := cbntkey.Manifest{}
			// entries for other usages do not matter, whatever they contain
			other := func(n int) {
				for i := 0; i < n; i++ {
					m.Hash = append(m.Hash, cbntkey.Hash{Usage: cbntkey.Usage(2 << uint(r.Intn(4))),
						Digest: cbnt.HashStructure{HashAlg: cbnt.Algorithm(r.Pick(0, 4, 11, 12, 99)), HashBuffer: r.Bytes(r.Intn(40))}})
				}
			}
			bpm := func(a cbnt.Algorithm, d []byte) {
				m.Hash = append(m.Hash, cbntkey.Hash{Usage: cbntkey.UsageBPMSigningPKD | cbntkey.Usage(r.Intn(16)<<1),
					Digest: cbnt.HashStructure{HashAlg: a, HashBuffer: exact(d)}})
			}
			other(extra)
			for i := 0; i <= len(more); i++ {
				if i == firstAt {
					bpm(alg, dig)
				}
				if i < len(more) {
					bpm(more[i].alg, more[i].digest)
					other(r.Intn(2))
				}
			}
			return m.ValidateBPMKey(cbnt.KeySignature{Key: cbnt.Key{KeyAlg: cbnt.AlgRSA, Data: keyData}})
		}
		validate = func(keyData, dig []byte) error { return validateMore(keyData, dig, more) }
	}
	if err := validate(exact(key.Data), exact(digest)); err != nil {
		return "FAIL bpmkey-rejected: matching digest refused: " + err.Error()
	}
	for _, bit := range flipPositions(r, len(key.Data)-4, all) {
		if validate(flipped(key.Data, 32+bit), exact(digest)) == nil {
			return fmt.Sprintf("FAIL key-bit-accepted: modulus bit %d flipped, BPM key still accepted", bit)
		}
	}
	for bit := 0; bit < len(digest)*8; bit++ {
		if validate(exact(key.Data), flipped(digest, bit)) == nil {
			return "FAIL digest-bit-accepted"
		}
	}
	// every digest with the BPM usage bit is covered, wherever it stands in the list
	for j := range more {
		for _, bit := range flipPositions(r, len(more[j].digest), all) {
			bad := append([]bpmEntry{}, more...)
			bad[j] = bpmEntry{more[j].alg, flipped(more[j].digest, bit)}
			if validateMore(exact(key.Data), exact(digest), bad) == nil {
				return fmt.Sprintf("FAIL digest-bit-accepted: BPM key digest %d of %d (hash %v) changed, still accepted", j+2, len(more)+1, more[j].alg)
			}
		}
	}
	// no digest for the BPM key at all: success would not be bound to any key
	if args[0] != "bg" {
		m := cbntkey.Manifest{}
		for i := 0; i < extra; i++ {
			m.Hash = append(m.Hash, cbntkey.Hash{Usage: cbntkey.Usage(2 << uint(r.Intn(4))),
				Digest: cbnt.HashStructure{HashAlg: alg, HashBuffer: exact(digest)}})
		}
		if m.ValidateBPMKey(cbnt.KeySignature{Key: cbnt.Key{KeyAlg: cbnt.AlgRSA, Data: exact(key.Data)}}) == nil {
			return "FAIL bpmkey-vacuous: accepted although no entry of the key manifest has the BPM usage"
		}
	}
	// the exponent (first four bytes of the key data) is not hashed
	for bit := 0; bit < 32; bit++ {
		if err := validate(flipped(key.Data, bit), exact(digest)); err != nil {
			return "FAIL uncovered-influences: exponent bit changed the BPM key verdict: " + err.Error()
		}
	}
	var ok2 cbnt.Key
	_ = ok2.SetPubKey(&other.PublicKey)
	if validate(exact(ok2.Data), exact(digest)) == nil {
		return "FAIL other-key-accepted"
	}
	return "ok"
}

// ---------- IBB digest ----------

// p_ibb flavour hashalg fw nseg {flags base size} seed all
func pIbb(args []string) string {
	alg := cbnt.Algorithm(UnN(args[1]))
	fw := UnH(args[2])
	segs, rest := segsArg(args[3:])
	r := NewRng(UnN(rest[0]))
	all := rest[1] == "1"
	// hypothesis of the theorem: every hashed range lies inside the firmware
	covered := make([]bool, len(fw))
	var stream []byte
	for _, g := range segs {
		if g.flags&1 == 1 {
			continue
		}
		off := uint64(g.base) - (uint64(1)<<32 - uint64(len(fw)))
		end := off + uint64(g.size)
		if off > end || end > uint64(len(fw)) {
			return "skip"
		}
		stream = append(stream, fw[off:end]...)
		for i := off; i < end; i++ {
			covered[i] = true
		}
	}
	digest := hashOf(alg, stream)
	// further SE elements (segments inside the image, digests of their own) have no say: the verdict is
	// the one of the first element
	var se2 []segArg
	rs := r.Fork(2)
	for i, n := 0, rs.Pick(0, 1, 2, 3); i < n && len(fw) > 0; i++ {
		sz := rs.Intn(len(fw)/2 + 1)
		off := rs.Intn(len(fw) - sz + 1)
		if off == len(fw) {
			// an empty segment at the very end of the image would have the base 2^32, which a 32-bit
			// field cannot hold
			off = len(fw) - 1
		}
		se2 = append(se2, segArg{flags: uint16(rs.Pick(0, 0, 2, 1)), base: uint32(uint64(1)<<32 - uint64(len(fw)) + uint64(off)), size: uint32(sz)})
	}
	// (they carry the correct SHA-256 digest of their own segments, and nothing is demanded for bytes that only
	// they cover: a reading that checks every element is not reported)
	var st2 []byte
	covered2 := make([]bool, len(fw))
	for _, g := range se2 {
		if g.flags&1 == 1 {
			continue
		}
		off := uint64(g.base) - (uint64(1)<<32 - uint64(len(fw)))
		st2 = append(st2, fw[off:off+uint64(g.size)]...)
		for i := off; i < off+uint64(g.size); i++ {
			covered2[i] = true
		}
	}
	dig2 := sha256Of(st2)
	nSE := rs.Pick(1, 2, 2, 3)
	if nSE == 1 {
		covered2 = make([]bool, len(fw))
	}
	var validate func(f, dig []byte) error
	if args[0] == "bg" {
		validate = func(f, dig []byte) error {
			m := &bgbootpolicy.Manifest{SE: []bgbootpolicy.SE{{Digest: bg.HashStructure{HashAlg: bg.Algorithm(alg), HashBuffer: dig}, IBBSegments: bgSegs(segs)}}}
			for i := 1; i < nSE; i++ {
				m.SE = append(m.SE, bgbootpolicy.SE{Digest: bg.HashStructure{HashAlg: bg.AlgSHA256, HashBuffer: exact(dig2)}, IBBSegments: bgSegs(se2)})
			}
			return m.ValidateIBB(&fakeFW{buf: exact(f)})
		}
	} else {
		validate = func(f, dig []byte) error {
			se := cbntbootpolicy.SE{IBBSegments: cbntSegs(segs)}
			se.DigestList.List = []cbnt.HashStructure{{HashAlg: alg, HashBuffer: dig},
				{HashAlg: cbnt.AlgSHA1, HashBuffer: r.Bytes(20)}} // only the first digest is checked
			m := &cbntbootpolicy.Manifest{SE: []cbntbootpolicy.SE{se}}
			for i := 1; i < nSE; i++ {
				o := cbntbootpolicy.SE{IBBSegments: cbntSegs(se2)}
				o.DigestList.List = []cbnt.HashStructure{{HashAlg: cbnt.AlgSHA256, HashBuffer: exact(dig2)}}
				m.SE = append(m.SE, o)
			}
			return m.ValidateIBB(&fakeFW{buf: exact(f)})
		}
	}
	if err := validate(fw, digest); err != nil {
		return "FAIL ibb-rejected: digest of the hashed segments refused: " + err.Error()
	}
	for i := range fw {
		bits := []int{r.Intn(8)}
		if all || len(fw) <= 64 {
			bits = []int{0, 1, 2, 3, 4, 5, 6, 7}
		}
		if !covered[i] && covered2[i] {
			continue
		}
		for _, b := range bits {
			err := validate(flipped(fw, i*8+b), digest)
			if covered[i] && err == nil {
				return fmt.Sprintf("FAIL data-bit-accepted: firmware byte %d inside a hashed segment changed, still accepted", i)
			}
			if !covered[i] && err != nil {
				return fmt.Sprintf("FAIL uncovered-influences: firmware byte %d outside the hashed segments changed the verdict", i)
			}
		}
		err := validate(byteChanged(r, fw, i), digest)
		if covered[i] && err == nil {
			return fmt.Sprintf("FAIL data-bit-accepted: firmware byte %d inside a hashed segment replaced, still accepted", i)
		}
		if !covered[i] && err != nil {
			return fmt.Sprintf("FAIL uncovered-influences: firmware byte %d outside the hashed segments replaced, verdict changed", i)
		}
	}
	for bit := 0; bit < len(digest)*8; bit++ {
		if validate(fw, flipped(digest, bit)) == nil {
			return "FAIL digest-bit-accepted"
		}
	}
	return "ok"
}

// ---------- AMD PSB ----------

func psbKeyBytes(version uint32, id, cert []byte, usage uint32, reserved []byte, expSize, modSize uint32, exponent, modulus []byte) []byte {
	var b bytes.Buffer
	le := func(v uint32) { _ = binary.Write(&b, binary.LittleEndian, v) }
	le(version)
	b.Write(id[:16])
	b.Write(cert[:16])
	le(usage)
	b.Write(reserved[:16])
	le(expSize)
	le(modSize)
	b.Write(exponent)
	b.Write(modulus)
	return b.Bytes()
}

func leBytes(v *big.Int, n int) []byte {
	be := v.FillBytes(make([]byte, n))
	out := make([]byte, n)
	for i := range be {
		out[n-1-i] = be[i]
	}
	return out
}

func reversed(b []byte) []byte {
	out := make([]byte, len(b))
	for i := range b {
		out[len(b)-1-i] = b[i]
	}
	return out
}

// the wire form of a root key (key id == certifying key id) for an RSA public key
func psbRootKeyBytes(pub *rsa.PublicKey, id []byte, usage uint32, r *Rng) []byte {
	n := pub.Size()
	return psbKeyBytes(uint32(r.U64()), id, id, usage, r.Bytes(16), uint32(n*8), uint32(n*8),
		leBytes(big.NewInt(int64(pub.E)), n), leBytes(pub.N, n))
}

func pssSign(k *rsa.PrivateKey, data []byte, r *Rng) []byte {
	var h crypto.Hash
	var d []byte
	if k.Size() == 512 {
		h = crypto.SHA384
		s := sha512.Sum384(data)
		d = s[:]
	} else {
		h = crypto.SHA256
		s := sha256.Sum256(data)
		d = s[:]
	}
	sig, err := rsa.SignPSS(rngReader{r}, k, h, d, &rsa.PSSOptions{SaltLength: rsa.PSSSaltLengthEqualsHash})
	if err != nil {
		panic(err)
	}
	return sig
}

type pspLayout struct {
	raw                         []byte
	signedEnd, sigStart, sigEnd int
}

// a PSP binary signed with k under key id: conv 0 = uncompressed (SizeSigned/SizeImage), 1 = compressed
func buildPSP(r *Rng, k *rsa.PrivateKey, id []byte, conv, payload, gap, tail int) pspLayout {
	var hdr psb.PSPHeaderData
	hb := r.Bytes(binary.Size(hdr))
	_ = binary.Read(bytes.NewReader(hb), binary.LittleEndian, &hdr)
	copy(hdr.SignatureParameters[:], id)
	sigSize := k.Size()
	var l pspLayout
	if conv == 0 {
		hdr.CompressionOptions = 0
		hdr.SizeSigned = uint32(payload)
		l.signedEnd = 0x100 + payload
		l.sigStart = l.signedEnd + gap
		hdr.SizeImage = uint32(l.sigStart + sigSize)
	} else {
		if hdr.CompressionOptions == 0 {
			hdr.CompressionOptions = 1
		}
		hdr.CompressedImageSize = uint32(payload)
		l.signedEnd = (payload+15)&^15 + 0x100
		l.sigStart = l.signedEnd
		if hdr.SizeSigned == 0 {
			hdr.SizeSigned = 1
		}
		if hdr.SizeImage == 0 {
			hdr.SizeImage = 1
		}
	}
	l.sigEnd = l.sigStart + sigSize
	var b bytes.Buffer
	_ = binary.Write(&b, binary.LittleEndian, &hdr)
	b.Write(r.Bytes(0x100 - b.Len()))
	b.Write(r.Bytes(l.sigStart - 0x100))
	sig := pssSign(k, b.Bytes()[:l.signedEnd], r)
	b.Write(sig)
	b.Write(r.Bytes(tail))
	l.raw = b.Bytes()
	return l
}

func pspVerdict(ks psb.KeySet, raw []byte) error {
	prefix := efsBytes()
	img := exact(append(append([]byte{}, prefix...), raw...))
	fw, err := amd_manifest.NewAMDFirmware(amdFW{img: img})
	if err != nil {
		return err
	}
	res, err := psb.ValidatePSPEntry(fw, ks, uint64(len(prefix)), uint64(len(raw)))
	if err != nil {
		return err
	}
	return res.Error()
}

func keySetOf(raws ...[]byte) psb.KeySet {
	ks := psb.NewKeySet()
	for _, raw := range raws {
		k, err := psb.NewRootKey(bytes.NewBuffer(exact(raw)))
		if err != nil {
			panic("keyset: " + err.Error())
		}
		if err := ks.AddKey(k, psb.KeyDatabaseKey); err != nil {
			panic("keyset: " + err.Error())
		}
	}
	return ks
}

// bytes of the header fields getSignedBlob reads
func pspFieldByte(i int) bool {
	for _, f := range [][2]int{{20, 4}, {56, 16}, {72, 4}, {84, 4}, {108, 4}} {
		if i >= f[0] && i < f[0]+f[1] {
			return true
		}
	}
	return false
}

// p_psb keyspec otherkeyspec conv payload gap tail seed all
func pPsb(args []string) string {
	k := parsePriv(args[0]).(*rsa.PrivateKey)
	other := parsePriv(args[1]).(*rsa.PrivateKey)
	if k.Size() != 256 && k.Size() != 512 {
		return "skip"
	}
	conv, payload, gap, tail := int(UnN(args[2])), int(UnN(args[3])), int(UnN(args[4])), int(UnN(args[5]))
	if payload == 0 || (conv != 0 && gap != 0) {
		return "skip"
	}
	r := NewRng(UnN(args[6]))
	all := args[7] == "1" && k.Size() == 256 // 4096-bit sweeps are sampled: about 0.3 ms per verification
	id := r.Bytes(16)
	l := buildPSP(r, k, id, conv, payload, gap, tail)
	keyRaw := psbRootKeyBytes(&k.PublicKey, id, 0, r)
	ks := keySetOf(keyRaw)
	if err := pspVerdict(ks, l.raw); err != nil {
		return "FAIL psb-rejected: correctly signed PSP binary refused: " + err.Error()
	}
	// psb.NewSignedBlob called directly: any other length of the data, and a reversed signature, are refused
	{
		var kid psb.KeyID
		copy(kid[:], id)
		key := ks.GetKey(kid)
		if key == nil {
			return "harness-error key set"
		}
		sig, signed := exact(l.raw[l.sigStart:l.sigEnd]), exact(l.raw[:l.signedEnd])
		blob, err := psb.NewSignedBlob(sig, signed, key)
		_ = blob
		if err != nil {
			return fmt.Sprintf("FAIL psb-rejected: NewSignedBlob refuses signature and data of a correctly signed binary: %v", err)
		}
		for _, d := range [][]byte{signed[:len(signed)-1], append(exact(signed), 0), signed[1:], nil} {
			if _, err := psb.NewSignedBlob(sig, d, key); err == nil {
				return "FAIL signed-bit-accepted: NewSignedBlob accepts the signature for data of another length"
			}
		}
		if _, err := psb.NewSignedBlob(reversed(sig), signed, key); err == nil {
			return "FAIL signature-bit-accepted: NewSignedBlob accepts the byte-reversed signature"
		}
	}
	region := func(i int) string {
		switch {
		case i < l.signedEnd:
			return "signed"
		case i >= l.sigStart && i < l.sigEnd:
			return "signature"
		}
		return "outside"
	}
	for i := range l.raw {
		bits := []int{r.Intn(8)}
		if all || pspFieldByte(i) {
			bits = []int{0, 1, 2, 3, 4, 5, 6, 7}
		}
		for _, b := range bits {
			err := pspVerdict(ks, flipped(l.raw, i*8+b))
			switch region(i) {
			case "outside":
				if err != nil {
					return fmt.Sprintf("FAIL uncovered-influences: PSP byte %d outside the signed range and the signature changed the verdict: %v", i, err)
				}
			default:
				if err == nil {
					return fmt.Sprintf("FAIL %s-bit-accepted: PSP byte %d bit %d flipped, still valid", region(i), i, b)
				}
			}
		}
	}
	// public key: modulus and the low four exponent bytes
	n := k.Size()
	for _, bit := range flipPositions(r, n, all) {
		kr := flipped(keyRaw, (64+n)*8+bit)
		if pspVerdict(keySetOf(kr), l.raw) == nil {
			return fmt.Sprintf("FAIL key-bit-accepted: modulus bit %d flipped, still valid", bit)
		}
	}
	for bit := 0; bit < 32; bit++ {
		if pspVerdict(keySetOf(flipped(keyRaw, 64*8+bit)), l.raw) == nil {
			return fmt.Sprintf("FAIL key-bit-accepted: exponent bit %d flipped, still valid", bit)
		}
	}
	// a different key under the same id; an empty key set
	if other.Size() == 256 || other.Size() == 512 {
		if pspVerdict(keySetOf(psbRootKeyBytes(&other.PublicKey, id, 0, r)), l.raw) == nil {
			return "FAIL other-key-accepted"
		}
	}
	if pspVerdict(psb.NewKeySet(), l.raw) == nil {
		return "FAIL unknown-key-accepted"
	}
	return "ok"
}

// a token key for pub, certified by signer (whose key id is certID)
func buildToken(r *Rng, pub *rsa.PublicKey, signer *rsa.PrivateKey, certID []byte, usage uint32) []byte {
	n := pub.Size()
	body := psbKeyBytes(uint32(r.U64()), r.Bytes(16), certID, usage, r.Bytes(16), uint32(n*8), uint32(n*8),
		leBytes(big.NewInt(int64(pub.E)), n), leBytes(pub.N, n))
	sig := pssSign(signer, body, r)
	return append(body, reversed(sig)...)
}

// p_token rootkeyspec tokenkeyspec otherkeyspec tail seed all
func pToken(args []string) string {
	root := parsePriv(args[0]).(*rsa.PrivateKey)
	tk := parsePriv(args[1]).(*rsa.PrivateKey)
	other := parsePriv(args[2]).(*rsa.PrivateKey)
	if root.Size() != 256 && root.Size() != 512 {
		return "skip"
	}
	tail := int(UnN(args[3]))
	r := NewRng(UnN(args[4]))
	all := args[5] == "1" && root.Size() == 256 && tk.Size() <= 256 // 4096-bit sweeps are sampled: about 0.3 ms per verification
	rootID := r.Bytes(16)
	rootRaw := psbRootKeyBytes(&root.PublicKey, rootID, 0, r)
	ks := keySetOf(rootRaw)
	tok := append(buildToken(r, &tk.PublicKey, root, rootID, uint32(r.Pick(0, 1, 2, 8))), r.Bytes(tail)...)
	verdict := func(set psb.KeySet, raw []byte) error {
		_, err := psb.NewTokenKey(bytes.NewBuffer(exact(raw)), set)
		return err
	}
	if err := verdict(ks, tok); err != nil {
		return "FAIL token-rejected: correctly signed token key refused: " + err.Error()
	}
	signedEnd := 64 + 2*tk.Size()
	sigEnd := signedEnd + root.Size()
	for i := range tok {
		bits := []int{r.Intn(8)}
		if all || i < 64 {
			bits = []int{0, 1, 2, 3, 4, 5, 6, 7}
		}
		if i == 59 || i == 63 {
			// the top byte of the exponent / modulus size: the parser allocates that many bits
			// before it notices the token is too short (hundreds of MiB); left to C20
			bits = []int{0}
		}
		for _, b := range bits {
			err := verdict(ks, flipped(tok, i*8+b))
			if i < sigEnd && err == nil {
				return fmt.Sprintf("FAIL signed-bit-accepted: token byte %d bit %d flipped, still accepted", i, b)
			}
			if i >= sigEnd && err != nil {
				return fmt.Sprintf("FAIL uncovered-influences: token byte %d after the signature changed the verdict", i)
			}
		}
	}
	// membership: not in the set, or a different key under the certifying id
	if verdict(psb.NewKeySet(), tok) == nil {
		return "FAIL token-without-member-accepted"
	}
	otherID := r.Bytes(16)
	if verdict(keySetOf(psbRootKeyBytes(&root.PublicKey, otherID, 0, r)), tok) == nil {
		return "FAIL token-without-member-accepted: certifying id not in the set"
	}
	if other.Size() == 256 || other.Size() == 512 {
		if verdict(keySetOf(psbRootKeyBytes(&other.PublicKey, rootID, 0, r)), tok) == nil {
			return "FAIL other-key-accepted"
		}
	}
	// a token that names itself as its certifier and is signed with its own key: not a member of any key set
	if tk.Size() == 256 || tk.Size() == 512 {
		selfID := r.Bytes(16)
		body := psbKeyBytes(uint32(r.U64()), selfID, selfID, uint32(r.Pick(0, 1, 2, 8)), r.Bytes(16), uint32(tk.Size()*8), uint32(tk.Size()*8),
			leBytes(big.NewInt(int64(tk.E)), tk.Size()), leBytes(tk.N, tk.Size()))
		self := append(body, reversed(pssSign(tk, body, r))...)
		if verdict(ks, self) == nil || verdict(psb.NewKeySet(), self) == nil {
			return "FAIL token-without-member-accepted: a token certified by itself"
		}
	}
	for _, bit := range flipPositions(r, root.Size(), all) {
		if verdict(keySetOf(flipped(rootRaw, (64+root.Size())*8+bit)), tok) == nil {
			return fmt.Sprintf("FAIL key-bit-accepted: certifying modulus bit %d", bit)
		}
	}
	return "ok"
}

// ---------- sequences of signing operations on one structure ----------

// the scheme SetSignature uses for a key when signAlgo is 0 (0: none, signing must fail)
func detectedScheme(k crypto.Signer) cbnt.Algorithm {
	switch v := k.(type) {
	case *rsa.PrivateKey:
		switch v.Size() * 8 {
		case 2048:
			return cbnt.AlgRSASSA
		case 3072:
			return cbnt.AlgRSAPSS
		}
		return 0
	case *ecdsa.PrivateKey:
		return cbnt.AlgECDSA
	case *sm2.PrivateKey:
		return cbnt.AlgSM2
	}
	return 0
}

func schemeDefaultHash(sc cbnt.Algorithm) cbnt.Algorithm {
	switch sc {
	case cbnt.AlgRSAPSS:
		return cbnt.AlgSHA384
	case cbnt.AlgRSASSA:
		return cbnt.AlgSHA256
	case cbnt.AlgECDSA:
		return cbnt.AlgSHA512
	}
	return cbnt.AlgSM3
}

// p_resign container seed nsteps {keyspec scheme hash msg roundtrip}
// One structure (sig = cbnt.Signature, ks = cbnt.KeySignature, km = key manifest, bpm = PMSE
// element of a boot policy manifest) is signed several times in a row, optionally written and
// read back in between. After every step: what the library just signed verifies over the same
// data, and the recorded scheme / hash / sizes / key are the ones that were used.
func pResign(args []string) string {
	container := args[0]
	r := NewRng(UnN(args[1]))
	n := int(UnN(args[2]))
	a := args[3:]
	var km cbntkey.Manifest
	var bpm cbntbootpolicy.Manifest
	var ksv cbnt.KeySignature
	var sg cbnt.Signature
	ksOf := func() *cbnt.KeySignature {
		switch container {
		case "km":
			return &km.KeyAndSignature
		case "bpm":
			return &bpm.PMSE.KeySignature
		}
		return &ksv
	}
	for step := 0; step < n; step++ {
		priv := parsePriv(a[0])
		scheme, ha, msg, roundtrip := cbnt.Algorithm(UnN(a[1])), cbnt.Algorithm(UnN(a[2])), UnH(a[3]), a[4] == "1"
		a = a[5:]
		cbnt.RandReader = rngReader{r.Fork(uint64(step))}
		where := fmt.Sprintf("step %d (%s, scheme=%v hash=%v)", step+1, container, scheme, ha)
		var err error
		switch container {
		case "sig":
			err = sg.SetSignature(scheme, ha, priv, exact(msg))
		case "ks":
			if scheme == 0 && ha == 0 {
				err = ksv.SetSignatureAuto(priv, exact(msg))
			} else {
				err = ksv.SetSignature(scheme, ha, priv, exact(msg))
			}
		case "km":
			err = km.SetSignature(scheme, ha, priv, exact(msg))
		case "bpm":
			err = bpm.PMSE.SetSignature(scheme, ha, priv, exact(msg))
		}
		if err != nil {
			return "FAIL sign-rejected: " + where + ": " + err.Error()
		}
		usedScheme := scheme
		if usedScheme == 0 {
			usedScheme = detectedScheme(priv)
		}
		usedHash := ha
		if usedHash.IsNull() {
			usedHash = schemeDefaultHash(usedScheme)
		}
		cur := &sg
		if container != "sig" {
			cur = &ksOf().Signature
		}
		if cur.SigScheme != usedScheme {
			return fmt.Sprintf("FAIL resign-fields: %s: recorded scheme %v, used %v", where, cur.SigScheme, usedScheme)
		}
		if cur.HashAlg != usedHash {
			return fmt.Sprintf("FAIL resign-stale-hash: %s: recorded hash %v, the data was signed with %v", where, cur.HashAlg, usedHash)
		}
		if cur.Version != 0x10 {
			return "FAIL resign-fields: " + where + ": signature version"
		}
		if container == "km" && km.PubKeyHashAlg != usedHash {
			return fmt.Sprintf("FAIL resign-stale-hash: %s: PubKeyHashAlg %v, used %v", where, km.PubKeyHashAlg, usedHash)
		}
		// the key stored next to the signature is the signer's
		if container != "sig" {
			var want cbnt.Key
			if err := want.SetPubKey(priv.Public()); err != nil {
				return "FAIL key-roundtrip: " + err.Error()
			}
			k := &ksOf().Key
			if k.KeyAlg != want.KeyAlg || k.KeySize != want.KeySize || k.Version != 0x10 || !bytes.Equal(k.Data, want.Data) || ksOf().Version != 0x10 {
				return "FAIL resign-fields: " + where + ": stored key is not the signer's"
			}
		}
		// what was just signed verifies over the same data
		switch k := priv.(type) {
		case *rsa.PrivateKey:
			if int(cur.KeySize.InBytes()) != k.Size() || len(cur.Data) != k.Size() {
				return "FAIL resign-fields: " + where + ": signature size"
			}
			if container == "sig" {
				sd, err := sg.SignatureData()
				if err != nil {
					return "FAIL resign-verify: " + where + ": " + err.Error()
				}
				err = sd.Verify(&k.PublicKey, sg.HashAlg, msg)
				if err != nil {
					return "FAIL resign-verify: " + where + ": the library's own signature does not verify over the same data: " + err.Error()
				}
			} else if err := ksOf().Verify(msg); err != nil {
				return "FAIL resign-verify: " + where + ": the library's own signature does not verify over the same data: " + err.Error()
			}
			if container != "sig" && len(msg) > 0 && ksOf().Verify(flipped(msg, r.Intn(len(msg)*8))) == nil {
				return "FAIL data-bit-accepted: " + where
			}
		case *ecdsa.PrivateKey:
			sd, err := cur.SignatureData()
			if err != nil || len(cur.Data) != 64 || cur.KeySize.InBits() != 256 {
				return "FAIL ecdsa-fixed-width: " + where
			}
			es := sd.(cbnt.SignatureECDSA)
			if !ecdsa.Verify(&k.PublicKey, hashOf(cur.HashAlg, msg), es.R, es.S) {
				return "FAIL resign-verify: " + where + ": stored ECDSA signature does not verify under the standard algorithm with the recorded hash"
			}
		case *sm2.PrivateKey:
			sd, err := cur.SignatureData()
			if err != nil || len(cur.Data) != 64 {
				return "FAIL ecdsa-fixed-width: " + where
			}
			ss := sd.(cbnt.SignatureSM2)
			if !sm2.Sm2Verify(&k.PublicKey, msg, sm2UID, ss.R, ss.S) {
				return "FAIL resign-verify: " + where + ": stored SM2 signature does not verify"
			}
		}
		// write and read back: the structure read from the wire holds the same signature (for ECDSA / SM2 the
		// wire size of Signature.Data is twice KeySize/8), and the sequence goes on with it
		if roundtrip {
			_, isRSA := priv.(*rsa.PrivateKey)
			var buf bytes.Buffer
			// what was read back verifies like what was written: RSA with the library, ECDSA / SM2 under the
			// standard algorithm with the hash the structure names
			stdVerify := func(g *cbnt.Signature) string {
				sd, err := g.SignatureData()
				if err != nil {
					return err.Error()
				}
				switch k := priv.(type) {
				case *rsa.PrivateKey:
					if err := sd.Verify(&k.PublicKey, g.HashAlg, msg); err != nil {
						return err.Error()
					}
				case *ecdsa.PrivateKey:
					es, ok := sd.(cbnt.SignatureECDSA)
					if !ok || !ecdsa.Verify(&k.PublicKey, hashOf(g.HashAlg, msg), es.R, es.S) {
						return "does not verify under the standard algorithm"
					}
				case *sm2.PrivateKey:
					ss, ok := sd.(cbnt.SignatureSM2)
					if !ok || !sm2.Sm2Verify(&k.PublicKey, msg, sm2UID, ss.R, ss.S) {
						return "does not verify under the standard algorithm"
					}
				}
				return ""
			}
			if container == "sig" {
				if _, err := sg.WriteTo(&buf); err != nil {
					return "FAIL resign-roundtrip: write: " + err.Error()
				}
				var back cbnt.Signature
				if _, err := back.ReadFrom(bytes.NewReader(buf.Bytes())); err != nil {
					return "FAIL resign-roundtrip: " + where + ": read: " + err.Error()
				}
				if e := stdVerify(&back); e != "" {
					return "FAIL resign-roundtrip: " + where + ": the signature read back " + e
				}
				sg = back
			} else {
				if _, err := ksOf().WriteTo(&buf); err != nil {
					return "FAIL resign-roundtrip: write: " + err.Error()
				}
				var back cbnt.KeySignature
				if _, err := back.ReadFrom(bytes.NewReader(buf.Bytes())); err != nil {
					return "FAIL resign-roundtrip: " + where + ": read: " + err.Error()
				}
				if isRSA {
					if err := back.Verify(msg); err != nil {
						return "FAIL resign-roundtrip: " + where + ": read back signature does not verify: " + err.Error()
					}
				} else if e := stdVerify(&back.Signature); e != "" {
					return "FAIL resign-roundtrip: " + where + ": the signature read back " + e
				}
				*ksOf() = back
			}
		}
	}
	return "ok"
}

func registerOracles() {
	Register("p_hash_table", pHashTable)
	Register("p_resign", pResign)
	Register("p_sign_verify", pSignVerify)
	Register("p_bg_sign_verify", pBgSignVerify)
	Register("p_key_roundtrip", pKeyRoundtrip)
	Register("p_bpmkey", pBpmKey)
	Register("p_ibb", pIbb)
	Register("p_psb", pPsb)
	Register("p_token", pToken)
	Register("p_amd_image", pAmdImage)
}
