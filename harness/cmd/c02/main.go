// c02: every image the tool writes is a structurally valid image of the same size.
// Operations run through the real command-line path (editops.RunEdit); the saved bytes are judged
// by the independent reader editops.ValidImage (also written in Coq: Model/Valid.v).
package main

import (
	"time"

	. "verifharness/common"
	"verifharness/editops"
	"verifharness/uefigen"
)

const modelMax = 5000

func emitCase(emit Emit, c editops.ECase, withModel bool) {
	emitTables(emit, c)
	args := append([]string{H(c.Img)}, editops.Tokens(c.Ops)...)
	emit("P", "p_c02", args...)
	if withModel && len(c.Img) <= modelMax {
		emit("C", "edit", args...)
		emit("C", "editvalid", args...)
		if c.Flat {
			// the hypothesis of C02_valid_after_edits_flat, evaluated by the model runner
			emit("C", "flat", args...)
		}
	}
}

func gen(r *Rng, tier string, emit Emit) {
	n, nmut, ngr := 500, 8, 150
	if tier == "thorough" {
		n, nmut, ngr = 6000, 60, 3000
	}
	for it := 0; it < n; it++ {
		rr := r.Fork(uint64(it))
		c := editops.GenCase(rr, rr.Pick(0, 0, 1), rr.Range(1, 3))
		emitCase(emit, c, true)
	}
	// big volumes with files aligned through attribute bit 0x02 (128 KiB ..): built in the worker
	nal := 40
	if tier == "thorough" {
		nal = 600
	}
	for it := 0; it < nal; it++ {
		emit("P", "p_c02_align", N(r.Fork(uint64(6000000+it)).U64()))
	}
	// a file with sections of 16 MiB and more that an edit shrinks below 16 MiB (or keeps large):
	// built in the worker
	nsh := 4
	if tier == "thorough" {
		nsh = 40
	}
	for it := 0; it < nsh; it++ {
		emit("P", "p_c02_shrink", N(r.Fork(uint64(6500000+it)).U64()))
	}
	// every size threshold of the format, hit exactly by a regenerated section / a rebuilt file
	// (built in the worker): N-1, N, N+1 around 0xFFFFFF for the section header form and for the
	// file header form
	nex := 1
	if tier == "thorough" {
		nex = 6
	}
	for it := 0; it < nex; it++ {
		for _, n := range []uint64{0xFFFFFE, 0xFFFFFF, 0x1000000, 0x1000003} {
			emit("P", "p_c02_exact", "sec", N(n), N(r.Fork(uint64(6600000+it)).U64()+n))
		}
		for _, n := range []uint64{0xFFFFFE, 0xFFFFFF, 0x1000000} {
			emit("P", "p_c02_exact", "file", N(n), N(r.Fork(uint64(6700000+it)).U64()+n))
		}
	}
	// images of the general grammar (all section kinds, arbitrary names): model correspondence
	for it := 0; it < ngr; it++ {
		rr := r.Fork(uint64(5000000 + it))
		c := editops.GenCaseGrammar(rr, rr.Range(1, 3))
		if len(c.Img) > modelMax {
			continue
		}
		args := append([]string{H(c.Img)}, editops.Tokens(c.Ops)...)
		emit("C", "edit", args...)
		emit("P", "p_c02", args...)
		if c.Flat {
			emit("C", "flat", args...)
		}
	}
	// the two renderings of the reader agree, also on images that break one rule
	for it := 0; it < nmut; it++ {
		rr := r.Fork(uint64(1000000 + it))
		// mutants of compressed payloads would compare two LZMA/zlib decoders, not the readers
		editops.Compressed = it%4 == 0
		reg := editops.GenRegionSpec(rr, rr.Pick(0, 1), true)
		mutate := !editops.RegionHasCompressed(reg)
		editops.Compressed = true
		img, fields := uefigen.EmitRegion(reg)
		if len(img) > modelMax {
			continue
		}
		emitTables(emit, editops.ECase{Img: img, Comp: editops.RegionHasCompressed(reg)})
		emit("C", "valid", H(img))
		for k := 0; mutate && k < 12 && len(fields) > 0; k++ {
			f := fields[rr.Intn(len(fields))]
			vs := uefigen.BoundaryValues(f)
			emit("C", "valid", H(uefigen.Mutate(img, f, vs[rr.Intn(len(vs))])))
		}
		for k := 0; mutate && k < 4; k++ {
			m := append([]byte{}, img...)
			m[rr.Intn(len(m))] ^= byte(1 << uint(rr.Intn(8)))
			emit("C", "valid", H(m))
		}
	}
	// every sequence of length <= 2 (quick: one image in three) / <= 3 (thorough) on tiny volumes
	maxLen, k := 2, 0
	if tier == "thorough" {
		maxLen = 3
	}
	sel := int(r.U64() % 3)
	editops.Exhaustive(maxLen, func(c editops.ECase) {
		k++
		if tier != "thorough" && k%3 != sel {
			return
		}
		emitCase(emit, c, tier == "thorough" || k%2 == 0)
	})
	// create-fv and repack (implementation side only: the model does not have them)
	nvo := 150
	if tier == "thorough" {
		nvo = 3000
	}
	for it := 0; it < nvo; it++ {
		rr := r.Fork(uint64(6800000 + it))
		c := editops.GenCaseVolOps(rr)
		if it%5 == 4 {
			// inside a flash image: create-fv takes the offset in the flash, the descriptor's regions
			// have to tile it afterwards as before
			c = editops.FlashCase(rr, c)
		}
		emit("P", "p_c02", append([]string{H(c.Img)}, editops.Tokens(c.Ops)...)...)
	}
	// create-fv against its model (Model/CreateFv.v): whole-block sizes
	ncf := 40
	if tier == "thorough" {
		ncf = 800
	}
	for it := 0; it < ncf; it++ {
		img, off, size, name := editops.CreateFvCase(r.Fork(uint64(6870000 + it)))
		if len(img) > 9000 {
			continue
		}
		emit("C", "createfv", H(img), N(off), N(size), H(name[:]))
		emit("P", "p_c02", H(img), editops.EOp{Kind: "cfv", Off: off, Size: size, Target: editops.GuidText(name)}.Token())
	}
	// repack of a volume without files
	for it := 0; it < 2; it++ {
		c := editops.RepackEmptyCase(r.Fork(uint64(6850000 + it)))
		emit("P", "p_c02", append([]string{H(c.Img)}, editops.Tokens(c.Ops)...)...)
	}
	// the ordinary edits on flash images (descriptor, BIOS region, ME / raw regions, gaps)
	nfl := 40
	if tier == "thorough" {
		nfl = 1000
	}
	for it := 0; it < nfl; it++ {
		rr := r.Fork(uint64(6900000 + it))
		c := editops.FlashCase(rr, editops.GenCase(rr, rr.Pick(0, 0, 1), rr.Range(1, 3)))
		emit("P", "p_c02", append([]string{H(c.Img)}, editops.Tokens(c.Ops)...)...)
	}
	// an edit that cannot fit => error at save and no output file: on bare BIOS regions (model
	// correspondence too) and, two cases in three, inside a flash image with descriptor
	nnf := 60
	if tier == "thorough" {
		nnf = 1500
	}
	for it := 0; it < nnf; it++ {
		rr := r.Fork(uint64(6950000 + it))
		c, ok := editops.GenCaseNoFit(rr)
		if !ok {
			continue
		}
		if it%3 != 0 {
			c = editops.FlashCase(rr, c)
			emit("P", "p_c02_nofit", append([]string{H(c.Img)}, editops.Tokens(c.Ops)...)...)
			emit("P", "p_c02", append([]string{H(c.Img)}, editops.Tokens(c.Ops)...)...)
			continue
		}
		emitTables(emit, c)
		args := append([]string{H(c.Img)}, editops.Tokens(c.Ops)...)
		emit("P", "p_c02_nofit", args...)
		if len(c.Img) <= modelMax {
			emit("C", "edit", args...)
		}
	}
	// a file that reaches 16 MiB in an FFSv2 volume next to a carrier of a nested volume: the
	// volume has to become FFSv3 whatever the order of the two (built in the worker)
	nf3 := 4
	if tier == "thorough" {
		nf3 = 40
	}
	for it := 0; it < nf3; it++ {
		emit("P", "p_c02_ffs3", N(r.Fork(uint64(6960000+it)).U64()))
	}
}

func emitTables(emit Emit, c editops.ECase) {
	if !c.Comp {
		return
	}
	for _, t := range editops.CodecTables(c.Img, c.Ops) {
		emit("T", "codec", t.Dir, t.Kind, t.In, t.Out)
	}
}

func main() {
	CaseTimeout = 20 * time.Second
	editops.Enc = editops.FianoEnc
	// files with sections in the FFSv3 large form although small: rebuilt in the small form by every save
	editops.LargeSectioned = true
	editops.RegisterAll()
	Main(gen)
}
