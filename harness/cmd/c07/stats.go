// stats.go — input-diversity report of the C07 generator (audit aid, not part of any verdict).
// With C07_STATS=1 in the environment "c07 gen" prints, on stderr, how many generated cases reach each
// feature of the property's quantifier: region kinds, NVAR stores, nested / compressed volumes, section
// kinds and their JSON envelopes, duplicate GUIDs, and for every p_edit case where the edited node
// lives (top-level volume, nested volume, inside a compressed section) and whether the edit changes the
// size of the section.
package main

import (
	"bytes"
	"fmt"
	"os"
	"sort"
	"strings"
	"time"

	"github.com/linuxboot/fiano/pkg/uefi"
	. "verifharness/common"
)

type hist map[string]int

func (h hist) dump() {
	var ks []string
	for k := range h {
		ks = append(ks, k)
	}
	sort.Strings(ks)
	for _, k := range ks {
		fmt.Fprintf(os.Stderr, "STAT %-48s %d\n", k, h[k])
	}
}

type editTarget struct {
	where string // top | nested | compressed (+nested)
	file  *uefi.File
	sec   *uefi.Section
}

// features counts what one image contains (once per image and feature) and lists the edit candidates
// in document order.
func features(img []byte, h hist, tag string) map[string][]editTarget {
	reset()
	root, err := uefi.Parse(append([]byte{}, img...))
	if err != nil {
		h[tag+" unparsable"]++
		return nil
	}
	seen := map[string]bool{}
	hit := func(k string) {
		if !seen[k] {
			seen[k] = true
			h[tag+" "+k]++
		}
	}
	cands := map[string][]editTarget{}
	guids := map[string]int{}
	var walk func(f uefi.Firmware, where string, depth int)
	walk = func(f uefi.Firmware, where string, depth int) {
		switch n := f.(type) {
		case *uefi.FlashImage:
			hit("flash")
			if n.IFD.DescriptorMapStart != 20 {
				hit("flash.sig-at-0")
			}
			if n.IFD.DescriptorMap.NumberOfRegions != 0 {
				hit("flash.nregions!=0")
			}
			for _, r := range n.Regions {
				if rr, ok := r.Value.(uefi.Region); ok {
					hit("region." + rr.Type().String())
				}
				walk(r.Value, where, depth)
			}
		case *uefi.MERegion:
			if n.FPT != nil {
				hit(fmt.Sprintf("me.fpt entries=%d", min(len(n.FPT.Entries), 3)))
			} else {
				hit("me.nofpt")
			}
		case *uefi.BIOSRegion:
			nv := 0
			for _, e := range n.Elements {
				if _, ok := e.Value.(*uefi.FirmwareVolume); ok {
					nv++
				}
				walk(e.Value, where, depth)
			}
			hit(fmt.Sprintf("volumes=%d", min(nv, 3)))
		case *uefi.BIOSPadding:
			hit("biospad")
		case *uefi.FirmwareVolume:
			if depth > 0 {
				hit(fmt.Sprintf("nestedvol depth=%d %s", depth, where))
				if n.FreeSpace == 0 {
					hit("nestedvol.nofree")
				}
			}
			if len(n.Files) == 0 {
				hit("vol.nofiles")
			}
			if n.ExtHeaderOffset != 0 {
				hit("vol.exthdr")
			}
			if len(n.Blocks) > 2 {
				hit("vol.multiblock")
			}
			if n.Attributes&0x800 == 0 {
				hit("vol.polarity0")
			}
			for _, x := range n.Files {
				walk2file(x, where, depth, hit, cands, guids, &walk)
			}
		}
	}
	walk(root, "top", 0)
	for _, c := range guids {
		if c > 1 {
			hit("dupguid")
		}
		if c > 2 {
			hit("dupguid>2")
		}
	}
	return cands
}

func walk2file(x *uefi.File, where string, depth int, hit func(string), cands map[string][]editTarget,
	guids map[string]int, walk *func(uefi.Firmware, string, int)) {
	if x.Header.Type != uefi.FVFileTypePad {
		guids[x.Header.GUID.String()]++
	}
	if x.NVarStore != nil {
		hit("nvarstore")
		for _, e := range x.NVarStore.Entries {
			hit(fmt.Sprintf("nvar.type=%d valid=%v", e.Type, e.IsValid()))
			if e.NVarStore != nil {
				hit("nvar.nested")
			}
		}
	}
	if len(x.Sections) > 0 {
		hit("file.sectioned " + where)
		cands["guid"] = append(cands["guid"], editTarget{where, x, nil})
		if x.Header.Attributes.HasChecksum() {
			hit("file.sectioned.cksum")
		}
		if x.Header.Attributes.GetAlignment() != 1 {
			hit("file.sectioned.aligned")
		}
	} else if x.NVarStore == nil {
		hit("file.opaque")
	}
	hit(fmt.Sprintf("file.state=%#x", uint8(x.Header.State)))
	var sec func(s *uefi.Section, where string)
	sec = func(s *uefi.Section, where string) {
		hit(fmt.Sprintf("sec.type=%#x %s", uint8(s.Header.Type), where))
		switch s.Header.Type {
		case uefi.SectionTypeUserInterface:
			cands["ui"] = append(cands["ui"], editTarget{where, x, s})
		case uefi.SectionTypeVersion:
			cands["version"] = append(cands["version"], editTarget{where, x, s})
			if s.BuildNumber != 0 {
				hit("version.build!=0")
			}
		case uefi.SectionTypeDXEDepEx, uefi.SectionTypePEIDepEx, uefi.SectionMMDepEx:
			cands["depex"] = append(cands["depex"], editTarget{where, x, s})
			if s.DepEx == nil {
				hit("depex.unparsed")
			}
			for _, op := range s.DepEx {
				hit("depex.op=" + string(op.OpCode))
			}
		case uefi.SectionTypeGUIDDefined:
			if gd, ok := s.TypeSpecific.Header.(*uefi.SectionGUIDDefined); ok {
				hit(fmt.Sprintf("gd.attrs=%#x comp=%s encaps=%v", gd.Attributes, gd.Compression, len(s.Encapsulated) > 0))
				if gd.DataOffset != 24 {
					hit("gd.dataoff!=24")
				}
			}
		}
		w2 := where
		if s.Header.Type == uefi.SectionTypeGUIDDefined && len(s.Encapsulated) > 0 {
			if !strings.Contains(w2, "compressed") {
				w2 = "compressed"
			}
		}
		for _, e := range s.Encapsulated {
			switch y := e.Value.(type) {
			case *uefi.Section:
				sec(y, w2)
			case *uefi.FirmwareVolume:
				w3 := w2
				if w3 == "top" {
					w3 = "nested"
				}
				(*walk)(y, w3, depth+1)
			}
		}
	}
	for _, s := range x.Sections {
		sec(s, where)
	}
}

// statsEmit wraps emit: every case is passed on unchanged and counted.
func statsEmit(emit Emit, h hist) Emit {
	seenImg := map[string]bool{}
	return func(kind, fn string, args ...string) {
		t0 := time.Now()
		emit(kind, fn, args...)
		if kind == "T" {
			return
		}
		h["ms "+kind+":"+fn] += int(time.Since(t0).Milliseconds())
		h["case "+kind+":"+fn]++
		switch fn {
		case "p_roundtrip", "xpaths", "dirsave", "saveproj", "p_paths", "nvdir":
			if !seenImg[fn+args[0]] {
				seenImg[fn+args[0]] = true
				features(UnH(args[0]), h, fn)
			}
		case "p_edit", "diredit":
			reset()
			root, err := uefi.Parse(UnH(args[0]))
			if err != nil {
				return
			}
			if _, ok := root.(*uefi.FlashImage); ok {
				h["edit "+args[1]+" on flash image"]++
			}
			l := treeCands(root, args[1])
			if len(l) == 0 {
				h["edit "+args[1]+" no-candidate"]++
				return
			}
			t := l[int(UnN(args[2]))%len(l)]
			h["edit "+args[1]+" in "+t.where]++
			h["ms "+fn+" in "+t.where] += int(time.Since(t0).Milliseconds())
			h["n  "+fn+" in "+t.where]++
			if bytes.Contains(UnH(args[0]), []byte{0x98, 0x58, 0x4e, 0xee}) || bytes.Contains(UnH(args[0]), []byte{0xbd, 0xe6, 0x2a, 0xd4}) {
				h["ms "+fn+" image-with-lzma"] += int(time.Since(t0).Milliseconds())
				h["n  "+fn+" image-with-lzma"]++
			}
			if t.sec != nil {
				old := len(t.sec.Buf())
				var nw int
				val := UnH(args[3])
				if t.where != "top" && (len(val) > 60) {
					h["edit "+args[1]+" long value in "+t.where]++
				}
				switch args[1] {
				case "ui":
					nw = 4 + 2*len([]rune(string(val))) + 2
				case "version":
					nw = 4 + 2 + 2*len([]rune(string(val))) + 2
				case "depex":
					nw = 4 + len(val)
				}
				switch {
				case nw > old:
					h["edit "+args[1]+" grows"]++
				case nw < old:
					h["edit "+args[1]+" shrinks"]++
				default:
					h["edit "+args[1]+" same-size"]++
				}
			}
			if t.file != nil && t.file.Header.Attributes.HasChecksum() {
				h["edit "+args[1]+" file-has-body-checksum"]++
			}
		}
	}
}
