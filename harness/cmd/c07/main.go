// c07: extracting an image to a directory and reassembling from it reproduces the image;
// single-field edits of summary.json change exactly that field.
//
// All oracles run the REAL tool entry point: utk.Run(image, "extract", dir) and
// utk.Run(dir, "save", out) in a fresh temporary directory outside /repo and /verif
// (removed afterwards).  utk.Run depends on package-level state (the erase polarity, the
// flags -force/-remove of the extract visitor, the shared file index of the registered
// extract visitor, -xzPath): every call goes through run(), which resets all of it.
//
// C ops (also evaluated by the extracted model):
//
//	xpaths  img   the relative paths of the files written by extract, sorted, with the number of
//	              files on disk (n) and the number of nodes that recorded an ExtractPath (w)
//	dirsave img   bytes of extract + save-from-directory (two Assemble passes, as utk does)
//	saveproj img  bytes of extract + ParseDir + ONE Assemble pass (model: assemble of json_project)
//
// P ops (implementation only):
//
//	p_roundtrip img id|x      dir round trip == direct save (== img when "id": canonical, nothing
//	                          compressed)
//	p_paths img               every recorded ExtractPath is distinct and is a file on disk, and vice
//	                          versa (covers FlashImage / FlashDescriptor / ME / raw regions)
//	p_edit img kind k value   edit the k-th candidate field of summary.json (kind guid|ui|version|
//	                          depex), save, reparse: exactly that field differs from the unedited
//	                          round trip, and the image validates
package main

import (
	"bytes"
	"encoding/json"
	"flag"
	"fmt"
	"os"
	"path/filepath"
	"sort"
	"strings"

	"github.com/linuxboot/fiano/pkg/compression"
	"github.com/linuxboot/fiano/pkg/guid"
	"github.com/linuxboot/fiano/pkg/uefi"
	"github.com/linuxboot/fiano/pkg/utk"
	"github.com/linuxboot/fiano/pkg/visitors"
	. "verifharness/common"
	"verifharness/nvargen"
	"verifharness/uefigen"
	"verifharness/uefiops"
)

const noXZ = "/nonexistent/verif-no-xz"

// reset puts every piece of package-level state utk.Run reads into its initial value.
func reset() {
	uefiops.Reset()
	_ = flag.Set("force", "false")
	_ = flag.Set("remove", "false")
	_ = flag.Set("xzPath", noXZ) // the pure-Go LZMA encoder: deterministic, no subprocess
}

func run(args ...string) error {
	reset()
	return utk.Run(args...)
}

type work struct {
	tmp, img, dir string
}

func newWork(img []byte) (*work, error) {
	tmp, err := os.MkdirTemp("", "verif-c07-")
	if err != nil {
		return nil, err
	}
	for _, bad := range []string{"/repo", "/verif"} {
		if strings.HasPrefix(tmp, bad+"/") || tmp == bad {
			os.RemoveAll(tmp)
			return nil, fmt.Errorf("temporary directory %s lies inside %s", tmp, bad)
		}
	}
	w := &work{tmp: tmp, img: filepath.Join(tmp, "image.rom"), dir: filepath.Join(tmp, "x")}
	if err := os.WriteFile(w.img, img, 0o644); err != nil {
		os.RemoveAll(tmp)
		return nil, err
	}
	return w, nil
}

func (w *work) close() { os.RemoveAll(w.tmp) }

func parses(img []byte) bool {
	reset()
	_, err := uefi.Parse(append([]byte{}, img...))
	return err == nil
}

// listFiles returns the relative slash-separated paths of the regular files under dir.
func listFiles(dir string) []string {
	var ps []string
	_ = filepath.Walk(dir, func(p string, fi os.FileInfo, err error) error {
		if err == nil && !fi.IsDir() {
			rel, _ := filepath.Rel(dir, p)
			ps = append(ps, filepath.ToSlash(rel))
		}
		return nil
	})
	sort.Strings(ps)
	return ps
}

func countPaths(f uefi.Firmware) int { return len(allPaths(f)) }

// allPaths lists the non-empty ExtractPath fields of a tree (flash-level nodes included).
func allPaths(f uefi.Firmware) []string {
	var out []string
	add := func(p string) {
		if p != "" {
			out = append(out, p)
		}
	}
	switch x := f.(type) {
	case *uefi.FlashImage:
		add(x.ExtractPath)
		out = append(out, allPaths(&x.IFD)...)
		for _, r := range x.Regions {
			out = append(out, allPaths(r.Value)...)
		}
	case *uefi.FlashDescriptor:
		add(x.ExtractPath)
	case *uefi.MERegion:
		add(x.ExtractPath)
	case *uefi.RawRegion:
		add(x.ExtractPath)
	case *uefi.BIOSRegion:
		add(x.ExtractPath)
		for _, e := range x.Elements {
			out = append(out, allPaths(e.Value)...)
		}
	case *uefi.BIOSPadding:
		add(x.ExtractPath)
	case *uefi.FirmwareVolume:
		add(x.ExtractPath)
		for _, y := range x.Files {
			out = append(out, allPaths(y)...)
		}
	case *uefi.File:
		add(x.ExtractPath)
		for _, y := range x.Sections {
			out = append(out, allPaths(y)...)
		}
		if x.NVarStore != nil {
			out = append(out, allPaths(x.NVarStore)...)
		}
	case *uefi.NVarStore:
		for _, y := range x.Entries {
			out = append(out, allPaths(y)...)
		}
	case *uefi.NVar:
		add(x.ExtractPath)
		if x.NVarStore != nil {
			out = append(out, allPaths(x.NVarStore)...)
		}
	case *uefi.Section:
		add(x.ExtractPath)
		for _, y := range x.Encapsulated {
			out = append(out, allPaths(y.Value)...)
		}
	}
	return out
}

// p_paths img: every node that recorded an ExtractPath has a file of its own: the recorded paths are
// pairwise distinct and are exactly the files on disk (implementation only; covers the flash-level
// regions, which the model does not describe).
func pPaths(args []string) string {
	img := UnH(args[0])
	if !parses(img) {
		return "skip"
	}
	w, err := newWork(img)
	if err != nil {
		return "harness-error " + err.Error()
	}
	defer w.close()
	if err := run(w.img, "extract", w.dir); err != nil {
		return "FAIL extract-error " + oneLine(err.Error())
	}
	reset()
	root, err := (&visitors.ParseDir{BasePath: w.dir}).Parse()
	if err != nil {
		return "FAIL load-error " + oneLine(err.Error())
	}
	seen := map[string]bool{}
	for _, p := range allPaths(root) {
		p = filepath.ToSlash(filepath.Clean(p))
		if seen[p] {
			return "FAIL two-nodes-share-extract-path " + p
		}
		seen[p] = true
	}
	for _, p := range listFiles(w.dir) {
		if p == "summary.json" {
			continue
		}
		if !seen[p] {
			return "FAIL file-without-node " + p
		}
		delete(seen, p)
	}
	for p := range seen {
		return "FAIL node-without-file " + p
	}
	return "ok"
}

func opXPaths(args []string) string {
	img := UnH(args[0])
	if !parses(img) {
		return "err"
	}
	w, err := newWork(img)
	if err != nil {
		return "harness-error " + err.Error()
	}
	defer w.close()
	if err := run(w.img, "extract", w.dir); err != nil {
		return "err-extract"
	}
	var ps []string
	for _, p := range listFiles(w.dir) {
		if p != "summary.json" {
			ps = append(ps, p)
		}
	}
	reset()
	root, err := (&visitors.ParseDir{BasePath: w.dir}).Parse()
	if err != nil {
		return "err-load"
	}
	return fmt.Sprintf("ok n=%x w=%x %s", len(ps), countPaths(root), strings.Join(ps, " "))
}

func opDirSave(args []string) string {
	img := UnH(args[0])
	if !parses(img) {
		return "err"
	}
	w, err := newWork(img)
	if err != nil {
		return "harness-error " + err.Error()
	}
	defer w.close()
	if err := run(w.img, "extract", w.dir); err != nil {
		return "err-extract"
	}
	out := filepath.Join(w.tmp, "out.rom")
	if err := run(w.dir, "save", out); err != nil {
		return "err-asm"
	}
	b, err := os.ReadFile(out)
	if err != nil {
		return "harness-error " + err.Error()
	}
	return "ok " + H(b)
}

func opSaveProj(args []string) string {
	img := UnH(args[0])
	if !parses(img) {
		return "err"
	}
	w, err := newWork(img)
	if err != nil {
		return "harness-error " + err.Error()
	}
	defer w.close()
	if err := run(w.img, "extract", w.dir); err != nil {
		return "err-extract"
	}
	reset()
	root, err := (&visitors.ParseDir{BasePath: w.dir}).Parse()
	if err != nil {
		return "err-load"
	}
	if err := (&visitors.Assemble{}).Run(root); err != nil {
		return "err-asm"
	}
	return "ok " + H(root.Buf())
}

// guidstr <16 bytes> -> the text GUID.String() gives; guidparse <text> -> the 16 bytes guid.Parse gives
func opGUIDStr(args []string) string {
	var g guid.GUID
	copy(g[:], UnH(args[0]))
	return "ok " + H([]byte(g.String()))
}

func opGUIDParse(args []string) string {
	g, err := guid.Parse(string(UnH(args[0])))
	if err != nil {
		return "err"
	}
	return "ok " + H(g[:])
}

func fnv32(b []byte) uint32 {
	h := uint32(2166136261)
	for _, x := range b {
		h ^= uint32(x)
		h *= 16777619
	}
	return h
}

// findNvarFile returns the first file of the tree that carries an NVAR store.
func findNvarFile(f uefi.Firmware) *uefi.File {
	switch n := f.(type) {
	case *uefi.BIOSRegion:
		for _, e := range n.Elements {
			if x := findNvarFile(e.Value); x != nil {
				return x
			}
		}
	case *uefi.FirmwareVolume:
		for _, y := range n.Files {
			if y.NVarStore != nil {
				return y
			}
		}
	}
	return nil
}

// nvdir img store: img holds exactly one NVAR store file whose body is store.  Observation: the files
// extract writes below that file's directory (relative path, length, hash of the content; sorted) and
// the bytes of the store after extract + save-from-directory (model: Model/ExtractNvar.v on the store).
func opNvDir(args []string) string {
	img := UnH(args[0])
	if !parses(img) {
		return "err"
	}
	w, err := newWork(img)
	if err != nil {
		return "harness-error " + err.Error()
	}
	defer w.close()
	if err := run(w.img, "extract", w.dir); err != nil {
		return "err-extract"
	}
	marker := "/" + uefi.NVAR.String() + "/"
	var items []string
	for _, p := range listFiles(w.dir) {
		i := strings.Index(p, marker)
		if i < 0 {
			continue
		}
		rel := p[i+len(marker):]
		j := strings.Index(rel, "/") // the running index directory
		if j < 0 {
			continue
		}
		rel = rel[j+1:]
		b, err := os.ReadFile(filepath.Join(w.dir, p))
		if err != nil {
			return "harness-error " + err.Error()
		}
		items = append(items, fmt.Sprintf("%s:%x:%x", rel, len(b), fnv32(b)))
	}
	sort.Strings(items)
	out := filepath.Join(w.tmp, "out.rom")
	if err := run(w.dir, "save", out); err != nil {
		return "err-asm"
	}
	t, err := treeOf(out)
	if err != nil {
		return "err-reparse"
	}
	nf := findNvarFile(t)
	if nf == nil || int(nf.DataOffset) > len(nf.Buf()) {
		return "err-nostore"
	}
	return fmt.Sprintf("ok %x %s | %s", len(items), strings.Join(items, " "), H(nf.Buf()[nf.DataOffset:]))
}

func firstDiff(a, b []byte) string {
	i := 0
	for i < len(a) && i < len(b) && a[i] == b[i] {
		i++
	}
	return fmt.Sprintf("differs-at %x len %x vs %x", i, len(a), len(b))
}

func pRoundTrip(args []string) string {
	img := UnH(args[0])
	if !parses(img) {
		return "skip"
	}
	w, err := newWork(img)
	if err != nil {
		return "harness-error " + err.Error()
	}
	defer w.close()
	direct := filepath.Join(w.tmp, "direct.rom")
	errDirect := run(w.img, "save", direct)
	if err := run(w.img, "extract", w.dir); err != nil {
		return "FAIL extract-error " + oneLine(err.Error())
	}
	if _, err := os.Stat(filepath.Join(w.dir, "summary.json")); err != nil {
		return "FAIL no-summary-json"
	}
	out := filepath.Join(w.tmp, "out.rom")
	errDir := run(w.dir, "save", out)
	if errDirect != nil {
		// the direct save fails: nothing to reproduce; the directory route must not invent an image
		if errDir == nil {
			return "FAIL dir-save-succeeds-direct-save-fails " + oneLine(errDirect.Error())
		}
		return "skip"
	}
	if errDir != nil {
		if strings.Contains(errDir.Error(), "to MEName") {
			// flash images whose ME partition table has a name that is not valid UTF-8
			return "FAIL me-name-not-utf8 dir-save-error " + oneLine(errDir.Error())
		}
		return "FAIL dir-save-error " + oneLine(errDir.Error())
	}
	a, _ := os.ReadFile(out)
	b, _ := os.ReadFile(direct)
	if !bytes.Equal(a, b) {
		return "FAIL dir-vs-direct " + firstDiff(a, b)
	}
	if args[1] == "id" && !bytes.Equal(a, img) {
		return "FAIL dir-vs-input " + firstDiff(a, img)
	}
	// a second extraction of the result gives the same directory listing (paths are a function of the image)
	return "ok"
}

func oneLine(s string) string {
	s = strings.Map(func(r rune) rune {
		if r == '\t' || r == '\n' {
			return ' '
		}
		return r
	}, s)
	if len(s) > 160 {
		s = s[:160]
	}
	return s
}

// ---------- deep observation of a parsed tree, one record per content field ----------

func isPadFile(f *uefi.File) bool {
	return f.Header.Type == uefi.FVFileTypePad
}

type rec struct{ key, val string }

// deep lists the content of the tree: node kinds, identifying header fields, regenerated fields and the
// bodies of leaves.  Sizes, checksums, offsets, free space and the buffers of rebuilt nodes are left
// out on purpose (the property lets them be recomputed), and so are pad files, which the assembler
// inserts and removes as alignment requires.
func deep(f uefi.Firmware, at string, out *[]rec) {
	add := func(k, v string) { *out = append(*out, rec{at + "." + k, v}) }
	switch n := f.(type) {
	case *uefi.BIOSRegion:
		add("kind", "region")
		add("len", N(n.Length))
		for i, e := range n.Elements {
			deep(e.Value, fmt.Sprintf("%s/e%d", at, i), out)
		}
	case *uefi.BIOSPadding:
		add("kind", "pad")
		add("body", H(n.Buf()))
	case *uefi.FirmwareVolume:
		add("kind", "vol")
		add("fsguid", n.FileSystemGUID.String())
		add("attrs", N(uint64(n.Attributes)))
		add("hdrlen", N(uint64(n.HeaderLen)))
		add("rev", N(uint64(n.Revision)))
		add("dataoff", N(n.DataOffset))
		if int(n.DataOffset) <= len(n.Buf()) && n.DataOffset >= 64 {
			// header bytes apart from length, checksum and block count
			h := append([]byte{}, n.Buf()[:n.DataOffset]...)
			for _, r := range [][2]int{{32, 40}, {50, 52}, {56, 60}} {
				for i := r[0]; i < r[1] && i < len(h); i++ {
					h[i] = 0
				}
			}
			add("hdr", H(h))
		}
		if len(n.Files) == 0 {
			add("body", H(n.Buf()))
		}
		k := 0
		for _, x := range n.Files {
			if isPadFile(x) {
				continue
			}
			deep(x, fmt.Sprintf("%s/f%d", at, k), out)
			k++
		}
	case *uefi.File:
		add("kind", "file")
		add("guid", n.Header.GUID.String())
		add("type", N(uint64(n.Header.Type)))
		add("attr", N(uint64(n.Header.Attributes&^1)))
		add("state", N(uint64(n.Header.State)))
		if len(n.Sections) == 0 {
			add("raw", H(n.Buf()))
		}
		for i, s := range n.Sections {
			deep(s, fmt.Sprintf("%s/s%d", at, i), out)
		}
	case *uefi.Section:
		add("kind", "sec")
		add("type", N(uint64(n.Header.Type)))
		if n.TypeSpecific != nil {
			if gd, ok := n.TypeSpecific.Header.(*uefi.SectionGUIDDefined); ok {
				add("gdguid", gd.GUID.String())
				add("gdattrs", N(uint64(gd.Attributes)))
			}
		}
		switch n.Header.Type {
		case uefi.SectionTypeUserInterface:
			add("name", H([]byte(n.Name)))
		case uefi.SectionTypeVersion:
			add("build", N(uint64(n.BuildNumber)))
			add("version", H([]byte(n.Version)))
		case uefi.SectionTypeDXEDepEx, uefi.SectionTypePEIDepEx, uefi.SectionMMDepEx:
			add("depex", depexString(n.DepEx))
		default:
			if len(n.Encapsulated) == 0 {
				add("body", H(n.Buf()))
			}
		}
		for i, e := range n.Encapsulated {
			deep(e.Value, fmt.Sprintf("%s/x%d", at, i), out)
		}
	default:
		add("kind", fmt.Sprintf("%T", f))
	}
}

func depexString(d []uefi.DepExOp) string {
	var sb strings.Builder
	for _, op := range d {
		sb.WriteString(string(op.OpCode))
		if op.GUID != nil {
			sb.WriteString("(" + op.GUID.String() + ")")
		}
		sb.WriteString(";")
	}
	if sb.Len() == 0 {
		return "-"
	}
	return sb.String()
}

// invalid lists what is wrong with the sizes and checksums of a parsed tree, by the rules of the PI
// specification (independent of visitors.Validate).
func invalid(f uefi.Firmware, at string) []string {
	var out []string
	add := func(m string) { out = append(out, at+": "+m) }
	switch n := f.(type) {
	case *uefi.BIOSRegion:
		if uint64(len(n.Buf())) != n.Length {
			add("region length")
		}
		for i, e := range n.Elements {
			out = append(out, invalid(e.Value, fmt.Sprintf("%s/e%d", at, i))...)
		}
	case *uefi.FirmwareVolume:
		b := n.Buf()
		if uint64(len(b)) != n.Length {
			add("volume length field")
		}
		if int(n.HeaderLen) <= len(b) && n.HeaderLen%2 == 0 {
			var sum uint16
			for i := 0; i+1 < int(n.HeaderLen); i += 2 {
				sum += uint16(b[i]) | uint16(b[i+1])<<8
			}
			if sum != 0 {
				add("volume header checksum")
			}
		} else {
			add("volume header length")
		}
		k := 0
		for _, x := range n.Files {
			if isPadFile(x) {
				continue
			}
			out = append(out, invalid(x, fmt.Sprintf("%s/f%d", at, k))...)
			k++
		}
	case *uefi.File:
		b := n.Buf()
		hl := 24
		if n.Header.Attributes.IsLarge() {
			hl = 32
		}
		if uint64(len(b)) != n.Header.ExtendedSize || len(b) < hl {
			add("file size field")
			break
		}
		var hs, bs byte
		for _, c := range b[:hl] {
			hs += c
		}
		hs -= b[17] + b[23]
		if hs != 0 {
			add("file header checksum")
		}
		for _, c := range b[hl:] {
			bs += c
		}
		if n.Header.Attributes.HasChecksum() {
			if bs+b[17] != 0 {
				add("file body checksum")
			}
		} else if b[17] != 0xAA {
			add("file body checksum constant")
		}
		for i, x := range n.Sections {
			out = append(out, invalid(x, fmt.Sprintf("%s/s%d", at, i))...)
		}
	case *uefi.Section:
		if uint64(len(n.Buf())) != uint64(n.Header.ExtendedSize) {
			add("section size field")
		}
		for i, e := range n.Encapsulated {
			out = append(out, invalid(e.Value, fmt.Sprintf("%s/x%d", at, i))...)
		}
	}
	return out
}

// ---------- editing summary.json as generic JSON ----------

type jsonObj = map[string]interface{}

func loadJSON(p string) (interface{}, error) {
	data, err := os.ReadFile(p)
	if err != nil {
		return nil, err
	}
	d := json.NewDecoder(bytes.NewReader(data))
	d.UseNumber()
	var v interface{}
	if err := d.Decode(&v); err != nil {
		return nil, err
	}
	return v, nil
}

func secType(o jsonObj) (int64, bool) {
	h, ok := o["Header"].(jsonObj)
	if !ok {
		return 0, false
	}
	t, ok := h["Type"].(json.Number)
	if !ok {
		return 0, false
	}
	v, err := t.Int64()
	return v, err == nil
}

// candidates walks the JSON document in document order and returns the objects an edit of the given
// kind can apply to, with the record key the reparsed tree uses for the edited field.
func candidates(v interface{}, kind string) []jsonObj {
	var out []jsonObj
	var walk func(v interface{})
	walk = func(v interface{}) {
		switch x := v.(type) {
		case []interface{}:
			for _, y := range x {
				walk(y)
			}
		case jsonObj:
			hdr, _ := x["Header"].(jsonObj)
			_, isFile := hdr["GUID"]
			if kind == "guid" && isFile {
				if secs, ok := x["Sections"].([]interface{}); ok && len(secs) > 0 {
					out = append(out, x)
				}
			}
			if t, ok := secType(x); ok && !isFile {
				switch {
				case kind == "ui" && t == 0x15, kind == "version" && t == 0x14,
					kind == "depex" && (t == 0x13 || t == 0x1b || t == 0x1c):
					out = append(out, x)
				}
			}
			// document order: Go marshals struct fields in declaration order, but the generic map has
			// lost it; children live under these keys only
			for _, k := range []string{"FirmwareElement", "Elements", "Value", "Files", "Sections", "Encapsulated"} {
				if c, ok := x[k]; ok {
					walk(c)
				}
			}
		}
	}
	walk(v)
	return out
}

func guidJSON(g []byte) jsonObj {
	var gg guid.GUID
	copy(gg[:], g)
	return jsonObj{"GUID": gg.String()}
}

func depexJSON(b []byte) ([]interface{}, string, bool) {
	var ops []interface{}
	var want []uefi.DepExOp
	i := 0
	for i < len(b) {
		name, ok := uefi.DepExOpCodes[b[i]]
		if !ok {
			return nil, "", false
		}
		o := jsonObj{"OpCode": string(name)}
		op := uefi.DepExOp{OpCode: name}
		i++
		if b[i-1] <= 2 {
			if i+16 > len(b) {
				return nil, "", false
			}
			o["GUID"] = guidJSON(b[i : i+16])
			var gg guid.GUID
			copy(gg[:], b[i:i+16])
			op.GUID = &gg
			i += 16
		}
		ops = append(ops, o)
		want = append(want, op)
	}
	return ops, depexString(want), true
}

// treeOf parses the image file at p.
func treeOf(p string) (uefi.Firmware, error) {
	b, err := os.ReadFile(p)
	if err != nil {
		return nil, err
	}
	reset()
	return uefi.Parse(b)
}

func pEdit(args []string) string {
	img := UnH(args[0])
	kind := args[1]
	k := int(UnN(args[2]))
	val := UnH(args[3])
	if !parses(img) {
		return "skip"
	}
	w, err := newWork(img)
	if err != nil {
		return "harness-error " + err.Error()
	}
	defer w.close()
	if err := run(w.img, "extract", w.dir); err != nil {
		return "skip"
	}
	base := filepath.Join(w.tmp, "base.rom")
	if err := run(w.dir, "save", base); err != nil {
		return "skip" // the unedited round trip is p_roundtrip's business
	}
	sj := filepath.Join(w.dir, "summary.json")
	doc, err := loadJSON(sj)
	if err != nil {
		return "FAIL summary-json-unreadable " + oneLine(err.Error())
	}
	cands := candidates(doc, kind)
	if len(cands) == 0 {
		return "skip"
	}
	target := cands[k%len(cands)]
	var field, want string
	switch kind {
	case "guid":
		if len(val) != 16 {
			return "harness-error guid-length"
		}
		target["Header"].(jsonObj)["GUID"] = guidJSON(val)
		field, want = "guid", guidJSON(val)["GUID"].(string)
	case "ui":
		target["Name"] = string(val)
		field, want = "name", H(val)
	case "version":
		target["Version"] = string(val)
		field, want = "version", H(val)
	case "depex":
		ops, s, ok := depexJSON(val)
		if !ok {
			return "harness-error depex-value"
		}
		target["DepEx"] = ops
		field, want = "depex", s
	default:
		return "harness-error kind"
	}
	nb, err := json.MarshalIndent(doc, "", "    ")
	if err != nil {
		return "harness-error " + err.Error()
	}
	if err := os.WriteFile(sj, nb, 0o644); err != nil {
		return "harness-error " + err.Error()
	}
	out := filepath.Join(w.tmp, "edited.rom")
	if err := run(w.dir, "save", out); err != nil {
		if strings.Contains(err.Error(), "out of space") {
			return "skip" // the edit does not fit the (non-resizable) volume
		}
		return "FAIL save-after-edit " + oneLine(err.Error())
	}
	t0, err := treeOf(base)
	if err != nil {
		return "skip"
	}
	t1, err := treeOf(out)
	if err != nil {
		return "FAIL edited-image-does-not-parse " + oneLine(err.Error())
	}
	var r0, r1 []rec
	deep(t0, "", &r0)
	deep(t1, "", &r1)
	if len(r0) != len(r1) {
		return fmt.Sprintf("FAIL tree-shape-changed %d vs %d records (edit %s)", len(r0), len(r1), kind)
	}
	changed := 0
	for i := range r0 {
		if r0[i].key != r1[i].key {
			return "FAIL tree-shape-changed at " + r0[i].key + " / " + r1[i].key
		}
		if r0[i].val != r1[i].val {
			if !strings.HasSuffix(r0[i].key, "."+field) {
				return "FAIL other-field-changed " + r0[i].key + " (edit " + kind + ")"
			}
			if r1[i].val != want {
				return "FAIL edited-field-has-wrong-value " + r1[i].key + " got " + oneLine(r1[i].val) + " want " + oneLine(want)
			}
			changed++
		}
	}
	if changed > 1 {
		return "FAIL several-fields-changed"
	}
	if changed == 0 {
		// the new value may equal the old one; look whether some record holds it
		found := false
		for i := range r1 {
			if strings.HasSuffix(r1[i].key, "."+field) && r1[i].val == want {
				found = true
			}
		}
		if !found {
			return "FAIL edit-had-no-effect (edit " + kind + ")"
		}
	}
	// the edited image validates: nothing is wrong in it that is not already wrong in the unedited
	// round trip (opaque files keep whatever checksums they came with)
	bad0 := map[string]bool{}
	for _, e := range invalid(t0, "") {
		bad0[e] = true
	}
	for _, e := range invalid(t1, "") {
		if !bad0[e] {
			return "FAIL edited-image-invalid " + oneLine(e)
		}
	}
	// fiano's own validator as well. Its file body check demands sum(body) == 0 instead of
	// sum(body) + IntegrityCheck.File == 0 (reported to C09), so that message is left out.
	v0, v1 := &visitors.Validate{}, &visitors.Validate{}
	_ = v0.Run(t0)
	if err := v1.Run(t1); err != nil {
		return "FAIL validate-error " + oneLine(err.Error())
	}
	seen := map[string]int{}
	for _, e := range v0.Errors {
		seen[e.Error()]++
	}
	for _, e := range v1.Errors {
		m := e.Error()
		if strings.Contains(m, "body checksum failure! sum was") {
			continue
		}
		if seen[m] == 0 {
			return "FAIL edited-image-does-not-validate " + oneLine(m)
		}
		seen[m]--
	}
	return "ok"
}

// ---------- codec tables for the model ----------

func kindOfGUID(g guid.GUID) int {
	switch g {
	case compression.LZMAGUID:
		return 1
	case compression.LZMAX86GUID:
		return 2
	case compression.ZLIBGUID:
		return 3
	case compression.BROTLIGUID:
		return 4
	}
	return 0
}

func walkSections(f uefi.Firmware, fn func(*uefi.Section)) {
	switch n := f.(type) {
	case *uefi.BIOSRegion:
		for _, e := range n.Elements {
			walkSections(e.Value, fn)
		}
	case *uefi.FirmwareVolume:
		for _, x := range n.Files {
			walkSections(x, fn)
		}
	case *uefi.File:
		for _, s := range n.Sections {
			walkSections(s, fn)
		}
	case *uefi.Section:
		fn(n)
		for _, e := range n.Encapsulated {
			walkSections(e.Value, fn)
		}
	}
}

func join4(kids []*uefi.TypedFirmware) []byte {
	var out []byte
	for _, k := range kids {
		for len(out)%4 != 0 {
			out = append(out, 0)
		}
		out = append(out, k.Value.Buf()...)
	}
	return out
}

// emitTables runs Parse and two Assemble passes in the generator process and emits the codec pairs the
// model needs for the same steps.
func emitTables(emit Emit, img []byte) {
	reset()
	root, err := uefi.Parse(append([]byte{}, img...))
	if err != nil {
		return
	}
	seen := map[string]bool{}
	put := func(dir string, kind int, in, out string) {
		key := dir + N(uint64(kind)) + in
		if !seen[key] {
			seen[key] = true
			emit("T", "codec", dir, N(uint64(kind)), in, out)
		}
	}
	walkSections(root, func(s *uefi.Section) {
		if s.Header.Type != uefi.SectionTypeGUIDDefined || s.TypeSpecific == nil {
			return
		}
		gd, ok := s.TypeSpecific.Header.(*uefi.SectionGUIDDefined)
		if !ok || gd.Attributes&1 == 0 {
			return
		}
		k := kindOfGUID(gd.GUID)
		if k == 0 || int(gd.DataOffset) > len(s.Buf()) {
			return
		}
		payload := s.Buf()[gd.DataOffset:]
		plain, err := compression.CompressorFromGUID(&gd.GUID).Decode(append([]byte{}, payload...))
		o := "err"
		if err == nil {
			o = H(plain)
		}
		put("dec", k, H(payload), o)
	})
	for pass := 0; pass < 2; pass++ {
		if err := (&visitors.Assemble{}).Run(root); err != nil {
			return
		}
		walkSections(root, func(s *uefi.Section) {
			if s.Header.Type != uefi.SectionTypeGUIDDefined || s.TypeSpecific == nil || len(s.Encapsulated) == 0 {
				return
			}
			gd, ok := s.TypeSpecific.Header.(*uefi.SectionGUIDDefined)
			if !ok || gd.Attributes&1 == 0 {
				return
			}
			k := kindOfGUID(gd.GUID)
			if k == 0 || int(gd.DataOffset) > len(s.Buf()) {
				return
			}
			put("enc", k, H(join4(s.Encapsulated)), H(s.Buf()[gd.DataOffset:]))
		})
	}
}

// ---------- generator ----------

func realEnc(kind int, plain []byte) ([]byte, error) {
	reset()
	g := uefigen.CodecGUID(kind)
	var gg guid.GUID
	copy(gg[:], g[:])
	return compression.CompressorFromGUID(&gg).Encode(plain)
}

func genText(r *Rng) []byte {
	n := r.Range(1, 12)
	var sb strings.Builder
	for i := 0; i < n; i++ {
		switch r.Intn(10) {
		case 0:
			sb.WriteRune(rune(0x100 + r.Intn(0x400)))
		case 1:
			sb.WriteRune(rune(0x3041 + r.Intn(80)))
		case 2:
			sb.WriteString([]string{"<", ">", "&", "\"", "\\", "/", " "}[r.Intn(7)]) // characters JSON escapes
		default:
			sb.WriteByte(byte('a' + r.Intn(26)))
		}
	}
	return []byte(sb.String())
}

func genDepexBytes(r *Rng) []byte {
	var b []byte
	n := r.Intn(5)
	for i := 0; i < n; i++ {
		op := byte(r.Pick(0, 1, 2, 3, 4, 5, 6, 7, 9))
		b = append(b, op)
		if op <= 2 {
			b = append(b, r.Bytes(16)...)
		}
	}
	return append(b, 8)
}

// nvarStoreFile builds a raw file carrying an NVAR store of the shared grammar (harness/nvargen): full
// entries, link chains, data-only entries without a link, entries with the valid bit cleared, broken
// extended headers, bare headers, optionally nested stores.
func nvarStoreFile(r *Rng) *uefigen.File {
	st := nvargen.Gen(r, 0xFF, r.Pick(0, 0, 1))
	f := &uefigen.File{Type: 1, State: 0xF8, Body: st.Bytes()}
	copy(f.GUID[:], uefi.NVAR[:])
	return f
}

// genNvarImage: a region whose volumes carry one or two NVAR store files next to ordinary files.
func genNvarImage(r *Rng) []byte {
	o := uefigen.Opts{MaxDepth: 0, Strings: true, Alignments: false}
	reg := uefigen.GenRegion(r, o)
	n := 0
	for _, e := range reg.Elems {
		if e.Vol != nil && (e.Vol.FSGUID == uefigen.FFS2 || e.Vol.FSGUID == uefigen.FFS3) && (n == 0 || r.Chance(1, 3)) {
			f := nvarStoreFile(r)
			k := r.Intn(len(e.Vol.Files) + 1)
			e.Vol.Files = append(e.Vol.Files[:k], append([]*uefigen.File{f}, e.Vol.Files[k:]...)...)
			n++
		}
	}
	if n == 0 {
		return nil
	}
	img, _ := uefigen.EmitRegion(reg)
	return img
}

// countSections parses img in the generator process and counts the sections each edit kind applies to.
func countSections(img []byte) (files, ui, version, depex int) {
	reset()
	root, err := uefi.Parse(append([]byte{}, img...))
	if err != nil {
		return
	}
	var walk func(f uefi.Firmware)
	walk = func(f uefi.Firmware) {
		switch n := f.(type) {
		case *uefi.BIOSRegion:
			for _, e := range n.Elements {
				walk(e.Value)
			}
		case *uefi.FirmwareVolume:
			for _, x := range n.Files {
				walk(x)
			}
		case *uefi.File:
			if len(n.Sections) > 0 {
				files++
			}
			for _, x := range n.Sections {
				walk(x)
			}
		case *uefi.Section:
			switch n.Header.Type {
			case uefi.SectionTypeUserInterface:
				ui++
			case uefi.SectionTypeVersion:
				version++
			case uefi.SectionTypeDXEDepEx, uefi.SectionTypePEIDepEx, uefi.SectionMMDepEx:
				depex++
			}
			for _, e := range n.Encapsulated {
				walk(e.Value)
			}
		}
	}
	walk(root)
	return
}

// genFlashImage builds an Intel flash image: descriptor block (signature at offset 16, descriptor map
// at 20, region section at 0x40, master section at 0x80), a BIOS region holding optional padding and
// one small FFS2 volume of the reference grammar, optionally GbE and PD raw regions, and 2-3 ranges
// that no region entry covers (before / between / after the regions), of different lengths and filled
// with distinct bytes.  fiano turns each uncovered range into a RawRegion of type Unknown.
func genFlashImage(r *Rng) []byte {
	const blk = 0x1000
	type reg struct {
		idx   int // index in the region section: 0 BIOS, 2 GbE, 3 PD
		data  []byte
		isGap bool
	}
	// BIOS region content
	o := uefigen.Opts{MaxDepth: r.Pick(0, 0, 1), Strings: true, Alignments: false}
	var bios []byte
	for tries := 0; ; tries++ {
		v := uefigen.GenVol(r.Fork(uint64(tries)), o, 0)
		vb, _ := uefigen.EmitVol(v)
		if len(vb) <= 2*blk-64 || tries > 20 {
			if r.Bool() {
				bios = append(bios, genPadFF(r, 8*r.Range(1, 6))...)
			}
			bios = append(bios, vb...)
			break
		}
	}
	for len(bios)%blk != 0 {
		bios = append(bios, 0xFF)
	}
	gap := func(k int) reg {
		n := blk * r.Range(1, 2)
		if k == 1 {
			n = blk * 3
		}
		d := make([]byte, n)
		fill := byte(0x11 * (k + 1))
		for i := range d {
			d[i] = fill ^ byte(i*7)
		}
		return reg{isGap: true, data: d}
	}
	raw := func(idx int) reg { return reg{idx: idx, data: r.Bytes(blk * r.Range(1, 2))} }
	regs := []reg{{idx: 0, data: bios}}
	if r.Bool() {
		regs = append(regs, raw(2))
	}
	if r.Chance(1, 3) {
		regs = append(regs, raw(3))
	}
	// shuffle the regions, then put gaps: always at least two
	for i := len(regs) - 1; i > 0; i-- {
		j := r.Intn(i + 1)
		regs[i], regs[j] = regs[j], regs[i]
	}
	var layout []reg
	ngap := 0
	for i, x := range regs {
		if r.Chance(2, 3) || (i == 0 && len(regs) == 1) {
			layout = append(layout, gap(ngap))
			ngap++
		}
		layout = append(layout, x)
	}
	for ngap < 2 || r.Chance(1, 3) && ngap < 3 {
		// a trailing gap; a second trailing gap would merge with the first, so only one
		if len(layout) > 0 && layout[len(layout)-1].isGap {
			break
		}
		layout = append(layout, gap(ngap))
		ngap++
	}
	if ngap < 2 {
		// the only free place left is the front
		layout = append([]reg{gap(ngap)}, layout...)
	}
	img := make([]byte, blk)
	for i := range img {
		img[i] = 0xFF
	}
	copy(img[16:], []byte{0x5a, 0xa5, 0xf0, 0x0f})
	// descriptor map: ComponentBase, chips, RegionBase=4 (0x40), NumberOfRegions=0 (all), MasterBase=8 (0x80), ...
	copy(img[20:], []byte{3, 0, 4, 0, 8, 1, 0x10, 0, 0x20, 0, 0, 0, 0, 0, 0, 0})
	for i := 0x40; i < 0x80; i++ {
		img[i] = 0
	}
	for i := 0; i < 15; i++ { // unused entries: base 0x7FFF, limit 0
		img[0x44+4*i], img[0x45+4*i] = 0xFF, 0x7F
	}
	for i := 0x80; i < 0x100; i++ {
		img[i] = byte(i)
	}
	off := 1
	for _, x := range layout {
		nb := len(x.data) / blk
		if !x.isGap {
			e := 0x44 + 4*x.idx
			img[e], img[e+1] = byte(off), byte(off>>8)
			img[e+2], img[e+3] = byte(off+nb-1), byte((off+nb-1)>>8)
		}
		img = append(img, x.data...)
		off += nb
	}
	return img
}

func genPadFF(r *Rng, n int) []byte {
	b := make([]byte, n)
	for i := range b {
		b[i] = 0xFF
	}
	return b
}

func hasFlashSig(b []byte) bool {
	sig := []byte{0x5a, 0xa5, 0xf0, 0x0f}
	return len(b) >= 20 && (bytes.Equal(b[16:20], sig) || bytes.Equal(b[0:4], sig))
}

func gen(r *Rng, tier string, emit Emit) {
	n := 120
	maxCorpus := 40
	if tier == "thorough" {
		n = 4000
		maxCorpus = 100000
	}
	repo := os.Getenv("VERIF_REPO_PATH")
	if repo == "" {
		repo = "/repo"
	}
	// the text form of GUIDs (every GUID of summary.json goes through String and Parse)
	ng := 60
	if tier == "thorough" {
		ng = 2000
	}
	for i := 0; i < ng; i++ {
		rr := r.Fork(uint64(1000000 + i))
		g := rr.Bytes(16)
		emit("C", "guidstr", H(g))
		var gg guid.GUID
		copy(gg[:], g)
		txt := []byte(gg.String())
		switch rr.Intn(6) {
		case 0:
			txt = bytes.ToLower(txt)
		case 1:
			txt = bytes.ReplaceAll(txt, []byte("-"), nil)
		case 2:
			txt[rr.Intn(len(txt))] = byte(rr.Pick('G', 'x', '-', ' ', '0', 'f'))
		case 3:
			txt = txt[:rr.Intn(len(txt))]
		case 4:
			txt = append(txt, byte(rr.Pick('0', 'A', '-')))
		}
		emit("C", "guidparse", H(txt))
	}
	// historical sample inputs (pkg/uefi/testdata/fuzz_in.txz) that fiano accepts: bare regions/volumes
	// and flash images with descriptor, ME and raw regions
	used := 0
	for _, b := range uefigen.HistoricalCorpus(repo, 1<<16) {
		if len(b) == 0 || !parses(b) {
			continue
		}
		if used++; used > maxCorpus {
			break
		}
		emit("P", "p_roundtrip", H(b), "x")
		emit("P", "p_paths", H(b))
		if len(b) <= 8193 {
			emitTables(emit, b)
			emit("C", "xpaths", H(b))
			emit("C", "dirsave", H(b))
		}
	}
	// Intel flash images with 2-3 ranges not covered by any region entry (implementation oracles only:
	// the flash level is not modelled)
	nflash := 12
	if tier == "thorough" {
		nflash = 300
	}
	for i := 0; i < nflash; i++ {
		img := genFlashImage(r.Fork(uint64(2000000 + i)))
		emit("P", "p_roundtrip", H(img), "id")
		emit("P", "p_paths", H(img))
		// model of the flash level (Model/ExtractFlash.v): path list and directory-route bytes
		emitTables(emit, img)
		emit("C", "xpaths", H(img))
		emit("C", "dirsave", H(img))
	}
	// NVAR stores (implementation oracles; the model of their directory is Model/ExtractNvar.v)
	nnv := 40
	if tier == "thorough" {
		nnv = 1500
	}
	for i := 0; i < nnv; i++ {
		// one volume, one store: the directory of the store against the model
		rr := r.Fork(uint64(4000000 + i))
		st := nvargen.Gen(rr, 0xFF, rr.Pick(0, 0, 1))
		sb := st.Bytes()
		nf := &uefigen.File{Type: 1, State: 0xF8, Body: sb}
		copy(nf.GUID[:], uefi.NVAR[:])
		v := &uefigen.Vol{FSGUID: uefigen.FFS2, Attrs: 0x4FEFF, Revision: 2, BlockSize: 64, Files: []*uefigen.File{nf}, FreeSpace: rr.Pick(0, 8, 100)}
		if rr.Bool() {
			v.Files = append([]*uefigen.File{uefigen.GenFile(rr, uefigen.Opts{Strings: true}, 0)}, v.Files...)
		}
		simg, _ := uefigen.EmitRegion(&uefigen.Region{Elems: []uefigen.Elem{{Vol: v}}})
		if len(simg) <= 12000 {
			emit("C", "nvdir", H(simg), H(sb))
		}
	}
	for i := 0; i < nnv; i++ {
		img := genNvarImage(r.Fork(uint64(3000000 + i)))
		if img == nil || len(img) > 60000 {
			continue
		}
		emit("P", "p_roundtrip", H(img), "x")
		emit("P", "p_paths", H(img))
	}
	for it := 0; it < n; it++ {
		rr := r.Fork(uint64(it))
		var img []byte
		canonical := "id"
		modelled := true
		if it%8 == 7 {
			// compressed sections (LZMA, LZMA+x86, ZLIB) around leaves and nested volumes
			kinds := [][]int{{1}, {2}, {3}, {1, 2, 3}}[rr.Intn(4)]
			o := uefigen.COpts{Depth: rr.Pick(0, 1, 1, 2), Kinds: kinds, Enc: realEnc, DataOff: rr.Chance(1, 3), PlainNest: true}
			reg, _, err := uefigen.GenCompRegion(rr.Fork(7), o)
			if err != nil {
				continue
			}
			img, _ = uefigen.EmitRegion(reg)
			canonical = "x"
		} else {
			o := uefigen.Opts{MaxDepth: rr.Pick(0, 0, 1, 2), Strings: true, Alignments: rr.Chance(1, 2), BigBodies: rr.Chance(1, 6)}
			reg := uefigen.GenRegion(rr, o)
			// duplicate GUIDs: copy a file's GUID onto others of the same and of other volumes
			var files []*uefigen.File
			var vols []*uefigen.Vol
			for _, e := range reg.Elems {
				if e.Vol != nil {
					files = append(files, e.Vol.Files...)
					if e.Vol.FSGUID == uefigen.FFS2 || e.Vol.FSGUID == uefigen.FFS3 {
						vols = append(vols, e.Vol)
					}
				}
			}
			if len(files) >= 2 && rr.Chance(1, 2) {
				g := files[rr.Intn(len(files))].GUID
				for _, f := range files {
					if rr.Chance(1, 2) {
						f.GUID = g
					}
				}
			}
			if len(vols) > 0 && rr.Chance(1, 6) {
				// an NVAR store (its entries are not modelled here: implementation oracles only)
				v := vols[rr.Intn(len(vols))]
				v.Files = append(v.Files, nvarStoreFile(rr))
				modelled = false
				canonical = "x"
			}
			img, _ = uefigen.EmitRegion(reg)
		}
		if len(img) == 0 || len(img) > 60000 {
			continue
		}
		emit("P", "p_roundtrip", H(img), canonical)
		if len(img) <= 12000 && modelled {
			emitTables(emit, img)
			emit("C", "xpaths", H(img))
			emit("C", "dirsave", H(img))
			emit("C", "saveproj", H(img))
		}
		// single-field edits of summary.json, on the fields the image has
		nf, nu, nv, nd := countSections(img)
		type ed struct {
			kind string
			n    int
			val  []byte
		}
		var eds []ed
		if nf > 0 {
			eds = append(eds, ed{"guid", nf, rr.Bytes(16)})
		}
		if nu > 0 {
			eds = append(eds, ed{"ui", nu, genText(rr)})
		}
		if nv > 0 {
			eds = append(eds, ed{"version", nv, genText(rr)})
		}
		if nd > 0 {
			eds = append(eds, ed{"depex", nd, genDepexBytes(rr)})
		}
		maxEdits := 2
		if tier == "thorough" {
			maxEdits = 4
		}
		for k := 0; k < maxEdits && len(eds) > 0; k++ {
			i := rr.Intn(len(eds))
			e := eds[i]
			eds = append(eds[:i], eds[i+1:]...)
			emit("P", "p_edit", H(img), e.kind, N(uint64(rr.Intn(e.n))), H(e.val))
		}
	}
}

func main() {
	uefiops.RegisterAll()
	Register("xpaths", opXPaths)
	Register("dirsave", opDirSave)
	Register("saveproj", opSaveProj)
	Register("nvdir", opNvDir)
	Register("guidstr", opGUIDStr)
	Register("guidparse", opGUIDParse)
	Register("p_roundtrip", pRoundTrip)
	Register("p_edit", pEdit)
	Register("p_paths", pPaths)
	Main(gen)
}
