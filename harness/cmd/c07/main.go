// c07: extracting an image to a directory and reassembling from it reproduces the image;
// single-field edits of summary.json change exactly that field.
//
// All oracles run the REAL tool entry point: utk.Run(image, "extract", dir) and
// utk.Run(dir, "save", out) in a fresh temporary directory outside /repo and /verif
// (removed afterwards).  utk.Run depends on package-level state (the erase polarity, the
// flags -force/-remove of the extract visitor, the shared file index of the registered
// extract visitor, -xzPath): every call goes through run(), which resets all of it.
//
// C ops (also evaluated by the extracted model):
//
//	xpaths  img   the relative paths of the files written by extract, sorted, with the number of
//	              files on disk (n) and the number of nodes that recorded an ExtractPath (w)
//	dirsave img   bytes of extract + save-from-directory (two Assemble passes, as utk does)
//	saveproj img  bytes of extract + ParseDir + ONE Assemble pass (model: assemble of json_project)
//	diredit img kind k value   bytes of extract + the k-th field of that kind replaced in summary.json +
//	              save-from-directory (model: Model/ExtractEdit.v dir_edit_save)
//
// P ops (implementation only):
//
//	p_roundtrip img id|x      dir round trip == direct save (== img when "id": canonical, nothing
//	                          compressed); the same again after the directory was moved and the image
//	                          file deleted
//	p_paths img               every recorded ExtractPath is distinct and is a file on disk, and vice
//	                          versa (covers FlashImage / FlashDescriptor / ME / raw regions)
//	p_edit img kind k value   edit the k-th candidate field of summary.json (kind guid|ui|version|
//	                          depex), save, reparse: exactly that field differs from the unedited
//	                          round trip, and the image validates (sizes, checksums, block maps); the
//	                          bytes equal the direct save of the parsed image with that field replaced
//	                          (so "out of space" is only accepted when that fails too); a GUID edit in
//	                          a top-level volume changes only the GUID and the header checksum byte;
//	                          summary.json offers exactly the editable fields the tree has
//
// C07_STATS=1 c07 gen ... prints the input-diversity report of stats.go on stderr.
package main

import (
	"bytes"
	"encoding/json"
	"flag"
	"fmt"
	"os"
	"path/filepath"
	"sort"
	"strings"

	"github.com/linuxboot/fiano/pkg/compression"
	"github.com/linuxboot/fiano/pkg/guid"
	"github.com/linuxboot/fiano/pkg/uefi"
	"github.com/linuxboot/fiano/pkg/utk"
	"github.com/linuxboot/fiano/pkg/visitors"
	. "verifharness/common"
	"verifharness/flashops"
	"verifharness/nvargen"
	"verifharness/uefigen"
	"verifharness/uefiops"
)

const noXZ = "/nonexistent/verif-no-xz"

// reset puts every piece of package-level state utk.Run reads into its initial value.
func reset() {
	uefiops.Reset()
	_ = flag.Set("force", "false")
	_ = flag.Set("remove", "false")
	_ = flag.Set("xzPath", noXZ) // the pure-Go LZMA encoder: deterministic, no subprocess
}

func run(args ...string) error {
	reset()
	return utk.Run(args...)
}

type work struct {
	tmp, img, dir string
}

func newWork(img []byte) (*work, error) {
	tmp, err := os.MkdirTemp("", "verif-c07-")
	if err != nil {
		return nil, err
	}
	for _, bad := range []string{"/repo", "/verif"} {
		if strings.HasPrefix(tmp, bad+"/") || tmp == bad {
			os.RemoveAll(tmp)
			return nil, fmt.Errorf("temporary directory %s lies inside %s", tmp, bad)
		}
	}
	w := &work{tmp: tmp, img: filepath.Join(tmp, "image.rom"), dir: filepath.Join(tmp, "x")}
	if err := os.WriteFile(w.img, img, 0o644); err != nil {
		os.RemoveAll(tmp)
		return nil, err
	}
	return w, nil
}

func (w *work) close() { os.RemoveAll(w.tmp) }

func parses(img []byte) bool {
	reset()
	_, err := uefi.Parse(append([]byte{}, img...))
	return err == nil
}

// listFiles returns the relative slash-separated paths of the regular files under dir.
func listFiles(dir string) []string {
	var ps []string
	_ = filepath.Walk(dir, func(p string, fi os.FileInfo, err error) error {
		if err == nil && !fi.IsDir() {
			rel, _ := filepath.Rel(dir, p)
			ps = append(ps, filepath.ToSlash(rel))
		}
		return nil
	})
	sort.Strings(ps)
	return ps
}

func countPaths(f uefi.Firmware) int { return len(allPaths(f)) }

// allPaths lists the non-empty ExtractPath fields of a tree (flash-level nodes included).
func allPaths(f uefi.Firmware) []string {
	var out []string
	add := func(p string) {
		if p != "" {
			out = append(out, p)
		}
	}
	switch x := f.(type) {
	case *uefi.FlashImage:
		add(x.ExtractPath)
		out = append(out, allPaths(&x.IFD)...)
		for _, r := range x.Regions {
			out = append(out, allPaths(r.Value)...)
		}
	case *uefi.FlashDescriptor:
		add(x.ExtractPath)
	case *uefi.MERegion:
		add(x.ExtractPath)
	case *uefi.RawRegion:
		add(x.ExtractPath)
	case *uefi.BIOSRegion:
		add(x.ExtractPath)
		for _, e := range x.Elements {
			out = append(out, allPaths(e.Value)...)
		}
	case *uefi.BIOSPadding:
		add(x.ExtractPath)
	case *uefi.FirmwareVolume:
		add(x.ExtractPath)
		for _, y := range x.Files {
			out = append(out, allPaths(y)...)
		}
	case *uefi.File:
		add(x.ExtractPath)
		for _, y := range x.Sections {
			out = append(out, allPaths(y)...)
		}
		if x.NVarStore != nil {
			out = append(out, allPaths(x.NVarStore)...)
		}
	case *uefi.NVarStore:
		for _, y := range x.Entries {
			out = append(out, allPaths(y)...)
		}
	case *uefi.NVar:
		add(x.ExtractPath)
		if x.NVarStore != nil {
			out = append(out, allPaths(x.NVarStore)...)
		}
	case *uefi.Section:
		add(x.ExtractPath)
		for _, y := range x.Encapsulated {
			out = append(out, allPaths(y.Value)...)
		}
	}
	return out
}

// p_paths img: every node that recorded an ExtractPath has a file of its own: the recorded paths are
// pairwise distinct and are exactly the files on disk (implementation only; covers the flash-level
// regions, which the model does not describe).
func pPaths(args []string) string {
	img := UnH(args[0])
	if !parses(img) {
		return "skip"
	}
	w, err := newWork(img)
	if err != nil {
		return "harness-error " + err.Error()
	}
	defer w.close()
	if err := run(w.img, "extract", w.dir); err != nil {
		return "FAIL extract-error " + oneLine(err.Error())
	}
	reset()
	root, err := (&visitors.ParseDir{BasePath: w.dir}).Parse()
	if err != nil {
		return "FAIL load-error " + oneLine(err.Error())
	}
	seen := map[string]bool{}
	for _, p := range allPaths(root) {
		p = filepath.ToSlash(filepath.Clean(p))
		if seen[p] {
			return "FAIL two-nodes-share-extract-path " + p
		}
		seen[p] = true
	}
	for _, p := range listFiles(w.dir) {
		if p == "summary.json" {
			continue
		}
		if !seen[p] {
			return "FAIL file-without-node " + p
		}
		delete(seen, p)
	}
	for p := range seen {
		return "FAIL node-without-file " + p
	}
	return "ok"
}

func opXPaths(args []string) string {
	img := UnH(args[0])
	if !parses(img) {
		return "err"
	}
	w, err := newWork(img)
	if err != nil {
		return "harness-error " + err.Error()
	}
	defer w.close()
	if err := run(w.img, "extract", w.dir); err != nil {
		return "err-extract"
	}
	var ps []string
	for _, p := range listFiles(w.dir) {
		if p != "summary.json" {
			ps = append(ps, p)
		}
	}
	reset()
	root, err := (&visitors.ParseDir{BasePath: w.dir}).Parse()
	if err != nil {
		return "err-load"
	}
	return fmt.Sprintf("ok n=%x w=%x %s", len(ps), countPaths(root), strings.Join(ps, " "))
}

func opDirSave(args []string) string {
	img := UnH(args[0])
	if !parses(img) {
		return "err"
	}
	w, err := newWork(img)
	if err != nil {
		return "harness-error " + err.Error()
	}
	defer w.close()
	if err := run(w.img, "extract", w.dir); err != nil {
		return "err-extract"
	}
	out := filepath.Join(w.tmp, "out.rom")
	if err := run(w.dir, "save", out); err != nil {
		return "err-asm"
	}
	b, err := os.ReadFile(out)
	if err != nil {
		return "harness-error " + err.Error()
	}
	return "ok " + H(b)
}

func opSaveProj(args []string) string {
	img := UnH(args[0])
	if !parses(img) {
		return "err"
	}
	w, err := newWork(img)
	if err != nil {
		return "harness-error " + err.Error()
	}
	defer w.close()
	if err := run(w.img, "extract", w.dir); err != nil {
		return "err-extract"
	}
	reset()
	root, err := (&visitors.ParseDir{BasePath: w.dir}).Parse()
	if err != nil {
		return "err-load"
	}
	if err := (&visitors.Assemble{}).Run(root); err != nil {
		return "err-asm"
	}
	return "ok " + H(root.Buf())
}

// guidstr <16 bytes> -> the text GUID.String() gives; guidparse <text> -> the 16 bytes guid.Parse gives
func opGUIDStr(args []string) string {
	var g guid.GUID
	copy(g[:], UnH(args[0]))
	return "ok " + H([]byte(g.String()))
}

func opGUIDParse(args []string) string {
	g, err := guid.Parse(string(UnH(args[0])))
	if err != nil {
		return "err"
	}
	return "ok " + H(g[:])
}

func fnv32(b []byte) uint32 {
	h := uint32(2166136261)
	for _, x := range b {
		h ^= uint32(x)
		h *= 16777619
	}
	return h
}

// findNvarFile returns the first file of the tree that carries an NVAR store.
func findNvarFile(f uefi.Firmware) *uefi.File {
	switch n := f.(type) {
	case *uefi.BIOSRegion:
		for _, e := range n.Elements {
			if x := findNvarFile(e.Value); x != nil {
				return x
			}
		}
	case *uefi.FirmwareVolume:
		for _, y := range n.Files {
			if y.NVarStore != nil {
				return y
			}
		}
	}
	return nil
}

// nvdir img store: img holds exactly one NVAR store file whose body is store.  Observation: the files
// extract writes below that file's directory (relative path, length, hash of the content; sorted) and
// the bytes of the store after extract + save-from-directory (model: Model/ExtractNvar.v on the store).
func opNvDir(args []string) string {
	img := UnH(args[0])
	if !parses(img) {
		return "err"
	}
	w, err := newWork(img)
	if err != nil {
		return "harness-error " + err.Error()
	}
	defer w.close()
	if err := run(w.img, "extract", w.dir); err != nil {
		return "err-extract"
	}
	marker := "/" + uefi.NVAR.String() + "/"
	var items []string
	for _, p := range listFiles(w.dir) {
		i := strings.Index(p, marker)
		if i < 0 {
			continue
		}
		rel := p[i+len(marker):]
		j := strings.Index(rel, "/") // the running index directory
		if j < 0 {
			continue
		}
		rel = rel[j+1:]
		b, err := os.ReadFile(filepath.Join(w.dir, p))
		if err != nil {
			return "harness-error " + err.Error()
		}
		items = append(items, fmt.Sprintf("%s:%x:%x", rel, len(b), fnv32(b)))
	}
	sort.Strings(items)
	out := filepath.Join(w.tmp, "out.rom")
	if err := run(w.dir, "save", out); err != nil {
		return "err-asm"
	}
	t, err := treeOf(out)
	if err != nil {
		return "err-reparse"
	}
	nf := findNvarFile(t)
	if nf == nil || int(nf.DataOffset) > len(nf.Buf()) {
		return "err-nostore"
	}
	return fmt.Sprintf("ok %x %s | %s", len(items), strings.Join(items, " "), H(nf.Buf()[nf.DataOffset:]))
}

func firstDiff(a, b []byte) string {
	i := 0
	for i < len(a) && i < len(b) && a[i] == b[i] {
		i++
	}
	return fmt.Sprintf("differs-at %x len %x vs %x", i, len(a), len(b))
}

func pRoundTrip(args []string) string {
	img := UnH(args[0])
	if !parses(img) {
		return "skip"
	}
	w, err := newWork(img)
	if err != nil {
		return "harness-error " + err.Error()
	}
	defer w.close()
	direct := filepath.Join(w.tmp, "direct.rom")
	errDirect := run(w.img, "save", direct)
	if err := run(w.img, "extract", w.dir); err != nil {
		return "FAIL extract-error " + oneLine(err.Error())
	}
	if _, err := os.Stat(filepath.Join(w.dir, "summary.json")); err != nil {
		return "FAIL no-summary-json"
	}
	out := filepath.Join(w.tmp, "out.rom")
	errDir := run(w.dir, "save", out)
	if errDirect != nil {
		// the direct save fails: nothing to reproduce; the directory route must not invent an image
		if errDir == nil {
			return "FAIL dir-save-succeeds-direct-save-fails " + oneLine(errDirect.Error())
		}
		return "skip"
	}
	if errDir != nil {
		if strings.Contains(errDir.Error(), "to MEName") {
			// flash images whose ME partition table has a name that is not valid UTF-8
			return "FAIL me-name-not-utf8 dir-save-error " + oneLine(errDir.Error())
		}
		return "FAIL dir-save-error " + oneLine(errDir.Error())
	}
	a, _ := os.ReadFile(out)
	b, _ := os.ReadFile(direct)
	if !bytes.Equal(a, b) {
		return "FAIL dir-vs-direct " + firstDiff(a, b)
	}
	if args[1] == "id" && !bytes.Equal(a, img) {
		return "FAIL dir-vs-input " + firstDiff(a, img)
	}
	// summary.json plus the extracted binaries are the complete description: the directory can be moved
	// (and the original image removed) and still gives the same image
	moved := filepath.Join(w.tmp, "y")
	if err := os.Rename(w.dir, moved); err != nil {
		return "harness-error " + err.Error()
	}
	_ = os.Remove(w.img)
	out2 := filepath.Join(w.tmp, "out2.rom")
	if err := run(moved, "save", out2); err != nil {
		return "FAIL moved-directory dir-save-error " + oneLine(err.Error())
	}
	if c, _ := os.ReadFile(out2); !bytes.Equal(c, a) {
		return "FAIL moved-directory " + firstDiff(c, a)
	}
	return "ok"
}

func oneLine(s string) string {
	s = strings.Map(func(r rune) rune {
		if r == '\t' || r == '\n' {
			return ' '
		}
		return r
	}, s)
	if len(s) > 160 {
		s = s[:160]
	}
	return s
}

// ---------- deep observation of a parsed tree, one record per content field ----------

func isPadFile(f *uefi.File) bool {
	return f.Header.Type == uefi.FVFileTypePad
}

type rec struct{ key, val string }

// deep lists the content of the tree: node kinds, identifying header fields, regenerated fields and the
// bodies of leaves.  Sizes, checksums, offsets, free space and the buffers of rebuilt nodes are left
// out on purpose (the property lets them be recomputed), and so are pad files, which the assembler
// inserts and removes as alignment requires.
func deep(f uefi.Firmware, at string, out *[]rec) {
	add := func(k, v string) { *out = append(*out, rec{at + "." + k, v}) }
	switch n := f.(type) {
	case *uefi.FlashImage:
		add("kind", "flash")
		add("size", N(n.FlashSize))
		add("ifd", H(n.IFD.Buf()))
		for i, r := range n.Regions {
			deep(r.Value, fmt.Sprintf("%s/r%d", at, i), out)
		}
	case *uefi.MERegion:
		add("kind", "me")
		add("body", N(uint64(fnv32(n.Buf())))+":"+N(uint64(len(n.Buf()))))
	case *uefi.RawRegion:
		add("kind", "raw "+n.Type().String())
		add("body", N(uint64(fnv32(n.Buf())))+":"+N(uint64(len(n.Buf()))))
	case *uefi.BIOSRegion:
		add("kind", "region")
		add("len", N(n.Length))
		for i, e := range n.Elements {
			deep(e.Value, fmt.Sprintf("%s/e%d", at, i), out)
		}
	case *uefi.BIOSPadding:
		add("kind", "pad")
		add("body", H(n.Buf()))
	case *uefi.FirmwareVolume:
		add("kind", "vol")
		add("fsguid", n.FileSystemGUID.String())
		add("attrs", N(uint64(n.Attributes)))
		add("hdrlen", N(uint64(n.HeaderLen)))
		add("rev", N(uint64(n.Revision)))
		add("dataoff", N(n.DataOffset))
		if int(n.DataOffset) <= len(n.Buf()) && n.DataOffset >= 64 {
			// header bytes apart from length, checksum and block count
			h := append([]byte{}, n.Buf()[:n.DataOffset]...)
			for _, r := range [][2]int{{32, 40}, {50, 52}, {56, 60}} {
				for i := r[0]; i < r[1] && i < len(h); i++ {
					h[i] = 0
				}
			}
			add("hdr", H(h))
		}
		if len(n.Files) == 0 {
			add("body", H(n.Buf()))
		}
		k := 0
		for _, x := range n.Files {
			if isPadFile(x) {
				continue
			}
			deep(x, fmt.Sprintf("%s/f%d", at, k), out)
			k++
		}
	case *uefi.File:
		add("kind", "file")
		add("guid", n.Header.GUID.String())
		add("type", N(uint64(n.Header.Type)))
		add("attr", N(uint64(n.Header.Attributes&^1)))
		add("state", N(uint64(n.Header.State)))
		if len(n.Sections) == 0 {
			add("raw", H(n.Buf()))
		}
		for i, s := range n.Sections {
			deep(s, fmt.Sprintf("%s/s%d", at, i), out)
		}
	case *uefi.Section:
		add("kind", "sec")
		add("type", N(uint64(n.Header.Type)))
		if n.TypeSpecific != nil {
			if gd, ok := n.TypeSpecific.Header.(*uefi.SectionGUIDDefined); ok {
				add("gdguid", gd.GUID.String())
				add("gdattrs", N(uint64(gd.Attributes)))
			}
		}
		switch n.Header.Type {
		case uefi.SectionTypeUserInterface:
			add("name", H([]byte(n.Name)))
		case uefi.SectionTypeVersion:
			add("build", N(uint64(n.BuildNumber)))
			add("version", H([]byte(n.Version)))
		case uefi.SectionTypeDXEDepEx, uefi.SectionTypePEIDepEx, uefi.SectionMMDepEx:
			add("depex", depexString(n.DepEx))
		default:
			if len(n.Encapsulated) == 0 {
				add("body", H(n.Buf()))
			}
		}
		for i, e := range n.Encapsulated {
			deep(e.Value, fmt.Sprintf("%s/x%d", at, i), out)
		}
	default:
		add("kind", fmt.Sprintf("%T", f))
	}
}

func depexString(d []uefi.DepExOp) string {
	var sb strings.Builder
	for _, op := range d {
		sb.WriteString(string(op.OpCode))
		if op.GUID != nil {
			sb.WriteString("(" + op.GUID.String() + ")")
		}
		sb.WriteString(";")
	}
	if sb.Len() == 0 {
		return "-"
	}
	return sb.String()
}

// invalid lists what is wrong with the sizes and checksums of a parsed tree, by the rules of the PI
// specification (independent of visitors.Validate).
func invalid(f uefi.Firmware, at string) []string {
	var out []string
	add := func(m string) { out = append(out, at+": "+m) }
	switch n := f.(type) {
	case *uefi.FlashImage:
		if uint64(len(n.Buf())) != n.FlashSize {
			add("flash size")
		}
		for i, r := range n.Regions {
			out = append(out, invalid(r.Value, fmt.Sprintf("%s/r%d", at, i))...)
		}
	case *uefi.BIOSRegion:
		if uint64(len(n.Buf())) != n.Length {
			add("region length")
		}
		for i, e := range n.Elements {
			out = append(out, invalid(e.Value, fmt.Sprintf("%s/e%d", at, i))...)
		}
	case *uefi.FirmwareVolume:
		b := n.Buf()
		if uint64(len(b)) != n.Length {
			add("volume length field")
		}
		// the block map adds up to the volume length (PI spec: FvLength is the sum of the block runs)
		var blocks uint64
		for _, bl := range n.Blocks {
			blocks += uint64(bl.Count) * uint64(bl.Size)
		}
		if blocks != n.Length {
			add("volume block map")
		}
		if int(n.HeaderLen) <= len(b) && n.HeaderLen%2 == 0 {
			var sum uint16
			for i := 0; i+1 < int(n.HeaderLen); i += 2 {
				sum += uint16(b[i]) | uint16(b[i+1])<<8
			}
			if sum != 0 {
				add("volume header checksum")
			}
		} else {
			add("volume header length")
		}
		k := 0
		for _, x := range n.Files {
			if isPadFile(x) {
				continue
			}
			out = append(out, invalid(x, fmt.Sprintf("%s/f%d", at, k))...)
			k++
		}
	case *uefi.File:
		b := n.Buf()
		hl := 24
		if n.Header.Attributes.IsLarge() {
			hl = 32
		}
		if uint64(len(b)) != n.Header.ExtendedSize || len(b) < hl {
			add("file size field")
			break
		}
		var hs, bs byte
		for _, c := range b[:hl] {
			hs += c
		}
		hs -= b[17] + b[23]
		if hs != 0 {
			add("file header checksum")
		}
		for _, c := range b[hl:] {
			bs += c
		}
		if n.Header.Attributes.HasChecksum() {
			if bs+b[17] != 0 {
				add("file body checksum")
			}
		} else if b[17] != 0xAA {
			add("file body checksum constant")
		}
		for i, x := range n.Sections {
			out = append(out, invalid(x, fmt.Sprintf("%s/s%d", at, i))...)
		}
	case *uefi.Section:
		if uint64(len(n.Buf())) != uint64(n.Header.ExtendedSize) {
			add("section size field")
		}
		for i, e := range n.Encapsulated {
			out = append(out, invalid(e.Value, fmt.Sprintf("%s/x%d", at, i))...)
		}
	}
	return out
}

// ---------- editing summary.json as generic JSON ----------

type jsonObj = map[string]interface{}

func loadJSON(p string) (interface{}, error) {
	data, err := os.ReadFile(p)
	if err != nil {
		return nil, err
	}
	d := json.NewDecoder(bytes.NewReader(data))
	d.UseNumber()
	var v interface{}
	if err := d.Decode(&v); err != nil {
		return nil, err
	}
	return v, nil
}

func secType(o jsonObj) (int64, bool) {
	h, ok := o["Header"].(jsonObj)
	if !ok {
		return 0, false
	}
	t, ok := h["Type"].(json.Number)
	if !ok {
		return 0, false
	}
	v, err := t.Int64()
	return v, err == nil
}

// candidates walks the JSON document in document order and returns the objects an edit of the given
// kind can apply to, with the record key the reparsed tree uses for the edited field.
func candidates(v interface{}, kind string) []jsonObj {
	var out []jsonObj
	var walk func(v interface{})
	walk = func(v interface{}) {
		switch x := v.(type) {
		case []interface{}:
			for _, y := range x {
				walk(y)
			}
		case jsonObj:
			hdr, _ := x["Header"].(jsonObj)
			_, isFile := hdr["GUID"]
			if kind == "guid" && isFile {
				if secs, ok := x["Sections"].([]interface{}); ok && len(secs) > 0 {
					out = append(out, x)
				}
			}
			if t, ok := secType(x); ok && !isFile {
				switch {
				case kind == "ui" && t == 0x15, kind == "version" && t == 0x14,
					kind == "depex" && (t == 0x13 || t == 0x1b || t == 0x1c):
					out = append(out, x)
				}
			}
			// document order: Go marshals struct fields in declaration order, but the generic map has
			// lost it; children live under these keys only
			for _, k := range []string{"FirmwareElement", "Regions", "Elements", "Value", "Files", "Sections", "Encapsulated"} {
				if c, ok := x[k]; ok {
					walk(c)
				}
			}
		}
	}
	walk(v)
	return out
}

// guidJSON is the JSON form of a GUID as a person would type it: the text guid.Parse accepts is not
// case sensitive, so every other value (by its last byte) is written in lower case.
func guidJSON(g []byte) jsonObj {
	var gg guid.GUID
	copy(gg[:], g)
	if len(g) == 16 && g[15]&1 == 1 {
		return jsonObj{"GUID": strings.ToLower(gg.String())}
	}
	return jsonObj{"GUID": gg.String()}
}

// cand is a node of a parsed tree that an edit applies to, and where it lives: "top" (a file of a
// volume of the BIOS region), "nested" (inside a volume nested through FV-image sections only),
// "compressed" (below a compressed section).
type cand struct {
	file  *uefi.File
	sec   *uefi.Section
	where string
}

// treeCands lists the nodes of a parsed tree that an edit of the given kind applies to, in the order
// of summary.json (preorder), i.e. the order of candidates() on the JSON document.
func treeCands(root uefi.Firmware, kind string) []cand {
	var out []cand
	var walk func(f uefi.Firmware, where string, file *uefi.File)
	walk = func(f uefi.Firmware, where string, file *uefi.File) {
		switch n := f.(type) {
		case *uefi.FlashImage:
			for _, r := range n.Regions {
				walk(r.Value, where, nil)
			}
		case *uefi.BIOSRegion:
			for _, e := range n.Elements {
				walk(e.Value, where, nil)
			}
		case *uefi.FirmwareVolume:
			for _, x := range n.Files {
				walk(x, where, x)
			}
		case *uefi.File:
			if kind == "guid" && len(n.Sections) > 0 {
				out = append(out, cand{n, nil, where})
			}
			for _, x := range n.Sections {
				walk(x, where, n)
			}
		case *uefi.Section:
			t := n.Header.Type
			switch {
			case kind == "ui" && t == uefi.SectionTypeUserInterface, kind == "version" && t == uefi.SectionTypeVersion,
				kind == "depex" && (t == uefi.SectionTypeDXEDepEx || t == uefi.SectionTypePEIDepEx || t == uefi.SectionMMDepEx):
				out = append(out, cand{file, n, where})
			}
			w := where
			if t == uefi.SectionTypeGUIDDefined && len(n.Encapsulated) > 0 {
				w = "compressed"
			}
			for _, e := range n.Encapsulated {
				if _, ok := e.Value.(*uefi.FirmwareVolume); ok && w == "top" {
					walk(e.Value, "nested", file)
				} else {
					walk(e.Value, w, file)
				}
			}
		}
	}
	walk(root, "top", nil)
	return out
}

// applyTreeEdit replaces the field on a parsed tree (k modulo the number of candidates unless exact).
func applyTreeEdit(root uefi.Firmware, kind string, k int, val []byte, exact bool) (cand, int) {
	cs := treeCands(root, kind)
	if len(cs) == 0 || (exact && k >= len(cs)) {
		return cand{}, len(cs)
	}
	c := cs[k%len(cs)]
	switch kind {
	case "guid":
		copy(c.file.Header.GUID[:], val)
	case "ui":
		c.sec.Name = string(val)
	case "version":
		c.sec.Version = string(val)
	case "depex":
		var ops []uefi.DepExOp
		for i := 0; i < len(val); {
			op := uefi.DepExOp{OpCode: uefi.DepExOpCodes[val[i]]}
			i++
			if val[i-1] <= 2 && i+16 <= len(val) {
				var gg guid.GUID
				copy(gg[:], val[i:i+16])
				op.GUID = &gg
				i += 16
			}
			ops = append(ops, op)
		}
		c.sec.DepEx = ops
	}
	return c, len(cs)
}

// treeEdit makes the same edit on a tree parsed from the image and assembles it once: the direct save of
// the image with that field changed (as p_roundtrip compares the directory route with the direct save of
// the image).
func treeEdit(img []byte, kind string, k int, val []byte) ([]byte, cand, int, error) {
	reset()
	root, err := uefi.Parse(append([]byte{}, img...))
	if err != nil {
		return nil, cand{}, 0, err
	}
	c, n := applyTreeEdit(root, kind, k, val, false)
	if n == 0 {
		return nil, cand{}, 0, nil
	}
	if err := (&visitors.Assemble{}).Run(root); err != nil {
		return nil, c, n, err
	}
	return append([]byte{}, root.Buf()...), c, n, nil
}

func depexJSON(b []byte) ([]interface{}, string, bool) {
	var ops []interface{}
	var want []uefi.DepExOp
	i := 0
	for i < len(b) {
		name, ok := uefi.DepExOpCodes[b[i]]
		if !ok {
			return nil, "", false
		}
		o := jsonObj{"OpCode": string(name)}
		op := uefi.DepExOp{OpCode: name}
		i++
		if b[i-1] <= 2 {
			if i+16 > len(b) {
				return nil, "", false
			}
			o["GUID"] = guidJSON(b[i : i+16])
			var gg guid.GUID
			copy(gg[:], b[i:i+16])
			op.GUID = &gg
			i += 16
		}
		ops = append(ops, o)
		want = append(want, op)
	}
	return ops, depexString(want), true
}

// treeOf parses the image file at p.
func treeOf(p string) (uefi.Firmware, error) {
	b, err := os.ReadFile(p)
	if err != nil {
		return nil, err
	}
	reset()
	return uefi.Parse(b)
}

// editSummary replaces, in dir/summary.json, the value of the k-th field (document order) that an edit
// of the given kind applies to; k is taken modulo the number of such fields unless exact is set (then a
// k beyond the last field edits nothing).  It returns the number of fields, and the record name and
// value the reparsed tree must show; problem is non-empty when the file cannot be edited.
func editSummary(dir, kind string, k int, val []byte, exact bool) (ncands int, field, want, problem string) {
	sj := filepath.Join(dir, "summary.json")
	doc, err := loadJSON(sj)
	if err != nil {
		return 0, "", "", "FAIL summary-json-unreadable " + oneLine(err.Error())
	}
	cands := candidates(doc, kind)
	ncands = len(cands)
	if ncands == 0 || (exact && k >= ncands) {
		return ncands, "", "", ""
	}
	target := cands[k%ncands]
	switch kind {
	case "guid":
		if len(val) != 16 {
			return ncands, "", "", "harness-error guid-length"
		}
		target["Header"].(jsonObj)["GUID"] = guidJSON(val)
		field, want = "guid", strings.ToUpper(guidJSON(val)["GUID"].(string))
	case "ui":
		target["Name"] = string(val)
		field, want = "name", H(val)
	case "version":
		target["Version"] = string(val)
		field, want = "version", H(val)
	case "depex":
		ops, s, ok := depexJSON(val)
		if !ok {
			return ncands, "", "", "harness-error depex-value"
		}
		target["DepEx"] = ops
		field, want = "depex", s
	default:
		return ncands, "", "", "harness-error kind"
	}
	nb, err := json.MarshalIndent(doc, "", "    ")
	if err != nil {
		return ncands, "", "", "harness-error " + err.Error()
	}
	if err := os.WriteFile(sj, nb, 0o644); err != nil {
		return ncands, "", "", "harness-error " + err.Error()
	}
	return ncands, field, want, ""
}

// diredit img kind k value: bytes of extract + the edit of summary.json + save-from-directory
// (model: Model/ExtractEdit.v dir_edit_save; k is exact: beyond the last candidate nothing is edited)
func opDirEdit(args []string) string {
	img := UnH(args[0])
	if !parses(img) {
		return "err"
	}
	w, err := newWork(img)
	if err != nil {
		return "harness-error " + err.Error()
	}
	defer w.close()
	if err := run(w.img, "extract", w.dir); err != nil {
		return "err-extract"
	}
	if _, _, _, problem := editSummary(w.dir, args[1], int(UnN(args[2])), UnH(args[3]), true); problem != "" {
		return problem
	}
	out := filepath.Join(w.tmp, "out.rom")
	if err := run(w.dir, "save", out); err != nil {
		return "err-asm"
	}
	b, err := os.ReadFile(out)
	if err != nil {
		return "harness-error " + err.Error()
	}
	return "ok " + H(b)
}

func pEdit(args []string) string {
	img := UnH(args[0])
	kind := args[1]
	k := int(UnN(args[2]))
	val := UnH(args[3])
	if !parses(img) {
		return "skip"
	}
	w, err := newWork(img)
	if err != nil {
		return "harness-error " + err.Error()
	}
	defer w.close()
	if err := run(w.img, "extract", w.dir); err != nil {
		return "skip"
	}
	base := filepath.Join(w.tmp, "base.rom")
	if err := run(w.dir, "save", base); err != nil {
		return "skip" // the unedited round trip is p_roundtrip's business
	}
	// the same edit made on the parsed tree (the tool's own notion of "the image with that field changed")
	memImg, tc, ntree, memErr := treeEdit(img, kind, k, val)
	ncands, field, want, problem := editSummary(w.dir, kind, k, val, false)
	if problem != "" {
		return problem
	}
	if ncands != ntree && !(memErr != nil && ntree == 0) {
		// a field the tree has is not an editable field of summary.json (or the other way round)
		return fmt.Sprintf("FAIL summary-json-editable-fields json=%d tree=%d (edit %s)", ncands, ntree, kind)
	}
	if ncands == 0 {
		return "skip"
	}
	out := filepath.Join(w.tmp, "edited.rom")
	if err := run(w.dir, "save", out); err != nil {
		if strings.Contains(err.Error(), "out of space") {
			if memErr == nil && memImg != nil {
				// the edit fits when it is made on the parsed tree: the directory lost something
				return "FAIL directory-route-refuses-edit-that-fits (edit " + kind + " in " + tc.where + ") " + oneLine(err.Error())
			}
			return "skip" // the edit does not fit the (non-resizable) volume
		}
		return "FAIL save-after-edit " + oneLine(err.Error())
	}
	edited, _ := os.ReadFile(out)
	if memErr == nil && memImg != nil && !bytes.Equal(edited, memImg) {
		return "FAIL json-edit-vs-tree-edit (edit " + kind + " in " + tc.where + ") " + firstDiff(edited, memImg)
	}
	if kind == "guid" && tc.file != nil && tc.where == "top" {
		// byte level: exactly the 16 GUID bytes and the header checksum byte after them differ
		b0, _ := os.ReadFile(base)
		if msg := guidBytesOnly(b0, edited, val); msg != "" {
			return "FAIL " + msg
		}
	}
	t0, err := treeOf(base)
	if err != nil {
		return "skip"
	}
	t1, err := treeOf(out)
	if err != nil {
		return "FAIL edited-image-does-not-parse " + oneLine(err.Error())
	}
	var r0, r1 []rec
	deep(t0, "", &r0)
	deep(t1, "", &r1)
	if len(r0) != len(r1) {
		return fmt.Sprintf("FAIL tree-shape-changed %d vs %d records (edit %s)", len(r0), len(r1), kind)
	}
	changed := 0
	for i := range r0 {
		if r0[i].key != r1[i].key {
			return "FAIL tree-shape-changed at " + r0[i].key + " / " + r1[i].key
		}
		if r0[i].val != r1[i].val {
			if !strings.HasSuffix(r0[i].key, "."+field) {
				return "FAIL other-field-changed " + r0[i].key + " (edit " + kind + ")"
			}
			if r1[i].val != want {
				return "FAIL edited-field-has-wrong-value " + r1[i].key + " got " + oneLine(r1[i].val) + " want " + oneLine(want)
			}
			changed++
		}
	}
	if changed > 1 {
		return "FAIL several-fields-changed"
	}
	if changed == 0 {
		// the new value may equal the old one; look whether some record holds it
		found := false
		for i := range r1 {
			if strings.HasSuffix(r1[i].key, "."+field) && r1[i].val == want {
				found = true
			}
		}
		if !found {
			return "FAIL edit-had-no-effect (edit " + kind + ")"
		}
	}
	// the edited image validates: nothing is wrong in it that is not already wrong in the unedited
	// round trip (opaque files keep whatever checksums they came with)
	bad0 := map[string]bool{}
	for _, e := range invalid(t0, "") {
		bad0[e] = true
	}
	for _, e := range invalid(t1, "") {
		if !bad0[e] {
			return "FAIL edited-image-invalid " + oneLine(e)
		}
	}
	// fiano's own validator as well. Its file body check demands sum(body) == 0 instead of
	// sum(body) + IntegrityCheck.File == 0 (reported to C09), so that message is left out.
	v0, v1 := &visitors.Validate{}, &visitors.Validate{}
	_ = v0.Run(t0)
	if err := v1.Run(t1); err != nil {
		return "FAIL validate-error " + oneLine(err.Error())
	}
	seen := map[string]int{}
	for _, e := range v0.Errors {
		seen[e.Error()]++
	}
	for _, e := range v1.Errors {
		m := e.Error()
		if strings.Contains(m, "body checksum failure! sum was") {
			continue
		}
		if seen[m] == 0 {
			return "FAIL edited-image-does-not-validate " + oneLine(m)
		}
		seen[m]--
	}
	return "ok"
}

// guidBytesOnly: the images differ only inside one 17-byte window that starts with the new GUID in the
// edited image (file GUID + IntegrityCheck.Header).  Only for files of top-level volumes, where no
// enclosing file's body checksum follows the change.
func guidBytesOnly(base, edited, g []byte) string {
	if len(base) != len(edited) {
		return fmt.Sprintf("guid-edit-changes-image-size %x vs %x", len(base), len(edited))
	}
	lo, hi := -1, -1
	for i := range base {
		if base[i] != edited[i] {
			if lo < 0 {
				lo = i
			}
			hi = i
		}
	}
	if lo < 0 {
		return "" // same GUID as before
	}
	if hi-lo > 16 {
		return fmt.Sprintf("guid-edit-changes-bytes-outside-guid-and-header-checksum %x..%x", lo, hi)
	}
	// the window [o, o+17) with the new GUID at o covers every changed byte
	for o := hi - 16; o <= lo; o++ {
		if o >= 0 && o+16 <= len(edited) && bytes.Equal(edited[o:o+16], g) {
			return ""
		}
	}
	return fmt.Sprintf("guid-edit-changes-bytes-outside-guid-and-header-checksum %x..%x (new GUID not found there)", lo, hi)
}

// ---------- codec tables for the model ----------

func kindOfGUID(g guid.GUID) int {
	switch g {
	case compression.LZMAGUID:
		return 1
	case compression.LZMAX86GUID:
		return 2
	case compression.ZLIBGUID:
		return 3
	case compression.BROTLIGUID:
		return 4
	}
	return 0
}

func walkSections(f uefi.Firmware, fn func(*uefi.Section)) {
	switch n := f.(type) {
	case *uefi.BIOSRegion:
		for _, e := range n.Elements {
			walkSections(e.Value, fn)
		}
	case *uefi.FirmwareVolume:
		for _, x := range n.Files {
			walkSections(x, fn)
		}
	case *uefi.File:
		for _, s := range n.Sections {
			walkSections(s, fn)
		}
	case *uefi.Section:
		fn(n)
		for _, e := range n.Encapsulated {
			walkSections(e.Value, fn)
		}
	}
}

func join4(kids []*uefi.TypedFirmware) []byte {
	var out []byte
	for _, k := range kids {
		for len(out)%4 != 0 {
			out = append(out, 0)
		}
		out = append(out, k.Value.Buf()...)
	}
	return out
}

// emitTables runs Parse and two Assemble passes in the generator process and emits the codec pairs the
// model needs for the same steps.
func emitTables(emit Emit, img []byte) { emitTablesEdit(emit, img, nil) }

// emitTablesEdit: as emitTables, with a field of the parsed tree replaced before the Assemble passes, so
// that the table holds what the real encoders make of the edited content.
func emitTablesEdit(emit Emit, img []byte, mut func(uefi.Firmware)) {
	reset()
	root, err := uefi.Parse(append([]byte{}, img...))
	if err != nil {
		return
	}
	seen := map[string]bool{}
	put := func(dir string, kind int, in, out string) {
		key := dir + N(uint64(kind)) + in
		if !seen[key] {
			seen[key] = true
			emit("T", "codec", dir, N(uint64(kind)), in, out)
		}
	}
	walkSections(root, func(s *uefi.Section) {
		if s.Header.Type != uefi.SectionTypeGUIDDefined || s.TypeSpecific == nil {
			return
		}
		gd, ok := s.TypeSpecific.Header.(*uefi.SectionGUIDDefined)
		if !ok || gd.Attributes&1 == 0 {
			return
		}
		k := kindOfGUID(gd.GUID)
		if k == 0 || int(gd.DataOffset) > len(s.Buf()) {
			return
		}
		payload := s.Buf()[gd.DataOffset:]
		plain, err := compression.CompressorFromGUID(&gd.GUID).Decode(append([]byte{}, payload...))
		o := "err"
		if err == nil {
			o = H(plain)
		}
		put("dec", k, H(payload), o)
	})
	if mut != nil {
		mut(root)
	}
	for pass := 0; pass < 2; pass++ {
		if err := (&visitors.Assemble{}).Run(root); err != nil {
			return
		}
		walkSections(root, func(s *uefi.Section) {
			if s.Header.Type != uefi.SectionTypeGUIDDefined || s.TypeSpecific == nil || len(s.Encapsulated) == 0 {
				return
			}
			gd, ok := s.TypeSpecific.Header.(*uefi.SectionGUIDDefined)
			if !ok || gd.Attributes&1 == 0 {
				return
			}
			k := kindOfGUID(gd.GUID)
			if k == 0 || int(gd.DataOffset) > len(s.Buf()) {
				return
			}
			put("enc", k, H(join4(s.Encapsulated)), H(s.Buf()[gd.DataOffset:]))
		})
	}
}

// ---------- generator ----------

func realEnc(kind int, plain []byte) ([]byte, error) {
	reset()
	g := uefigen.CodecGUID(kind)
	var gg guid.GUID
	copy(gg[:], g[:])
	return compression.CompressorFromGUID(&gg).Encode(plain)
}

func genText(r *Rng) []byte {
	n := r.Range(1, 12)
	var sb strings.Builder
	for i := 0; i < n; i++ {
		switch r.Intn(10) {
		case 0:
			sb.WriteRune(rune(0x100 + r.Intn(0x400)))
		case 1:
			sb.WriteRune(rune(0x3041 + r.Intn(80)))
		case 2:
			sb.WriteString([]string{"<", ">", "&", "\"", "\\", "/", " "}[r.Intn(7)]) // characters JSON escapes
		default:
			sb.WriteByte(byte('a' + r.Intn(26)))
		}
	}
	return []byte(sb.String())
}

func genDepexBytes(r *Rng) []byte {
	var b []byte
	n := r.Intn(5)
	for i := 0; i < n; i++ {
		op := byte(r.Pick(0, 1, 2, 3, 4, 5, 6, 7, 9))
		b = append(b, op)
		if op <= 2 {
			b = append(b, r.Bytes(16)...)
		}
	}
	return append(b, 8)
}

// nvarStoreFile builds a raw file carrying an NVAR store of the shared grammar (harness/nvargen): full
// entries, link chains, data-only entries without a link, entries with the valid bit cleared, broken
// extended headers, bare headers, optionally nested stores.
func nvarStoreFile(r *Rng) *uefigen.File {
	st := nvargen.Gen(r, 0xFF, r.Pick(0, 0, 1))
	f := &uefigen.File{Type: 1, State: 0xF8, Body: st.Bytes()}
	copy(f.GUID[:], uefi.NVAR[:])
	return f
}

// genNvarImage: a region whose volumes carry one or two NVAR store files next to ordinary files.
func genNvarImage(r *Rng) []byte {
	o := uefigen.Opts{MaxDepth: 0, Strings: true, Alignments: false}
	reg := uefigen.GenRegion(r, o)
	n := 0
	for _, e := range reg.Elems {
		if e.Vol != nil && (e.Vol.FSGUID == uefigen.FFS2 || e.Vol.FSGUID == uefigen.FFS3) && (n == 0 || r.Chance(1, 3)) {
			f := nvarStoreFile(r)
			k := r.Intn(len(e.Vol.Files) + 1)
			e.Vol.Files = append(e.Vol.Files[:k], append([]*uefigen.File{f}, e.Vol.Files[k:]...)...)
			n++
		}
	}
	if n == 0 {
		return nil
	}
	img, _ := uefigen.EmitRegion(reg)
	return img
}

// countSections parses img in the generator process and counts the nodes each edit kind applies to
// (flash images included).
func countSections(img []byte) (files, ui, version, depex int) {
	reset()
	root, err := uefi.Parse(append([]byte{}, img...))
	if err != nil {
		return
	}
	return len(treeCands(root, "guid")), len(treeCands(root, "ui")), len(treeCands(root, "version")), len(treeCands(root, "depex"))
}

// emitEdits emits up to maxEdits single-field edits of summary.json, on the fields the image has.
func emitEdits(rr *Rng, img []byte, maxEdits int, emit Emit) {
	emitEditsM(rr, img, maxEdits, emit, false)
}

// emitEditsM: with modelled set every edit also goes to the model (C op diredit), with the codec table
// entries of the edited content.
func emitEditsM(rr *Rng, img []byte, maxEdits int, emit Emit, modelled bool) {
	nf, nu, nv, nd := countSections(img)
	type ed struct {
		kind string
		n    int
		val  []byte
	}
	var eds []ed
	if nf > 0 {
		eds = append(eds, ed{"guid", nf, rr.Bytes(16)})
	}
	if nu > 0 {
		eds = append(eds, ed{"ui", nu, genText(rr)})
	}
	if nv > 0 {
		eds = append(eds, ed{"version", nv, genText(rr)})
	}
	if nd > 0 {
		eds = append(eds, ed{"depex", nd, genDepexBytes(rr)})
	}
	for k := 0; k < maxEdits && len(eds) > 0; k++ {
		i := rr.Intn(len(eds))
		e := eds[i]
		eds = append(eds[:i], eds[i+1:]...)
		ci := rr.Intn(e.n)
		emit("P", "p_edit", H(img), e.kind, N(uint64(ci)), H(e.val))
		if modelled && (k == 0 || (maxEdits > 2 && k == 1)) {
			// quick tier: the first edit of every image also goes to the model; thorough tier: the first two
			emitDirEdit(emit, img, e.kind, ci, e.val)
		}
	}
}

func emitDirEdit(emit Emit, img []byte, kind string, k int, val []byte) {
	emitTablesEdit(emit, img, func(root uefi.Firmware) { applyTreeEdit(root, kind, k, val, true) })
	emit("C", "diredit", H(img), kind, N(uint64(k)), H(val))
}

// longText / longDepex: values that make the edited section grow by 60..200 bytes, more than the slack a
// nested volume usually has, so that the volume must be resized (only nested volumes can be).
func longText(r *Rng) []byte {
	var sb strings.Builder
	for i, n := 0, r.Range(30, 90); i < n; i++ {
		if r.Chance(1, 8) {
			sb.WriteRune(rune(0x100 + r.Intn(0x400)))
		} else {
			sb.WriteByte(byte('a' + r.Intn(26)))
		}
	}
	return []byte(sb.String())
}

func longDepex(r *Rng) []byte {
	var b []byte
	for i, n := 0, r.Range(4, 9); i < n; i++ {
		b = append(b, byte(r.Pick(0, 1, 2)))
		b = append(b, r.Bytes(16)...)
		b = append(b, byte(r.Pick(3, 4, 5, 6, 7, 9)))
	}
	return append(b, 8)
}

// emitNestedEdits: edits that land inside nested volumes (plainly nested or below a compressed section)
// and make their section grow a lot; the generator finds the candidates on the parsed tree.
func emitNestedEdits(rr *Rng, img []byte, maxEdits int, emit Emit) int {
	reset()
	root, err := uefi.Parse(append([]byte{}, img...))
	if err != nil {
		return 0
	}
	type pick struct {
		kind string
		k    int
	}
	var ps []pick
	for _, kind := range []string{"ui", "version", "depex"} {
		for k, c := range treeCands(root, kind) {
			if c.where != "top" {
				ps = append(ps, pick{kind, k})
			}
		}
	}
	n := 0
	for ; n < maxEdits && len(ps) > 0; n++ {
		i := rr.Intn(len(ps))
		p := ps[i]
		ps = append(ps[:i], ps[i+1:]...)
		val := longText(rr)
		if p.kind == "depex" {
			val = longDepex(rr)
		}
		emit("P", "p_edit", H(img), p.kind, N(uint64(p.k)), H(val))
		if len(img) <= 12000 {
			emitDirEdit(emit, img, p.kind, p.k, val)
		}
	}
	return n
}

// nonASCIIMENames overwrites the names of the ME partition table entries of a generated flash image
// (if it has a table) with bytes that are not valid UTF-8: the table is part of summary.json.
func nonASCIIMENames(r *Rng, img []byte) {
	i := bytes.Index(img, []byte("$FPT"))
	if i < 0 || i+32 > len(img) {
		return
	}
	n := int(img[i+4]) | int(img[i+5])<<8
	for e := 0; e < n && e < 16; e++ {
		o := i + 32 + 32*e
		if o+4 > len(img) {
			return
		}
		copy(img[o:], [][]byte{{0xC3, 0x28, 0xFF, 0x80}, {0xE9, 'B', 0, 0}, {0x80, 0x81, 0xFE, 0xFF}, {'M', 0xB5, 'P', 0}}[r.Intn(4)])
	}
}

// genFlashImage builds an Intel flash image: descriptor block (signature at offset 16, descriptor map
// at 20, region section at 0x40, master section at 0x80), a BIOS region holding optional padding and
// one small FFS2 volume of the reference grammar, optionally GbE and PD raw regions, and 2-3 ranges
// that no region entry covers (before / between / after the regions), of different lengths and filled
// with distinct bytes.  fiano turns each uncovered range into a RawRegion of type Unknown.
func genFlashImage(r *Rng) []byte {
	const blk = 0x1000
	type reg struct {
		idx   int // index in the region section: 0 BIOS, 2 GbE, 3 PD
		data  []byte
		isGap bool
	}
	// BIOS region content
	o := uefigen.Opts{MaxDepth: r.Pick(0, 0, 1), Strings: true, Alignments: false}
	var bios []byte
	for tries := 0; ; tries++ {
		v := uefigen.GenVol(r.Fork(uint64(tries)), o, 0)
		vb, _ := uefigen.EmitVol(v)
		if len(vb) <= 2*blk-64 || tries > 20 {
			if r.Bool() {
				bios = append(bios, genPadFF(r, 8*r.Range(1, 6))...)
			}
			bios = append(bios, vb...)
			break
		}
	}
	for len(bios)%blk != 0 {
		bios = append(bios, 0xFF)
	}
	gap := func(k int) reg {
		n := blk * r.Range(1, 2)
		if k == 1 {
			n = blk * 3
		}
		d := make([]byte, n)
		fill := byte(0x11 * (k + 1))
		for i := range d {
			d[i] = fill ^ byte(i*7)
		}
		return reg{isGap: true, data: d}
	}
	raw := func(idx int) reg { return reg{idx: idx, data: r.Bytes(blk * r.Range(1, 2))} }
	regs := []reg{{idx: 0, data: bios}}
	if r.Bool() {
		regs = append(regs, raw(2))
	}
	if r.Chance(1, 3) {
		regs = append(regs, raw(3))
	}
	// shuffle the regions, then put gaps: always at least two
	for i := len(regs) - 1; i > 0; i-- {
		j := r.Intn(i + 1)
		regs[i], regs[j] = regs[j], regs[i]
	}
	var layout []reg
	ngap := 0
	for i, x := range regs {
		if r.Chance(2, 3) || (i == 0 && len(regs) == 1) {
			layout = append(layout, gap(ngap))
			ngap++
		}
		layout = append(layout, x)
	}
	for ngap < 2 || r.Chance(1, 3) && ngap < 3 {
		// a trailing gap; a second trailing gap would merge with the first, so only one
		if len(layout) > 0 && layout[len(layout)-1].isGap {
			break
		}
		layout = append(layout, gap(ngap))
		ngap++
	}
	if ngap < 2 {
		// the only free place left is the front
		layout = append([]reg{gap(ngap)}, layout...)
	}
	img := make([]byte, blk)
	for i := range img {
		img[i] = 0xFF
	}
	copy(img[16:], []byte{0x5a, 0xa5, 0xf0, 0x0f})
	// descriptor map: ComponentBase, chips, RegionBase=4 (0x40), NumberOfRegions=0 (all), MasterBase=8 (0x80), ...
	copy(img[20:], []byte{3, 0, 4, 0, 8, 1, 0x10, 0, 0x20, 0, 0, 0, 0, 0, 0, 0})
	for i := 0x40; i < 0x80; i++ {
		img[i] = 0
	}
	for i := 0; i < 15; i++ { // unused entries: base 0x7FFF, limit 0
		img[0x44+4*i], img[0x45+4*i] = 0xFF, 0x7F
	}
	for i := 0x80; i < 0x100; i++ {
		img[i] = byte(i)
	}
	off := 1
	for _, x := range layout {
		nb := len(x.data) / blk
		if !x.isGap {
			e := 0x44 + 4*x.idx
			img[e], img[e+1] = byte(off), byte(off>>8)
			img[e+2], img[e+3] = byte(off+nb-1), byte((off+nb-1)>>8)
		}
		img = append(img, x.data...)
		off += nb
	}
	return img
}

// opaqueVol builds a volume of a file system fiano knows by name but does not parse (FFS1, EVSA/NVAR
// NVRAM, Apple boot, PFH1/2: the entries of uefi.FVGUIDs other than FFS2/FFS3; GUID literals of
// uefigen) or of an unknown one, whose body after the header is NOT erased: arbitrary bytes.
func opaqueVol(r *Rng, blockSize uint32) []byte {
	v := &uefigen.Vol{Attrs: 0x4FEFF, Revision: byte(r.Pick(1, 2)), BlockSize: blockSize, FreeSpace: r.Pick(24, 64, 200, 500)}
	if r.Chance(5, 6) {
		v.FSGUID = uefigen.KnownUnparsedFS[r.Intn(len(uefigen.KnownUnparsedFS))]
		if r.Chance(1, 3) {
			v.FSGUID = uefigen.KnownUnparsedFS[0] // FFS1
		}
	} else {
		copy(v.FSGUID[:], r.Bytes(16))
	}
	if r.Chance(1, 4) {
		v.ExtHeader = true
		copy(v.ExtName[:], r.Bytes(16))
	}
	b, _ := uefigen.EmitVol(v)
	hdr := 72
	if v.ExtHeader {
		hdr = 96
	}
	for i := hdr; i < len(b); i++ {
		c := byte(1 + r.Intn(254)) // never 0xFF, never 0
		if c == '_' {
			c = '-'
		}
		b[i] = c
	}
	return b
}

// genOpaqueImage: a region with opaque volumes (see opaqueVol) at the top level and nested in an
// FV-image section, each followed by further content, so that a volume written short to the directory
// shows in the reassembled image.
func genOpaqueImage(r *Rng) []byte {
	o := uefigen.Opts{MaxDepth: 0, Strings: true, Alignments: false}
	var out []byte
	if r.Bool() {
		out = append(out, genPadFF(r, 8*r.Range(1, 4))...)
	}
	host := func() []byte {
		v := uefigen.GenVol(r, o, 0)
		v.FSGUID = uefigen.FFS2
		if len(v.Files) == 0 {
			v.Files = append(v.Files, uefigen.GenFile(r, o, 0))
		}
		// a sectioned file carrying a nested opaque volume, between other sections
		f := &uefigen.File{GUID: uefigen.GenGUID(r), Type: 11, Attr: 0x40, State: 0xF8}
		f.Secs = append(f.Secs, uefigen.GenSec(r, o, 0))
		f.Secs = append(f.Secs, &uefigen.Sec{Type: 0x17, Body: opaqueVol(r, uint32(r.Pick(8, 16)))})
		f.Secs = append(f.Secs, &uefigen.Sec{Type: 0x19, Body: r.Bytes(r.Range(1, 20))})
		k := r.Intn(len(v.Files) + 1)
		v.Files = append(v.Files[:k], append([]*uefigen.File{f}, v.Files[k:]...)...)
		b, _ := uefigen.EmitVol(v)
		return b
	}
	switch r.Intn(3) {
	case 0:
		out = append(out, opaqueVol(r, 64)...)
		out = append(out, host()...)
	case 1:
		out = append(out, host()...)
		out = append(out, opaqueVol(r, 64)...)
		tail := r.Bytes(8 * r.Range(1, 6))
		for i := range tail {
			if tail[i] == '_' || tail[i] == 0xFF {
				tail[i] = 0x11
			}
		}
		out = append(out, tail...)
	default:
		out = append(out, opaqueVol(r, 64)...)
		out = append(out, opaqueVol(r, 256)...)
		out = append(out, host()...)
	}
	return out
}

func genPadFF(r *Rng, n int) []byte {
	b := make([]byte, n)
	for i := range b {
		b[i] = 0xFF
	}
	return b
}

func hasFlashSig(b []byte) bool {
	sig := []byte{0x5a, 0xa5, 0xf0, 0x0f}
	return len(b) >= 20 && (bytes.Equal(b[16:20], sig) || bytes.Equal(b[0:4], sig))
}

func gen(r *Rng, tier string, emit Emit) {
	n := 120
	maxCorpus := 40
	if tier == "thorough" {
		n = 4000
		maxCorpus = 100000
	}
	repo := os.Getenv("VERIF_REPO_PATH")
	if repo == "" {
		repo = "/repo"
	}
	// the text form of GUIDs (every GUID of summary.json goes through String and Parse)
	ng := 60
	if tier == "thorough" {
		ng = 2000
	}
	for i := 0; i < ng; i++ {
		rr := r.Fork(uint64(1000000 + i))
		g := rr.Bytes(16)
		emit("C", "guidstr", H(g))
		var gg guid.GUID
		copy(gg[:], g)
		txt := []byte(gg.String())
		switch rr.Intn(6) {
		case 0:
			txt = bytes.ToLower(txt)
		case 1:
			txt = bytes.ReplaceAll(txt, []byte("-"), nil)
		case 2:
			txt[rr.Intn(len(txt))] = byte(rr.Pick('G', 'x', '-', ' ', '0', 'f'))
		case 3:
			txt = txt[:rr.Intn(len(txt))]
		case 4:
			txt = append(txt, byte(rr.Pick('0', 'A', '-')))
		}
		emit("C", "guidparse", H(txt))
	}
	// historical sample inputs (pkg/uefi/testdata/fuzz_in.txz) that fiano accepts: bare regions/volumes
	// and flash images with descriptor, ME and raw regions
	used := 0
	for _, b := range uefigen.HistoricalCorpus(repo, 1<<16) {
		if len(b) == 0 || !parses(b) {
			continue
		}
		if used++; used > maxCorpus {
			break
		}
		emit("P", "p_roundtrip", H(b), "x")
		emit("P", "p_paths", H(b))
		if len(b) <= 8193 {
			emitTables(emit, b)
			emit("C", "xpaths", H(b))
			emit("C", "dirsave", H(b))
		}
	}
	// opaque volumes of the file systems fiano names but does not parse, with non-erased bodies, at the
	// top level and nested, followed by further elements
	nop := 16
	if tier == "thorough" {
		nop = 400
	}
	for i := 0; i < nop; i++ {
		img := genOpaqueImage(r.Fork(uint64(5000000 + i)))
		if len(img) == 0 || len(img) > 60000 {
			continue
		}
		emit("P", "p_roundtrip", H(img), "id")
		emit("P", "p_paths", H(img))
		if len(img) <= 12000 {
			emitTables(emit, img)
			emit("C", "xpaths", H(img))
			emit("C", "dirsave", H(img))
		}
	}
	// Intel flash images with 2-3 ranges not covered by any region entry (implementation oracles only:
	// the flash level is not modelled)
	nflash := 12
	if tier == "thorough" {
		nflash = 300
	}
	for i := 0; i < nflash; i++ {
		img := genFlashImage(r.Fork(uint64(2000000 + i)))
		emit("P", "p_roundtrip", H(img), "id")
		emit("P", "p_paths", H(img))
		// model of the flash level (Model/ExtractFlash.v): path list and directory-route bytes
		emitTables(emit, img)
		emit("C", "xpaths", H(img))
		emit("C", "dirsave", H(img))
		if i%2 == 0 {
			emitEdits(r.Fork(uint64(2500000+i)), img, 1, emit)
		}
	}
	// the flash grammar of the C01 check (harness/flashops): signature at 0 or 16, a random descriptor map,
	// region and master sections at varying bases, NumberOfRegions zero or not, ME regions with and without
	// a partition table (entry names that are not valid UTF-8), raw regions in any of the slots 2..14
	for i := 0; i < nflash; i++ {
		rr := r.Fork(uint64(2600000 + i))
		img := flashops.GenImage(rr, rr.Pick(1, 1, 2))
		if img == nil {
			continue
		}
		if rr.Bool() {
			nonASCIIMENames(rr, img)
		}
		emit("P", "p_roundtrip", H(img), "id")
		emit("P", "p_paths", H(img))
		if len(img) <= 5*4096 {
			emitTables(emit, img)
			emit("C", "xpaths", H(img))
			emit("C", "dirsave", H(img))
		}
		if i%2 == 1 {
			emitEdits(rr, img, 1, emit)
		}
	}
	// NVAR stores (implementation oracles; the model of their directory is Model/ExtractNvar.v)
	nnv := 40
	if tier == "thorough" {
		nnv = 1500
	}
	for i := 0; i < nnv; i++ {
		// one volume, one store: the directory of the store against the model
		rr := r.Fork(uint64(4000000 + i))
		st := nvargen.Gen(rr, 0xFF, rr.Pick(0, 0, 1))
		sb := st.Bytes()
		nf := &uefigen.File{Type: 1, State: 0xF8, Body: sb}
		copy(nf.GUID[:], uefi.NVAR[:])
		v := &uefigen.Vol{FSGUID: uefigen.FFS2, Attrs: 0x4FEFF, Revision: 2, BlockSize: 64, Files: []*uefigen.File{nf}, FreeSpace: rr.Pick(0, 8, 100)}
		if rr.Bool() {
			v.Files = append([]*uefigen.File{uefigen.GenFile(rr, uefigen.Opts{Strings: true}, 0)}, v.Files...)
		}
		simg, _ := uefigen.EmitRegion(&uefigen.Region{Elems: []uefigen.Elem{{Vol: v}}})
		if len(simg) <= 12000 {
			emit("C", "nvdir", H(simg), H(sb))
		}
	}
	for i := 0; i < nnv; i++ {
		img := genNvarImage(r.Fork(uint64(3000000 + i)))
		if img == nil || len(img) > 60000 {
			continue
		}
		emit("P", "p_roundtrip", H(img), "x")
		emit("P", "p_paths", H(img))
	}
	for it := 0; it < n; it++ {
		rr := r.Fork(uint64(it))
		var img []byte
		canonical := "id"
		modelled := true
		lzma := false
		if it%8 == 7 {
			// compressed sections (LZMA, LZMA+x86, ZLIB) around leaves and nested volumes
			kinds := [][]int{{1}, {2}, {3}, {1, 2, 3}}[rr.Intn(4)]
			lzma = kinds[0] != 3
			o := uefigen.COpts{Depth: rr.Pick(0, 1, 1, 2), Kinds: kinds, Enc: realEnc, DataOff: rr.Chance(1, 3), PlainNest: true}
			reg, _, err := uefigen.GenCompRegion(rr.Fork(7), o)
			if err != nil {
				continue
			}
			img, _ = uefigen.EmitRegion(reg)
			canonical = "x"
		} else {
			o := uefigen.Opts{MaxDepth: rr.Pick(0, 0, 1, 2), Strings: true, Alignments: rr.Chance(1, 2), BigBodies: rr.Chance(1, 6)}
			reg := uefigen.GenRegion(rr, o)
			// duplicate GUIDs: copy a file's GUID onto others of the same and of other volumes
			var files []*uefigen.File
			var vols []*uefigen.Vol
			for _, e := range reg.Elems {
				if e.Vol != nil {
					files = append(files, e.Vol.Files...)
					if e.Vol.FSGUID == uefigen.FFS2 || e.Vol.FSGUID == uefigen.FFS3 {
						vols = append(vols, e.Vol)
					}
				}
			}
			if len(files) >= 2 && rr.Chance(1, 2) {
				g := files[rr.Intn(len(files))].GUID
				for _, f := range files {
					if rr.Chance(1, 2) {
						f.GUID = g
					}
				}
			}
			if len(vols) > 0 && rr.Chance(1, 6) {
				// an NVAR store (its entries are not modelled here: implementation oracles only)
				v := vols[rr.Intn(len(vols))]
				v.Files = append(v.Files, nvarStoreFile(rr))
				modelled = false
				canonical = "x"
			}
			img, _ = uefigen.EmitRegion(reg)
		}
		if len(img) == 0 || len(img) > 60000 {
			continue
		}
		emit("P", "p_roundtrip", H(img), canonical)
		if len(img) <= 12000 && modelled {
			emitTables(emit, img)
			emit("C", "xpaths", H(img))
			emit("C", "dirsave", H(img))
			emit("C", "saveproj", H(img))
		}
		maxEdits := 2
		if tier == "thorough" {
			maxEdits = 4
		} else if lzma {
			// quick tier: one edit on an image with LZMA sections, and every other of these also through
			// the model (the pure-Go LZMA encoder costs ~20 ms per section and an edit case encodes every
			// compressed section five times or more: 350 ms per case against 2 ms without LZMA); the
			// nested-edit stream below adds more edits below compressed sections, mostly ZLIB
			maxEdits = 1
		}
		emitEditsM(rr, img, maxEdits, emit, len(img) <= 12000 && modelled && (!lzma || tier == "thorough" || it%16 == 7))
	}
	// edits inside nested volumes that force the nested volume to grow (plain nesting and nesting below
	// compressed sections); the top-level volumes get room for it
	nnest := 16
	if tier == "thorough" {
		nnest = 300
	}
	for it, done := 0, 0; done < nnest && it < 6*nnest; it++ {
		rr := r.Fork(uint64(5000000 + it))
		var img []byte
		edits := 2
		if it%2 == 0 {
			// mostly ZLIB: the pure-Go LZMA encoder needs ~50 ms per section and every edit case encodes
			// each compressed section six times or more
			kinds := [][]int{{3}, {3}, {3}, {1}, {2}}[rr.Intn(5)]
			if kinds[0] != 3 {
				edits = 1
			}
			o := uefigen.COpts{Depth: rr.Pick(1, 1, 2), Kinds: kinds, Enc: realEnc, PlainNest: true}
			reg, _, err := uefigen.GenCompRegion(rr.Fork(7), o)
			if err != nil {
				continue
			}
			img, _ = uefigen.EmitRegion(reg)
		} else {
			reg := uefigen.GenRegion(rr, uefigen.Opts{MaxDepth: rr.Pick(1, 2), Strings: true, Alignments: rr.Chance(1, 2)})
			for _, e := range reg.Elems {
				if e.Vol != nil {
					e.Vol.FreeSpace += 600
				}
			}
			img, _ = uefigen.EmitRegion(reg)
		}
		if len(img) == 0 || len(img) > 60000 {
			continue
		}
		if emitNestedEdits(rr, img, edits, emit) > 0 {
			done++
		}
	}
}

func main() {
	uefiops.RegisterAll()
	Register("xpaths", opXPaths)
	Register("dirsave", opDirSave)
	Register("saveproj", opSaveProj)
	Register("nvdir", opNvDir)
	Register("guidstr", opGUIDStr)
	Register("guidparse", opGUIDParse)
	Register("p_roundtrip", pRoundTrip)
	Register("p_edit", pEdit)
	Register("diredit", opDirEdit)
	Register("p_paths", pPaths)
	if os.Getenv("C07_STATS") != "" && len(os.Args) > 1 && os.Args[1] == "gen" {
		h := hist{}
		Main(func(r *Rng, tier string, emit Emit) { gen(r, tier, statsEmit(emit, h)); h.dump() })
		return
	}
	Main(gen)
}
