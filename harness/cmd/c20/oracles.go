package main

// The property oracle of C20: every entry point the property names is run on the given
// bytes inside the watchdogged worker (wall-clock limit CaseTimeout, address-space ceiling
// MemLimit).  A panic is reported by the worker as "panic ...", a hang as "hang", an
// out-of-memory abort as "crash ...": all of them fail the oracle.  In addition the bytes
// allocated during the call are measured (runtime.MemStats.TotalAlloc): more than
// allocBase + allocFactor*len(input) is "allocating memory far beyond the size of the input".
// One op per entry point (p_total_<entry>) so that the entry is part of the failure text.

import (
	"bytes"
	"crypto/sha256"
	"encoding/binary"
	"encoding/json"
	"fmt"
	"io"
	"reflect"
	"runtime"
	"sort"

	"github.com/linuxboot/fiano/pkg/amd/apcb"
	"github.com/linuxboot/fiano/pkg/amd/manifest"
	"github.com/linuxboot/fiano/pkg/amd/psb"
	"github.com/linuxboot/fiano/pkg/cbfs"
	"github.com/linuxboot/fiano/pkg/compression"
	"github.com/linuxboot/fiano/pkg/fmap"
	"github.com/linuxboot/fiano/pkg/fsp"
	"github.com/linuxboot/fiano/pkg/intel/me"
	"github.com/linuxboot/fiano/pkg/intel/metadata/bg/bgbootpolicy"
	"github.com/linuxboot/fiano/pkg/intel/metadata/bg/bgkey"
	"github.com/linuxboot/fiano/pkg/intel/metadata/cbnt/cbntbootpolicy"
	"github.com/linuxboot/fiano/pkg/intel/metadata/cbnt/cbntkey"
	"github.com/linuxboot/fiano/pkg/intel/metadata/fit"
	"github.com/linuxboot/fiano/pkg/intel/microcode"
	. "verifharness/common"
)

const (
	allocBase   = 64 << 20
	allocFactor = 64
)

type entryFn func(b []byte)

var entries = map[string]entryFn{}

// The LZMA reader of github.com/ulikunitz/xz allocates the dictionary the 13-byte stream header
// announces (bytes 1..4) before it decodes anything, and fiano passes the stream to it
// unexamined.  A header announcing a large dictionary kills the worker under the memory ceiling
// (from about 400 MiB on, depending on what the heap still holds); inputs announcing 256 MiB or
// more are recognised here and reported with their own tag without being executed (the abort was
// confirmed by running them, see props/C20.json), so that any OTHER crash of the decoders stays
// visible.  Smaller dictionaries are executed and tagged by the allocation meter.
func lzmaDictBeyondCeiling(name string, b []byte) (uint32, bool) {
	if (name == "lzma" || name == "lzmax86") && len(b) >= 13 {
		d := binary.LittleEndian.Uint32(b[1:5])
		return d, d >= 256<<20
	}
	return 0, false
}

func totalOp(name string, f entryFn) Op {
	return func(args []string) string {
		b := decodeInput(args[0])
		if d, big := lzmaDictBeyondCeiling(name, b); big {
			return fmt.Sprintf("FAIL third-party-lzma-dict-alloc header announces a dictionary of %d bytes, input=%d", d, len(b))
		}
		var m0, m1 runtime.MemStats
		runtime.ReadMemStats(&m0)
		f(b)
		runtime.ReadMemStats(&m1)
		alloc := m1.TotalAlloc - m0.TotalAlloc
		if alloc > allocBase+allocFactor*uint64(len(b)) {
			if d, _ := lzmaDictBeyondCeiling(name, b); d >= 32<<20 {
				return fmt.Sprintf("FAIL third-party-lzma-dict-alloc header announces a dictionary of %d bytes, allocated=%d input=%d", d, alloc, len(b))
			}
			return fmt.Sprintf("FAIL alloc-beyond-input allocated=%d input=%d", alloc, len(b))
		}
		return "ok"
	}
}

// p_total_manifest <structure> <bytes>: ReadFrom of any of the 33 generated structures
func opTotalManifest(args []string) string {
	t := typeOf(args[0])
	if t == nil {
		return "harness-error unknown-structure"
	}
	return totalOp(args[0], func(b []byte) {
		p := reflect.New(t)
		_, _ = p.Interface().(codec).ReadFrom(bytes.NewReader(b))
	})(args[1:])
}

func registerEntries() {
	Register("p_total_manifest", opTotalManifest)
	names := make([]string, 0, len(entries))
	for n := range entries {
		names = append(names, n)
	}
	sort.Strings(names)
	for _, n := range names {
		Register("p_total_"+n, totalOp(n, entries[n]))
	}
}

// ---------- flash map ----------

func eFmap(b []byte) {
	m, md, err := fmap.Read(bytes.NewReader(b))
	if err != nil {
		return
	}
	rd := bytes.NewReader(b)
	for i := -1; i <= len(m.Areas) && i < 40; i++ {
		_, _ = m.ReadArea(rd, i)
		f := &memFile{b: append([]byte{}, b...)}
		_ = m.WriteArea(f, i, []byte{1, 2, 3})
	}
	for _, a := range m.Areas {
		_, _ = m.ReadAreaByName(rd, a.Name.String())
		_ = m.IndexOfArea(a.Name.String())
	}
	_, _ = m.Checksum(rd, sha256.New())
	f := &memFile{b: append([]byte{}, b...)}
	_ = fmap.Write(f, m, md)
	_, _ = json.Marshal(m)
}

// ---------- CBFS ----------

func eCbfs(b []byte) {
	i, err := cbfs.NewImage(bytes.NewReader(b))
	if err != nil {
		return
	}
	_ = i.String()
	_, _ = i.MarshalJSON()
	for _, s := range i.Segs {
		f := s.GetFile()
		_, _ = f.Decompress()
		_ = f.Compression()
		_, _ = f.FindAttribute(cbfs.Compressed)
	}
}

// ---------- FIT ----------

func fitEntriesData(es fit.Entries) {
	for _, e := range es {
		switch x := e.(type) {
		case *fit.EntrySACM:
			_, _ = x.ParseData()
		case *fit.EntryKeyManifestRecord:
			_, _, _ = x.ParseData()
		case *fit.EntryBootPolicyManifestRecord:
			_, _, _ = x.ParseData()
		case *fit.EntryTXTPolicyRecord:
			_, _ = x.Parse()
		}
		_ = e.GetEntryBase().GoString()
	}
}

func eFitTable(b []byte) {
	_, _ = fit.GetTable(b)
	_, _ = fit.GetTableFrom(bytes.NewReader(b))
	_, _, _ = fit.GetHeadersTableRangeFrom(bytes.NewReader(b))
	t, err := fit.ParseTable(b)
	if err == nil {
		_ = t.String()
	}
}

func eFitEntries(b []byte) {
	es, err := fit.GetEntries(b)
	if err == nil {
		fitEntriesData(es)
	}
	// the same through a reader that is not the in-memory ReadWriteSeeker (copy path)
	es, err = fit.GetEntriesFrom(bytes.NewReader(b))
	if err == nil {
		fitEntriesData(es)
	}
	if t, err := fit.GetTable(b); err == nil {
		_, _, _ = t.ParseKeyManifest(b)
		_, _, _ = t.ParseBootPolicyManifest(b)
	}
}

func eFitSACM(b []byte) {
	_, _ = fit.ParseSACMData(bytes.NewReader(b))
	_, _ = fit.EntrySACMParseSize(b)
	var d fit.EntrySACMData
	_, _ = d.Read(b)
	var c fit.EntrySACMDataCommon
	_, _ = c.Read(b)
}

// FIT inject on a hostile container: the entries read from the image (when it has a table)
// and one fresh entry are injected back at every boundary offset.
func eFitInject(b []byte) {
	var es fit.Entries
	if got, err := fit.GetEntries(b); err == nil {
		es = got
	}
	es = append(es, &fit.EntryBIOSStartupModuleEntry{EntryBase: fit.EntryBase{DataSegmentBytes: []byte{1, 2, 3, 4, 5, 6, 7, 8, 9, 10, 11, 12, 13, 14, 15, 16}}})
	for _, off := range []uint64{0, 1, uint64(len(b)) / 2, uint64(len(b)) - 16, uint64(len(b)) - 1, uint64(len(b)), uint64(len(b)) + 1, 1 << 31, 1 << 32, 1<<63 - 1, 1 << 63, ^uint64(0)} {
		img := append([]byte{}, b...)
		_ = es.Inject(img, off)
	}
	_ = fit.CalculatePhysAddrFromOffset(uint64(len(b)), uint64(len(b)))
	_ = fit.CalculateOffsetFromPhysAddr(^uint64(0), uint64(len(b)))
	_ = fit.CalculateTailOffsetFromPhysAddr(uint64(len(b)))
}

// ---------- Boot Guard / CBnT manifests ----------

func eBgKM(b []byte)   { m := bgkey.NewManifest(); _, _ = m.ReadFrom(bytes.NewReader(b)) }
func eBgBPM(b []byte)  { m := bgbootpolicy.NewManifest(); _, _ = m.ReadFrom(bytes.NewReader(b)) }
func eCbntKM(b []byte) { m := cbntkey.NewManifest(); _, _ = m.ReadFrom(bytes.NewReader(b)) }
func eCbntBPM(b []byte) {
	m := cbntbootpolicy.NewManifest()
	_, _ = m.ReadFrom(bytes.NewReader(b))
}

// the per-entry data parsers of FIT reach the manifests through DetectBGV
func eFitKM(b []byte) {
	e := &fit.EntryKeyManifestRecord{EntryBase: fit.EntryBase{DataSegmentBytes: b}}
	_, _, _ = e.ParseData()
}
func eFitBPM(b []byte) {
	e := &fit.EntryBootPolicyManifestRecord{EntryBase: fit.EntryBase{DataSegmentBytes: b}}
	_, _, _ = e.ParseData()
}

// ---------- AMD ----------

func eAmdFirmware(b []byte) {
	fw, err := psb.ParseAMDFirmware(b)
	if err != nil {
		return
	}
	_ = psb.OutputPSPEntries(fw)
	_ = psb.OutputBIOSEntries(fw)
	_, _ = psb.IsPSBEnabled(fw)
	for level := uint(0); level <= 3; level++ {
		ks, _ := psb.GetKeys(fw, level)
		_, _ = psb.ValidateRTM(fw, level)
		_, _ = psb.GetPSBSignBIOSKey(fw, level)
		if dir, err := psb.GetPSPDirectoryOfLevel(level); err == nil {
			_, _ = psb.ValidatePSPEntries(fw, ks, dir, []uint32{0x01, 0x08, 0x50, 0x0a, 0x77})
		}
		if dir, err := psb.GetBIOSDirectoryOfLevel(level); err == nil {
			_, _ = psb.ValidatePSPEntries(fw, ks, dir, []uint32{0x62, 0x05, 0x07})
		}
		for _, id := range []manifest.PSPDirectoryTableEntryType{0x00, 0x01, 0x08, 0x0a, 0x40, 0x50, 0x77} {
			_, _ = psb.GetPSPEntries(fw.PSPFirmware(), level, id)
			d, err := psb.ExtractPSPEntry(fw, level, id)
			_, _ = psb.DumpPSPEntry(fw, level, id, io.Discard)
			if err == nil {
				_, _ = psb.PatchPSPEntry(fw, level, id, bytes.NewReader(d), io.Discard)
				_, _ = psb.PatchPSPEntry(fw, level, id, bytes.NewReader(append(d, 0)), io.Discard)
			}
		}
		for _, id := range []manifest.BIOSDirectoryTableEntryType{0x05, 0x07, 0x62, 0x70, 0x61} {
			for inst := uint8(0); inst < 2; inst++ {
				_, _ = psb.GetBIOSEntry(fw.PSPFirmware(), level, id, inst)
				d, err := psb.ExtractBIOSEntry(fw, level, id, inst)
				_, _ = psb.DumpBIOSEntry(fw, level, id, inst, io.Discard)
				if err == nil {
					_, _ = psb.PatchBIOSEntry(fw, level, id, inst, bytes.NewReader(d), io.Discard)
				}
			}
		}
	}
	for _, off := range []uint64{0, 1, uint64(len(b)) / 2, uint64(len(b)) - 1, uint64(len(b)), ^uint64(0)} {
		for _, l := range []uint64{0, 1, 256, 257, uint64(len(b)), ^uint64(0), ^uint64(0) - off + 1} {
			_, _ = psb.ValidatePSPEntry(fw, psb.NewKeySet(), off, l)
			_, _ = psb.GetRangeBytes(b, off, l)
		}
	}
}

func eAmdTables(b []byte) {
	if t, _, err := manifest.ParsePSPDirectoryTable(b); err == nil {
		_ = t.String()
	}
	if t, _, err := manifest.ParseBIOSDirectoryTable(b); err == nil {
		_ = t.String()
	}
	_, _, _ = manifest.FindPSPDirectoryTable(b)
	_, _, _ = manifest.FindBIOSDirectoryTable(b)
	_, _, _ = manifest.ParsePSPDirectoryTableEntry(bytes.NewReader(b))
	_, _, _ = manifest.ParseBIOSDirectoryTableEntry(bytes.NewReader(b))
	_, _, _ = manifest.ParseEmbeddedFirmwareStructure(bytes.NewReader(b))
	_, _ = manifest.ParsePSPHeader(bytes.NewReader(b))
	if len(b) >= 8 {
		_ = manifest.CalculatePSPDirectoryCheckSum(b)
		_ = manifest.CalculateBiosDirectoryCheckSum(b)
	}
	// discovery through a Firmware whose address map puts the image just below `base`
	_, _, _ = manifest.FindEmbeddedFirmwareStructure(manifest.FirmwareImage(b))
}

// a key set holding one root key whose id is sixteen 0x11 bytes (the seeds certify with it)
func testKeySet() psb.KeySet {
	ks := psb.NewKeySet()
	if k, err := psb.NewRootKey(bytes.NewBuffer(rootKeySeedBytes())); err == nil {
		_ = ks.AddKey(k, psb.AMDRootKey)
	}
	return ks
}

func ePsbKeys(b []byte) {
	if k, err := psb.NewRootKey(bytes.NewBuffer(b)); err == nil {
		_ = k.String()
		_, _ = k.Get()
		_, _ = psb.GetPlatformBindingInfo(k)
		_, _ = psb.GetSecurityFeatureVector(k)
	}
	if k, err := psb.NewTokenKey(bytes.NewBuffer(b), testKeySet()); err == nil {
		_ = k.String()
	}
	_, _ = psb.NewTokenKey(bytes.NewBuffer(b), psb.NewKeySet())
}

// the loop of parseKeyDatabase over the exported entry parser
func ePsbKeyDB(b []byte) {
	buf := bytes.NewBuffer(b)
	buf.Next(80) // keyDBHeader
	for n := 0; buf.Len() > 0 && n < 4096; n++ {
		k, err := psb.NewKeyFromDatabase(buf)
		if err != nil {
			break
		}
		_ = k.String()
	}
	_, _ = psb.NewKeyFromDatabase(bytes.NewBuffer(b))
}

// a PSP binary validated at offset 0 of an image that is just the binary
func ePsbBinary(b []byte) {
	fw, err := manifest.NewAMDFirmware(looseFw{b})
	if err != nil || fw == nil {
		return
	}
	ks := testKeySet()
	_, _ = psb.ValidatePSPEntry(fw, ks, 0, uint64(len(b)))
	_, _ = psb.ValidatePSPEntry(fw, ks, 0, uint64(len(b))+1)
	_, _ = psb.ValidatePSPEntry(fw, psb.NewKeySet(), 0, uint64(len(b)))
}

// ---------- APCB ----------

func eApcbParse(b []byte) {
	ts, err := apcb.ParseAPCBBinaryTokens(b)
	if err == nil {
		for _, t := range ts {
			_ = t.NumValue()
			_ = apcb.GetTokenIDString(t.ID)
		}
	}
}

func eApcbUpsert(b []byte) {
	ids := []apcb.TokenID{0, 1, 0xFFFFFFFF, apcb.TokenIDPSPMeasureConfig, apcb.TokenIDPSPEnableDebugMode, apcb.TokenIDPSPErrorDisplay, apcb.TokenIDPSPStopOnError}
	if ts, err := apcb.ParseAPCBBinaryTokens(b); err == nil {
		for i, t := range ts {
			if i < 6 {
				ids = append(ids, t.ID)
			}
		}
	}
	vals := []interface{}{true, false, uint8(0xA5), uint16(0xBEEF), uint32(0xDEADBEEF), "not a value"}
	for i, id := range ids {
		for j, v := range vals {
			if (i+j)%2 == 1 && i > 3 {
				continue
			}
			img := append([]byte{}, b...)
			_ = apcb.UpsertToken(id, apcb.PriorityMask(0xff), 0xffff, v, img)
			img = append([]byte{}, b...)
			_ = apcb.UpsertToken(id, apcb.CreatePriorityMask(apcb.PriorityLevelDefault), 1, v, img)
		}
	}
}

// ---------- microcode, ME, FSP ----------

func eMicrocode(b []byte) {
	if m, err := microcode.ParseIntelMicrocode(bytes.NewReader(b)); err == nil {
		_ = m.String()
	}
}

func eME(b []byte) { _, _ = me.ParseIntelME(bytes.NewReader(b)) }

func eFSP(b []byte) {
	if h, err := fsp.NewInfoHeader(b); err == nil {
		_ = h.Summary()
	}
}

// ---------- decompression ----------

func eLZMA(b []byte)    { _, _ = (&compression.LZMA{}).Decode(b) }
func eLZMAX86(b []byte) { _, _ = compression.CompressorFromGUID(&compression.LZMAX86GUID).Decode(b) }
func eLZ4(b []byte)     { _, _ = (&compression.LZ4{}).Decode(b) }
func eZLIB(b []byte)    { _, _ = (&compression.ZLIB{}).Decode(b) }
func eBrotli(b []byte) {
	c := compression.CompressorFromGUID(&compression.BROTLIGUID)
	if c != nil {
		_, _ = c.Decode(b)
	}
}

func init() {
	entries["fmap"] = eFmap
	entries["cbfs"] = eCbfs
	entries["fit_table"] = eFitTable
	entries["fit_entries"] = eFitEntries
	entries["fit_sacm"] = eFitSACM
	entries["fit_inject"] = eFitInject
	entries["fit_km"] = eFitKM
	entries["fit_bpm"] = eFitBPM
	entries["bg_km"] = eBgKM
	entries["bg_bpm"] = eBgBPM
	entries["cbnt_km"] = eCbntKM
	entries["cbnt_bpm"] = eCbntBPM
	entries["amd_firmware"] = eAmdFirmware
	entries["amd_tables"] = eAmdTables
	entries["psb_keys"] = ePsbKeys
	entries["psb_keydb"] = ePsbKeyDB
	entries["psb_binary"] = ePsbBinary
	entries["apcb_parse"] = eApcbParse
	entries["apcb_upsert"] = eApcbUpsert
	entries["microcode"] = eMicrocode
	entries["me"] = eME
	entries["fsp"] = eFSP
	entries["lzma"] = eLZMA
	entries["lzmax86"] = eLZMAX86
	entries["lz4"] = eLZ4
	entries["zlib"] = eZLIB
	entries["brotli"] = eBrotli
}
