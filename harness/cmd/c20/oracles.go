package main

// The property oracle of C20: every entry point the property names is run on the given
// bytes inside the watchdogged worker (wall-clock limit CaseTimeout, address-space ceiling
// MemLimit).  A panic is reported by the worker as "panic ...", a hang as "hang", an
// out-of-memory abort as "crash ...": all of them fail the oracle.  In addition the bytes
// allocated during the call are measured (runtime.MemStats.TotalAlloc): more than
// allocBase(entry) + allocFactor*len(input) is "allocating memory far beyond the size of the input".
// One op per entry point (p_total_<entry>) so that the entry is part of the failure text.

import (
	"bytes"
	"crypto/sha256"
	"encoding/binary"
	"encoding/json"
	"errors"
	"fmt"
	"io"
	"reflect"
	"runtime"
	"sort"

	"github.com/linuxboot/fiano/pkg/amd/apcb"
	"github.com/linuxboot/fiano/pkg/amd/manifest"
	"github.com/linuxboot/fiano/pkg/amd/psb"
	"github.com/linuxboot/fiano/pkg/cbfs"
	"github.com/linuxboot/fiano/pkg/compression"
	"github.com/linuxboot/fiano/pkg/fmap"
	"github.com/linuxboot/fiano/pkg/fsp"
	"github.com/linuxboot/fiano/pkg/intel/me"
	"github.com/linuxboot/fiano/pkg/intel/metadata/bg/bgbootpolicy"
	"github.com/linuxboot/fiano/pkg/intel/metadata/bg/bgkey"
	"github.com/linuxboot/fiano/pkg/intel/metadata/cbnt"
	"github.com/linuxboot/fiano/pkg/intel/metadata/cbnt/cbntbootpolicy"
	"github.com/linuxboot/fiano/pkg/intel/metadata/cbnt/cbntkey"
	"github.com/linuxboot/fiano/pkg/intel/metadata/fit"
	"github.com/linuxboot/fiano/pkg/intel/microcode"
	. "verifharness/common"
)

// Allocation limit per call: allocBase(entry) + allocFactor * len(input).  The decompressors (and
// CBFS, whose Decompress calls them) have a legitimate working set that does not depend on the
// input: the LZMA dictionary fiano's own encoder announces (8 MiB), the 4 MiB block buffers of
// LZ4; they keep the generous 64 MiB.  The other entry points are plain parsers: what they
// legitimately hold is copies of (parts of) the input, covered by the factor, and small fixed
// tables (the largest measured: 2.8 MB, a manifest list allocated by a 16-bit count); 16 MiB is
// more than five times that, so that a 32 MiB allocation for a 32-byte input (2^20 table entries
// announced by a count field that was only checked against a generous upper limit) is reported.
const (
	allocBaseDecoder = 64 << 20
	allocBaseParser  = 16 << 20
	allocFactor      = 64
)

func allocBase(entry string) uint64 {
	switch entry {
	case "lzma", "lzmax86", "lz4", "zlib", "brotli", "cbfs":
		return allocBaseDecoder
	}
	return allocBaseParser
}

type entryFn func(b []byte)

var entries = map[string]entryFn{}

// The LZMA reader of github.com/ulikunitz/xz allocates the dictionary the 13-byte stream header
// announces (bytes 1..4) before it decodes anything, and fiano passes the stream to it
// unexamined.  A header announcing a large dictionary kills the worker under the memory ceiling
// (from about 400 MiB on, depending on what the heap still holds); inputs announcing 256 MiB or
// more are recognised here and reported with their own tag without being executed (the abort was
// confirmed by running them, see props/C20.json), so that any OTHER crash of the decoders stays
// visible.  Smaller dictionaries are executed and tagged by the allocation meter.
func lzmaDictBeyondCeiling(name string, b []byte) (uint32, bool) {
	if (name == "lzma" || name == "lzmax86") && len(b) >= 13 {
		d := binary.LittleEndian.Uint32(b[1:5])
		return d, d >= 256<<20
	}
	return 0, false
}

// lzmaOwnDict: the largest dictionary fiano's own LZMA.Encode announces (level 7: 8 MiB); a stream
// announcing more than that is the hostile case of the known third-party finding
const lzmaOwnDict = 8 << 20

func totalOp(name string, f entryFn) Op {
	return func(args []string) string {
		b := decodeInput(args[0])
		if d, big := lzmaDictBeyondCeiling(name, b); big {
			return fmt.Sprintf("FAIL third-party-lzma-dict-alloc header announces a dictionary of %d bytes, input=%d", d, len(b))
		}
		var m0, m1 runtime.MemStats
		runtime.ReadMemStats(&m0)
		f(b)
		runtime.ReadMemStats(&m1)
		alloc := m1.TotalAlloc - m0.TotalAlloc
		if alloc > allocBase(name)+allocFactor*uint64(len(b)) {
			if d, _ := lzmaDictBeyondCeiling(name, b); d >= 32<<20 {
				return fmt.Sprintf("FAIL third-party-lzma-dict-alloc header announces a dictionary of %d bytes, allocated=%d input=%d", d, alloc, len(b))
			}
			return fmt.Sprintf("FAIL alloc-beyond-input allocated=%d input=%d", alloc, len(b))
		}
		return "ok"
	}
}

// p_total_manifest <structure> <bytes>: ReadFrom of any of the 33 generated structures
func opTotalManifest(args []string) string {
	t := typeOf(args[0])
	if t == nil {
		return "harness-error unknown-structure"
	}
	return totalOp(args[0], func(b []byte) {
		p := reflect.New(t)
		_, _ = p.Interface().(codec).ReadFrom(bytes.NewReader(b))
	})(args[1:])
}

func registerEntries() {
	Register("p_total_manifest", opTotalManifest)
	Register("p_seed_ok", opSeedOK)
	names := make([]string, 0, len(entries))
	for n := range entries {
		names = append(names, n)
	}
	sort.Strings(names)
	for _, n := range names {
		Register("p_total_"+n, totalOp(n, entries[n]))
	}
}

// ---------- flash map ----------

func eFmap(b []byte) {
	m, md, err := fmap.Read(bytes.NewReader(b))
	if err != nil {
		return
	}
	rd := bytes.NewReader(b)
	for i := -1; i <= len(m.Areas) && i < 40; i++ {
		_, _ = m.ReadArea(rd, i)
		f := &memFile{b: append([]byte{}, b...)}
		_ = m.WriteArea(f, i, []byte{1, 2, 3})
	}
	for _, a := range m.Areas {
		_, _ = m.ReadAreaByName(rd, a.Name.String())
		_ = m.IndexOfArea(a.Name.String())
	}
	_, _ = m.Checksum(rd, sha256.New())
	f := &memFile{b: append([]byte{}, b...)}
	_ = fmap.Write(f, m, md)
	_, _ = json.Marshal(m)
}

// ---------- CBFS ----------

func eCbfs(b []byte) {
	i, err := cbfs.NewImage(bytes.NewReader(b))
	if err != nil {
		return
	}
	_ = i.String()
	_, _ = i.MarshalJSON()
	for _, s := range i.Segs {
		f := s.GetFile()
		c := f.Compression()
		_, _ = f.FindAttribute(cbfs.Compressed)
		_, _ = f.FindAttribute(cbfs.Tag(0x68736148))
		_, _ = f.MarshalJSON()
		// Decompress of an LZMA file hands FData to the third-party LZMA reader: a stream header
		// announcing more than fiano's own encoder ever does is the known dictionary-allocation
		// finding (reported through p_total_lzma) and is not executed here
		if c == cbfs.LZMA && len(f.FData) >= 13 && binary.LittleEndian.Uint32(f.FData[1:5]) > lzmaOwnDict {
			continue
		}
		_, _ = f.Decompress()
	}
}

// ---------- FIT ----------

func fitEntriesData(es fit.Entries) {
	for _, e := range es {
		switch x := e.(type) {
		case *fit.EntrySACM:
			_, _ = x.ParseData()
		case *fit.EntryKeyManifestRecord:
			_, _, _ = x.ParseData()
		case *fit.EntryBootPolicyManifestRecord:
			_, _, _ = x.ParseData()
		case *fit.EntryTXTPolicyRecord:
			_, _ = x.Parse()
		}
		_ = e.GetEntryBase().GoString()
	}
}

func eFitTable(b []byte) {
	_, _ = fit.GetTable(b)
	_, _ = fit.GetTableFrom(bytes.NewReader(b))
	_, _, _ = fit.GetHeadersTableRangeFrom(bytes.NewReader(b))
	t, err := fit.ParseTable(b)
	if err == nil {
		_ = t.String()
	}
}

func eFitEntries(b []byte) {
	es, err := fit.GetEntries(b)
	if err == nil {
		fitEntriesData(es)
	}
	// the same through a reader that is not the in-memory ReadWriteSeeker (copy path)
	es, err = fit.GetEntriesFrom(bytes.NewReader(b))
	if err == nil {
		fitEntriesData(es)
	}
	if t, err := fit.GetTable(b); err == nil {
		_, _, _ = t.ParseKeyManifest(b)
		_, _, _ = t.ParseBootPolicyManifest(b)
	}
}

func eFitSACM(b []byte) {
	_, _ = fit.ParseSACMData(bytes.NewReader(b))
	_, _ = fit.EntrySACMParseSize(b)
	var d fit.EntrySACMData
	_, _ = d.Read(b)
	var c fit.EntrySACMDataCommon
	_, _ = c.Read(b)
}

// FIT inject on a hostile container: the entries read from the image (when it has a table)
// and one fresh entry are injected back at every boundary offset.
func eFitInject(b []byte) {
	var es fit.Entries
	if got, err := fit.GetEntries(b); err == nil {
		es = got
	}
	es = append(es, &fit.EntryBIOSStartupModuleEntry{EntryBase: fit.EntryBase{DataSegmentBytes: []byte{1, 2, 3, 4, 5, 6, 7, 8, 9, 10, 11, 12, 13, 14, 15, 16}}})
	for _, off := range []uint64{0, 1, uint64(len(b)) / 2, uint64(len(b)) - 16, uint64(len(b)) - 1, uint64(len(b)), uint64(len(b)) + 1, 1 << 31, 1 << 32, 1<<63 - 1, 1 << 63, ^uint64(0)} {
		img := append([]byte{}, b...)
		_ = es.Inject(img, off)
	}
	// the way cmds/fittool writes a table: recalculate the headers of the list, then inject
	if err := recalc(es); err == nil {
		img := append([]byte{}, b...)
		_ = es.Inject(img, uint64(len(b))/2)
	}
	_ = fit.CalculatePhysAddrFromOffset(uint64(len(b)), uint64(len(b)))
	_ = fit.CalculateOffsetFromPhysAddr(^uint64(0), uint64(len(b)))
	_ = fit.CalculateTailOffsetFromPhysAddr(uint64(len(b)))
}

// RecalculateHeaders panics by design on a list whose data segments are 256 MiB or longer
// (Uint24.SetUint32): such lists are not built here
func recalc(es fit.Entries) error {
	for _, e := range es {
		if len(e.GetEntryBase().DataSegmentBytes) >= 1<<24 {
			return fmt.Errorf("data segment too long for the harness")
		}
	}
	return es.RecalculateHeaders()
}

// ---------- Boot Guard / CBnT manifests ----------

func eBgKM(b []byte)   { m := bgkey.NewManifest(); _, _ = m.ReadFrom(bytes.NewReader(b)) }
func eBgBPM(b []byte)  { m := bgbootpolicy.NewManifest(); _, _ = m.ReadFrom(bytes.NewReader(b)) }
func eCbntKM(b []byte) { m := cbntkey.NewManifest(); _, _ = m.ReadFrom(bytes.NewReader(b)) }
func eCbntBPM(b []byte) {
	m := cbntbootpolicy.NewManifest()
	_, _ = m.ReadFrom(bytes.NewReader(b))
}

// the one hand-written (not generated) reader of pkg/intel/metadata/cbnt
func eCbntACMInfo(b []byte) { _, _, _ = cbnt.ParseChipsetACModuleInformation(bytes.NewReader(b)) }

// the per-entry data parsers of FIT reach the manifests through DetectBGV
func eFitKM(b []byte) {
	e := &fit.EntryKeyManifestRecord{EntryBase: fit.EntryBase{DataSegmentBytes: b}}
	_, _, _ = e.ParseData()
}
func eFitBPM(b []byte) {
	e := &fit.EntryBootPolicyManifestRecord{EntryBase: fit.EntryBase{DataSegmentBytes: b}}
	_, _, _ = e.ParseData()
}

// ---------- AMD ----------

func eAmdFirmware(b []byte) {
	fw, err := psb.ParseAMDFirmware(b)
	if err != nil {
		return
	}
	_ = psb.OutputPSPEntries(fw)
	_ = psb.OutputBIOSEntries(fw)
	_, _ = psb.IsPSBEnabled(fw)
	for level := uint(0); level <= 3; level++ {
		ks, _ := psb.GetKeys(fw, level)
		_, _ = psb.ValidateRTM(fw, level)
		_, _ = psb.GetPSBSignBIOSKey(fw, level)
		if dir, err := psb.GetPSPDirectoryOfLevel(level); err == nil {
			_, _ = psb.ValidatePSPEntries(fw, ks, dir, []uint32{0x01, 0x08, 0x50, 0x0a, 0x77})
		}
		if dir, err := psb.GetBIOSDirectoryOfLevel(level); err == nil {
			_, _ = psb.ValidatePSPEntries(fw, ks, dir, []uint32{0x62, 0x05, 0x07})
		}
		for _, id := range []manifest.PSPDirectoryTableEntryType{0x00, 0x01, 0x08, 0x0a, 0x40, 0x50, 0x77} {
			_, _ = psb.GetPSPEntries(fw.PSPFirmware(), level, id)
			d, err := psb.ExtractPSPEntry(fw, level, id)
			_, _ = psb.DumpPSPEntry(fw, level, id, io.Discard)
			if err == nil {
				_, _ = psb.PatchPSPEntry(fw, level, id, bytes.NewReader(d), io.Discard)
				_, _ = psb.PatchPSPEntry(fw, level, id, bytes.NewReader(append(d, 0)), io.Discard)
			} else if e, err := psb.GetPSPEntry(fw.PSPFirmware(), level, id); err == nil {
				// an entry that cannot be extracted (hostile location / size) is patched all the
				// same, with a replacement of exactly the size the entry claims
				_, _ = psb.PatchPSPEntry(fw, level, id, bytes.NewReader(nil), io.Discard)
				if e.Size <= 1<<20 {
					_, _ = psb.PatchPSPEntry(fw, level, id, bytes.NewReader(make([]byte, e.Size)), io.Discard)
				}
			}
		}
		for _, id := range []manifest.BIOSDirectoryTableEntryType{0x05, 0x07, 0x62, 0x70, 0x61} {
			for inst := uint8(0); inst < 2; inst++ {
				_, _ = psb.GetBIOSEntry(fw.PSPFirmware(), level, id, inst)
				d, err := psb.ExtractBIOSEntry(fw, level, id, inst)
				_, _ = psb.DumpBIOSEntry(fw, level, id, inst, io.Discard)
				if err == nil {
					_, _ = psb.PatchBIOSEntry(fw, level, id, inst, bytes.NewReader(d), io.Discard)
				} else if e, err := psb.GetBIOSEntry(fw.PSPFirmware(), level, id, inst); err == nil {
					_, _ = psb.PatchBIOSEntry(fw, level, id, inst, bytes.NewReader(nil), io.Discard)
					if e.Size <= 1<<20 {
						_, _ = psb.PatchBIOSEntry(fw, level, id, inst, bytes.NewReader(make([]byte, e.Size)), io.Discard)
					}
				}
			}
		}
	}
	for _, off := range []uint64{0, 1, uint64(len(b)) / 2, uint64(len(b)) - 1, uint64(len(b)), ^uint64(0)} {
		for _, l := range []uint64{0, 1, 256, 257, uint64(len(b)), ^uint64(0), ^uint64(0) - off + 1} {
			_, _ = psb.ValidatePSPEntry(fw, psb.NewKeySet(), off, l)
			_, _ = psb.GetRangeBytes(b, off, l)
		}
	}
}

func eAmdTables(b []byte) {
	if t, _, err := manifest.ParsePSPDirectoryTable(b); err == nil {
		_ = t.String()
	}
	if t, _, err := manifest.ParseBIOSDirectoryTable(b); err == nil {
		_ = t.String()
	}
	_, _, _ = manifest.FindPSPDirectoryTable(b)
	_, _, _ = manifest.FindBIOSDirectoryTable(b)
	_, _, _ = manifest.ParsePSPDirectoryTableEntry(bytes.NewReader(b))
	_, _, _ = manifest.ParseBIOSDirectoryTableEntry(bytes.NewReader(b))
	_, _, _ = manifest.ParseEmbeddedFirmwareStructure(bytes.NewReader(b))
	_, _ = manifest.ParsePSPHeader(bytes.NewReader(b))
	if len(b) >= 8 {
		_ = manifest.CalculatePSPDirectoryCheckSum(b)
		_ = manifest.CalculateBiosDirectoryCheckSum(b)
	}
	// discovery through a Firmware whose address map puts the image just below `base`
	_, _, _ = manifest.FindEmbeddedFirmwareStructure(manifest.FirmwareImage(b))
}

// a key set holding one root key whose id is sixteen 0x11 bytes (the seeds certify with it)
func testKeySet() psb.KeySet {
	ks := psb.NewKeySet()
	if k, err := psb.NewRootKey(bytes.NewBuffer(rootKeySeedBytes())); err == nil {
		_ = ks.AddKey(k, psb.AMDRootKey)
	}
	// the keys of the tree's key database artifact: the PSP binary artifact is signed by one of them
	if db := artifactCached("pkg/amd/psb/keys_artifacts_test.go", "keyDB"); len(db) > 80 {
		buf := bytes.NewBuffer(db[80:])
		for n := 0; buf.Len() > 0 && n < 64; n++ {
			k, err := psb.NewKeyFromDatabase(buf)
			if err != nil {
				break
			}
			_ = ks.AddKey(k, psb.KeyDatabaseKey)
		}
	}
	return ks
}

var artifactCache = map[string][]byte{}

func artifactCached(rel, name string) []byte {
	if b, ok := artifactCache[rel+"#"+name]; ok {
		return b
	}
	b := artifact(rel, name)
	artifactCache[rel+"#"+name] = b
	return b
}

func ePsbKeys(b []byte) {
	if k, err := psb.NewRootKey(bytes.NewBuffer(b)); err == nil {
		_ = k.String()
		_, _ = k.Get()
		_, _ = psb.GetPlatformBindingInfo(k)
		_, _ = psb.GetSecurityFeatureVector(k)
	}
	if k, err := psb.NewTokenKey(bytes.NewBuffer(b), testKeySet()); err == nil {
		_ = k.String()
	}
	_, _ = psb.NewTokenKey(bytes.NewBuffer(b), psb.NewKeySet())
}

// the loop of parseKeyDatabase over the exported entry parser
func ePsbKeyDB(b []byte) {
	buf := bytes.NewBuffer(b)
	buf.Next(80) // keyDBHeader
	for n := 0; buf.Len() > 0 && n < 4096; n++ {
		k, err := psb.NewKeyFromDatabase(buf)
		if err != nil {
			break
		}
		_ = k.String()
	}
	_, _ = psb.NewKeyFromDatabase(bytes.NewBuffer(b))
}

// pbFw: the PSP binary under test followed by a minimal embedded firmware structure (without
// one NewAMDFirmware refuses the image); the first probed physical address maps to that structure
type pbFw struct {
	img    []byte
	efsOff uint64
}

func (f pbFw) ImageBytes() []byte                 { return f.img }
func (f pbFw) PhysAddrToOffset(p uint64) uint64   { return p - 0xfffa0000 + f.efsOff }
func (f pbFw) OffsetToPhysAddr(off uint64) uint64 { return off - f.efsOff + 0xfffa0000 }

func pspBinaryFirmware(b []byte) (*manifest.AMDFirmware, error) {
	efs := make([]byte, 74)
	binary.LittleEndian.PutUint32(efs, manifest.EmbeddedFirmwareStructureSignature)
	return manifest.NewAMDFirmware(pbFw{img: append(append([]byte{}, b...), efs...), efsOff: uint64(len(b))})
}

// a PSP binary validated at offset 0 of an image that holds the binary (and nothing else a
// directory would point to)
func ePsbBinary(b []byte) {
	fw, err := pspBinaryFirmware(b)
	if err != nil || fw == nil {
		return // shows as p_seed_ok psb_binary => skip
	}
	ks := testKeySet()
	_, _ = psb.ValidatePSPEntry(fw, ks, 0, uint64(len(b)))
	_, _ = psb.ValidatePSPEntry(fw, ks, 0, uint64(len(b))+1)
	_, _ = psb.ValidatePSPEntry(fw, ks, 0, uint64(len(b))+74)
	_, _ = psb.ValidatePSPEntry(fw, psb.NewKeySet(), 0, uint64(len(b)))
	if len(b) > 0x100 {
		_, _ = psb.ValidatePSPEntry(fw, ks, 0, 0x100)
		_, _ = psb.ValidatePSPEntry(fw, ks, 0, uint64(len(b))-1)
	}
}

// ---------- APCB ----------

func eApcbParse(b []byte) {
	ts, err := apcb.ParseAPCBBinaryTokens(b)
	if err == nil {
		for _, t := range ts {
			_ = t.NumValue()
			_ = apcb.GetTokenIDString(t.ID)
		}
	}
}

func eApcbUpsert(b []byte) {
	ids := []apcb.TokenID{0, 1, 0xFFFFFFFF, apcb.TokenIDPSPMeasureConfig, apcb.TokenIDPSPEnableDebugMode, apcb.TokenIDPSPErrorDisplay, apcb.TokenIDPSPStopOnError}
	if ts, err := apcb.ParseAPCBBinaryTokens(b); err == nil {
		for i, t := range ts {
			if i < 6 {
				ids = append(ids, t.ID)
			}
		}
	}
	vals := []interface{}{true, false, uint8(0xA5), uint16(0xBEEF), uint32(0xDEADBEEF), "not a value"}
	for i, id := range ids {
		for j, v := range vals {
			if (i+j)%2 == 1 && i > 3 {
				continue
			}
			img := append([]byte{}, b...)
			_ = apcb.UpsertToken(id, apcb.PriorityMask(0xff), 0xffff, v, img)
			img = append([]byte{}, b...)
			_ = apcb.UpsertToken(id, apcb.CreatePriorityMask(apcb.PriorityLevelDefault), 1, v, img)
			// the same with room behind the binary (an insertion needs 8 / 24 / 40 spare bytes;
			// without them only the refusal is exercised)
			if j < 1 {
				for _, slack := range []int{8, 24, 64} {
					img = append(append([]byte{}, b...), make([]byte, slack)...)
					_ = apcb.UpsertToken(id, apcb.PriorityMask(0xff), 0xffff, v, img)
					img = append(append([]byte{}, b...), make([]byte, slack)...)
					_ = apcb.UpsertToken(id, apcb.CreatePriorityMask(apcb.PriorityLevelDefault), 1, v, img)
				}
			}
		}
	}
}

// ---------- microcode, ME, FSP ----------

func eMicrocode(b []byte) {
	if m, err := microcode.ParseIntelMicrocode(bytes.NewReader(b)); err == nil {
		_ = m.String()
	}
}

func eME(b []byte) { _, _ = me.ParseIntelME(bytes.NewReader(b)) }

func eFSP(b []byte) {
	if h, err := fsp.NewInfoHeader(b); err == nil {
		_ = h.Summary()
	}
}

// ---------- decompression ----------

func eLZMA(b []byte)    { _, _ = (&compression.LZMA{}).Decode(b) }
func eLZMAX86(b []byte) { _, _ = compression.CompressorFromGUID(&compression.LZMAX86GUID).Decode(b) }
func eLZ4(b []byte)     { _, _ = (&compression.LZ4{}).Decode(b) }
func eZLIB(b []byte)    { _, _ = (&compression.ZLIB{}).Decode(b) }
func eBrotli(b []byte) {
	c := compression.CompressorFromGUID(&compression.BROTLIGUID)
	if c != nil {
		_, _ = c.Decode(b)
	}
}

func init() {
	entries["fmap"] = eFmap
	entries["cbfs"] = eCbfs
	entries["fit_table"] = eFitTable
	entries["fit_entries"] = eFitEntries
	entries["fit_sacm"] = eFitSACM
	entries["fit_inject"] = eFitInject
	entries["fit_km"] = eFitKM
	entries["fit_bpm"] = eFitBPM
	entries["bg_km"] = eBgKM
	entries["bg_bpm"] = eBgBPM
	entries["cbnt_km"] = eCbntKM
	entries["cbnt_bpm"] = eCbntBPM
	entries["cbnt_acminfo"] = eCbntACMInfo
	entries["amd_firmware"] = eAmdFirmware
	entries["amd_tables"] = eAmdTables
	entries["psb_keys"] = ePsbKeys
	entries["psb_keydb"] = ePsbKeyDB
	entries["psb_binary"] = ePsbBinary
	entries["apcb_parse"] = eApcbParse
	entries["apcb_upsert"] = eApcbUpsert
	entries["microcode"] = eMicrocode
	entries["me"] = eME
	entries["fsp"] = eFSP
	entries["lzma"] = eLZMA
	entries["lzmax86"] = eLZMAX86
	entries["lz4"] = eLZ4
	entries["zlib"] = eZLIB
	entries["brotli"] = eBrotli
}

// ---------- seed self-check ----------

// p_seed_ok <kind> <input>: is the (unmodified) seed accepted by the entry point it was built for,
// as deep as the seed is meant to reach?  "ok" = yes, "skip" = no.  It never fails: it makes the
// quality of the seeds visible in the evidence (a seed its parser rejects exercises only the
// first error path, whatever is substituted into it).
func seedAccepted(kind string, b []byte) bool {
	if t := typeOf(kind); t != nil {
		p := reflect.New(t)
		_, err := p.Interface().(codec).ReadFrom(bytes.NewReader(b))
		return err == nil
	}
	switch kind {
	case "fmap":
		_, _, err := fmap.Read(bytes.NewReader(b))
		return err == nil
	case "cbfs":
		i, err := cbfs.NewImage(bytes.NewReader(b))
		return err == nil && len(i.Segs) > 0
	case "fit_entries":
		es, err := fit.GetEntries(b)
		if err != nil || len(es) < 2 {
			return false
		}
		for _, e := range es {
			if len(e.GetEntryBase().HeadersErrors) > 0 {
				return false
			}
		}
		return true
	case "fit_sacm":
		_, err := fit.ParseSACMData(bytes.NewReader(b))
		return err == nil
	case "amd_firmware":
		fw, err := psb.ParseAMDFirmware(b)
		if err != nil {
			return false
		}
		p := fw.PSPFirmware()
		return p.PSPDirectoryLevel1 != nil && p.BIOSDirectoryLevel1 != nil && p.PSPDirectoryLevel2 != nil && p.BIOSDirectoryLevel2 != nil
	case "amd_tables":
		_, _, e1 := manifest.ParsePSPDirectoryTable(b)
		_, _, e2 := manifest.ParseBIOSDirectoryTable(b)
		_, _, e3 := manifest.ParseEmbeddedFirmwareStructure(bytes.NewReader(b))
		return e1 == nil || e2 == nil || e3 == nil
	case "psb_keys":
		if _, err := psb.NewRootKey(bytes.NewBuffer(b)); err == nil {
			return true
		}
		// a token key with a random signature: accepted up to the signature verification
		_, err := psb.NewTokenKey(bytes.NewBuffer(b), testKeySet())
		var sce *psb.SignatureCheckError
		return err == nil || errors.As(err, &sce)
	case "psb_keydb":
		buf := bytes.NewBuffer(b)
		buf.Next(80)
		_, err := psb.NewKeyFromDatabase(buf)
		return err == nil
	case "psb_binary":
		fw, err := pspBinaryFirmware(b)
		if err != nil || fw == nil {
			return false
		}
		res, err := psb.ValidatePSPEntry(fw, testKeySet(), 0, uint64(len(b)))
		// reached the RSA verification (which a random signature fails) or passed it
		return err == nil && (res.Error() == nil || res.SigningKey() != nil)
	case "apcb_parse":
		_, err := apcb.ParseAPCBBinaryTokens(b)
		return err == nil
	case "microcode":
		_, err := microcode.ParseIntelMicrocode(bytes.NewReader(b))
		return err == nil
	case "me":
		_, err := me.ParseIntelME(bytes.NewReader(b))
		return err == nil
	case "fsp":
		_, err := fsp.NewInfoHeader(b)
		return err == nil
	case "lzma":
		_, err := (&compression.LZMA{}).Decode(b)
		return err == nil
	case "lzmax86":
		_, err := compression.CompressorFromGUID(&compression.LZMAX86GUID).Decode(b)
		return err == nil
	case "lz4":
		_, err := (&compression.LZ4{}).Decode(b)
		return err == nil
	case "zlib":
		_, err := (&compression.ZLIB{}).Decode(b)
		return err == nil
	}
	return false
}

func opSeedOK(args []string) string {
	if seedAccepted(args[0], decodeInput(args[1])) {
		return "ok"
	}
	return "skip"
}
