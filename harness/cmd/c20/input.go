package main

// Inputs of the p_total oracle: byte strings, written either as plain hex or, for the
// images that must be hundreds of KiB long to be recognised at all (AMD firmware: the
// embedded firmware structure is looked up at fixed physical addresses), as
//
//	sparse:<size>:<fill>:<off>=<hex>,<off>=<hex>,...
//
// (all numbers hex) = <size> bytes of <fill> with the given chunks copied in.
// Seeds carry a field map: the positions of every length / count / offset / size field,
// recorded by the builder that assembled them, for the boundary-value substitution.

import (
	"encoding/binary"
	"sort"
	"strings"

	. "verifharness/common"
)

type fld struct {
	off, w int
	be     bool
	// scale: the field counts units of this many bytes (SizeM4: 4, sizes in bits: -8 = divide)
	scale int
}

type seed struct {
	name   string // entry point the seed belongs to
	b      []byte
	fields []fld
	sparse bool
	fill   byte
	light  bool // an additional shape of a format that already has a main seed: reduced budgets
	bare   bool // a member of a systematic family: run as it is (and with slack), nothing substituted
}

// ---------- builder ----------

type bld struct {
	b []byte
	f []fld
}

func (x *bld) raw(p []byte) *bld { x.b = append(x.b, p...); return x }
func (x *bld) zero(n int) *bld   { x.b = append(x.b, make([]byte, n)...); return x }
func (x *bld) pad(n int, v byte) *bld {
	for i := 0; i < n; i++ {
		x.b = append(x.b, v)
	}
	return x
}
func (x *bld) num(v uint64, w int, be, mark bool, scale int) *bld {
	if mark {
		x.f = append(x.f, fld{len(x.b), w, be, scale})
	}
	t := make([]byte, 8)
	if be {
		binary.BigEndian.PutUint64(t, v)
		x.b = append(x.b, t[8-w:]...)
	} else {
		binary.LittleEndian.PutUint64(t, v)
		x.b = append(x.b, t[:w]...)
	}
	return x
}
func (x *bld) u8(v uint64) *bld              { return x.num(v, 1, false, false, 1) }
func (x *bld) u16(v uint64) *bld             { return x.num(v, 2, false, false, 1) }
func (x *bld) u32(v uint64) *bld             { return x.num(v, 4, false, false, 1) }
func (x *bld) u64(v uint64) *bld             { return x.num(v, 8, false, false, 1) }
func (x *bld) L8(v uint64) *bld              { return x.num(v, 1, false, true, 1) }
func (x *bld) L16(v uint64) *bld             { return x.num(v, 2, false, true, 1) }
func (x *bld) L24(v uint64) *bld             { return x.num(v, 3, false, true, 1) }
func (x *bld) L32(v uint64) *bld             { return x.num(v, 4, false, true, 1) }
func (x *bld) L64(v uint64) *bld             { return x.num(v, 8, false, true, 1) }
func (x *bld) B32(v uint64) *bld             { return x.num(v, 4, true, true, 1) }
func (x *bld) b32(v uint64) *bld             { return x.num(v, 4, true, false, 1) }
func (x *bld) b64(v uint64) *bld             { return x.num(v, 8, true, false, 1) }
func (x *bld) LS32(v uint64, scale int) *bld { return x.num(v, 4, false, true, scale) }
func (x *bld) mark(off, w int)               { x.f = append(x.f, fld{off, w, false, 1}) }
func (x *bld) seed(name string) seed         { return seed{name: name, b: x.b, fields: x.f} }

// shift moves a field map by delta (when a blob is embedded into a larger one)
func shift(fs []fld, delta int) []fld {
	out := make([]fld, len(fs))
	for i, f := range fs {
		f.off += delta
		out[i] = f
	}
	return out
}

// ---------- input encoding ----------

func encodeInput(s seed, b []byte) string {
	if !s.sparse {
		return H(b)
	}
	// chunks = maximal runs that differ from the fill byte (runs closer than 16 bytes are merged)
	type run struct{ lo, hi int }
	var runs []run
	for i := 0; i < len(b); {
		if b[i] == s.fill {
			i++
			continue
		}
		j := i
		last := i
		for j < len(b) && j-last < 16 {
			if b[j] != s.fill {
				last = j
			}
			j++
		}
		runs = append(runs, run{i, last + 1})
		i = last + 1
	}
	parts := make([]string, len(runs))
	for i, r := range runs {
		parts[i] = N(uint64(r.lo)) + "=" + H(b[r.lo:r.hi])
	}
	return "sparse:" + N(uint64(len(b))) + ":" + N(uint64(s.fill)) + ":" + strings.Join(parts, ",")
}

func decodeInput(a string) []byte {
	if !strings.HasPrefix(a, "sparse:") {
		return UnH(a)
	}
	p := strings.SplitN(a, ":", 4)
	size := int(UnN(p[1]))
	fill := byte(UnN(p[2]))
	b := make([]byte, size)
	if fill != 0 {
		for i := range b {
			b[i] = fill
		}
	}
	if len(p) == 4 && p[3] != "" {
		for _, c := range strings.Split(p[3], ",") {
			kv := strings.SplitN(c, "=", 2)
			copy(b[int(UnN(kv[0])):], UnH(kv[1]))
		}
	}
	return b
}

// ---------- boundary values ----------

func wmask(w int) uint64 {
	if w >= 8 {
		return ^uint64(0)
	}
	return uint64(1)<<(8*uint(w)) - 1
}

func getField(b []byte, f fld) uint64 {
	var v uint64
	for i := 0; i < f.w; i++ {
		if f.be {
			v = v<<8 | uint64(b[f.off+i])
		} else {
			v |= uint64(b[f.off+i]) << (8 * uint(i))
		}
	}
	return v
}

func setField(b []byte, f fld, v uint64) {
	for i := 0; i < f.w; i++ {
		if f.be {
			b[f.off+f.w-1-i] = byte(v >> (8 * uint(i)))
		} else {
			b[f.off+i] = byte(v >> (8 * uint(i)))
		}
	}
}

// boundaryValues: 0, 1, header sizes +-1, "remaining" +-1 (measured from the field, from
// the end of the field and from the start of the buffer), all-ones and neighbours, the sign
// bit, the original +-1 and doubled; all reduced to the field width and de-duplicated.
func boundaryValues(total int, f fld, orig uint64) []uint64 {
	m := wmask(f.w)
	unit := func(n int64) uint64 {
		if n < 0 {
			return uint64(n)
		}
		switch {
		case f.scale > 1:
			return uint64(n) / uint64(f.scale)
		case f.scale < 0:
			return uint64(n) * uint64(-f.scale)
		}
		return uint64(n)
	}
	var vs []uint64
	add := func(v uint64) { vs = append(vs, v&m) }
	for _, v := range []uint64{0, 1, 2, 3, 4, 7, 8, 12, 15, 16, 17, 24, 32, 47, 48, 49, 64, 256} {
		add(v)
	}
	for _, rem := range []int{total - f.off, total - f.off - f.w, total} {
		for d := int64(-1); d <= 1; d++ {
			add(unit(int64(rem) + d))
		}
		add(unit(int64(rem)) + 1) // one unit too many, whatever the scale
	}
	add(m)
	add(m - 1)
	add(m - 2)
	add(m - 3)
	add(m - 7)
	add(m - 15)
	add(m - 47)
	add(m >> 1)
	add(m>>1 + 1)
	add(m>>1 - 1)
	add(m >> 2)
	add((m >> 2) + 1)
	add(orig + 1)
	add(orig - 1)
	add(orig * 2)
	add(orig + 4)
	add(orig + 16)
	add(orig - 16)
	// the boundaries of every narrower integer width inside a wider field (a check or a use made
	// on uint16(x) / int32(x) / uint32(x)), and mid-range sizes: large enough to matter as an
	// allocation (1 MiB .. 256 MiB), far below the all-ones family (which an upper-limit check
	// added to the code would reject)
	if f.w >= 3 {
		for _, v := range []uint64{0x7fff, 0x8000, 0xffff, 0x10000, 0x10001, 1 << 20, 0xffffff} {
			add(v)
		}
	}
	if f.w >= 4 {
		for _, v := range []uint64{1 << 24, 1<<24 + 1, 1 << 26, 1 << 27, 1 << 28, 1<<28 + 8} {
			add(v)
		}
	}
	if f.w >= 8 {
		for _, v := range []uint64{1<<31 - 1, 1 << 31, 1<<32 - 1, 1 << 32, 1<<32 + 1, 1<<32 + 0x100, 1 << 40} {
			add(v)
		}
	}
	seen := map[uint64]bool{orig & m: true}
	var out []uint64
	for _, v := range vs {
		if !seen[v] {
			seen[v] = true
			out = append(out, v)
		}
	}
	sort.Slice(out, func(i, j int) bool { return out[i] < out[j] })
	return out
}

// coreValues: the few boundary values EVERY recorded field of every seed gets (the full set of
// boundaryValues is sampled under a budget): zero, one, all-ones, the sign bit, exactly what
// remains behind the field and one unit more, and two mid-range sizes.
func coreValues(total int, f fld, orig uint64) []uint64 {
	m := wmask(f.w)
	rem := uint64(0)
	if total-f.off-f.w > 0 {
		rem = uint64(total - f.off - f.w)
	}
	switch {
	case f.scale > 1:
		rem /= uint64(f.scale)
	case f.scale < 0:
		rem *= uint64(-f.scale)
	}
	vs := []uint64{0, 1, m, m>>1 + 1, rem, rem + 1}
	switch {
	case f.w >= 4:
		vs = append(vs, 1<<20, 1<<27)
	case f.w == 3:
		vs = append(vs, 1<<20)
	}
	seen := map[uint64]bool{orig & m: true}
	var out []uint64
	for _, v := range vs {
		v &= m
		if !seen[v] {
			seen[v] = true
			out = append(out, v)
		}
	}
	return out
}

// pairSubst: two fields changed at once.  A size that is checked against another field of the same
// structure (data size <= total size, exponent + modulus <= blob, offset + size <= length) only
// reaches the code behind that check when both move together:
//   - the same amount K added to both (their difference, which is what such a check looks at, stays)
//   - both zero, both all-ones
//   - the first zero and the second doubled / raised by what the first held (one part of a
//     two-part body shrinks, the other grows into the space)
type pairSub struct {
	f, g   fld
	vf, vg uint64
}

func pairValues(f, g fld, of, og uint64) []pairSub {
	mf, mg := wmask(f.w), wmask(g.w)
	w := f.w
	if g.w < w {
		w = g.w
	}
	var ks []uint64
	switch {
	case w >= 4:
		ks = []uint64{1 << 16, 1 << 24, 1 << 28}
	case w == 3:
		ks = []uint64{1 << 12, 1 << 20}
	case w == 2:
		ks = []uint64{1 << 8, 1 << 15}
	default:
		ks = []uint64{16, 128}
	}
	var out []pairSub
	for _, k := range ks {
		out = append(out, pairSub{f, g, (of + k) & mf, (og + k) & mg})
	}
	out = append(out, pairSub{f, g, 0, 0}, pairSub{f, g, mf, mg},
		pairSub{f, g, 0, (og * 2) & mg}, pairSub{f, g, 0, (og + of) & mg}, pairSub{f, g, 0, (og*2 + og/2) & mg},
		pairSub{f, g, (of * 2) & mf, 0})
	return out
}

// corePairs: the two pair substitutions every pair of neighbouring fields gets (not sampled):
// both zero, and the same large amount added to both
func corePairs(f, g fld, of, og uint64) []pairSub {
	mf, mg := wmask(f.w), wmask(g.w)
	w := f.w
	if g.w < w {
		w = g.w
	}
	k := uint64(128)
	switch {
	case w >= 4:
		k = 1 << 28
	case w == 3:
		k = 1 << 20
	case w == 2:
		k = 1 << 15
	}
	return []pairSub{{f, g, 0, 0}, {f, g, (of + k) & mf, (og + k) & mg}}
}

func substitute2(b []byte, p pairSub) []byte {
	return substitute(substitute(b, p.f, p.vf), p.g, p.vg)
}

// aliasValues: truncation aliases of the VALID value of a field -- the value with one or
// several of its upper bits set, so that a check made on a narrower view of the field
// (uint32(x) of a 64-bit location, uint16(x) of a 32-bit size, int32 sign) still sees the valid
// value while the full-width use does not -- and single-bit flips in the upper bytes.
// Unlike boundaryValues these are emitted for EVERY recorded field of every seed (not sampled).
func aliasValues(f fld, orig uint64) []uint64 {
	m := wmask(f.w)
	var vs []uint64
	add := func(v uint64) { vs = append(vs, v&m) }
	switch {
	case f.w >= 8:
		add(orig | 1<<32)
		add(orig | 1<<63)
		add(orig | 0xFFFFFFFF00000000)
		add(orig | 1<<31)
		add(orig | 1<<40)
		add(orig | 0xFFFF0000)
		add(orig ^ 1<<33)
		add(orig ^ 1<<47)
		add(orig ^ 1<<56)
		add(orig ^ 1<<62)
	case f.w >= 4:
		add(orig | 1<<31)
		add(orig | 0xFFFF0000)
		add(orig | 1<<16)
		add(orig | 1<<24)
		add(orig ^ 1<<30)
		add(orig ^ 1<<23)
	case f.w == 3:
		add(orig | 1<<23)
		add(orig | 0xFF0000)
		add(orig | 1<<16)
		add(orig ^ 1<<22)
	case f.w == 2:
		add(orig | 1<<15)
		add(orig | 0xFF00)
		add(orig | 1<<8)
		add(orig ^ 1<<14)
	default:
		add(orig | 1<<7)
		add(orig ^ 1<<6)
	}
	seen := map[uint64]bool{orig & m: true}
	var out []uint64
	for _, v := range vs {
		if !seen[v] {
			seen[v] = true
			out = append(out, v)
		}
	}
	return out
}

// substitute returns a copy of b with field f set to v
func substitute(b []byte, f fld, v uint64) []byte {
	c := append([]byte{}, b...)
	if f.off >= 0 && f.off+f.w <= len(c) {
		setField(c, f, v)
	}
	return c
}

// mutate: random byte flips, truncations, extensions, window overwrites
func mutate(r *Rng, b []byte) []byte {
	c := append([]byte{}, b...)
	n := 1 + r.Intn(3)
	for k := 0; k < n; k++ {
		switch r.Intn(8) {
		case 0: // truncate
			if len(c) > 0 {
				c = c[:r.Intn(len(c))]
			}
		case 1, 2: // flip a bit
			if len(c) > 0 {
				c[r.Intn(len(c))] ^= byte(1 << uint(r.Intn(8)))
			}
		case 3: // random byte
			if len(c) > 0 {
				c[r.Intn(len(c))] = byte(r.U64())
			}
		case 4: // boundary value in a random 1/2/4/8-byte window
			w := r.Pick(1, 2, 4, 8)
			if len(c) >= w {
				i := r.Intn(len(c) - w + 1)
				f := fld{i, w, r.Chance(1, 4), 1}
				vs := boundaryValues(len(c), f, getField(c, f))
				setField(c, f, vs[r.Intn(len(vs))])
			}
		case 5: // append junk
			c = append(c, r.Bytes(r.Range(1, 40))...)
		case 6: // duplicate a tail
			if len(c) > 8 && len(c) < 1<<16 {
				i := r.Intn(len(c) - 4)
				c = append(c, c[i:]...)
			}
		case 7: // overwrite a run with 0x00 / 0xff
			if len(c) > 4 {
				i := r.Intn(len(c) - 2)
				l := 1 + r.Intn(min(16, len(c)-i))
				v := byte(r.Pick(0, 0xff))
				for j := i; j < i+l; j++ {
					c[j] = v
				}
			}
		}
	}
	return c
}
