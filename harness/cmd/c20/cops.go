package main

// Correspondence ops: functions the extracted models evaluate too (ocaml/c20/run.ml).
//   mc / me / fsp <bytes>      the three newly modelled parsers: class and every decoded field
//   cls_<parser> <bytes>       the models written for other properties, run on hostile bytes:
//                              only the class ok / err is compared here (their own properties
//                              compare the values); a model Panic or Fuel shows as a mismatch

import (
	"bytes"
	"encoding/binary"
	"reflect"
	"strings"

	"github.com/linuxboot/fiano/pkg/amd/apcb"
	"github.com/linuxboot/fiano/pkg/amd/manifest"
	"github.com/linuxboot/fiano/pkg/amd/psb"
	"github.com/linuxboot/fiano/pkg/cbfs"
	"github.com/linuxboot/fiano/pkg/compression"
	"github.com/linuxboot/fiano/pkg/fmap"
	"github.com/linuxboot/fiano/pkg/fsp"
	"github.com/linuxboot/fiano/pkg/intel/me"
	"github.com/linuxboot/fiano/pkg/intel/metadata/fit"
	"github.com/linuxboot/fiano/pkg/intel/microcode"
	. "verifharness/common"
)

var mcErrs = [][2]string{
	{"failed to read header", "1"},
	{"bad data file size", "2"},
	{"invalid version or revision", "3"},
	{"data size not 32bit aligned", "4"},
	{"total size not 32bit aligned", "5"},
	{"failed to read data", "6"},
	{"extended header checksum is not null", "a"},
	{"checksum is not null", "7"},
	{"failed to read extended sig table", "8"},
	{"failed to read extended signature", "9"},
}

func opMc(a []string) string {
	m, err := microcode.ParseIntelMicrocode(bytes.NewReader(UnH(a[0])))
	if err != nil {
		return ErrClass(err, mcErrs)
	}
	var h, ext bytes.Buffer
	_ = binary.Write(&h, binary.LittleEndian, &m.Header)
	sigs := []string{}
	ds, ts := uint64(m.HeaderDataSize), uint64(m.HeaderTotalSize)
	if ds == 0 {
		ds, ts = microcode.DefaultDatasize, microcode.DefaultTotalSize
	}
	if ts > ds+48 { // an extended signature table was read
		_ = binary.Write(&ext, binary.LittleEndian, &m.ExtSigTable)
	}
	for i := range m.ExtendedSignatures {
		var s bytes.Buffer
		_ = binary.Write(&s, binary.LittleEndian, &m.ExtendedSignatures[i])
		sigs = append(sigs, H(s.Bytes()))
	}
	return "ok " + H(h.Bytes()) + " " + H(m.Data) + " " + H(ext.Bytes()) + " " + N(uint64(len(sigs))) + " " + strings.Join(sigs, " ")
}

var eofErrs = [][2]string{{"unexpected EOF", "2"}, {"EOF", "1"}}

// IntelME has no accessors: the unexported fields are read (not set) through reflection
func opMe(a []string) string {
	m, err := me.ParseIntelME(bytes.NewReader(UnH(a[0])))
	if err != nil {
		return ErrClass(err, eofErrs)
	}
	v := reflect.ValueOf(m).Elem()
	legacy := v.FieldByName("legacy").Bool()
	var h reflect.Value
	if legacy {
		h = v.FieldByName("legacyhdr").Elem()
	} else {
		h = v.FieldByName("hdr").Elem()
	}
	u := func(n string) string { return N(h.FieldByName(n).Uint()) }
	mk := make([]byte, 4)
	for i := range mk {
		mk[i] = byte(h.FieldByName("Marker").Index(i).Uint())
	}
	out := []string{"ok", "0", H(mk), u("NumFptEntries"), u("HeaderVersion"), u("EntryVersion"), u("HeaderLength"), u("HeaderChecksum"), u("TicksToAdd"), u("TokensToAdd")}
	if legacy {
		out[1] = "1"
		out = append(out, u("UMASize"), u("Flags"))
	} else {
		out = append(out, u("UMASizeOrReserved"), u("FlashLayoutOrFlags"), u("FitcMajor"), u("FitcMinor"), u("FitcHotfix"), u("FitcBuild"))
	}
	ps := v.FieldByName("partitions")
	out = append(out, N(uint64(ps.Len())))
	var all []byte
	for i := 0; i < ps.Len(); i++ {
		p := ps.Index(i)
		for _, f := range []string{"Name", "Owner"} {
			for k := 0; k < 4; k++ {
				all = append(all, byte(p.FieldByName(f).Index(k).Uint()))
			}
		}
		for _, f := range []string{"Offset", "Length", "StartTokens", "MaxTokens", "ScratchSectors", "Flags"} {
			all = binary.LittleEndian.AppendUint32(all, uint32(p.FieldByName(f).Uint()))
		}
	}
	out = append(out, H(all))
	return strings.Join(out, " ")
}

var fspErrs = [][2]string{
	{"short FSP Info Header length", "1"},
	{"invalid signature", "2"},
	{"cannot handle spec version", "3"},
	{"cannot handle header revision", "4"},
	{"invalid header length", "5"},
	{"EOF", "6"},
}

func opFsp(a []string) string {
	h, err := fsp.NewInfoHeader(UnH(a[0]))
	if err != nil {
		return ErrClass(err, fspErrs)
	}
	return strings.Join([]string{"ok", H(h.Signature[:]), N(uint64(h.HeaderLength)), N(uint64(h.SpecVersion)), N(uint64(h.HeaderRevision)),
		N(uint64(h.ImageRevision)), H(h.ImageID[:]), N(uint64(h.ImageSize)), N(uint64(h.ImageBase)), N(uint64(h.ImageAttribute)),
		N(uint64(h.ComponentAttribute)), N(uint64(h.CfgRegionOffset)), N(uint64(h.CfgRegionSize)), N(uint64(h.TempRAMInitEntryOffset)),
		N(uint64(h.NotifyPhaseEntryOffset)), N(uint64(h.FSPMemoryInitEntryOffset)), N(uint64(h.TempRAMExitEntryOffset)),
		N(uint64(h.FSPSiliconInitEntryOffset)), N(uint64(h.FspMultiPhaseSiInitEntryOffset)), N(uint64(h.ExtendedImageRevision))}, " ")
}

var sacmErrs = [][2]string{
	{"unable to parse startup AC module entry", "1"},
	{"unknown ACM header version", "2"},
	{"invalid key size", "3"},
	{"cannot parse version-specific headers", "4"},
	{"unable to read user area", "5"},
}

// sacm <bytes>: fit.ParseSACMData -- class, header version, binary size of the version's
// structure, the user area
func opSacm(a []string) string {
	d, err := fit.ParseSACMData(bytes.NewReader(UnH(a[0])))
	if err != nil {
		return ErrClass(err, sacmErrs)
	}
	return "ok " + N(uint64(d.GetHeaderVersion())) + " " + N(uint64(binary.Size(d.EntrySACMDataInterface))) + " " +
		N(uint64(len(d.UserArea))) + " " + H(d.UserArea)
}

// sacmsize <bytes>: fit.EntrySACMParseSize
func opSacmSize(a []string) string {
	v, err := fit.EntrySACMParseSize(UnH(a[0]))
	if err != nil {
		return "err 1"
	}
	return "ok " + N(uint64(v))
}

func cls(err error) string {
	if err != nil {
		return "err"
	}
	return "ok"
}

func opClsFmap(a []string) string {
	_, _, err := fmap.Read(bytes.NewReader(UnH(a[0])))
	return cls(err)
}
func opClsFitTable(a []string) string   { _, err := fit.GetTable(UnH(a[0])); return cls(err) }
func opClsFitEntries(a []string) string { _, err := fit.GetEntries(UnH(a[0])); return cls(err) }
func opClsCbfs(a []string) string {
	_, err := cbfs.NewImage(bytes.NewReader(UnH(a[0])))
	return cls(err)
}
func opClsPspTable(a []string) string {
	_, _, err := manifest.ParsePSPDirectoryTable(UnH(a[0]))
	return cls(err)
}
func opClsBiosTable(a []string) string {
	_, _, err := manifest.ParseBIOSDirectoryTable(UnH(a[0]))
	return cls(err)
}
func opClsFindPsp(a []string) string {
	_, _, err := manifest.FindPSPDirectoryTable(UnH(a[0]))
	return cls(err)
}
func opClsFindBios(a []string) string {
	_, _, err := manifest.FindBIOSDirectoryTable(UnH(a[0]))
	return cls(err)
}
func opClsEfs(a []string) string {
	_, _, err := manifest.ParseEmbeddedFirmwareStructure(bytes.NewReader(UnH(a[0])))
	return cls(err)
}
func opClsRootKey(a []string) string {
	_, err := psb.NewRootKey(bytes.NewBuffer(UnH(a[0])))
	return cls(err)
}

// the frame of ZLIB.Decode: "ok" = both frame checks passed (whatever compress/zlib then says)
func opClsZlibFrame(a []string) string {
	_, err := (&compression.ZLIB{}).Decode(UnH(a[0]))
	if err != nil && (strings.Contains(err.Error(), "missing section header") || strings.Contains(err.Error(), "size mismatch")) {
		return "err"
	}
	return "ok"
}

func opClsApcb(a []string) string {
	_, err := apcb.ParseAPCBBinaryTokens(UnH(a[0]))
	return cls(err)
}

func registerCOps() {
	Register("mc", opMc)
	Register("me", opMe)
	Register("fsp", opFsp)
	Register("sacm", opSacm)
	Register("sacmsize", opSacmSize)
	Register("cls_fmap", opClsFmap)
	Register("cls_fit_table", opClsFitTable)
	Register("cls_fit_entries", opClsFitEntries)
	Register("cls_cbfs", opClsCbfs)
	Register("cls_psp_table", opClsPspTable)
	Register("cls_bios_table", opClsBiosTable)
	Register("cls_find_psp", opClsFindPsp)
	Register("cls_find_bios", opClsFindBios)
	Register("cls_efs", opClsEfs)
	Register("cls_rootkey", opClsRootKey)
	Register("cls_zlib_frame", opClsZlibFrame)
	Register("cls_apcb", opClsApcb)
	Register("cls_manifest", opClsManifest)
}
