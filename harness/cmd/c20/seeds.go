package main

// Valid seeds per format, built with the real encoders where the tree has one (fmap.Write,
// the generated manifest WriteTo, fit Entries.RecalculateHeaders + Inject, binary.Write of
// the ACM structures, the compressors' Encode) and taken from the tree's own test artifacts
// where it ships some (cbfs testdata/coreboot.rom, apcb testdata, the psb key / PSP binary /
// firmware image artifacts of pkg/amd/psb/*_test.go, read from the source files).
// Each seed records where its length / count / offset / size fields are.

import (
	"bytes"
	"encoding/binary"
	"io"
	"os"
	"path/filepath"
	"regexp"
	"strconv"
	"strings"

	"github.com/klauspost/compress/zstd"
	"github.com/linuxboot/fiano/pkg/compression"
	"github.com/linuxboot/fiano/pkg/fmap"
	"github.com/linuxboot/fiano/pkg/intel/metadata/fit"
	"github.com/ulikunitz/xz"
	. "verifharness/common"
)

func repoPath() string {
	if p := os.Getenv("VERIF_REPO_PATH"); p != "" {
		return p
	}
	return "/repo"
}

// artifact reads `var <name> = []byte{ ... }` out of a Go test file of the tree
func artifact(rel, name string) []byte {
	src, err := os.ReadFile(filepath.Join(repoPath(), rel))
	if err != nil {
		return nil
	}
	re := regexp.MustCompile(`(?s)var ` + name + ` = \[\]byte\{(.*?)\n\}`)
	m := re.FindSubmatch(src)
	if m == nil {
		return nil
	}
	var out []byte
	for _, t := range strings.FieldsFunc(string(m[1]), func(r rune) bool { return r == ',' || r == ' ' || r == '\n' || r == '\t' }) {
		if v, err := strconv.ParseUint(t, 0, 8); err == nil {
			out = append(out, byte(v))
		}
	}
	return out
}

// memFile is an in-memory io.WriteSeeker / io.WriterAt that grows like a file.
type memFile struct {
	b   []byte
	pos int64
}

func (m *memFile) grow(n int64) {
	if n > 1<<12 && n > int64(len(m.b)) {
		// a real file would be sparse: the harness' own buffer grows by at most 4 KiB beyond what
		// it holds (its allocations are seen by the allocation meter of the oracle)
		n = max(int64(len(m.b)), 1<<12)
	}
	if int64(len(m.b)) < n {
		m.b = append(m.b, make([]byte, n-int64(len(m.b)))...)
	}
}
func (m *memFile) Write(p []byte) (int, error) {
	m.grow(m.pos + int64(len(p)))
	if m.pos < int64(len(m.b)) {
		copy(m.b[m.pos:], p)
	}
	m.pos += int64(len(p))
	return len(p), nil
}
func (m *memFile) Seek(off int64, whence int) (int64, error) {
	switch whence {
	case io.SeekStart:
		m.pos = off
	case io.SeekCurrent:
		m.pos += off
	case io.SeekEnd:
		m.pos = int64(len(m.b)) + off
	}
	if m.pos < 0 {
		m.pos = 0
		return 0, io.ErrUnexpectedEOF
	}
	return m.pos, nil
}
func (m *memFile) WriteAt(p []byte, off int64) (int, error) {
	if off < 0 {
		return 0, io.ErrUnexpectedEOF
	}
	m.grow(off + int64(len(p)))
	if off < int64(len(m.b)) {
		copy(m.b[off:], p)
	}
	return len(p), nil
}

// looseFw: a Firmware whose physical addresses are the offsets (for PSP binaries validated alone)
type looseFw struct{ img []byte }

func (f looseFw) ImageBytes() []byte                 { return f.img }
func (f looseFw) PhysAddrToOffset(p uint64) uint64   { return p }
func (f looseFw) OffsetToPhysAddr(off uint64) uint64 { return off }

func name32(s string) (n fmap.String) {
	copy(n.Value[:], s)
	return
}

// ---------- flash map ----------

func seedFmap(r *Rng, nAreas int, withCoreboot []byte) seed {
	size := 0x400 + len(withCoreboot)
	img := r.Bytes(size)
	for i := 0; i+8 <= len(img); i++ { // no accidental signature
		if string(img[i:i+8]) == "__FMAP__" {
			img[i] = 0
		}
	}
	start := 0x40
	m := &fmap.FMap{Header: fmap.Header{VerMajor: 1, VerMinor: 1, Base: 0xFF000000, Size: uint32(size), NAreas: uint16(nAreas)}}
	copy(m.Signature[:], fmap.Signature)
	m.Name = name32("FLASH")
	for i := 0; i < nAreas; i++ {
		a := fmap.Area{Offset: uint32(r.Intn(size)), Size: uint32(r.Intn(64)), Name: name32("AREA" + strconv.Itoa(i)), Flags: uint16(r.Pick(0, 1, 2, 3))}
		if uint64(a.Offset)+uint64(a.Size) > uint64(size) {
			a.Size = uint32(size) - a.Offset
		}
		if i == 0 && withCoreboot != nil {
			a = fmap.Area{Offset: 0x400, Size: uint32(len(withCoreboot)), Name: name32("COREBOOT")}
			copy(img[0x400:], withCoreboot)
		}
		m.Areas = append(m.Areas, a)
	}
	f := &memFile{b: img}
	_ = fmap.Write(f, m, &fmap.Metadata{Start: uint64(start)})
	s := seed{name: "fmap", b: f.b}
	s.fields = append(s.fields, fld{start + 18, 4, false, 1}, fld{start + 54, 2, false, 1}, fld{start + 10, 8, false, 1})
	for i := 0; i < nAreas; i++ {
		s.fields = append(s.fields, fld{start + 56 + 42*i, 4, false, 1}, fld{start + 56 + 42*i + 4, 4, false, 1})
	}
	return s
}

// ---------- CBFS ----------

type cbRec struct {
	name  string
	typ   uint32
	attrs []byte
	data  []byte
	// dfields: length / count / offset / size fields inside the data (offsets relative to the data)
	dfields []fld
}

func cbfsArchive(r *Rng, recs []cbRec) ([]byte, []fld) {
	x := &bld{}
	for _, rec := range recs {
		for len(x.b)%16 != 0 {
			x.pad(1, 0xff)
		}
		nameLen := (len(rec.name) + 1 + 15) / 16 * 16
		attrOff := 0
		if len(rec.attrs) > 0 {
			attrOff = 24 + nameLen
		}
		sub := 24 + nameLen + len(rec.attrs)
		x.raw([]byte("LARCHIVE")).B32(uint64(len(rec.data))).b32(uint64(rec.typ)).B32(uint64(attrOff)).B32(uint64(sub))
		nm := make([]byte, nameLen)
		copy(nm, rec.name)
		x.raw(nm)
		if len(rec.attrs) > 0 {
			// the attribute block as given: a chain of (tag, size, payload); every size is marked
			base := len(x.b)
			x.raw(rec.attrs)
			for o := 0; o+8 <= len(rec.attrs); {
				x.f = append(x.f, fld{base + o + 4, 4, true, 1})
				sz := int(binary.BigEndian.Uint32(rec.attrs[o+4:]))
				if sz < 8 {
					break
				}
				o += sz
			}
		}
		x.f = append(x.f, shift(rec.dfields, len(x.b))...)
		x.raw(rec.data)
	}
	return x.b, x.f
}

func be32b(v uint32) []byte { b := make([]byte, 4); binary.BigEndian.PutUint32(b, v); return b }

// cbfsAttrs: an attribute block; optionally an attribute with another tag in front of the
// compression attribute (so that FindAttribute has to step over it) and an end tag behind it
func cbfsAttrs(r *Rng, compression uint32) []byte {
	var a []byte
	if r.Chance(1, 2) {
		n := r.Pick(0, 4, 12)
		a = append(append(append(a, be32b(0x68736148)...), be32b(uint32(8+n))...), r.Bytes(n)...) // 'Hash'
	}
	a = append(append(append(append(a, be32b(0x42435a4c)...), be32b(16)...), be32b(compression)...), be32b(100)...)
	if r.Chance(1, 3) {
		a = append(append(a, be32b(0)...), be32b(8)...)
	}
	return a
}

// a raw file whose compression attribute is truthful (data really encoded by the package's LZMA /
// LZ4 encoder) or not (random bytes); the LZMA stream header's dictionary and size fields are marked
func cbfsCompressedRec(r *Rng, name string, typ uint32) cbRec {
	comp := uint32(r.Pick(0, 1, 1, 2, 2, 7))
	plain := append(bytes.Repeat([]byte("cbfs "), r.Pick(1, 9)), r.Bytes(r.Pick(0, 7))...)
	rec := cbRec{name: name, typ: typ, attrs: cbfsAttrs(r, comp), data: r.Bytes(r.Pick(0, 5, 40))}
	if r.Chance(1, 4) {
		return rec
	}
	switch comp {
	case 1:
		if e, err := (&compression.LZMA{}).Encode(plain); err == nil {
			rec.data = smallDict(e)
			rec.dfields = []fld{{1, 4, false, 1}, {5, 8, false, 1}}
		}
	case 2:
		if e, err := (&compression.LZ4{}).Encode(plain); err == nil {
			rec.data = e
		}
	}
	return rec
}

func seedCbfs(r *Rng) seed {
	// legacy stage: little-endian StageHeader (compression, entry, load address, size, memsize) + data
	nst := r.Pick(0, 7, 20)
	sh := &bld{}
	sh.u32(0).u64(0x1000).u64(0x2000).L32(uint64(nst)).L32(uint64(nst + 64))
	stage := append(sh.b, r.Bytes(nst)...)
	// SELF payload: big-endian segment headers up to and including the entry segment, then the body
	ph := &bld{}
	segTypes := []uint32{0x434F4445, 0x44415441, 0x42535320, 0x50415241}
	nseg := r.Pick(0, 1, 3)
	for i := 0; i < nseg; i++ {
		ph.b32(uint64(segTypes[r.Intn(len(segTypes))])).b32(uint64(r.Pick(0, 1, 2))).B32(uint64(28*(nseg+1) + 4*i)).b64(0x100000).B32(4).B32(uint64(r.Pick(4, 4096)))
	}
	ph.b32(0x454E5452).b32(0).B32(0).b64(0x100000).B32(0).B32(0)
	payload := append(append([]byte{}, ph.b...), r.Bytes(4*nseg+r.Pick(0, 9))...)
	// master header (big endian): magic, version, rom size, boot block size, align, offset, architecture, pad
	mh := &bld{}
	mh.b32(0x4F524243).b32(0x31313132).B32(0x100000).B32(0x1000).B32(64).B32(0x400).b32(1).b32(0)
	recs := []cbRec{
		{"cbfs master header", 2, nil, mh.b, mh.f},
		{"fallback/romstage", 0x10, nil, stage, sh.f},
		{"fallback/payload", 0x20, cbfsAttrs(r, uint32(r.Pick(0, 1, 2))), payload, ph.f},
		cbfsCompressedRec(r, "config", 0x50),
		cbfsCompressedRec(r, "etc/data", 0x50),
		{"", uint32(r.Pick(0, 0xffffffff)), nil, bytes.Repeat([]byte{0xff}, 48), nil},
		{"unknown", 0x777, nil, r.Bytes(8), nil},
	}
	// some of the other registered types (their readers keep the data as it is)
	for _, t := range []uint32{0x11, 0x30, 0x40, 0x53, 0x60, 0xaa, 0xab, 0x1aa, 0x21} {
		if r.Chance(1, 3) {
			var at []byte
			if r.Chance(1, 3) {
				at = cbfsAttrs(r, uint32(r.Pick(0, 1, 2)))
			}
			recs = append(recs, cbRec{"f" + strconv.Itoa(int(t)), t, at, r.Bytes(r.Pick(0, 1, 16, 33)), nil})
		}
	}
	recs = append(recs, cbRec{"bootblock", 1, nil, r.Bytes(17), nil})
	arch, fs := cbfsArchive(r, recs)
	s := seedFmap(r, 3, arch)
	s.name = "cbfs"
	s.fields = append(s.fields, shift(fs, 0x400)...)
	return s
}

// ---------- FIT ----------

func acmBytes(r *Rng, version int, user int) ([]byte, []fld) {
	var buf bytes.Buffer
	common := fit.EntrySACMDataCommon{ModuleType: 2, ModuleSubType: 1, HeaderVersion: fit.ACHeaderVersion0, ChipsetID: 0xB00C, ModuleVendor: 0x8086, Date: 0x20230101}
	var total int
	switch version {
	case 0:
		d := fit.EntrySACMData0{EntrySACMDataCommon: common}
		d.KeySize.SetSize(uint64(len(d.RSAPubKey)))
		d.ScratchSize.SetSize(uint64(len(d.Scratch)))
		total = binary.Size(d) + user
		d.HeaderLen.SetSize(uint64(binary.Size(d)))
		d.Size.SetSize(uint64(total))
		_ = binary.Write(&buf, binary.LittleEndian, &d)
	case 3:
		d := fit.EntrySACMData3{EntrySACMDataCommon: common}
		d.HeaderVersion = fit.ACHeaderVersion3
		d.KeySize.SetSize(uint64(len(d.RSAPubKey)))
		d.ScratchSize.SetSize(uint64(len(d.Scratch)))
		total = binary.Size(d) + user
		d.HeaderLen.SetSize(uint64(binary.Size(d)))
		d.Size.SetSize(uint64(total))
		_ = binary.Write(&buf, binary.LittleEndian, &d)
	default:
		d := fit.EntrySACMData4{EntrySACMDataCommon: common}
		d.HeaderVersion = fit.ACHeaderVersion4
		d.KeySize.SetSize(uint64(len(d.RSAPubKey)))
		d.ScratchSize.SetSize(uint64(len(d.Scratch)))
		total = binary.Size(d) + user
		d.HeaderLen.SetSize(uint64(binary.Size(d)))
		d.Size.SetSize(uint64(total))
		_ = binary.Write(&buf, binary.LittleEndian, &d)
	}
	buf.Write(r.Bytes(user))
	fs := []fld{{4, 4, false, 4}, {8, 4, false, 1}, {24, 4, false, 4}, {120, 4, false, 4}, {124, 4, false, 4}}
	return buf.Bytes(), fs
}

// a FIT image assembled by the package's own RecalculateHeaders + Inject
func seedFit(r *Rng, km, bpm []byte, acmVersion int) seed {
	acm, acmF := acmBytes(r, acmVersion, 64)
	type item struct {
		e fit.Entry
		d []byte
	}
	items := []item{
		{&fit.EntryFITHeaderEntry{}, nil},
		{&fit.EntryMicrocodeUpdateEntry{}, r.Bytes(48)},
		{&fit.EntrySACM{}, acm},
		{&fit.EntryBIOSStartupModuleEntry{}, r.Bytes(64)},
		{&fit.EntryTXTPolicyRecord{}, nil},
		{&fit.EntryKeyManifestRecord{}, km},
		{&fit.EntryBootPolicyManifestRecord{}, bpm},
		{&fit.EntryUnknown{}, r.Bytes(16)},
	}
	dataLen := 0
	for _, it := range items {
		dataLen += (len(it.d) + 15) / 16 * 16
	}
	size := (0x200 + dataLen + 0x100 + 0xfff) / 0x1000 * 0x1000
	img := make([]byte, size)
	tableOff := 0x80
	cur := 0x80 + 16*len(items) + 0x40
	cur = (cur + 15) / 16 * 16
	var es fit.Entries
	var dataOffs []int
	for _, it := range items {
		b := it.e.GetEntryBase()
		dataOffs = append(dataOffs, cur)
		if len(it.d) > 0 {
			b.Headers.Address.SetOffset(uint64(cur), uint64(size))
			b.DataSegmentBytes = it.d
			cur += (len(it.d) + 15) / 16 * 16
		}
		if _, ok := it.e.(*fit.EntryUnknown); ok {
			b.Headers.TypeAndIsChecksumValid = fit.TypeAndIsChecksumValid(0x2E)
		}
		es = append(es, it.e)
	}
	_ = es.RecalculateHeaders()
	_ = es.Inject(img, uint64(tableOff))
	s := seed{name: "fit_entries", b: img}
	s.fields = append(s.fields, fld{size - 0x40, 8, false, 1})
	for i := range items {
		s.fields = append(s.fields, fld{tableOff + 16*i, 8, false, 1}, fld{tableOff + 16*i + 8, 3, false, 1}, fld{tableOff + 16*i + 14, 1, false, 1})
	}
	s.fields = append(s.fields, shift(acmF, dataOffs[2])...)
	return s
}

func seedACM(r *Rng, version int) seed {
	b, fs := acmBytes(r, version, r.Pick(0, 4, 64, 200))
	return seed{name: "fit_sacm", b: b, fields: fs}
}

// ---------- AMD ----------

func le16b(v uint16) []byte { b := make([]byte, 2); binary.LittleEndian.PutUint16(b, v); return b }

// root key blob: newTokenOrRootKey layout; certifying id = id
func psbKeyBlob(id, cert []byte, usage uint32, expBits, modBits uint32, exp, mod []byte) *bld {
	x := &bld{}
	x.u32(1).raw(id).raw(cert).u32(uint64(usage)).zero(16)
	x.num(uint64(expBits), 4, false, true, -8).num(uint64(modBits), 4, false, true, -8)
	x.raw(exp).raw(mod)
	return x
}

var seedKeyID = bytes.Repeat([]byte{0x11}, 16)

func rootKeySeedBytes() []byte {
	if k := artifactCached("pkg/amd/psb/keys_artifacts_test.go", "amdRootKey"); len(k) > 64 {
		return k
	}
	mod := bytes.Repeat([]byte{0xC3}, 256)
	exp := make([]byte, 256)
	exp[0], exp[2] = 1, 1
	return psbKeyBlob(seedKeyID, seedKeyID, 0, 2048, 2048, exp, mod).b
}

// the id of the root key the worker's key set holds
func rootKeyID() []byte { return rootKeySeedBytes()[4:20] }

func seedRootKey(r *Rng) seed {
	mod := r.Bytes(256)
	exp := make([]byte, 256)
	exp[0], exp[2] = 1, 1
	id := r.Bytes(16)
	x := psbKeyBlob(id, id, uint32(r.Pick(0, 1, 2, 8)), 2048, 2048, exp, mod)
	return x.seed("psb_keys")
}

func seedTokenKey(r *Rng) seed { return seedTokenKeySized(r, 2048, 2048, 512) }

// seedTokenKeySized: a token key with the given exponent / modulus sizes (bits) followed by sigLen
// signature bytes.  The certifying key of the worker's key set has its own modulus size, so keys
// larger and smaller than their signer, with a full-width or a short exponent field, and with a
// signature shorter / longer than the signer's modulus all occur.
func seedTokenKeySized(r *Rng, expBits, modBits, sigLen int) seed {
	mod := r.Bytes(modBits / 8)
	exp := make([]byte, expBits/8)
	if len(exp) >= 3 {
		exp[0], exp[2] = 1, 1
	}
	x := psbKeyBlob(r.Bytes(16), rootKeyID(), 8, uint32(expBits), uint32(modBits), exp, mod)
	x.raw(r.Bytes(sigLen))
	return x.seed("psb_keys")
}

func seedKeyDB(r *Rng, n int) seed {
	x := &bld{}
	x.L32(uint64(80 + n*(80+256))).u32(1).u32(0x424B4424).zero(36).zero(32)
	for i := 0; i < n; i++ {
		x.L32(80 + 256).u32(1).u32(uint64(r.Pick(0, 1, 2, 8))).raw([]byte{1, 0, 1, 0}).raw(r.Bytes(16))
		x.num(2048, 4, false, true, -8).zero(44).raw(r.Bytes(256))
	}
	return x.seed("psb_keydb")
}

// PSP binary: 256-byte header, body, signature; fields at their wire offsets
func pspBinary(r *Rng, keyID []byte, body, sigLen int, compressed bool) *bld {
	x := &bld{}
	total := 256 + body + sigLen
	x.raw(r.Bytes(16)).u32(1)
	if compressed {
		x.L32(uint64(r.Pick(1, body)))
	} else {
		x.L32(uint64(body))
	}
	x.u32(0).u8(0).zero(3).zero(16).u32(1).u32(0).raw(keyID)
	if compressed {
		x.L32(1)
	} else {
		x.L32(0)
	}
	x.u32(0).L32(uint64(body * 3)).L32(uint64(body)).zero(8).u32(0).u32(0).u32(0)
	x.L32(uint64(total)).L32(0).u32(0).zero(4).u8(0).u8(0).u16(0).zero(16).zero(16).zero(32).zero(16)
	for len(x.b) < 256 {
		x.u8(0)
	}
	x.raw(r.Bytes(body)).raw(r.Bytes(sigLen))
	return x
}

func pspRec(x *bld, typ, sub uint8, flags uint16, size uint32, loc uint64) {
	x.u8(uint64(typ)).u8(uint64(sub)).u16(uint64(flags)).L32(uint64(size)).L64(loc)
}
func biosRec(x *bld, typ, region, f1, f2 uint8, size uint32, src, dst uint64) {
	x.u8(uint64(typ)).u8(uint64(region)).u8(uint64(f1)).u8(uint64(f2)).L32(uint64(size)).L64(src).u64(dst)
}

// a synthetic AMD image of 0x70000 bytes: EFS at the first probed address, PSP and BIOS
// directories of both levels, a root key, a key database, a token key and PSP binaries
func seedAmdImage(r *Rng) seed {
	const size = 0x70000
	img := bytes.Repeat([]byte{0xff}, size)
	var fs []fld
	put := func(off int, x *bld) {
		copy(img[off:], x.b)
		fs = append(fs, shift(x.f, off)...)
	}
	const efsOff = 0x10000 // 0xFFFA0000 - (4 GiB - size)
	rootKey := rootKeySeedBytes()
	kdb := pspBinary(r, rootKeyID(), 80+336, 512, false)
	tok := seedTokenKey(r)
	smu := pspBinary(r, rootKeyID(), 0x120, 512, r.Bool())
	efs := &bld{}
	efs.u32(0x55AA55AA).zero(16).L32(0x11000).L32(0x18000).L32(0).L32(0).u32(0).L32(0).zero(30)
	put(efsOff, efs)
	p1 := &bld{}
	p1.raw([]byte("$PSP")).u32(0).L32(6).u32(0)
	pspRec(p1, 0x00, 0, 0, uint32(len(rootKey)), 0x12000)
	pspRec(p1, 0x50, 0, 0, uint32(len(kdb.b)), 0x13000)
	pspRec(p1, 0x0A, 0, 0, uint32(len(tok.b)), 0x14000)
	pspRec(p1, 0x08, 0, 0, uint32(len(smu.b)), 0x15000)
	pspRec(p1, 0x01, 0, 0, 0x100, 0x16000)
	pspRec(p1, 0x40, 0, 0, 0x400, 0x20000)
	put(0x11000, p1)
	put(0x12000, (&bld{}).raw(rootKey))
	fs = append(fs, fld{0x12000 + 56, 4, false, -8}, fld{0x12000 + 60, 4, false, -8})
	put(0x13000, kdb)
	put(0x14000, &bld{b: tok.b, f: tok.fields})
	put(0x15000, smu)
	p2 := &bld{}
	p2.raw([]byte("$PL2")).u32(0).L32(3).u32(0)
	pspRec(p2, 0x50, 0, 0, uint32(len(kdb.b)), 0x13000)
	pspRec(p2, 0x0A, 0, 0, uint32(len(tok.b)), 0x14000)
	pspRec(p2, 0x12, 0, 0, uint32(len(smu.b)), 0x15000)
	put(0x20000, p2)
	b1 := &bld{}
	b1.raw([]byte("$BHD")).u32(0).L32(4).u32(0)
	biosRec(b1, 0x05, 0, 0, 0, uint32(len(tok.b)), 0x14000, 0)
	biosRec(b1, 0x62, 0, 0x01, 0, 0x800, 0x30000, 0x76000000)
	biosRec(b1, 0x07, 0, 0, 0, 0x200, 0x31000, 0)
	biosRec(b1, 0x70, 0, 0, 0, 0x400, 0x28000, 0)
	put(0x18000, b1)
	b2 := &bld{}
	b2.raw([]byte("$BL2")).u32(0).L32(3).u32(0)
	biosRec(b2, 0x05, 0, 0, 0, uint32(len(tok.b)), 0x14000, 0)
	biosRec(b2, 0x62, 0, 0x11, 0, 0x800, 0x30000, 0x76000000)
	biosRec(b2, 0x07, 0, 0, 0, 0x200, 0x31000, 0)
	put(0x28000, b2)
	copy(img[0x30000:], r.Bytes(0x800))
	copy(img[0x31000:], r.Bytes(0x200))
	return seed{name: "amd_firmware", b: img, fields: fs, sparse: true, fill: 0xff}
}

// the real firmware image of the psb tests (16 MiB, almost entirely fill bytes)
func seedAmdRealImage() (seed, bool) {
	c := artifact("pkg/amd/psb/pspbinary_artifacts_test.go", "firmwareImageCompressed")
	if c == nil {
		return seed{}, false
	}
	rd, err := zstd.NewReader(nil)
	if err != nil {
		return seed{}, false
	}
	img, err := rd.DecodeAll(c, nil)
	if err != nil || len(img) == 0 {
		return seed{}, false
	}
	var n0, nf int
	for _, b := range img {
		if b == 0 {
			n0++
		} else if b == 0xff {
			nf++
		}
	}
	fill := byte(0xff)
	if n0 > nf {
		fill = 0
	}
	s := seed{name: "amd_firmware", b: img, sparse: true, fill: fill}
	// field map: the directory tables found by their cookies
	for _, ck := range []string{"$PSP", "$PL2", "$BHD", "$BL2"} {
		for from := 0; ; {
			i := bytes.Index(img[from:], []byte(ck))
			if i < 0 {
				break
			}
			i += from
			from = i + 4
			if i+16 > len(img) {
				break
			}
			total := int(binary.LittleEndian.Uint32(img[i+8:]))
			s.fields = append(s.fields, fld{i + 8, 4, false, 1})
			esz := 16
			if ck[1] == 'B' {
				esz = 24
			}
			for k := 0; k < total && k < 64 && i+16+(k+1)*esz <= len(img); k++ {
				s.fields = append(s.fields, fld{i + 16 + k*esz + 4, 4, false, 1}, fld{i + 16 + k*esz + 8, 8, false, 1})
			}
		}
	}
	return s, true
}

func seedAmdTable(r *Rng, bios bool) seed {
	x := &bld{}
	n := r.Pick(0, 1, 3, 8)
	if bios {
		x.raw([]byte("$BHD")).u32(0).L32(uint64(n)).u32(0)
		for i := 0; i < n; i++ {
			biosRec(x, uint8(r.Intn(256)), 0, uint8(r.Intn(256)), uint8(r.Intn(256)), uint32(r.Intn(4096)), uint64(r.Intn(1<<20)), r.U64())
		}
	} else {
		x.raw([]byte("$PSP")).u32(0).L32(uint64(n)).u32(0)
		for i := 0; i < n; i++ {
			pspRec(x, uint8(r.Intn(256)), 0, uint16(r.Intn(65536)), uint32(r.Intn(4096)), uint64(r.Intn(1<<20)))
		}
	}
	x.raw(r.Bytes(r.Pick(0, 5, 40)))
	return x.seed("amd_tables")
}

func seedEFS(r *Rng) seed {
	x := &bld{}
	x.u32(0x55AA55AA).zero(16).L32(uint64(r.Intn(1 << 20))).L32(uint64(r.Intn(1 << 20))).L32(0).L32(0).u32(0).L32(0).zero(30)
	return x.seed("amd_tables")
}

// ---------- APCB ----------

func apcbMarks(b []byte) []fld {
	fs := []fld{{4, 2, false, 1}, {8, 4, false, 1}}
	if len(b) < 32 {
		return fs
	}
	off := int(binary.LittleEndian.Uint16(b[4:]))
	end := int(binary.LittleEndian.Uint32(b[8:]))
	for g := 0; off+16 <= len(b) && off < end && g < 64; g++ {
		gh := int(binary.LittleEndian.Uint16(b[off+6:]))
		gs := int(binary.LittleEndian.Uint32(b[off+12:]))
		fs = append(fs, fld{off + 6, 2, false, 1}, fld{off + 12, 4, false, 1})
		t := off + gh
		for k := 0; t+16 <= len(b) && t < off+gs && k < 64; k++ {
			ts := int(binary.LittleEndian.Uint16(b[t+4:]))
			fs = append(fs, fld{t + 4, 2, false, 1}, fld{t + 10, 1, false, 1}, fld{t + 12, 1, false, 1}, fld{t + 13, 1, false, 1})
			if ts < 16 {
				break
			}
			t += (ts + 3) / 4 * 4
		}
		if gs < 16 {
			break
		}
		off += gs
	}
	return fs
}

func seedApcbReal() (seed, bool) {
	f, err := os.Open(filepath.Join(repoPath(), "pkg/amd/apcb/testdata/apcb_binary.xz"))
	if err != nil {
		return seed{}, false
	}
	defer f.Close()
	rd, err := xz.NewReader(f)
	if err != nil {
		return seed{}, false
	}
	b, err := io.ReadAll(rd)
	if err != nil || len(b) < 32 {
		return seed{}, false
	}
	if n := int(binary.LittleEndian.Uint32(b[8:])); n > 0 && n < len(b) {
		b = b[:n+16] // the blob and a little of what follows it
	}
	return seed{name: "apcb_parse", b: b, fields: apcbMarks(b)}, true
}

// a small synthetic APCB: v3 header, one token group with boolean / 1 / 2 / 4 byte token types
func seedApcbSynthetic(r *Rng) seed { return seedApcbShaped(r, 0) }

// seedApcbShaped: shape 0 = one token group with four types; 1 = header only (no group at all);
// 2 = only a group the package skips (not the token group); 3 = a token group without types;
// 4 = a foreign group in front of the token group; 5 = a token group holding a single type
func seedApcbShaped(r *Rng, shape int) seed {
	body := &bld{}
	types := []struct{ typeID, unit int }{{0, 1}, {1, 1}, {2, 2}, {4, 4}}
	switch shape {
	case 1, 2, 3:
		types = nil
	case 5:
		types = types[r.Intn(4):][:1]
	}
	for _, t := range types {
		n := r.Pick(1, 2, 3)
		x := &bld{}
		x.u16(0x3000).u16(uint64(t.typeID)).u16(uint64(16 + 8*n)).u16(0).u8(2).u8(1).u8(8).u8(uint64(r.Pick(0x20, 0x10, 0xff))).u8(4).u8(0).u16(0xffff)
		for i := 0; i < n; i++ {
			x.u32(uint64(r.U64() & 0xffffffff)).u32(uint64(r.U64()) & wmask(max(t.unit, 1)))
		}
		body.raw(x.b)
	}
	grp := &bld{}
	foreign := &bld{}
	foreign.raw([]byte("MEMG")).u16(0x1704).u16(16).u16(1).u16(0).u32(uint64(16 + 24)).raw(r.Bytes(24))
	switch shape {
	case 1:
	case 2:
		grp.raw(foreign.b)
	case 4:
		grp.raw(foreign.b)
		fallthrough
	default:
		grp.raw([]byte("TOKN")).u16(0x3000).u16(16).u16(1).u16(0).u32(uint64(16 + len(body.b))).raw(body.b)
	}
	h := &bld{}
	total := 128 + len(grp.b)
	h.raw([]byte("APCB")).u16(128).u16(0x30).u32(uint64(total)).u32(0x22ef).u8(0).zero(3).zero(12)
	h.raw([]byte("ECB2")).u16(0).u16(0x10).u16(0x12).u16(0x100).u32(0x60).u16(0).u16(0xffff).u16(0x40).u16(0).zero(8)
	h.u16(0x58).u8(0).u8(0).zero(12).zero(32).zero(12).raw([]byte("BCBA"))
	b := append(h.b, grp.b...)
	return seed{name: "apcb_parse", b: b, fields: apcbMarks(b)}
}

// ---------- microcode, ME, FSP ----------

func seedMicrocode(r *Rng, dataWords int, ext int) seed {
	x := &bld{}
	data := r.Bytes(4 * dataWords)
	total := 48 + len(data)
	if ext >= 0 {
		total += 20 + 12*ext
	}
	x.u32(1).u32(uint64(r.U64() & 0xffffffff)).u32(0x09192022).u32(0x906a3).u32(0).u32(1).u32(0x80)
	x.L32(uint64(len(data))).L32(uint64(total)).zero(12).raw(data)
	// fix the checksum (header field 4)
	var sum uint32
	for i := 0; i+4 <= len(x.b); i += 4 {
		sum += binary.LittleEndian.Uint32(x.b[i:])
	}
	binary.LittleEndian.PutUint32(x.b[16:], -sum)
	if ext >= 0 {
		base := len(x.b)
		x.L32(uint64(ext)).u32(0).zero(12)
		for i := 0; i < ext; i++ {
			x.u32(uint64(0x906a3 + i)).u32(0x80).u32(uint64(r.U64() & 0xffffffff))
		}
		var s2 uint32
		for i := base; i+4 <= len(x.b); i += 4 {
			s2 += binary.LittleEndian.Uint32(x.b[i:])
		}
		binary.LittleEndian.PutUint32(x.b[base+4:], -s2)
	}
	return x.seed("microcode")
}

func seedME(r *Rng, legacy bool, n int) seed {
	x := &bld{}
	if legacy {
		x.zero(16)
	}
	x.raw([]byte("$FPT")).L32(uint64(n)).u8(0x20).u8(0x10).L8(uint64(r.Pick(0x20, 0x30))).u8(0).u16(0).u16(0).u32(0).u32(0)
	if !legacy {
		x.u16(11).u16(8).u16(50).u16(1000)
	}
	for i := 0; i < n; i++ {
		x.raw([]byte("PART")).raw([]byte("OWNR")).L32(uint64(r.Intn(1 << 20))).L32(uint64(r.Intn(1 << 16))).u32(0).u32(0).u32(0).u32(uint64(r.U64() & 0xffffffff))
	}
	x.raw(r.Bytes(r.Pick(0, 3, 31)))
	return x.seed("me")
}

func seedFSP(r *Rng, rev int) seed {
	x := &bld{}
	l := 72
	if rev == 5 {
		l = 76
	} else if rev >= 6 {
		l = 80
	}
	x.raw([]byte("FSPH")).L32(uint64(l)).zero(2).L8(0x20 + uint64(r.Intn(4))).L8(uint64(rev))
	x.u32(uint64(r.U64() & 0xffffffff)).raw([]byte("$FSPIMG$")).L32(0x40000).u32(0xFFF80000).u16(3).u16(0x3001)
	x.L32(0x124).L32(0x200).zero(4).L32(0x1000).zero(4).L32(0).L32(0x2000).L32(0x3000).L32(0x4000)
	x.L32(0x5000).u16(uint64(r.Intn(65536))).u16(0)
	x.raw(r.Bytes(r.Pick(0, 8)))
	return x.seed("fsp")
}

// ---------- compression ----------

// zlibFrames: the size field of the 256-byte section header made consistent with the buffer
// length for buffers shorter than / exactly / just longer than the header (the field is compared
// with uint32(len - 256), which wraps for short buffers: a truncated seed alone never passes it)
func zlibFrames(r *Rng) []seed {
	var out []seed
	for _, n := range []int{24, 25, 100, 255, 256, 257, 258, 300} {
		b := make([]byte, n)
		if n > 256 {
			copy(b[256:], r.Bytes(n-256))
		}
		binary.LittleEndian.PutUint32(b[20:], uint32(n-256))
		out = append(out, seed{name: "zlib", b: b, bare: true})
	}
	return out
}

// smallDict rewrites the dictionary size an LZMA stream header announces (bytes 1..4) from the
// 8 MiB fiano's encoder always writes to 64 KiB: still a valid stream for a small payload, and
// the third-party reader then allocates 64 KiB instead of 8 MiB per case.  Used for the seeds that
// exist in many copies (CBFS records, the additional LZMAX86 payloads); the main LZMA / LZMAX86
// seeds stay exactly as the encoder produced them.
func smallDict(e []byte) []byte {
	if len(e) >= 13 {
		binary.LittleEndian.PutUint32(e[1:], 1<<16)
	}
	return e
}

// lzmax86Tails: valid LZMA streams whose payloads put a branch opcode (E8 / E9) at each of the
// last six positions, once behind filler and once right behind another opcode (the filter's mask
// state differs), and payloads of 0..5 bytes (shorter than one instruction).  The x86 filter
// looks four bytes ahead of every opcode, so where the last opcode sits relative to the end of
// the data is the boundary of every index it computes.
func lzmax86Tails() []seed {
	var out []seed
	enc := func(plain []byte) {
		if e, err := (&compression.LZMA{}).Encode(plain); err == nil {
			out = append(out, seed{name: "lzmax86", b: smallDict(e), bare: true})
		}
	}
	for n := 0; n <= 5; n++ {
		p := make([]byte, n)
		for i := range p {
			p[i] = 0xE8
		}
		enc(p)
	}
	for _, op := range []byte{0xE8, 0xE9} {
		for k := 1; k <= 6; k++ {
			for _, pre := range [][]byte{{0x90, 0x90, 0x90, 0x90, 0x90, 0x90, 0x90, 0x90}, {0x90, 0x90, 0x90, 0x90, 0x90, 0x90, op, 0x00}, {0x90, 0x90, 0x90, op, 0x01, 0x02, 0x03, 0x00}} {
				p := append(append([]byte{}, pre...), op)
				for i := 1; i < k; i++ {
					p = append(p, byte(i))
				}
				enc(p)
			}
		}
	}
	return out
}

func seedCompressed(r *Rng, which string) (seed, bool) {
	plain := bytes.Repeat([]byte("fiano C20 seed "), r.Pick(1, 4, 30))
	plain = append(plain, r.Bytes(r.Pick(0, 16, 100))...)
	var c compression.Compressor
	s := seed{name: which}
	switch which {
	case "lzma":
		c = &compression.LZMA{}
		s.fields = []fld{{1, 4, false, 1}, {5, 8, false, 1}, {0, 1, false, 1}}
	case "lzmax86":
		c = &compression.LZMA{}
		plain = append(plain, 0xE8, 1, 2, 3, 4, 0xE9, 0xff, 0xff, 0xff, 0xff, 5, 6, 7, 8)
		// the branch filter looks four bytes ahead of every E8 / E9: opcodes in each of the last
		// six positions, and payloads shorter than one instruction
		switch r.Intn(4) {
		case 0:
			plain = plain[:r.Intn(6)]
		case 1, 2:
			tail := r.Bytes(6)
			tail[r.Intn(6)] = byte(r.Pick(0xE8, 0xE9))
			if r.Bool() {
				tail[r.Intn(6)] = byte(r.Pick(0xE8, 0xE9))
			}
			plain = append(plain, tail...)
		}
		s.fields = []fld{{1, 4, false, 1}, {5, 8, false, 1}}
	case "lz4":
		c = &compression.LZ4{}
		s.fields = []fld{{4, 1, false, 1}, {5, 1, false, 1}, {7, 4, false, 1}}
	case "zlib":
		c = &compression.ZLIB{}
		s.fields = []fld{{20, 4, false, 1}}
	default:
		return s, false
	}
	e, err := c.Encode(plain)
	if err != nil {
		return s, false
	}
	s.b = e
	return s, true
}
