package main

// Boundary values of the image LENGTH (not of a field): several parsers locate their structure
// relative to the end of the image -- the AMD embedded firmware structure at (physical anchor -
// (4 GiB - len)), the FIT pointer at len-0x40, a flash map / CBFS record that ends where the
// image ends.  This stream draws lengths at every such anchor +- 0..8 with trivial content
// (FF-filled, zero-filled, or just the one signature the probe looks for), written sparsely so
// that a 16 MiB case is a few dozen characters.

import (
	"encoding/binary"

	. "verifharness/common"
)

// 4 GiB minus each address FindEmbeddedFirmwareStructure probes
var efsAnchors = []int{0x60000, 0xE0000, 0x1E0000, 0x3E0000, 0x7E0000, 0xFE0000}

func sparseArg(size int, fill byte, chunks map[int][]byte) string {
	s := seed{sparse: true, fill: fill}
	b := make([]byte, size)
	if fill != 0 {
		for i := range b {
			b[i] = fill
		}
	}
	for off, c := range chunks {
		if off >= 0 && off+len(c) <= size {
			copy(b[off:], c)
		}
	}
	return encodeInput(s, b)
}

func genLengths(r *Rng, thorough bool, emit Emit) {
	efsSig := []byte{0xaa, 0x55, 0xaa, 0x55}
	// ---- AMD: image lengths around every probed anchor ----
	for ai, a := range efsAnchors {
		for d := -8; d <= 8; d++ {
			l := a + d
			big := a >= 0x7E0000
			for _, fill := range []byte{0xff, 0x00} {
				if big && !thorough && fill == 0 && (d < -4 || d > 1) {
					continue // the two largest anchors: zero fill only next to the wrap in the quick tier
				}
				in := sparseArg(l, fill, nil)
				emit("P", "p_total_amd_firmware", in)
				if !big || thorough || fill == 0xff {
					emit("P", "p_total_amd_tables", in)
				}
			}
			// the signature exactly where this anchor (and, shifted, the previous one) is probed
			if d >= 0 {
				ch := map[int][]byte{d: efsSig}
				if ai > 0 {
					ch[l-efsAnchors[ai-1]] = efsSig
				}
				emit("P", "p_total_amd_firmware", sparseArg(l, 0xff, ch))
			}
		}
	}
	// ---- FIT: the pointer lives at len-0x40 ----
	for l := 0x30; l <= 0x58; l++ {
		for _, fill := range []byte{0xff, 0x00} {
			in := sparseArg(l, fill, nil)
			emit("P", "p_total_fit_table", in)
			emit("P", "p_total_fit_entries", in)
			emit("P", "p_total_fit_inject", in)
			if fill == 0xff {
				emit("C", "cls_fit_table", H(decodeInput(in)))
			}
		}
	}
	// a pointer that puts the table k bytes before the end of the image, with and without the
	// table magic there, for table sizes around what is left
	magic := []byte("_FIT_   ")
	for _, l := range []int{0x40, 0x48, 0x60, 0x100, 0x1000} {
		for k := 0; k <= 40; k++ {
			ptr := make([]byte, 8)
			binary.LittleEndian.PutUint64(ptr, uint64(1<<32-k))
			for _, n := range []int{0, 1, 2, 3, 0xffffff} {
				ch := map[int][]byte{l - 0x40: ptr}
				if n > 0 || k%4 == 0 {
					hdr := append(append([]byte{}, magic...), byte(n), byte(n>>8), byte(n>>16), 0, 0, 1, 0x80, 0)
					if k >= 16 {
						ch[l-k] = hdr
					} else if k >= 8 {
						ch[l-k] = hdr[:k]
					}
				}
				in := sparseArg(l, 0xff, ch)
				emit("P", "p_total_fit_table", in)
				emit("P", "p_total_fit_entries", in)
				if n <= 1 {
					emit("P", "p_total_fit_inject", in)
				}
				if l <= 0x100 && (k+n)%3 == 0 {
					emit("C", "cls_fit_entries", H(decodeInput(in)))
				}
			}
		}
	}
	// ---- flash map / CBFS: a map, and a CBFS image, cut at every length near their end and
	// a map that starts k bytes before the end of the image ----
	fr := r.Fork(1)
	fm := seedFmap(fr, 2, nil)
	start := 0x40 // seedFmap writes the map at 0x40: header 56 bytes, areas 42 bytes each
	mapLen := 56 + 2*42
	if start+mapLen <= len(fm.b) {
		m := fm.b[start : start+mapLen]
		for k := 0; k <= mapLen+8; k++ {
			l := 0x200
			img := make([]byte, l)
			for i := range img {
				img[i] = 0xff
			}
			copy(img[max(l-k, 0):], m) // truncated by the end of the image when k < mapLen
			emit("P", "p_total_fmap", H(img))
			emit("P", "p_total_cbfs", H(img))
			if k%2 == 0 || thorough {
				emit("C", "cls_fmap", H(img))
			}
		}
		for n := start; n <= start+mapLen+8 && n <= len(fm.b); n++ {
			emit("P", "p_total_fmap", H(fm.b[:n]))
			emit("C", "cls_fmap", H(fm.b[:n]))
		}
	}
	cb := seedCbfs(r.Fork(2))
	for k := 0; k <= 96 && k < len(cb.b); k++ {
		emit("P", "p_total_cbfs", H(cb.b[:len(cb.b)-k]))
		if (k%3 == 0 || thorough) && len(cb.b)-k <= modelMax {
			emit("C", "cls_cbfs", H(cb.b[:len(cb.b)-k]))
		}
	}
}
