// c20: executor and generator for property C20 ("all other parsers are total").
//
//	P p_total_<entry> <input>   run the real entry point(s) on the bytes in the watchdogged
//	                            worker: ok unless it panics, hangs (5 s), is killed by the
//	                            1 GiB address-space ceiling, or allocates far beyond the input
//	C mc|me|fsp <bytes>         the newly modelled parsers (class + decoded fields)
//	C cls_<parser> <bytes>      class ok/err of the parsers modelled for other properties
//
// Inputs: valid seeds per format (seeds.go, manifest.go), every recorded length / count /
// offset / size field of a seed replaced by each boundary value (input.go), random flips,
// truncations and extensions, and every seed fed to the entry points of the other formats.
package main

import (
	"os"
	"path/filepath"
	"strings"
	"time"

	. "verifharness/common"
)

// which entry points a seed of the given kind is run through
func targets(kind string) []string {
	switch kind {
	case "fmap":
		return []string{"fmap", "cbfs"}
	case "cbfs":
		return []string{"cbfs", "fmap"}
	case "fit_entries":
		return []string{"fit_entries", "fit_table", "fit_inject"}
	case "fit_sacm":
		return []string{"fit_sacm"}
	case "bg_bgkey_Manifest":
		return []string{"bg_km", "fit_km"}
	case "bg_bgbootpolicy_Manifest":
		return []string{"bg_bpm", "fit_bpm"}
	case "cbnt_cbntkey_Manifest":
		return []string{"cbnt_km", "fit_km"}
	case "cbnt_cbntbootpolicy_Manifest":
		return []string{"cbnt_bpm", "fit_bpm"}
	case "amd_firmware":
		return []string{"amd_firmware"}
	case "amd_tables":
		return []string{"amd_tables"}
	case "psb_keys":
		return []string{"psb_keys"}
	case "psb_keydb":
		return []string{"psb_keydb", "psb_keys"}
	case "psb_binary":
		return []string{"psb_binary"}
	case "apcb_parse":
		return []string{"apcb_parse", "apcb_upsert"}
	case "lzma":
		return []string{"lzma", "lzmax86"}
	case "lzmax86":
		return []string{"lzmax86", "lzma"}
	}
	return []string{kind}
}

// C ops evaluated by the model for a seed kind (inputs must stay small: the models work on lists)
func cops(kind string) []string {
	switch kind {
	case "fmap":
		return []string{"cls_fmap", "cls_cbfs"}
	case "cbfs":
		return []string{"cls_cbfs", "cls_fmap"}
	case "fit_entries":
		return []string{"cls_fit_table", "cls_fit_entries"}
	case "amd_tables":
		return []string{"cls_psp_table", "cls_bios_table", "cls_find_psp", "cls_find_bios", "cls_efs"}
	case "psb_keys":
		return []string{"cls_rootkey"}
	case "apcb_parse":
		return []string{"cls_apcb"}
	case "microcode":
		return []string{"mc"}
	case "me":
		return []string{"me"}
	case "fsp":
		return []string{"fsp"}
	case "zlib":
		return []string{"cls_zlib_frame"}
	}
	return nil
}

const modelMax = 6000 // bytes: larger inputs are not given to the list-based models

func gen(r *Rng, tier string, emit Emit) {
	thorough := tier == "thorough"
	rounds := 1
	subst := 150 // boundary substitutions per seed (all of them when the seed has fewer)
	muts := 24   // random mutants per seed
	bigCases := 5 // cases on the real 16 MiB / 256 KiB artifacts
	if thorough {
		rounds, subst, muts, bigCases = 5, 500, 120, 40
	}

	run := func(s seed, b []byte, withModel bool) {
		in := encodeInput(s, b)
		if typeOf(s.name) != nil && !strings.HasSuffix(s.name, "_Manifest") {
			emit("P", "p_total_manifest", s.name, in) // a sub-structure's own ReadFrom
		} else {
			for _, t := range targets(s.name) {
				emit("P", "p_total_"+t, in)
			}
		}
		if withModel && !s.sparse && len(b) <= modelMax {
			for _, c := range cops(s.name) {
				emit("C", c, H(b))
			}
			if typeOf(s.name) != nil {
				emit("C", "cls_manifest", s.name, H(b))
			}
		}
	}

	var all []seed
	for round := 0; round < rounds; round++ {
		rr := r.Fork(uint64(1000 + round))
		var seeds []seed
		add := func(s seed, ok bool) {
			if ok && len(s.b) > 0 {
				seeds = append(seeds, s)
			}
		}
		add(seedFmap(rr.Fork(1), rr.Pick(0, 1, 3, 7), nil), true)
		add(seedCbfs(rr.Fork(2)), true)
		km, _ := manifestSeed(rr.Fork(3), pickStr(rr, "bg_bgkey_Manifest", "cbnt_cbntkey_Manifest"))
		bpm, _ := manifestSeed(rr.Fork(4), pickStr(rr, "bg_bgbootpolicy_Manifest", "cbnt_cbntbootpolicy_Manifest"))
		add(seedFit(rr.Fork(5), km.b, bpm.b, rr.Pick(0, 3, 4)), true)
		for _, v := range []int{0, 3, 4} {
			add(seedACM(rr.Fork(uint64(6+v)), v), true)
		}
		for i, e := range registry {
			if round > 0 && !strings.HasSuffix(e.name, "_Manifest") && !rr.Chance(1, 3) {
				continue
			}
			add(manifestSeed(rr.Fork(uint64(20+i)), e.name))
		}
		add(seedAmdImage(rr.Fork(60)), true)
		add(seedAmdTable(rr.Fork(61), false), true)
		add(seedAmdTable(rr.Fork(62), true), true)
		add(seedEFS(rr.Fork(63)), true)
		add(seedRootKey(rr.Fork(64)), true)
		add(seedTokenKey(rr.Fork(65)), true)
		add(seedKeyDB(rr.Fork(66), rr.Pick(1, 2, 3)), true)
		pb := pspBinary(rr.Fork(67), rootKeyID(), rr.Pick(0x10, 0x120, 0x400), 512, rr.Bool())
		add(pb.seed("psb_binary"), true)
		add(seedApcbSynthetic(rr.Fork(68)), true)
		if round == 0 {
			add(seedApcbReal())
			for _, nm := range []string{"amdRootKey", "oemSigningKey", "keyDB"} {
				if a := artifact("pkg/amd/psb/keys_artifacts_test.go", nm); a != nil {
					kind := "psb_keys"
					fs := []fld{{56, 4, false, -8}, {60, 4, false, -8}}
					if nm == "keyDB" {
						kind = "psb_keydb"
						fs = []fld{{0, 4, false, 1}, {80, 4, false, 1}, {80 + 32, 4, false, -8}}
					}
					add(seed{name: kind, b: a, fields: fs}, true)
				}
			}
			if a := artifact("pkg/amd/psb/pspbinary_artifacts_test.go", "smuOffChipFirmware"); a != nil {
				add(seed{name: "psb_binary", b: a, fields: []fld{{20, 4, false, 1}, {72, 4, false, 1}, {80, 4, false, 1}, {84, 4, false, 1}, {108, 4, false, 1}, {112, 4, false, 1}}}, true)
			}
		}
		add(seedMicrocode(rr.Fork(70), rr.Pick(1, 4, 25), -1), true)
		add(seedMicrocode(rr.Fork(71), rr.Pick(1, 8), rr.Pick(0, 1, 2, 5)), true)
		add(seedME(rr.Fork(72), false, rr.Pick(0, 1, 4)), true)
		add(seedME(rr.Fork(73), true, rr.Pick(0, 2, 5)), true)
		for _, rev := range []int{3, 4, 5, 6, 7} {
			add(seedFSP(rr.Fork(uint64(74+rev)), rev), true)
		}
		for i, c := range []string{"lzma", "lzmax86", "lz4", "zlib"} {
			add(seedCompressed(rr.Fork(uint64(90+i)), c))
		}
		add(seed{name: "brotli", b: rr.Bytes(rr.Pick(0, 1, 15, 16, 17, 40))}, true)

		for si, s := range seeds {
			sr := rr.Fork(uint64(5000 + si))
			budgetS, budgetM := subst, muts
			if s.sparse {
				budgetS, budgetM = subst/2, muts/3
			}
			run(s, s.b, true)
			// boundary-value substitution of every recorded field
			type sub struct {
				f fld
				v uint64
			}
			var subs []sub
			for _, f := range s.fields {
				if f.off < 0 || f.off+f.w > len(s.b) {
					continue
				}
				for _, v := range boundaryValues(len(s.b), f, getField(s.b, f)) {
					subs = append(subs, sub{f, v})
				}
			}
			// truncation aliases of the valid value: every field, every alias
			ak := 0
			for _, f := range s.fields {
				if f.off < 0 || f.off+f.w > len(s.b) {
					continue
				}
				for _, v := range aliasValues(f, getField(s.b, f)) {
					run(s, substitute(s.b, f, v), ak%4 == 0 || thorough)
					ak++
				}
			}
			for k := 0; k < budgetS && len(subs) > 0; k++ {
				i := sr.Intn(len(subs))
				x := subs[i]
				subs[i] = subs[len(subs)-1]
				subs = subs[:len(subs)-1]
				run(s, substitute(s.b, x.f, x.v), k%3 == 0 || thorough)
			}
			// truncations at every interesting length
			for _, n := range []int{0, 1, 3, 4, 11, 12, 15, 16, 23, 24, 47, 48, 63, 64, 79, 80, len(s.b) - 1, len(s.b) / 2} {
				if n >= 0 && n < len(s.b) && !s.sparse && sr.Chance(1, 2) {
					run(s, s.b[:n], true)
				}
			}
			for k := 0; k < budgetM; k++ {
				if s.sparse {
					// mutate inside the populated part only (keeps the case small)
					c := append([]byte{}, s.b...)
					if len(s.fields) > 0 {
						f := s.fields[sr.Intn(len(s.fields))]
						if f.off+f.w <= len(c) {
							c[f.off+sr.Intn(f.w)] ^= byte(1 << uint(sr.Intn(8)))
						}
					}
					run(s, c, false)
				} else {
					run(s, mutate(sr, s.b), true)
				}
			}
		}
		if round == 0 {
			all = seeds
		}
	}

	// every small seed through the entry points of the other formats
	var names []string
	for n := range entries {
		names = append(names, n)
	}
	sortStrings(names)
	cr := r.Fork(77)
	for _, s := range all {
		if s.sparse || len(s.b) > 4096 {
			continue
		}
		for _, n := range names {
			if cr.Chance(1, 3) {
				emit("P", "p_total_"+n, H(s.b))
			}
		}
	}
	for _, n := range names {
		for _, l := range []int{0, 1, 2, 4, 8, 15, 16, 17, 64, 255, 256, 257} {
			emit("P", "p_total_"+n, H(cr.Bytes(l)))
			emit("P", "p_total_"+n, H(make([]byte, l)))
		}
	}

	// the tree's large artifacts
	if real, ok := seedAmdRealImage(); ok {
		emit("P", "p_total_amd_firmware", encodeInput(real, real.b))
		br := r.Fork(88)
		for k := 0; k < bigCases*3 && len(real.fields) > 0; k++ {
			f := real.fields[br.Intn(len(real.fields))]
			vs := boundaryValues(len(real.b), f, getField(real.b, f))
			emit("P", "p_total_amd_firmware", encodeInput(real, substitute(real.b, f, vs[br.Intn(len(vs))])))
		}
		// truncation aliases of the directory pointers (level-2 PSP 0x40, level-2 BIOS 0x70) and,
		// budget permitting, of the other 64-bit locations
		n := 0
		for _, f := range real.fields {
			if f.w != 8 || f.off < 8 {
				continue
			}
			typ := real.b[f.off-8]
			if typ != 0x40 && typ != 0x70 && n >= bigCases*4 {
				continue
			}
			for _, v := range aliasValues(f, getField(real.b, f))[:3] {
				emit("P", "p_total_amd_firmware", encodeInput(real, substitute(real.b, f, v)))
				n++
			}
		}
	}
	if rom, err := os.ReadFile(filepath.Join(repoPath(), "pkg/cbfs/testdata/coreboot.rom")); err == nil {
		emit("P", "p_total_cbfs", H(rom))
		emit("P", "p_total_fmap", H(rom))
		br := r.Fork(89)
		for k := 0; k < bigCases; k++ {
			emit("P", "p_total_cbfs", H(mutate(br, rom)))
		}
	}
}

func sortStrings(s []string) {
	for i := 1; i < len(s); i++ {
		for j := i; j > 0 && s[j] < s[j-1]; j-- {
			s[j], s[j-1] = s[j-1], s[j]
		}
	}
}

func main() {
	CaseTimeout = 5 * time.Second
	// memory ceiling: 1 GiB above what the Go runtime has reserved at start-up (RLIMIT_AS
	// counts reserved address space, about 1.2 GiB for an idle process)
	MemLimit = vmSize() + 1<<30
	registerEntries()
	registerCOps()
	Main(gen)
}

func pickStr(r *Rng, xs ...string) string { return xs[r.Intn(len(xs))] }

// vmSize: the address space of this process right now, from /proc/self/statm (pages)
func vmSize() uint64 {
	b, err := os.ReadFile("/proc/self/statm")
	if err != nil {
		return 3 << 29
	}
	f := strings.Fields(string(b))
	if len(f) == 0 {
		return 3 << 29
	}
	var pages uint64
	for _, c := range f[0] {
		pages = pages*10 + uint64(c-'0')
	}
	return pages * uint64(os.Getpagesize())
}
