// c20: executor and generator for property C20 ("all other parsers are total").
//
//	P p_total_<entry> <input>   run the real entry point(s) on the bytes in the watchdogged
//	                            worker: ok unless it panics, hangs (5 s), is killed by the
//	                            1 GiB address-space ceiling, or allocates far beyond the input
//	P p_seed_ok <kind> <input>  is the unmodified seed accepted by its own entry point (ok / skip)
//	C mc|me|fsp|sacm|sacmsize <bytes>  the parsers modelled in Model/Misc.v (class + decoded fields)
//	C cls_<parser> <bytes>      class ok/err of the parsers modelled for other properties
//
// Inputs: valid seeds per format (seeds.go, manifest.go); every recorded length / count /
// offset / size field of a seed replaced by the core boundary values and the truncation aliases
// (every field, every value) and by a sampled larger boundary set (input.go); neighbouring
// fields changed together; truncations inside and behind every field; the seed with slack
// behind it; random flips, truncations and extensions; every seed fed to the entry points of
// the other formats; systematic families built as "bare" seeds.
package main

import (
	"os"
	"path/filepath"
	"strings"
	"time"

	. "verifharness/common"
)

// which entry points a seed of the given kind is run through
func targets(kind string) []string {
	switch kind {
	case "fmap":
		return []string{"fmap", "cbfs"}
	case "cbfs":
		return []string{"cbfs", "fmap"}
	case "fit_entries":
		return []string{"fit_entries", "fit_table", "fit_inject"}
	case "fit_sacm":
		return []string{"fit_sacm"}
	case "bg_bgkey_Manifest":
		return []string{"bg_km", "fit_km"}
	case "bg_bgbootpolicy_Manifest":
		return []string{"bg_bpm", "fit_bpm"}
	case "cbnt_cbntkey_Manifest":
		return []string{"cbnt_km", "fit_km"}
	case "cbnt_cbntbootpolicy_Manifest":
		return []string{"cbnt_bpm", "fit_bpm"}
	case "amd_firmware":
		return []string{"amd_firmware"}
	case "amd_tables":
		return []string{"amd_tables"}
	case "psb_keys":
		return []string{"psb_keys"}
	case "psb_keydb":
		return []string{"psb_keydb", "psb_keys"}
	case "psb_binary":
		return []string{"psb_binary"}
	case "apcb_parse":
		return []string{"apcb_parse", "apcb_upsert"}
	case "lzma":
		return []string{"lzma", "lzmax86"}
	case "lzmax86":
		return []string{"lzmax86", "lzma"}
	}
	return []string{kind}
}

// C ops evaluated by the model for a seed kind (inputs must stay small: the models work on lists)
func cops(kind string) []string {
	switch kind {
	case "fmap":
		return []string{"cls_fmap", "cls_cbfs"}
	case "cbfs":
		return []string{"cls_cbfs", "cls_fmap"}
	case "fit_entries":
		return []string{"cls_fit_table", "cls_fit_entries"}
	case "amd_tables":
		return []string{"cls_psp_table", "cls_bios_table", "cls_find_psp", "cls_find_bios", "cls_efs"}
	case "psb_keys":
		return []string{"cls_rootkey"}
	case "apcb_parse":
		return []string{"cls_apcb"}
	case "microcode":
		return []string{"mc"}
	case "me":
		return []string{"me"}
	case "fsp":
		return []string{"fsp"}
	case "fit_sacm":
		return []string{"sacm", "sacmsize"}
	case "zlib":
		return []string{"cls_zlib_frame"}
	}
	return nil
}

const modelMax = 8000 // bytes: larger inputs are not given to the list-based models

func gen(r *Rng, tier string, emit Emit) {
	thorough := tier == "thorough"
	rounds := 1
	subst := 70   // sampled boundary substitutions per seed (the core values are not sampled: every field gets them)
	muts := 20    // random mutants per seed
	bigCases := 5 // cases on the real 16 MiB / 256 KiB artifacts
	pairs := 50   // sampled two-field substitutions per seed (the core pairs are not sampled)
	cuts := 30    // truncations inside / at the end of recorded fields per seed
	if thorough {
		rounds, subst, muts, bigCases, pairs, cuts = 5, 500, 120, 40, 600, 400
	}

	nrun := 0
	run := func(s seed, b []byte, withModel bool) {
		in := encodeInput(s, b)
		if typeOf(s.name) != nil && !strings.HasSuffix(s.name, "_Manifest") {
			emit("P", "p_total_manifest", s.name, in) // a sub-structure's own ReadFrom
		} else {
			for k, t := range targets(s.name) {
				if k > 0 && s.light && s.name == "lzmax86" {
					break // the additional LZMAX86 payloads run through their own entry point only
				}
				if k > 0 && s.name == "cbfs" {
					// a CBFS image through fmap.Read as well: every fourth case (most CBFS fields
					// lie inside the archive, which the flash map reader does not look at)
					if nrun++; nrun%4 != 0 {
						continue
					}
				}
				emit("P", "p_total_"+t, in)
			}
		}
		if withModel && !s.sparse && len(b) <= modelMax {
			for _, c := range cops(s.name) {
				emit("C", c, H(b))
			}
			if typeOf(s.name) != nil {
				emit("C", "cls_manifest", s.name, H(b))
			}
		}
	}

	var all []seed
	for round := 0; round < rounds; round++ {
		rr := r.Fork(uint64(1000 + round))
		var seeds []seed
		add := func(s seed, ok bool) {
			if ok && len(s.b) > 0 {
				seeds = append(seeds, s)
			}
		}
		add(seedFmap(rr.Fork(1), rr.Pick(0, 1, 3, 7), nil), true)
		add(seedCbfs(rr.Fork(2)), true)
		km, _ := manifestSeed(rr.Fork(3), pickStr(rr, "bg_bgkey_Manifest", "cbnt_cbntkey_Manifest"))
		bpm, _ := manifestSeed(rr.Fork(4), pickStr(rr, "bg_bgbootpolicy_Manifest", "cbnt_cbntbootpolicy_Manifest"))
		add(seedFit(rr.Fork(5), km.b, bpm.b, rr.Pick(0, 3, 4)), true)
		for _, v := range []int{0, 3, 4} {
			add(seedACM(rr.Fork(uint64(6+v)), v), true)
		}
		for i, e := range registry {
			if round > 0 && !strings.HasSuffix(e.name, "_Manifest") && !rr.Chance(1, 3) {
				continue
			}
			ms, ok := manifestSeed(rr.Fork(uint64(20+i)), e.name)
			// the stand-alone sub-structures are also part of the four manifests, whose seeds get the
			// full budgets (and the generated readers are tied to the model by the translator)
			ms.light = !strings.HasSuffix(e.name, "_Manifest") && !thorough
			add(ms, ok)
		}
		add(seedAmdImage(rr.Fork(60)), true)
		add(seedAmdTable(rr.Fork(61), false), true)
		add(seedAmdTable(rr.Fork(62), true), true)
		add(seedEFS(rr.Fork(63)), true)
		add(seedRootKey(rr.Fork(64)), true)
		add(seedTokenKey(rr.Fork(65)), true)
		add(seedKeyDB(rr.Fork(66), rr.Pick(1, 2, 3)), true)
		pb := pspBinary(rr.Fork(67), rootKeyID(), rr.Pick(0x10, 0x120, 0x400), 512, rr.Bool())
		add(pb.seed("psb_binary"), true)
		add(seedApcbSynthetic(rr.Fork(68)), true)
		if round == 0 {
			add(seedApcbReal())
			for _, nm := range []string{"amdRootKey", "oemSigningKey", "keyDB"} {
				if a := artifact("pkg/amd/psb/keys_artifacts_test.go", nm); a != nil {
					kind := "psb_keys"
					fs := []fld{{56, 4, false, -8}, {60, 4, false, -8}}
					if nm == "keyDB" {
						kind = "psb_keydb"
						fs = []fld{{0, 4, false, 1}, {80, 4, false, 1}, {80 + 32, 4, false, -8}}
					}
					add(seed{name: kind, b: a, fields: fs}, true)
				}
			}
			if a := artifact("pkg/amd/psb/pspbinary_artifacts_test.go", "smuOffChipFirmware"); a != nil {
				add(seed{name: "psb_binary", b: a, fields: []fld{{20, 4, false, 1}, {72, 4, false, 1}, {80, 4, false, 1}, {84, 4, false, 1}, {108, 4, false, 1}, {112, 4, false, 1}}}, true)
			}
		}
		add(seedMicrocode(rr.Fork(70), rr.Pick(1, 4, 25), -1), true)
		add(seedMicrocode(rr.Fork(71), rr.Pick(1, 8), rr.Pick(0, 1, 2, 5)), true)
		add(seedME(rr.Fork(72), false, rr.Pick(0, 1, 4)), true)
		add(seedME(rr.Fork(73), true, rr.Pick(0, 2, 5)), true)
		for _, rev := range []int{3, 4, 5, 6, 7} {
			fs := seedFSP(rr.Fork(uint64(74+rev)), rev)
			fs.light = (rev == 4 || rev == 5 || rev == 7) && !thorough // 3 and 6 carry the full budgets
			add(fs, true)
		}
		for i, c := range []string{"lzma", "lzmax86", "lz4", "zlib"} {
			add(seedCompressed(rr.Fork(uint64(90+i)), c))
		}
		add(seed{name: "brotli", b: rr.Bytes(rr.Pick(0, 1, 15, 16, 17, 40))}, true)
		// further shapes of formats that already have a main seed (appended, so that the main
		// seeds keep their random streams): token keys larger / smaller than their signer and with
		// a short exponent field, APCB binaries without / with foreign / with empty token groups,
		// LZMAX86 payloads with branch opcodes in the last positions
		light := func(s seed, ok bool) {
			s.light = true
			if s.name == "lzmax86" {
				s.b = smallDict(s.b)
			}
			add(s, ok)
		}
		for i, c := range [][3]int{{32, 2048, 256}, {32, 4096, 512}, {32, 8192, 512}, {0, 8192, 512}, {2048, 1024, 128}, {4096, 4096, 512}, {8192, 8192, 1024}} {
			if (round == 0 && (i < 5 || thorough)) || (round > 0 && rr.Chance(1, 2)) {
				light(seedTokenKeySized(rr.Fork(uint64(100+i)), c[0], c[1], c[2]), true)
			}
		}
		// PSP binaries: the compressed and the uncompressed layout take different branches of
		// getSignedBlob; the main seed picks one of them at random, these two fix one each
		for i, comp := range []bool{false, true} {
			pb2 := pspBinary(rr.Fork(uint64(130+i)), rootKeyID(), rr.Pick(0x10, 0x120, 0x400), 512, comp)
			light(pb2.seed("psb_binary"), true)
		}
		for shape := 1; shape <= 5; shape++ {
			light(seedApcbShaped(rr.Fork(uint64(110+shape)), shape), true)
		}
		for i := 0; i < 2 || (thorough && i < 4); i++ {
			light(seedCompressed(rr.Fork(uint64(120+i)), "lzmax86"))
		}
		if round == 0 {
			for _, t := range lzmax86Tails() {
				add(t, true)
			}
			for _, t := range zlibFrames(rr.Fork(140)) {
				add(t, true)
			}
		}

		for si, s := range seeds {
			sr := rr.Fork(uint64(5000 + si))
			budgetS, budgetM := subst, muts
			if s.sparse {
				budgetS, budgetM = subst/2, muts/3
			}
			if s.light {
				budgetS, budgetM = subst/4, muts/3
			}
			if s.bare {
				if s.name != "zlib" { // the ZLIB frames are headers without a stream: not seeds
					emit("P", "p_seed_ok", s.name, encodeInput(s, s.b))
				}
				emit("P", "p_total_"+s.name, encodeInput(s, s.b))
				emit("P", "p_total_"+s.name, H(append(append([]byte{}, s.b...), 0)))
				for _, c := range cops(s.name) {
					emit("C", c, H(s.b))
				}
				continue
			}
			if s.name != "brotli" {
				emit("P", "p_seed_ok", s.name, encodeInput(s, s.b))
			}
			run(s, s.b, true)
			// the seed with slack behind it (zero, erased, random): where a structure ends and where
			// its buffer ends are two different things for every bound check
			if !s.sparse {
				for k, n := range []int{1, 16, 64} {
					t := make([]byte, n)
					switch k {
					case 1:
						for i := range t {
							t[i] = 0xff
						}
					case 2:
						t = sr.Bytes(n)
					}
					run(s, append(append([]byte{}, s.b...), t...), k == 0)
				}
			}
			// the core boundary values: every recorded field, every value
			ck := 0
			for fi, f := range s.fields {
				if f.off < 0 || f.off+f.w > len(s.b) {
					continue
				}
				for vi, v := range coreValues(len(s.b), f, getField(s.b, f)) {
					if s.sparse && !thorough && (fi+vi)%2 == 1 {
						continue // the large images: every other value per field in the quick tier
					}
					run(s, substitute(s.b, f, v), ck%4 == 0 || thorough)
					ck++
				}
			}
			// boundary-value substitution of every recorded field
			type sub struct {
				f fld
				v uint64
			}
			var subs []sub
			for _, f := range s.fields {
				if f.off < 0 || f.off+f.w > len(s.b) {
					continue
				}
				for _, v := range boundaryValues(len(s.b), f, getField(s.b, f)) {
					subs = append(subs, sub{f, v})
				}
			}
			// truncation aliases of the valid value: every field, every alias
			ak := 0
			for _, f := range s.fields {
				if f.off < 0 || f.off+f.w > len(s.b) {
					continue
				}
				for _, v := range aliasValues(f, getField(s.b, f)) {
					run(s, substitute(s.b, f, v), ak%4 == 0 || thorough)
					ak++
				}
			}
			for k := 0; k < budgetS && len(subs) > 0; k++ {
				i := sr.Intn(len(subs))
				x := subs[i]
				subs[i] = subs[len(subs)-1]
				subs = subs[:len(subs)-1]
				run(s, substitute(s.b, x.f, x.v), k%3 == 0 || thorough)
			}
			// two fields at once (neighbours in the field map, both orders, and next-but-one)
			var ps []pairSub
			for i := range s.fields {
				for _, j := range []int{i + 1, i + 2} {
					if j >= len(s.fields) {
						continue
					}
					f, g := s.fields[i], s.fields[j]
					if f.off < 0 || f.off+f.w > len(s.b) || g.off < 0 || g.off+g.w > len(s.b) {
						continue
					}
					ps = append(ps, pairValues(f, g, getField(s.b, f), getField(s.b, g))...)
					if j == i+1 {
						ps = append(ps, pairValues(g, f, getField(s.b, g), getField(s.b, f))...)
					}
				}
			}
			// ... of which "both zero" and "both raised by the same large amount" are not sampled
			if !s.sparse && !s.light {
				for i := range s.fields {
					for _, j := range []int{i + 1, i + 2} {
						if j >= len(s.fields) {
							continue
						}
						f, g := s.fields[i], s.fields[j]
						if f.off < 0 || f.off+f.w > len(s.b) || g.off < 0 || g.off+g.w > len(s.b) {
							continue
						}
						for k, x := range corePairs(f, g, getField(s.b, f), getField(s.b, g)) {
							run(s, substitute2(s.b, x), (i+k)%4 == 0 || thorough)
						}
					}
				}
			}
			pr := sr.Fork(7)
			budgetP := pairs
			if s.sparse || s.light {
				budgetP = pairs / 3
			}
			for k := 0; k < budgetP && len(ps) > 0; k++ {
				i := pr.Intn(len(ps))
				x := ps[i]
				ps[i] = ps[len(ps)-1]
				ps = ps[:len(ps)-1]
				run(s, substitute2(s.b, x), k%3 == 0 || thorough)
			}
			// truncations inside and right behind every recorded field
			if !s.sparse {
				var cs []int
				seenCut := map[int]bool{}
				for _, f := range s.fields {
					for n := f.off; n <= f.off+f.w+1; n++ {
						if n >= 0 && n < len(s.b) && !seenCut[n] {
							seenCut[n] = true
							cs = append(cs, n)
						}
					}
				}
				cr := sr.Fork(8)
				budgetC := cuts
				if s.light {
					budgetC = cuts / 3
				}
				for k := 0; k < budgetC && len(cs) > 0; k++ {
					i := cr.Intn(len(cs))
					n := cs[i]
					cs[i] = cs[len(cs)-1]
					cs = cs[:len(cs)-1]
					run(s, s.b[:n], k%2 == 0 || thorough)
				}
			}
			// truncations at every interesting length
			for _, n := range []int{0, 1, 3, 4, 11, 12, 15, 16, 23, 24, 25, 27, 28, 31, 32, 47, 48, 63, 64, 79, 80, 127, 128, 255, 256, 257, len(s.b) - 4, len(s.b) - 2, len(s.b) - 1, len(s.b) / 2} {
				if n >= 0 && n < len(s.b) && !s.sparse && sr.Chance(1, 2) {
					run(s, s.b[:n], true)
				}
			}
			for k := 0; k < budgetM; k++ {
				if s.sparse {
					// mutate inside the populated part only (keeps the case small)
					c := append([]byte{}, s.b...)
					if len(s.fields) > 0 {
						f := s.fields[sr.Intn(len(s.fields))]
						if f.off+f.w <= len(c) {
							c[f.off+sr.Intn(f.w)] ^= byte(1 << uint(sr.Intn(8)))
						}
					}
					run(s, c, false)
				} else {
					run(s, mutate(sr, s.b), true)
				}
			}
		}
		if round == 0 {
			all = seeds
		}
	}

	// every small seed through the entry points of the other formats
	var names []string
	for n := range entries {
		names = append(names, n)
	}
	sortStrings(names)
	cr := r.Fork(77)
	for _, s := range all {
		if s.sparse || s.bare || s.light || len(s.b) > 4096 {
			continue
		}
		for _, n := range names {
			if cr.Chance(1, 3) {
				emit("P", "p_total_"+n, H(s.b))
			}
		}
	}
	for _, n := range names {
		for _, l := range []int{0, 1, 2, 4, 8, 15, 16, 17, 25, 27, 28, 31, 64, 255, 256, 257} {
			emit("P", "p_total_"+n, H(cr.Bytes(l)))
			emit("P", "p_total_"+n, H(make([]byte, l)))
		}
	}

	// the tree's large artifacts
	if real, ok := seedAmdRealImage(); ok {
		emit("P", "p_total_amd_firmware", encodeInput(real, real.b))
		br := r.Fork(88)
		for k := 0; k < bigCases*3 && len(real.fields) > 0; k++ {
			f := real.fields[br.Intn(len(real.fields))]
			vs := boundaryValues(len(real.b), f, getField(real.b, f))
			emit("P", "p_total_amd_firmware", encodeInput(real, substitute(real.b, f, vs[br.Intn(len(vs))])))
		}
		// truncation aliases of the directory pointers (level-2 PSP 0x40, level-2 BIOS 0x70) and,
		// budget permitting, of the other 64-bit locations
		n := 0
		for _, f := range real.fields {
			if f.w != 8 || f.off < 8 {
				continue
			}
			typ := real.b[f.off-8]
			if typ != 0x40 && typ != 0x70 && n >= bigCases*4 {
				continue
			}
			for _, v := range aliasValues(f, getField(real.b, f))[:3] {
				emit("P", "p_total_amd_firmware", encodeInput(real, substitute(real.b, f, v)))
				n++
			}
		}
	}
	if rom, err := os.ReadFile(filepath.Join(repoPath(), "pkg/cbfs/testdata/coreboot.rom")); err == nil {
		emit("P", "p_total_cbfs", H(rom))
		emit("P", "p_total_fmap", H(rom))
		br := r.Fork(89)
		for k := 0; k < bigCases; k++ {
			emit("P", "p_total_cbfs", H(mutate(br, rom)))
		}
	}

	// boundary values of the image length itself
	genLengths(r.Fork(91), thorough, emit)
}

func sortStrings(s []string) {
	for i := 1; i < len(s); i++ {
		for j := i; j > 0 && s[j] < s[j-1]; j-- {
			s[j], s[j-1] = s[j-1], s[j]
		}
	}
}

func main() {
	CaseTimeout = 5 * time.Second
	// memory ceiling: 1 GiB above what the Go runtime has reserved at start-up (RLIMIT_AS
	// counts reserved address space, about 1.2 GiB for an idle process)
	MemLimit = vmSize() + 1<<30
	registerEntries()
	registerCOps()
	Main(gen)
}

func pickStr(r *Rng, xs ...string) string { return xs[r.Intn(len(xs))] }

// vmSize: the address space of this process right now, from /proc/self/statm (pages)
func vmSize() uint64 {
	b, err := os.ReadFile("/proc/self/statm")
	if err != nil {
		return 3 << 29
	}
	f := strings.Fields(string(b))
	if len(f) == 0 {
		return 3 << 29
	}
	var pages uint64
	for _, c := range f[0] {
		pages = pages*10 + uint64(c-'0')
	}
	return pages * uint64(os.Getpagesize())
}
