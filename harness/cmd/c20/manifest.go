package main

// Boot Guard / CBnT manifest seeds: type-directed values (generator pieces copied from
// harness/cmd/c15, which cannot be imported) serialised with the real generated WriteTo.
// The field map (count prefixes and every integer field whose name says size / offset /
// count) comes from a walk that mirrors the wire layout.

import (
	"bytes"
	"io"
	"reflect"
	"strings"

	"github.com/linuxboot/fiano/pkg/intel/metadata/bg"
	"github.com/linuxboot/fiano/pkg/intel/metadata/bg/bgbootpolicy"
	"github.com/linuxboot/fiano/pkg/intel/metadata/bg/bgkey"
	"github.com/linuxboot/fiano/pkg/intel/metadata/cbnt"
	"github.com/linuxboot/fiano/pkg/intel/metadata/cbnt/cbntbootpolicy"
	"github.com/linuxboot/fiano/pkg/intel/metadata/cbnt/cbntkey"
	. "verifharness/common"
)

type codec interface {
	ReadFrom(io.Reader) (int64, error)
	WriteTo(io.Writer) (int64, error)
	TotalSize() uint64
}

// the 33 structures with a generated codec; names as the translator derives them
var registry = []struct {
	name string
	zero interface{}
}{
	{"bg_HashStructure", bg.HashStructure{}},
	{"bg_HashStructureFill", bg.HashStructureFill{}},
	{"bg_Key", bg.Key{}},
	{"bg_Signature", bg.Signature{}},
	{"bg_KeySignature", bg.KeySignature{}},
	{"bg_StructInfo", bg.StructInfo{}},
	{"bg_bgbootpolicy_BPMH", bgbootpolicy.BPMH{}},
	{"bg_bgbootpolicy_IBBSegment", bgbootpolicy.IBBSegment{}},
	{"bg_bgbootpolicy_SE", bgbootpolicy.SE{}},
	{"bg_bgbootpolicy_PM", bgbootpolicy.PM{}},
	{"bg_bgbootpolicy_Signature", bgbootpolicy.Signature{}},
	{"bg_bgbootpolicy_Manifest", bgbootpolicy.Manifest{}},
	{"bg_bgkey_Manifest", bgkey.Manifest{}},
	{"cbnt_ChipsetACModuleInformation", cbnt.ChipsetACModuleInformation{}},
	{"cbnt_ChipsetACModuleInformationV5", cbnt.ChipsetACModuleInformationV5{}},
	{"cbnt_HashStructure", cbnt.HashStructure{}},
	{"cbnt_HashList", cbnt.HashList{}},
	{"cbnt_Key", cbnt.Key{}},
	{"cbnt_Signature", cbnt.Signature{}},
	{"cbnt_KeySignature", cbnt.KeySignature{}},
	{"cbnt_StructInfo", cbnt.StructInfo{}},
	{"cbnt_TPMInfoList", cbnt.TPMInfoList{}},
	{"cbnt_cbntbootpolicy_BPMH", cbntbootpolicy.BPMH{}},
	{"cbnt_cbntbootpolicy_IBBSegment", cbntbootpolicy.IBBSegment{}},
	{"cbnt_cbntbootpolicy_SE", cbntbootpolicy.SE{}},
	{"cbnt_cbntbootpolicy_TXT", cbntbootpolicy.TXT{}},
	{"cbnt_cbntbootpolicy_Reserved", cbntbootpolicy.Reserved{}},
	{"cbnt_cbntbootpolicy_PCD", cbntbootpolicy.PCD{}},
	{"cbnt_cbntbootpolicy_PM", cbntbootpolicy.PM{}},
	{"cbnt_cbntbootpolicy_Signature", cbntbootpolicy.Signature{}},
	{"cbnt_cbntbootpolicy_Manifest", cbntbootpolicy.Manifest{}},
	{"cbnt_cbntkey_Hash", cbntkey.Hash{}},
	{"cbnt_cbntkey_Manifest", cbntkey.Manifest{}},
}

func typeOf(name string) reflect.Type {
	for _, e := range registry {
		if e.name == name {
			return reflect.TypeOf(e.zero)
		}
	}
	return nil
}

func isElement(t reflect.Type) bool {
	if t.Kind() != reflect.Struct {
		return false
	}
	_, ok := t.FieldByName("StructInfo")
	return ok && t.Name() != "StructInfo"
}

func idOfElement(t reflect.Type) string {
	f, _ := t.FieldByName("StructInfo")
	return f.Tag.Get("id")
}

func cwBytes(tag reflect.StructTag) int {
	switch tag.Get("countType") {
	case "uint8":
		return 1
	case "uint32":
		return 4
	case "uint64":
		return 8
	}
	return 2
}

func countValueLen(st reflect.Value) (uint64, bool) {
	t := st.Type()
	full := t.PkgPath() + "." + t.Name()
	switch {
	case strings.HasSuffix(full, "/cbnt.Key"):
		alg, ks := st.FieldByName("KeyAlg").Uint(), st.FieldByName("KeySize").Uint()
		switch alg {
		case 0x1:
			return (ks >> 3) + 4, true
		case 0x23, 0x1b:
			return (ks >> 3) * 2, true
		}
		return 65535, true
	case strings.HasSuffix(full, "/bg.Key"):
		alg, ks := st.FieldByName("KeyAlg").Uint(), st.FieldByName("KeySize").Uint()
		if alg == 0x1 {
			return (ks >> 3) + 4, true
		}
		return 65535, true
	case strings.HasSuffix(full, "/cbnt.Signature"), strings.HasSuffix(full, "/bg.Signature"):
		return st.FieldByName("KeySize").Uint() >> 3, true
	case strings.HasSuffix(full, "/bg.HashStructureFill"):
		switch st.FieldByName("HashAlg").Uint() {
		case 0x10, 0x0, 0xb:
			return 34, true
		case 0x4:
			return 22, true
		}
		return 2, true
	}
	return 0, false
}

func genUint(r *Rng, bits int) uint64 {
	max := ^uint64(0)
	if bits < 64 {
		max = uint64(1)<<uint(bits) - 1
	}
	switch r.Intn(6) {
	case 0:
		return 0
	case 1:
		return max
	case 2:
		return uint64(r.Intn(256)) & max
	}
	return r.U64() & max
}

var keySizes = []int{256, 384, 1024, 2048, 3072, 8}

func fixCountValues(r *Rng, v reflect.Value) {
	t := v.Type()
	full := t.PkgPath() + "." + t.Name()
	setData := func(field string) {
		n, _ := countValueLen(v)
		if n > 70000 {
			n = 0
		}
		v.FieldByName(field).SetBytes(r.Bytes(int(n)))
	}
	switch {
	case strings.HasSuffix(full, "/cbnt.Key"), strings.HasSuffix(full, "/bg.Key"):
		alg := []int{1, 1, 1, 0x23, 0x1b}
		if strings.HasSuffix(full, "/bg.Key") {
			alg = []int{1}
		}
		v.FieldByName("KeyAlg").SetUint(uint64(alg[r.Intn(len(alg))]))
		v.FieldByName("KeySize").SetUint(uint64(keySizes[r.Intn(len(keySizes))]))
		setData("Data")
	case strings.HasSuffix(full, "/cbnt.Signature"), strings.HasSuffix(full, "/bg.Signature"):
		v.FieldByName("KeySize").SetUint(uint64(keySizes[r.Intn(len(keySizes))]))
		setData("Data")
	case strings.HasSuffix(full, "/bg.HashStructureFill"):
		v.FieldByName("HashAlg").SetUint(uint64(r.Pick(0, 0x10, 0xb, 0xb, 0x4, 0x4, 0xc)))
		setData("HashBuffer")
	}
}

func genValue(r *Rng, v reflect.Value, tag reflect.StructTag, depth int) {
	switch v.Kind() {
	case reflect.Uint8, reflect.Uint16, reflect.Uint32, reflect.Uint64:
		v.SetUint(genUint(r, int(v.Type().Size())*8))
	case reflect.Array:
		for i := 0; i < v.Len(); i++ {
			v.Index(i).SetUint(uint64(r.Intn(256)))
		}
	case reflect.Slice:
		et := v.Type().Elem()
		if et.Kind() == reflect.Uint8 && et.Name() == "uint8" {
			v.SetBytes(r.Bytes(r.Pick(0, 1, 2, 5, 20, 32, 48, 64)))
			return
		}
		n := r.Pick(0, 1, 1, 2, 3)
		s := reflect.MakeSlice(v.Type(), n, n)
		for i := 0; i < n; i++ {
			genValue(r, s.Index(i), "", depth+1)
		}
		v.Set(s)
	case reflect.Ptr:
		if r.Bool() {
			p := reflect.New(v.Type().Elem())
			genValue(r, p.Elem(), "", depth+1)
			v.Set(p)
		}
	case reflect.Struct:
		for i := 0; i < v.NumField(); i++ {
			genValue(r, v.Field(i), v.Type().Field(i).Tag, depth+1)
		}
		fixCountValues(r, v)
		if isElement(v.Type()) {
			id := idOfElement(v.Type())
			f := v.FieldByName("StructInfo").FieldByName("ID")
			for i := 0; i < 8 && i < len(id); i++ {
				f.Index(i).SetUint(uint64(id[i]))
			}
		}
	}
}

// wire walk: offsets of count prefixes and of size / offset / count integer fields
type wireWalk struct {
	off   int
	marks []fld
}

func interesting(name string) bool {
	n := strings.ToLower(name)
	return strings.Contains(n, "size") || strings.Contains(n, "offset") || strings.Contains(n, "count") ||
		strings.Contains(n, "len") || n == "keyalg" || n == "hashalg"
}

func (w *wireWalk) field(v reflect.Value, name string, tag reflect.StructTag) {
	switch v.Kind() {
	case reflect.Uint8, reflect.Uint16, reflect.Uint32, reflect.Uint64:
		sz := int(v.Type().Size())
		if interesting(name) {
			w.marks = append(w.marks, fld{w.off, sz, false, 1})
		}
		w.off += sz
	case reflect.Array:
		w.off += v.Len()
	case reflect.Slice:
		et := v.Type().Elem()
		if et.Kind() == reflect.Uint8 && et.Name() == "uint8" {
			if tag.Get("countValue") == "" {
				w.marks = append(w.marks, fld{w.off, cwBytes(tag), false, 1})
				w.off += cwBytes(tag)
			}
			w.off += v.Len()
			return
		}
		if !isElement(et) {
			w.marks = append(w.marks, fld{w.off, cwBytes(tag), false, 1})
			w.off += cwBytes(tag)
		}
		for i := 0; i < v.Len(); i++ {
			w.field(v.Index(i), "", "")
		}
	case reflect.Ptr:
		if !v.IsNil() {
			w.field(v.Elem(), "", "")
		}
	case reflect.Struct:
		for i := 0; i < v.NumField(); i++ {
			w.field(v.Field(i), v.Type().Field(i).Name, v.Type().Field(i).Tag)
		}
	}
}

// manifestSeed: a generated value of the named structure, written by its own WriteTo
func manifestSeed(r *Rng, name string) (seed, bool) {
	t := typeOf(name)
	if t == nil {
		return seed{}, false
	}
	p := reflect.New(t)
	genValue(r, p.Elem(), "", 0)
	var buf bytes.Buffer
	if _, err := p.Interface().(codec).WriteTo(&buf); err != nil {
		return seed{}, false
	}
	w := &wireWalk{}
	w.field(p.Elem(), "", "")
	s := seed{name: name, b: buf.Bytes()}
	if w.off == len(s.b) {
		s.fields = w.marks
	}
	return s, true
}

// cls_manifest <name> <bytes>: does ReadFrom accept the bytes
func opClsManifest(args []string) string {
	t := typeOf(args[0])
	if t == nil {
		return "harness-error unknown-structure"
	}
	p := reflect.New(t)
	if _, err := p.Interface().(codec).ReadFrom(bytes.NewReader(UnH(args[1]))); err != nil {
		return "err"
	}
	return "ok"
}
