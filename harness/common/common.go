// Package common is the shared plumbing of the per-property executors.
//
// An executor binary (harness/cmd/cNN) registers
//   - operations: name -> func(args) observation   (run the real fiano code)
//   - a generator: func(rng, tier, emit)           (produce case inputs)
//
// and calls Main.  Modes:
//
//	cNN gen  <seed> <tier> <out>     generate cases, execute each, write
//	                                 "kind\tfn\targ...\t=>\tobs" lines
//	cNN replay <in> <out>            re-execute the cases of a file (the part
//	                                 before "=>" of each line)
//	cNN worker                       internal: execute cases from stdin
//
// Every case is executed in a worker subprocess with an address-space ceiling
// and a per-case wall-clock watchdog, so a hang, a crash or an out-of-memory
// abort of the code under test is an observation ("hang", "oom", "crash"),
// not a failure of the check.  All values in case files are hex.
package common

import (
	"bufio"
	"encoding/hex"
	"fmt"
	"io"
	"math/big"
	"os"
	"os/exec"
	"runtime/debug"
	"sort"
	"strconv"
	"strings"
	"syscall"
	"time"

	fianolog "github.com/linuxboot/fiano/pkg/log"
)

// quietLogger drops fiano's warnings and errors (hundreds of thousands of write calls per run);
// Fatalf keeps its meaning: the process exits, which the parent observes as a crash.
type quietLogger struct{}

func (quietLogger) Warnf(format string, args ...interface{})  {}
func (quietLogger) Errorf(format string, args ...interface{}) {}
func (quietLogger) Fatalf(format string, args ...interface{}) { os.Exit(1) }

// ---------- deterministic PRNG (splitmix64) ----------

type Rng struct{ s uint64 }

func NewRng(seed uint64) *Rng { return &Rng{s: seed*0x9E3779B97F4A7C15 + 0x1234567} }
func (r *Rng) U64() uint64 {
	r.s += 0x9E3779B97F4A7C15
	z := r.s
	z = (z ^ (z >> 30)) * 0xBF58476D1CE4E5B9
	z = (z ^ (z >> 27)) * 0x94D049BB133111EB
	return z ^ (z >> 31)
}
func (r *Rng) Intn(n int) int {
	if n <= 0 {
		return 0
	}
	return int(r.U64() % uint64(n))
}
func (r *Rng) Range(lo, hi int) int { return lo + r.Intn(hi-lo+1) } // inclusive
func (r *Rng) Bool() bool           { return r.U64()&1 == 1 }
func (r *Rng) Chance(num, den int) bool {
	return r.Intn(den) < num
}
func (r *Rng) Bytes(n int) []byte {
	b := make([]byte, n)
	for i := range b {
		b[i] = byte(r.U64())
	}
	return b
}
func (r *Rng) Pick(xs ...int) int { return xs[r.Intn(len(xs))] }

// Fork derives an independent stream (so adding cases to one generator does
// not shift another's choices).
func (r *Rng) Fork(tag uint64) *Rng { return NewRng(r.U64() ^ tag*0xD6E8FEB86659FD93) }

// ---------- value formatting (hex everywhere) ----------

func H(b []byte) string {
	if len(b) == 0 {
		return "-"
	}
	return hex.EncodeToString(b)
}
func UnH(s string) []byte {
	if s == "-" || s == "" {
		return []byte{}
	}
	b, err := hex.DecodeString(s)
	if err != nil {
		panic("bad hex in case file: " + s)
	}
	return b
}
func N(v uint64) string { return strconv.FormatUint(v, 16) }
func I(v int64) string {
	if v < 0 {
		return "-" + strconv.FormatUint(uint64(-v), 16)
	}
	return strconv.FormatUint(uint64(v), 16)
}
func UnN(s string) uint64 {
	v, err := strconv.ParseUint(s, 16, 64)
	if err != nil {
		panic("bad number in case file: " + s)
	}
	return v
}
func UnI(s string) int64 {
	if strings.HasPrefix(s, "-") {
		return -int64(UnN(s[1:]))
	}
	return int64(UnN(s))
}
func Big(v *big.Int) string { return v.Text(16) }

// ---------- registry ----------

type Op func(args []string) string

var ops = map[string]Op{}

func Register(name string, f Op) { ops[name] = f }

type Case struct {
	Kind string // "C" correspondence (model evaluates the same fn), "P" property oracle on the impl
	Fn   string
	Args []string
}

func (c Case) Head() string {
	return c.Kind + "\t" + c.Fn + "\t" + strings.Join(c.Args, "\t")
}

type Emit func(kind, fn string, args ...string)

type Generator func(rng *Rng, tier string, emit Emit)

// Limits for the worker
var (
	CaseTimeout = 10 * time.Second
	MemLimit    = uint64(3) << 30 // RLIMIT_AS for the worker
)

func runOp(c Case) (obs string) {
	defer func() {
		if r := recover(); r != nil {
			msg := fmt.Sprint(r)
			if len(msg) > 120 {
				msg = msg[:120]
			}
			msg = strings.Map(func(r rune) rune {
				if r == '\t' || r == '\n' {
					return ' '
				}
				return r
			}, msg)
			obs = "panic " + msg
		}
	}()
	f, ok := ops[c.Fn]
	if !ok {
		return "harness-error unknown-op " + c.Fn
	}
	return f(c.Args)
}

func workerMain() {
	if MemLimit > 0 {
		lim := syscall.Rlimit{Cur: MemLimit, Max: MemLimit}
		_ = syscall.Setrlimit(syscall.RLIMIT_AS, &lim)
	}
	debug.SetMaxStack(256 << 20)
	fianolog.DefaultLogger = quietLogger{}
	in := bufio.NewReaderSize(os.Stdin, 1<<20)
	// the protocol keeps the real stdout; the code under test prints to /dev/null
	proto := os.Stdout
	if dn, err := os.OpenFile(os.DevNull, os.O_WRONLY, 0); err == nil {
		os.Stdout = dn
		os.Stderr = dn
	}
	out := bufio.NewWriter(proto)
	for {
		line, err := in.ReadString('\n')
		if len(line) > 0 {
			line = strings.TrimRight(line, "\n")
			c, ok := parseHead(line)
			if !ok {
				fmt.Fprintln(out, "harness-error bad-case")
			} else {
				fmt.Fprintln(out, runOp(c))
			}
			out.Flush()
		}
		if err != nil {
			return
		}
	}
}

func parseHead(line string) (Case, bool) {
	parts := strings.Split(line, "\t")
	if len(parts) < 2 {
		return Case{}, false
	}
	// strip "=>" and anything after it
	for i, p := range parts {
		if p == "=>" {
			parts = parts[:i]
			break
		}
	}
	return Case{Kind: parts[0], Fn: parts[1], Args: parts[2:]}, true
}

type worker struct {
	cmd *exec.Cmd
	in  io.WriteCloser
	out *bufio.Reader
}

func startWorker() *worker {
	cmd := exec.Command(os.Args[0], "worker")
	cmd.Stderr = io.Discard
	cmd.Env = os.Environ()
	// temp files of the code under test (extract, save) go to a memory file system when there is one
	if st, err := os.Stat("/dev/shm"); err == nil && st.IsDir() && os.Getenv("VERIF_KEEP_TMPDIR") == "" {
		cmd.Env = append(cmd.Env, "TMPDIR=/dev/shm")
	}
	// make the collector work harder well before the address-space ceiling: whether garbage has been
	// collected when the ceiling is reached must not depend on how busy the machine is
	if MemLimit > 0 {
		cmd.Env = append(cmd.Env, fmt.Sprintf("GOMEMLIMIT=%d", MemLimit/2))
	}
	in, _ := cmd.StdinPipe()
	outp, _ := cmd.StdoutPipe()
	if err := cmd.Start(); err != nil {
		fmt.Fprintln(os.Stderr, "cannot start worker:", err)
		os.Exit(2)
	}
	return &worker{cmd: cmd, in: in, out: bufio.NewReaderSize(outp, 1<<20)}
}

func (w *worker) kill() {
	_ = w.cmd.Process.Kill()
	_, _ = w.cmd.Process.Wait()
}

// pool executes cases in order through one worker, restarting it when needed.
type pool struct{ w *worker }

func (p *pool) exec(c Case) string {
	obs := p.attempt(c, CaseTimeout)
	if obs == "hang" || strings.HasPrefix(obs, "crash") {
		// a worker that died or ran out of time is re-run once, alone in a fresh worker and with twice the
		// time: a crash or hang of the code under test reproduces, one caused by a busy machine does not
		again := p.attempt(c, 2*CaseTimeout)
		if again != obs {
			fmt.Fprintf(os.Stderr, "note: %s: first attempt %q, second attempt %q\n", c.Fn, obs, again)
		}
		return again
	}
	return obs
}

func (p *pool) attempt(c Case, timeout time.Duration) string {
	if p.w == nil {
		p.w = startWorker()
	}
	type res struct {
		s   string
		err error
	}
	ch := make(chan res, 1)
	w := p.w
	go func() {
		if _, err := io.WriteString(w.in, c.Head()+"\n"); err != nil {
			ch <- res{"", err}
			return
		}
		s, err := w.out.ReadString('\n')
		ch <- res{strings.TrimRight(s, "\n"), err}
	}()
	select {
	case r := <-ch:
		if r.err != nil {
			// worker died: out of memory (fatal error), stack overflow, os.Exit ...
			st, _ := w.cmd.Process.Wait()
			p.w = nil
			why := "crash"
			if st != nil {
				why = "crash " + st.String()
			}
			return why
		}
		return r.s
	case <-time.After(timeout):
		w.kill()
		p.w = nil
		return "hang"
	}
}

func (p *pool) close() {
	if p.w != nil {
		p.w.in.Close()
		p.w.kill()
	}
}

// Main is the entry point of every executor.
func Main(gen Generator) {
	if len(os.Args) < 2 {
		fmt.Fprintln(os.Stderr, "usage: gen <seed> <tier> <out> | replay <in> <out> | worker")
		os.Exit(2)
	}
	switch os.Args[1] {
	case "worker":
		workerMain()
	case "gen":
		seed, _ := strconv.ParseUint(os.Args[2], 10, 64)
		tier := os.Args[3]
		f, err := os.Create(os.Args[4])
		if err != nil {
			fmt.Fprintln(os.Stderr, err)
			os.Exit(2)
		}
		out := bufio.NewWriterSize(f, 1<<20)
		p := &pool{}
		n := 0
		const maxHangs = 8
		hangs, skipped := 0, 0
		emit := func(kind, fn string, args ...string) {
			if kind == "T" {
				// oracle table entry for the model runner (e.g. a codec input/output pair
				// computed by the generator with the real codec): not executed
				fmt.Fprintf(out, "T\t%s\t%s\n", fn, strings.Join(args, "\t"))
				return
			}
			if hangs >= maxHangs {
				// the code under test has hung (reproducibly) on maxHangs inputs already: those are
				// failing inputs; every further hanging case would cost three case timeouts, so the
				// rest of the run is not executed (never happens on a tree where the property holds)
				skipped++
				return
			}
			c := Case{Kind: kind, Fn: fn, Args: args}
			obs := p.exec(c)
			if obs == "hang" {
				hangs++
			}
			fmt.Fprintf(out, "%s\t=>\t%s\n", c.Head(), obs)
			n++
		}
		gen(NewRng(seed), tier, emit)
		if skipped > 0 {
			fmt.Fprintf(os.Stderr, "note: %d cases not executed after %d reproducible hangs\n", skipped, hangs)
		}
		p.close()
		out.Flush()
		f.Close()
		fmt.Printf("cases=%d\n", n)
	case "replay":
		data, err := os.ReadFile(os.Args[2])
		if err != nil {
			fmt.Fprintln(os.Stderr, err)
			os.Exit(2)
		}
		f, err := os.Create(os.Args[3])
		if err != nil {
			fmt.Fprintln(os.Stderr, err)
			os.Exit(2)
		}
		out := bufio.NewWriterSize(f, 1<<20)
		p := &pool{}
		n := 0
		for _, line := range strings.Split(string(data), "\n") {
			if strings.TrimSpace(line) == "" || strings.HasPrefix(line, "#") {
				continue
			}
			c, ok := parseHead(line)
			if !ok {
				continue
			}
			fmt.Fprintf(out, "%s\t=>\t%s\n", c.Head(), p.exec(c))
			n++
		}
		p.close()
		out.Flush()
		f.Close()
		fmt.Printf("cases=%d\n", n)
	default:
		fmt.Fprintln(os.Stderr, "unknown mode", os.Args[1])
		os.Exit(2)
	}
}

// ErrClass maps an error to a small stable class by matching message
// fragments; table order matters (first match wins). Unknown -> "err".
func ErrClass(err error, table [][2]string) string {
	if err == nil {
		return "ok"
	}
	msg := err.Error()
	for _, kv := range table {
		if strings.Contains(msg, kv[0]) {
			return "err " + kv[1]
		}
	}
	return "err ?"
}

// SortedKeys is a helper for canonical output of maps.
func SortedKeys(m map[string]string) []string {
	ks := make([]string, 0, len(m))
	for k := range m {
		ks = append(ks, k)
	}
	sort.Strings(ks)
	return ks
}
