// Package flashops: property C01 for the Intel flash image entry shape — uefi.Parse followed by Save of a
// flash image (descriptor + regions) whose BIOS region holds FFS volumes from the reference
// grammar (verifharness/uefigen) reproduces the image.
package flashops

import (
	"bytes"
	"encoding/binary"
	"fmt"
	"os"
	"strconv"
	"strings"

	"github.com/linuxboot/fiano/pkg/uefi"
	"github.com/linuxboot/fiano/pkg/visitors"
	. "verifharness/common"
	"verifharness/uefigen"
	"verifharness/uefiops"
)

const blk = uefi.RegionBlockSize

// ---------- image argument encoding (run-length), as in cmd/c12 ----------

func encImg(b []byte) string {
	if len(b) == 0 {
		return "-"
	}
	var parts []string
	var lit []byte
	flush := func() {
		if len(lit) > 0 {
			parts = append(parts, H(lit))
			lit = nil
		}
	}
	for i := 0; i < len(b); {
		j := i
		for j < len(b) && b[j] == b[i] {
			j++
		}
		if j-i >= 12 {
			flush()
			parts = append(parts, fmt.Sprintf("%02x*%x", b[i], j-i))
		} else {
			lit = append(lit, b[i:j]...)
		}
		i = j
	}
	flush()
	return strings.Join(parts, ",")
}

func decImg(s string) []byte {
	if s == "-" || s == "" {
		return []byte{}
	}
	var out []byte
	for _, ch := range strings.Split(s, ",") {
		if k := strings.IndexByte(ch, '*'); k >= 0 {
			v, _ := strconv.ParseUint(ch[:k], 16, 8)
			n, _ := strconv.ParseUint(ch[k+1:], 16, 32)
			out = append(out, bytes.Repeat([]byte{byte(v)}, int(n))...)
		} else {
			out = append(out, UnH(ch)...)
		}
	}
	return out
}

// ---------- the real code ----------

var quiet = false

// NewFlashImage prints on os.Stdout, the worker's protocol channel.
func hush() {
	if !quiet {
		if f, err := os.OpenFile(os.DevNull, os.O_WRONLY, 0); err == nil {
			os.Stdout = f
		}
		quiet = true
	}
}

func parse(img []byte) (uefi.Firmware, error) {
	hush()
	uefiops.Reset()
	return uefi.Parse(append([]byte{}, img...))
}

func fnv(b []byte) uint32 {
	h := uint32(2166136261)
	for _, x := range b {
		h ^= uint32(x)
		h *= 16777619
	}
	return h
}

func diffObs(img, out []byte) string {
	if len(img) != len(out) {
		return "full " + H(out)
	}
	var d []string
	for i := range img {
		if img[i] != out[i] {
			d = append(d, fmt.Sprintf("%x:%02x", i, out[i]))
		}
	}
	if len(d) == 0 {
		return "-"
	}
	return strings.Join(d, ",")
}

// save <img> -> "ok <len> <diff to the input>" | "err" (Parse or Assemble returned an error)
func opSave(args []string) string {
	img := decImg(args[0])
	root, err := parse(img)
	if err != nil {
		return "err"
	}
	a := &visitors.Assemble{}
	if err := a.Run(root); err != nil {
		return "err"
	}
	out := root.Buf()
	return fmt.Sprintf("ok %x %s", len(out), diffObs(img, out))
}

// bios <img> -> "ok <len> <fnv>" of the bytes NewBIOSRegion was given | "none"
func opBios(args []string) string {
	root, err := parse(decImg(args[0]))
	if err != nil {
		return "none"
	}
	if f, ok := root.(*uefi.FlashImage); ok {
		for _, r := range f.Regions {
			if b, ok := r.Value.(*uefi.BIOSRegion); ok {
				return fmt.Sprintf("ok %x %x", len(b.Buf()), fnv(b.Buf()))
			}
		}
	}
	return "none"
}

// C01 on the implementation: Save(Parse(x)) == x
func pSaveIdentityFlash(args []string) string {
	img := decImg(args[0])
	root, err := parse(img)
	if err != nil {
		return "FAIL parse-error " + err.Error()
	}
	if _, ok := root.(*uefi.FlashImage); !ok {
		return "FAIL not-parsed-as-flash-image"
	}
	a := &visitors.Assemble{}
	if err := a.Run(root); err != nil {
		return "FAIL assemble-error " + err.Error()
	}
	out := root.Buf()
	if !bytes.Equal(out, img) {
		i := 0
		for i < len(out) && i < len(img) && out[i] == img[i] {
			i++
		}
		return fmt.Sprintf("FAIL differs-at %x len %x vs %x", i, len(out), len(img))
	}
	return "ok"
}

// ---------- generator ----------

func fillBytes(r *Rng, b []byte, mode int) {
	for i := range b {
		switch mode {
		case 0:
			b[i] = 0xFF
		case 1:
			b[i] = 0xA5
		default:
			b[i] = byte(r.U64())
		}
		if b[i] == '_' || b[i] == '$' {
			b[i] = 'a'
		}
	}
}

type flash struct {
	img      []byte
	rs       int // RegionStart
	dms      int
	biosOff  int // byte offset of the BIOS region
	biosLen  int
	fields   []uefigen.Field // BIOS region field map, offsets relative to the region
	nBlocks  int
	meB, meL int
}

func putSlot(img []byte, rs, i int, base, limit int) {
	binary.LittleEndian.PutUint16(img[rs+4+4*i:], uint16(base))
	binary.LittleEndian.PutUint16(img[rs+6+4*i:], uint16(limit))
}

// genFlash: a well-formed flash image around the BIOS region bytes [bios] (whole blocks).
func genFlash(r *Rng, bios []byte, fields []uefigen.Field) *flash {
	bb := len(bios) / blk
	pre := r.Pick(0, 0, 1)
	post := r.Pick(0, 0, 1)
	me := r.Pick(0, 1, 1, 2)
	biosFirst := r.Chance(1, 4)
	n := 1 + pre + me + bb + post
	img := make([]byte, n*blk)
	fillBytes(r, img[:blk], 0)
	sigAt := 16
	if r.Chance(1, 4) {
		sigAt = 0
	}
	copy(img[sigAt:], uefi.FlashSignature)
	dms := sigAt + 4
	fillBytes(r, img[dms:dms+16], 2)
	regBase := r.Pick(3, 4, 4, 8, 0x10, 0x40, 0xFB)
	masBase := regBase + 4 + r.Intn(3)
	if r.Chance(1, 4) && regBase >= 4 {
		masBase = 2
	}
	if masBase > 0xFF {
		masBase = 2
	}
	nr := 0
	if r.Chance(1, 4) {
		// 1..14: an older descriptor that declares fewer regions than the section has slots; the slots from
		// that index on are not regions even when they look valid (NewFlashImage stops at nr)
		nr = r.Pick(15, 16, 200, 1, 2, 3, 5, 9, 14)
	}
	img[dms+2], img[dms+3], img[dms+4] = byte(regBase), byte(nr), byte(masBase)
	rs := regBase * 16
	for i := 0; i < 15; i++ {
		switch r.Intn(3) {
		case 0:
			putSlot(img, rs, i, 0x7FFF, 0)
		case 1:
			putSlot(img, rs, i, 0xFFFF, 0xFFFF)
		default:
			putSlot(img, rs, i, 0, 0)
		}
	}
	img[rs], img[rs+1] = 0, 0
	binary.LittleEndian.PutUint16(img[rs+2:], uint16(r.U64()))
	fillBytes(r, img[masBase*16:masBase*16+12], 2)
	cur := 1
	take := func(k int) (int, int) { b := cur; cur += k; return b, cur - 1 }
	raw := func(k int) {
		if k == 0 {
			return
		}
		b, l := take(k)
		fillBytes(r, img[b*blk:(l+1)*blk], r.Intn(3))
		if r.Chance(2, 3) { // declared raw region, else an undeclared gap
			putSlot(img, rs, 2+r.Intn(13), b, l)
		}
	}
	f := &flash{rs: rs, dms: dms, fields: fields, nBlocks: n}
	doME := func() {
		if me == 0 {
			return
		}
		b, l := take(me)
		f.meB, f.meL = b, l
		m := img[b*blk : (l+1)*blk]
		fillBytes(r, m, r.Pick(0, 0, 1))
		if r.Chance(2, 3) {
			t, _ := uefigen.GenMEFPT(r, r.Pick(0, 1, 3))
			copy(m, t)
		}
		putSlot(img, rs, 1, b, l)
	}
	doBIOS := func() {
		b, l := take(bb)
		copy(img[b*blk:], bios)
		putSlot(img, rs, 0, b, l)
		f.biosOff, f.biosLen = b*blk, len(bios)
	}
	raw(pre)
	if biosFirst {
		doBIOS()
		doME()
	} else {
		doME()
		doBIOS()
	}
	raw(post)
	if nr > 0 && nr < 15 {
		// "falsely valid" slots at and after index nr (no random draws: the choice follows from nr and n):
		// they overlap the declared regions and must be ignored
		for i := nr; i < 15; i++ {
			if i == nr || (i+n)%2 == 0 {
				putSlot(img, rs, i, 1, n-1)
			}
		}
	}
	f.img = img
	return f
}

// Image is a generated well-formed flash image with the geometry other generators need.
type Image struct {
	Img              []byte
	BiosOff, BiosLen int
	Blocks           int
	BiosFields       []uefigen.Field // field map of the BIOS region, offsets relative to the image
	DescFields       []uefigen.Field // descriptor map bytes and region slots (for boundary-value substitution)
}

// GenImageInfo builds a well-formed flash image (descriptor, ME/raw regions, gaps, a BIOS region from
// the reference grammar) together with its geometry and field maps, for the generators of other
// properties (C04: tiling of the flash; C05: totality of the descriptor parser). nil when no BIOS
// region of the wanted size came out.
func GenImageInfo(r *Rng, maxBlocks int) *Image {
	bios, fields := genBios(r, maxBlocks)
	if bios == nil {
		return nil
	}
	f := genFlash(r, bios, fields)
	out := &Image{Img: f.img, BiosOff: f.biosOff, BiosLen: f.biosLen, Blocks: f.nBlocks}
	for _, fd := range fields {
		fd.Off += f.biosOff
		out.BiosFields = append(out.BiosFields, fd)
	}
	d := func(name string, off, w int) {
		out.DescFields = append(out.DescFields, uefigen.Field{Name: name, Off: off, Width: w, Remaining: f.nBlocks, HdrSize: 1})
	}
	d("ifd.componentbase", f.dms, 1)
	d("ifd.regionbase", f.dms+2, 1)
	d("ifd.nregions", f.dms+3, 1)
	d("ifd.masterbase", f.dms+4, 1)
	d("ifd.erasesize", f.rs+2, 2)
	for i := 0; i < 15; i++ {
		d(fmt.Sprintf("ifd.slot%d.base", i), f.rs+4+4*i, 2)
		d(fmt.Sprintf("ifd.slot%d.limit", i), f.rs+6+4*i, 2)
	}
	return out
}

// Hush silences NewFlashImage's prints on os.Stdout (the worker's protocol channel); call before
// parsing flash images in an executor.
func Hush() { hush() }

// Wrap builds a well-formed flash image (descriptor block, BIOS region, optionally an ME region,
// declared raw regions and undeclared gaps) around the BIOS region bytes [bios], which must be
// whole 4 KiB blocks; it returns the image and the byte offset of the BIOS region in it.
// (Exported for the executors of the edit properties C02/C03; C01's own cases use genFlash.)
func Wrap(r *Rng, bios []byte) ([]byte, int) {
	f := genFlash(r, bios, nil)
	return f.img, f.biosOff
}

// a BIOS region from the grammar, padded with trailing padding to whole blocks
func genBios(r *Rng, maxBlocks int) ([]byte, []uefigen.Field) {
	for try := 0; try < 20; try++ {
		o := uefigen.Opts{MaxDepth: r.Pick(0, 0, 1), Strings: true, Alignments: r.Chance(1, 2), BigBodies: false}
		reg := uefigen.GenRegion(r, o)
		b, fields := uefigen.EmitRegion(reg)
		if len(b) == 0 || len(b) > maxBlocks*blk {
			continue
		}
		padN := (blk - len(b)%blk) % blk
		pad := make([]byte, padN)
		fillBytes(r, pad, r.Pick(0, 0, 2))
		for i := range pad {
			if pad[i] == 'a' {
				pad[i] = '-'
			}
		}
		return append(b, pad...), fields
	}
	return nil, nil
}

// GenImage returns one well-formed flash image of this grammar (descriptor with signature at 0 or 16,
// region and master sections at varying bases, a BIOS region from the reference grammar, optionally an ME
// region with or without a partition table, raw regions in slots 2..14, uncovered ranges), or nil.
// For the generators of other properties (C07); the C01 stream above does not use it.
func GenImage(r *Rng, maxBiosBlocks int) []byte {
	bios, fields := genBios(r, maxBiosBlocks)
	if bios == nil {
		return nil
	}
	return genFlash(r, bios, fields).img
}

// Gen emits the flash-image cases of property C01.
func Gen(r *Rng, tier string, emit Emit) {
	n := 100
	if tier == "thorough" {
		n = 2500
	}
	for it := 0; it < n; it++ {
		rr := r.Fork(uint64(it))
		bios, fields := genBios(rr, rr.Pick(1, 1, 2, 3))
		if bios == nil {
			continue
		}
		f := genFlash(rr, bios, fields)
		e := encImg(f.img)
		emit("P", "p_save_identity_flash", e)
		emit("C", "fsave", e)
		emit("C", "fbios", e)
		// outside the theorem's hypotheses / malformed: model and implementation must still agree
		m := append([]byte{}, f.img...)
		switch rr.Intn(8) {
		case 0: // non-zero blank field: zeroed by save
			m[f.rs+rr.Intn(2)] = byte(1 + rr.Intn(255))
		case 1: // master section on top of the region section
			m[f.dms+4] = m[f.dms+2] + byte(rr.Pick(0, 0, 1, 2, 3))
		case 2: // a boundary value in a header field of the BIOS region
			if len(f.fields) > 0 {
				fd := f.fields[rr.Intn(len(f.fields))]
				vals := uefigen.BoundaryValues(fd)
				fd.Off += f.biosOff
				m = uefigen.Mutate(m, fd, vals[rr.Intn(len(vals))])
			}
		case 3: // a flipped bit in the region section
			m[f.rs+rr.Intn(64)] ^= byte(1 << uint(rr.Intn(8)))
		case 4: // size not in whole blocks / one block short
			m = m[:len(m)-rr.Pick(1, 100, blk)]
		case 5: // no flash signature: one big BIOS region
			m[16], m[0] = 0, 0
		case 6: // a flipped bit somewhere in the BIOS region
			m[f.biosOff+rr.Intn(f.biosLen)] ^= byte(1 << uint(rr.Intn(8)))
		case 7: // a slot copied over another (overlap / duplicate)
			i, j := rr.Intn(15), rr.Intn(2)
			copy(m[f.rs+4+4*i:f.rs+8+4*i], m[f.rs+4+4*j:f.rs+8+4*j])
		}
		emit("C", "fsave", encImg(m))
	}
}

// RegisterAll registers the flash-image operations with the worker.
func RegisterAll() {
	Register("fsave", opSave)
	Register("fbios", opBios)
	Register("p_save_identity_flash", pSaveIdentityFlash)
}
