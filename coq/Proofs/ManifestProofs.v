(* Proofs/ManifestProofs.v — once-and-for-all theorems about the generic
   manifest codec of Model/Manifest.v. *)
From Coq Require Import ZifyBool ZifyNat.
From Fiano Require Import Base.Bytes Base.BytesLemmas Model.Manifest.
Open Scope Z_scope.

(* ---------- take ---------- *)
Lemma take_app (a r : bytes) : take (zlen a) (a ++ r) = Some (a, r).
Proof.
  unfold take. pose proof (zlen_nonneg a). rewrite zlen_app. pose proof (zlen_nonneg r).
  replace ((0 <=? zlen a) && (zlen a <=? zlen a + zlen r)) with true by lia.
  now rewrite zfirstn_app_exact, zskipn_app_exact.
Qed.

Lemma take_some n b h r : take n b = Some (h, r) -> b = h ++ r /\ zlen h = n /\ 0 <= n.
Proof.
  unfold take. destruct ((0 <=? n) && (n <=? zlen b)) eqn:E; [|discriminate].
  intros H; inversion H; subst. split; [now rewrite zfirstn_zskipn|].
  split; [apply zlen_zfirstn|]; lia.
Qed.

Lemma take_app_n n (a r : bytes) : zlen a = n -> take n (a ++ r) = Some (a, r).
Proof. intros <-. apply take_app. Qed.

Lemma wmax_pos w : 0 < wmax w.
Proof. unfold wmax. apply Z.pow_pos_nonneg; lia. Qed.

Lemma le_dec_enc_w w z : 0 <= z < wmax w -> le_dec (le_enc w z) = z.
Proof. intros; now apply le_dec_enc. Qed.

Lemma vlen_nonneg v : 0 <= vlen v.
Proof. induction v; cbn [vlen]; lia. Qed.

(* ---------- named versions of the inner loops ---------- *)
Definition enc_list (s : schema) : value -> bytes :=
  fix go (l : value) : bytes :=
    match l with VCons x xs => enc_s s x ++ go xs | _ => [] end.

Definition enc_ints (w : nat) : value -> bytes :=
  fix go (l : value) : bytes :=
    match l with VCons (VInt z) xs => le_enc w z ++ go xs | _ => [] end.

Definition size_list (s : schema) : value -> Z :=
  fix go (l : value) : Z :=
    match l with VCons x xs => size_s s x + go xs | _ => 0 end.

Definition dec_list (s : schema) : nat -> bytes -> option (value * bytes) :=
  fix go (k : nat) (b : bytes) : option (value * bytes) :=
    match k with
    | O => Some (VNil, b)
    | S k' =>
      match dec_s s [] b with
      | Some (x, b1) =>
        match go k' b1 with
        | Some (xs, b2) => Some (VCons x xs, b2)
        | None => None
        end
      | None => None
      end
    end.

Definition dec_ints (w : nat) : nat -> bytes -> option (value * bytes) :=
  fix go (k : nat) (b : bytes) : option (value * bytes) :=
    match k with
    | O => Some (VNil, b)
    | S k' =>
      match take (Z.of_nat w) b with
      | Some (h1, b1) =>
        match go k' b1 with
        | Some (xs, b2) => Some (VCons (VInt (le_dec h1)) xs, b2)
        | None => None
        end
      | None => None
      end
    end.

Definition wf_list (s : schema) : value -> bool :=
  fix go (l : value) : bool :=
    match l with
    | VNil => true
    | VCons x xs => wf_s s [] x && go xs
    | _ => false
    end.

Definition wf_ints (w : nat) : value -> bool :=
  fix go (l : value) : bool :=
    match l with
    | VNil => true
    | VCons (VInt z) xs => (0 <=? z) && (z <? wmax w) && go xs
    | _ => false
    end.

Lemma enc_f_list cw s rh v : enc_f (FList cw s rh) v = le_enc cw (vlen v) ++ enc_list s v.
Proof. reflexivity. Qed.
Lemma enc_f_ints cw w v : enc_f (FListInt cw w) v = le_enc cw (vlen v) ++ enc_ints w v.
Proof. reflexivity. Qed.
Lemma size_f_list cw s rh v : size_f (FList cw s rh) v = Z.of_nat cw + size_list s v.
Proof. reflexivity. Qed.
Lemma wf_f_list cw s rh en v : wf_f (FList cw s rh) en v = (vlen v <? wmax cw) && wf_list s v.
Proof. reflexivity. Qed.
Lemma wf_f_ints cw w en v : wf_f (FListInt cw w) en v = (vlen v <? wmax cw) && wf_ints w v.
Proof. reflexivity. Qed.
Lemma dec_f_list cw s rh en b :
  dec_f (FList cw s rh) en b =
  match take (Z.of_nat cw) b with
  | Some (h, r) => dec_list s (Z.to_nat (le_dec h)) r
  | None => None
  end.
Proof. reflexivity. Qed.
Lemma dec_f_ints cw w en b :
  dec_f (FListInt cw w) en b =
  match take (Z.of_nat cw) b with
  | Some (h, r) => dec_ints w (Z.to_nat (le_dec h)) r
  | None => None
  end.
Proof. reflexivity. Qed.

Lemma vlen_to_nat_cons x xs : Z.to_nat (vlen (VCons x xs)) = S (Z.to_nat (vlen xs)).
Proof. cbn [vlen]. pose proof (vlen_nonneg xs). lia. Qed.

(* ---------- round trip: decode after encode ---------- *)
Lemma dec_list_enc s (IH : forall en v r, wf_s s en v = true -> dec_s s en (enc_s s v ++ r) = Some (v, r)) :
  forall l r, wf_list s l = true -> dec_list s (Z.to_nat (vlen l)) (enc_list s l ++ r) = Some (l, r).
Proof.
  induction l as [z|b| |x _ xs IHxs]; intros r W; cbn [wf_list] in W; try discriminate.
  - reflexivity.
  - apply andb_prop in W as [W1 W2].
    rewrite vlen_to_nat_cons. cbn [enc_list dec_list]. fold (enc_list s) (dec_list s).
    rewrite <- app_assoc, (IH [] x _ W1), (IHxs r W2). reflexivity.
Qed.

Lemma dec_ints_enc w : forall l r, wf_ints w l = true ->
  dec_ints w (Z.to_nat (vlen l)) (enc_ints w l ++ r) = Some (l, r).
Proof.
  induction l as [z|b| |x _ xs IHxs]; intros r W; cbn [wf_ints] in W; try discriminate.
  - reflexivity.
  - destruct x as [z| | |]; try discriminate.
    apply andb_prop in W as [W1 W2].
    rewrite vlen_to_nat_cons. cbn [enc_ints dec_ints]. fold (enc_ints w) (dec_ints w).
    rewrite <- app_assoc, (take_app_n (Z.of_nat w)) by apply zlen_le_enc.
    rewrite (IHxs r W2), le_dec_enc_w by lia. reflexivity.
Qed.

Lemma roundtrip_mut :
  (forall s en v r, wf_s s en v = true -> dec_s s en (enc_s s v ++ r) = Some (v, r)) /\
  (forall t en v r, wf_f t en v = true -> dec_f t en (enc_f t v ++ r) = Some (v, r)).
Proof.
  apply schema_fty_ind.
  - (* SNil *) intros en v r W. destruct v; cbn [wf_s] in W; try discriminate. reflexivity.
  - (* SCons *) intros name t IHt rest IHr en v r W.
    destruct v as [| | |x xs]; cbn [wf_s] in W; try discriminate.
    apply andb_prop in W as [W1 W2].
    cbn [enc_s dec_s]. rewrite <- app_assoc, (IHt en x _ W1), (IHr _ xs r W2). reflexivity.
  - (* FInt *) intros w en v r W. destruct v as [z| | |]; cbn [wf_f] in W; try discriminate.
    cbn [enc_f dec_f]. rewrite (take_app_n (Z.of_nat w)) by apply zlen_le_enc.
    rewrite le_dec_enc_w by lia. reflexivity.
  - (* FArr *) intros n en v r W. destruct v as [|b| |]; cbn [wf_f] in W; try discriminate.
    apply andb_prop in W as [W1 _].
    cbn [enc_f dec_f]. rewrite (take_app_n (Z.of_nat n)) by lia. reflexivity.
  - (* FSub *) intros s IH rh en v r W. cbn [wf_f] in W. cbn [enc_f dec_f]. now apply IH.
  - (* FList *) intros cw s IH rh en v r W. rewrite wf_f_list in W. apply andb_prop in W as [W1 W2].
    rewrite enc_f_list, dec_f_list, <- app_assoc.
    rewrite (take_app_n (Z.of_nat cw)) by apply zlen_le_enc.
    pose proof (vlen_nonneg v). rewrite le_dec_enc_w by lia.
    now apply dec_list_enc.
  - (* FListInt *) intros cw w en v r W. rewrite wf_f_ints in W. apply andb_prop in W as [W1 W2].
    rewrite enc_f_ints, dec_f_ints, <- app_assoc.
    rewrite (take_app_n (Z.of_nat cw)) by apply zlen_le_enc.
    pose proof (vlen_nonneg v). rewrite le_dec_enc_w by lia.
    now apply dec_ints_enc.
  - (* FBytesP *) intros cw en v r W. destruct v as [|b| |]; cbn [wf_f] in W; try discriminate.
    apply andb_prop in W as [W1 _].
    cbn [enc_f dec_f]. rewrite <- app_assoc.
    rewrite (take_app_n (Z.of_nat cw)) by apply zlen_le_enc.
    pose proof (zlen_nonneg b). rewrite le_dec_enc_w by lia.
    rewrite take_app. reflexivity.
  - (* FBytesC *) intros cw e en v r W. destruct v as [|b| |]; cbn [wf_f] in W; try discriminate.
    apply andb_prop in W as [W1 _].
    cbn [enc_f dec_f]. rewrite (take_app_n (ceval e en mod wmax cw)) by lia. reflexivity.
Qed.

Theorem codec_roundtrip_s : forall s en v r,
  wf_s s en v = true -> dec_s s en (enc_s s v ++ r) = Some (v, r).
Proof. exact (proj1 roundtrip_mut). Qed.

(* ---------- size: length of the encoding = TotalSize ---------- *)
Lemma size_list_enc s (IH : forall en v, wf_s s en v = true -> zlen (enc_s s v) = size_s s v) :
  forall l, wf_list s l = true -> zlen (enc_list s l) = size_list s l.
Proof.
  induction l as [z|b| |x _ xs IHxs]; intros W; cbn [wf_list] in W; try discriminate.
  - reflexivity.
  - apply andb_prop in W as [W1 W2]. cbn [enc_list size_list]. fold (enc_list s) (size_list s).
    rewrite zlen_app, (IH [] x W1), (IHxs W2). reflexivity.
Qed.

Lemma size_ints_enc w : forall l, wf_ints w l = true -> zlen (enc_ints w l) = Z.of_nat w * vlen l.
Proof.
  induction l as [z|b| |x _ xs IHxs]; intros W; cbn [wf_ints] in W; try discriminate.
  - cbn [enc_ints vlen]. rewrite zlen_nil. lia.
  - destruct x as [z| | |]; try discriminate. apply andb_prop in W as [W1 W2].
    cbn [enc_ints vlen]. fold (enc_ints w). rewrite zlen_app, zlen_le_enc, (IHxs W2). lia.
Qed.

Lemma size_mut :
  (forall s en v, wf_s s en v = true -> zlen (enc_s s v) = size_s s v) /\
  (forall t en v, wf_f t en v = true -> zlen (enc_f t v) = size_f t v).
Proof.
  apply schema_fty_ind.
  - intros en v W. destruct v; cbn [wf_s] in W; try discriminate. reflexivity.
  - intros name t IHt rest IHr en v W.
    destruct v as [| | |x xs]; cbn [wf_s] in W; try discriminate.
    apply andb_prop in W as [W1 W2]. cbn [enc_s size_s].
    rewrite zlen_app, (IHt en x W1), (IHr _ xs W2). reflexivity.
  - intros w en v W. destruct v as [z| | |]; cbn [wf_f] in W; try discriminate.
    cbn [enc_f size_f]. apply zlen_le_enc.
  - intros n en v W. destruct v as [|b| |]; cbn [wf_f] in W; try discriminate.
    apply andb_prop in W as [W1 _]. cbn [enc_f size_f]. lia.
  - intros s IH rh en v W. cbn [wf_f] in W. cbn [enc_f size_f]. now apply (IH []).
  - intros cw s IH rh en v W. rewrite wf_f_list in W. apply andb_prop in W as [W1 W2].
    rewrite enc_f_list, size_f_list, zlen_app, zlen_le_enc, (size_list_enc s IH v W2). reflexivity.
  - intros cw w en v W. rewrite wf_f_ints in W. apply andb_prop in W as [W1 W2].
    rewrite enc_f_ints. cbn [size_f]. rewrite zlen_app, zlen_le_enc, (size_ints_enc w v W2). reflexivity.
  - intros cw en v W. destruct v as [|b| |]; cbn [wf_f] in W; try discriminate.
    cbn [enc_f size_f]. rewrite zlen_app, zlen_le_enc. reflexivity.
  - intros cw e en v W. destruct v as [|b| |]; cbn [wf_f] in W; try discriminate. reflexivity.
Qed.

Theorem codec_size_s : forall s en v, wf_s s en v = true -> zlen (enc_s s v) = size_s s v.
Proof. exact (proj1 size_mut). Qed.

Lemma size_f_enc : forall t en v, wf_f t en v = true -> zlen (enc_f t v) = size_f t v.
Proof. exact (proj2 size_mut). Qed.

(* ---------- offsets ---------- *)
(* <F>Offset = length of the encoding of the fields before F *)
Theorem codec_offsets_s : forall i s en v, wf_s s en v = true ->
  offset_s s v i = zlen (enc_s (prefix_s s i) v).
Proof.
  induction i as [|i IH]; intros s en v W.
  - destruct s; reflexivity.
  - destruct s as [|name t rest].
    + destruct v; cbn [wf_s] in W; try discriminate. reflexivity.
    + destruct v as [| | |x xs]; cbn [wf_s] in W; try discriminate.
      apply andb_prop in W as [W1 W2].
      cbn [offset_s prefix_s enc_s]. rewrite zlen_app, (size_f_enc t en x W1), (IH rest _ xs W2).
      reflexivity.
Qed.

(* and field i's own bytes sit exactly there in the output *)
Theorem codec_field_at_offset : forall i s en v t x, wf_s s en v = true ->
  field_s s i = Some t -> vnth v i = Some x ->
  sub (offset_s s v i) (size_f t x) (enc_s s v) = enc_f t x.
Proof.
  induction i as [|i IH]; intros s en v t x W F X.
  - destruct s as [|name t' rest]; cbn [field_s] in F; try discriminate. inversion F; subst t'.
    destruct v as [| | |x' xs]; cbn [vnth] in X; try discriminate. inversion X; subst x'.
    cbn [wf_s] in W. apply andb_prop in W as [W1 W2].
    cbn [offset_s enc_s]. rewrite <- (size_f_enc t en x W1). apply sub_app_here. reflexivity.
  - destruct s as [|name t' rest]; cbn [field_s] in F; try discriminate.
    destruct v as [| | |x' xs]; cbn [vnth] in X; try discriminate.
    cbn [wf_s] in W. apply andb_prop in W as [W1 W2].
    cbn [offset_s enc_s]. rewrite <- (size_f_enc t' en x' W1).
    pose proof (IH rest _ xs t x W2 F X) as H.
    assert (O : 0 <= offset_s rest xs i).
    { rewrite (codec_offsets_s i rest _ xs W2). apply zlen_nonneg. }
    rewrite (sub_app_skip _ _ _ _ (zlen (enc_f t' x')) eq_refl) by lia.
    replace (zlen (enc_f t' x') + offset_s rest xs i - zlen (enc_f t' x')) with (offset_s rest xs i) by lia.
    exact H.
Qed.

(* ---------- re-encode: encode after decode ---------- *)
Lemma bytes_ok_take n b h r : bytes_ok b = true -> take n b = Some (h, r) ->
  bytes_ok h = true /\ bytes_ok r = true.
Proof.
  intros B T. apply take_some in T as (E & _ & _). subst b.
  rewrite bytes_ok_app in B. now apply andb_prop in B.
Qed.

Lemma le_enc_dec_take n b h r : bytes_ok b = true -> take (Z.of_nat n) b = Some (h, r) ->
  le_enc n (le_dec h) = h.
Proof.
  intros B T. destruct (bytes_ok_take _ _ _ _ B T) as [Bh _].
  apply take_some in T as (_ & L & _).
  replace n with (length h) by (unfold zlen in L; lia). now apply le_enc_dec.
Qed.

Lemma le_dec_take_bound n b h r : bytes_ok b = true -> take (Z.of_nat n) b = Some (h, r) ->
  0 <= le_dec h < wmax n.
Proof.
  intros B T. destruct (bytes_ok_take _ _ _ _ B T) as [Bh _].
  apply take_some in T as (_ & L & _). unfold wmax. rewrite <- L. now apply le_dec_bound.
Qed.

Definition reenc_goal_s (s : schema) := forall en b v r,
  bytes_ok b = true -> dec_s s en b = Some (v, r) ->
  enc_s s v ++ r = b /\ wf_s s en v = true /\ bytes_ok r = true.
Definition reenc_goal_f (t : fty) := forall en b v r,
  bytes_ok b = true -> dec_f t en b = Some (v, r) ->
  enc_f t v ++ r = b /\ wf_f t en v = true /\ bytes_ok r = true.

Lemma reenc_list s (IH : reenc_goal_s s) : forall k b v r,
  bytes_ok b = true -> dec_list s k b = Some (v, r) ->
  enc_list s v ++ r = b /\ wf_list s v = true /\ bytes_ok r = true /\ vlen v = Z.of_nat k.
Proof.
  induction k as [|k IHk]; intros b v r B D; cbn [dec_list] in D.
  - inversion D; subst. repeat split; auto.
  - fold (dec_list s) in D.
    destruct (dec_s s [] b) as [[x b1]|] eqn:D1; [|discriminate].
    destruct (dec_list s k b1) as [[xs b2]|] eqn:D2; [|discriminate].
    inversion D; subst v r. clear D.
    destruct (IH _ _ _ _ B D1) as (E1 & W1 & B1).
    destruct (IHk _ _ _ B1 D2) as (E2 & W2 & B2 & L2).
    cbn [enc_list wf_list vlen]. fold (enc_list s) (wf_list s).
    rewrite <- app_assoc, E2, E1, W1, W2. repeat split; auto. lia.
Qed.

Lemma reenc_ints w : forall k b v r,
  bytes_ok b = true -> dec_ints w k b = Some (v, r) ->
  enc_ints w v ++ r = b /\ wf_ints w v = true /\ bytes_ok r = true /\ vlen v = Z.of_nat k.
Proof.
  induction k as [|k IHk]; intros b v r B D; cbn [dec_ints] in D.
  - inversion D; subst. repeat split; auto.
  - fold (dec_ints w) in D.
    destruct (take (Z.of_nat w) b) as [[h1 b1]|] eqn:T1; [|discriminate].
    destruct (dec_ints w k b1) as [[xs b2]|] eqn:D2; [|discriminate].
    inversion D; subst v r. clear D.
    destruct (bytes_ok_take _ _ _ _ B T1) as [Bh B1].
    destruct (IHk _ _ _ B1 D2) as (E2 & W2 & B2 & L2).
    pose proof (le_dec_take_bound _ _ _ _ B T1) as Bd.
    cbn [enc_ints wf_ints vlen]. fold (enc_ints w) (wf_ints w).
    rewrite (le_enc_dec_take _ _ _ _ B T1), <- app_assoc, E2, W2.
    apply take_some in T1 as (E1 & _ & _). subst b.
    repeat split; auto; lia.
Qed.

Lemma reenc_mut : (forall s, reenc_goal_s s) /\ (forall t, reenc_goal_f t).
Proof.
  apply schema_fty_ind; unfold reenc_goal_s, reenc_goal_f.
  - intros en b v r B D. cbn [dec_s] in D. inversion D; subst. repeat split; auto.
  - intros name t IHt rest IHr en b v r B D. cbn [dec_s] in D.
    destruct (dec_f t en b) as [[x b1]|] eqn:D1; [|discriminate].
    destruct (dec_s rest (en ++ [x]) b1) as [[xs b2]|] eqn:D2; [|discriminate].
    inversion D; subst v r. clear D.
    destruct (IHt _ _ _ _ B D1) as (E1 & W1 & B1).
    destruct (IHr _ _ _ _ B1 D2) as (E2 & W2 & B2).
    cbn [enc_s wf_s]. rewrite <- app_assoc, E2, E1, W1, W2. repeat split; auto.
  - intros w en b v r B D. cbn [dec_f] in D.
    destruct (take (Z.of_nat w) b) as [[h r']|] eqn:T; [|discriminate]. inversion D; subst v r'. clear D.
    pose proof (le_dec_take_bound _ _ _ _ B T) as Bd.
    destruct (bytes_ok_take _ _ _ _ B T) as [Bh Br].
    cbn [enc_f wf_f]. rewrite (le_enc_dec_take _ _ _ _ B T).
    apply take_some in T as (E & _ & _). subst b. repeat split; auto; lia.
  - intros n en b v r B D. cbn [dec_f] in D.
    destruct (take (Z.of_nat n) b) as [[h r']|] eqn:T; [|discriminate]. inversion D; subst v r'. clear D.
    destruct (bytes_ok_take _ _ _ _ B T) as [Bh Br].
    cbn [enc_f wf_f]. apply take_some in T as (E & L & _). subst b. rewrite Bh.
    repeat split; auto; lia.
  - intros s IH rh en b v r B D. cbn [dec_f] in D. cbn [enc_f wf_f]. now apply IH.
  - intros cw s IH rh en b v r B D. rewrite dec_f_list in D.
    destruct (take (Z.of_nat cw) b) as [[h r']|] eqn:T; [|discriminate].
    destruct (bytes_ok_take _ _ _ _ B T) as [Bh Br].
    pose proof (le_dec_take_bound _ _ _ _ B T) as Bd.
    destruct (reenc_list s IH _ _ _ _ Br D) as (E & W & B2 & L).
    rewrite enc_f_list, wf_f_list, L, Z2Nat.id by lia.
    rewrite (le_enc_dec_take _ _ _ _ B T), <- app_assoc, E, W.
    apply take_some in T as (E1 & _ & _). subst b. repeat split; auto; lia.
  - intros cw w en b v r B D. rewrite dec_f_ints in D.
    destruct (take (Z.of_nat cw) b) as [[h r']|] eqn:T; [|discriminate].
    destruct (bytes_ok_take _ _ _ _ B T) as [Bh Br].
    pose proof (le_dec_take_bound _ _ _ _ B T) as Bd.
    destruct (reenc_ints w _ _ _ _ Br D) as (E & W & B2 & L).
    rewrite enc_f_ints, wf_f_ints, L, Z2Nat.id by lia.
    rewrite (le_enc_dec_take _ _ _ _ B T), <- app_assoc, E, W.
    apply take_some in T as (E1 & _ & _). subst b. repeat split; auto; lia.
  - intros cw en b v r B D. cbn [dec_f] in D.
    destruct (take (Z.of_nat cw) b) as [[h r']|] eqn:T; [|discriminate].
    destruct (take (le_dec h) r') as [[d r'']|] eqn:T2; [|discriminate].
    inversion D; subst v r''. clear D.
    destruct (bytes_ok_take _ _ _ _ B T) as [Bh Br].
    destruct (bytes_ok_take _ _ _ _ Br T2) as [Bd Br2].
    pose proof (le_dec_take_bound _ _ _ _ B T) as Bb.
    cbn [enc_f wf_f].
    apply take_some in T2 as (E2 & L2 & _). rewrite L2, (le_enc_dec_take _ _ _ _ B T).
    apply take_some in T as (E1 & _ & _). subst b r'. rewrite Bd, <- app_assoc.
    repeat split; auto; lia.
  - intros cw e en b v r B D. cbn [dec_f] in D.
    destruct (take (ceval e en mod wmax cw) b) as [[d r']|] eqn:T; [|discriminate].
    inversion D; subst v r'. clear D.
    destruct (bytes_ok_take _ _ _ _ B T) as [Bd Br].
    cbn [enc_f wf_f]. apply take_some in T as (E & L & _). subst b. rewrite Bd.
    repeat split; auto; lia.
Qed.

Theorem codec_reencode_s : forall s en b v r,
  bytes_ok b = true -> dec_s s en b = Some (v, r) ->
  enc_s s v ++ r = b /\ wf_s s en v = true /\ bytes_ok r = true.
Proof. exact (proj1 reenc_mut). Qed.

(* bytes consumed by a successful read = TotalSize of the value read *)
Theorem codec_consumed_s : forall s en b v r,
  bytes_ok b = true -> dec_s s en b = Some (v, r) -> zlen b - zlen r = size_s s v.
Proof.
  intros s en b v r B D. destruct (codec_reencode_s _ _ _ _ _ B D) as (E & W & _).
  rewrite <- (codec_size_s s en v W), <- E, zlen_app. lia.
Qed.
