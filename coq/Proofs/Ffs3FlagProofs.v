(* Proofs/Ffs3FlagProofs.v — property C02, the file-system GUID of a rebuilt volume: Assemble's
   "use FFSv3" flag is per volume.  A file that Assemble rebuilds in the large form raises it,
   nothing clears it before the volume is written (a nested volume among the later files starts
   with its own cleared flag and hands the enclosing volume's flag back), so a rebuilt
   non-resizable volume that carried the FFSv2 GUID and holds such a file is written with the
   FFSv3 GUID. *)
From Fiano Require Import Base.Bytes Base.BytesLemmas Gen.Consts Model.Ffs Proofs.FfsSaveProofs
  Model.Edit Model.Valid Model.ValidInv
  Proofs.EditProofs Proofs.AsmProofs Proofs.ValidProofs Proofs.ValidTreeProofs Proofs.ValidEndProofs.
From Coq Require Import ZifyBool ZifyNat.
Open Scope Z_scope.

(* the file [x] is rebuilt by Assemble (it has sections or an NVAR store) and comes out as [x'] in
   the large form *)
Definition rebuilt_large (x x' : node) : bool :=
  match x, x' with
  | NFile hx _ ks, NFile hx' _ _ =>
    negb (match ks, f_nvar hx with [], None => true | _, _ => false end) && attr_large (f_attr hx')
  | _, _ => false
  end.

Section Flag.
Variable enc : Z -> bytes -> option bytes.
Variable s2u : bytes -> bytes.

Lemma file_raises x x' p p' fx : asm enc s2u x (p, false) = Ok (x', (p', fx)) ->
  rebuilt_large x x' = true -> fx = true.
Proof.
  intros H R. destruct x as [| hx fbx ks | |]; try discriminate R.
  destruct x' as [| hx' nb ks' | |]; try discriminate R.
  cbn [rebuilt_large] in R. apply andb_true_iff in R as [Rn Rl].
  rewrite asm_file in H. apply bind_ok in H as ([ks1 [p1 f1]] & Ek & H).
  pose proof (asm_elems_v_length enc s2u _ _ _ _ Ek) as Lk.
  unfold file_asm in H.
  assert (Hnl : match ks1, f_nvar hx with [], None => true | _, _ => false end = false).
  { destruct ks as [|k0 kr]; destruct ks1 as [|c0 cr]; try discriminate Lk;
      destruct (f_nvar hx); try reflexivity; discriminate Rn. }
  set (data := match f_nvar hx with Some nb0 => nb0 | None => join4 [] (map node_buf ks1) end) in *.
  assert (H' : (let '(ext, attr) := set_size (f_attr hx) (24 + zlen data) true in
                let '(h', nb1) := checksum_and_assemble hx ext attr data in
                Ok (NFile h' nb1 ks1, (p1, f1 || (16777215 <? ext)))) = Ok (NFile hx' nb ks', (p', fx))).
  { destruct ks1 as [|c0 cr]; destruct (f_nvar hx); try discriminate Hnl; exact H. }
  clear H. pose proof (set_size_large_gen (f_attr hx) (24 + zlen data) true) as SL.
  destruct (set_size (f_attr hx) (24 + zlen data) true) as [ext attr] eqn:Es. cbn [snd] in SL.
  assert (Hext : attr_large attr = true -> (16777215 <? ext) = true).
  { intros Ha. rewrite SL in Ha. unfold set_size in Es. rewrite Ha in Es.
    assert (Ee : 24 + zlen data + 8 = ext) by congruence. lia. }
  destruct (checksum_and_assemble hx ext attr data) as [h1 nb1] eqn:Ec.
  assert (Eh : h1 = fst (checksum_and_assemble hx ext attr data)) by (rewrite Ec; reflexivity).
  assert (Ea : f_attr h1 = attr) by (rewrite Eh; reflexivity).
  match type of H' with Ok (?a, (_, ?fl)) = Ok _ =>
    assert (E1 : a = NFile hx' nb ks') by congruence; assert (E2 : fl = fx) by congruence end.
  assert (E3 : h1 = hx') by congruence. subst hx'. rewrite Ea in Rl.
  rewrite <- E2, (Hext Rl). apply orb_true_r.
Qed.

Lemma flag_list : forall kids p kids' p' f1,
  asm_elems enc s2u kids (p, false) = Ok (kids', (p', f1)) ->
  forall i x x', nth_error kids i = Some x -> nth_error kids' i = Some x' ->
    rebuilt_large x x' = true -> f1 = true.
Proof.
  induction kids as [|x0 r IH]; intros p kids' p' f1 H i x x' Hx Hx' R.
  - destruct i; discriminate Hx.
  - cbn [asm_elems] in H. apply bind_ok in H as ([x0' [p1 f0]] & E0 & H).
    rewrite (asm_elems_flag enc s2u r p1 f0) in H.
    destruct (asm_elems enc s2u r (p1, false)) as [[r' [p2 fr]]| | |] eqn:Er; cbn [lift bind] in H; try discriminate.
    match type of H with Ok (?l, (_, ?fl)) = Ok _ =>
      assert (El : l = kids') by congruence; assert (Ef : fl = f1) by congruence end.
    subst kids'. destruct i as [|j]; cbn [nth_error] in Hx, Hx'.
    + assert (Ex0 : x0 = x) by congruence. assert (Ex1 : x0' = x') by congruence. subst x0 x0'.
      rewrite (file_raises _ _ _ _ _ E0 R) in Ef. rewrite <- Ef. reflexivity.
    + rewrite (IH _ _ _ _ Er j x x' Hx Hx' R) in Ef. rewrite <- Ef. apply orb_true_r.
Qed.

(* the volume: rebuilt, not resizable, header as the reader accepted it *)
Lemma large_file_makes_ffs3 h vb kids st h' b kids' st' :
  asm enc s2u (NVol h vb kids) st = Ok (NVol h' b kids', st') ->
  v_resizable h = false -> vhdr_inb h vb = true -> vol_verbatim h kids' = false ->
  bytes_eqb (v_guid h) FFS2 = true ->
  (exists i x x', nth_error kids i = Some x /\ nth_error kids' i = Some x' /\ rebuilt_large x x' = true) ->
  sub 16 16 b = FFS3 /\ snd st' = snd st.
Proof.
  intros H Hr Hin Hv Hg (i & x & x' & Hx & Hx' & R).
  rewrite asm_vol_eq in H.
  destruct (set_polarity (fst st) (fv_polarity (v_attrs h))) as [pol0|]; [|discriminate].
  apply bind_ok in H as ([ks1 [p1 f1]] & Ek & H).
  apply bind_ok in H as ([n1 st2] & Ev & H).
  unfold vol_asm in Ev. apply bind_ok in Ev as ([h1 nb1] & Ea & Ev).
  assert (En : n1 = NVol h1 nb1 ks1) by congruence.
  assert (E1 : n1 = NVol h' b kids') by congruence.
  assert (E2 : snd st' = snd st) by (inversion H; reflexivity).
  rewrite En in E1. inversion E1; subst h1 nb1 ks1.
  split; [|exact E2].
  rewrite (flag_list _ _ _ _ _ Ek i x x' Hx Hx' R) in Ea.
  destruct (hagree_asm_vol _ _ _ _ _ _ _ Ea Hv Hr (vhdr_inb_spec _ _ Hin)) as (_ & _ & G).
  apply G. rewrite Hg. reflexivity.
Qed.

End Flag.
