(* Proofs/ExtractEditProofs.v — property C07, second sentence, at every depth of the tree.

   (1) [reload_jedit]: replacing a field in summary.json and loading the directory gives the tree that
       loading first and replacing the field in the tree gives (the counters of "the k-th candidate"
       agree as well).  Uses that Name / Version / DepEx / the file GUID / the section type survive
       encoding/json (flags of Gen/JsonFields.v): if one of them is tagged json:"-" the proof breaks.
   (2) [nedit_rel]: the replacement preserves the relation "the assembler cannot tell these trees apart".
   (3) hence [dir_edit_save_eq]: extract + edit of the JSON + save-from-directory = the same edit on the
       parsed tree followed by the same two Assemble passes, for every image and every k.
   (4) "exactly that field", one level at a time and for every kind of container: an edited child inside
       a volume / an encapsulating section / the region — the siblings are assembled to the same nodes
       and the container is rebuilt by its own rule around the new child ([edit_in_volume],
       [edit_in_section], [edit_in_region]; files are [edit_section_in_file] of ExtractProofs.v). *)
From Coq Require Import ZifyBool ZifyNat.
From Fiano Require Import Base.Bytes Base.BytesLemmas Model.Ffs Model.Extract Model.ExtractEdit Proofs.ExtractProofs.
Open Scope Z_scope.

(* ---------- induction on JSON trees ---------- *)
Section JInd.
Variable P : jnode -> Prop.
Hypothesis Hpad : forall o p, P (JPad o p).
Hypothesis Hsec : forall h p k, Forall P k -> P (JSec h p k).
Hypothesis Hfile : forall h p k, Forall P k -> P (JFile h p k).
Hypothesis Hvol : forall h p k, Forall P k -> P (JVol h p k).
Fixpoint jnode_ind2 (j : jnode) : P j :=
  let go := fix go (l : list jnode) : Forall P l :=
    match l with [] => Forall_nil P | x :: r => Forall_cons x (jnode_ind2 x) (go r) end in
  match j with
  | JPad o p => Hpad o p
  | JSec h p k => Hsec h p k (go k)
  | JFile h p k => Hfile h p k (go k)
  | JVol h p k => Hvol h p k (go k)
  end.
End JInd.

(* ---------- unfolding ---------- *)
Section Unfold.
Variable e : fedit.

Lemma jedit_sec h p kids k : jedit e (JSec h p kids) k =
  let '(h', k1) := step (sec_cand e (s_type h)) (edit_sec e) h k in
  let '(kids', k2) := jedit_list e kids k1 in (JSec h' p kids', k2).
Proof. reflexivity. Qed.
Lemma jedit_file h p kids k : jedit e (JFile h p kids) k =
  let '(h', k1) := step (file_cand e kids) (edit_file e) h k in
  let '(kids', k2) := jedit_list e kids k1 in (JFile h' p kids', k2).
Proof. reflexivity. Qed.
Lemma jedit_vol h p kids k : jedit e (JVol h p kids) k =
  let '(kids', k2) := jedit_list e kids k in (JVol h p kids', k2).
Proof. reflexivity. Qed.
Lemma jedit_list_cons x r k : jedit_list e (x :: r) k =
  let '(x', k1) := jedit e x k in let '(r', k2) := jedit_list e r k1 in (x' :: r', k2).
Proof. reflexivity. Qed.

Lemma nedit_sec h b kids k : nedit e (NSec h b kids) k =
  let '(h', k1) := step (sec_cand e (s_type h)) (edit_sec e) h k in
  let '(kids', k2) := nedit_list e kids k1 in (NSec h' b kids', k2).
Proof. reflexivity. Qed.
Lemma nedit_file h b kids k : nedit e (NFile h b kids) k =
  let '(h', k1) := step (file_cand e kids) (edit_file e) h k in
  let '(kids', k2) := nedit_list e kids k1 in (NFile h' b kids', k2).
Proof. reflexivity. Qed.
Lemma nedit_vol h b kids k : nedit e (NVol h b kids) k =
  let '(kids', k2) := nedit_list e kids k in (NVol h b kids', k2).
Proof. reflexivity. Qed.
Lemma nedit_list_cons x r k : nedit_list e (x :: r) k =
  let '(x', k1) := nedit e x k in let '(r', k2) := nedit_list e r k1 in (x' :: r', k2).
Proof. reflexivity. Qed.

Lemma nedit_list_length : forall l k, length (fst (nedit_list e l k)) = length l.
Proof.
  induction l as [|x r IH]; intros k; [reflexivity|].
  rewrite nedit_list_cons. destruct (nedit e x k) as [x' k1].
  specialize (IH k1). destruct (nedit_list e r k1) as [r' k2]. cbn [fst length] in *. congruence.
Qed.

Lemma nedit_list_nil l k : fst (nedit_list e l k) = [] <-> l = [].
Proof.
  pose proof (nedit_list_length l k) as L.
  destruct l, (fst (nedit_list e _ k)); cbn in L; split; intros; try reflexivity; try discriminate.
Qed.

(* step: the same decision on both sides of a map that commutes with the edit *)
Lemma step_map {A B} (pr : A -> B) (a : bool) (ed : A -> A) (ed' : B -> B) h k :
  (forall x, pr (ed x) = ed' (pr x)) ->
  step a ed' (pr h) k = (pr (fst (step a ed h k)), snd (step a ed h k)).
Proof. intros C. destruct k as [[|m]|], a; cbn; rewrite ?C; reflexivity. Qed.

End Unfold.

(* ---------- (1) loading an edited summary.json = editing the loaded tree ---------- *)
Section ReloadEdit.
Variable mangle3 : Z -> Z.
Variable e : fedit.
Notation reload := (reload mangle3).
Notation reload_list := (reload_list mangle3).

(* the edited fields and the section type survive encoding/json *)
Lemma proj_edit_sec h : proj_sec (edit_sec e h) = edit_sec e (proj_sec h).
Proof. destruct e, h; reflexivity. Qed.
Lemma proj_sec_type h : s_type (proj_sec h) = s_type h.
Proof. reflexivity. Qed.
Lemma proj_edit_file h : proj_file mangle3 (edit_file e h) = edit_file e (proj_file mangle3 h).
Proof. destruct e, h; reflexivity. Qed.

Lemma reload_list_length F : forall l ns, reload_list F l = Ok ns -> length ns = length l.
Proof.
  induction l as [|x r IH]; intros ns H.
  - cbn in H. inversion H. reflexivity.
  - rewrite reload_list_cons in H.
    destruct (reload F x) as [a| | |]; cbn [bind] in H; try discriminate.
    destruct (reload_list F r) as [b| | |] eqn:E; cbn [bind] in H; try discriminate.
    inversion H; subst. cbn. f_equal. apply IH. reflexivity.
Qed.

Lemma file_cand_length {A B} (a : list A) (b : list B) : length a = length b -> file_cand e a = file_cand e b.
Proof. destruct e, a, b; cbn; intros; try reflexivity; discriminate. Qed.

Definition jedit_at (j : jnode) : Prop := forall F n, reload F j = Ok n -> forall k,
  reload F (fst (jedit e j k)) = Ok (fst (nedit e n k)) /\ snd (jedit e j k) = snd (nedit e n k).
Definition jedit_list_at (l : list jnode) : Prop := forall F ns, reload_list F l = Ok ns -> forall k,
  reload_list F (fst (jedit_list e l k)) = Ok (fst (nedit_list e ns k)) /\
  snd (jedit_list e l k) = snd (nedit_list e ns k).

Lemma jedit_list_of_Forall l : Forall jedit_at l -> jedit_list_at l.
Proof.
  induction 1 as [|x r Hx Hr IH]; intros F ns H k.
  - cbn in H. inversion H; subst. split; reflexivity.
  - rewrite reload_list_cons in H.
    destruct (reload F x) as [a| | |] eqn:Ea; cbn [bind] in H; try discriminate.
    destruct (reload_list F r) as [b| | |] eqn:Eb; cbn [bind] in H; try discriminate.
    inversion H; subst ns. rewrite jedit_list_cons, nedit_list_cons.
    destruct (Hx F a Ea k) as [H1 H2].
    destruct (jedit e x k) as [x' k1]. destruct (nedit e a k) as [a' k1']. cbn [fst snd] in H1, H2. subst k1'.
    destruct (IH F b Eb k1) as [H3 H4].
    destruct (jedit_list e r k1) as [r' k2]. destruct (nedit_list e b k1) as [b' k2']. cbn [fst snd] in *. subst k2'.
    split; [|reflexivity]. rewrite reload_list_cons, H1. cbn [bind]. rewrite H3. reflexivity.
Qed.

Theorem reload_jedit : forall j, jedit_at j.
Proof.
  induction j as [o p|h p kids IH|h p kids IH|h p kids IH] using jnode_ind2; intros F n H k.
  - (* padding *)
    cbn [jedit fst snd]. rewrite H. rewrite reload_pad in H.
    destruct (read_buf F sv_pad_path p) as [b| | |]; cbn [bind] in H; try discriminate.
    inversion H; subst. split; reflexivity.
  - (* section *)
    apply jedit_list_of_Forall in IH.
    rewrite reload_sec in H. change (if sv_sec_kids then kids else []) with kids in H.
    destruct (read_buf F sv_sec_path p) as [b| | |] eqn:Eb; cbn [bind] in H; try discriminate.
    destruct (reload_list F kids) as [ks| | |] eqn:Ek; cbn [bind] in H; try discriminate.
    inversion H; subst n. rewrite jedit_sec, nedit_sec. rewrite proj_sec_type.
    rewrite (step_map proj_sec _ (edit_sec e) (edit_sec e) h k proj_edit_sec).
    destruct (step (sec_cand e (s_type h)) (edit_sec e) h k) as [h' k1]. cbn [fst snd].
    destruct (IH F ks Ek k1) as [H1 H2].
    destruct (jedit_list e kids k1) as [kids' k2]. destruct (nedit_list e ks k1) as [ks' k2']. cbn [fst snd] in *. subst k2'.
    split; [|reflexivity]. rewrite reload_sec. change (if sv_sec_kids then kids' else []) with kids'.
    rewrite Eb. cbn [bind]. rewrite H1. reflexivity.
  - (* file *)
    apply jedit_list_of_Forall in IH.
    rewrite reload_file in H. change (if sv_file_kids then kids else []) with kids in H.
    destruct (read_buf F sv_file_path p) as [b| | |] eqn:Eb; cbn [bind] in H; try discriminate.
    destruct (reload_list F kids) as [ks| | |] eqn:Ek; cbn [bind] in H; try discriminate.
    inversion H; subst n. rewrite jedit_file, nedit_file.
    rewrite <- (file_cand_length kids ks) by (symmetry; eapply reload_list_length; eauto).
    rewrite (step_map (proj_file mangle3) _ (edit_file e) (edit_file e) h k proj_edit_file).
    destruct (step (file_cand e kids) (edit_file e) h k) as [h' k1]. cbn [fst snd].
    destruct (IH F ks Ek k1) as [H1 H2].
    destruct (jedit_list e kids k1) as [kids' k2]. destruct (nedit_list e ks k1) as [ks' k2']. cbn [fst snd] in *. subst k2'.
    split; [|reflexivity]. rewrite reload_file. change (if sv_file_kids then kids' else []) with kids'.
    rewrite Eb. cbn [bind]. rewrite H1. reflexivity.
  - (* volume *)
    apply jedit_list_of_Forall in IH.
    rewrite reload_vol in H. change (if sv_vol_kids then kids else []) with kids in H.
    destruct (read_buf F sv_vol_path p) as [b| | |] eqn:Eb; cbn [bind] in H; try discriminate.
    destruct (reload_list F kids) as [ks| | |] eqn:Ek; cbn [bind] in H; try discriminate.
    inversion H; subst n. rewrite jedit_vol, nedit_vol.
    destruct (IH F ks Ek k) as [H1 H2].
    destruct (jedit_list e kids k) as [kids' k2]. destruct (nedit_list e ks k) as [ks' k2']. cbn [fst snd] in *. subst k2'.
    split; [|reflexivity]. rewrite reload_vol. change (if sv_vol_kids then kids' else []) with kids'.
    rewrite Eb. cbn [bind]. rewrite H1. reflexivity.
Qed.

Theorem reload_jedit_list : forall l, jedit_list_at l.
Proof. intros l. apply jedit_list_of_Forall. apply Forall_forall. intros x _. apply reload_jedit. Qed.

End ReloadEdit.

(* ---------- (2) the replacement preserves what the assembler reads ---------- *)
Section EditRel.
Variable e : fedit.
Hypothesis e_ok : edit_ok e.

Lemma edit_sec_rel h1 h2 : sec_rel h1 h2 -> sec_rel (edit_sec e h1) (edit_sec e h2).
Proof.
  intros (Ht & Hg & Hn & Hb & Hv & Hd). destruct e, h1, h2; cbn in *; repeat split; auto.
Qed.
Lemma edit_sec_type h : s_type (edit_sec e h) = s_type h.
Proof. destruct e, h; reflexivity. Qed.
Lemma edit_sec_gd h : s_gd (edit_sec e h) = s_gd h.
Proof. destruct e, h; reflexivity. Qed.
Lemma edit_file_rel h1 h2 : file_rel h1 h2 -> file_rel (edit_file e h1) (edit_file e h2).
Proof.
  intros (Hg & Hl & Ht & Ha & Hs & Hn). destruct e, h1, h2; cbn in *; repeat split; auto.
Qed.
Lemma edit_file_nvar h : f_nvar (edit_file e h) = f_nvar h.
Proof. destruct e, h; reflexivity. Qed.

Lemma step_fst_cases {H} a (ed : H -> H) h k : fst (step a ed h k) = h \/ fst (step a ed h k) = ed h.
Proof. destruct k as [[|m]|], a; cbn; auto. Qed.
Lemma step_snd_indep {H1 H2} a (ed1 : H1 -> H1) (ed2 : H2 -> H2) h1 h2 k :
  snd (step a ed1 h1 k) = snd (step a ed2 h2 k).
Proof. destruct k as [[|m]|], a; reflexivity. Qed.
Lemma step_fst_same {H1 H2} a (ed1 : H1 -> H1) (ed2 : H2 -> H2) h1 h2 k :
  (fst (step a ed1 h1 k) = h1 /\ fst (step a ed2 h2 k) = h2) \/
  (fst (step a ed1 h1 k) = ed1 h1 /\ fst (step a ed2 h2 k) = ed2 h2).
Proof. destruct k as [[|m]|], a; cbn; auto. Qed.

Lemma Forall2_rel_length k1 k2 : Forall2 rel k1 k2 -> length k1 = length k2.
Proof. induction 1; cbn; congruence. Qed.

Definition nedit_at (a : node) : Prop := forall b, rel a b -> forall k,
  rel (fst (nedit e a k)) (fst (nedit e b k)) /\ snd (nedit e a k) = snd (nedit e b k).

Lemma nedit_list_rel k1 : Forall nedit_at k1 -> forall k2, Forall2 rel k1 k2 -> forall k,
  Forall2 rel (fst (nedit_list e k1 k)) (fst (nedit_list e k2 k)) /\
  snd (nedit_list e k1 k) = snd (nedit_list e k2 k).
Proof.
  induction 1 as [|x r Hx Hr IH]; intros k2 R k; inversion R as [|x0 y r0 s Rxy Rrs]; subst.
  - split; [constructor|reflexivity].
  - rewrite !nedit_list_cons. destruct (Hx y Rxy k) as [H1 H2].
    destruct (nedit e x k) as [x' ka]. destruct (nedit e y k) as [y' kb]. cbn [fst snd] in H1, H2. subst kb.
    destruct (IH s Rrs ka) as [H3 H4].
    destruct (nedit_list e r ka) as [r' kc]. destruct (nedit_list e s ka) as [s' kd]. cbn [fst snd] in *. subst kd.
    split; [constructor; assumption|reflexivity].
Qed.

Theorem nedit_rel : forall a, nedit_at a.
Proof.
  induction a as [o b|h1 b1 k1 IH|h1 b1 k1 IH|h1 b1 k1 IH] using node_ind2; intros n R k; inversion R; subst.
  - cbn [nedit fst snd]. split; [constructor|reflexivity].
  - (* section *)
    match goal with Hs : sec_rel h1 ?h2, Hk : Forall2 rel k1 ?k2, Hb : _ -> b1 = ?b2 |- _ =>
      rename h2 into hh; rename k2 into kk; rename b2 into bb; rename Hs into HS; rename Hk into HK; rename Hb into HB end.
    rewrite !nedit_sec. assert (Ht : s_type h1 = s_type hh) by (destruct HS; assumption). rewrite <- Ht.
    pose proof (step_snd_indep (sec_cand e (s_type h1)) (edit_sec e) (edit_sec e) h1 hh k) as Ek.
    pose proof (step_fst_same (sec_cand e (s_type h1)) (edit_sec e) (edit_sec e) h1 hh k) as Ef.
    destruct (step (sec_cand e (s_type h1)) (edit_sec e) h1 k) as [ha ka].
    destruct (step (sec_cand e (s_type h1)) (edit_sec e) hh k) as [hb kb]. cbn [fst snd] in Ek, Ef. subst kb.
    destruct (nedit_list_rel k1 IH kk HK ka) as [H3 H4].
    pose proof (nedit_list_nil e k1 ka) as N1.
    destruct (nedit_list e k1 ka) as [k1' kc]. destruct (nedit_list e kk ka) as [kk' kd]. cbn [fst snd] in *. subst kd.
    split; [|reflexivity]. constructor; [| assumption |].
    + destruct Ef as [[-> ->]|[-> ->]]; [assumption|apply edit_sec_rel; assumption].
    + intros Hr. apply HB. unfold sec_reads_buf in *.
      assert (Ety : s_type ha = s_type h1) by (destruct Ef as [[-> _]|[-> _]]; [reflexivity|apply edit_sec_type]).
      assert (Egd : s_gd ha = s_gd h1) by (destruct Ef as [[-> _]|[-> _]]; [reflexivity|apply edit_sec_gd]).
      rewrite Ety, Egd in Hr. destruct Hr as [Hn|Hr]; [left; apply N1; assumption|right; assumption].
  - (* file *)
    match goal with Hs : file_rel h1 ?h2, Hk : Forall2 rel k1 ?k2, Hb : _ -> _ -> b1 = ?b2 |- _ =>
      rename h2 into hh; rename k2 into kk; rename b2 into bb; rename Hs into HS; rename Hk into HK; rename Hb into HB end.
    rewrite !nedit_file. rewrite <- (file_cand_length e k1 kk (Forall2_rel_length _ _ HK)).
    pose proof (step_snd_indep (file_cand e k1) (edit_file e) (edit_file e) h1 hh k) as Ek.
    pose proof (step_fst_same (file_cand e k1) (edit_file e) (edit_file e) h1 hh k) as Ef.
    destruct (step (file_cand e k1) (edit_file e) h1 k) as [ha ka].
    destruct (step (file_cand e k1) (edit_file e) hh k) as [hb kb]. cbn [fst snd] in Ek, Ef. subst kb.
    destruct (nedit_list_rel k1 IH kk HK ka) as [H3 H4].
    pose proof (nedit_list_nil e k1 ka) as N1.
    destruct (nedit_list e k1 ka) as [k1' kc]. destruct (nedit_list e kk ka) as [kk' kd]. cbn [fst snd] in *. subst kd.
    split; [|reflexivity]. constructor; [| assumption |].
    + destruct Ef as [[-> ->]|[-> ->]]; [assumption|apply edit_file_rel; assumption].
    + intros Hn Hv. apply HB; [apply N1; assumption|].
      destruct Ef as [[<- _]|[-> _]]; [assumption|rewrite edit_file_nvar in Hv; assumption].
  - (* volume *)
    match goal with Hs : vol_rel h1 ?h2, Hk : Forall2 rel k1 ?k2 |- _ =>
      rename h2 into hh; rename k2 into kk; rename Hs into HS; rename Hk into HK end.
    rewrite !nedit_vol.
    destruct (nedit_list_rel k1 IH kk HK k) as [H3 H4].
    pose proof (nedit_list_nil e k1 k) as N1.
    destruct (nedit_list e k1 k) as [k1' kc]. destruct (nedit_list e kk k) as [kk' kd]. cbn [fst snd] in *. subst kd.
    split; [|reflexivity]. constructor; try assumption.
    + intros Hn. match goal with Hx : k1 = [] -> b1 = _ |- _ => apply Hx end. apply N1; assumption.
    + intros Hn. match goal with Hx : k1 <> [] -> vol_buf_rel h1 b1 _ |- _ => apply Hx end.
      intros Hk. apply Hn. apply N1. assumption.
Qed.

Theorem nedit_list_rel' k1 k2 k : Forall2 rel k1 k2 ->
  Forall2 rel (fst (nedit_list e k1 k)) (fst (nedit_list e k2 k)).
Proof.
  intros R. apply nedit_list_rel; [|assumption]. apply Forall_forall. intros x _. apply nedit_rel.
Qed.

End EditRel.

(* ---------- (3) the edited directory route on every image ---------- *)
Section EditImage.
Variable dec : Z -> bytes -> option bytes.
Variable enc : Z -> bytes -> option bytes.
Variable u2s : bytes -> bytes.
Variable s2u : bytes -> bytes.
Variable nvar : bytes -> option bytes.
Variable mangle3 : Z -> Z.
Hypothesis dec_ok : forall k p e, dec k p = Some e -> bytes_ok e = true.

Theorem dir_edit_save_eq d img e k : bytes_ok img = true -> edit_ok e ->
  dir_edit_save dec enc u2s s2u nvar mangle3 d img e k = tree_edit_save dec enc u2s s2u nvar d img e k.
Proof.
  intros Hb He. unfold dir_edit_save, tree_edit_save.
  destruct (parse_region dec u2s nvar d img) as [[elems pol]| | |] eqn:P; cbn [bind]; try reflexivity.
  destruct (parse_region_inv dec u2s nvar dec_ok d img elems pol Hb P) as [W PO].
  unfold load_and_save. destruct elems as [|x l].
  - cbn. reflexivity.
  - unfold extract_region.
    destruct (extract_list_ok (x :: l) W [C_bios] 0) as [[[js f] i'] E]. rewrite E. cbn [bind].
    assert (ND : NoDup (map fst f)).
    { destruct PO as [K PP]. destruct (extract_list_shape (x :: l) _ _ _ _ _ E) as (_ & _ & N). apply N; assumption. }
    change (if sv_reg_length then zlen img else 0) with (zlen img).
    match goal with |- context [if sv_reg_elems then ?a else []] => change (if sv_reg_elems then a else []) with a end.
    assert (R : reload_list mangle3 f js = Ok (map (json_project mangle3) (x :: l))).
    { apply (reload_extract_list mangle3 (x :: l) _ _ _ _ _ f E). intros p b Hin. apply fs_read_in; auto. }
    destruct (reload_jedit_list mangle3 e js f _ R (Some k)) as [H1 _]. rewrite H1. cbn [bind].
    apply save_twice_congr. apply nedit_list_rel'; [assumption|]. apply project_list_rel. exact W.
Qed.

End EditImage.

(* ---------- (4) an edited child in its container ---------- *)
Section Context.
Variable enc : Z -> bytes -> option bytes.
Variable s2u : bytes -> bytes.
Notation asm := (asm enc s2u).
Notation asm_elems := (asm_elems enc s2u).

Lemma asm_NVol' h buf kids st :
  asm (NVol h buf kids) st =
  match set_polarity (fst st) (fv_polarity (v_attrs h)) with
  | None => Err E_POLARITY
  | Some pol0 =>
    do ks <- asm_elems kids (pol0, false); let '(kids', st1) := ks in
    do r <- vol_asm h buf kids' st1; let '(n', st2) := r in Ok (n', (fst st2, snd st))
  end.
Proof. reflexivity. Qed.
Lemma asm_NSec' h buf kids st :
  asm (NSec h buf kids) st =
  do ks <- asm_elems kids st; let '(kids', st1) := ks in sec_asm enc s2u h buf kids' st1.
Proof. reflexivity. Qed.

(* the children of a container are assembled from left to right: the ones before and after an edited
   child come out the same *)
Lemma asm_elems_edit pre x x' post st pre' s1 y y' s2 post' s3 :
  asm_elems pre st = Ok (pre', s1) -> asm x s1 = Ok (y, s2) -> asm x' s1 = Ok (y', s2) ->
  asm_elems post s2 = Ok (post', s3) ->
  asm_elems (pre ++ x :: post) st = Ok (pre' ++ y :: post', s3) /\
  asm_elems (pre ++ x' :: post) st = Ok (pre' ++ y' :: post', s3).
Proof.
  intros Epre Ex Ey Epost.
  split; rewrite asm_elems_app, Epre; cbn [bind]; rewrite asm_elems_cons.
  - rewrite Ex. cbn [bind]. rewrite Epost. reflexivity.
  - rewrite Ey. cbn [bind]. rewrite Epost. reflexivity.
Qed.

(* a file of a volume is edited (at any depth below it): the other files are assembled to the same
   nodes; the volume is laid out again by its own rule [vol_asm] around the new file *)
Theorem edit_in_volume h buf pre f f' post st pol0 pre' s1 y y' s2 post' s3 :
  set_polarity (fst st) (fv_polarity (v_attrs h)) = Some pol0 ->
  asm_elems pre (pol0, false) = Ok (pre', s1) -> asm f s1 = Ok (y, s2) -> asm f' s1 = Ok (y', s2) ->
  asm_elems post s2 = Ok (post', s3) ->
  asm (NVol h buf (pre ++ f :: post)) st =
    (do r <- vol_asm h buf (pre' ++ y :: post') s3; let '(n', st2) := r in Ok (n', (fst st2, snd st))) /\
  asm (NVol h buf (pre ++ f' :: post)) st =
    (do r <- vol_asm h buf (pre' ++ y' :: post') s3; let '(n', st2) := r in Ok (n', (fst st2, snd st))).
Proof.
  intros Hp Epre Ex Ey Epost.
  destruct (asm_elems_edit pre f f' post (pol0, false) pre' s1 y y' s2 post' s3 Epre Ex Ey Epost) as [A B].
  split; rewrite asm_NVol', Hp; [rewrite A|rewrite B]; reflexivity.
Qed.

(* a child of an encapsulating section (compressed section, FV-image section) is edited *)
Theorem edit_in_section h buf pre c c' post st pre' s1 y y' s2 post' s3 :
  asm_elems pre st = Ok (pre', s1) -> asm c s1 = Ok (y, s2) -> asm c' s1 = Ok (y', s2) ->
  asm_elems post s2 = Ok (post', s3) ->
  asm (NSec h buf (pre ++ c :: post)) st = sec_asm enc s2u h buf (pre' ++ y :: post') s3 /\
  asm (NSec h buf (pre ++ c' :: post)) st = sec_asm enc s2u h buf (pre' ++ y' :: post') s3.
Proof.
  intros Epre Ex Ey Epost.
  destruct (asm_elems_edit pre c c' post st pre' s1 y y' s2 post' s3 Epre Ex Ey Epost) as [A B].
  split; rewrite asm_NSec'; [rewrite A|rewrite B]; reflexivity.
Qed.

(* a volume of the BIOS region is edited (at any depth below it): the other volumes and the paddings
   are assembled to the same nodes *)
Theorem edit_in_region pre v v' post len st pre' s1 y y' s2 post' s3 :
  asm_elems pre st = Ok (pre', s1) -> asm v s1 = Ok (y, s2) -> asm v' s1 = Ok (y', s2) ->
  asm_elems post s2 = Ok (post', s3) ->
  exists finish, (* first volume's polarity, then the elements copied over an erased buffer *)
    asm_bios enc s2u (pre ++ v :: post) len st = finish (pre' ++ y :: post') /\
    asm_bios enc s2u (pre ++ v' :: post) len st = finish (pre' ++ y' :: post').
Proof.
  intros Epre Ex Ey Epost.
  destruct (asm_elems_edit pre v v' post st pre' s1 y y' s2 post' s3 Epre Ex Ey Epost) as [A B].
  exists (fun elems' =>
    match first_fv elems' with
    | None => Err E_NOFV
    | Some vh =>
      match set_polarity (fst s3) (fv_polarity (v_attrs vh)) with
      | None => Err E_POLARITY
      | Some pol => do b <- copy_elems (zrepeat pol len) 0 elems'; Ok (elems', b, (pol, snd s3))
      end
    end).
  unfold asm_bios. rewrite A, B. split; reflexivity.
Qed.

End Context.
