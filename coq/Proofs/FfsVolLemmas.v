(* Proofs/FfsVolLemmas.v — byte-level lemmas about the reference volume layout of Model/FfsSpec.v
   (header fields, block map, erased padding, the file layout of place_files): private copies, for
   property C06, of pure lemmas first written for C01 in Proofs/FfsSaveProofs.v, so that the C06
   development depends on Model/FfsSpec.v only. *)
From Fiano Require Import Base.Bytes Base.BytesLemmas Model.Ffs Model.FfsSpec.
From Coq Require Import ZifyBool ZifyNat.
Open Scope Z_scope.

Lemma rd_cons_skip (x : Z) l off w : 1 <= off -> rd off w (x :: l) = rd (off - 1) w l.
Proof. intros H. change (x :: l) with ([x] ++ l). apply rd_app_skip; [reflexivity|lia]. Qed.

Lemma rd_cons_here (x : Z) l : rd 0 1 (x :: l) = x.
Proof.
  change (x :: l) with ([x] ++ l). rewrite rd_app_here by reflexivity. cbn [le_dec]. lia.
Qed.

Lemma zlen_zrepeat x n : 0 <= n -> zlen (zrepeat x n) = n.
Proof.
  intros H. unfold zrepeat, zlen.
  assert (L : forall k, length (repeatz x k) = k) by (induction k; simpl; auto).
  rewrite L. lia.
Qed.

Lemma repeatz_app x a b : repeatz x a ++ repeatz x b = repeatz x (a + b).
Proof. induction a as [|a IH]; cbn [repeatz app Nat.add]; [reflexivity|]. rewrite IH. reflexivity. Qed.

Lemma zrepeat_app x a b : 0 <= a -> 0 <= b -> zrepeat x a ++ zrepeat x b = zrepeat x (a + b).
Proof. intros. unfold zrepeat. rewrite repeatz_app. f_equal. lia. Qed.

Lemma firstn_repeatz x k n : (k <= n)%nat -> firstn k (repeatz x n) = repeatz x k.
Proof.
  revert n; induction k as [|k IH]; intros n H; [reflexivity|].
  destruct n as [|n]; [lia|]. cbn [repeatz firstn]. rewrite IH by lia. reflexivity.
Qed.

Lemma skipn_repeatz x k n : skipn k (repeatz x n) = repeatz x (n - k).
Proof.
  revert n; induction k as [|k IH]; intros n; [rewrite Nat.sub_0_r; reflexivity|].
  destruct n as [|n]; [reflexivity|]. cbn [repeatz skipn]. apply IH.
Qed.

Lemma sub_zrepeat x off len n : 0 <= off -> 0 <= len -> off + len <= n ->
  sub off len (zrepeat x n) = zrepeat x len.
Proof.
  intros. unfold sub, zfirstn, zskipn, zrepeat. rewrite skipn_repeatz. apply firstn_repeatz. lia.
Qed.

Lemma forallb_repeatz (f : Z -> bool) x n : f x = true -> forallb f (repeatz x n) = true.
Proof. intros H. induction n; cbn [repeatz forallb]; [reflexivity|]. rewrite H, IHn. reflexivity. Qed.

Lemma bytes_ok_zrepeat x n : 0 <= x < 256 -> bytes_ok (zrepeat x n) = true.
Proof. intros. apply forallb_repeatz. unfold byte_ok. lia. Qed.

Lemma rd_zrepeat x off w n : 0 <= off -> off + Z.of_nat w <= n ->
  rd off w (zrepeat x n) = le_dec (zrepeat x (Z.of_nat w)).
Proof. intros. unfold rd. rewrite sub_zrepeat by lia. reflexivity. Qed.

(* erased free space of at least a header's length parses as "no more files" *)


(* ---------- volumes: the file loop ---------- *)

Section VolLemmas.
Variable dec : Z -> bytes -> option bytes.
Variable u2s : bytes -> bytes.
Variable nvar : bytes -> option bytes.
Notation parse_file := (parse_file dec u2s nvar).

Lemma parse_file_S d pol buf :
  parse_file (S d) pol buf = file_body nvar (parse_section dec u2s nvar d) pol buf.
Proof. reflexivity. Qed.

Lemma parse_free d n : 24 <= n -> parse_file (S d) 255 (zrepeat 255 n) = Ok (None, 255).
Proof.
  intros Hn. rewrite parse_file_S. unfold file_body.
  rewrite zlen_zrepeat by lia. replace (n <? 24) with false by lia.
  rewrite !(rd_zrepeat 255 20 3) by (change (Z.of_nat 3) with 3; lia).
  change (le_dec (zrepeat 255 (Z.of_nat 3))) with 16777215.
  change (16777215 =? 16777215) with true. cbv iota.
  destruct (n <? 32) eqn:E.
  - unfold zrepeat at 1. rewrite (forallb_repeatz (fun x => x =? 255)) by reflexivity. cbn [bind andb].
    change (U64 - 1 =? U64 - 1) with true. reflexivity.
  - rewrite !(rd_zrepeat 255 24 8) by (change (Z.of_nat 8) with 8; lia).
    change (le_dec (zrepeat 255 (Z.of_nat 8))) with (U64 - 1). cbn [bind andb].
    change (U64 - 1 =? U64 - 1) with true. reflexivity.
Qed.

End VolLemmas.

Lemma align8_spec v : 0 <= v -> v <= align8 v < v + 8 /\ (align8 v) mod 8 = 0.
Proof.
  intros Hv. unfold align8, align.
  pose proof (Z.div_mod (v + 8 - 1) 8 ltac:(lia)) as D.
  pose proof (Z.mod_pos_bound (v + 8 - 1) 8 ltac:(lia)) as B.
  split; [lia|]. apply Z.mod_mul. lia.
Qed.

Lemma align8_unique u a : 0 <= u -> u <= a < u + 8 -> a mod 8 = 0 -> align8 u = a.
Proof.
  intros Hu Ha Hm. destruct (align8_spec u Hu) as [B M].
  pose proof (Z.div_mod a 8 ltac:(lia)) as Da. rewrite Hm in Da.
  pose proof (Z.div_mod (align8 u) 8 ltac:(lia)) as Db. rewrite M in Db. lia.
Qed.

Lemma align8_add a v : 0 <= a -> 0 <= v -> a mod 8 = 0 -> align8 (a + v) = a + align8 v.
Proof.
  intros Ha Hv Hm. unfold align8, align.
  pose proof (Z.div_mod a 8 ltac:(lia)) as D. rewrite Hm in D.
  replace (a + v + 8 - 1) with ((v + 8 - 1) + (a / 8) * 8) by lia.
  rewrite Z.div_add by lia. lia.
Qed.

Definition node_attr (n : node) : Z := match n with NFile h _ _ => f_attr h | _ => 0 end.

Lemma zlen_flay_cons f r :
  zlen (flay (f :: r)) = align8 (zlen f) + zlen (flay r).
Proof.
  cbn [flay]. pose proof (zlen_nonneg f) as Hf. destruct (align8_spec (zlen f) Hf) as [B _].
  rewrite !zlen_app, zlen_zrepeat by lia. lia.
Qed.


Lemma align_fix x b : 0 < b -> 0 <= x -> x mod b = 0 -> align x b = x.
Proof.
  intros Hb Hx Hm. unfold align.
  pose proof (Z.div_mod x b ltac:(lia)) as D. rewrite Hm in D.
  replace (x + b - 1) with ((b - 1) + (x / b) * b) by lia.
  rewrite Z.div_add by lia. rewrite (Z.div_small (b - 1) b) by lia. lia.
Qed.

Lemma attr_align_pos a : 0 < attr_align a.
Proof.
  unfold attr_align.
  set (v := Z.lor _ _). generalize (Z.to_nat v). intros k.
  assert (F : Forall (fun x => 0 < x) file_alignments) by (repeat constructor).
  revert k. generalize file_alignments F. clear. intros l F.
  induction F as [|x l Hx Hl IH]; intros [|k]; cbn [nth]; try lia; auto.
Qed.

(* what place_files appends: before each file, erased bytes up to the next 8-byte boundary *)
Fixpoint play (u : Z) (files : list bytes) : bytes :=
  match files with
  | [] => []
  | f :: r => zrepeat 255 (align8 u - u) ++ f ++ play (align8 u + zlen f) r
  end.

Lemma place_files_play kids : forall limit acc,
  Forall (fun k => 0 < zlen (node_buf k)) kids ->
  files_aligned (align8 (zlen acc)) (map node_buf kids) = true ->
  map node_attr kids = map (rd 19 1) (map node_buf kids) ->
  (match limit with Some l => zlen acc + zlen (play (zlen acc) (map node_buf kids)) <= l | None => True end) ->
  place_files 255 limit acc (zlen acc) kids = Ok (acc ++ play (zlen acc) (map node_buf kids)).
Proof.
  induction kids as [|k r IH]; intros limit acc Hpos Hal Hattr Hlim.
  - cbn [place_files map play]. rewrite app_nil_r. reflexivity.
  - cbn [map] in *. inversion Hpos as [|? ? Hk Hr]; subst.
    cbn [files_aligned] in Hal. apply andb_true_iff in Hal as [Ha1 Ha2].
    injection Hattr as Eattr Hattr'.
    pose proof (zlen_nonneg acc) as Hacc. destruct (align8_spec (zlen acc) Hacc) as [B8 M8].
    set (u := zlen acc) in *. set (a := align8 u) in *. set (fb := node_buf k) in *.
    cbn [place_files play]. fold fb.
    replace (match k with NFile h _ _ => f_attr h | _ => 0 end) with (node_attr k) by reflexivity.
    rewrite Eattr. fold u a.
    replace (zlen fb =? 0) with false by lia.
    (* alignment holds at the natural position: no pad file is inserted *)
    match goal with |- context [if attr_align (rd 19 1 fb) =? 1 then a else ?e] =>
      replace (if attr_align (rd 19 1 fb) =? 1 then a else e) with a end.
    2:{ unfold file_aligned in Ha1. destruct (attr_align (rd 19 1 fb) =? 1) eqn:E1; [reflexivity|].
      cbn [orb] in Ha1. apply Z.eqb_eq in Ha1.
      assert (0 <= file_hlen (rd 19 1 fb)) by (unfold file_hlen; destruct (attr_large _); lia).
      rewrite align_fix by (auto using attr_align_pos; lia).
      replace (a + file_hlen (rd 19 1 fb) - file_hlen (rd 19 1 fb) - a) with 0 by lia.
      change ((8 <=? 0) && (0 <? 24)) with false. cbv iota. lia. }
    cbn [play] in Hlim. fold u a fb in Hlim.
    assert (Lp : zlen (zrepeat 255 (a - u)) = a - u) by (apply zlen_zrepeat; lia).
    pose proof (zlen_nonneg (play (a + zlen fb) (map node_buf r))) as Hpl.
    replace (match limit with Some l => l <? a + zlen fb | None => false end) with false.
    2:{ destruct limit as [l|]; [|reflexivity]. rewrite !zlen_app, Lp in Hlim. lia. }
    replace (a =? a) with true by lia. cbn [bind].
    unfold insert_file. fold u. replace (a <? u) with false by lia.
    replace (zlen fb =? 0) with false by lia. cbn [bind].
    set (acc' := acc ++ zrepeat 255 (a - u) ++ fb).
    assert (La : zlen acc' = a + zlen fb) by (unfold acc'; rewrite !zlen_app, Lp; fold u; lia).
    rewrite <- La. rewrite IH; auto.
    + rewrite La. unfold acc'. rewrite <- !app_assoc. reflexivity.
    + rewrite La. replace (align8 (a + zlen fb)) with (a + align8 (zlen fb)); [exact Ha2|].
      symmetry. apply align8_add; lia.
    + destruct limit as [l|]; [|exact I]. rewrite La. rewrite !zlen_app, Lp in Hlim. lia.
Qed.

Lemma play_flay files : forall acc free, 0 <= free ->
  acc ++ zrepeat 255 (align8 (zlen acc) - zlen acc) ++ flay files ++ zrepeat 255 free =
  (acc ++ play (zlen acc) files) ++
  zrepeat 255 (align8 (zlen acc) + zlen (flay files) + free - zlen (acc ++ play (zlen acc) files)).
Proof.
  induction files as [|f r IH]; intros acc free Hfree.
  - cbn [flay play app]. rewrite app_nil_r. change (zlen (@nil Z)) with 0.
    pose proof (zlen_nonneg acc) as Ha. destruct (align8_spec (zlen acc) Ha) as [B _].
    rewrite zrepeat_app by lia. f_equal. f_equal. lia.
  - pose proof (zlen_nonneg acc) as Ha. destruct (align8_spec (zlen acc) Ha) as [B M].
    pose proof (zlen_nonneg f) as Hf. destruct (align8_spec (zlen f) Hf) as [Bf Mf].
    set (u := zlen acc) in *. set (a := align8 u) in *.
    cbn [flay play]. fold u a.
    set (acc' := acc ++ zrepeat 255 (a - u) ++ f).
    assert (La : zlen acc' = a + zlen f).
    { unfold acc'. rewrite !zlen_app, zlen_zrepeat by lia. fold u. lia. }
    assert (Ea : align8 (zlen acc') = a + align8 (zlen f)) by (rewrite La; apply align8_add; lia).
    specialize (IH acc' free Hfree). rewrite Ea, La in IH.
    replace (a + align8 (zlen f) - (a + zlen f)) with (align8 (zlen f) - zlen f) in IH by lia.
    replace (acc ++ zrepeat 255 (a - u) ++ (f ++ zrepeat 255 (align8 (zlen f) - zlen f) ++ flay r) ++ zrepeat 255 free)
      with (acc' ++ zrepeat 255 (align8 (zlen f) - zlen f) ++ flay r ++ zrepeat 255 free)
      by (unfold acc'; rewrite <- !app_assoc; reflexivity).
    rewrite IH.
    replace (acc ++ zrepeat 255 (a - u) ++ f ++ play (a + zlen f) r) with (acc' ++ play (a + zlen f) r)
      by (unfold acc'; rewrite <- !app_assoc; reflexivity).
    f_equal. f_equal. rewrite !zlen_app. rewrite (zlen_zrepeat 255 (align8 (zlen f) - zlen f)) by lia. lia.
Qed.

(* ---------- volumes: the header ---------- *)

Lemma le1' v : zlen (le_enc 1 v) = 1. Proof. exact (zlen_le_enc 1 v). Qed.
Lemma le2' v : zlen (le_enc 2 v) = 2. Proof. exact (zlen_le_enc 2 v). Qed.
Lemma le4' v : zlen (le_enc 4 v) = 4. Proof. exact (zlen_le_enc 4 v). Qed.
Lemma le8' v : zlen (le_enc 8 v) = 8. Proof. exact (zlen_le_enc 8 v). Qed.

Lemma zlen_blocks_bytes more : zlen (blocks_bytes more) = 8 * Z.of_nat (length more).
Proof.
  induction more as [|[c s] r IH]; [reflexivity|].
  cbn [blocks_bytes length]. rewrite !zlen_app, !le4', IH. lia.
Qed.

Lemma bytes_ok_blocks_bytes more : bytes_ok (blocks_bytes more) = true.
Proof.
  induction more as [|[c s] r IH]; [reflexivity|].
  cbn [blocks_bytes]. rewrite !bytes_ok_app, !le_enc_ok, IH. reflexivity.
Qed.

Lemma fv_hlen_ge more : 72 <= fv_hlen more.
Proof. unfold fv_hlen. lia. Qed.

Lemma fv_hlen_mod8 more : fv_hlen more mod 8 = 0.
Proof.
  unfold fv_hlen. replace (72 + 8 * Z.of_nat (length more)) with ((9 + Z.of_nat (length more)) * 8) by lia.
  apply Z.mod_mul. lia.
Qed.

Lemma fv_hlen_even more : Z.even (fv_hlen more) = true.
Proof.
  unfold fv_hlen. replace (72 + 8 * Z.of_nat (length more)) with (2 * (36 + 4 * Z.of_nat (length more))) by lia.
  apply Z.even_mul.
Qed.

Lemma zlen_fv_header zero g len attrs ck eo reserved rev count bsize more :
  zlen zero = 16 -> zlen g = 16 ->
  zlen (fv_header zero g len attrs ck eo reserved rev count bsize more) = fv_hlen more.
Proof.
  intros Lz Lg. unfold fv_header, fv_hlen.
  rewrite !zlen_app, Lz, Lg, !le8', !le4', !le2', zlen_blocks_bytes, zlen_zrepeat by lia.
  change (zlen [95; 70; 86; 72]) with 4. change (zlen [reserved; rev]) with 2. lia.
Qed.

Lemma fv_header_fields zero g len attrs ck eo reserved rev count bsize more tail :
  zlen zero = 16 -> zlen g = 16 -> 0 <= len < 2 ^ 64 -> 0 <= attrs < 2 ^ 32 -> 0 <= ck < 65536 ->
  0 <= eo < 65536 -> fv_hlen more < 65536 ->
  let b := fv_header zero g len attrs ck eo reserved rev count bsize more ++ tail in
  sub 0 16 b = zero /\ sub 16 16 b = g /\ rd 32 8 b = len /\ rd 40 4 b = 1213613663 /\
  rd 44 4 b = attrs /\ rd 48 2 b = fv_hlen more /\ rd 50 2 b = ck /\ rd 52 2 b = eo /\
  rd 54 1 b = reserved /\ rd 55 1 b = rev /\
  zskipn 56 b = le_enc 4 count ++ le_enc 4 bsize ++ blocks_bytes more ++ zrepeat 0 8 ++ tail.
Proof.
  intros Lz Lg Hlen Hat Hck Heo Hhl b. pose proof (fv_hlen_ge more) as Hhg.
  unfold b, fv_header. rewrite <- !app_assoc.
  repeat split.
  - apply sub_app_here; auto.
  - rewrite (sub_app_skip _ _ 16 16 16) by (auto; lia). change (16 - 16) with 0. apply sub_app_here; auto.
  - rewrite (rd_app_skip _ _ 32 8 16) by (auto; lia). change (32 - 16) with 16.
    rewrite (rd_app_skip _ _ 16 8 16) by (auto; lia). change (16 - 16) with 0.
    rewrite rd_app_here by apply le8'. apply le_dec_enc. change (256 ^ Z.of_nat 8) with (2 ^ 64). lia.
  - rewrite (rd_app_skip _ _ 40 4 16) by (auto; lia). change (40 - 16) with 24.
    rewrite (rd_app_skip _ _ 24 4 16) by (auto; lia). change (24 - 16) with 8.
    rewrite (rd_app_skip _ _ 8 4 8) by (try apply le8'; lia). change (8 - 8) with 0.
    rewrite (rd_app_here [95; 70; 86; 72]) by reflexivity. reflexivity.
  - rewrite (rd_app_skip _ _ 44 4 16) by (auto; lia). change (44 - 16) with 28.
    rewrite (rd_app_skip _ _ 28 4 16) by (auto; lia). change (28 - 16) with 12.
    rewrite (rd_app_skip _ _ 12 4 8) by (try apply le8'; lia). change (12 - 8) with 4.
    rewrite (rd_app_skip [95; 70; 86; 72] _ 4 4 4) by (try reflexivity; lia). change (4 - 4) with 0.
    rewrite rd_app_here by apply le4'. apply le_dec_enc. change (256 ^ Z.of_nat 4) with (2 ^ 32). lia.
  - rewrite (rd_app_skip _ _ 48 2 16) by (auto; lia). change (48 - 16) with 32.
    rewrite (rd_app_skip _ _ 32 2 16) by (auto; lia). change (32 - 16) with 16.
    rewrite (rd_app_skip _ _ 16 2 8) by (try apply le8'; lia). change (16 - 8) with 8.
    rewrite (rd_app_skip [95; 70; 86; 72] _ 8 2 4) by (try reflexivity; lia). change (8 - 4) with 4.
    rewrite (rd_app_skip _ _ 4 2 4) by (try apply le4'; lia). change (4 - 4) with 0.
    rewrite rd_app_here by apply le2'. apply le_dec_enc. change (256 ^ Z.of_nat 2) with 65536. lia.
  - rewrite (rd_app_skip _ _ 50 2 16) by (auto; lia). change (50 - 16) with 34.
    rewrite (rd_app_skip _ _ 34 2 16) by (auto; lia). change (34 - 16) with 18.
    rewrite (rd_app_skip _ _ 18 2 8) by (try apply le8'; lia). change (18 - 8) with 10.
    rewrite (rd_app_skip [95; 70; 86; 72] _ 10 2 4) by (try reflexivity; lia). change (10 - 4) with 6.
    rewrite (rd_app_skip _ _ 6 2 4) by (try apply le4'; lia). change (6 - 4) with 2.
    rewrite (rd_app_skip _ _ 2 2 2) by (try apply le2'; lia). change (2 - 2) with 0.
    rewrite rd_app_here by apply le2'. apply le_dec_enc. change (256 ^ Z.of_nat 2) with 65536. lia.
  - rewrite (rd_app_skip _ _ 52 2 16) by (auto; lia). change (52 - 16) with 36.
    rewrite (rd_app_skip _ _ 36 2 16) by (auto; lia). change (36 - 16) with 20.
    rewrite (rd_app_skip _ _ 20 2 8) by (try apply le8'; lia). change (20 - 8) with 12.
    rewrite (rd_app_skip [95; 70; 86; 72] _ 12 2 4) by (try reflexivity; lia). change (12 - 4) with 8.
    rewrite (rd_app_skip _ _ 8 2 4) by (try apply le4'; lia). change (8 - 4) with 4.
    rewrite (rd_app_skip _ _ 4 2 2) by (try apply le2'; lia). change (4 - 2) with 2.
    rewrite (rd_app_skip _ _ 2 2 2) by (try apply le2'; lia). change (2 - 2) with 0.
    rewrite rd_app_here by apply le2'. apply le_dec_enc. change (256 ^ Z.of_nat 2) with 65536. lia.
  - rewrite (rd_app_skip _ _ 54 1 16) by (auto; lia). change (54 - 16) with 38.
    rewrite (rd_app_skip _ _ 38 1 16) by (auto; lia). change (38 - 16) with 22.
    rewrite (rd_app_skip _ _ 22 1 8) by (try apply le8'; lia). change (22 - 8) with 14.
    rewrite (rd_app_skip [95; 70; 86; 72] _ 14 1 4) by (try reflexivity; lia). change (14 - 4) with 10.
    rewrite (rd_app_skip _ _ 10 1 4) by (try apply le4'; lia). change (10 - 4) with 6.
    rewrite (rd_app_skip _ _ 6 1 2) by (try apply le2'; lia). change (6 - 2) with 4.
    rewrite (rd_app_skip _ _ 4 1 2) by (try apply le2'; lia). change (4 - 2) with 2.
    rewrite (rd_app_skip _ _ 2 1 2) by (try apply le2'; lia). change (2 - 2) with 0.
    cbn [app]. apply rd_cons_here.
  - rewrite (rd_app_skip _ _ 55 1 16) by (auto; lia). change (55 - 16) with 39.
    rewrite (rd_app_skip _ _ 39 1 16) by (auto; lia). change (39 - 16) with 23.
    rewrite (rd_app_skip _ _ 23 1 8) by (try apply le8'; lia). change (23 - 8) with 15.
    rewrite (rd_app_skip [95; 70; 86; 72] _ 15 1 4) by (try reflexivity; lia). change (15 - 4) with 11.
    rewrite (rd_app_skip _ _ 11 1 4) by (try apply le4'; lia). change (11 - 4) with 7.
    rewrite (rd_app_skip _ _ 7 1 2) by (try apply le2'; lia). change (7 - 2) with 5.
    rewrite (rd_app_skip _ _ 5 1 2) by (try apply le2'; lia). change (5 - 2) with 3.
    rewrite (rd_app_skip _ _ 3 1 2) by (try apply le2'; lia). change (3 - 2) with 1.
    cbn [app]. rewrite rd_cons_skip by lia. apply rd_cons_here.
  - set (fixed := zero ++ g ++ le_enc 8 len ++ [95; 70; 86; 72] ++ le_enc 4 attrs ++ le_enc 2 (fv_hlen more) ++
                  le_enc 2 ck ++ le_enc 2 eo ++ [reserved; rev]).
    assert (L : zlen fixed = 56).
    { unfold fixed. rewrite !zlen_app, Lz, Lg, le8', le4', !le2'. reflexivity. }
    replace (zero ++ g ++ le_enc 8 len ++ [95; 70; 86; 72] ++ le_enc 4 attrs ++ le_enc 2 (fv_hlen more) ++
             le_enc 2 ck ++ le_enc 2 eo ++ [reserved; rev] ++ le_enc 4 count ++ le_enc 4 bsize ++
             blocks_bytes more ++ zrepeat 0 8 ++ tail)
      with (fixed ++ le_enc 4 count ++ le_enc 4 bsize ++ blocks_bytes more ++ zrepeat 0 8 ++ tail)
      by (unfold fixed; rewrite <- !app_assoc; reflexivity).
    rewrite <- L. apply zskipn_app_exact.
Qed.

Definition block_ok (cs : Z * Z) : bool :=
  (0 <=? fst cs) && (fst cs <? 2 ^ 32) && (0 <=? snd cs) && (snd cs <? 2 ^ 32) &&
  negb ((fst cs =? 0) && (snd cs =? 0)).

Lemma parse_blocks_list more tail n : forallb block_ok more = true -> (length more + 1 <= n)%nat ->
  parse_blocks n (blocks_bytes more ++ zrepeat 0 8 ++ tail) = Ok more.
Proof.
  revert n. induction more as [|[c s] r IH]; intros n Hok Hn.
  - destruct n as [|n]; [cbn [length] in Hn; lia|].
    pose proof (zlen_nonneg tail).
    cbn [blocks_bytes app parse_blocks].
    change (zrepeat 0 8) with ([0; 0; 0; 0] ++ [0; 0; 0; 0]). rewrite <- app_assoc.
    rewrite !zlen_app. change (zlen [0; 0; 0; 0]) with 4.
    replace (4 + (4 + zlen tail) <? 8) with false by lia.
    rewrite (rd_app_here [0; 0; 0; 0]) by reflexivity.
    rewrite (rd_app_skip [0; 0; 0; 0] _ 4 4 4) by (try reflexivity; lia). change (4 - 4) with 0.
    rewrite (rd_app_here [0; 0; 0; 0]) by reflexivity.
    change (le_dec [0; 0; 0; 0]) with 0. reflexivity.
  - destruct n as [|n]; [cbn [length] in Hn; lia|].
    cbn [forallb] in Hok. apply andb_true_iff in Hok as [Hcs Hr].
    unfold block_ok in Hcs. cbn [fst snd] in Hcs.
    pose proof (zlen_nonneg tail). pose proof (zlen_nonneg (blocks_bytes r)).
    cbn [blocks_bytes parse_blocks]. rewrite <- !app_assoc.
    rewrite !zlen_app, !le4', zlen_zrepeat by lia.
    replace (4 + (4 + (zlen (blocks_bytes r) + (8 + zlen tail))) <? 8) with false by lia.
    rewrite rd_app_here by apply le4'.
    rewrite (rd_app_skip _ _ 4 4 4) by (try apply le4'; lia). change (4 - 4) with 0.
    rewrite rd_app_here by apply le4'.
    rewrite !le_dec_enc by (change (256 ^ Z.of_nat 4) with (2 ^ 32); lia).
    replace ((c =? 0) && (s =? 0)) with false by lia.
    replace (zskipn 8 (le_enc 4 c ++ le_enc 4 s ++ blocks_bytes r ++ zrepeat 0 8 ++ tail))
      with (blocks_bytes r ++ zrepeat 0 8 ++ tail).
    2:{ rewrite (app_assoc (le_enc 4 c)). symmetry.
        assert (L : zlen (le_enc 4 c ++ le_enc 4 s) = 8) by (rewrite zlen_app, !le4'; reflexivity).
        rewrite <- L. apply zskipn_app_exact. }
    rewrite IH by (auto; cbn [length] in Hn; lia). reflexivity.
Qed.

Lemma parse_blocks_one count bsize more tail n : 0 <= count < 2 ^ 32 -> 0 <= bsize < 2 ^ 32 ->
  (count =? 0) && (bsize =? 0) = false -> forallb block_ok more = true -> (length more + 2 <= n)%nat ->
  parse_blocks n (le_enc 4 count ++ le_enc 4 bsize ++ blocks_bytes more ++ zrepeat 0 8 ++ tail) =
    Ok ((count, bsize) :: more).
Proof.
  intros Hc Hs Hnz Hm Hn.
  apply (parse_blocks_list ((count, bsize) :: more) tail n); [|cbn [length]; lia].
  cbn [forallb]. rewrite Hm. unfold block_ok. cbn [fst snd]. rewrite Hnz. lia.
Qed.

(* ---------- volumes: header fix-ups are the identity on a well-formed header ---------- *)

Lemma splice_mid A d d' C : zlen d = zlen d' -> splice (zlen A) d (A ++ d' ++ C) = A ++ d ++ C.
Proof.
  intros L. unfold splice. rewrite zfirstn_app_exact. f_equal. f_equal.
  rewrite L. rewrite app_assoc. rewrite <- zlen_app. apply zskipn_app_exact.
Qed.

Lemma zlen_flay_ge files : Forall (fun f => 24 <= zlen f) files ->
  24 * Z.of_nat (length files) <= zlen (flay files).
Proof.
  induction 1 as [|f r Hf Hr IH]; [cbn; unfold zlen; cbn; lia|].
  rewrite zlen_flay_cons. cbn [length]. pose proof (zlen_nonneg f) as Hn.
  destruct (align8_spec (zlen f) Hn) as [B _]. lia.
Qed.

Lemma bytes_ok_flay files : Forall (fun f => bytes_ok f = true) files -> bytes_ok (flay files) = true.
Proof.
  induction 1 as [|f r Hf Hr IH]; [reflexivity|].
  cbn [flay]. rewrite !bytes_ok_app, Hf, IH, bytes_ok_zrepeat by lia. reflexivity.
Qed.

Lemma zlen_play_le files : forall u, 0 <= u ->
  zlen (play u files) <= (align8 u - u) + zlen (flay files).
Proof.
  induction files as [|f r IH]; intros u Hu.
  - cbn [play flay]. change (zlen (@nil Z)) with 0. destruct (align8_spec u Hu). lia.
  - cbn [play]. rewrite zlen_flay_cons. destruct (align8_spec u Hu) as [B M].
    pose proof (zlen_nonneg f) as Hf. destruct (align8_spec (zlen f) Hf) as [Bf Mf].
    rewrite !zlen_app, zlen_zrepeat by lia.
    specialize (IH (align8 u + zlen f) ltac:(lia)).
    rewrite align8_add in IH by lia. lia.
Qed.


