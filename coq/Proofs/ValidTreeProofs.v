(* Proofs/ValidTreeProofs.v — property C02, bottom-up: what Assemble writes for a section, a file and
   a (non-resizable) volume passes the checks of the independent reader (Model/Valid.v), given that
   the leaves it copies verbatim were valid. *)
From Fiano Require Import Base.Bytes Base.BytesLemmas Gen.Consts Model.Ffs Model.Edit Model.Valid Model.ValidInv
  Proofs.EditProofs Proofs.AsmProofs Proofs.ValidProofs.
From Coq Require Import ZifyBool ZifyNat.
Open Scope Z_scope.

(* ---------- one section ---------- *)

Lemma join4_prefix : forall l acc, exists T, join4 acc l = acc ++ T.
Proof.
  induction l as [|b r IH]; intros acc; cbn [join4].
  - exists []. rewrite app_nil_r. reflexivity.
  - destruct (IH (acc ++ zrepeat 0 (align4 (zlen acc) - zlen acc) ++ b)) as (T & ET).
    exists ((zrepeat 0 (align4 (zlen acc) - zlen acc) ++ b) ++ T). rewrite ET, <- !app_assoc. reflexivity.
Qed.

Lemma align4_ge v : v <= align4 v < v + 4.
Proof. unfold align4. apply align_ge. lia. Qed.
Lemma align4_mult v : (align4 v) mod 4 = 0.
Proof. unfold align4. apply align_mult. lia. Qed.
Lemma align4_shift a v : a mod 4 = 0 -> align4 (a + v) = a + align4 v.
Proof. intros H. unfold align4, align. Z.div_mod_to_equations. lia. Qed.

Section SecWalk.
Variable vfv : bytes -> bool.
Variable venc : bytes -> bool.
Variable dec : Z -> bytes -> option bytes.

Lemma v_guided_opaque (A g R : bytes) p hl : zlen A = p -> 0 <= p -> 0 <= hl ->
  guided_opaque g hl = true -> v_guided venc dec (A ++ g ++ R) p hl (zlen g) = true.
Proof.
  intros HA Hp Hhl Hg. unfold guided_opaque in Hg. apply andb_true_iff in Hg as [Hl Hc].
  unfold v_guided. replace (zlen g <? hl + 20) with false by lia. cbv zeta.
  assert (S16 : sub (p + hl) 16 (A ++ g ++ R) = sub hl 16 g) by (apply sub_mid; auto; lia).
  assert (R18 : rd (p + hl + 18) 2 (A ++ g ++ R) = rd (hl + 18) 2 g).
  { replace (p + hl + 18) with (p + (hl + 18)) by lia. apply rd_mid; auto; change (Z.of_nat 2) with 2; lia. }
  rewrite S16, R18.
  destruct (negb (Z.land (rd (hl + 18) 2 g) 1 =? 0) &&
            ((codec_kind (sub hl 16 g) =? 1) || (codec_kind (sub hl 16 g) =? 3))); [discriminate | reflexivity].
Qed.

Lemma v_sections_step k (A g R : bytes) p : zlen A = p -> 0 <= p -> v_sec0 g = true ->
  v_sections vfv venc dec (S k) (A ++ g ++ R) p = v_sections vfv venc dec k (A ++ g ++ R) (align4 (p + zlen g)).
Proof.
  intros HA Hp Hv. unfold v_sec0 in Hv. cbv zeta in Hv.
  apply andb_true_iff in Hv as [H4 Hv]. apply andb_true_iff in Hv as [Hv Ht2].
  apply andb_true_iff in Hv as [Hv Ht].
  apply andb_true_iff in Hv as [Hbig Hsz].
  pose proof (zlen_nonneg R) as HR.
  set (V := A ++ g ++ R).
  assert (LV : zlen V = p + zlen g + zlen R) by (unfold V; rewrite !zlen_app; lia).
  cbn [v_sections]. fold V.
  replace (zlen V <=? p) with false by lia. replace (zlen V <? p + 4) with false by lia.
  assert (R3 : rd p 3 V = rd 0 3 g) by (unfold V; replace p with (p + 0) at 1 by lia; apply rd_mid; auto; lia).
  assert (Rt : rd (p + 3) 1 V = rd 3 1 g) by (unfold V; apply rd_mid; auto; lia).
  rewrite R3, Rt.
  destruct (rd 0 3 g =? 16777215) eqn:Eb.
  - replace (zlen V <? p + 8) with false by lia. cbn [andb].
    assert (R4 : rd (p + 4) 4 V = rd 4 4 g) by (unfold V; apply rd_mid; auto; lia).
    rewrite R4. replace (8 <=? rd 4 4 g) with true by lia.
    replace (p + rd 4 4 g <=? zlen V) with true by lia.
    destruct (rd 3 1 g =? 23); [discriminate|]. cbn [andb].
    replace (rd 4 4 g) with (zlen g) by lia.
    destruct (rd 3 1 g =? 2); [|reflexivity].
    unfold V. rewrite (v_guided_opaque A g R p 8); auto; lia.
  - cbn [andb]. replace (4 <=? rd 0 3 g) with true by lia.
    replace (p + rd 0 3 g <=? zlen V) with true by lia.
    destruct (rd 3 1 g =? 23); [discriminate|]. cbn [andb].
    replace (rd 0 3 g) with (zlen g) by lia.
    destruct (rd 3 1 g =? 2); [|reflexivity].
    unfold V. rewrite (v_guided_opaque A g R p 4); auto; lia.
Qed.

(* the reader walks the sections that join4 laid out behind a 4-aligned prefix *)
Lemma v_sections_join4 : forall l acc P fuel, (zlen P) mod 4 = 0 ->
  Forall (fun b => v_sec0 b = true) l -> (length l < fuel)%nat ->
  v_sections vfv venc dec fuel (P ++ join4 acc l) (zlen P + align4 (zlen acc)) = true.
Proof.
  induction l as [|b r IH]; intros acc P fuel HP Hl Hf.
  - cbn [join4]. destruct fuel as [|k]; [inversion Hf|]. cbn [v_sections].
    pose proof (align4_ge (zlen acc)). rewrite zlen_app.
    replace (zlen P + zlen acc <=? zlen P + align4 (zlen acc)) with true by lia. reflexivity.
  - inversion Hl as [|? ? Hb Hr]; subst. cbn [join4].
    set (pad := zrepeat 0 (align4 (zlen acc) - zlen acc)).
    pose proof (align4_ge (zlen acc)) as Ga. pose proof (zlen_nonneg acc) as Hna. pose proof (zlen_nonneg P) as HnP.
    assert (Lpad : zlen pad = align4 (zlen acc) - zlen acc) by (unfold pad; apply zlen_zrepeat; lia).
    destruct (join4_prefix r (acc ++ pad ++ b)) as (T & ET).
    destruct fuel as [|k]; [inversion Hf|].
    assert (EB : P ++ join4 (acc ++ pad ++ b) r = (P ++ acc ++ pad) ++ b ++ T)
      by (rewrite ET, <- !app_assoc; reflexivity).
    rewrite EB. rewrite v_sections_step; auto.
    + rewrite <- EB.
      replace (align4 (zlen P + align4 (zlen acc) + zlen b)) with (zlen P + align4 (zlen (acc ++ pad ++ b))).
      * apply IH; auto. cbn [length] in Hf. lia.
      * rewrite !zlen_app, Lpad.
        rewrite <- (align4_shift (zlen P) (zlen acc + (align4 (zlen acc) - zlen acc + zlen b)) HP).
        f_equal. lia.
    + rewrite !zlen_app, Lpad. lia.
    + lia.
Qed.

End SecWalk.

(* ---------- a regenerated section header ---------- *)

Lemma write3_small e : 0 <= e < 16777215 -> write3 e = e.
Proof. intros H. unfold write3. replace (16777215 <=? e) with false by lia. reflexivity. Qed.

Definition gd_wf (h : sechdr) : Prop :=
  match s_gd h with Some g => zlen (gd_guid g) = 16 | None => True end.

Lemma gsh_v_sec0 h body : zlen body + 32 < 4294967296 -> s_type h <> 23 -> s_type h <> 2 -> gd_wf h ->
  v_sec0 (snd (gen_sec_header h body)) = true.
Proof.
  intros Hb Ht Ht2 Hg. unfold gen_sec_header. cbn [snd].
  set (hl0 := 4 + match s_gd h with Some _ => 20 | None => 0 end).
  pose proof (zlen_nonneg body) as Hnb.
  assert (Hhl0 : hl0 = 4 \/ hl0 = 24) by (unfold hl0; destruct (s_gd h); auto).
  rewrite (Z.mod_small (zlen body + hl0)) by (unfold U32; lia).
  set (e0 := zlen body + hl0).
  set (big := 16777215 <=? e0).
  set (ext := if big then (e0 + 4) mod U32 else e0).
  assert (Hext : ext = if big then e0 + 4 else e0).
  { unfold ext. destruct big; [|reflexivity]. apply Z.mod_small. unfold U32, e0. lia. }
  assert (Hbig2 : (16777215 <=? ext) = big)
    by (rewrite Hext; unfold big; destruct (16777215 <=? e0) eqn:E; lia).
  rewrite Hbig2.
  match goal with |- v_sec0 (?c ++ ?t ++ body) = true => set (common := c); set (tsh := t) end.
  assert (Ltsh : zlen tsh = hl0 - 4).
  { unfold tsh, hl0, gd_wf in *. destruct (s_gd h) as [g|]; [|reflexivity].
    cbn [gd_guid gd_dataoff gd_attrs]. rewrite !zlen_app, !zlen_le_enc, Hg. lia. }
  assert (Lc : zlen common = if big then 8 else 4).
  { unfold common. rewrite !zlen_app, zlen_le_enc. destruct big; rewrite ?zlen_le_enc, ?zlen_nil;
      change (zlen [s_type h]) with 1; lia. }
  assert (Hw : 0 <= write3 ext < 2 ^ 24) by (unfold write3; destruct (16777215 <=? ext) eqn:E; lia).
  assert (R3 : rd 0 3 (common ++ tsh ++ body) = write3 ext).
  { unfold common. rewrite <- !app_assoc.
    rewrite (rd_app_here (le_enc 3 (write3 ext)) _ 3 (zlen_le_enc 3 _)). apply le_dec_enc. exact Hw. }
  assert (Rt : rd 3 1 (common ++ tsh ++ body) = s_type h).
  { unfold common. rewrite <- !app_assoc.
    rewrite (rd_seg (le_enc 3 (write3 ext)) [s_type h] _ 1 3 (zlen_le_enc 3 _) eq_refl). apply le_dec_one. }
  assert (Lnb : zlen (common ++ tsh ++ body) = ext).
  { rewrite !zlen_app, Lc, Ltsh, Hext. unfold e0. destruct big; lia. }
  unfold v_sec0. cbv zeta. rewrite R3, Rt, Lnb.
  assert (Em : (write3 ext =? 16777215) = big) by (rewrite write3_is_marker; exact Hbig2).
  rewrite Em.
  replace (4 <=? ext) with true by (rewrite Hext; unfold e0; destruct big; lia).
  replace (s_type h =? 23) with false by lia. replace (s_type h =? 2) with false by lia.
  cbn [negb andb]. rewrite ?andb_true_r.
  destruct big eqn:Eb.
  - replace (8 <=? ext) with true by (rewrite Hext; unfold e0; lia). cbn [andb].
    assert (R4 : rd 4 4 (common ++ tsh ++ body) = ext).
    { unfold common. rewrite <- !app_assoc. rewrite (app_assoc (le_enc 3 (write3 ext)) [s_type h]).
      rewrite (rd_seg (le_enc 3 (write3 ext) ++ [s_type h]) (le_enc 4 ext) _ 4 4);
        [apply le_dec_enc; rewrite Hext; unfold e0; lia
        | rewrite zlen_app, zlen_le_enc; reflexivity | apply zlen_le_enc]. }
    rewrite R4. lia.
  - cbn [andb]. rewrite write3_small by (rewrite Hext; unfold big, e0 in *; lia). lia.
Qed.

(* ---------- a file rebuilt from its sections ---------- *)

Lemma land1_odd x : Z.land x 1 = if Z.odd x then 1 else 0.
Proof.
  replace (Z.land x 1) with (Z.land x (Z.ones 1)) by reflexivity.
  rewrite Z.land_ones by lia. change (2 ^ 1) with 2. rewrite Zmod_odd. reflexivity.
Qed.

Lemma set_size_large_gen attr size resize :
  attr_large (snd (set_size attr size resize)) = (16777215 <=? size).
Proof.
  unfold set_size. destruct (16777215 <=? size); cbn [snd]; unfold set_large, attr_large.
  - rewrite land1_odd. rewrite <- Z.bit0_odd, Z.lor_spec. rewrite orb_true_r. reflexivity.
  - rewrite <- Z.land_assoc. change (Z.land 254 1) with 0. rewrite Z.land_0_r. reflexivity.
Qed.

Lemma join4_len_ge : forall l acc, zlen acc <= zlen (join4 acc l).
Proof.
  induction l as [|b r IH]; intros acc; cbn [join4]; [lia|].
  eapply Z.le_trans; [|apply IH]. rewrite !zlen_app.
  pose proof (align4_ge (zlen acc)). pose proof (zlen_nonneg b).
  rewrite zlen_zrepeat by lia. lia.
Qed.

Lemma join4_elem_le : forall l acc b, In b l -> zlen b <= zlen (join4 acc l).
Proof.
  induction l as [|x r IH]; intros acc b Hin; [destruct Hin|]. cbn [join4].
  destruct Hin as [-> | Hin]; [|apply IH; exact Hin].
  eapply Z.le_trans; [|apply join4_len_ge]. rewrite !zlen_app.
  pose proof (align4_ge (zlen acc)). pose proof (zlen_nonneg acc).
  rewrite zlen_zrepeat by lia. lia.
Qed.

Lemma join4_count : forall l acc, Forall (fun b => 4 <= zlen b) l ->
  zlen acc + 4 * Z.of_nat (length l) <= zlen (join4 acc l).
Proof.
  induction l as [|b r IH]; intros acc Hl; cbn [join4 length]; [lia|].
  inversion Hl; subst. eapply Z.le_trans; [|apply IH; auto]. rewrite !zlen_app.
  pose proof (align4_ge (zlen acc)). rewrite zlen_zrepeat by lia. lia.
Qed.

Lemma v_sec0_len b : v_sec0 b = true -> 4 <= zlen b.
Proof. unfold v_sec0. intros H. apply andb_true_iff in H as [H _]. lia. Qed.

Section FileRebuilt.
Variable vfv : bytes -> bool.
Variable venc : bytes -> bool.
Variable dec : Z -> bytes -> option bytes.
Variable pol : Z.

(* file_asm on a file with sections (or an NVAR store): header, checksums and the section walk *)
Lemma file_asm_valid h buf kids' st n' st' :
  file_asm h buf kids' st = Ok (n', st') ->
  (kids' <> [] \/ f_nvar h <> None) ->
  zlen (f_guid h) = 16 -> zlen (node_buf n') < 2 ^ 63 ->
  (pol = 0 \/ pol = 255) -> 0 < f_type h < 255 ->
  (supported_file (f_type h) = true ->
     f_nvar h = None /\ Forall (fun k => v_sec0 (node_buf k) = true) kids') ->
  fok vfv venc dec pol (node_buf n') = true /\ rd 19 1 (node_buf n') = node_attr n' /\ is_filen n' = true.
Proof.
  intros H Hre Hg Hsz Hpol Hty Hsec. unfold file_asm in H. destruct st as [p ffs3].
  assert (Hm : match kids', f_nvar h with [], None => False | _, _ => True end).
  { destruct kids'; destruct (f_nvar h); auto. destruct Hre as [C | C]; congruence. }
  set (data := match f_nvar h with Some nb => nb | None => join4 [] (map node_buf kids') end) in *.
  destruct (set_size (f_attr h) (24 + zlen data) true) as [ext attr] eqn:Es.
  pose proof (set_size_large_gen (f_attr h) (24 + zlen data) true) as La. rewrite Es in La. cbn [snd] in La.
  destruct (checksum_and_assemble h ext attr data) as [h' nb] eqn:Ec.
  assert (En : n' = NFile h' nb kids').
  { destruct kids'; destruct (f_nvar h); try contradiction; inversion H; reflexivity. }
  subst n'. cbn [node_buf node_attr is_filen] in *.
  assert (Enb : nb = snd (checksum_and_assemble h ext attr data)) by (rewrite Ec; reflexivity).
  assert (Eh : f_attr h' = attr) by (unfold checksum_and_assemble in Ec; inversion Ec; reflexivity).
  pose proof (caa_buf_len h ext attr data Hg) as Lnb. rewrite <- Enb in Lnb.
  pose proof (zlen_nonneg data) as Hnd.
  assert (Hext : ext = file_hlen attr + zlen data /\ attr_large attr = (16777215 <=? ext)).
  { unfold set_size in Es. unfold file_hlen. rewrite La.
    destruct (16777215 <=? 24 + zlen data) eqn:E1.
    - assert (Ee : 24 + zlen data + 8 = ext) by congruence. split; lia.
    - assert (Ee : 24 + zlen data = ext) by congruence. split; lia. }
  destruct Hext as [Hext Hl2].
  assert (Hhl : file_hlen attr = 24 \/ file_hlen attr = 32) by apply file_hlen_cases.
  assert (Hv : v_file vfv venc dec nb = true).
  { rewrite Enb. apply caa_v_file_gen; auto; try lia.
    intros Hsup. destruct (Hsec Hsup) as [Hnv Hks].
    assert (Ed : data = join4 [] (map node_buf kids')) by (unfold data; rewrite Hnv; reflexivity).
    unfold checksum_and_assemble. cbn [snd].
    match goal with |- v_sections _ _ _ _ (?hdr ++ data) _ = true => set (P := hdr) end.
    assert (LP : zlen P = file_hlen attr).
    { unfold P. rewrite fhb_len by exact Hg. unfold file_hlen. reflexivity. }
    rewrite Ed.
    replace (file_hlen attr) with (zlen P + align4 (zlen (@nil Z)))
      by (rewrite LP; change (zlen (@nil Z)) with 0; change (align4 0) with 0; lia).
    apply v_sections_join4.
    - rewrite LP. destruct Hhl as [-> | ->]; reflexivity.
    - rewrite Forall_map. exact Hks.
    - rewrite map_length.
      assert (Hc : Forall (fun b => 4 <= zlen b) (map node_buf kids')).
      { rewrite Forall_map. eapply Forall_impl; [|exact Hks]. intros k Hk. apply v_sec0_len. exact Hk. }
      pose proof (join4_count (map node_buf kids') [] Hc) as Hj. rewrite map_length in Hj.
      change (zlen (@nil Z)) with 0 in Hj. rewrite <- Ed in Hj. lia. }
  split; [|split; [|reflexivity]].
  - unfold fok. rewrite Hv. cbn [andb].
    destruct (all_eq pol (sub 0 24 nb)) eqn:Ea; [|reflexivity]. exfalso.
    assert (R : rd 18 1 nb = pol) by (eapply all_eq_rd; eauto; lia).
    rewrite Enb in R. unfold checksum_and_assemble in R. cbn [snd] in R.
    rewrite fhb_rd18 in R by exact Hg. lia.
  - rewrite Eh. rewrite Enb. unfold checksum_and_assemble. cbn [snd]. apply fhb_rd19. exact Hg.
Qed.

End FileRebuilt.

(* ---------- a section as Assemble leaves it ---------- *)

Lemma gsh_len_ge h body : zlen body <= zlen (snd (gen_sec_header h body)).
Proof.
  unfold gen_sec_header. cbn [snd].
  match goal with |- _ <= zlen (?c ++ ?t ++ body) =>
    rewrite (zlen_app c), (zlen_app t); pose proof (zlen_nonneg c); pose proof (zlen_nonneg t) end.
  lia.
Qed.

Section SecAsm.
Variable enc : Z -> bytes -> option bytes.
Variable s2u : bytes -> bytes.

Lemma sec_asm_valid h buf kids' st n' st' :
  sec_asm enc s2u h buf kids' st = Ok (n', st') ->
  zlen (node_buf n') + 32 < 4294967296 -> gd_wf h -> s_type h <> 23 -> s_type h <> 2 ->
  (kids' = [] -> regen_type (s_type h) = true \/ v_sec0 buf = true) ->
  v_sec0 (node_buf n') = true.
Proof.
  intros H Hsz Hg Ht Ht2 Hleaf. unfold sec_asm in H. destruct st as [p ffs3].
  destruct kids' as [|k kids'].
  - apply bind_ok in H as (body & Hb & H). destruct body as [b|].
    + destruct (gen_sec_header h b) as [h' nb] eqn:Eg. inversion H; subst. cbn [node_buf] in *.
      replace nb with (snd (gen_sec_header h b)) in * by (rewrite Eg; reflexivity).
      apply gsh_v_sec0; auto. pose proof (gsh_len_ge h b). lia.
    + inversion H; subst. cbn [node_buf] in *.
      destruct (Hleaf eq_refl) as [Hr | Hv]; [|exact Hv]. exfalso.
      unfold regen_type in Hr.
      destruct (s_type h =? 21); [discriminate|]. destruct (s_type h =? 20); [discriminate|].
      destruct ((s_type h =? 19) || (s_type h =? 27) || (s_type h =? 28)) eqn:E.
      * apply bind_ok in Hb as (x & _ & Hb). discriminate.
      * cbn [orb] in Hr. rewrite <- !orb_assoc in Hr. cbn [orb] in Hr. rewrite orb_assoc in Hr. congruence.
  - apply bind_ok in H as (body & Hb & H).
    destruct (gen_sec_header h body) as [h' nb] eqn:Eg. inversion H; subst. cbn [node_buf] in *.
    replace nb with (snd (gen_sec_header h body)) in * by (rewrite Eg; reflexivity).
    apply gsh_v_sec0; auto. pose proof (gsh_len_ge h body). lia.
Qed.

End SecAsm.

(* ---------- the invariant on the nodes below a volume, and what Assemble makes of them ---------- *)

(* a section node: rebuilt from its fields or children, or a leaf whose bytes are a valid section;
   sections that hold a volume are excluded (scope note) *)
Definition vt_sec (n : node) : Prop :=
  match n with
  | NSec h sb kids => gd_wf h /\ s_type h <> 23 /\ s_type h <> 2 /\
                      (kids = [] -> regen_type (s_type h) = true \/ v_sec0 sb = true)
  | _ => False
  end.

(* a file node: a leaf whose bytes are a valid file for the reader, or a file that is rebuilt from
   its sections / NVAR store *)
Definition vt_file (vfv venc : bytes -> bool) (dec : Z -> bytes -> option bytes) (pol : Z) (n : node) : Prop :=
  match n with
  | NFile h fb kids =>
    (kids = [] /\ f_nvar h = None /\ fok vfv venc dec pol fb = true /\ rd 19 1 fb = f_attr h) \/
    ((kids <> [] \/ f_nvar h <> None) /\ zlen (f_guid h) = 16 /\ 0 < f_type h < 255 /\
     (supported_file (f_type h) = true -> f_nvar h = None /\ Forall vt_sec kids))
  | _ => False
  end.

Section NodeAsm.
Variable enc : Z -> bytes -> option bytes.
Variable s2u : bytes -> bytes.

Lemma asm_elems_forall2 : forall l st l' st', asm_elems enc s2u l st = Ok (l', st') ->
  Forall2 (fun k k' => exists s s', asm enc s2u k s = Ok (k', s')) l l'.
Proof.
  induction l as [|x r IH]; intros st l' st' H; cbn [asm_elems] in H.
  - inversion H; constructor.
  - apply bind_ok in H as ([x' st1] & Ex & H). apply bind_ok in H as ([r' st2] & Er & H).
    inversion H; subst. constructor; [eauto | eapply IH; eauto].
Qed.

Lemma asm_sec_node_valid n st n' st' : vt_sec n ->
  asm enc s2u n st = Ok (n', st') -> zlen (node_buf n') + 32 < 4294967296 ->
  v_sec0 (node_buf n') = true.
Proof.
  intros Hv H Hsz. destruct n as [h sb kids | | |]; try contradiction.
  destruct Hv as (Hg & Ht & Ht2 & Hleaf). rewrite asm_sec in H.
  apply bind_ok in H as ([kids' st1] & Ek & H).
  eapply sec_asm_valid; eauto.
  intros E. apply Hleaf. apply (asm_elems_v_length enc s2u) in Ek. subst kids'.
  destruct kids; [reflexivity | discriminate].
Qed.

Lemma asm_file_node_valid vfv venc dec pol n st n' st' : vt_file vfv venc dec pol n -> (pol = 0 \/ pol = 255) ->
  asm enc s2u n st = Ok (n', st') -> zlen (node_buf n') + 32 < 4294967296 ->
  fok vfv venc dec pol (node_buf n') = true /\ rd 19 1 (node_buf n') = node_attr n' /\ is_filen n' = true.
Proof.
  intros Hv Hpol H Hsz. destruct n as [| h fb kids | |]; try contradiction.
  rewrite asm_file in H. apply bind_ok in H as ([kids' st1] & Ek & H).
  pose proof (asm_elems_v_length enc s2u _ _ _ _ Ek) as Lk.
  destruct Hv as [(K0 & Nv & Hf & Ha) | (Hre & Hg & Hty & Hsec)].
  - subst kids. destruct kids'; [|discriminate].
    unfold file_asm in H. destruct st1. rewrite Nv in H. inversion H; subst. cbn [node_buf node_attr is_filen].
    auto.
  - eapply file_asm_valid; eauto.
    + destruct Hre as [Hk | Hn]; [left | right; exact Hn].
      intros E. subst kids'. destruct kids; [congruence | discriminate].
    + lia.
    + intros Hsup. destruct (Hsec Hsup) as [Nv Hks]. split; [exact Nv|].
      (* every assembled section is valid; its size is bounded by the file's *)
      pose proof (asm_elems_forall2 _ _ _ _ Ek) as F2.
      assert (Hbound : forall k', In k' kids' -> zlen (node_buf k') <= zlen (node_buf n')).
      { intros k' Hin. unfold file_asm in H. destruct st1 as [p f]. rewrite Nv in H.
        destruct kids' as [|k0 kr]; [destruct Hin|].
        destruct (set_size (f_attr h) (24 + zlen (join4 [] (map node_buf (k0 :: kr)))) true) as [ext attr].
        destruct (checksum_and_assemble h ext attr (join4 [] (map node_buf (k0 :: kr)))) as [h' nb] eqn:Ec.
        inversion H; subst. cbn [node_buf].
        replace nb with (snd (checksum_and_assemble h ext attr (join4 [] (map node_buf (k0 :: kr)))))
          by (rewrite Ec; reflexivity).
        rewrite caa_buf_len by exact Hg.
        pose proof (join4_elem_le (map node_buf (k0 :: kr)) [] (node_buf k') (in_map node_buf _ _ Hin)).
        destruct (file_hlen_cases attr) as [-> | ->]; lia. }
      clear H Ek Lk Hsec Hre.
      induction F2 as [|k k' r r' (s & s' & Hk) F2 IH]; [constructor|].
      inversion Hks; subst. constructor.
      * eapply asm_sec_node_valid; eauto. specialize (Hbound k' (or_introl eq_refl)). lia.
      * apply IH; auto. intros x Hx. apply Hbound. right. exact Hx.
Qed.

End NodeAsm.

(* ---------- the reader's volume check, split into header part and file walk ---------- *)

Lemma valid_fv_S dec d exact v :
  valid_fv dec (S d) exact v =
  fv_hdr_ok exact v &&
  (if supported_fv (sub 16 16 v) then
     (fv_doff v <=? rd 32 8 v) &&
     v_files (valid_fv dec d true) (valid_enc dec d) dec (S (Z.to_nat (rd 32 8 v))) (fv_polarity (rd 44 4 v))
             (sub 0 (rd 32 8 v) v) (fv_doff v)
   else true).
Proof.
  cbn [valid_fv]. unfold fv_hdr_ok, fv_doff. cbv zeta.
  destruct (zlen v <? 64) eqn:E.
  - replace (64 <=? zlen v) with false by lia. reflexivity.
  - replace (64 <=? zlen v) with true by lia. reflexivity.
Qed.

(* ---------- reads that do not see the bytes Assemble rewrites ---------- *)

Lemma nth_error_sub (b : bytes) o w j : 0 <= o -> 0 <= w ->
  nth_error (sub o w b) j = if Z.of_nat j <? w then nth_error b (Z.to_nat o + j) else None.
Proof.
  intros Ho Hw. unfold sub, zfirstn, zskipn.
  destruct (Z.of_nat j <? w) eqn:E.
  - rewrite nth_error_firstn_lt' by lia. apply nth_error_skipn'.
  - apply (proj2 (nth_error_None _ _)). rewrite firstn_length. lia.
Qed.

Lemma sub_agree (a b : bytes) o w : zlen a = zlen b -> 0 <= o -> 0 <= w ->
  (forall i : nat, o <= Z.of_nat i < o + w -> nth_error a i = nth_error b i) ->
  sub o w a = sub o w b.
Proof.
  intros Hl Ho Hw H. apply nth_error_ext. intros j.
  rewrite !nth_error_sub by lia. destruct (Z.of_nat j <? w) eqn:E; [|reflexivity].
  apply H. lia.
Qed.

Lemma rd_agree (a b : bytes) o w : zlen a = zlen b -> 0 <= o ->
  (forall i : nat, o <= Z.of_nat i < o + Z.of_nat w -> nth_error a i = nth_error b i) ->
  rd o w a = rd o w b.
Proof. intros Hl Ho H. unfold rd. f_equal. apply sub_agree; auto. lia. Qed.

(* v and v' have the same length and the same bytes below K, except possibly the file-system GUID
   [16,32) and the checksum [50,52) *)
Definition hagree (K : Z) (v v' : bytes) : Prop :=
  zlen v = zlen v' /\
  forall i : nat, Z.of_nat i < K -> (Z.of_nat i < 16 \/ 32 <= Z.of_nat i < 50 \/ 52 <= Z.of_nat i) ->
    nth_error v i = nth_error v' i.

Lemma hagree_rd K v v' o w : hagree K v v' -> o + Z.of_nat w <= K ->
  (0 <= o /\ o + Z.of_nat w <= 16 \/ 32 <= o /\ o + Z.of_nat w <= 50 \/ 52 <= o) ->
  rd o w v = rd o w v'.
Proof.
  intros [Hl H] HK Hr. apply rd_agree; auto; [lia|]. intros i Hi. apply H; lia.
Qed.

Lemma v_blocks_sum_agree K v v' : hagree K v v' -> forall fuel off t e, 56 <= off ->
  v_blocks_sum fuel v off = Some (t, e) -> e <= K -> v_blocks_sum fuel v' off = Some (t, e).
Proof.
  intros Ha. induction fuel as [|k IH]; intros off t e Ho H He; [discriminate|].
  cbn [v_blocks_sum] in *. destruct Ha as [Hl Hn]. rewrite <- Hl.
  destruct (zlen v <? off + 8) eqn:E1; [discriminate|].
  assert (Hle : off + 8 <= e).
  { destruct ((rd off 4 v =? 0) && (rd (off + 4) 4 v =? 0)).
    - inversion H; lia.
    - destruct (v_blocks_sum k v (off + 8)) as [[t' e']|] eqn:Er; [|discriminate]. inversion H; subst.
      clear - Er. revert Er. generalize (off + 8). clear. revert t' e.
      induction k as [|k IH]; intros t' e o Er; [discriminate|]. cbn [v_blocks_sum] in Er.
      destruct (zlen v <? o + 8); [discriminate|].
      destruct ((rd o 4 v =? 0) && (rd (o + 4) 4 v =? 0)); [inversion Er; lia|].
      destruct (v_blocks_sum k v (o + 8)) as [[t'' e'']|] eqn:E2; [|discriminate]. inversion Er; subst.
      specialize (IH _ _ _ E2). lia. }
  assert (R1 : rd off 4 v' = rd off 4 v) by (symmetry; apply (hagree_rd K); [split; auto | change (Z.of_nat 4) with 4; lia | lia]).
  assert (R2 : rd (off + 4) 4 v' = rd (off + 4) 4 v) by (symmetry; apply (hagree_rd K); [split; auto | change (Z.of_nat 4) with 4; lia | lia]).
  rewrite R1, R2.
  destruct ((rd off 4 v =? 0) && (rd (off + 4) 4 v =? 0)); [exact H|].
  destruct (v_blocks_sum k v (off + 8)) as [[t' e']|] eqn:Er; [|discriminate]. inversion H; subst.
  rewrite (IH (off + 8) t' e ltac:(lia) Er He). reflexivity.
Qed.

(* ---------- a rebuilt non-resizable volume: the header checks carry over from the input ---------- *)

(* what the parser guarantees of a volume node (FfsParseProofs: vol_fields) together with the
   reader's verdict on the input volume's header *)
Definition vhdr_in (h : volhdr) (vb : bytes) : Prop :=
  bytes_ok vb = true /\ zlen vb = v_length h /\ fv_hdr_ok true vb = true /\
  rd 32 8 vb = v_length h /\ rd 48 2 vb = v_hdrlen h /\ rd 44 4 vb = v_attrs h /\
  fv_doff vb = v_dataoff h /\
  (exists c s rest, v_blocks h = (c, s) :: rest /\ rd 56 4 vb = c) /\
  (rd 52 2 vb <> 0 -> rd 52 2 vb + 20 <= v_dataoff h).

Lemma sub_splice_after off d b o w : 0 <= off -> off + zlen d <= zlen b -> off + zlen d <= o -> 0 <= w ->
  sub o w (splice off d b) = sub o w b.
Proof.
  intros H1 H2 H3 Hw. pose proof (zlen_nonneg d).
  apply sub_agree; [apply zlen_splice; lia | lia | lia |].
  intros i Hi. apply nth_error_splice_hi; lia.
Qed.

Lemma sub_le_enc_rd (b : bytes) o w : bytes_ok b = true -> 0 <= o -> o + Z.of_nat w <= zlen b ->
  le_enc w (rd o w b) = sub o (Z.of_nat w) b.
Proof.
  intros Hb Ho Hl. unfold rd.
  assert (L : length (sub o (Z.of_nat w) b) = w).
  { pose proof (zlen_sub o (Z.of_nat w) b Ho ltac:(lia) Hl) as Z. unfold zlen in Z. lia. }
  rewrite <- L at 1. apply le_enc_dec. apply bytes_ok_sub. exact Hb.
Qed.

Lemma hagree_asm_vol pol ffs3 h vb files h' b :
  asm_vol pol ffs3 h vb files = Ok (h', b) ->
  vol_verbatim h files = false -> v_resizable h = false -> vhdr_in h vb ->
  hagree (v_dataoff h) vb b /\
  (sub 16 16 b = sub 16 16 vb \/ sub 16 16 b = FFS3) /\
  (ffs3 && bytes_eqb (v_guid h) FFS2 = true -> sub 16 16 b = FFS3).
Proof.
  intros H Hv Hr (Hok & Lvb & Hh & R32 & R48 & R44 & Hdoff & (c0 & s0 & rest0 & Hbl & R56) & Hext).
  destruct (asm_vol_v_len _ _ _ _ _ _ _ H Hv Hr) as [Lb _].
  destruct (asm_vol_v_inv _ _ _ _ _ _ _ H Hv Hr)
    as (hdr & b1 & c & s & rest & hb & Hs & Hp & Hl & Hdo & He & Hb & Hz).
  cbv zeta in Hz. destruct Hz as (L60 & L4 & Hsl & Eb & _ & _).
  assert (Ec : rd 56 4 vb = c) by (rewrite Hbl in Hb; congruence).
  pose proof (slice_len _ _ _ _ Hs) as (Lh & _ & Hdl). rewrite Z.sub_0_r in Lh.
  apply slice0_eq in Hs.
  assert (H64 : 64 <= v_hdrlen h).
  { unfold fv_hdr_ok in Hh. cbv zeta in Hh. rewrite R48 in Hh.
    repeat (apply andb_true_iff in Hh; destruct Hh as [Hh ?]). lia. }
  destruct (place_files_layout pol _ files hdr (v_dataoff h) b1 Lh ltac:(lia) Hp) as (_ & (D & ED) & _ & _).
  set (b2 := if zlen b1 <? v_length h then b1 ++ zrepeat pol (v_length h - zlen b1) else b1) in *.
  assert (E2 : exists E, b2 = hdr ++ D ++ E).
  { unfold b2. destruct (zlen b1 <? v_length h).
    - exists (zrepeat pol (v_length h - zlen b1)). rewrite ED, <- app_assoc. reflexivity.
    - exists []. rewrite ED, app_nil_r. reflexivity. }
  destruct E2 as (E & E2).
  assert (L2 : zlen b2 = v_length h).
  { unfold b2. destruct (zlen b1 <? v_length h) eqn:E0; [rewrite zlen_app, zlen_zrepeat by lia; lia | lia]. }
  (* below the data offset b2 is the input *)
  assert (N2 : forall i : nat, Z.of_nat i < v_dataoff h -> nth_error b2 i = nth_error vb i).
  { intros i Hi. rewrite E2. rewrite nth_error_app1 by (unfold zlen in Lh; lia).
    rewrite Hs. unfold zfirstn. apply nth_error_firstn_lt'. lia. }
  assert (S2 : forall o w, 0 <= o -> 0 <= w -> o + w <= v_dataoff h -> sub o w b2 = sub o w vb).
  { intros o w Ho Hw Hle. apply sub_agree; try lia. intros i Hi. apply N2. lia. }
  (* the length and block-count fix-ups write what is there *)
  assert (F32 : splice 32 (le_enc 8 (v_length h)) b2 = b2).
  { rewrite <- R32. rewrite (sub_le_enc_rd vb 32 8 Hok) by lia. change (Z.of_nat 8) with 8.
    rewrite <- (S2 32 8) by lia. apply splice_same; lia. }
  rewrite F32 in *.
  set (sw := ffs3 && bytes_eqb (v_guid h) FFS2) in *.
  set (b4 := if sw then splice 16 FFS3 b2 else b2) in *.
  assert (S56 : sub 56 4 b4 = le_enc 4 c).
  { rewrite <- Ec. rewrite (sub_le_enc_rd vb 56 4 Hok) by lia. change (Z.of_nat 4) with 4.
    rewrite <- (S2 56 4) by lia. unfold b4. destruct sw; [|reflexivity].
    apply sub_splice_after; change (zlen FFS3) with 16; lia. }
  assert (F56 : splice 56 (le_enc 4 c) b4 = b4).
  { rewrite <- S56. apply splice_same; lia. }
  rewrite F56 in *.
  split.
  - split; [lia|]. intros i Hi Hrg. rewrite Eb.
    assert (L6 : zlen (splice 50 [0; 0] b4) = zlen b4) by (apply zlen_splice; change (zlen [0;0]) with 2; lia).
    destruct (Z_lt_dec (Z.of_nat i) 50) as [Hlo | Hhi].
    + rewrite nth_error_splice_lo by (rewrite ?le2, ?L6; lia).
      rewrite nth_error_splice_lo by (change (zlen [0;0]) with 2; lia).
      unfold b4. destruct sw.
      * destruct (Z_lt_dec (Z.of_nat i) 16).
        -- rewrite nth_error_splice_lo by (change (zlen FFS3) with 16; lia). symmetry. apply N2. exact Hi.
        -- rewrite nth_error_splice_hi by (change (zlen FFS3) with 16; lia). symmetry. apply N2. exact Hi.
      * symmetry. apply N2. exact Hi.
    + rewrite nth_error_splice_hi by (rewrite ?le2, ?L6; lia).
      rewrite nth_error_splice_hi by (change (zlen [0;0]) with 2; lia).
      unfold b4. destruct sw.
      * rewrite nth_error_splice_hi by (change (zlen FFS3) with 16; lia). symmetry. apply N2. exact Hi.
      * symmetry. apply N2. exact Hi.
  - rewrite Eb.
    assert (L6 : zlen (splice 50 [0; 0] b4) = zlen b4) by (apply zlen_splice; change (zlen [0;0]) with 2; lia).
    assert (G : sub 16 16 (splice 50 (le_enc 2 ((0 - sum16 hb) mod 65536)) (splice 50 [0; 0] b4)) = sub 16 16 b4).
    { apply sub_agree; try lia.
      - rewrite zlen_splice; rewrite ?le2, ?L6; lia.
      - intros i Hi. rewrite nth_error_splice_lo by (rewrite ?le2, ?L6; lia).
        apply nth_error_splice_lo; change (zlen [0;0]) with 2; lia. }
    rewrite G. unfold b4. split.
    + destruct sw.
      * right. change 16 with (zlen FFS3) at 2. apply sub_splice; change (zlen FFS3) with 16; lia.
      * left. apply S2; lia.
    + intros Hsw. rewrite Hsw. change 16 with (zlen FFS3) at 2. apply sub_splice; change (zlen FFS3) with 16; lia.
Qed.

Lemma end_of_count : forall l off, 0 <= off -> Forall (fun f => 24 <= zlen (node_buf f)) l ->
  off + 24 * Z.of_nat (length l) <= end_of off l.
Proof.
  induction l as [|f r IH]; intros off Hoff Hl; cbn [end_of length]; [lia|].
  inversion Hl; subst.
  destruct (align_gap_ok off f Hoff) as (G1 & _). pose proof (align8_ge off).
  assert (Hp : 0 <= file_end off f) by (unfold file_end; lia).
  specialize (IH (file_end off f) Hp H2). unfold file_end in *. lia.
Qed.

Lemma fok_len vfv venc dec pol g : fok vfv venc dec pol g = true -> 24 <= zlen g.
Proof.
  unfold fok. intros H. apply andb_true_iff in H as [Hv _].
  destruct (v_file_facts vfv venc dec g Hv) as [Hhl _]. unfold file_hlen in Hhl. destruct (attr_large (rd 19 1 g)); lia.
Qed.

(* the reader accepts a rebuilt non-resizable volume whose input header it accepted and whose
   files (as assembled) are individually valid *)
Lemma asm_vol_valid_fv dec d pol ffs3 h vb files h' b :
  asm_vol pol ffs3 h vb files = Ok (h', b) ->
  vol_verbatim h files = false -> v_resizable h = false -> vhdr_in h vb ->
  pol = fv_polarity (v_attrs h) -> v_length h < 2 ^ 64 ->
  Forall (fun f => fok (valid_fv dec d true) (valid_enc dec d) dec pol (node_buf f) = true /\
                   rd 19 1 (node_buf f) = node_attr f) files ->
  valid_fv dec (S d) true b = true.
Proof.
  intros H Hv Hr Hin Hpol Hlen Hok.
  destruct (hagree_asm_vol _ _ _ _ _ _ _ H Hv Hr Hin) as (HA & Hguid & _).
  destruct Hin as (Hbok & Lvb & Hh & R32 & R48 & R44 & Hdoff & Hblk & Hext).
  destruct (asm_vol_v_len _ _ _ _ _ _ _ H Hv Hr) as [Lb _].
  destruct (asm_vol_v_inv _ _ _ _ _ _ _ H Hv Hr)
    as (hdr & b1 & c & s & rest & hb & Hs & Hp & Hl & Hdo & He & Hb & _).
  pose proof (slice_len _ _ _ _ Hs) as (Lh & _ & _). rewrite Z.sub_0_r in Lh.
  unfold fv_hdr_ok in Hh. cbv zeta in Hh. rewrite R32, R48 in Hh.
  apply andb_true_iff in Hh as [A0 Hh].
  repeat match type of Hh with _ && _ = true => let X := fresh "A" in apply andb_true_iff in Hh as [Hh X] end.
  assert (H64 : 64 <= v_hdrlen h) by lia.
  assert (K60 : 60 <= v_dataoff h) by lia.
  (* the reads of the header *)
  assert (Q32 : rd 32 8 b = v_length h) by (rewrite <- R32; symmetry; apply (hagree_rd _ _ _ _ _ HA); change (Z.of_nat 8) with 8; lia).
  assert (Q48 : rd 48 2 b = v_hdrlen h) by (rewrite <- R48; symmetry; apply (hagree_rd _ _ _ _ _ HA); change (Z.of_nat 2) with 2; lia).
  assert (Q40 : rd 40 4 b = rd 40 4 vb) by (symmetry; apply (hagree_rd _ _ _ _ _ HA); change (Z.of_nat 4) with 4; lia).
  assert (Q44 : rd 44 4 b = rd 44 4 vb) by (symmetry; apply (hagree_rd _ _ _ _ _ HA); change (Z.of_nat 4) with 4; lia).
  assert (Q52 : rd 52 2 b = rd 52 2 vb) by (symmetry; apply (hagree_rd _ _ _ _ _ HA); change (Z.of_nat 2) with 2; lia).
  assert (Qe : rd 52 2 vb <> 0 -> rd (rd 52 2 vb + 16) 4 b = rd (rd 52 2 vb + 16) 4 vb).
  { intros Hne. specialize (Hext Hne). symmetry. apply (hagree_rd _ _ _ _ _ HA); change (Z.of_nat 4) with 4; [lia|].
    right. right. destruct (rd 52 2 vb =? 0) eqn:E0; [lia|]. lia. }
  assert (Qd : fv_doff b = v_dataoff h).
  { rewrite <- Hdoff. unfold fv_doff. cbv zeta. rewrite Q52, Q48, R48.
    destruct (rd 52 2 vb =? 0) eqn:E0; [reflexivity|]. rewrite Qe by lia. reflexivity. }
  rewrite valid_fv_S. apply andb_true_iff. split.
  - unfold fv_hdr_ok. cbv zeta. rewrite Q32, Q48, Q40, Q52, Lb, <- Lvb.
    replace (64 <=? zlen vb) with true by lia. cbn [andb].
    rewrite (asm_vol_hdr_cksum _ _ _ _ _ _ _ H Hv Hr ltac:(lia)).
    destruct (v_blocks_sum (S (Z.to_nat (zlen vb))) vb 56) as [[t e]|] eqn:Eb; [|discriminate A1].
    apply andb_true_iff in A1 as [T1 T2].
    replace (zlen b) with (zlen vb) by lia.
    rewrite (v_blocks_sum_agree (v_dataoff h) vb b HA (S (Z.to_nat (zlen vb))) 56 t e ltac:(lia) Eb ltac:(lia)).
    rewrite ?Lvb. destruct (rd 52 2 vb =? 0) eqn:E52; lia.
  - destruct (supported_fv (sub 16 16 b)); [|reflexivity].
    rewrite Q32, Qd, Q44, R44, <- Hpol.
    pose proof (end_of_ge files (v_dataoff h) ltac:(lia)) as Hge.
    destruct (place_files_layout pol _ files hdr (v_dataoff h) b1 Lh ltac:(lia) Hp) as (Le & _ & _ & _).
    apply andb_true_iff. split; [lia|].
    replace (sub 0 (v_length h) b) with b by (rewrite <- Lb; symmetry; apply sub_all).
    eapply asm_vol_files_valid; eauto; try lia.
    + unfold fv_doff in Hdoff. rewrite <- Hdoff. apply align8_mult.
    + rewrite Hpol. unfold fv_polarity. destruct (Z.land (v_attrs h) 2048 =? 0); auto.
    + assert (Hc : Forall (fun f => 24 <= zlen (node_buf f)) files).
      { eapply Forall_impl; [|exact Hok]. intros f [Hf _]. eapply fok_len; eauto. }
      pose proof (end_of_count files (v_dataoff h) ltac:(lia) Hc). lia.
Qed.
