(* Proofs/AmdProofs.v — lemmas about Model/Amd.v (property C17). *)
From Fiano Require Import Base.Bytes Base.BytesLemmas Gen.Consts Model.Amd.
From Coq Require Import ZifyBool ZifyNat Znumtheory.
Open Scope Z_scope.

(* ================================================================ *)
(* 1. Fletcher-32                                                    *)
(* ================================================================ *)

Definition word_ok (w : Z) : Prop := 0 <= w < 65536.

Lemma words_ok (b : bytes) : bytes_ok b = true -> Forall word_ok (words b).
Proof.
  assert (H : forall n (b : bytes), (length b <= n)%nat -> bytes_ok b = true -> Forall word_ok (words b)).
  { induction n as [|n IH]; intros [|x [|y r]] L OK; cbn [words]; try constructor;
      try (cbn [length] in L; lia).
    - rewrite bytes_ok_cons in OK. apply andb_true_iff in OK as [Hx _].
      apply byte_ok_iff in Hx. unfold word_ok; lia.
    - constructor.
    - rewrite !bytes_ok_cons in OK. apply andb_true_iff in OK as [Hx OK].
      apply andb_true_iff in OK as [Hy _]. apply byte_ok_iff in Hx. apply byte_ok_iff in Hy.
      unfold word_ok; lia.
    - rewrite !bytes_ok_cons in OK. apply andb_true_iff in OK as [_ OK].
      apply andb_true_iff in OK as [_ OK]. apply IH; auto. cbn [length] in L. lia. }
  intros OK. apply (H (length b)); auto.
Qed.

Lemma wsum0_app a b : wsum0 (a ++ b) = wsum0 a + wsum0 b.
Proof. induction a as [|x a IH]; cbn [wsum0 app]; lia. Qed.

Lemma wsum1_app a b : wsum1 (a ++ b) = wsum1 a + zlen b * wsum0 a + wsum1 b.
Proof.
  induction a as [|x a IH]; cbn [wsum1 wsum0 app]; [lia|].
  rewrite IH. rewrite !zlen_cons, zlen_app. ring.
Qed.

Lemma wsum0_nonneg ws : Forall word_ok ws -> 0 <= wsum0 ws.
Proof. induction 1 as [|w r Hw _ IH]; cbn [wsum0]; unfold word_ok in *; lia. Qed.

Lemma wsum1_nonneg ws : Forall word_ok ws -> 0 <= wsum1 ws.
Proof.
  induction 1 as [|w r Hw _ IH]; cbn [wsum1]; [lia|].
  unfold word_ok in *. pose proof (zlen_nonneg (w :: r)). nia.
Qed.

Lemma fl_block_cons w r st : fl_block (w :: r) st = fl_block r (fl_step st w).
Proof. reflexivity. Qed.

(* no uint32 wrap inside a run of words, under the two bounds *)
Lemma fl_block_exact ws : Forall word_ok ws -> forall c0 c1,
  0 <= c0 -> 0 <= c1 ->
  c0 + zlen ws * 65535 < two32 ->
  2 * c1 + 2 * zlen ws * c0 + 65535 * (zlen ws * (zlen ws + 1)) < 2 * two32 ->
  fl_block ws (c0, c1) = (c0 + wsum0 ws, c1 + zlen ws * c0 + wsum1 ws).
Proof.
  induction 1 as [|w r Hw Hr IH]; intros c0 c1 H0 H1 B0 B1.
  - cbn. f_equal; lia.
  - rewrite fl_block_cons. unfold fl_step. cbn [fst snd].
    rewrite zlen_cons in *. set (m := zlen r) in *.
    assert (Hm : 0 <= m) by apply zlen_nonneg.
    unfold word_ok in Hw. unfold two32 in *.
    assert (Hmc : 0 <= m * c0) by nia.
    assert (Hmm : 0 <= m * m) by nia.
    assert (Hmw : 0 <= m * w <= m * 65535) by nia.
    rewrite (Z.mod_small (c0 + w)) by nia.
    rewrite (Z.mod_small (c1 + (c0 + w))) by nia.
    rewrite IH by nia.
    cbn [wsum0 wsum1]. rewrite zlen_cons. fold m. f_equal; ring.
Qed.

(* the content of the block-deferred scheme: 360 words from a reduced state cannot overflow *)
Lemma fl_block_360 ws c0 c1 : Forall word_ok ws -> zlen ws <= 360 ->
  0 <= c0 < 65535 -> 0 <= c1 < 65535 ->
  fl_block ws (c0, c1) = (c0 + wsum0 ws, c1 + zlen ws * c0 + wsum1 ws).
Proof.
  intros W L H0 H1. pose proof (zlen_nonneg ws) as Hn.
  apply fl_block_exact; auto; try lia; unfold two32.
  - lia.
  - assert (zlen ws * c0 <= 360 * 65534) by nia.
    assert (zlen ws * (zlen ws + 1) <= 360 * 361) by nia.
    lia.
Qed.

Lemma Forall_firstn {A} (P : A -> Prop) n l : Forall P l -> Forall P (firstn n l).
Proof.
  intros H; revert n; induction H as [|x l Hx _ IH]; intros [|n]; cbn; constructor; auto.
Qed.

Lemma Forall_skipn {A} (P : A -> Prop) n l : Forall P l -> Forall P (skipn n l).
Proof.
  intros H; revert n; induction H as [|x l Hx Hl IH]; intros [|n]; cbn; auto.
Qed.

Definition M : Z := 65535.

Lemma mod_congr x y k : x = y + k * M -> x mod M = y mod M.
Proof. intros ->. apply Z_mod_plus_full. Qed.

Lemma fl_blocks_spec fuel : forall ws c0 c1,
  (length ws <= fuel)%nat -> Forall word_ok ws ->
  0 <= c0 < M -> 0 <= c1 < M ->
  fl_blocks fuel ws (c0, c1) =
    Ok ((c0 + wsum0 ws) mod M, (c1 + zlen ws * c0 + wsum1 ws) mod M).
Proof.
  unfold M.
  induction fuel as [|f IH]; intros ws c0 c1 L W H0 H1.
  - destruct ws; [|cbn [length] in L; lia]. cbn [fl_blocks wsum0 wsum1].
    change (zlen (@nil Z)) with 0. f_equal. f_equal; (rewrite Z.mod_small by lia; lia).
  - destruct ws as [|w r].
    + cbn [fl_blocks wsum0 wsum1]. change (zlen (@nil Z)) with 0.
      f_equal. f_equal; (rewrite Z.mod_small by lia; lia).
    + cbn [fl_blocks]. set (ws := w :: r) in *.
      set (blk := firstn 360 ws). set (rest := skipn 360 ws).
      assert (E : ws = blk ++ rest) by (symmetry; apply firstn_skipn).
      assert (Lb : zlen blk <= 360).
      { unfold zlen, blk. rewrite firstn_length. lia. }
      assert (Lb1 : (1 <= length blk)%nat).
      { unfold blk. rewrite firstn_length. unfold ws. cbn [length]. lia. }
      assert (Lr : (length rest <= f)%nat).
      { assert (length ws = length blk + length rest)%nat by (rewrite E at 1; apply app_length). lia. }
      rewrite (fl_block_360 blk c0 c1) by (auto; apply Forall_firstn; auto).
      cbn [fst snd].
      rewrite IH; auto.
      2: apply Forall_skipn; auto.
      2, 3: apply Z.mod_pos_bound; lia.
      rewrite E. rewrite wsum0_app, wsum1_app, zlen_app.
      set (A := c0 + wsum0 blk). set (B := c1 + zlen blk * c0 + wsum1 blk).
      f_equal. f_equal.
      * apply (mod_congr _ _ (- (A / 65535))). unfold M.
        rewrite (Z.mod_eq A 65535) by lia. unfold A. ring.
      * apply (mod_congr _ _ (- (B / 65535) - zlen rest * (A / 65535))). unfold M.
        rewrite (Z.mod_eq A 65535), (Z.mod_eq B 65535) by lia. unfold A, B. ring.
Qed.

Lemma lor_shift16 c0 c1 : 0 <= c0 < 65536 -> 0 <= c1 < 65536 ->
  Z.lor (Z.shiftl c1 16 mod two32) c0 = c1 * 65536 + c0.
Proof.
  intros H0 H1. rewrite Z.shiftl_mul_pow2 by lia. change (2 ^ 16) with 65536.
  unfold two32. rewrite Z.mod_small by lia.
  assert (L : Z.land (c1 * 65536) c0 = 0).
  { replace c0 with (Z.land c0 (Z.ones 16)) at 1
      by (rewrite Z.land_ones by lia; apply Z.mod_small; change (2 ^ 16) with 65536; lia).
    rewrite Z.land_assoc.
    replace (Z.land (c1 * 65536) c0) with (Z.land c0 (c1 * 65536)) by apply Z.land_comm.
    rewrite <- Z.land_assoc.
    replace (Z.land (c1 * 65536) (Z.ones 16)) with 0.
    - apply Z.land_0_r.
    - rewrite Z.land_ones by lia. change (2 ^ 16) with 65536. symmetry. apply Z_mod_mult. }
  rewrite <- Z.lxor_lor by exact L. symmetry. apply Z.add_nocarry_lxor. exact L.
Qed.

Theorem fletcher_closed_form data : bytes_ok data = true ->
  fletcher32 data = Ok (fletcher_math (words data)).
Proof.
  intros OK. unfold fletcher32.
  rewrite (fl_blocks_spec _ (words data) 0 0); auto; try (unfold M; lia).
  2: apply words_ok; auto.
  cbn [bind fst snd]. f_equal. unfold fletcher_math, M.
  rewrite lor_shift16.
  - f_equal; f_equal; lia.
  - pose proof (Z.mod_pos_bound (0 + wsum0 (words data)) 65535). lia.
  - pose proof (Z.mod_pos_bound (0 + zlen (words data) * 0 + wsum1 (words data)) 65535). lia.
Qed.

Lemma fletcher_naive_spec ws : forall c0 c1, 0 <= c0 < M -> 0 <= c1 < M ->
  fletcher_naive ws c0 c1 = ((c0 + wsum0 ws) mod M, (c1 + zlen ws * c0 + wsum1 ws) mod M).
Proof.
  unfold M. induction ws as [|w r IH]; intros c0 c1 H0 H1.
  - cbn [fletcher_naive wsum0 wsum1]. change (zlen (@nil Z)) with 0. f_equal; (rewrite Z.mod_small by lia; lia).
  - cbn [fletcher_naive wsum0 wsum1]. rewrite IH by (apply Z.mod_pos_bound; lia).
    rewrite zlen_cons.
    set (A := c0 + w). set (B := c1 + A mod 65535).
    f_equal.
    + apply (mod_congr _ _ (- (A / 65535))). unfold M. rewrite (Z.mod_eq A 65535) by lia. unfold A. ring.
    + apply (mod_congr _ _ (- (B / 65535) - (1 + zlen r) * (A / 65535))). unfold M.
      rewrite (Z.mod_eq B 65535) by lia. unfold B. rewrite (Z.mod_eq A 65535) by lia. unfold A. ring.
Qed.

Theorem fletcher_is_naive data : bytes_ok data = true ->
  fletcher32 data =
    Ok (snd (fletcher_naive (words data) 0 0) * 65536 + fst (fletcher_naive (words data) 0 0)).
Proof.
  intros OK. rewrite fletcher_closed_form by auto.
  rewrite fletcher_naive_spec by (unfold M; lia). cbn [fst snd]. unfold fletcher_math, M.
  f_equal. f_equal; f_equal; lia.
Qed.

Lemma zskipn_as_sub (b : bytes) k : 0 <= k <= zlen b -> sub k (zlen b - k) b = zskipn k b.
Proof.
  intros H. unfold sub, zfirstn. apply firstn_all2.
  unfold zskipn. rewrite skipn_length. unfold zlen in *. lia.
Qed.

Theorem dir_checksum_spec raw : bytes_ok raw = true -> 8 <= zlen raw ->
  dir_checksum raw = Ok (fletcher_math (words (zskipn 8 raw))).
Proof.
  intros OK L. unfold dir_checksum. rewrite slice_ok by lia. cbn [of_opt bind].
  rewrite zskipn_as_sub by lia.
  apply fletcher_closed_form. apply bytes_ok_skipn; auto.
Qed.

Theorem dir_checksum_short raw : zlen raw < 8 -> exists s, dir_checksum raw = Panic s.
Proof.
  intros L. unfold dir_checksum, slice.
  replace ((0 <=? 8) && (8 <=? zlen raw) && (zlen raw <=? zlen raw)) with false by lia.
  cbn. eauto.
Qed.

(* ================================================================ *)
(* 2. readers                                                        *)
(* ================================================================ *)

Definition safe {A} (o : outcome A) : Prop :=
  match o with Panic _ => False | Fuel => False | _ => True end.

Lemma safe_bind {A B} (x : outcome A) (f : A -> outcome B) :
  safe x -> (forall a, x = Ok a -> safe (f a)) -> safe (bind x f).
Proof. destruct x; cbn; auto. Qed.

Lemma safe_catch {A} (o : outcome A) : safe o -> safe (catch o).
Proof. destruct o; cbn; auto. Qed.

Lemma catch_ok {A} (o : outcome A) r : catch o = Ok r ->
  match r with Some a => o = Ok a | None => exists e, o = Err e end.
Proof. destruct o; cbn; intros [= <-]; eauto. Qed.

Lemma zlen_zfirstn_min {A} n (l : list A) : 0 <= n -> zlen (zfirstn n l) = Z.min n (zlen l).
Proof. intros. unfold zlen, zfirstn. rewrite firstn_length. lia. Qed.

Lemma read_n_ok n r : 0 < n <= zlen r -> read_n n r = Ok (zfirstn n r, zskipn n r).
Proof.
  intros H. unfold read_n. cbv zeta. rewrite zlen_zfirstn_min by lia.
  replace (Z.min n (zlen r) =? 0) with false by lia.
  replace (Z.min n (zlen r) <? n) with false by lia. reflexivity.
Qed.

Lemma read_n_short n r : zlen r < n -> exists e, read_n n r = Err e.
Proof.
  intros H. unfold read_n. cbv zeta. destruct (zlen (zfirstn n r) =? 0); [eauto|].
  pose proof (zlen_nonneg r). rewrite zlen_zfirstn_min by lia.
  replace (Z.min n (zlen r) <? n) with true by lia. eauto.
Qed.

Lemma read_n_inv n r x : read_n n r = Ok x ->
  n <= zlen r /\ 0 < zlen r /\ x = (zfirstn n r, zskipn n r).
Proof.
  unfold read_n. cbv zeta. destruct (zlen (zfirstn n r) =? 0) eqn:E0; [discriminate|].
  destruct (zlen (zfirstn n r) <? n) eqn:E1; [discriminate|]. intros [= <-].
  pose proof (zlen_nonneg r).
  assert (0 < n).
  { destruct (Z_lt_dec 0 n); auto. exfalso.
    assert (zfirstn n r = []) by (unfold zfirstn; replace (Z.to_nat n) with O by lia; reflexivity).
    rewrite H0 in E0. discriminate. }
  rewrite zlen_zfirstn_min in * by lia. repeat split; lia.
Qed.

Lemma safe_read_n n r : safe (read_n n r).
Proof.
  unfold read_n. cbv zeta. destruct (zlen (zfirstn n r) =? 0); [exact I|].
  destruct (zlen (zfirstn n r) <? n); exact I.
Qed.

Lemma read_u_ok n r : 0 < n <= zlen r -> read_u n r = Ok (le_dec (zfirstn n r), zskipn n r).
Proof. intros H. unfold read_u. rewrite read_n_ok by auto. reflexivity. Qed.

Lemma read_u_short n r : zlen r < n -> exists e, read_u n r = Err e.
Proof. intros H. unfold read_u. destruct (read_n_short n r H) as [e ->]. cbn. eauto. Qed.

Lemma read_u_inv n r x : read_u n r = Ok x ->
  n <= zlen r /\ 0 < zlen r /\ x = (le_dec (zfirstn n r), zskipn n r).
Proof.
  unfold read_u. intros H. apply bind_ok in H as (y & H1 & H2).
  apply read_n_inv in H1 as (L1 & L2 & ->). cbn in H2. injection H2 as <-. auto.
Qed.

Lemma safe_read_u n r : safe (read_u n r).
Proof. unfold read_u. apply safe_bind; [apply safe_read_n|]. intros; exact I. Qed.

(* a field of a record that sits at the head of a longer buffer *)
Lemma sub_zfirstn (b : bytes) off w n : 0 <= off -> 0 <= w -> off + w <= n ->
  sub off w (zfirstn n b) = sub off w b.
Proof.
  intros H1 H2 H3. unfold sub, zfirstn, zskipn.
  rewrite skipn_firstn_comm. rewrite firstn_firstn. f_equal. lia.
Qed.

Lemma rd_zfirstn (b : bytes) off w n : 0 <= off -> off + Z.of_nat w <= n ->
  rd off w (zfirstn n b) = rd off w b.
Proof. intros. unfold rd. f_equal. apply sub_zfirstn; lia. Qed.

Lemma zskipn_zfirstn {A} (l : list A) a n : 0 <= a <= n ->
  zskipn a (zfirstn n l) = zfirstn (n - a) (zskipn a l).
Proof.
  intros H. unfold zskipn, zfirstn. rewrite skipn_firstn_comm. f_equal. lia.
Qed.

Lemma zfirstn_zfirstn {A} (l : list A) a n : 0 <= a <= n -> zfirstn a (zfirstn n l) = zfirstn a l.
Proof. intros H. unfold zfirstn. rewrite firstn_firstn. f_equal. lia. Qed.

Lemma zlen_zskipn' {A} n (l : list A) : 0 <= n -> zlen (zskipn n l) = Z.max 0 (zlen l - n).
Proof. intros. unfold zlen, zskipn. rewrite skipn_length. lia. Qed.

Lemma zskipn_0 {A} (l : list A) : zskipn 0 l = l.
Proof. reflexivity. Qed.

Lemma rd_nonneg off w b : bytes_ok b = true -> 0 <= rd off w b.
Proof. intros OK. unfold rd. apply le_dec_bound. apply bytes_ok_sub; auto. Qed.

(* ================================================================ *)
(* 3. entries                                                        *)
(* ================================================================ *)

Lemma land_ones_mod x n : 0 <= n -> Z.land x (Z.ones n) = x mod 2 ^ n.
Proof. intros; apply Z.land_ones; auto. Qed.

Lemma psp_romid_bits f : psp_romid f = bits 14 2 f.
Proof.
  unfold psp_romid, bits. change 3 with (Z.ones 2). rewrite Z.land_ones by lia.
  rewrite Z.shiftr_div_pow2 by lia.
  change (2 ^ 2) with 4.
  symmetry. apply Zmod_div_mod; try lia. exists 64. reflexivity.
Qed.

Ltac skip_steps :=
  repeat (rewrite zskipn_zskipn by lia); cbn [Z.add Pos.add Pos.succ].

Lemma parse_psp_entry_ok r : 16 <= zlen r ->
  parse_psp_entry r = Ok (dec_psp_entry (zfirstn 16 r), 16, zskipn 16 r).
Proof.
  intros L. unfold parse_psp_entry.
  rewrite read_u_ok by lia. cbn [bind fst snd].
  rewrite read_u_ok by (rewrite zlen_zskipn; lia). cbn [bind fst snd].
  rewrite zskipn_zskipn by lia. cbn [Z.add Pos.add Pos.succ].
  rewrite read_u_ok by (rewrite zlen_zskipn; lia). cbn [bind fst snd].
  rewrite zskipn_zskipn by lia. cbn [Z.add Pos.add Pos.succ].
  rewrite read_u_ok by (rewrite zlen_zskipn; lia). cbn [bind fst snd].
  rewrite zskipn_zskipn by lia. cbn [Z.add Pos.add Pos.succ].
  rewrite read_u_ok by (rewrite zlen_zskipn; lia). cbn [bind fst snd].
  rewrite zskipn_zskipn by lia. cbn [Z.add Pos.add Pos.succ].
  unfold dec_psp_entry. rewrite psp_romid_bits.
  rewrite !rd_zfirstn by (cbn; lia). reflexivity.
Qed.

Lemma parse_psp_entry_short r : zlen r < 16 -> exists e, parse_psp_entry r = Err e.
Proof.
  intros L. unfold parse_psp_entry. pose proof (zlen_nonneg r) as Hn.
  destruct (Z_lt_dec (zlen r) 1) as [S1|S1].
  { destruct (read_u_short 1 r S1) as [e ->]. cbn; eauto. }
  rewrite read_u_ok by lia. cbn [bind fst snd].
  destruct (Z_lt_dec (zlen r) 2) as [S2|S2].
  { destruct (read_u_short 1 (zskipn 1 r)) as [e ->]; [rewrite zlen_zskipn; lia|]. cbn; eauto. }
  rewrite read_u_ok by (rewrite zlen_zskipn; lia). cbn [bind fst snd].
  rewrite zskipn_zskipn by lia. cbn [Z.add Pos.add Pos.succ].
  destruct (Z_lt_dec (zlen r) 4) as [S4|S4].
  { destruct (read_u_short 2 (zskipn 2 r)) as [e ->]; [rewrite zlen_zskipn; lia|]. cbn; eauto. }
  rewrite read_u_ok by (rewrite zlen_zskipn; lia). cbn [bind fst snd].
  rewrite zskipn_zskipn by lia. cbn [Z.add Pos.add Pos.succ].
  destruct (Z_lt_dec (zlen r) 8) as [S8|S8].
  { destruct (read_u_short 4 (zskipn 4 r)) as [e ->]; [rewrite zlen_zskipn; lia|]. cbn; eauto. }
  rewrite read_u_ok by (rewrite zlen_zskipn; lia). cbn [bind fst snd].
  rewrite zskipn_zskipn by lia. cbn [Z.add Pos.add Pos.succ].
  destruct (read_u_short 8 (zskipn 8 r)) as [e ->]; [rewrite zlen_zskipn; lia|]. cbn; eauto.
Qed.

Lemma safe_parse_psp_entry r : safe (parse_psp_entry r).
Proof.
  unfold parse_psp_entry.
  repeat (apply safe_bind; [apply safe_read_u|intros ? _]). exact I.
Qed.

(* ---- the two BIOS flag bytes, exhaustively over all 256 values ---- *)

Definition byte_values : list Z := map Z.of_nat (seq 0 256).

Lemma byte_values_all b : 0 <= b < 256 -> In b byte_values.
Proof.
  intros H. unfold byte_values. replace b with (Z.of_nat (Z.to_nat b)) by lia.
  apply in_map. apply in_seq. lia.
Qed.

Definition bios_flag1_check (f : Z) : bool :=
  Bool.eqb (bios_reset f) (bits 0 1 f =? 1) && Bool.eqb (bios_copy f) (bits 1 1 f =? 1) &&
  Bool.eqb (bios_ro f) (bits 2 1 f =? 1) && Bool.eqb (bios_compressed f) (bits 3 1 f =? 1) &&
  (bios_instance f =? bits 4 4 f).

Definition bios_flag2_check (g : Z) : bool :=
  (bios_subprogram g =? bits 0 3 g) && (bios_romid g =? bits 3 2 g).

Lemma bios_flag1_all : forallb bios_flag1_check byte_values = true.
Proof. vm_compute. reflexivity. Qed.

Lemma bios_flag2_all : forallb bios_flag2_check byte_values = true.
Proof. vm_compute. reflexivity. Qed.

Lemma bios_flag1_spec f : 0 <= f < 256 ->
  bios_reset f = (bits 0 1 f =? 1) /\ bios_copy f = (bits 1 1 f =? 1) /\
  bios_ro f = (bits 2 1 f =? 1) /\ bios_compressed f = (bits 3 1 f =? 1) /\
  bios_instance f = bits 4 4 f.
Proof.
  intros H. pose proof (proj1 (forallb_forall _ _) bios_flag1_all f (byte_values_all f H)) as C.
  unfold bios_flag1_check in C.
  repeat (apply andb_true_iff in C as [C ?]).
  repeat split; try (apply Bool.eqb_prop; assumption). lia.
Qed.

Lemma bios_flag2_spec g : 0 <= g < 256 ->
  bios_subprogram g = bits 0 3 g /\ bios_romid g = bits 3 2 g.
Proof.
  intros H. pose proof (proj1 (forallb_forall _ _) bios_flag2_all g (byte_values_all g H)) as C.
  unfold bios_flag2_check in C. apply andb_true_iff in C as [C1 C2]. split; lia.
Qed.

Lemma rd1_byte off b : bytes_ok b = true -> 0 <= rd off 1 b < 256.
Proof.
  intros OK. unfold rd.
  pose proof (le_dec_bound (sub off (Z.of_nat 1) b) (bytes_ok_sub _ _ _ OK)) as Hb.
  assert (zlen (sub off (Z.of_nat 1) b) <= 1).
  { unfold sub, zfirstn, zlen. rewrite firstn_length. lia. }
  pose proof (zlen_nonneg (sub off (Z.of_nat 1) b)).
  assert (256 ^ zlen (sub off (Z.of_nat 1) b) <= 256 ^ 1) by (apply Z.pow_le_mono_r; lia).
  lia.
Qed.

Lemma parse_bios_entry_ok r : bytes_ok r = true -> 24 <= zlen r ->
  parse_bios_entry r = Ok (dec_bios_entry (zfirstn 24 r), 24, zskipn 24 r).
Proof.
  intros OK L. unfold parse_bios_entry.
  rewrite read_u_ok by lia. cbn [bind fst snd].
  rewrite read_u_ok by (rewrite zlen_zskipn; lia). cbn [bind fst snd].
  rewrite zskipn_zskipn by lia. cbn [Z.add Pos.add Pos.succ].
  rewrite read_u_ok by (rewrite zlen_zskipn; lia). cbn [bind fst snd].
  rewrite zskipn_zskipn by lia. cbn [Z.add Pos.add Pos.succ].
  rewrite read_u_ok by (rewrite zlen_zskipn; lia). cbn [bind fst snd].
  rewrite zskipn_zskipn by lia. cbn [Z.add Pos.add Pos.succ].
  rewrite read_u_ok by (rewrite zlen_zskipn; lia). cbn [bind fst snd].
  rewrite zskipn_zskipn by lia. cbn [Z.add Pos.add Pos.succ].
  rewrite read_u_ok by (rewrite zlen_zskipn; lia). cbn [bind fst snd].
  rewrite zskipn_zskipn by lia. cbn [Z.add Pos.add Pos.succ].
  rewrite read_u_ok by (rewrite zlen_zskipn; lia). cbn [bind fst snd].
  rewrite zskipn_zskipn by lia. cbn [Z.add Pos.add Pos.succ].
  unfold dec_bios_entry. cbv zeta.
  rewrite !rd_zfirstn by (cbn; lia).
  change (le_dec (zfirstn 1 (zskipn 2 r))) with (rd 2 1 r).
  change (le_dec (zfirstn 1 (zskipn 3 r))) with (rd 3 1 r).
  destruct (bios_flag1_spec (rd 2 1 r) (rd1_byte 2 r OK)) as (-> & -> & -> & -> & ->).
  destruct (bios_flag2_spec (rd 3 1 r) (rd1_byte 3 r OK)) as (-> & ->).
  reflexivity.
Qed.

Lemma parse_bios_entry_short r : zlen r < 24 -> exists e, parse_bios_entry r = Err e.
Proof.
  intros L. unfold parse_bios_entry. pose proof (zlen_nonneg r) as Hn.
  destruct (Z_lt_dec (zlen r) 1) as [S1|S1].
  { destruct (read_u_short 1 r S1) as [e ->]. cbn; eauto. }
  rewrite read_u_ok by lia. cbn [bind fst snd].
  destruct (Z_lt_dec (zlen r) 2) as [S2|S2].
  { destruct (read_u_short 1 (zskipn 1 r)) as [e ->]; [rewrite zlen_zskipn; lia|]. cbn; eauto. }
  rewrite read_u_ok by (rewrite zlen_zskipn; lia). cbn [bind fst snd].
  rewrite zskipn_zskipn by lia. cbn [Z.add Pos.add Pos.succ].
  destruct (Z_lt_dec (zlen r) 3) as [S3|S3].
  { destruct (read_u_short 1 (zskipn 2 r)) as [e ->]; [rewrite zlen_zskipn; lia|]. cbn; eauto. }
  rewrite read_u_ok by (rewrite zlen_zskipn; lia). cbn [bind fst snd].
  rewrite zskipn_zskipn by lia. cbn [Z.add Pos.add Pos.succ].
  destruct (Z_lt_dec (zlen r) 4) as [S4|S4].
  { destruct (read_u_short 1 (zskipn 3 r)) as [e ->]; [rewrite zlen_zskipn; lia|]. cbn; eauto. }
  rewrite read_u_ok by (rewrite zlen_zskipn; lia). cbn [bind fst snd].
  rewrite zskipn_zskipn by lia. cbn [Z.add Pos.add Pos.succ].
  destruct (Z_lt_dec (zlen r) 8) as [S8|S8].
  { destruct (read_u_short 4 (zskipn 4 r)) as [e ->]; [rewrite zlen_zskipn; lia|]. cbn; eauto. }
  rewrite read_u_ok by (rewrite zlen_zskipn; lia). cbn [bind fst snd].
  rewrite zskipn_zskipn by lia. cbn [Z.add Pos.add Pos.succ].
  destruct (Z_lt_dec (zlen r) 16) as [S16|S16].
  { destruct (read_u_short 8 (zskipn 8 r)) as [e ->]; [rewrite zlen_zskipn; lia|]. cbn; eauto. }
  rewrite read_u_ok by (rewrite zlen_zskipn; lia). cbn [bind fst snd].
  rewrite zskipn_zskipn by lia. cbn [Z.add Pos.add Pos.succ].
  destruct (read_u_short 8 (zskipn 16 r)) as [e ->]; [rewrite zlen_zskipn; lia|]. cbn; eauto.
Qed.

Lemma safe_parse_bios_entry r : safe (parse_bios_entry r).
Proof.
  unfold parse_bios_entry.
  repeat (apply safe_bind; [apply safe_read_u|intros ? _]). exact I.
Qed.

(* ================================================================ *)
(* 4. tables (generic in the entry type)                             *)
(* ================================================================ *)

Lemma dec_records_length {E} w (dec : bytes -> E) n r : length (dec_records w dec n r) = n.
Proof. revert r; induction n as [|n IH]; intros r; cbn [dec_records length]; auto. Qed.

Lemma dec_records_zfirstn {E} w (dec : bytes -> E) n r : 0 <= w ->
  dec_records w dec n (zfirstn (Z.of_nat n * w) r) = dec_records w dec n r.
Proof.
  intros Hw. revert r; induction n as [|n IH]; intros r; cbn [dec_records]; auto.
  assert (0 <= Z.of_nat n * w) by nia.
  rewrite zfirstn_zfirstn by nia. f_equal.
  rewrite zskipn_zfirstn by nia.
  replace (Z.of_nat (S n) * w - w) with (Z.of_nat n * w) by nia. apply IH.
Qed.

Lemma dec_records_nth {E} w (dec : bytes -> E) n r i : 0 <= w -> (i < n)%nat ->
  nth_error (dec_records w dec n r) i = Some (dec (sub (Z.of_nat i * w) w r)).
Proof.
  intros Hw. revert r i; induction n as [|n IH]; intros r i Hi; [lia|].
  cbn [dec_records]. destruct i as [|i].
  - cbn [nth_error]. reflexivity.
  - cbn [nth_error]. rewrite IH by lia. f_equal. f_equal. unfold sub.
    rewrite zskipn_zskipn by nia. f_equal. f_equal. nia.
Qed.

Section Tables.
  Context {E : Type}.
  Variable pe : bytes -> outcome (E * Z * bytes).
  Variable w : Z.
  Variable dec : bytes -> E.
  Variable good : bytes -> Prop.   (* the buffers on which the entry parser is characterised *)
  Hypothesis Hw : 0 < w.
  Hypothesis good_skip : forall n r, good r -> good (zskipn n r).
  Hypothesis pe_ok : forall r, good r -> w <= zlen r -> pe r = Ok (dec (zfirstn w r), w, zskipn w r).
  Hypothesis pe_short : forall r, zlen r < w -> exists e, pe r = Err e.
  Hypothesis pe_safe : forall r, safe (pe r).

  Lemma parse_entries_ok n : forall r, good r -> Z.of_nat n * w <= zlen r ->
    parse_entries pe n r = Ok (dec_records w dec n r, Z.of_nat n * w).
  Proof.
    induction n as [|n IH]; intros r G L; [reflexivity|].
    cbn [parse_entries dec_records].
    rewrite pe_ok by (auto; nia). cbn [bind fst snd].
    rewrite IH; auto.
    - cbn [bind fst snd]. f_equal. f_equal. nia.
    - rewrite zlen_zskipn by nia. nia.
  Qed.

  Lemma parse_entries_short n : forall r, good r -> zlen r < Z.of_nat n * w ->
    exists e, parse_entries pe n r = Err e.
  Proof.
    induction n as [|n IH]; intros r G L.
    - pose proof (zlen_nonneg r). lia.
    - cbn [parse_entries]. destruct (Z_lt_dec (zlen r) w) as [S|S].
      + destruct (pe_short r S) as [e ->]. cbn; eauto.
      + rewrite pe_ok by (auto; lia). cbn [bind fst snd].
        destruct (IH (zskipn w r)) as [e ->]; auto.
        * rewrite zlen_zskipn by lia. nia.
        * cbn; eauto.
  Qed.

  Lemma safe_parse_entries n : forall r, safe (parse_entries pe n r).
  Proof.
    induction n as [|n IH]; intros r; cbn [parse_entries]; [exact I|].
    apply safe_bind; [apply pe_safe|]. intros x _.
    apply safe_bind; [apply IH|]. intros; exact I.
  Qed.

  Variables c1 c2 esz : Z.
  Hypothesis Hesz : 0 <= esz <= w.

  Definition table_shape (data : bytes) : Prop :=
    16 <= zlen data /\ (rd 0 4 data = c1 \/ rd 0 4 data = c2) /\
    rd 8 4 data * w <= zlen data - 16.

  Lemma header_reads data : 16 <= zlen data ->
    read_u 4 data = Ok (rd 0 4 data, zskipn 4 data) /\
    read_u 4 (zskipn 4 data) = Ok (rd 4 4 data, zskipn 8 data) /\
    read_u 4 (zskipn 8 data) = Ok (rd 8 4 data, zskipn 12 data) /\
    read_u 4 (zskipn 12 data) = Ok (rd 12 4 data, zskipn 16 data).
  Proof.
    intros L. repeat split.
    - rewrite read_u_ok by lia. reflexivity.
    - rewrite read_u_ok by (rewrite zlen_zskipn; lia). rewrite zskipn_zskipn by lia. reflexivity.
    - rewrite read_u_ok by (rewrite zlen_zskipn; lia). rewrite zskipn_zskipn by lia. reflexivity.
    - rewrite read_u_ok by (rewrite zlen_zskipn; lia). rewrite zskipn_zskipn by lia. reflexivity.
  Qed.

  Lemma parse_dir_table_intro data : good data -> bytes_ok data = true -> table_shape data ->
    parse_dir_table c1 c2 esz pe data =
      Ok (dir_table_of w dec data, 16 + rd 8 4 data * w).
  Proof.
    intros G OK (L & C & N). unfold parse_dir_table.
    destruct (header_reads data L) as (R0 & R1 & R2 & R3).
    rewrite R0. cbn [bind fst snd].
    replace (negb (rd 0 4 data =? c1) && negb (rd 0 4 data =? c2)) with false by lia.
    rewrite R1. cbn [bind fst snd]. rewrite R2. cbn [bind fst snd]. rewrite R3. cbn [bind fst snd].
    pose proof (rd_nonneg 8 4 data OK) as Hn.
    rewrite zlen_zskipn by lia.
    replace (zlen data - 16 <? rd 8 4 data * esz) with false by nia.
    rewrite parse_entries_ok; auto.
    - cbn [bind fst snd]. unfold dir_table_of. f_equal. f_equal.
      rewrite Z2Nat.id by lia. lia.
    - rewrite Z2Nat.id by lia. rewrite zlen_zskipn by lia. lia.
  Qed.

  Lemma parse_dir_table_inv data t len : good data -> bytes_ok data = true ->
    parse_dir_table c1 c2 esz pe data = Ok (t, len) ->
    table_shape data /\ t = dir_table_of w dec data /\ len = 16 + rd 8 4 data * w.
  Proof.
    intros G OK P. pose proof P as P0. unfold parse_dir_table in P.
    apply bind_ok in P as (x0 & R0 & P). apply read_u_inv in R0 as (L0 & _ & ->). cbn [fst snd] in P.
    destruct (negb (le_dec (zfirstn 4 data) =? c1) && negb (le_dec (zfirstn 4 data) =? c2)) eqn:C;
      [discriminate|].
    apply bind_ok in P as (x1 & R1 & P). apply read_u_inv in R1 as (L1 & _ & ->). cbn [fst snd] in P.
    apply bind_ok in P as (x2 & R2 & P). apply read_u_inv in R2 as (L2 & _ & ->). cbn [fst snd] in P.
    apply bind_ok in P as (x3 & R3 & P). apply read_u_inv in R3 as (L3 & _ & ->). cbn [fst snd] in P.
    rewrite zlen_zskipn in L1 by lia.
    repeat (rewrite zskipn_zskipn in L2 by lia; cbn [Z.add Pos.add Pos.succ] in L2).
    rewrite zlen_zskipn in L2 by lia.
    repeat (rewrite zskipn_zskipn in L3 by lia; cbn [Z.add Pos.add Pos.succ] in L3).
    rewrite zlen_zskipn in L3 by lia.
    repeat (rewrite zskipn_zskipn in P by lia; cbn [Z.add Pos.add Pos.succ] in P).
    assert (L : 16 <= zlen data) by lia.
    change (le_dec (zfirstn 4 (zskipn 8 data))) with (rd 8 4 data) in P.
    change (le_dec (zfirstn 4 data)) with (rd 0 4 data) in C.
    pose proof (rd_nonneg 8 4 data OK) as Hn.
    destruct (zlen (zskipn 16 data) <? rd 8 4 data * esz) eqn:C2; [discriminate|].
    rewrite zlen_zskipn in C2 by lia.
    assert (S : table_shape data).
    { split; [auto|]. split; [lia|].
      destruct (Z_le_dec (rd 8 4 data * w) (zlen data - 16)) as [Y|Nn]; auto. exfalso.
      destruct (parse_entries_short (Z.to_nat (rd 8 4 data)) (zskipn 16 data)) as [e Er]; auto.
      - rewrite Z2Nat.id by lia. rewrite zlen_zskipn by lia. lia.
      - rewrite Er in P. discriminate. }
    split; auto.
    rewrite (parse_dir_table_intro data G OK S) in P0. injection P0 as <- <-. auto.
  Qed.

  Lemma safe_parse_dir_table data : safe (parse_dir_table c1 c2 esz pe data).
  Proof.
    unfold parse_dir_table.
    apply safe_bind; [apply safe_read_u|intros x0 _].
    destruct (negb (fst x0 =? c1) && negb (fst x0 =? c2)); [exact I|].
    apply safe_bind; [apply safe_read_u|intros x1 _].
    apply safe_bind; [apply safe_read_u|intros x2 _].
    apply safe_bind; [apply safe_read_u|intros x3 _].
    destruct (zlen (snd x3) <? fst x2 * esz); [exact I|].
    apply safe_bind; [apply safe_parse_entries|intros; exact I].
  Qed.

  (* the count, the consumed length and every entry, read off the bytes *)
  Lemma parse_dir_table_count_len data t len : good data -> bytes_ok data = true ->
    parse_dir_table c1 c2 esz pe data = Ok (t, len) ->
    (dt_cookie t = c1 \/ dt_cookie t = c2) /\
    dt_cookie t = rd 0 4 data /\ dt_checksum t = rd 4 4 data /\
    dt_total t = rd 8 4 data /\ dt_extra t = rd 12 4 data /\
    zlen (dt_entries t) = dt_total t /\
    len = 16 + w * dt_total t /\ len <= zlen data /\
    forall i, (Z.of_nat i < dt_total t) ->
      nth_error (dt_entries t) i = Some (dec (sub (16 + Z.of_nat i * w) w data)).
  Proof.
    intros G OK P. apply parse_dir_table_inv in P as ((L & C & N) & -> & ->); auto.
    pose proof (rd_nonneg 8 4 data OK) as Hn.
    unfold dir_table_of; cbn [dt_cookie dt_checksum dt_total dt_extra dt_entries].
    repeat split; auto; try lia.
    - unfold zlen. rewrite dec_records_length. lia.
    - intros i Hi. rewrite dec_records_nth by lia. f_equal. f_equal. unfold sub.
      rewrite zskipn_zskipn by nia. f_equal. f_equal. lia.
  Qed.

  (* the reported length is all that matters: re-reading exactly that many bytes gives the same table *)
  Lemma parse_dir_table_reparse data t len :
    good data -> good (zfirstn len data) -> bytes_ok data = true ->
    parse_dir_table c1 c2 esz pe data = Ok (t, len) ->
    len <= zlen data /\ parse_dir_table c1 c2 esz pe (zfirstn len data) = Ok (t, len).
  Proof.
    intros G G' OK P. apply parse_dir_table_inv in P as ((L & C & N) & -> & ->); auto.
    pose proof (rd_nonneg 8 4 data OK) as Hn.
    set (n := rd 8 4 data) in *.
    assert (Hnw : 0 <= n * w) by nia.
    split; [lia|].
    assert (R : forall off, 0 <= off -> off + 4 <= 16 ->
               rd off 4 (zfirstn (16 + n * w) data) = rd off 4 data).
    { intros off H1 H2. apply rd_zfirstn; [lia|change (Z.of_nat 4) with 4; lia]. }
    rewrite parse_dir_table_intro; auto.
    - rewrite (R 8) by lia. fold n. f_equal. f_equal. unfold dir_table_of.
      rewrite (R 0), (R 4), (R 8), (R 12) by lia. fold n. f_equal.
      rewrite zskipn_zfirstn by lia. replace (16 + n * w - 16) with (Z.of_nat (Z.to_nat n) * w) by lia.
      apply dec_records_zfirstn. lia.
    - apply bytes_ok_firstn; auto.
    - unfold table_shape. rewrite zlen_zfirstn by lia. rewrite (R 0), (R 8) by lia. fold n.
      repeat split; auto; lia.
  Qed.
End Tables.

Definition any_bytes (b : bytes) : Prop := True.
Definition ok_bytes (b : bytes) : Prop := bytes_ok b = true.

Ltac psp_side :=
  try (unfold psp_entry_len, amd_psp_entry_size_const; lia);
  try (intros; exact I);
  try (intros r _ L; apply parse_psp_entry_ok; exact L);
  try (intros r L; apply parse_psp_entry_short; exact L);
  try (intros; apply safe_parse_psp_entry).

Ltac bios_side :=
  try (unfold bios_entry_len, amd_bios_entry_size_const; lia);
  try (intros n r G; apply bytes_ok_skipn; exact G);
  try (intros r G L; apply parse_bios_entry_ok; [exact G|exact L]);
  try (intros r L; apply parse_bios_entry_short; exact L);
  try (intros; apply safe_parse_bios_entry).

Lemma psp_table_inv data t len : bytes_ok data = true -> parse_psp_table data = Ok (t, len) ->
  table_shape psp_entry_len amd_psp_cookie amd_psp_l2_cookie data /\
  t = dir_table_of psp_entry_len dec_psp_entry data /\ len = 16 + rd 8 4 data * psp_entry_len.
Proof.
  intros OK P. unfold parse_psp_table in P.
  eapply (parse_dir_table_inv parse_psp_entry psp_entry_len dec_psp_entry any_bytes);
    try exact P; try exact OK; psp_side.
Qed.

Lemma psp_table_intro data : bytes_ok data = true ->
  table_shape psp_entry_len amd_psp_cookie amd_psp_l2_cookie data ->
  parse_psp_table data = Ok (dir_table_of psp_entry_len dec_psp_entry data, 16 + rd 8 4 data * psp_entry_len).
Proof.
  intros OK S. unfold parse_psp_table.
  eapply (parse_dir_table_intro parse_psp_entry psp_entry_len dec_psp_entry any_bytes);
    try exact S; try exact OK; psp_side.
Qed.

Lemma bios_table_inv data t len : bytes_ok data = true -> parse_bios_table data = Ok (t, len) ->
  table_shape bios_entry_len amd_bios_cookie amd_bios_l2_cookie data /\
  t = dir_table_of bios_entry_len dec_bios_entry data /\ len = 16 + rd 8 4 data * bios_entry_len.
Proof.
  intros OK P. unfold parse_bios_table in P.
  eapply (parse_dir_table_inv parse_bios_entry bios_entry_len dec_bios_entry ok_bytes);
    try exact P; try exact OK; bios_side.
Qed.

Lemma bios_table_intro data : bytes_ok data = true ->
  table_shape bios_entry_len amd_bios_cookie amd_bios_l2_cookie data ->
  parse_bios_table data = Ok (dir_table_of bios_entry_len dec_bios_entry data, 16 + rd 8 4 data * bios_entry_len).
Proof.
  intros OK S. unfold parse_bios_table.
  eapply (parse_dir_table_intro parse_bios_entry bios_entry_len dec_bios_entry ok_bytes);
    try exact S; try exact OK; bios_side.
Qed.

Lemma safe_parse_psp_table data : safe (parse_psp_table data).
Proof. apply safe_parse_dir_table. apply safe_parse_psp_entry. Qed.

Lemma safe_parse_bios_table data : safe (parse_bios_table data).
Proof. apply safe_parse_dir_table. apply safe_parse_bios_entry. Qed.

(* ---- the two instances ---- *)

Theorem psp_table_count_len data t len : bytes_ok data = true ->
  parse_psp_table data = Ok (t, len) ->
  (dt_cookie t = amd_psp_cookie \/ dt_cookie t = amd_psp_l2_cookie) /\
  dt_cookie t = rd 0 4 data /\ dt_checksum t = rd 4 4 data /\
  dt_total t = rd 8 4 data /\ dt_extra t = rd 12 4 data /\
  zlen (dt_entries t) = dt_total t /\
  len = 16 + psp_entry_len * dt_total t /\ len <= zlen data /\
  forall i, (Z.of_nat i < dt_total t) ->
    nth_error (dt_entries t) i = Some (dec_psp_entry (sub (16 + Z.of_nat i * psp_entry_len) psp_entry_len data)).
Proof.
  intros OK P. unfold parse_psp_table in P.
  eapply (parse_dir_table_count_len parse_psp_entry psp_entry_len dec_psp_entry any_bytes);
    try exact P; try exact OK; psp_side.
Qed.

Theorem bios_table_count_len data t len : bytes_ok data = true ->
  parse_bios_table data = Ok (t, len) ->
  (dt_cookie t = amd_bios_cookie \/ dt_cookie t = amd_bios_l2_cookie) /\
  dt_cookie t = rd 0 4 data /\ dt_checksum t = rd 4 4 data /\
  dt_total t = rd 8 4 data /\ dt_extra t = rd 12 4 data /\
  zlen (dt_entries t) = dt_total t /\
  len = 16 + bios_entry_len * dt_total t /\ len <= zlen data /\
  forall i, (Z.of_nat i < dt_total t) ->
    nth_error (dt_entries t) i = Some (dec_bios_entry (sub (16 + Z.of_nat i * bios_entry_len) bios_entry_len data)).
Proof.
  intros OK P. unfold parse_bios_table in P.
  eapply (parse_dir_table_count_len parse_bios_entry bios_entry_len dec_bios_entry ok_bytes);
    try exact P; try exact OK; bios_side.
Qed.

Theorem psp_table_reparse data t len : bytes_ok data = true ->
  parse_psp_table data = Ok (t, len) ->
  len <= zlen data /\ parse_psp_table (zfirstn len data) = Ok (t, len).
Proof.
  intros OK P. unfold parse_psp_table in *.
  eapply (parse_dir_table_reparse parse_psp_entry psp_entry_len dec_psp_entry any_bytes);
    try exact P; try exact OK; psp_side.
Qed.

Theorem bios_table_reparse data t len : bytes_ok data = true ->
  parse_bios_table data = Ok (t, len) ->
  len <= zlen data /\ parse_bios_table (zfirstn len data) = Ok (t, len).
Proof.
  intros OK P. unfold parse_bios_table in *.
  eapply (parse_dir_table_reparse parse_bios_entry bios_entry_len dec_bios_entry ok_bytes);
    try exact P; try exact OK; bios_side.
  unfold ok_bytes. apply bytes_ok_firstn; exact OK.
Qed.

(* a table of n entries laid out in a buffer parses (totality on well-formed input) *)
Theorem psp_table_parses data : bytes_ok data = true -> 16 <= zlen data ->
  (rd 0 4 data = amd_psp_cookie \/ rd 0 4 data = amd_psp_l2_cookie) ->
  16 + 16 * rd 8 4 data <= zlen data ->
  exists t, parse_psp_table data = Ok (t, 16 + 16 * rd 8 4 data) /\ dt_total t = rd 8 4 data.
Proof.
  intros OK L C N. eexists. split.
  - rewrite psp_table_intro; auto.
    + f_equal. f_equal. unfold psp_entry_len. lia.
    + unfold table_shape, psp_entry_len. repeat split; auto; lia.
  - reflexivity.
Qed.

Theorem bios_table_parses data : bytes_ok data = true -> 16 <= zlen data ->
  (rd 0 4 data = amd_bios_cookie \/ rd 0 4 data = amd_bios_l2_cookie) ->
  16 + 24 * rd 8 4 data <= zlen data ->
  exists t, parse_bios_table data = Ok (t, 16 + 24 * rd 8 4 data) /\ dt_total t = rd 8 4 data.
Proof.
  intros OK L C N. eexists. split.
  - rewrite bios_table_intro; auto.
    + f_equal. f_equal. unfold bios_entry_len. lia.
    + unfold table_shape, bios_entry_len. repeat split; auto; lia.
  - reflexivity.
Qed.

(* the length check of ParseBIOSDirectoryTable uses 16 bytes per entry although an entry has 24:
   between the two the parse ends in an error (never a short table, never a panic) *)
Theorem bios_table_truncated data : bytes_ok data = true -> 16 <= zlen data ->
  zlen data < 16 + 24 * rd 8 4 data -> exists e, parse_bios_table data = Err e.
Proof.
  intros OK L N. destruct (parse_bios_table data) as [[t len]|e|s|] eqn:P; eauto.
  - apply bios_table_inv in P as ((_ & _ & N') & _); auto. unfold bios_entry_len in N'. lia.
  - pose proof (safe_parse_bios_table data) as S. rewrite P in S. destruct S.
  - pose proof (safe_parse_bios_table data) as S. rewrite P in S. destruct S.
Qed.

(* ================================================================ *)
(* 5. the cookie scan                                                *)
(* ================================================================ *)

Lemma find_table_sound {T} (parse : bytes -> outcome (T * Z)) cookie fuel :
  forall image offset t off len,
  find_table parse cookie fuel image offset = Ok (t, off, len) ->
  offset <= off /\ off - offset <= zlen image /\
  prefixb cookie (zskipn (off - offset) image) = true /\
  parse (zskipn (off - offset) image) = Ok (t, len).
Proof.
  induction fuel as [|f IH]; intros image offset t off len H; [discriminate|].
  cbn [find_table] in H.
  destruct (find_sub cookie image) as [idx|] eqn:F; [|discriminate].
  pose proof (find_sub_some _ _ _ F) as (I0 & I1 & _).
  pose proof (find_sub_bound _ _ _ F) as I2.
  pose proof (zlen_nonneg cookie) as Hc.
  rewrite slice_ok in H by lia. cbn [of_opt bind] in H.
  rewrite zskipn_as_sub in H by lia.
  apply bind_ok in H as (r & C & H). apply catch_ok in C.
  destruct r as [[t' len']|].
  - injection H as <- <- <-. replace (offset + idx - offset) with idx by lia.
    repeat split; auto; lia.
  - rewrite slice_ok in H by lia. cbn [of_opt bind] in H.
    rewrite zskipn_as_sub in H by lia.
    apply IH in H as (H1 & H2 & H3 & H4).
    rewrite zskipn_zskipn in H3, H4 by lia.
    rewrite zlen_zskipn in H2 by lia.
    replace (off - (offset + (idx + zlen cookie)) + (idx + zlen cookie)) with (off - offset) in H3, H4 by lia.
    repeat split; auto; lia.
Qed.

(* the first occurrence of the cookie, when it parses, is the answer *)
Lemma find_table_first {T} (parse : bytes -> outcome (T * Z)) cookie f image offset idx t len :
  find_sub cookie image = Some idx -> parse (zskipn idx image) = Ok (t, len) ->
  find_table parse cookie (S f) image offset = Ok (t, offset + idx, len).
Proof.
  intros F P. cbn [find_table]. rewrite F.
  pose proof (find_sub_some _ _ _ F) as (I0 & _).
  pose proof (find_sub_bound _ _ _ F) as I2. pose proof (zlen_nonneg cookie).
  rewrite slice_ok by lia. cbn [of_opt bind]. rewrite zskipn_as_sub by lia. rewrite P. reflexivity.
Qed.

Lemma find_table_safe {T} (parse : bytes -> outcome (T * Z)) cookie :
  (forall b, safe (parse b)) -> 0 < zlen cookie ->
  forall fuel image offset, (length image < fuel)%nat -> safe (find_table parse cookie fuel image offset).
Proof.
  intros PS Hc. induction fuel as [|f IH]; intros image offset L; [lia|].
  cbn [find_table]. destruct (find_sub cookie image) as [idx|] eqn:F; [|exact I].
  pose proof (find_sub_some _ _ _ F) as (I0 & _).
  pose proof (find_sub_bound _ _ _ F) as I2.
  rewrite slice_ok by lia. cbn [of_opt bind].
  apply safe_bind; [apply safe_catch, PS|]. intros [[t len]|] _; [exact I|].
  rewrite slice_ok by lia. cbn [of_opt bind].
  apply IH. rewrite zskipn_as_sub by lia.
  unfold zskipn. rewrite skipn_length. unfold zlen in *. lia.
Qed.

(* ================================================================ *)
(* 6. embedded firmware structure                                    *)
(* ================================================================ *)

Lemma phys_to_off_reachable len addr : 0 <= len <= two32 -> 0 <= addr < two32 ->
  two32 - len <= addr -> phys_to_off len addr = addr - (two32 - len).
Proof.
  unfold phys_to_off, two32, two64. intros H1 H2 H3.
  rewrite (Z.mod_small (4294967296 - len)) by lia. apply Z.mod_small. lia.
Qed.

Lemma phys_to_off_unreachable len addr : 0 <= len <= two32 -> 0 <= addr < two32 ->
  addr < two32 - len -> phys_to_off len addr = two64 + addr - (two32 - len).
Proof.
  unfold phys_to_off, two32, two64. intros H1 H2 H3.
  rewrite (Z.mod_small (4294967296 - len)) by lia.
  replace (addr - (4294967296 - len)) with (18446744073709551616 + addr - (4294967296 - len) + (-1) * 18446744073709551616) by lia.
  rewrite Z.mod_add by lia. apply Z.mod_small. lia.
Qed.

Lemma phys_to_off_range len addr : 0 <= phys_to_off len addr < two64.
Proof. unfold phys_to_off. apply Z.mod_pos_bound. reflexivity. Qed.

Definition anchor_ok (a : Z) : Prop := 0 <= a /\ a + amd_efs_size <= two32.

Lemma efs_addresses_ok : Forall anchor_ok efs_addresses.
Proof. unfold efs_addresses, anchor_ok, amd_efs_size, two32. repeat constructor; lia. Qed.

(* what a probe at one anchor sees *)
Definition efs_at (image : bytes) (a : Z) : Prop :=
  two32 - zlen image <= a /\
  rd 0 4 (zskipn (a - (two32 - zlen image)) image) = amd_efs_signature.

Lemma efs_at_dec image a : {efs_at image a} + {~ efs_at image a}.
Proof.
  unfold efs_at. destruct (Z_le_dec (two32 - zlen image) a); [|right; tauto].
  destruct (Z.eq_dec (rd 0 4 (zskipn (a - (two32 - zlen image)) image)) amd_efs_signature);
    [left|right]; tauto.
Qed.

Lemma find_efs_step image a rest : zlen image <= two32 -> anchor_ok a ->
  find_efs_loop (phys_to_off (zlen image)) (a :: rest) image =
    if efs_at_dec image a then
      (let off := a - (two32 - zlen image) in
       if zlen image - off <? amd_efs_size
       then Err (if zlen image - off =? 0 then E_EOF else E_UEOF)
       else Ok (dec_efs (sub off amd_efs_size image), off, amd_efs_size))
    else find_efs_loop (phys_to_off (zlen image)) rest image.
Proof.
  intros L [A0 A1]. pose proof (zlen_nonneg image) as Hn. cbn [find_efs_loop].
  unfold amd_efs_size in *.
  destruct (Z_le_dec (two32 - zlen image) a) as [R|R].
  - rewrite phys_to_off_reachable by (unfold two32 in *; lia).
    set (off := a - (two32 - zlen image)).
    assert (O : 0 <= off /\ off + 74 <= zlen image) by (unfold off, two32 in *; lia).
    replace ((zlen image <? off) || (zlen image - off <? 4)) with false by lia.
    rewrite slice_ok by lia. cbn [of_opt bind]. rewrite zskipn_as_sub by lia.
    rewrite slice_ok by (try rewrite zlen_zskipn by lia; lia). cbn [of_opt bind].
    change (le_dec (sub 0 (4 - 0) (zskipn off image))) with (rd 0 4 (zskipn off image)).
    destruct (efs_at_dec image a) as [[_ E]|N].
    + fold off in E. rewrite E. rewrite Z.eqb_refl.
      replace (zlen image - off <? 74) with false by lia.
      unfold parse_efs, amd_efs_size. rewrite read_n_ok by (rewrite zlen_zskipn; lia).
      cbn [bind fst snd].
      change (zfirstn 74 (zskipn off image)) with (sub off 74 image).
      assert (S : efs_sig (dec_efs (sub off 74 image)) = amd_efs_signature).
      { unfold dec_efs; cbn [efs_sig]. rewrite <- E. unfold sub. apply rd_zfirstn; cbn; lia. }
      rewrite S, Z.eqb_refl. reflexivity.
    + destruct (rd 0 4 (zskipn off image) =? amd_efs_signature) eqn:E; [|reflexivity].
      exfalso. apply N. split; auto. fold off. lia.
  - rewrite phys_to_off_unreachable by (unfold two32 in *; lia).
    replace ((zlen image <? two64 + a - (two32 - zlen image)) || (zlen image - (two64 + a - (two32 - zlen image)) <? 4))
      with true by (unfold two32, two64 in *; lia).
    destruct (efs_at_dec image a) as [[R' _]|N]; [lia|reflexivity].
Qed.

(* the first anchor at which the signature is seen decides; an image always holds the whole
   74-byte structure there because every anchor is at least 74 bytes below 4 GiB *)
Theorem find_efs_loop_spec addrs image : zlen image <= two32 -> Forall anchor_ok addrs ->
  match find_efs_loop (phys_to_off (zlen image)) addrs image with
  | Ok (e, off, len) =>
      exists pre a post, addrs = pre ++ a :: post /\ efs_at image a /\
        (forall b, In b pre -> ~ efs_at image b) /\
        off = a - (two32 - zlen image) /\ 0 <= off /\ off + amd_efs_size <= zlen image /\
        len = amd_efs_size /\ e = dec_efs (sub off amd_efs_size image)
  | Err c => c = E_EFS_NOTFOUND /\ forall b, In b addrs -> ~ efs_at image b
  | Panic _ => False
  | Fuel => False
  end.
Proof.
  intros L. induction 1 as [|a rest Ha Hr IH].
  - cbn. split; auto.
  - rewrite find_efs_step by auto.
    destruct (efs_at_dec image a) as [Y|N].
    + cbv zeta. pose proof Y as [R _]. destruct Ha as [A0 A1].
      replace (zlen image - (a - (two32 - zlen image)) <? amd_efs_size) with false by lia.
      exists [], a, rest. split; [reflexivity|]. split; [exact Y|]. split; [intros b []|].
      unfold amd_efs_size in *. repeat split; lia.
    + destruct (find_efs_loop (phys_to_off (zlen image)) rest image) as [[[e off] len]|c|s|]; auto.
      * destruct IH as (pre & a' & post & -> & Y & Nb & IHr).
        exists (a :: pre), a', post. split; [reflexivity|]. split; auto. split; auto.
        intros b [<-|I]; auto.
      * destruct IH as [-> Nb]. split; auto. intros b [<-|I]; auto.
Qed.

Lemma safe_parse_efs r : safe (parse_efs r).
Proof.
  unfold parse_efs. apply safe_bind; [apply safe_read_n|]. intros x _.
  destruct (efs_sig (dec_efs (fst x)) =? amd_efs_signature); exact I.
Qed.

(* no image length makes the probe panic (this is what the offset+4 repair buys) *)
Lemma safe_find_efs_loop p2o addrs image : (forall a, 0 <= p2o a) ->
  safe (find_efs_loop p2o addrs image).
Proof.
  intros Hp. induction addrs as [|a rest IH]; [exact I|]. cbn [find_efs_loop].
  pose proof (Hp a) as O.
  set (off := p2o a) in *.
  destruct ((zlen image <? off) || (zlen image - off <? 4)) eqn:C; [exact IH|].
  rewrite slice_ok by lia. cbn [of_opt bind]. rewrite zskipn_as_sub by lia.
  rewrite slice_ok by (try rewrite zlen_zskipn by lia; lia). cbn [of_opt bind].
  destruct (_ =? amd_efs_signature); [|exact IH].
  apply safe_bind; [apply safe_parse_efs|]. intros; exact I.
Qed.

(* ================================================================ *)
(* 7. parsePSPFirmware: what is reported                             *)
(* ================================================================ *)

(* a reported directory: inside the image, exactly TotalEntries entries, length 16 + w*n,
   and the reported range re-read from the image decodes to the same table *)
Definition psp_located_ok (image : bytes) (x : located psp_table) : Prop :=
  let '(t, off, len) := x in
  0 <= off /\ off + len <= zlen image /\
  zlen (dt_entries t) = dt_total t /\ len = 16 + 16 * dt_total t /\
  parse_psp_table (sub off len image) = Ok (t, len).

Definition bios_located_ok (image : bytes) (x : located bios_table) : Prop :=
  let '(t, off, len) := x in
  0 <= off /\ off + len <= zlen image /\
  zlen (dt_entries t) = dt_total t /\ len = 16 + 24 * dt_total t /\
  parse_bios_table (sub off len image) = Ok (t, len).

Lemma psp_at_located image p t len : bytes_ok image = true -> 0 <= p <= zlen image ->
  parse_psp_table (zskipn p image) = Ok (t, len) -> psp_located_ok image (t, p, len).
Proof.
  intros OK Hp P. assert (OK' : bytes_ok (zskipn p image) = true) by (apply bytes_ok_skipn; auto).
  destruct (psp_table_reparse _ _ _ OK' P) as (L & R).
  destruct (psp_table_count_len _ _ _ OK' P) as (_ & _ & _ & _ & _ & N & E & _).
  rewrite zlen_zskipn in L by lia. unfold psp_entry_len in E.
  unfold psp_located_ok. repeat split; auto; lia.
Qed.

Lemma bios_at_located image p t len : bytes_ok image = true -> 0 <= p <= zlen image ->
  parse_bios_table (zskipn p image) = Ok (t, len) -> bios_located_ok image (t, p, len).
Proof.
  intros OK Hp P. assert (OK' : bytes_ok (zskipn p image) = true) by (apply bytes_ok_skipn; auto).
  destruct (bios_table_reparse _ _ _ OK' P) as (L & R).
  destruct (bios_table_count_len _ _ _ OK' P) as (_ & _ & _ & _ & _ & N & E & _).
  rewrite zlen_zskipn in L by lia. unfold bios_entry_len in E.
  unfold bios_located_ok. repeat split; auto; lia.
Qed.

Lemma table_at_inv {T} (parse : bytes -> outcome (T * Z)) site image p x :
  table_at parse site image p = Ok (Some x) ->
  0 <= p <= zlen image /\ exists t len, x = (t, p, len) /\ parse (zskipn p image) = Ok (t, len).
Proof.
  unfold table_at. intros H. apply bind_ok in H as (tail & S & H).
  destruct (slice p (zlen image) image) as [s|] eqn:Sl; [|discriminate].
  injection S as <-. apply slice_some in Sl as (B1 & B2 & ->).
  rewrite zskipn_as_sub in H by lia.
  apply bind_ok in H as (r & C & H). apply catch_ok in C.
  destruct r as [[t len]|]; [|discriminate]. injection H as <-.
  split; [lia|]. eauto.
Qed.

Lemma safe_table_at {T} (parse : bytes -> outcome (T * Z)) site image p :
  (forall b, safe (parse b)) -> 0 <= p <= zlen image -> safe (table_at parse site image p).
Proof.
  intros PS Hp. unfold table_at. rewrite slice_ok by lia. cbn [of_opt bind].
  apply safe_bind; [apply safe_catch, PS|]. intros; exact I.
Qed.

Lemma find_psp_located image x : bytes_ok image = true ->
  find_psp_table image = Ok x -> psp_located_ok image x.
Proof.
  intros OK H. destruct x as [[t off] len]. unfold find_psp_table in H.
  apply find_table_sound in H as (H1 & H2 & _ & H4). rewrite Z.sub_0_r in *.
  apply psp_at_located; auto.
Qed.

Lemma find_bios_located image x : bytes_ok image = true ->
  find_bios_table image = Ok x -> bios_located_ok image x.
Proof.
  intros OK H. destruct x as [[t off] len]. unfold find_bios_table in H.
  apply find_table_sound in H as (H1 & H2 & _ & H4). rewrite Z.sub_0_r in *.
  apply bios_at_located; auto.
Qed.

Lemma psp_level1_located image ptr x : bytes_ok image = true ->
  psp_level1 image ptr = Ok (Some x) -> psp_located_ok image x.
Proof.
  intros OK H. unfold psp_level1 in H. apply bind_ok in H as (d & D & H).
  destruct d as [y|].
  - injection H as <-.
    destruct (negb (ptr =? 0) && (ptr <? zlen image mod two32)); [|discriminate].
    apply table_at_inv in D as (Hp & t & len & -> & P). apply psp_at_located; auto.
  - apply catch_ok in H. apply find_psp_located; auto.
Qed.

Lemma psp_level2_located image t x : bytes_ok image = true ->
  psp_level2 image t = Ok (Some x) -> psp_located_ok image x.
Proof.
  intros OK H. unfold psp_level2 in H.
  destruct (find _ (dt_entries t)) as [e|]; [|discriminate].
  destruct (negb (pe_loc e =? 0) && (pe_loc e <? zlen image)); [|discriminate].
  apply table_at_inv in H as (Hp & t' & len & -> & P). apply psp_at_located; auto.
Qed.

Lemma bios_level1_ptrs_located ptrs image x : bytes_ok image = true ->
  bios_level1_ptrs ptrs image = Ok (Some x) -> bios_located_ok image x.
Proof.
  intros OK. induction ptrs as [|p rest IH]; intros H; [discriminate|].
  cbn [bios_level1_ptrs] in H.
  destruct ((p =? 0) || (zlen image <? p)); [auto|].
  apply bind_ok in H as (r & R & H). destruct r as [y|]; [|auto].
  injection H as <-. apply table_at_inv in R as (Hp & t & len & -> & P).
  apply bios_at_located; auto.
Qed.

Lemma bios_level1_located image e x : bytes_ok image = true ->
  bios_level1 image e = Ok (Some x) -> bios_located_ok image x.
Proof.
  intros OK H. unfold bios_level1 in H. apply bind_ok in H as (d & D & H).
  destruct d as [y|].
  - injection H as <-. eapply bios_level1_ptrs_located; eauto.
  - apply catch_ok in H. apply find_bios_located; auto.
Qed.

Lemma bios_level2_located image t x : bytes_ok image = true ->
  bios_level2 image t = Ok (Some x) -> bios_located_ok image x.
Proof.
  intros OK H. unfold bios_level2 in H.
  destruct (find _ (dt_entries t)) as [e|]; [|discriminate].
  destruct (negb (be_src e =? 0) && (be_src e <? zlen image)); [|discriminate].
  apply table_at_inv in H as (Hp & t' & len & -> & P). apply bios_at_located; auto.
Qed.

Theorem firmware_tables_located p2o image fw : bytes_ok image = true ->
  parse_firmware_with p2o image = Ok fw ->
  (forall x, fw_psp1 fw = Some x -> psp_located_ok image x) /\
  (forall x, fw_psp2 fw = Some x -> psp_located_ok image x) /\
  (forall x, fw_bios1 fw = Some x -> bios_located_ok image x) /\
  (forall x, fw_bios2 fw = Some x -> bios_located_ok image x).
Proof.
  intros OK H. unfold parse_firmware_with in H.
  apply bind_ok in H as (x & _ & H).
  apply bind_ok in H as (p1 & P1 & H).
  apply bind_ok in H as (p2 & P2 & H).
  apply bind_ok in H as (b1 & B1 & H).
  apply bind_ok in H as (b2 & B2 & H).
  injection H as <-. cbn [fw_psp1 fw_psp2 fw_bios1 fw_bios2].
  repeat split; intros y ->.
  - eapply psp_level1_located; eauto.
  - destruct p1 as [[[t ?] ?]|]; [|discriminate]. eapply psp_level2_located; eauto.
  - eapply bios_level1_located; eauto.
  - destruct b1 as [[[t ?] ?]|]; [|discriminate]. eapply bios_level2_located; eauto.
Qed.

Theorem firmware_efs_located image fw : zlen image <= two32 ->
  parse_firmware image = Ok fw ->
  exists pre a post, efs_addresses = pre ++ a :: post /\ efs_at image a /\
    (forall b, In b pre -> ~ efs_at image b) /\
    fw_efs_off fw = a - (two32 - zlen image) /\ 0 <= fw_efs_off fw /\
    fw_efs_off fw + amd_efs_size <= zlen image /\ fw_efs_len fw = amd_efs_size /\
    fw_efs fw = dec_efs (sub (fw_efs_off fw) amd_efs_size image).
Proof.
  intros L H. unfold parse_firmware, parse_firmware_with in H.
  apply bind_ok in H as (x & F & H).
  apply bind_ok in H as (p1 & _ & H). apply bind_ok in H as (p2 & _ & H).
  apply bind_ok in H as (b1 & _ & H). apply bind_ok in H as (b2 & _ & H).
  injection H as <-. cbn [fw_efs fw_efs_off fw_efs_len].
  unfold find_efs_with in F. pose proof (find_efs_loop_spec efs_addresses image L efs_addresses_ok) as S.
  rewrite F in S. destruct x as [[e off] len]. cbn [fst snd]. exact S.
Qed.

(* pointer-located level-1 PSP directory: a table that parses at the EFS pointer is the one reported *)
Theorem psp_level1_by_pointer image ptr t len : ptr <> 0 -> 0 <= ptr < zlen image -> zlen image < two32 ->
  parse_psp_table (zskipn ptr image) = Ok (t, len) ->
  psp_level1 image ptr = Ok (Some (t, ptr, len)).
Proof.
  intros N B L P. unfold psp_level1.
  rewrite Z.mod_small by lia.
  replace (negb (ptr =? 0) && (ptr <? zlen image)) with true by lia.
  unfold table_at. rewrite slice_ok by lia. cbn [of_opt bind]. rewrite zskipn_as_sub by lia.
  rewrite P. reflexivity.
Qed.

(* scan-located: without a usable pointer, the first "$PSP" whose table parses is reported *)
Theorem psp_level1_by_scan image ptr idx t len : (ptr = 0 \/ zlen image <= ptr) -> zlen image < two32 ->
  find_sub amd_psp_cookie_bytes image = Some idx ->
  parse_psp_table (zskipn idx image) = Ok (t, len) ->
  psp_level1 image ptr = Ok (Some (t, idx, len)).
Proof.
  intros N L F P. unfold psp_level1. pose proof (zlen_nonneg image).
  rewrite Z.mod_small by lia.
  replace (negb (ptr =? 0) && (ptr <? zlen image)) with false by lia.
  cbn [bind]. unfold find_psp_table. rewrite (find_table_first _ _ _ _ 0 idx t len) by auto.
  reflexivity.
Qed.

(* ---- totality of the whole discovery ---- *)

Lemma safe_find_psp_table image : safe (find_psp_table image).
Proof.
  apply find_table_safe; [apply safe_parse_psp_table|reflexivity|lia].
Qed.

Lemma safe_find_bios_table image : safe (find_bios_table image).
Proof.
  apply find_table_safe; [apply safe_parse_bios_table|reflexivity|lia].
Qed.

(* decoded fields are unsigned numbers of their width *)
Lemma rd_bound off w b : bytes_ok b = true -> 0 <= rd off w b < 256 ^ Z.of_nat w.
Proof.
  intros OK. unfold rd.
  pose proof (le_dec_bound (sub off (Z.of_nat w) b) (bytes_ok_sub _ _ _ OK)) as Hb.
  assert (zlen (sub off (Z.of_nat w) b) <= Z.of_nat w).
  { unfold sub, zfirstn, zlen. rewrite firstn_length. lia. }
  pose proof (zlen_nonneg (sub off (Z.of_nat w) b)).
  assert (256 ^ zlen (sub off (Z.of_nat w) b) <= 256 ^ Z.of_nat w) by (apply Z.pow_le_mono_r; lia).
  lia.
Qed.

Definition psp_entry_wf (e : psp_entry) : Prop :=
  0 <= pe_type e < 256 /\ 0 <= pe_size e < two32 /\ 0 <= pe_loc e < two64.
Definition bios_entry_wf (e : bios_entry) : Prop :=
  0 <= be_type e < 256 /\ 0 <= be_size e < two32 /\ 0 <= be_src e < two64.

Lemma dec_psp_entry_wf b : bytes_ok b = true -> psp_entry_wf (dec_psp_entry b).
Proof.
  intros OK. unfold psp_entry_wf, dec_psp_entry; cbn [pe_type pe_size pe_loc].
  pose proof (rd_bound 0 1 b OK). pose proof (rd_bound 4 4 b OK). pose proof (rd_bound 8 8 b OK).
  unfold two32, two64. cbn in *. lia.
Qed.

Lemma dec_bios_entry_wf b : bytes_ok b = true -> bios_entry_wf (dec_bios_entry b).
Proof.
  intros OK. unfold bios_entry_wf, dec_bios_entry; cbn [be_type be_size be_src].
  pose proof (rd_bound 0 1 b OK). pose proof (rd_bound 4 4 b OK). pose proof (rd_bound 8 8 b OK).
  unfold two32, two64. cbn in *. lia.
Qed.

Lemma dec_records_Forall {E} (P : E -> Prop) w (dec : bytes -> E) n :
  (forall b, bytes_ok b = true -> P (dec b)) ->
  forall r, bytes_ok r = true -> Forall P (dec_records w dec n r).
Proof.
  intros HP. induction n as [|n IH]; intros r OK; cbn [dec_records]; constructor.
  - apply HP. apply bytes_ok_firstn; auto.
  - apply IH. apply bytes_ok_skipn; auto.
Qed.

Lemma psp_table_entries_wf data t len : bytes_ok data = true ->
  parse_psp_table data = Ok (t, len) -> Forall psp_entry_wf (dt_entries t).
Proof.
  intros OK P. apply psp_table_inv in P as (_ & -> & _); auto.
  unfold dir_table_of; cbn [dt_entries]. apply dec_records_Forall.
  - apply dec_psp_entry_wf.
  - apply bytes_ok_skipn; auto.
Qed.

Lemma bios_table_entries_wf data t len : bytes_ok data = true ->
  parse_bios_table data = Ok (t, len) -> Forall bios_entry_wf (dt_entries t).
Proof.
  intros OK P. apply bios_table_inv in P as (_ & -> & _); auto.
  unfold dir_table_of; cbn [dt_entries]. apply dec_records_Forall.
  - apply dec_bios_entry_wf.
  - apply bytes_ok_skipn; auto.
Qed.

Lemma psp_located_wf image t off len : bytes_ok image = true ->
  psp_located_ok image (t, off, len) -> Forall psp_entry_wf (dt_entries t).
Proof.
  intros OK (_ & _ & _ & _ & P). eapply psp_table_entries_wf; [|exact P]. apply bytes_ok_sub; auto.
Qed.

Lemma bios_located_wf image t off len : bytes_ok image = true ->
  bios_located_ok image (t, off, len) -> Forall bios_entry_wf (dt_entries t).
Proof.
  intros OK (_ & _ & _ & _ & P). eapply bios_table_entries_wf; [|exact P]. apply bytes_ok_sub; auto.
Qed.

Lemma safe_psp_level1 image ptr : 0 <= ptr -> safe (psp_level1 image ptr).
Proof.
  intros Hp. unfold psp_level1. pose proof (zlen_nonneg image) as Hn.
  apply safe_bind.
  - destruct (negb (ptr =? 0) && (ptr <? zlen image mod two32)) eqn:C; [|exact I].
    apply safe_table_at; [apply safe_parse_psp_table|].
    pose proof (Z.mod_le (zlen image) two32 Hn ltac:(reflexivity)). lia.
  - intros [y|] _; [exact I|]. apply safe_catch, safe_find_psp_table.
Qed.

Lemma safe_psp_level2 image t : Forall psp_entry_wf (dt_entries t) -> safe (psp_level2 image t).
Proof.
  intros W. unfold psp_level2.
  destruct (find _ (dt_entries t)) as [e|] eqn:F; [|exact I].
  apply find_some in F as [Hin _]. rewrite Forall_forall in W. destruct (W e Hin) as (_ & _ & L).
  destruct (negb (pe_loc e =? 0) && (pe_loc e <? zlen image)) eqn:C; [|exact I].
  apply safe_table_at; [apply safe_parse_psp_table|lia].
Qed.

Lemma safe_bios_level1_ptrs ptrs image : Forall (fun p => 0 <= p) ptrs ->
  safe (bios_level1_ptrs ptrs image).
Proof.
  induction 1 as [|p rest Hp _ IH]; [exact I|]. cbn [bios_level1_ptrs].
  destruct ((p =? 0) || (zlen image <? p)) eqn:C; [exact IH|].
  apply safe_bind; [apply safe_table_at; [apply safe_parse_bios_table|lia]|].
  intros [y|] _; [exact I|exact IH].
Qed.

Lemma safe_bios_level2 image t : Forall bios_entry_wf (dt_entries t) -> safe (bios_level2 image t).
Proof.
  intros W. unfold bios_level2.
  destruct (find _ (dt_entries t)) as [e|] eqn:F; [|exact I].
  apply find_some in F as [Hin _]. rewrite Forall_forall in W. destruct (W e Hin) as (_ & _ & L).
  destruct (negb (be_src e =? 0) && (be_src e <? zlen image)) eqn:C; [|exact I].
  apply safe_table_at; [apply safe_parse_bios_table|lia].
Qed.

Lemma find_efs_loop_bytes p2o addrs image e off len : bytes_ok image = true ->
  find_efs_loop p2o addrs image = Ok (e, off, len) ->
  exists b, bytes_ok b = true /\ e = dec_efs b.
Proof.
  intros OK. induction addrs as [|a rest IH]; intros H; [discriminate|].
  cbn [find_efs_loop] in H.
  destruct ((zlen image <? p2o a) || (zlen image - p2o a <? 4));
    [auto|].
  apply bind_ok in H as (tail & S & H).
  destruct (slice _ _ image) as [s|] eqn:Sl; [|discriminate]. injection S as <-.
  apply slice_some in Sl as (_ & _ & ->).
  apply bind_ok in H as (sg & _ & H).
  destruct (le_dec sg =? amd_efs_signature); [|auto].
  apply bind_ok in H as (x & P & H). injection H as <- _ _.
  unfold parse_efs in P. apply bind_ok in P as (y & R & P).
  apply read_n_inv in R as (_ & _ & ->). cbn [fst] in P.
  destruct (efs_sig _ =? amd_efs_signature); [|discriminate]. injection P as <-. cbn [fst].
  eexists. split; [|reflexivity]. apply bytes_ok_firstn. apply bytes_ok_sub; auto.
Qed.

(* discovery never panics and the scan never runs out of the stated fuel *)
Theorem parse_firmware_with_total p2o image : (forall a, 0 <= p2o a) -> bytes_ok image = true ->
  safe (parse_firmware_with p2o image).
Proof.
  intros Hp OK. unfold parse_firmware_with.
  apply safe_bind; [apply safe_find_efs_loop; auto|]. intros [[e off] len] F. cbn [fst snd].
  destruct (find_efs_loop_bytes _ _ _ _ _ _ OK F) as (b & OKb & ->).
  apply safe_bind.
  { apply safe_psp_level1. unfold dec_efs; cbn [efs_psp]. apply rd_nonneg; auto. }
  intros p1 P1. apply safe_bind.
  { destruct p1 as [[[t o] l]|]; [|exact I]. apply safe_psp_level2.
    apply (psp_located_wf image t o l OK). apply (psp_level1_located image _ _ OK P1). }
  intros p2 _. apply safe_bind.
  { unfold bios_level1. apply safe_bind.
    - apply safe_bios_level1_ptrs. unfold dec_efs; cbn [efs_bios0 efs_bios1 efs_bios2 efs_bios3].
      repeat constructor; apply rd_nonneg; auto.
    - intros [y|] _; [exact I|]. apply safe_catch, safe_find_bios_table. }
  intros b1 B1. apply safe_bind.
  { destruct b1 as [[[t o] l]|]; [|exact I]. apply safe_bios_level2.
    apply (bios_located_wf image t o l OK). apply (bios_level1_located image _ _ OK B1). }
  intros; exact I.
Qed.

Theorem parse_firmware_total image : bytes_ok image = true -> safe (parse_firmware image).
Proof.
  intros OK. apply parse_firmware_with_total; auto. intros a. apply phys_to_off_range.
Qed.

(* every entry of every reported directory is made of unsigned fields *)
Definition fw_wf (fw : psp_fw) : Prop :=
  (forall t o l, fw_psp1 fw = Some (t, o, l) -> Forall psp_entry_wf (dt_entries t)) /\
  (forall t o l, fw_psp2 fw = Some (t, o, l) -> Forall psp_entry_wf (dt_entries t)) /\
  (forall t o l, fw_bios1 fw = Some (t, o, l) -> Forall bios_entry_wf (dt_entries t)) /\
  (forall t o l, fw_bios2 fw = Some (t, o, l) -> Forall bios_entry_wf (dt_entries t)).

Theorem parse_firmware_wf p2o image fw : bytes_ok image = true ->
  parse_firmware_with p2o image = Ok fw -> fw_wf fw.
Proof.
  intros OK H. destruct (firmware_tables_located p2o image fw OK H) as (A & B & C & D).
  repeat split; intros t o l E.
  - eapply psp_located_wf; eauto.
  - eapply psp_located_wf; eauto.
  - eapply bios_located_wf; eauto.
  - eapply bios_located_wf; eauto.
Qed.

(* ================================================================ *)
(* 8. entry lookup, extraction, patching                             *)
(* ================================================================ *)

Lemma get_psp_entry_inv fw level id e : get_psp_entry fw level id = Ok e ->
  exists t, get_psp_table fw level = Ok (Some t) /\
    filter (fun x => pe_type x =? id) (dt_entries t) = [e] /\
    In e (dt_entries t) /\ pe_type e = id.
Proof.
  unfold get_psp_entry, get_psp_entries. intros H.
  apply bind_ok in H as (es & G & H). apply bind_ok in G as (ot & T & G).
  destruct ot as [t|]; [|discriminate]. injection G as <-.
  destruct (filter _ (dt_entries t)) as [|e0 [|e1 r]] eqn:F; try discriminate.
  injection H as <-. exists t. split; auto. split; auto.
  assert (I : In e0 (filter (fun x => pe_type x =? id) (dt_entries t))) by (rewrite F; left; reflexivity).
  apply filter_In in I as [I1 I2]. split; auto. lia.
Qed.

Lemma get_bios_entry_inv fw level id inst e : get_bios_entry fw level id inst = Ok e ->
  exists t, get_bios_table fw level = Ok (Some t) /\
    filter (fun x => be_instance x =? inst) (filter (fun x => be_type x =? id) (dt_entries t)) = [e] /\
    In e (dt_entries t) /\ be_type e = id /\ be_instance e = inst.
Proof.
  unfold get_bios_entry. intros H.
  apply bind_ok in H as (ot & T & H).
  destruct ot as [t|]; [|discriminate].
  destruct (filter _ (filter _ (dt_entries t))) as [|e0 [|e1 r]] eqn:F; try discriminate.
  injection H as <-. exists t. split; auto. split; auto.
  assert (I : In e0 (filter (fun x => be_instance x =? inst) (filter (fun x => be_type x =? id) (dt_entries t))))
    by (rewrite F; left; reflexivity).
  apply filter_In in I as [I1 I2]. apply filter_In in I1 as [I1 I3]. repeat split; auto; lia.
Qed.

Lemma get_psp_entry_wf fw level id e : fw_wf fw -> get_psp_entry fw level id = Ok e -> psp_entry_wf e.
Proof.
  intros (W1 & W2 & _) H. apply get_psp_entry_inv in H as (t & T & _ & I & _).
  unfold get_psp_table in T.
  destruct (level =? 1).
  - injection T as T. destruct (fw_psp1 fw) as [[[t' o] l]|] eqn:E; [|discriminate].
    injection T as ->. specialize (W1 _ _ _ eq_refl). rewrite Forall_forall in W1. auto.
  - destruct (level =? 2); [|discriminate].
    injection T as T. destruct (fw_psp2 fw) as [[[t' o] l]|] eqn:E; [|discriminate].
    injection T as ->. specialize (W2 _ _ _ eq_refl). rewrite Forall_forall in W2. auto.
Qed.

Lemma get_bios_entry_wf fw level id inst e : fw_wf fw ->
  get_bios_entry fw level id inst = Ok e -> bios_entry_wf e.
Proof.
  intros (_ & _ & W1 & W2) H. apply get_bios_entry_inv in H as (t & T & _ & I & _).
  unfold get_bios_table in T.
  destruct (level =? 1).
  - injection T as T. destruct (fw_bios1 fw) as [[[t' o] l]|] eqn:E; [|discriminate].
    injection T as ->. specialize (W1 _ _ _ eq_refl). rewrite Forall_forall in W1. auto.
  - destruct (level =? 2); [|discriminate].
    injection T as T. destruct (fw_bios2 fw) as [[[t' o] l]|] eqn:E; [|discriminate].
    injection T as ->. specialize (W2 _ _ _ eq_refl). rewrite Forall_forall in W2. auto.
Qed.

Lemma add_mod64_nowrap start size : 0 <= start < two64 -> 0 <= size < two32 ->
  start <= (start + size) mod two64 -> (start + size) mod two64 = start + size.
Proof.
  intros Hs Hl Hle. destruct (Z_lt_dec (start + size) two64) as [Y|N]; [apply Z.mod_small; lia|].
  exfalso. assert (E : (start + size) mod two64 = start + size - two64).
  { symmetry. apply (Z.mod_unique _ _ 1); unfold two64, two32 in *; lia. }
  unfold two64, two32 in *. lia.
Qed.

(* GetRangeBytes *)
Lemma get_range_bytes_exact image start length bs :
  0 <= start < two64 -> 0 <= length < two32 ->
  get_range_bytes image start length = Ok bs ->
  start + length <= zlen image /\ bs = sub start length image.
Proof.
  intros Hs Hl. unfold get_range_bytes, check_boundaries.
  set (e := (start + length) mod two64).
  destruct (negb (zlen image <? start) && negb (zlen image <? e) && negb (e <? start)) eqn:C;
    [|discriminate].
  assert (E : e = start + length) by (unfold e; apply add_mod64_nowrap; auto; fold e; lia).
  rewrite E in *. rewrite slice_ok by lia. cbn [of_opt]. intros [= <-].
  split; [lia|]. f_equal. lia.
Qed.

Lemma get_range_bytes_total image start length :
  0 <= start -> 0 <= length -> start + length <= zlen image -> zlen image < two64 ->
  get_range_bytes image start length = Ok (sub start length image).
Proof.
  intros Hs Hl Hf Hi. unfold get_range_bytes, check_boundaries.
  rewrite Z.mod_small by lia.
  replace (negb (zlen image <? start) && negb (zlen image <? start + length) && negb (start + length <? start))
    with true by lia.
  rewrite slice_ok by lia. cbn [of_opt]. f_equal. f_equal. lia.
Qed.

Lemma safe_get_range_bytes image start length : 0 <= start -> safe (get_range_bytes image start length).
Proof.
  intros Hs. unfold get_range_bytes, check_boundaries.
  destruct (negb (zlen image <? start) && negb (zlen image <? (start + length) mod two64) &&
            negb ((start + length) mod two64 <? start)) eqn:C; [|exact I].
  rewrite slice_ok by lia. exact I.
Qed.

Theorem extract_psp_exact fw image level id bs : fw_wf fw ->
  extract_psp_entry fw image level id = Ok bs ->
  exists e, get_psp_entry fw level id = Ok e /\ pe_type e = id /\
    pe_loc e + pe_size e <= zlen image /\ bs = sub (pe_loc e) (pe_size e) image.
Proof.
  intros W H. unfold extract_psp_entry in H. apply bind_ok in H as (e & G & H).
  destruct (get_psp_entry_wf _ _ _ _ W G) as (_ & Hs & Hl).
  apply get_range_bytes_exact in H as (B & ->); auto.
  exists e. repeat split; auto. apply get_psp_entry_inv in G as (t & _ & _ & _ & T). exact T.
Qed.

Theorem extract_bios_exact fw image level id inst bs : fw_wf fw ->
  extract_bios_entry fw image level id inst = Ok bs ->
  exists e, get_bios_entry fw level id inst = Ok e /\ be_type e = id /\ be_instance e = inst /\
    be_src e + be_size e <= zlen image /\ bs = sub (be_src e) (be_size e) image.
Proof.
  intros W H. unfold extract_bios_entry in H. apply bind_ok in H as (e & G & H).
  destruct (get_bios_entry_wf _ _ _ _ _ W G) as (_ & Hs & Hl).
  apply get_range_bytes_exact in H as (B & ->); auto.
  exists e. apply get_bios_entry_inv in G as G'. destruct G' as (t & _ & _ & _ & T1 & T2).
  repeat split; auto.
Qed.

(* an entry that lies inside the image is always extracted *)
Theorem extract_psp_total fw image level id e : zlen image < two64 -> fw_wf fw ->
  get_psp_entry fw level id = Ok e -> pe_loc e + pe_size e <= zlen image ->
  extract_psp_entry fw image level id = Ok (sub (pe_loc e) (pe_size e) image).
Proof.
  intros Hi W G B. unfold extract_psp_entry. rewrite G. cbn [bind].
  destruct (get_psp_entry_wf _ _ _ _ W G) as (_ & Hs & Hl).
  apply get_range_bytes_total; lia.
Qed.

(* patchEntry *)
Lemma patch_range_confined image start size d img' :
  0 <= start < two64 -> 0 <= size < two32 ->
  patch_range image start ((start + size) mod two64) d = Ok img' ->
  zlen d = size /\ start + size <= zlen image /\
  img' = splice start d image /\ zlen img' = zlen image /\ sub start size img' = d /\
  forall k, (Z.of_nat k < start \/ start + size <= Z.of_nat k) -> nth_error img' k = nth_error image k.
Proof.
  intros Hs Hl. unfold patch_range, check_boundaries.
  set (e := (start + size) mod two64).
  destruct (negb (zlen image <? start) && negb (zlen image <? e) && negb (e <? start)) eqn:C;
    cbn [negb]; [|discriminate].
  assert (E : e = start + size) by (unfold e; apply add_mod64_nowrap; auto; fold e; lia).
  rewrite E in *.
  replace (start + size - start) with size by lia.
  rewrite (Z.mod_small size) by (unfold two64, two32 in *; lia).
  destruct (size =? zlen d) eqn:Sz; cbn [negb]; [|discriminate].
  rewrite !slice_ok by lia. cbn [of_opt bind]. intros [= <-].
  assert (Ed : zlen d = size) by lia.
  rewrite zskipn_as_sub by lia.
  replace (sub 0 (start - 0) image) with (zfirstn start image)
    by (unfold sub; rewrite zskipn_0; f_equal; lia).
  assert (Sp : zfirstn start image ++ d ++ zskipn (start + size) image = splice start d image).
  { unfold splice. rewrite Ed. reflexivity. }
  rewrite Sp. split; auto. split; [lia|]. split; auto.
  split; [apply zlen_splice; lia|]. split.
  - rewrite <- Ed. apply sub_splice; lia.
  - intros k [Hk|Hk]; [apply nth_error_splice_lo|apply nth_error_splice_hi]; lia.
Qed.

Lemma patch_range_refuses image start size d :
  0 <= start < two64 -> 0 <= size < two32 -> zlen d <> size ->
  exists c, patch_range image start ((start + size) mod two64) d = Err c.
Proof.
  intros Hs Hl Hd.
  destruct (patch_range image start ((start + size) mod two64) d) as [img'|c|s|] eqn:P; eauto.
  - apply patch_range_confined in P as (E & _); auto. lia.
  - exfalso. unfold patch_range in P.
    destruct (negb (check_boundaries start ((start + size) mod two64) (zlen image))) eqn:C; [discriminate|].
    destruct (negb (_ =? zlen d)); [discriminate|].
    unfold check_boundaries in C. rewrite !slice_ok in P by lia. discriminate.
  - exfalso. unfold patch_range in P.
    destruct (negb (check_boundaries start ((start + size) mod two64) (zlen image))) eqn:C; [discriminate|].
    destruct (negb (_ =? zlen d)); [discriminate|].
    unfold check_boundaries in C. rewrite !slice_ok in P by lia. discriminate.
Qed.

Theorem patch_psp_confined fw image level id d img' : fw_wf fw ->
  patch_psp_entry fw image level id d = Ok img' ->
  exists e, get_psp_entry fw level id = Ok e /\
    zlen d = pe_size e /\ pe_loc e + pe_size e <= zlen image /\
    img' = splice (pe_loc e) d image /\ zlen img' = zlen image /\
    sub (pe_loc e) (pe_size e) img' = d /\
    forall k, (Z.of_nat k < pe_loc e \/ pe_loc e + pe_size e <= Z.of_nat k) ->
      nth_error img' k = nth_error image k.
Proof.
  intros W H. unfold patch_psp_entry in H. apply bind_ok in H as (e & G & H).
  destruct (get_psp_entry_wf _ _ _ _ W G) as (_ & Hs & Hl).
  exists e. split; auto. apply patch_range_confined; auto.
Qed.

Theorem patch_bios_confined fw image level id inst d img' : fw_wf fw ->
  patch_bios_entry fw image level id inst d = Ok img' ->
  exists e, get_bios_entry fw level id inst = Ok e /\
    zlen d = be_size e /\ be_src e + be_size e <= zlen image /\
    img' = splice (be_src e) d image /\ zlen img' = zlen image /\
    sub (be_src e) (be_size e) img' = d /\
    forall k, (Z.of_nat k < be_src e \/ be_src e + be_size e <= Z.of_nat k) ->
      nth_error img' k = nth_error image k.
Proof.
  intros W H. unfold patch_bios_entry in H. apply bind_ok in H as (e & G & H).
  destruct (get_bios_entry_wf _ _ _ _ _ W G) as (_ & Hs & Hl).
  exists e. split; auto. apply patch_range_confined; auto.
Qed.

Theorem patch_psp_refuses_size_mismatch fw image level id d e : fw_wf fw ->
  get_psp_entry fw level id = Ok e -> zlen d <> pe_size e ->
  exists c, patch_psp_entry fw image level id d = Err c.
Proof.
  intros W G Hd. unfold patch_psp_entry. rewrite G. cbn [bind].
  destruct (get_psp_entry_wf _ _ _ _ W G) as (_ & Hs & Hl).
  apply patch_range_refuses; auto.
Qed.

Theorem patch_bios_refuses_size_mismatch fw image level id inst d e : fw_wf fw ->
  get_bios_entry fw level id inst = Ok e -> zlen d <> be_size e ->
  exists c, patch_bios_entry fw image level id inst d = Err c.
Proof.
  intros W G Hd. unfold patch_bios_entry. rewrite G. cbn [bind].
  destruct (get_bios_entry_wf _ _ _ _ _ W G) as (_ & Hs & Hl).
  apply patch_range_refuses; auto.
Qed.

(* ================================================================ *)
(* 9. key attributes                                                 *)
(* ================================================================ *)

Definition key_bits_check (b : Z) : bool :=
  (Z.land b 7 =? bits 0 3 b) && (Z.shiftr b 4 =? bits 4 4 b) &&
  Bool.eqb (Z.land b 1 =? 1) (bits 0 1 b =? 1) &&
  Bool.eqb (Z.land (Z.shiftr b 1) 1 =? 1) (bits 1 1 b =? 1) &&
  Bool.eqb (Z.land (Z.shiftr b 2) 1 =? 1) (bits 2 1 b =? 1).

Lemma key_bits_all : forallb key_bits_check byte_values = true.
Proof. vm_compute. reflexivity. Qed.

Lemma key_bits_spec b : 0 <= b < 256 ->
  Z.land b 7 = bits 0 3 b /\ Z.shiftr b 4 = bits 4 4 b /\
  (Z.land b 1 =? 1) = (bits 0 1 b =? 1) /\
  (Z.land (Z.shiftr b 1) 1 =? 1) = (bits 1 1 b =? 1) /\
  (Z.land (Z.shiftr b 2) 1 =? 1) = (bits 2 1 b =? 1).
Proof.
  intros H. pose proof (proj1 (forallb_forall _ _) key_bits_all b (byte_values_all b H)) as C.
  unfold key_bits_check in C. repeat (apply andb_true_iff in C as [C ?]).
  repeat split; try (apply Bool.eqb_prop; assumption); lia.
Qed.

Theorem key_attr_bits reserved :
  0 <= res_byte reserved 1 < 256 -> 0 <= res_byte reserved 3 < 256 ->
  parse_platform_binding reserved =
    mkBinding (res_byte reserved 0) (bits 0 3 (res_byte reserved 1)) (bits 4 4 (res_byte reserved 1)) /\
  parse_security_features reserved =
    mkFeatures (bits 0 1 (res_byte reserved 3) =? 1) (bits 1 1 (res_byte reserved 3) =? 1)
               (bits 2 1 (res_byte reserved 3) =? 1).
Proof.
  intros H1 H3. unfold parse_platform_binding, parse_security_features. cbv zeta.
  destruct (key_bits_spec _ H1) as (-> & -> & _).
  destruct (key_bits_spec _ H3) as (_ & _ & -> & -> & ->). split; reflexivity.
Qed.

Lemma res_byte_ok reserved i : bytes_ok reserved = true -> 0 <= res_byte reserved i < 256.
Proof.
  intros OK. unfold res_byte. revert i; induction reserved as [|x r IH]; intros [|i]; cbn [nth]; try lia.
  - rewrite bytes_ok_cons in OK. apply andb_true_iff in OK as [Hx _]. apply byte_ok_iff in Hx. lia.
  - rewrite bytes_ok_cons in OK. apply andb_true_iff in OK as [_ Hr]. auto.
Qed.

(* NewRootKey: where each field of the key comes from *)
Theorem new_root_key_fields blob k : bytes_ok blob = true -> new_root_key blob = Ok k ->
  64 <= zlen blob /\
  k_version k = rd 0 4 blob /\ k_id k = sub 4 16 blob /\ k_cert k = sub 20 16 blob /\
  k_usage k = rd 36 4 blob /\ k_reserved k = sub 40 16 blob /\
  k_expsize k = rd 56 4 blob /\ k_modsize k = rd 60 4 blob /\ k_id k = k_cert k.
Proof.
  intros OK H. unfold new_root_key in H.
  assert (INV : forall A (o : outcome A) a, inval o = Ok a -> o = Ok a).
  { intros A o a. destruct o; cbn; congruence. }
  apply bind_ok in H as (v & R0 & H). apply INV, read_u_inv in R0 as (L0 & _ & ->). cbn [fst snd] in H.
  apply bind_ok in H as (id & R1 & H). apply INV, read_n_inv in R1 as (L1 & _ & ->). cbn [fst snd] in H.
  apply bind_ok in H as (ce & R2 & H). apply INV, read_n_inv in R2 as (L2 & _ & ->). cbn [fst snd] in H.
  apply bind_ok in H as (us & R3 & H). apply INV, read_u_inv in R3 as (L3 & _ & ->). cbn [fst snd] in H.
  apply bind_ok in H as (re & R4 & H). apply INV, read_n_inv in R4 as (L4 & _ & ->). cbn [fst snd] in H.
  apply bind_ok in H as (es & R5 & H). apply INV, read_u_inv in R5 as (L5 & _ & ->). cbn [fst snd] in H.
  apply bind_ok in H as (ms & R6 & H). apply INV, read_u_inv in R6 as (L6 & _ & ->). cbn [fst snd] in H.
  destruct (negb (_ mod 8 =? 0)); [discriminate|].
  apply bind_ok in H as (ex & _ & H).
  destruct (negb (_ mod 8 =? 0)); [discriminate|].
  apply bind_ok in H as (mo & _ & H).
  destruct (negb (bytes_eqb _ _)) eqn:Eq; [discriminate|].
  injection H as <-. cbn [k_version k_id k_cert k_usage k_reserved k_expsize k_modsize].
  apply negb_false_iff, bytes_eqb_eq in Eq.
  pose proof (zlen_nonneg blob).
  rewrite zlen_zskipn in L1 by lia.
  repeat (rewrite zskipn_zskipn in L2 by lia; cbn [Z.add Pos.add Pos.succ] in L2). rewrite zlen_zskipn in L2 by lia.
  repeat (rewrite zskipn_zskipn in L3 by lia; cbn [Z.add Pos.add Pos.succ] in L3). rewrite zlen_zskipn in L3 by lia.
  repeat (rewrite zskipn_zskipn in L4 by lia; cbn [Z.add Pos.add Pos.succ] in L4). rewrite zlen_zskipn in L4 by lia.
  repeat (rewrite zskipn_zskipn in L5 by lia; cbn [Z.add Pos.add Pos.succ] in L5). rewrite zlen_zskipn in L5 by lia.
  repeat (rewrite zskipn_zskipn in L6 by lia; cbn [Z.add Pos.add Pos.succ] in L6). rewrite zlen_zskipn in L6 by lia.
  repeat (rewrite zskipn_zskipn in Eq by lia; cbn [Z.add Pos.add Pos.succ] in Eq).
  repeat (rewrite zskipn_zskipn by lia; cbn [Z.add Pos.add Pos.succ]).
  split; [lia|]. repeat split; auto.
Qed.

Theorem key_attributes_of_blob blob k : bytes_ok blob = true -> new_root_key blob = Ok k ->
  let reserved := sub 40 16 blob in
  get_platform_binding k =
    (if rd 36 4 blob =? amd_psb_sign_bios
     then Ok (mkBinding (res_byte reserved 0) (bits 0 3 (res_byte reserved 1)) (bits 4 4 (res_byte reserved 1)))
     else Err E_USAGE) /\
  get_security_features k =
    (if rd 36 4 blob =? amd_psb_sign_bios
     then Ok (mkFeatures (bits 0 1 (res_byte reserved 3) =? 1) (bits 1 1 (res_byte reserved 3) =? 1)
                         (bits 2 1 (res_byte reserved 3) =? 1))
     else Err E_USAGE).
Proof.
  intros OK H. cbv zeta.
  destruct (new_root_key_fields blob k OK H) as (_ & _ & _ & _ & U & R & _).
  unfold get_platform_binding, get_security_features. rewrite U, R.
  assert (OKr : bytes_ok (sub 40 16 blob) = true) by (apply bytes_ok_sub; auto).
  destruct (key_attr_bits (sub 40 16 blob) (res_byte_ok _ 1%nat OKr) (res_byte_ok _ 3%nat OKr)) as [-> ->].
  destruct (rd 36 4 blob =? amd_psb_sign_bios); cbn [negb]; split; reflexivity.
Qed.
