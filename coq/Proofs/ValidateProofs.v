(* Proofs/ValidateProofs.v — lemmas for property C09 (validate: no false alarm, no miss).
   Part A: checksum library (sum8 / sum16).   Part B: single-byte changes of a buffer.
   Part C: inversion and totality of the validate model.   Part D: volume header.
   Part E: files (local, then inside a volume).   Part F: no false alarm for assembler output.
   Part G: witnesses (side condition, pinned body-checksum check). *)
From Coq Require Import ZifyBool ZifyNat.
From Fiano Require Import Base.Bytes Base.BytesLemmas Gen.Consts Model.Ffs Model.Validate.
Open Scope Z_scope.

(* ================= Part A: checksums ================= *)

Lemma sum_list_app a b : sum_list (a ++ b) = sum_list a + sum_list b.
Proof. induction a as [|x a IH]; simpl; [reflexivity|]. rewrite IH. lia. Qed.

Lemma mod_eq_diff m a b : 0 < m -> a mod m = b mod m -> exists c, a - b = m * c.
Proof.
  intros Hm H. exists (a / m - b / m).
  rewrite (Z.div_mod a m) at 1 by lia. rewrite (Z.div_mod b m) at 1 by lia. rewrite H. lia.
Qed.

Lemma mod_ne_of_small_diff m a b : 0 < m -> a <> b -> - m < a - b < m -> a mod m <> b mod m.
Proof.
  intros Hm Hne Hd H. destruct (mod_eq_diff m a b Hm H) as [c Hc].
  assert (c = 0) by nia. subst c. lia.
Qed.

Lemma sum8_app a b : sum8 (a ++ b) = (sum8 a + sum8 b) mod 256.
Proof. unfold sum8. rewrite sum_list_app. rewrite <- Z.add_mod by lia. reflexivity. Qed.

Lemma sum8_range b : 0 <= sum8 b < 256.
Proof. unfold sum8. apply Z.mod_pos_bound. lia. Qed.

(* changing exactly one byte of a buffer changes its 8-bit sum *)
Lemma sum8_single_change p x y s : 0 <= x < 256 -> 0 <= y < 256 -> x <> y ->
  sum8 (p ++ x :: s) <> sum8 (p ++ y :: s).
Proof.
  intros Hx Hy Hne. unfold sum8. rewrite !sum_list_app. cbn [sum_list fold_right].
  apply mod_ne_of_small_diff; lia.
Qed.

Lemma sum8_single_change_zero p x y s : 0 <= x < 256 -> 0 <= y < 256 -> x <> y ->
  sum8 (p ++ x :: s) = 0 -> sum8 (p ++ y :: s) <> 0.
Proof. intros Hx Hy Hne H0 H1. apply (sum8_single_change p x y s Hx Hy Hne). congruence. Qed.

Lemma words16_app_even n : forall p r, length p = (2 * n)%nat ->
  words16 (p ++ r) = words16 p ++ words16 r.
Proof.
  induction n as [|n IH]; intros p r Hl.
  - destruct p; [reflexivity|discriminate].
  - destruct p as [|a [|b p]]; try (simpl in Hl; lia).
    cbn [app words16]. f_equal. apply IH. simpl in Hl. lia.
Qed.

Lemma even_length_half (p : bytes) : Z.even (zlen p) = true -> exists n, length p = (2 * n)%nat.
Proof.
  unfold zlen. intros H. rewrite Z.even_spec in H. destruct H as [k Hk].
  exists (Z.to_nat k). lia.
Qed.

Lemma odd_length_split (p : bytes) : Z.even (zlen p) = false ->
  exists p' lo, p = p' ++ [lo] /\ Z.even (zlen p') = true.
Proof.
  intros H. induction p as [|a p _] using rev_ind; [discriminate|].
  exists p, a. split; [reflexivity|].
  rewrite zlen_app in H. change (zlen [a]) with 1 in H.
  rewrite Z.even_add in H. simpl in H. destruct (Z.even (zlen p)); [reflexivity|discriminate].
Qed.

(* changing exactly one byte of an even-length buffer changes its 16-bit sum *)
Lemma sum16_single_change p x y s : Z.even (zlen (p ++ x :: s)) = true ->
  0 <= x < 256 -> 0 <= y < 256 -> x <> y ->
  sum16 (p ++ x :: s) <> sum16 (p ++ y :: s).
Proof.
  intros Hev Hx Hy Hne. unfold sum16.
  destruct (Z.even (zlen p)) eqn:Ep.
  - destruct (even_length_half p Ep) as [n Hn].
    rewrite zlen_app, zlen_cons, Z.even_add, Ep in Hev.
    destruct s as [|hi s].
    + exfalso. rewrite zlen_nil in Hev. simpl in Hev. discriminate.
    + rewrite !(words16_app_even n) by exact Hn. cbn [words16].
      rewrite !sum_list_app. cbn [sum_list fold_right].
      apply mod_ne_of_small_diff; lia.
  - destruct (odd_length_split p Ep) as (p' & lo & -> & Ep').
    destruct (even_length_half p' Ep') as [n Hn].
    rewrite <- !app_assoc. cbn [app].
    rewrite !(words16_app_even n) by exact Hn. cbn [words16].
    rewrite !sum_list_app. cbn [sum_list fold_right].
    apply mod_ne_of_small_diff; lia.
Qed.

Lemma sum16_single_change_zero p x y s : Z.even (zlen (p ++ x :: s)) = true ->
  0 <= x < 256 -> 0 <= y < 256 -> x <> y ->
  sum16 (p ++ x :: s) = 0 -> sum16 (p ++ y :: s) <> 0.
Proof. intros He Hx Hy Hne H0 H1. apply (sum16_single_change p x y s He Hx Hy Hne). congruence. Qed.

(* writing the negated sum makes the total zero *)
Lemma sum8_fix data : (sum8 data + (0 - sum8 data) mod 256) mod 256 = 0.
Proof.
  rewrite Z.add_mod_idemp_r by lia. replace (sum8 data + (0 - sum8 data)) with 0 by lia. reflexivity.
Qed.

Lemma le_enc2_word v : 0 <= v < 65536 -> words16 (le_enc 2 v) = [v].
Proof.
  intros Hv. cbn [le_enc words16]. f_equal.
  pose proof (Z.div_mod v 256 ltac:(lia)).
  assert (0 <= v / 256 < 256) by (split; [apply Z.div_pos; lia | apply Z.div_lt_upper_bound; lia]).
  rewrite (Z.mod_small (v / 256) 256) by lia. lia.
Qed.

Lemma sum16_field pre v post : Z.even (zlen pre) = true -> 0 <= v < 65536 ->
  sum16 (pre ++ le_enc 2 v ++ post) = (sum16 (pre ++ [0; 0] ++ post) + v) mod 65536.
Proof.
  intros Ep Hv. destruct (even_length_half pre Ep) as [n Hn]. unfold sum16.
  rewrite !(words16_app_even n) by exact Hn.
  rewrite (words16_app_even 1 (le_enc 2 v)) by reflexivity.
  rewrite (words16_app_even 1 [0; 0]) by reflexivity.
  rewrite le_enc2_word by exact Hv. cbn [words16].
  rewrite !sum_list_app. cbn [sum_list fold_right].
  rewrite Z.add_mod_idemp_l by lia. f_equal. lia.
Qed.

Lemma sum16_fix pre post : Z.even (zlen pre) = true ->
  sum16 (pre ++ le_enc 2 ((0 - sum16 (pre ++ [0; 0] ++ post)) mod 65536) ++ post) = 0.
Proof.
  intros Ep. rewrite sum16_field by (auto; apply Z.mod_pos_bound; lia).
  rewrite Z.add_mod_idemp_r by lia.
  replace (sum16 (pre ++ [0; 0] ++ post) + (0 - sum16 (pre ++ [0; 0] ++ post))) with 0 by lia. reflexivity.
Qed.

(* ================= Part B: single-byte changes ================= *)

(* [b'] is [b] with exactly the byte at index [i] replaced by a different byte *)
Definition single_change (b : bytes) (i : Z) (b' : bytes) : Prop :=
  exists p x y s, b = p ++ x :: s /\ b' = p ++ y :: s /\ zlen p = i /\ x <> y /\
                  0 <= x < 256 /\ 0 <= y < 256.

(* the pointwise characterisation implies the decomposition *)
Lemma single_change_intro (b b' : bytes) (i : nat) x y :
  length b = length b' -> nth_error b i = Some x -> nth_error b' i = Some y -> x <> y ->
  0 <= x < 256 -> 0 <= y < 256 ->
  (forall j, j <> i -> nth_error b j = nth_error b' j) ->
  single_change b (Z.of_nat i) b'.
Proof.
  intros Hl Hx Hy Hne Rx Ry Hoth.
  exists (firstn i b), x, y, (skipn (S i) b).
  assert (Hi : (i < length b)%nat) by (apply nth_error_Some; congruence).
  assert (Hi' : (i < length b')%nat) by lia.
  repeat split; auto; try lia.
  - rewrite <- (firstn_skipn i b) at 1. f_equal.
    apply nth_error_ext. intros [|k].
    + rewrite nth_error_skipn', Nat.add_0_r. exact Hx.
    + cbn [nth_error]. rewrite !nth_error_skipn'. f_equal. lia.
  - apply nth_error_ext. intros k.
    destruct (Nat.lt_ge_cases k i) as [Hk|Hk].
    + rewrite nth_error_app1 by (rewrite firstn_length; lia).
      rewrite nth_error_firstn_lt' by lia. symmetry. apply Hoth. lia.
    + rewrite nth_error_app2 by (rewrite firstn_length; lia).
      rewrite firstn_length, Nat.min_l by lia.
      destruct (k - i)%nat as [|m] eqn:Ek.
      * assert (k = i) by lia. subst k. cbn [nth_error]. exact Hy.
      * cbn [nth_error]. rewrite nth_error_skipn'.
        replace (S i + m)%nat with k by lia. symmetry. apply Hoth. lia.
  - unfold zlen. rewrite firstn_length. lia.
Qed.

Lemma single_change_len b i b' : single_change b i b' -> zlen b' = zlen b.
Proof. intros (p & x & y & s & -> & -> & _). rewrite !zlen_app, !zlen_cons. reflexivity. Qed.

Lemma single_change_range b i b' : single_change b i b' -> 0 <= i < zlen b.
Proof.
  intros (p & x & y & s & -> & -> & <- & _). rewrite zlen_app, zlen_cons.
  pose proof (zlen_nonneg p). pose proof (zlen_nonneg s). lia.
Qed.

Lemma single_change_ok b i b' : single_change b i b' -> bytes_ok b = true -> bytes_ok b' = true.
Proof.
  intros (p & x & y & s & -> & -> & _ & _ & _ & Hy).
  rewrite !bytes_ok_app, !bytes_ok_cons. intros H.
  apply andb_true_iff in H as [H1 H2]. apply andb_true_iff in H2 as [_ H3].
  rewrite H1, H3. assert (byte_ok y = true) by (apply byte_ok_iff; lia). rewrite H. reflexivity.
Qed.

(* windows: [sub off len] of a concatenation *)
Lemma zskipn_app_le {A} (a b : list A) n : 0 <= n <= zlen a -> zskipn n (a ++ b) = zskipn n a ++ b.
Proof.
  intros H. unfold zskipn, zlen in *. rewrite skipn_app.
  replace (Z.to_nat n - length a)%nat with O by lia. reflexivity.
Qed.

Lemma zfirstn_app_le {A} (a b : list A) n : n <= zlen a -> zfirstn n (a ++ b) = zfirstn n a.
Proof.
  intros H. unfold zfirstn, zlen in *. rewrite firstn_app.
  replace (Z.to_nat n - length a)%nat with O by lia. rewrite firstn_O, app_nil_r. reflexivity.
Qed.

Lemma zfirstn_app_gt {A} (a b : list A) n : zlen a <= n ->
  zfirstn n (a ++ b) = a ++ zfirstn (n - zlen a) b.
Proof.
  intros H. unfold zfirstn, zlen in *. rewrite firstn_app.
  rewrite firstn_all2 by lia. f_equal. f_equal. lia.
Qed.

Lemma sub_app_l (a b : bytes) off len : 0 <= off -> off + len <= zlen a ->
  sub off len (a ++ b) = sub off len a.
Proof.
  intros H0 H. unfold sub. destruct (Z_le_gt_dec len 0) as [Hl|Hl].
  - unfold zfirstn. replace (Z.to_nat len) with O by lia. reflexivity.
  - rewrite zskipn_app_le by lia. apply zfirstn_app_le. rewrite zlen_zskipn by lia. lia.
Qed.

Lemma zfirstn_zfirstn {A} (l : list A) a b : a <= b -> zfirstn a (zfirstn b l) = zfirstn a l.
Proof.
  intros H. unfold zfirstn. rewrite firstn_firstn. f_equal. lia.
Qed.

Lemma sub_zfirstn (b : bytes) E off len : 0 <= off -> off + len <= E ->
  sub off len (zfirstn E b) = sub off len b.
Proof.
  intros H0 H. rewrite <- (zfirstn_zskipn E b) at 2.
  destruct (Z_le_gt_dec E (zlen b)) as [Hle|Hgt].
  - symmetry. apply sub_app_l; [lia|]. rewrite zlen_zfirstn; lia.
  - unfold zfirstn at 2. unfold zskipn at 2. unfold zlen in Hgt.
    rewrite skipn_all2 by lia. rewrite app_nil_r. reflexivity.
Qed.

Lemma rd_zfirstn (b : bytes) E off w : 0 <= off -> off + Z.of_nat w <= E ->
  rd off w (zfirstn E b) = rd off w b.
Proof. intros. unfold rd. f_equal. apply sub_zfirstn; auto. Qed.

(* two buffers that agree on their first E bytes *)
Lemma sub_prefix (b b' : bytes) E off len : zfirstn E b = zfirstn E b' -> 0 <= off -> off + len <= E ->
  sub off len b = sub off len b'.
Proof.
  intros HE H0 H. rewrite <- (sub_zfirstn b E) by auto. rewrite <- (sub_zfirstn b' E) by auto.
  rewrite HE. reflexivity.
Qed.

Lemma rd_prefix (b b' : bytes) E off w : zfirstn E b = zfirstn E b' -> 0 <= off ->
  off + Z.of_nat w <= E -> rd off w b = rd off w b'.
Proof. intros. unfold rd. f_equal. eapply sub_prefix; eauto. Qed.

Lemma single_change_prefix b i b' E : single_change b i b' -> E <= i -> zfirstn E b = zfirstn E b'.
Proof.
  intros (p & x & y & s & -> & -> & <- & _) HE. rewrite !zfirstn_app_le by lia. reflexivity.
Qed.

(* a window that misses the changed index is unchanged *)
Lemma single_change_sub_same b i b' off len : single_change b i b' -> 0 <= off ->
  (off + len <= i \/ i < off) -> sub off len b' = sub off len b.
Proof.
  intros Hsc H0 [Hb|Ha].
  - symmetry. eapply sub_prefix; [eapply single_change_prefix; eauto; apply Z.le_refl| |]; lia.
  - destruct Hsc as (p & x & y & s & -> & -> & <- & _).
    pose proof (zlen_nonneg p).
    rewrite !(sub_app_skip p _ off len (zlen p)) by lia.
    change (x :: s) with ([x] ++ s). change (y :: s) with ([y] ++ s).
    rewrite !(sub_app_skip _ s (off - zlen p) len 1) by (try reflexivity; lia). reflexivity.
Qed.

Lemma single_change_rd_same b i b' off w : single_change b i b' -> 0 <= off ->
  (off + Z.of_nat w <= i \/ i < off) -> rd off w b' = rd off w b.
Proof. intros. unfold rd. f_equal. eapply single_change_sub_same; eauto. Qed.

(* a window that contains the changed index is a single change of the window *)
Lemma single_change_sub b i b' off len : single_change b i b' -> 0 <= off <= i -> i < off + len ->
  single_change (sub off len b) (i - off) (sub off len b').
Proof.
  intros (p & x & y & s & -> & -> & <- & Hne & Hx & Hy) H0 H1.
  exists (zskipn off p), x, y (zfirstn (len - (zlen p - off) - 1) s).
  assert (Hq : zlen (zskipn off p) = zlen p - off) by (apply zlen_zskipn; lia).
  unfold sub. rewrite !zskipn_app_le by lia.
  rewrite !zfirstn_app_gt by lia. rewrite Hq.
  change (x :: s) with ([x] ++ s). change (y :: s) with ([y] ++ s).
  rewrite !zfirstn_app_gt by (change (zlen [x]) with 1; change (zlen [y]) with 1; lia).
  change (zlen [x]) with 1. change (zlen [y]) with 1.
  repeat split; auto; lia.
Qed.

Lemma single_change_zfirstn b i b' E : single_change b i b' -> i < E ->
  single_change (zfirstn E b) i (zfirstn E b').
Proof.
  intros H HE. pose proof (single_change_range _ _ _ H).
  pose proof (single_change_sub b i b' 0 E H ltac:(lia) ltac:(lia)) as K.
  unfold sub in K. change (zskipn 0 b) with b in K. change (zskipn 0 b') with b' in K.
  rewrite Z.sub_0_r in K. exact K.
Qed.

(* a changed byte changes every little-endian field that contains it *)
Lemma le_dec_app a b : le_dec (a ++ b) = le_dec a + 256 ^ zlen a * le_dec b.
Proof.
  induction a as [|x a IH]; cbn [app le_dec].
  - rewrite zlen_nil. lia.
  - rewrite IH, zlen_cons. rewrite Z.pow_add_r by (pose proof (zlen_nonneg a); lia). lia.
Qed.

Lemma le_dec_single_change p x y s : x <> y -> le_dec (p ++ x :: s) <> le_dec (p ++ y :: s).
Proof.
  intros Hne. rewrite !le_dec_app. cbn [le_dec].
  assert (0 < 256 ^ zlen p) by (apply Z.pow_pos_nonneg; [lia|apply zlen_nonneg]). nia.
Qed.

Lemma single_change_rd_diff b i b' off w : single_change b i b' -> 0 <= off <= i ->
  i < off + Z.of_nat w -> rd off w b' <> rd off w b.
Proof.
  intros H H0 H1. unfold rd.
  destruct (single_change_sub b i b' off (Z.of_nat w) H H0 H1) as (p & x & y & s & -> & -> & _ & Hne & _).
  intros E. apply (le_dec_single_change p x y s Hne). congruence.
Qed.
