(* Proofs/ValidateProofs.v — lemmas for property C09 (validate: no false alarm, no miss).
   Part A: checksum library (sum8 / sum16).   Part B: single-byte changes of a buffer.
   Part C: inversion and totality of the validate model.   Part D: volume header.
   Part E: files (local, then inside a volume).   Part F: no false alarm for assembler output.
   Part G: witnesses against the pinned validate (free-space marker, body-checksum check).
   Part H: the statements for the depth-fuelled parsers of Model/Ffs.v. *)
From Coq Require Import ZifyBool ZifyNat.
From Fiano Require Import Base.Bytes Base.BytesLemmas Gen.Consts Model.Ffs Model.Validate.
Open Scope Z_scope.

(* ================= Part A: checksums ================= *)

Lemma sum_list_app a b : sum_list (a ++ b) = sum_list a + sum_list b.
Proof. induction a as [|x a IH]; simpl; [reflexivity|]. rewrite IH. lia. Qed.

Lemma mod_eq_diff m a b : 0 < m -> a mod m = b mod m -> exists c, a - b = m * c.
Proof.
  intros Hm H. exists (a / m - b / m).
  rewrite (Z.div_mod a m) at 1 by lia. rewrite (Z.div_mod b m) at 1 by lia. rewrite H. lia.
Qed.

Lemma mod_ne_of_small_diff m a b : 0 < m -> a <> b -> - m < a - b < m -> a mod m <> b mod m.
Proof.
  intros Hm Hne Hd H. destruct (mod_eq_diff m a b Hm H) as [c Hc].
  assert (c = 0) by nia. subst c. lia.
Qed.

Lemma sum8_app a b : sum8 (a ++ b) = (sum8 a + sum8 b) mod 256.
Proof. unfold sum8. rewrite sum_list_app. rewrite <- Z.add_mod by lia. reflexivity. Qed.

Lemma sum8_range b : 0 <= sum8 b < 256.
Proof. unfold sum8. apply Z.mod_pos_bound. lia. Qed.

(* changing exactly one byte of a buffer changes its 8-bit sum *)
Lemma sum8_single_change p x y s : 0 <= x < 256 -> 0 <= y < 256 -> x <> y ->
  sum8 (p ++ x :: s) <> sum8 (p ++ y :: s).
Proof.
  intros Hx Hy Hne. unfold sum8. rewrite !sum_list_app. cbn [sum_list fold_right].
  apply mod_ne_of_small_diff; lia.
Qed.

Lemma sum8_single_change_zero p x y s : 0 <= x < 256 -> 0 <= y < 256 -> x <> y ->
  sum8 (p ++ x :: s) = 0 -> sum8 (p ++ y :: s) <> 0.
Proof. intros Hx Hy Hne H0 H1. apply (sum8_single_change p x y s Hx Hy Hne). congruence. Qed.

Lemma words16_app_even n : forall p r, length p = (2 * n)%nat ->
  words16 (p ++ r) = words16 p ++ words16 r.
Proof.
  induction n as [|n IH]; intros p r Hl.
  - destruct p; [reflexivity|discriminate].
  - destruct p as [|a [|b p]]; try (simpl in Hl; lia).
    cbn [app words16]. f_equal. apply IH. simpl in Hl. lia.
Qed.

Lemma even_length_half (p : bytes) : Z.even (zlen p) = true -> exists n, length p = (2 * n)%nat.
Proof.
  unfold zlen. intros H. rewrite Z.even_spec in H. destruct H as [k Hk].
  exists (Z.to_nat k). lia.
Qed.

Lemma odd_length_split (p : bytes) : Z.even (zlen p) = false ->
  exists p' lo, p = p' ++ [lo] /\ Z.even (zlen p') = true.
Proof.
  intros H. induction p as [|a p _] using rev_ind; [discriminate|].
  exists p, a. split; [reflexivity|].
  rewrite zlen_app in H. change (zlen [a]) with 1 in H.
  rewrite Z.even_add in H. simpl in H. destruct (Z.even (zlen p)); [reflexivity|discriminate].
Qed.

(* changing exactly one byte of an even-length buffer changes its 16-bit sum *)
Lemma sum16_single_change p x y s : Z.even (zlen (p ++ x :: s)) = true ->
  0 <= x < 256 -> 0 <= y < 256 -> x <> y ->
  sum16 (p ++ x :: s) <> sum16 (p ++ y :: s).
Proof.
  intros Hev Hx Hy Hne. unfold sum16.
  destruct (Z.even (zlen p)) eqn:Ep.
  - destruct (even_length_half p Ep) as [n Hn].
    rewrite zlen_app, zlen_cons, Z.even_add, Ep in Hev.
    destruct s as [|hi s].
    + exfalso. rewrite zlen_nil in Hev. simpl in Hev. discriminate.
    + rewrite !(words16_app_even n p) by exact Hn. cbn [words16].
      rewrite !sum_list_app. cbn [sum_list fold_right].
      apply mod_ne_of_small_diff; lia.
  - destruct (odd_length_split p Ep) as (p' & lo & -> & Ep').
    destruct (even_length_half p' Ep') as [n Hn].
    rewrite <- !app_assoc. cbn [app].
    rewrite !(words16_app_even n p') by exact Hn. cbn [words16].
    rewrite !sum_list_app. cbn [sum_list fold_right].
    apply mod_ne_of_small_diff; lia.
Qed.

Lemma sum16_single_change_zero p x y s : Z.even (zlen (p ++ x :: s)) = true ->
  0 <= x < 256 -> 0 <= y < 256 -> x <> y ->
  sum16 (p ++ x :: s) = 0 -> sum16 (p ++ y :: s) <> 0.
Proof. intros He Hx Hy Hne H0 H1. apply (sum16_single_change p x y s He Hx Hy Hne). congruence. Qed.

(* writing the negated sum makes the total zero *)
Lemma sum8_fix data : (sum8 data + (0 - sum8 data) mod 256) mod 256 = 0.
Proof.
  rewrite Z.add_mod_idemp_r by lia. replace (sum8 data + (0 - sum8 data)) with 0 by lia. reflexivity.
Qed.

Lemma le_enc2_word v : 0 <= v < 65536 -> words16 (le_enc 2 v) = [v].
Proof.
  intros Hv. cbn [le_enc words16]. f_equal.
  pose proof (Z.div_mod v 256 ltac:(lia)).
  assert (0 <= v / 256 < 256) by (split; [apply Z.div_pos; lia | apply Z.div_lt_upper_bound; lia]).
  rewrite (Z.mod_small (v / 256) 256) by lia. lia.
Qed.

Lemma sum16_field pre v post : Z.even (zlen pre) = true -> 0 <= v < 65536 ->
  sum16 (pre ++ le_enc 2 v ++ post) = (sum16 (pre ++ [0; 0] ++ post) + v) mod 65536.
Proof.
  intros Ep Hv. destruct (even_length_half pre Ep) as [n Hn]. unfold sum16.
  rewrite !(words16_app_even n pre) by exact Hn.
  rewrite (words16_app_even 1 (le_enc 2 v)) by reflexivity.
  rewrite (words16_app_even 1 [0; 0]) by reflexivity.
  rewrite le_enc2_word by exact Hv. cbn [words16].
  rewrite !sum_list_app. cbn [sum_list fold_right].
  rewrite Z.add_mod_idemp_l by lia. f_equal. lia.
Qed.

Lemma sum16_fix pre post : Z.even (zlen pre) = true ->
  sum16 (pre ++ le_enc 2 ((0 - sum16 (pre ++ [0; 0] ++ post)) mod 65536) ++ post) = 0.
Proof.
  intros Ep. rewrite sum16_field by (auto; apply Z.mod_pos_bound; lia).
  rewrite Z.add_mod_idemp_r by lia.
  replace (sum16 (pre ++ [0; 0] ++ post) + (0 - sum16 (pre ++ [0; 0] ++ post))) with 0 by lia. reflexivity.
Qed.

(* ================= Part B: single-byte changes ================= *)

(* [b'] is [b] with exactly the byte at index [i] replaced by a different byte *)
Definition single_change (b : bytes) (i : Z) (b' : bytes) : Prop :=
  exists p x y s, b = p ++ x :: s /\ b' = p ++ y :: s /\ zlen p = i /\ x <> y /\
                  0 <= x < 256 /\ 0 <= y < 256.

(* the pointwise characterisation implies the decomposition *)
Lemma single_change_intro (b b' : bytes) (i : nat) x y :
  length b = length b' -> nth_error b i = Some x -> nth_error b' i = Some y -> x <> y ->
  0 <= x < 256 -> 0 <= y < 256 ->
  (forall j, j <> i -> nth_error b j = nth_error b' j) ->
  single_change b (Z.of_nat i) b'.
Proof.
  intros Hl Hx Hy Hne Rx Ry Hoth.
  exists (firstn i b), x, y, (skipn (S i) b).
  assert (Hi : (i < length b)%nat) by (apply nth_error_Some; congruence).
  assert (Hi' : (i < length b')%nat) by lia.
  repeat split; auto; try lia.
  - rewrite <- (firstn_skipn i b) at 1. f_equal.
    apply nth_error_ext. intros [|k].
    + rewrite nth_error_skipn', Nat.add_0_r. exact Hx.
    + change (nth_error (x :: skipn (S i) b) (S k)) with (nth_error (skipn (S i) b) k).
      rewrite !nth_error_skipn'.
      replace (i + S k)%nat with (S i + k)%nat by lia. reflexivity.
  - apply nth_error_ext. intros k.
    destruct (Nat.lt_ge_cases k i) as [Hk|Hk].
    + rewrite nth_error_app1 by (rewrite firstn_length; lia).
      rewrite nth_error_firstn_lt' by lia. symmetry. apply Hoth. lia.
    + rewrite nth_error_app2 by (rewrite firstn_length; lia).
      rewrite firstn_length, Nat.min_l by lia.
      destruct (k - i)%nat as [|m] eqn:Ek.
      * assert (k = i) by lia. subst k. cbn [nth_error]. exact Hy.
      * cbn [nth_error]. rewrite nth_error_skipn'.
        replace (S i + m)%nat with k by lia. symmetry. apply Hoth. lia.
  - unfold zlen. rewrite firstn_length. lia.
Qed.

Lemma single_change_len b i b' : single_change b i b' -> zlen b' = zlen b.
Proof. intros (p & x & y & s & -> & -> & _). rewrite !zlen_app, !zlen_cons. reflexivity. Qed.

Lemma single_change_range b i b' : single_change b i b' -> 0 <= i < zlen b.
Proof.
  intros (p & x & y & s & -> & -> & <- & _). rewrite zlen_app, zlen_cons.
  pose proof (zlen_nonneg p). pose proof (zlen_nonneg s). lia.
Qed.

Lemma single_change_ok b i b' : single_change b i b' -> bytes_ok b = true -> bytes_ok b' = true.
Proof.
  intros (p & x & y & s & -> & -> & _ & _ & _ & Hy).
  rewrite !bytes_ok_app, !bytes_ok_cons. intros H.
  apply andb_true_iff in H as [H1 H2]. apply andb_true_iff in H2 as [_ H3].
  rewrite H1, H3. assert (byte_ok y = true) by (apply byte_ok_iff; lia). rewrite H. reflexivity.
Qed.

(* windows: [sub off len] of a concatenation *)
Lemma zskipn_app_le {A} (a b : list A) n : 0 <= n <= zlen a -> zskipn n (a ++ b) = zskipn n a ++ b.
Proof.
  intros H. unfold zskipn, zlen in *. rewrite skipn_app.
  replace (Z.to_nat n - length a)%nat with O by lia. reflexivity.
Qed.

Lemma zfirstn_app_le {A} (a b : list A) n : n <= zlen a -> zfirstn n (a ++ b) = zfirstn n a.
Proof.
  intros H. unfold zfirstn, zlen in *. rewrite firstn_app.
  replace (Z.to_nat n - length a)%nat with O by lia. rewrite firstn_O, app_nil_r. reflexivity.
Qed.

Lemma zfirstn_app_gt {A} (a b : list A) n : zlen a <= n ->
  zfirstn n (a ++ b) = a ++ zfirstn (n - zlen a) b.
Proof.
  intros H. unfold zfirstn, zlen in *. rewrite firstn_app.
  rewrite firstn_all2 by lia. f_equal. f_equal. lia.
Qed.

Lemma sub_app_l (a b : bytes) off len : 0 <= off -> off + len <= zlen a ->
  sub off len (a ++ b) = sub off len a.
Proof.
  intros H0 H. unfold sub. destruct (Z_le_gt_dec len 0) as [Hl|Hl].
  - unfold zfirstn. replace (Z.to_nat len) with O by lia. reflexivity.
  - rewrite zskipn_app_le by lia. apply zfirstn_app_le. rewrite zlen_zskipn by lia. lia.
Qed.

Lemma zfirstn_zfirstn {A} (l : list A) a b : a <= b -> zfirstn a (zfirstn b l) = zfirstn a l.
Proof.
  intros H. unfold zfirstn. rewrite firstn_firstn. f_equal. lia.
Qed.

Lemma sub_zfirstn (b : bytes) E off len : 0 <= off -> off + len <= E ->
  sub off len (zfirstn E b) = sub off len b.
Proof.
  intros H0 H. destruct (Z_le_gt_dec len 0) as [Hl|Hl].
  { unfold sub, zfirstn. replace (Z.to_nat len) with O by lia. reflexivity. }
  rewrite <- (zfirstn_zskipn E b) at 2.
  destruct (Z_le_gt_dec E (zlen b)) as [Hle|Hgt].
  - symmetry. apply sub_app_l; [lia|]. rewrite zlen_zfirstn; lia.
  - replace (zskipn E b) with (@nil Z); [rewrite app_nil_r; reflexivity|].
    unfold zskipn. unfold zlen in Hgt. rewrite skipn_all2 by lia. reflexivity.
Qed.

Lemma rd_zfirstn (b : bytes) E off w : 0 <= off -> off + Z.of_nat w <= E ->
  rd off w (zfirstn E b) = rd off w b.
Proof. intros. unfold rd. f_equal. apply sub_zfirstn; auto. Qed.

(* two buffers that agree on their first E bytes *)
Lemma sub_prefix (b b' : bytes) E off len : zfirstn E b = zfirstn E b' -> 0 <= off -> off + len <= E ->
  sub off len b = sub off len b'.
Proof.
  intros HE H0 H. rewrite <- (sub_zfirstn b E) by auto. rewrite <- (sub_zfirstn b' E) by auto.
  rewrite HE. reflexivity.
Qed.

Lemma rd_prefix (b b' : bytes) E off w : zfirstn E b = zfirstn E b' -> 0 <= off ->
  off + Z.of_nat w <= E -> rd off w b = rd off w b'.
Proof. intros. unfold rd. f_equal. eapply sub_prefix; eauto. Qed.

Lemma single_change_prefix b i b' E : single_change b i b' -> E <= i -> zfirstn E b = zfirstn E b'.
Proof.
  intros (p & x & y & s & -> & -> & <- & _) HE. rewrite !zfirstn_app_le by lia. reflexivity.
Qed.

(* a window that misses the changed index is unchanged *)
Lemma single_change_sub_same b i b' off len : single_change b i b' -> 0 <= off ->
  (off + len <= i \/ i < off) -> sub off len b' = sub off len b.
Proof.
  intros Hsc H0 [Hb|Ha].
  - symmetry. eapply sub_prefix; [eapply single_change_prefix; eauto; apply Z.le_refl| |]; lia.
  - destruct Hsc as (p & x & y & s & -> & -> & <- & _).
    pose proof (zlen_nonneg p).
    rewrite !(sub_app_skip p _ off len (zlen p)) by lia.
    change (x :: s) with ([x] ++ s). change (y :: s) with ([y] ++ s).
    rewrite !(sub_app_skip _ s (off - zlen p) len 1) by (try reflexivity; lia). reflexivity.
Qed.

Lemma single_change_rd_same b i b' off w : single_change b i b' -> 0 <= off ->
  (off + Z.of_nat w <= i \/ i < off) -> rd off w b' = rd off w b.
Proof. intros. unfold rd. f_equal. eapply single_change_sub_same; eauto. Qed.

(* a window that contains the changed index is a single change of the window *)
Lemma single_change_sub b i b' off len : single_change b i b' -> 0 <= off <= i -> i < off + len ->
  single_change (sub off len b) (i - off) (sub off len b').
Proof.
  intros (p & x & y & s & -> & -> & <- & Hne & Hx & Hy) H0 H1.
  exists (zskipn off p), x, y, (zfirstn (len - (zlen p - off) - 1) s).
  assert (Hq : zlen (zskipn off p) = zlen p - off) by (apply zlen_zskipn; lia).
  unfold sub. rewrite !zskipn_app_le by lia.
  rewrite !zfirstn_app_gt by lia. rewrite Hq.
  change (x :: s) with ([x] ++ s). change (y :: s) with ([y] ++ s).
  rewrite !zfirstn_app_gt by (change (zlen [x]) with 1; change (zlen [y]) with 1; lia).
  change (zlen [x]) with 1. change (zlen [y]) with 1.
  repeat split; auto; lia.
Qed.

Lemma single_change_zfirstn b i b' E : single_change b i b' -> i < E ->
  single_change (zfirstn E b) i (zfirstn E b').
Proof.
  intros H HE. pose proof (single_change_range _ _ _ H).
  pose proof (single_change_sub b i b' 0 E H ltac:(lia) ltac:(lia)) as K.
  unfold sub in K. change (zskipn 0 b) with b in K. change (zskipn 0 b') with b' in K.
  rewrite Z.sub_0_r in K. exact K.
Qed.

(* a changed byte changes every little-endian field that contains it *)
Lemma le_dec_app a b : le_dec (a ++ b) = le_dec a + 256 ^ zlen a * le_dec b.
Proof.
  induction a as [|x a IH]; cbn [app le_dec].
  - change (zlen (@nil Z)) with 0. lia.
  - rewrite IH, zlen_cons. rewrite Z.pow_add_r by (pose proof (zlen_nonneg a); lia). lia.
Qed.

Lemma le_dec_single_change p x y s : x <> y -> le_dec (p ++ x :: s) <> le_dec (p ++ y :: s).
Proof.
  intros Hne. rewrite !le_dec_app. cbn [le_dec].
  assert (0 < 256 ^ zlen p) by (apply Z.pow_pos_nonneg; [lia|apply zlen_nonneg]). nia.
Qed.

Lemma single_change_rd_diff b i b' off w : single_change b i b' -> 0 <= off <= i ->
  i < off + Z.of_nat w -> rd off w b' <> rd off w b.
Proof.
  intros H H0 H1. unfold rd.
  destruct (single_change_sub b i b' off (Z.of_nat w) H H0 H1) as (p & x & y & s & -> & -> & _ & Hne & _).
  intros E. apply (le_dec_single_change p x y s Hne). congruence.
Qed.

(* ================= Part C: the validate model — equations, totality, inversion ================= *)

Lemma vlist_eq fx l :
  (fix vlist (l : list node) : outcome (list Z) :=
     match l with
     | [] => Ok []
     | x :: r => do a <- validate_gen fx x; do b <- vlist r; Ok (a ++ b)
     end) l = validate_list_gen fx l.
Proof. induction l as [|x l IH]; [reflexivity|]. cbn [validate_list_gen]. rewrite <- IH. reflexivity. Qed.

Lemma validate_gen_vol fx h buf kids : validate_gen fx (NVol h buf kids) =
  (do a <- validate_vol_gen fx h buf; do b <- validate_list_gen fx kids; Ok (a ++ b)).
Proof. cbn [validate_gen]. rewrite vlist_eq. reflexivity. Qed.

Lemma validate_gen_file fx h buf kids : validate_gen fx (NFile h buf kids) =
  (do a <- validate_file_gen fx h buf; do b <- validate_list_gen fx kids; Ok (a ++ b)).
Proof. cbn [validate_gen]. rewrite vlist_eq. reflexivity. Qed.

Lemma validate_gen_sec fx h buf kids : validate_gen fx (NSec h buf kids) =
  (do b <- validate_list_gen fx kids; Ok (validate_sec h buf ++ b)).
Proof. cbn [validate_gen]. rewrite vlist_eq. reflexivity. Qed.

Fixpoint node_ind2 (P : node -> Prop)
  (HP : forall o b, P (NPad o b))
  (HS : forall h b kids, Forall P kids -> P (NSec h b kids))
  (HF : forall h b kids, Forall P kids -> P (NFile h b kids))
  (HV : forall h b kids, Forall P kids -> P (NVol h b kids))
  (n : node) {struct n} : P n :=
  let go := fix go (l : list node) : Forall P l :=
    match l with
    | [] => Forall_nil P
    | x :: r => Forall_cons x (node_ind2 P HP HS HF HV x) (go r)
    end in
  match n with
  | NPad o b => HP o b
  | NSec h b kids => HS h b kids (go kids)
  | NFile h b kids => HF h b kids (go kids)
  | NVol h b kids => HV h b kids (go kids)
  end.

Ltac unfold_c09 := unfold c09_fv_min_size, c09_fv_fixed_header_size, c09_file_header_min,
  c09_file_header_ext_min, c09_section_ext_min, c09_empty_body_checksum in *.

Lemma validate_vol_total fx h buf : exists l, validate_vol_gen fx h buf = Ok l.
Proof.
  unfold validate_vol_gen. unfold_c09.
  destruct (zlen buf <? 64) eqn:E1; [eauto|].
  destruct (v_hdrlen h <? 64) eqn:E2; [eauto|].
  destruct (zlen buf <? v_hdrlen h) eqn:E3; [eauto|].
  rewrite slice_ok by lia. cbn [of_opt bind].
  destruct (fx && (0 <? v_freespace h) && (v_freespace h <=? zlen buf)) eqn:E4; cbn [bind]; [|eauto].
  rewrite slice_ok by lia. cbn [of_opt bind]. eauto.
Qed.

Lemma checksum_header_total h buf :
  (if attr_large (f_attr h) then 32 else 24) <= zlen buf ->
  checksum_header h buf =
    Ok ((sum8 (sub 0 (if attr_large (f_attr h) then 32 else 24) buf) - f_ckf h - f_state h) mod 256).
Proof.
  intros H. unfold checksum_header. unfold_c09.
  rewrite slice_ok by (destruct (attr_large (f_attr h)); lia).
  cbn [of_opt bind]. rewrite Z.sub_0_r. reflexivity.
Qed.

Lemma validate_file_total fx h buf : exists l, validate_file_gen fx h buf = Ok l.
Proof.
  unfold validate_file_gen. unfold_c09.
  destruct (zlen buf <? 24) eqn:E1; [eauto|].
  destruct (f_size3 h =? 16777215) eqn:Es.
  - destruct (zlen buf <? 32) eqn:E2; [eauto|].
    destruct (attr_large (f_attr h)) eqn:El; cbn [negb]; [|eauto].
    destruct (negb (zlen buf =? f_ext h)); [eauto|].
    rewrite checksum_header_total by (rewrite El; lia). cbn [bind].
    destruct (negb (attr_checksum (f_attr h)) && negb (f_ckf h =? 170)); [eauto|].
    destruct (attr_checksum (f_attr h)); [|eauto].
    rewrite slice_ok by lia. cbn [of_opt bind]. eauto.
  - destruct (attr_large (f_attr h)) eqn:El; [eauto|].
    destruct (negb (f_size3 h =? f_ext h)); [eauto|].
    destruct (negb (zlen buf =? f_ext h)); [eauto|].
    rewrite checksum_header_total by (rewrite El; lia). cbn [bind].
    destruct (negb (attr_checksum (f_attr h)) && negb (f_ckf h =? 170)); [eauto|].
    destruct (attr_checksum (f_attr h)); [|eauto].
    rewrite slice_ok by lia. cbn [of_opt bind]. eauto.
Qed.

Lemma validate_list_total fx l : Forall (fun n => exists r, validate_gen fx n = Ok r) l ->
  exists r, validate_list_gen fx l = Ok r.
Proof.
  induction 1 as [|x l [rx Hx] _ [rl Hl]]; cbn [validate_list_gen]; [eauto|].
  rewrite Hx, Hl. cbn [bind]. eauto.
Qed.

(* validate never panics *)
Lemma validate_total fx n : exists l, validate_gen fx n = Ok l.
Proof.
  induction n as [o b|h b kids IH|h b kids IH|h b kids IH] using node_ind2.
  - cbn. eauto.
  - rewrite validate_gen_sec. destruct (validate_list_total fx kids IH) as [r ->]. cbn [bind]. eauto.
  - rewrite validate_gen_file. destruct (validate_file_total fx h b) as [a ->].
    destruct (validate_list_total fx kids IH) as [r ->]. cbn [bind]. eauto.
  - rewrite validate_gen_vol. destruct (validate_vol_total fx h b) as [a ->].
    destruct (validate_list_total fx kids IH) as [r ->]. cbn [bind]. eauto.
Qed.

Lemma validate_list_total' fx l : exists r, validate_list_gen fx l = Ok r.
Proof. apply validate_list_total. apply Forall_forall. intros n _. apply validate_total. Qed.

Lemma Ok_inj {A} (a b : A) : Ok a = Ok b -> a = b.
Proof. intros H. injection H. auto. Qed.

Lemma if_nil_true (c : bool) (x : Z) : (if c then [] else [x]) = [] -> c = true.
Proof. destruct c; [reflexivity|discriminate]. Qed.

(* what a clean volume check says *)
Lemma validate_vol_clean fx h buf : validate_vol_gen fx h buf = Ok [] ->
  64 <= v_hdrlen h <= zlen buf /\
  v_hdrlen h = 56 + 8 * (nblocks (v_blocks h) + 1) /\
  known_fv_guid (v_guid h) = true /\ v_rev h = 2 /\ v_sig h = c09_fv_signature /\
  v_length h = zlen buf /\ sum16 (sub 0 (v_hdrlen h) buf) = 0 /\
  (fx = true -> 0 < v_freespace h <= zlen buf ->
   forallb (fun x => x =? fv_polarity (v_attrs h)) (sub (zlen buf - v_freespace h) (v_freespace h) buf) = true).
Proof.
  unfold validate_vol_gen. unfold_c09.
  destruct (zlen buf <? 64) eqn:E1; [discriminate|].
  destruct (v_hdrlen h <? 64) eqn:E2; [discriminate|].
  destruct (zlen buf <? v_hdrlen h) eqn:E3; [discriminate|].
  rewrite slice_ok by lia. cbn [of_opt bind]. rewrite Z.sub_0_r.
  destruct (fx && (0 <? v_freespace h) && (v_freespace h <=? zlen buf)) eqn:E4; cbn [bind].
  - rewrite slice_ok by lia. cbn [of_opt bind].
    replace (zlen buf - (zlen buf - v_freespace h)) with (v_freespace h) by lia.
    intros H; apply Ok_inj in H.
    apply app_eq_nil in H as [H1 H]. apply app_eq_nil in H as [H2 H].
    apply app_eq_nil in H as [H3 H]. apply app_eq_nil in H as [H4 H].
    apply app_eq_nil in H as [H5 H]. apply app_eq_nil in H as [H6 H7].
    apply if_nil_true in H1, H2, H3, H4, H5.
    destruct (negb (Z.even (zlen (sub 0 (v_hdrlen h) buf)))); [discriminate|].
    apply if_nil_true in H6.
    destruct (forallb _ _) eqn:EF in H7; [|discriminate].
    repeat split; try lia; try assumption; try (intros _ _; exact EF).
  - intros H; apply Ok_inj in H.
    apply app_eq_nil in H as [H1 H]. apply app_eq_nil in H as [H2 H].
    apply app_eq_nil in H as [H3 H]. apply app_eq_nil in H as [H4 H].
    apply app_eq_nil in H as [H5 H]. apply app_eq_nil in H as [H6 _].
    apply if_nil_true in H1, H2, H3, H4, H5.
    destruct (negb (Z.even (zlen (sub 0 (v_hdrlen h) buf)))); [discriminate|].
    apply if_nil_true in H6.
    repeat split; try lia; try assumption; try (intros -> Hfs; cbn [andb] in E4; lia).
Qed.

(* what a clean file check says *)
Definition file_hs (h : filehdr) : Z := if attr_large (f_attr h) then 32 else 24.

Lemma validate_file_clean fx h buf : validate_file_gen fx h buf = Ok [] ->
  file_hs h <= zlen buf /\ zlen buf = f_ext h /\
  (f_size3 h = 16777215 <-> attr_large (f_attr h) = true) /\
  (f_size3 h <> 16777215 -> f_size3 h = f_ext h) /\
  (sum8 (sub 0 (file_hs h) buf) - f_ckf h - f_state h) mod 256 = 0 /\
  (attr_checksum (f_attr h) = false -> f_ckf h = 170) /\
  (attr_checksum (f_attr h) = true ->
     (if fx then (sum8 (sub (file_hs h) (zlen buf - file_hs h) buf) + f_ckf h) mod 256
      else sum8 (sub (file_hs h) (zlen buf - file_hs h) buf)) = 0).
Proof.
  unfold validate_file_gen, file_hs. unfold_c09.
  destruct (zlen buf <? 24) eqn:E1; [discriminate|].
  destruct (f_size3 h =? 16777215) eqn:Es.
  - destruct (zlen buf <? 32) eqn:E2; [discriminate|].
    destruct (attr_large (f_attr h)) eqn:El; cbn [negb]; [|discriminate].
    destruct (negb (zlen buf =? f_ext h)) eqn:E3; [discriminate|].
    rewrite checksum_header_total by (rewrite El; lia). rewrite El. cbn [bind].
    destruct (attr_checksum (f_attr h)) eqn:Ec; cbn [negb andb].
    + rewrite slice_ok by lia. cbn [of_opt bind].
      intros H; apply Ok_inj in H. apply app_eq_nil in H as [H1 H2]. apply if_nil_true in H1, H2.
      repeat split; try lia; try discriminate; try (intros _; destruct fx; lia).
    + destruct (f_ckf h =? 170) eqn:Ek; cbn [negb].
      * intros H; apply Ok_inj in H. apply if_nil_true in H. repeat split; try lia; try discriminate.
      * intros H; apply Ok_inj in H. apply app_eq_nil in H as [_ H]. discriminate.
  - destruct (attr_large (f_attr h)) eqn:El; [discriminate|].
    destruct (negb (f_size3 h =? f_ext h)) eqn:E4; [discriminate|].
    destruct (negb (zlen buf =? f_ext h)) eqn:E3; [discriminate|].
    rewrite checksum_header_total by (rewrite El; lia). rewrite El. cbn [bind].
    destruct (attr_checksum (f_attr h)) eqn:Ec; cbn [negb andb].
    + rewrite slice_ok by lia. cbn [of_opt bind].
      intros H; apply Ok_inj in H. apply app_eq_nil in H as [H1 H2]. apply if_nil_true in H1, H2.
      repeat split; try lia; try discriminate; try (intros _; destruct fx; lia).
    + destruct (f_ckf h =? 170) eqn:Ek; cbn [negb].
      * intros H; apply Ok_inj in H. apply if_nil_true in H. repeat split; try lia; try discriminate.
      * intros H; apply Ok_inj in H. apply app_eq_nil in H as [_ H]. discriminate.
Qed.

(* a report anywhere below a node is a report of the node *)
Definition reports_gen (fx : bool) (n : node) : Prop := exists l, validate_gen fx n = Ok l /\ l <> [].
Definition reports := reports_gen true.

Lemma validate_list_reports fx kids f : In f kids -> reports_gen fx f ->
  exists l, validate_list_gen fx kids = Ok l /\ l <> [].
Proof.
  induction kids as [|x kids IH]; [intros []|].
  intros [->|Hin] Hr; cbn [validate_list_gen].
  - destruct Hr as (lf & -> & Hne). destruct (validate_list_total' fx kids) as [r ->].
    cbn [bind]. eexists; split; [reflexivity|]. destruct lf; [congruence|discriminate].
  - destruct (validate_total fx x) as [a ->]. destruct (IH Hin Hr) as (l & -> & Hne).
    cbn [bind]. eexists; split; [reflexivity|]. intros E. apply app_eq_nil in E as [_ E]. auto.
Qed.

Lemma reports_child_vol fx h buf kids f : In f kids -> reports_gen fx f -> reports_gen fx (NVol h buf kids).
Proof.
  intros Hin Hr. unfold reports_gen. rewrite validate_gen_vol.
  destruct (validate_vol_total fx h buf) as [a ->].
  destruct (validate_list_reports fx kids f Hin Hr) as (l & -> & Hne). cbn [bind].
  eexists; split; [reflexivity|]. intros E. apply app_eq_nil in E as [_ E]. auto.
Qed.

Lemma reports_child_file fx h buf kids f : In f kids -> reports_gen fx f -> reports_gen fx (NFile h buf kids).
Proof.
  intros Hin Hr. unfold reports_gen. rewrite validate_gen_file.
  destruct (validate_file_total fx h buf) as [a ->].
  destruct (validate_list_reports fx kids f Hin Hr) as (l & -> & Hne). cbn [bind].
  eexists; split; [reflexivity|]. intros E. apply app_eq_nil in E as [_ E]. auto.
Qed.

Lemma reports_child_sec fx h buf kids f : In f kids -> reports_gen fx f -> reports_gen fx (NSec h buf kids).
Proof.
  intros Hin Hr. unfold reports_gen. rewrite validate_gen_sec.
  destruct (validate_list_reports fx kids f Hin Hr) as (l & -> & Hne). cbn [bind].
  eexists; split; [reflexivity|]. intros E. apply app_eq_nil in E as [_ E]. auto.
Qed.

Lemma reports_vol_self fx h buf kids l : validate_vol_gen fx h buf = Ok l -> l <> [] ->
  reports_gen fx (NVol h buf kids).
Proof.
  intros Hv Hne. unfold reports_gen. rewrite validate_gen_vol, Hv.
  destruct (validate_list_total' fx kids) as [r ->]. cbn [bind].
  eexists; split; [reflexivity|]. destruct l; [congruence|discriminate].
Qed.

Lemma reports_file_self fx h buf kids l : validate_file_gen fx h buf = Ok l -> l <> [] ->
  reports_gen fx (NFile h buf kids).
Proof.
  intros Hv Hne. unfold reports_gen. rewrite validate_gen_file, Hv.
  destruct (validate_list_total' fx kids) as [r ->]. cbn [bind].
  eexists; split; [reflexivity|]. destruct l; [congruence|discriminate].
Qed.

(* a clean tree has clean nodes *)
Lemma validate_list_clean fx kids : validate_list_gen fx kids = Ok [] ->
  Forall (fun n => validate_gen fx n = Ok []) kids.
Proof.
  induction kids as [|x kids IH]; [constructor|]. cbn [validate_list_gen].
  destruct (validate_total fx x) as [a Ha]. rewrite Ha.
  destruct (validate_list_total' fx kids) as [r Hr]. rewrite Hr. cbn [bind].
  intros E; apply Ok_inj in E. apply app_eq_nil in E as [-> ->]. constructor; auto.
Qed.

Lemma validate_vol_node_clean fx h buf kids : validate_gen fx (NVol h buf kids) = Ok [] ->
  validate_vol_gen fx h buf = Ok [] /\ Forall (fun n => validate_gen fx n = Ok []) kids.
Proof.
  rewrite validate_gen_vol. destruct (validate_vol_total fx h buf) as [a ->].
  destruct (validate_list_total' fx kids) as [r Hr]. rewrite Hr. cbn [bind].
  intros E; apply Ok_inj in E. apply app_eq_nil in E as [-> ->]. split; [reflexivity|].
  apply validate_list_clean. exact Hr.
Qed.

Lemma validate_file_node_clean fx h buf kids : validate_gen fx (NFile h buf kids) = Ok [] ->
  validate_file_gen fx h buf = Ok [].
Proof.
  rewrite validate_gen_file. destruct (validate_file_total fx h buf) as [a ->].
  destruct (validate_list_total' fx kids) as [r ->]. cbn [bind].
  intros E; apply Ok_inj in E. apply app_eq_nil in E as [-> _]. reflexivity.
Qed.

(* ================= Part D: the volume header ================= *)

Definition fv_has_ext (data : bytes) : bool :=
  negb (rd 52 2 data =? 0) && (20 <=? rd 32 8 data) && (rd 52 2 data <? rd 32 8 data - 20).
Definition fv_extsize (data : bytes) : Z :=
  if fv_has_ext data then rd (rd 52 2 data + 16) 4 data else 0.
Definition fv_doff (data : bytes) : Z :=
  align8 (if fv_has_ext data then rd 52 2 data + fv_extsize data else rd 48 2 data).
Definition fv_hdr (data : bytes) (fvoff : Z) (res : bool) (blocks : list (Z * Z)) (fs : Z) : volhdr :=
  mkVol (sub 0 16 data) (sub 16 16 data) (rd 32 8 data) (rd 40 4 data) (rd 44 4 data) (rd 48 2 data)
        (rd 50 2 data) (rd 52 2 data) (rd 54 1 data) (rd 55 1 data) blocks
        (if fv_has_ext data then sub (rd 52 2 data) 16 data else [])
        (fv_extsize data)
        (fv_doff data) fvoff res fs.

Lemma fv_body_inv rf pol data fvoff res n pol' :
  fv_body rf pol data fvoff res = Ok (n, pol') ->
  exists blocks pol1 kids fs,
    n = NVol (fv_hdr data fvoff res blocks fs) (sub 0 (rd 32 8 data) data) kids /\
    parse_blocks (Z.to_nat (zlen data) + 1) (zskipn 56 data) = Ok blocks /\
    set_polarity pol (fv_polarity (rd 44 4 data)) = Some pol1 /\
    64 <= zlen data /\ 64 <= rd 32 8 data <= zlen data /\
    ((supported_fv (sub 16 16 data) = false /\ kids = []) \/
     (supported_fv (sub 16 16 data) = true /\
      files_loop rf (Z.to_nat (zlen data) + 1) data (rd 32 8 data) pol1 (fv_doff data)
        = Ok (kids, pol', fs))).
Proof.
  unfold fv_body. cbv zeta.
  destruct (zlen data <? 64) eqn:E1; [discriminate|].
  destruct (parse_blocks (Z.to_nat (zlen data) + 1) (zskipn 56 data)) as [blocks| | |] eqn:EB;
    cbn [bind]; try discriminate.
  destruct (set_polarity pol (fv_polarity (rd 44 4 data))) as [pol1|] eqn:EP; [|discriminate].
  destruct (zlen data <? rd 32 8 data) eqn:E2; [discriminate|].
  destruct (rd 32 8 data <? 64) eqn:E3; [discriminate|].
  destruct (supported_fv (sub 16 16 data)) eqn:ES; cbn [negb].
  - destruct (files_loop rf (Z.to_nat (zlen data) + 1) data (rd 32 8 data) pol1 _)
      as [[[files pol2] fs]| | |] eqn:EL; cbn [bind]; try discriminate.
    intros H. apply Ok_inj in H. injection H as <- <-.
    exists blocks, pol1, files, fs.
    split; [reflexivity|]. split; [reflexivity|]. split; [reflexivity|]. split; [lia|]. split; [lia|].
    right. split; [reflexivity|]. exact EL.
  - intros H. apply Ok_inj in H. injection H as <- <-.
    exists blocks, pol1, [], 0.
    split; [reflexivity|]. split; [reflexivity|]. split; [reflexivity|]. split; [lia|]. split; [lia|].
    left. split; reflexivity.
Qed.

Lemma zlen_zfirstn_min {A} n (l : list A) : 0 <= n -> zlen (zfirstn n l) = Z.min n (zlen l).
Proof. intros. unfold zlen, zfirstn. rewrite firstn_length. lia. Qed.

Lemma prefix_len_ge {A} (b b2 : list A) E n : zfirstn E b2 = zfirstn E b -> 0 <= n <= E ->
  n <= zlen b -> n <= zlen b2.
Proof.
  intros HE Hn Hb. assert (K : zlen (zfirstn E b2) = zlen (zfirstn E b)) by (rewrite HE; reflexivity).
  rewrite !zlen_zfirstn_min in K by lia. lia.
Qed.

(* the block map is determined by the bytes up to and including its terminator *)
Lemma parse_blocks_prefix fuel : forall b b2 l, parse_blocks fuel b = Ok l ->
  zfirstn (8 * (zlen l + 1)) b2 = zfirstn (8 * (zlen l + 1)) b -> parse_blocks fuel b2 = Ok l.
Proof.
  induction fuel as [|fuel IH]; intros b b2 l; cbn [parse_blocks]; [discriminate|].
  destruct (zlen b <? 8) eqn:E1; [discriminate|].
  intros H HE. pose proof (zlen_nonneg l) as Hl.
  assert (L2 : 8 <= zlen b2) by (eapply (prefix_len_ge b b2); [exact HE| |]; lia).
  replace (zlen b2 <? 8) with false by lia.
  rewrite (rd_prefix b2 b _ 0 4 HE) by lia.
  rewrite (rd_prefix b2 b _ 4 4 HE) by lia.
  destruct ((rd 0 4 b =? 0) && (rd 4 4 b =? 0)) eqn:ET; [exact H|].
  destruct (parse_blocks fuel (zskipn 8 b)) as [l0| | |] eqn:R; cbn [bind] in H; try discriminate.
  apply Ok_inj in H. subst l. rewrite zlen_cons in HE.
  rewrite (IH (zskipn 8 b) (zskipn 8 b2) l0 R); [reflexivity|].
  pose proof (zlen_nonneg l0).
  change (zfirstn (8 * (zlen l0 + 1)) (zskipn 8 b2)) with (sub 8 (8 * (zlen l0 + 1)) b2).
  change (zfirstn (8 * (zlen l0 + 1)) (zskipn 8 b)) with (sub 8 (8 * (zlen l0 + 1)) b).
  eapply sub_prefix; [exact HE| |]; lia.
Qed.

Lemma nblocks_nonneg l : 0 <= nblocks l.
Proof. induction l as [|[c s] l IH]; cbn [nblocks]; [lia|]. destruct ((c =? 0) && (s =? 0)); lia. Qed.

(* the parser stops at the first zero entry, so a parsed block map has none *)
Lemma parse_blocks_nblocks fuel : forall b l, parse_blocks fuel b = Ok l -> nblocks l = zlen l.
Proof.
  induction fuel as [|fuel IH]; intros b l; cbn [parse_blocks]; [discriminate|].
  destruct (zlen b <? 8); [discriminate|].
  destruct ((rd 0 4 b =? 0) && (rd 4 4 b =? 0)) eqn:ET.
  - intros H; apply Ok_inj in H. subst l. reflexivity.
  - destruct (parse_blocks fuel (zskipn 8 b)) as [l0| | |] eqn:R; cbn [bind]; try discriminate.
    intros H; apply Ok_inj in H. subst l. cbn [nblocks]. rewrite ET, zlen_cons, (IH _ _ R). reflexivity.
Qed.

Lemma sub0_sub0 (b : bytes) H L : 0 <= H <= L -> sub 0 H (sub 0 L b) = sub 0 H b.
Proof.
  intros HL. unfold sub at 2. change (zskipn 0 b) with b. apply sub_zfirstn; lia.
Qed.

Lemma zlen_sub0 (b : bytes) L : 0 <= L <= zlen b -> zlen (sub 0 L b) = L.
Proof. intros. apply zlen_sub; lia. Qed.

(* C09_fv_header_detects *)
Lemma fv_header_detects rf rf' pol pol2 b b' fvoff fvoff' res res' h buf kids pol' i :
  fv_body rf pol b fvoff res = Ok (NVol h buf kids, pol') ->
  validate_vol h buf = Ok [] ->
  single_change b i b' -> i < v_hdrlen h -> ~ (40 <= i < 44) ->
  forall r, fv_body rf' pol2 b' fvoff' res' = Ok r -> reports (fst r).
Proof.
  intros HP HV HS Hi Hsig [n' pol''] HP'.
  destruct (fv_body_inv _ _ _ _ _ _ _ HP) as (blocks & pol1 & kids0 & fs & Hn & HB & _ & L0 & L1 & _).
  injection Hn as -> -> ->.
  destruct (fv_body_inv _ _ _ _ _ _ _ HP') as (blocks' & pol1' & kids' & fs' & -> & HB' & _ & L0' & L1' & _).
  cbn [fst].
  destruct (validate_vol_total true (fv_hdr b' fvoff' res' blocks' fs') (sub 0 (rd 32 8 b') b')) as [l Hl].
  destruct l as [|e l]; [|eapply reports_vol_self; [exact Hl|discriminate]].
  exfalso.
  apply (validate_vol_clean true) in HV. apply validate_vol_clean in Hl.
  cbn [fv_hdr v_hdrlen v_blocks v_length] in HV, Hl, Hi.
  destruct HV as (V1 & V2 & _ & _ & _ & V6 & V7 & _).
  destruct Hl as (W1 & W2 & _ & _ & _ & W6 & W7 & _).
  rewrite zlen_sub0 in V1, V6 by lia. rewrite zlen_sub0 in W1, W6 by lia.
  pose proof (single_change_range _ _ _ HS) as Ri.
  pose proof (single_change_len _ _ _ HS) as Len.
  pose proof (zlen_nonneg blocks) as Nb. pose proof (zlen_nonneg blocks') as Nb'.
  destruct (Z_lt_ge_dec i 48) as [Hlo|Hge48]; [|destruct (Z_lt_ge_dec i 50) as [H50|Hhi]].
  3: {
    (* fields after HeaderLen (or the block map): the length field is unchanged, checksum decides *)
    assert (EH : rd 48 2 b' = rd 48 2 b) by (eapply single_change_rd_same; [exact HS|lia|lia]).
    rewrite EH in *. rewrite sub0_sub0 in V7, W7 by lia.
    destruct (single_change_sub b i b' 0 (rd 48 2 b) HS ltac:(lia) ltac:(lia))
      as (p & x & y & s & Eb & Eb' & _ & Hne & Hx & Hy).
    rewrite Eb in V7. rewrite Eb' in W7.
    refine (sum16_single_change_zero p x y s _ Hx Hy Hne V7 W7).
    rewrite <- Eb. rewrite zlen_sub0 by lia. rewrite V2.
    rewrite Z.even_add. rewrite Z.even_mul. reflexivity. }
  2: {
    (* the HeaderLen field itself: the block map is unchanged, so the expected length is the old one *)
    assert (ED : rd 48 2 b' <> rd 48 2 b) by (eapply single_change_rd_diff; [exact HS|lia|lia]).
    assert (EB : blocks' = blocks).
    { assert (K : parse_blocks (Z.to_nat (zlen b') + 1) (zskipn 56 b') = Ok blocks).
      { rewrite Len. eapply parse_blocks_prefix; [exact HB|].
        change (zfirstn (8 * (zlen blocks + 1)) (zskipn 56 b')) with (sub 56 (8 * (zlen blocks + 1)) b').
        change (zfirstn (8 * (zlen blocks + 1)) (zskipn 56 b)) with (sub 56 (8 * (zlen blocks + 1)) b).
        eapply single_change_sub_same; [exact HS|lia|right; lia]. }
      congruence. }
    subst blocks'. lia. }
  (* fields before HeaderLen *)
  assert (EH : rd 48 2 b' = rd 48 2 b) by (eapply single_change_rd_same; [exact HS|lia|lia]).
  rewrite EH in *. rewrite sub0_sub0 in V7, W7 by lia.
  destruct (single_change_sub b i b' 0 (rd 48 2 b) HS ltac:(lia) ltac:(lia))
    as (p & x & y & s & Eb & Eb' & _ & Hne & Hx & Hy).
  rewrite Eb in V7. rewrite Eb' in W7.
  refine (sum16_single_change_zero p x y s _ Hx Hy Hne V7 W7).
  rewrite <- Eb. rewrite zlen_sub0 by lia. rewrite V2.
  rewrite Z.even_add. rewrite Z.even_mul. reflexivity.
Qed.

(* ================= Part E: files ================= *)

(* ---- E.1 the file parser: unfolding, inversion, locality ---- *)

Definition is_free_marker (pol : Z) (buf : bytes) : bool :=
  (rd 20 3 buf =? 16777215) &&
  (if zlen buf <? 32 then forallb (fun x => x =? pol) buf else rd 24 8 buf =? U64 - 1).

(* the side condition of the file-header theorems: the altered header reads as the start of the
   volume free space (size FFFFFF and extended size FFFFFFFFFFFFFFFF) *)
Definition becomes_free_marker (buf : bytes) : Prop :=
  rd 20 3 buf = 16777215 /\ 32 <= zlen buf /\ rd 24 8 buf = U64 - 1.

Definition file_ext_of (buf : bytes) : Z :=
  if rd 20 3 buf =? 16777215 then rd 24 8 buf else rd 20 3 buf.
Definition file_doff_of (buf : bytes) : Z := if rd 20 3 buf =? 16777215 then 32 else 24.
Definition file_hdr_gen (buf : bytes) (ext doff : Z) (nv : option bytes) : filehdr :=
  mkFile (sub 0 16 buf) (rd 16 1 buf) (rd 17 1 buf) (rd 18 1 buf) (rd 19 1 buf) (rd 20 3 buf)
         (rd 23 1 buf) ext doff nv.
Definition file_hdr_of (buf : bytes) (nv : option bytes) : filehdr :=
  file_hdr_gen buf (file_ext_of buf) (file_doff_of buf) nv.

Definition file_tail (nvar : bytes -> option bytes) (rs : Z -> bytes -> Z -> outcome (node * Z))
  (pol : Z) (buf : bytes) (ext doff : Z) : outcome (option node * Z) :=
  if zlen buf <? ext then Err E_SIZE else
  if ext <? doff then Err E_SIZE else
  let fbuf := sub 0 ext buf in
  do nv <-
    (if (rd 18 1 buf =? 1) && bytes_eqb (sub 0 16 buf) NVAR_GUID then
       if zlen fbuf <=? doff then Err E_BEYOND else Ok (nvar (zskipn doff fbuf))
     else Ok None);
  let h := file_hdr_gen buf ext doff nv in
  if negb (supported_file (rd 18 1 buf)) then Ok (Some (NFile h fbuf []), pol) else
  do kp <- sections_loop rs (Z.to_nat ext + 1) fbuf pol doff 0;
  let '(kids, pol') := kp in
  Ok (Some (NFile h fbuf kids), pol').

Lemma file_body_unfold nvar rs pol buf : file_body nvar rs pol buf =
  if zlen buf <? 24 then Err E_SHORT else
  if rd 20 3 buf =? 16777215 then
    if zlen buf <? 32 then
      if forallb (fun x => x =? pol) buf then Ok (None, pol) else Err E_SHORT
    else if rd 24 8 buf =? U64 - 1 then Ok (None, pol)
         else file_tail nvar rs pol buf (rd 24 8 buf) 32
  else file_tail nvar rs pol buf (rd 20 3 buf) 24.
Proof.
  unfold file_body, file_tail, file_hdr_gen. cbv zeta.
  destruct (zlen buf <? 24); [reflexivity|].
  destruct (rd 20 3 buf =? 16777215).
  - destruct (zlen buf <? 32).
    + destruct (forallb (fun x => x =? pol) buf); cbn [bind]; [|reflexivity].
      rewrite Z.eqb_refl. reflexivity.
    + cbn [bind andb]. reflexivity.
  - cbn [bind andb]. reflexivity.
Qed.

Lemma file_tail_inv nvar rs pol buf ext doff r : file_tail nvar rs pol buf ext doff = Ok r ->
  ext <= zlen buf /\
  exists nv kids pol', r = (Some (NFile (file_hdr_gen buf ext doff nv) (sub 0 ext buf) kids), pol').
Proof.
  unfold file_tail. cbv zeta.
  destruct (zlen buf <? ext) eqn:E1; [discriminate|].
  destruct (ext <? doff) eqn:E2; [discriminate|].
  destruct ((rd 18 1 buf =? 1) && bytes_eqb (sub 0 16 buf) NVAR_GUID).
  - destruct (zlen (sub 0 ext buf) <=? doff); cbn [bind]; [discriminate|].
    destruct (negb (supported_file (rd 18 1 buf))).
    + intros H; apply Ok_inj in H. subst r. split; [lia|]. eauto.
    + destruct (sections_loop rs _ _ _ _ _) as [[kids pol']| | |]; cbn [bind]; try discriminate.
      intros H; apply Ok_inj in H. subst r. split; [lia|]. eauto.
  - cbn [bind]. destruct (negb (supported_file (rd 18 1 buf))).
    + intros H; apply Ok_inj in H. subst r. split; [lia|]. eauto.
    + destruct (sections_loop rs _ _ _ _ _) as [[kids pol']| | |]; cbn [bind]; try discriminate.
      intros H; apply Ok_inj in H. subst r. split; [lia|]. eauto.
Qed.

Lemma file_body_inv nvar rs pol buf r : file_body nvar rs pol buf = Ok r ->
  24 <= zlen buf /\
  ((is_free_marker pol buf = true /\ r = (None, pol)) \/
   (is_free_marker pol buf = false /\ (rd 20 3 buf = 16777215 -> 32 <= zlen buf) /\
    file_ext_of buf <= zlen buf /\
    exists nv kids pol',
      r = (Some (NFile (file_hdr_of buf nv) (sub 0 (file_ext_of buf) buf) kids), pol'))).
Proof.
  rewrite file_body_unfold. unfold is_free_marker, file_hdr_of, file_ext_of, file_doff_of.
  destruct (zlen buf <? 24) eqn:E24; [discriminate|].
  destruct (rd 20 3 buf =? 16777215) eqn:ES; cbn [andb].
  - destruct (zlen buf <? 32) eqn:E32.
    + destruct (forallb (fun x => x =? pol) buf); [|discriminate].
      intros H; apply Ok_inj in H. split; [lia|]. left. auto.
    + destruct (rd 24 8 buf =? U64 - 1) eqn:EM.
      * intros H; apply Ok_inj in H. split; [lia|]. left. auto.
      * intros H. apply file_tail_inv in H as (H1 & H2). split; [lia|]. right.
        repeat split; auto; lia.
  - intros H. apply file_tail_inv in H as (H1 & H2). split; [lia|]. right.
    repeat split; auto; lia.
Qed.

(* the file parser looks at the first [ext] bytes only (when the header lies inside them) *)
Lemma file_tail_prefix nvar rs pol buf buf2 ext doff :
  zfirstn ext buf2 = zfirstn ext buf -> zlen buf2 = zlen buf -> 24 <= ext ->
  file_tail nvar rs pol buf2 ext doff = file_tail nvar rs pol buf ext doff.
Proof.
  intros HE HL H24. unfold file_tail, file_hdr_gen. cbv zeta. rewrite HL.
  assert (S0 : sub 0 ext buf2 = sub 0 ext buf) by (unfold sub; exact HE).
  rewrite S0.
  rewrite (sub_prefix buf2 buf ext 0 16 HE) by lia.
  rewrite (rd_prefix buf2 buf ext 16 1 HE) by lia.
  rewrite (rd_prefix buf2 buf ext 17 1 HE) by lia.
  rewrite (rd_prefix buf2 buf ext 18 1 HE) by lia.
  rewrite (rd_prefix buf2 buf ext 19 1 HE) by lia.
  rewrite (rd_prefix buf2 buf ext 20 3 HE) by lia.
  rewrite (rd_prefix buf2 buf ext 23 1 HE) by lia.
  reflexivity.
Qed.

Lemma file_body_prefix nvar rs pol buf buf2 h fbuf kids pol' :
  file_body nvar rs pol buf = Ok (Some (NFile h fbuf kids), pol') ->
  file_hs h <= f_ext h ->
  (f_size3 h = 16777215 -> attr_large (f_attr h) = true) ->
  zfirstn (f_ext h) buf2 = zfirstn (f_ext h) buf -> zlen buf2 = zlen buf ->
  file_body nvar rs pol buf2 = Ok (Some (NFile h fbuf kids), pol').
Proof.
  intros HP Hhs Hl HE HL.
  destruct (file_body_inv _ _ _ _ _ HP) as (L24 & [[_ K]|(FM & L32 & Lext & nv & kids0 & pol0 & K)]);
    [discriminate|].
  injection K as -> -> -> ->. unfold file_hs in Hhs.
  cbn [file_hdr_of file_hdr_gen f_ext f_size3 f_attr] in *.
  rewrite <- HP. rewrite !file_body_unfold. rewrite HL.
  assert (E24 : 24 <= file_ext_of buf) by (destruct (attr_large _); lia).
  rewrite (rd_prefix buf2 buf _ 20 3 HE) by lia.
  destruct (zlen buf <? 24); [reflexivity|].
  unfold file_ext_of in *.
  destruct (rd 20 3 buf =? 16777215) eqn:ES.
  - assert (E32 : 32 <= rd 24 8 buf).
    { rewrite Hl in Hhs by lia. exact Hhs. }
    replace (zlen buf <? 32) with false by lia.
    rewrite (rd_prefix buf2 buf _ 24 8 HE) by lia.
    destruct (rd 24 8 buf =? U64 - 1); [reflexivity|].
    apply file_tail_prefix; auto.
  - apply file_tail_prefix; auto.
Qed.

(* ---- E.2 detection at the level of one file ---- *)

Lemma mod256_cancel a a' c : 0 <= a < 256 -> 0 <= a' < 256 ->
  (a - c) mod 256 = 0 -> (a' - c) mod 256 = 0 -> a = a'.
Proof.
  intros Ha Ha' H H'.
  destruct (mod_eq_diff 256 (a - c) (a' - c) ltac:(lia) ltac:(congruence)) as [k Hk]. lia.
Qed.

Lemma mod256_cancel2 a a' c d : 0 <= a < 256 -> 0 <= a' < 256 ->
  (a - c - d) mod 256 = 0 -> (a' - c - d) mod 256 = 0 -> a = a'.
Proof.
  intros Ha Ha' H H'.
  destruct (mod_eq_diff 256 (a - c - d) (a' - c - d) ltac:(lia) ltac:(congruence)) as [k Hk]. lia.
Qed.

Lemma mod256_cancel_add a a' c : 0 <= a < 256 -> 0 <= a' < 256 ->
  (a + c) mod 256 = 0 -> (a' + c) mod 256 = 0 -> a = a'.
Proof.
  intros Ha Ha' H H'.
  destruct (mod_eq_diff 256 (a + c) (a' + c) ltac:(lia) ltac:(congruence)) as [k Hk]. lia.
Qed.

Lemma sub_sub0 (b : bytes) a l L : 0 <= a -> a + l <= L -> sub a l (sub 0 L b) = sub a l b.
Proof.
  intros Ha HL. unfold sub at 2. change (zskipn 0 b) with b. apply sub_zfirstn; lia.
Qed.

Lemma forallb_firstn {A} (P : A -> bool) n l : forallb P l = true -> forallb P (firstn n l) = true.
Proof.
  revert l; induction n as [|n IH]; intros [|x l]; simpl; auto.
  intros H. apply andb_true_iff in H as [-> H]. simpl. auto.
Qed.

Lemma forallb_skipn {A} (P : A -> bool) n l : forallb P l = true -> forallb P (skipn n l) = true.
Proof.
  revert l; induction n as [|n IH]; intros [|x l]; simpl; auto.
  intros H. apply andb_true_iff in H as [_ H]. auto.
Qed.

Lemma all_eq_repeat v (l : bytes) : forallb (fun x => x =? v) l = true -> l = repeatz v (length l).
Proof.
  induction l as [|x l IH]; [reflexivity|]. cbn [forallb length repeatz].
  intros H. apply andb_true_iff in H as [E H]. apply Z.eqb_eq in E. subst x. f_equal. auto.
Qed.

Lemma all_eq_sub v (l : bytes) off len : forallb (fun x => x =? v) l = true ->
  0 <= off -> 0 <= len -> off + len <= zlen l -> sub off len l = zrepeat v len.
Proof.
  intros H H0 H1 H2. unfold zrepeat.
  assert (K : forallb (fun x => x =? v) (sub off len l) = true)
    by (unfold sub, zfirstn, zskipn; apply forallb_firstn, forallb_skipn, H).
  rewrite (all_eq_repeat v _ K). f_equal.
  pose proof (zlen_sub off len l H0 H1 H2) as L. unfold zlen in L. lia.
Qed.

Definition prot_hdr (large : bool) (j : Z) : Prop :=
  0 <= j < 17 \/ 18 <= j < 23 \/ (large = true /\ 24 <= j < 32).

Lemma attr_large_255 : attr_large 255 = true.
Proof. reflexivity. Qed.

(* a changed header byte cannot produce the short all-erased tail *)
Lemma short_marker_impossible fb fb' j pol2 nv :
  validate_file (file_hdr_of fb nv) (sub 0 (file_ext_of fb) fb) = Ok [] ->
  file_ext_of fb <= zlen fb -> 24 <= zlen fb ->
  single_change fb j fb' -> 0 <= j < 23 ->
  zlen fb' < 32 -> rd 20 3 fb' = 16777215 -> forallb (fun x => x =? pol2) fb' = true -> False.
Proof.
  intros HV Lext L24 HS Hj Hshort Hsz Hall.
  pose proof (single_change_len _ _ _ HS) as Len.
  apply validate_file_clean in HV. destruct HV as (C1 & C2 & C3 & _).
  unfold file_hs in C1. cbn [file_hdr_of file_hdr_gen f_attr f_size3 f_ext] in C1, C2, C3.
  assert (E3 : rd 20 3 fb' = pol2 + 256 * (pol2 + 256 * (pol2 + 0))).
  { unfold rd. change (Z.of_nat 3) with 3. rewrite (all_eq_sub pol2 fb' 20 3 Hall) by lia. reflexivity. }
  assert (E1 : rd 19 1 fb' = pol2 + 0).
  { unfold rd. change (Z.of_nat 1) with 1. rewrite (all_eq_sub pol2 fb' 19 1 Hall) by lia. reflexivity. }
  assert (P : pol2 = 255) by lia. subst pol2.
  assert (Hnl : attr_large (rd 19 1 fb) = false).
  { destruct (attr_large (rd 19 1 fb)); [|reflexivity].
    assert (zlen (sub 0 (file_ext_of fb) fb) <= zlen fb).
    { destruct (Z_le_gt_dec 0 (file_ext_of fb)).
      - rewrite zlen_sub0 by lia. lia.
      - unfold sub, zfirstn. replace (Z.to_nat (file_ext_of fb)) with O by lia.
        change (zlen (firstn 0 (zskipn 0 fb))) with 0. lia. }
    lia. }
  destruct (Z.eq_dec j 19) as [->|Hn19].
  - assert (ES : rd 20 3 fb' = rd 20 3 fb) by (eapply single_change_rd_same; [exact HS|lia|right; lia]).
    rewrite Hsz in ES. symmetry in ES. apply C3 in ES. congruence.
  - assert (EA : rd 19 1 fb' = rd 19 1 fb).
    { eapply single_change_rd_same; [exact HS|lia|]. destruct (Z_lt_ge_dec j 19); [right|left]; lia. }
    rewrite <- EA, E1 in Hnl. change (255 + 0) with 255 in Hnl. rewrite attr_large_255 in Hnl. discriminate.
Qed.

(* C09_file_header_detects, local form *)
Lemma file_header_detects_local nvar rs nvar2 rs2 pol pol2 fb fb' j h fbuf kids pol' :
  file_body nvar rs pol fb = Ok (Some (NFile h fbuf kids), pol') ->
  validate_file h fbuf = Ok [] ->
  single_change fb j fb' -> prot_hdr (attr_large (f_attr h)) j ->
  ~ becomes_free_marker fb' ->
  forall r, file_body nvar2 rs2 pol2 fb' = Ok r -> exists f', fst r = Some f' /\ reports f'.
Proof.
  intros HP HV HS Hj Hfm r HP'.
  destruct (file_body_inv _ _ _ _ _ HP) as (L24 & [[_ K]|(FM & L32 & Lext & nv & kids0 & pol0 & K)]);
    [discriminate|].
  injection K as -> -> -> ->.
  pose proof (single_change_len _ _ _ HS) as Len.
  pose proof HV as HC. apply validate_file_clean in HC.
  destruct HC as (C1 & C2 & C3 & _ & C5 & _).
  unfold file_hs in C1, C5. cbn [file_hdr_of file_hdr_gen f_attr f_size3 f_ext f_ckf f_state] in C1, C2, C3, C5, Hj.
  assert (Lext0 : 24 <= file_ext_of fb) by (destruct (attr_large (rd 19 1 fb)); lia).
  rewrite zlen_sub0 in C1 by lia.
  assert (Hj32 : j < (if attr_large (rd 19 1 fb) then 32 else 24)).
  { destruct Hj as [?|[?|[-> ?]]]; [destruct (attr_large _); lia|destruct (attr_large _); lia|lia]. }
  destruct (file_body_inv _ _ _ _ _ HP') as (L24' & [[FM' _]|(FM' & L32' & Lext' & nv' & kids' & pol'' & ->)]).
  { (* the altered header is the free-space marker *)
    exfalso. unfold is_free_marker in FM'. apply andb_true_iff in FM' as [Es FM'].
    apply Z.eqb_eq in Es.
    destruct (zlen fb' <? 32) eqn:E32.
    - assert (Hl : attr_large (rd 19 1 fb) = false).
      { destruct (attr_large (rd 19 1 fb)); [lia|reflexivity]. }
      rewrite Hl in Hj32, Hj.
      assert (J23 : 0 <= j < 23).
      { pose proof (single_change_range _ _ _ HS). destruct Hj as [?|[?|[? _]]]; [lia|lia|discriminate]. }
      eapply (short_marker_impossible fb fb' j pol2 nv); eauto; try lia.
    - apply Hfm. split; [exact Es|]. split; [lia|]. apply Z.eqb_eq. exact FM'. }
  cbn [fst]. eexists; split; [reflexivity|].
  destruct (validate_file_total true (file_hdr_of fb' nv') (sub 0 (file_ext_of fb') fb')) as [l Hl].
  destruct l as [|e l]; [|eapply reports_file_self; [exact Hl|discriminate]].
  exfalso. apply validate_file_clean in Hl.
  destruct Hl as (D1 & D2 & D3 & _ & D5 & _).
  unfold file_hs in D1, D5. cbn [file_hdr_of file_hdr_gen f_attr f_size3 f_ext f_ckf f_state] in D1, D2, D3, D5.
  assert (Lext0' : 24 <= file_ext_of fb') by (destruct (attr_large (rd 19 1 fb')); lia).
  rewrite zlen_sub0 in D1 by lia.
  pose proof (single_change_range _ _ _ HS) as Rj.
  (* the large attribute is the same before and after *)
  assert (EL : attr_large (rd 19 1 fb') = attr_large (rd 19 1 fb)).
  { destruct (Z.eq_dec j 19) as [->|Hn19].
    - assert (ES : rd 20 3 fb' = rd 20 3 fb) by (eapply single_change_rd_same; [exact HS|lia|right; lia]).
      rewrite ES in D3.
      destruct (attr_large (rd 19 1 fb')), (attr_large (rd 19 1 fb)); auto.
      + symmetry. apply C3. apply D3. reflexivity.
      + apply D3. apply C3. reflexivity.
    - f_equal. eapply single_change_rd_same; [exact HS|lia|].
      destruct (Z_lt_ge_dec j 19); [right|left]; lia. }
  rewrite EL in *.
  set (HSZ := if attr_large (rd 19 1 fb) then 32 else 24) in *.
  assert (HSZ0 : 24 <= HSZ <= 32) by (subst HSZ; destruct (attr_large _); lia).
  rewrite sub0_sub0 in C5, D5 by lia.
  assert (EK : rd 17 1 fb' = rd 17 1 fb).
  { eapply single_change_rd_same; [exact HS|lia|].
    destruct Hj as [?|[?|[_ ?]]]; [right|left|left]; lia. }
  assert (ET : rd 23 1 fb' = rd 23 1 fb).
  { eapply single_change_rd_same; [exact HS|lia|].
    destruct Hj as [?|[?|[_ ?]]]; [right|right|left]; lia. }
  rewrite EK, ET in D5.
  destruct (single_change_sub fb j fb' 0 HSZ HS ltac:(lia) ltac:(lia))
    as (p & x & y & s & Eb & Eb' & _ & Hne & Hx & Hy).
  rewrite Eb in C5. rewrite Eb' in D5.
  apply (sum8_single_change p x y s Hx Hy Hne).
  eapply mod256_cancel2; [apply sum8_range|apply sum8_range|exact C5|exact D5].
Qed.

Lemma zlen_0_inv {A} (l : list A) : zlen l = 0 -> l = [].
Proof. destruct l; [reflexivity|]. rewrite zlen_cons. pose proof (zlen_nonneg l). lia. Qed.
Lemma zlen_1_inv {A} (l : list A) : zlen l = 1 -> exists a, l = [a].
Proof.
  destruct l as [|a l]; [discriminate|]. rewrite zlen_cons. intros H.
  rewrite (zlen_0_inv l) by lia. eauto.
Qed.
Lemma zlen_2_inv {A} (l : list A) : zlen l = 2 -> exists a b, l = [a; b].
Proof.
  destruct l as [|a l]; [discriminate|]. rewrite zlen_cons. intros H.
  destruct (zlen_1_inv l ltac:(lia)) as [b ->]. eauto.
Qed.

(* when does a single header byte turn a clean file header into the free-space marker: exactly
   when a size byte is raised to FF, the other two size bytes already are FF, the file is not
   large (so it is at least 0xFFFF bytes long) and its body starts with eight FF bytes *)
Lemma free_marker_class nvar rs pol fb fb' j h fbuf kids pol' :
  file_body nvar rs pol fb = Ok (Some (NFile h fbuf kids), pol') ->
  validate_file h fbuf = Ok [] -> bytes_ok fb = true -> single_change fb j fb' -> 0 <= j < 24 ->
  becomes_free_marker fb' ->
  20 <= j < 23 /\ attr_large (f_attr h) = false /\ f_size3 h <> 16777215 /\
  rd 20 3 fb' = 16777215 /\ rd 24 8 fb = U64 - 1 /\ 65535 <= f_ext h.
Proof.
  intros HP HV Hok HS Hj (M1 & M2 & M3).
  destruct (file_body_inv _ _ _ _ _ HP) as (L24 & [[_ K]|(FM & L32 & Lext & nv & kids0 & pol0 & K)]);
    [discriminate|].
  injection K as -> -> -> ->.
  apply validate_file_clean in HV. destruct HV as (C1 & C2 & C3 & C4 & _).
  unfold file_hs in C1. cbn [file_hdr_of file_hdr_gen f_attr f_size3 f_ext] in *.
  pose proof (single_change_len _ _ _ HS) as Len.
  assert (E8 : rd 24 8 fb' = rd 24 8 fb) by (eapply single_change_rd_same; [exact HS|lia|right; lia]).
  rewrite E8 in M3.
  assert (N3 : rd 20 3 fb <> 16777215).
  { intros E. unfold is_free_marker in FM. rewrite E in FM. cbn [Z.eqb Pos.eqb andb] in FM.
    specialize (L32 E). replace (zlen fb <? 32) with false in FM by lia. lia. }
  assert (J : 20 <= j < 23).
  { destruct (Z_lt_ge_dec j 20) as [Hlo|Hge]; [|destruct (Z_lt_ge_dec j 23) as [?|Hhi]; [lia|]].
    - exfalso. apply N3. rewrite <- M1. symmetry. eapply single_change_rd_same; [exact HS|lia|right; lia].
    - exfalso. apply N3. rewrite <- M1. symmetry. eapply single_change_rd_same; [exact HS|lia|left; lia]. }
  assert (NL : attr_large (rd 19 1 fb) = false).
  { destruct (attr_large (rd 19 1 fb)) eqn:E; [|reflexivity]. exfalso. apply N3. apply C3. reflexivity. }
  split; [exact J|]. split; [exact NL|]. split; [exact N3|]. split; [exact M1|]. split; [exact M3|].
  unfold file_ext_of in *. replace (rd 20 3 fb =? 16777215) with false in * by lia.
  destruct (single_change_sub fb j fb' 20 3 HS ltac:(lia) ltac:(lia)) as (p & x & y & s & Eb & Eb' & Lp & Hne & Hx & Hy).
  assert (OK3 : bytes_ok (p ++ x :: s) = true) by (rewrite <- Eb; apply bytes_ok_sub; exact Hok).
  unfold rd in M1 |- *. change (Z.of_nat 3) with 3 in *. rewrite Eb' in M1. rewrite Eb.
  assert (L3 : zlen (p ++ x :: s) = 3) by (rewrite <- Eb; apply zlen_sub; lia).
  rewrite zlen_app, zlen_cons in L3.
  rewrite bytes_ok_app, bytes_ok_cons in OK3.
  apply andb_true_iff in OK3 as [OKp OKs]. apply andb_true_iff in OKs as [_ OKs].
  destruct (Z.eq_dec j 20) as [J20|J20]; [|destruct (Z.eq_dec j 21) as [J21|J21]].
  - assert (p = []) by (apply zlen_0_inv; lia). subst p.
    destruct (zlen_2_inv s ltac:(lia)) as (s0 & s1 & ->).
    cbn [bytes_ok forallb] in OKs. rewrite !andb_true_iff, !byte_ok_iff in OKs.
    cbn [app le_dec] in *. lia.
  - destruct (zlen_1_inv p ltac:(lia)) as (p0 & ->). destruct (zlen_1_inv s ltac:(lia)) as (s0 & ->).
    cbn [bytes_ok forallb] in OKs, OKp. rewrite !andb_true_iff, !byte_ok_iff in OKs, OKp.
    cbn [app le_dec] in *. lia.
  - destruct (zlen_2_inv p ltac:(lia)) as (p0 & p1 & ->).
    assert (s = []) by (apply zlen_0_inv; lia). subst s.
    cbn [bytes_ok forallb] in OKp. rewrite !andb_true_iff, !byte_ok_iff in OKp.
    cbn [app le_dec] in *. lia.
Qed.

(* a changed byte of the extended size cannot produce FFFFFFFFFFFFFFFF unless the size was huge *)
Lemma ext_marker_impossible fb fb' j : single_change fb j fb' -> 24 <= j < 32 -> bytes_ok fb = true ->
  32 <= zlen fb -> rd 24 8 fb' = U64 - 1 -> 2 ^ 56 - 1 <= rd 24 8 fb.
Proof.
  intros HS Hj Hok L32 M. unfold rd in *. change (Z.of_nat 8) with 8 in *.
  destruct (single_change_sub fb j fb' 24 8 HS ltac:(lia) ltac:(lia)) as (p & x & y & s & Eb & Eb' & Lp & Hne & Hx & Hy).
  assert (OK8 : bytes_ok (p ++ x :: s) = true) by (rewrite <- Eb; apply bytes_ok_sub; exact Hok).
  rewrite Eb' in M. rewrite Eb. rewrite le_dec_app in *. cbn [le_dec] in *.
  rewrite bytes_ok_app, bytes_ok_cons in OK8.
  apply andb_true_iff in OK8 as [OKp OKs]. apply andb_true_iff in OKs as [_ OKs].
  pose proof (le_dec_bound p OKp) as Bp. pose proof (le_dec_bound s OKs) as Bs.
  pose proof (zlen_nonneg p) as Np.
  assert (P7 : 0 < 256 ^ zlen p <= 256 ^ 7).
  { split; [apply Z.pow_pos_nonneg; lia|apply Z.pow_le_mono_r; lia]. }
  unfold U64 in M. change (2 ^ 64) with 18446744073709551616 in M.
  change (256 ^ 7) with 72057594037927936 in P7. change (2 ^ 56) with 72057594037927936.
  nia.
Qed.

(* the marker a changed header byte can produce is the long form *)
Lemma marker_is_long nvar rs pol pol2 fb fb' j h fbuf kids pol' :
  file_body nvar rs pol fb = Ok (Some (NFile h fbuf kids), pol') ->
  validate_file h fbuf = Ok [] ->
  single_change fb j fb' -> prot_hdr (attr_large (f_attr h)) j ->
  is_free_marker pol2 fb' = true -> becomes_free_marker fb'.
Proof.
  intros HP HV HS Hj FM'.
  destruct (file_body_inv _ _ _ _ _ HP) as (L24 & [[_ K]|(FM & L32 & Lext & nv & kids0 & pol0 & K)]);
    [discriminate|].
  injection K as -> -> -> ->.
  pose proof (single_change_len _ _ _ HS) as Len.
  pose proof HV as HC. apply validate_file_clean in HC. destruct HC as (C1 & C2 & C3 & _).
  unfold file_hs in C1. cbn [file_hdr_of file_hdr_gen f_attr f_size3 f_ext] in C1, C2, C3, Hj.
  assert (Lext0 : 24 <= file_ext_of fb) by (destruct (attr_large (rd 19 1 fb)); lia).
  rewrite zlen_sub0 in C1 by lia.
  unfold is_free_marker in FM'. apply andb_true_iff in FM' as [Es FM']. apply Z.eqb_eq in Es.
  destruct (zlen fb' <? 32) eqn:E32.
  - exfalso.
    assert (Hl : attr_large (rd 19 1 fb) = false) by (destruct (attr_large (rd 19 1 fb)); [lia|reflexivity]).
    rewrite Hl in Hj.
    assert (J23 : 0 <= j < 23).
    { pose proof (single_change_range _ _ _ HS). destruct Hj as [?|[?|[? _]]]; [lia|lia|discriminate]. }
    eapply (short_marker_impossible fb fb' j pol2 nv); eauto; lia.
  - split; [exact Es|]. split; [lia|]. apply Z.eqb_eq. exact FM'.
Qed.

Lemma becomes_is_marker p fb : becomes_free_marker fb -> is_free_marker p fb = true.
Proof.
  intros (M1 & M2 & M3). unfold is_free_marker. rewrite M1, M3.
  replace (zlen fb <? 32) with false by lia. reflexivity.
Qed.

(* C09_file_header_detects, local form for the repaired validate: the altered file is reported, or
   it has become the start of the free space — which then is not erased *)
Lemma file_header_detects_local2 nvar rs nvar2 rs2 pol pol2 fb fb' j h fbuf kids pol' :
  file_body nvar rs pol fb = Ok (Some (NFile h fbuf kids), pol') ->
  validate_file h fbuf = Ok [] -> bytes_ok fb = true -> zlen fb < 2 ^ 55 ->
  single_change fb j fb' -> prot_hdr (attr_large (f_attr h)) j ->
  forall r, file_body nvar2 rs2 pol2 fb' = Ok r ->
  (exists f', fst r = Some f' /\ reports f') \/
  (fst r = None /\ forall P, P = 0 \/ P = 255 -> forallb (fun x => x =? P) fb' = false).
Proof.
  intros HP HV Hok Hsmall HS Hj r HP'.
  destruct (file_body_inv _ _ _ _ _ HP') as (L24' & [[FM' ->]|(FM' & _)]).
  - right. split; [reflexivity|].
    pose proof (marker_is_long _ _ _ _ _ _ _ _ _ _ _ HP HV HS Hj FM') as HM.
    assert (J24 : 0 <= j < 24).
    { pose proof (single_change_range _ _ _ HS) as Rj. pose proof (single_change_len _ _ _ HS) as Len.
      destruct Hj as [?|[?|[Hlg Hj]]]; [lia|lia|]. exfalso.
      destruct HM as (M1 & M2 & M3).
      pose proof (ext_marker_impossible fb fb' j HS Hj Hok ltac:(lia) M3) as Hbig.
      destruct (file_body_inv _ _ _ _ _ HP) as (_ & [[_ K]|(_ & _ & Lext & nv & kids0 & pol0 & K)]); [discriminate|].
      injection K as -> -> -> ->. cbn [file_hdr_of file_hdr_gen f_attr] in Hlg.
      apply validate_file_clean in HV. destruct HV as (_ & _ & C3 & _).
      cbn [file_hdr_of file_hdr_gen f_attr f_size3] in C3. apply C3 in Hlg.
      unfold file_ext_of in Lext. rewrite Hlg in Lext. cbn [Z.eqb Pos.eqb] in Lext.
      change (2 ^ 56) with 72057594037927936 in Hbig. change (2 ^ 55) with 36028797018963968 in Hsmall. lia. }
    destruct (free_marker_class _ _ _ _ _ _ _ _ _ _ HP HV Hok HS J24 HM) as (J & NL & N3 & M1 & _).
    destruct (file_body_inv _ _ _ _ _ HP) as (_ & [[_ K]|(_ & _ & _ & nv & kids0 & pol0 & K)]); [discriminate|].
    injection K as -> -> -> ->. cbn [file_hdr_of file_hdr_gen f_attr] in NL.
    intros P HPv. destruct (forallb (fun x => x =? P) fb') eqn:EA; [exfalso|reflexivity].
    destruct HPv as [-> | ->].
    + assert (E3 : rd 20 3 fb' = 0 + 256 * (0 + 256 * (0 + 0))).
      { unfold rd. change (Z.of_nat 3) with 3. rewrite (all_eq_sub 0 fb' 20 3 EA) by lia. reflexivity. }
      lia.
    + assert (E1 : rd 19 1 fb' = 255 + 0).
      { unfold rd. change (Z.of_nat 1) with 1. rewrite (all_eq_sub 255 fb' 19 1 EA) by lia. reflexivity. }
      assert (EA' : rd 19 1 fb' = rd 19 1 fb) by (eapply single_change_rd_same; [exact HS|lia|left; lia]).
      rewrite <- EA', E1 in NL. change (255 + 0) with 255 in NL. rewrite attr_large_255 in NL. discriminate.
  - left. eapply (file_header_detects_local _ _ _ _ _ _ _ _ j _ _ _ _ HP HV HS Hj); [|exact HP'].
    intros HM. rewrite (becomes_is_marker pol2 fb' HM) in FM'. discriminate.
Qed.

(* a change of the body-checksum byte or of a body byte leaves the parsed header otherwise intact *)
Lemma nonhdr_change_inv nvar rs nvar2 rs2 pol pol2 fb fb' j nv kids pol' r :
  file_body nvar rs pol fb =
    Ok (Some (NFile (file_hdr_of fb nv) (sub 0 (file_ext_of fb) fb) kids), pol') ->
  validate_file (file_hdr_of fb nv) (sub 0 (file_ext_of fb) fb) = Ok [] ->
  single_change fb j fb' -> (j = 17 \/ (if attr_large (rd 19 1 fb) then 32 else 24) <= j) ->
  file_body nvar2 rs2 pol2 fb' = Ok r ->
  rd 19 1 fb' = rd 19 1 fb /\ rd 20 3 fb' = rd 20 3 fb /\ rd 23 1 fb' = rd 23 1 fb /\
  file_ext_of fb' = file_ext_of fb /\ (j <> 17 -> rd 17 1 fb' = rd 17 1 fb) /\
  exists nv' kids' pol'',
    r = (Some (NFile (file_hdr_of fb' nv') (sub 0 (file_ext_of fb) fb') kids'), pol'').
Proof.
  intros HP HV HS Hj HP'.
  destruct (file_body_inv _ _ _ _ _ HP) as (L24 & [[_ K]|(FM & L32 & Lext & _)]); [discriminate|].
  pose proof (single_change_len _ _ _ HS) as Len.
  apply validate_file_clean in HV. destruct HV as (_ & _ & C3 & _).
  cbn [file_hdr_of file_hdr_gen f_attr f_size3] in C3.
  assert (J0 : 0 <= j) by (pose proof (single_change_range _ _ _ HS); lia).
  assert (J24 : j = 17 \/ 24 <= j) by (destruct Hj; [auto|destruct (attr_large _); lia]).
  assert (J32 : rd 20 3 fb = 16777215 -> j = 17 \/ 32 <= j).
  { intros E. apply C3 in E. rewrite E in Hj. destruct Hj; [auto|lia]. }
  assert (EA : rd 19 1 fb' = rd 19 1 fb).
  { eapply single_change_rd_same; [exact HS|lia|]. destruct J24; [right|left]; lia. }
  assert (ES : rd 20 3 fb' = rd 20 3 fb).
  { eapply single_change_rd_same; [exact HS|lia|]. destruct J24; [right|left]; lia. }
  assert (ET : rd 23 1 fb' = rd 23 1 fb).
  { eapply single_change_rd_same; [exact HS|lia|]. destruct J24; [right|left]; lia. }
  assert (E8 : rd 20 3 fb = 16777215 -> rd 24 8 fb' = rd 24 8 fb).
  { intros E. eapply single_change_rd_same; [exact HS|lia|]. destruct (J32 E); [right|left]; lia. }
  assert (EX : file_ext_of fb' = file_ext_of fb).
  { unfold file_ext_of. rewrite ES. destruct (rd 20 3 fb =? 16777215) eqn:E; [|reflexivity].
    apply E8. lia. }
  assert (EK : j <> 17 -> rd 17 1 fb' = rd 17 1 fb).
  { intros Hn. eapply single_change_rd_same; [exact HS|lia|]. left. destruct J24; lia. }
  repeat (split; [assumption|]).
  destruct (file_body_inv _ _ _ _ _ HP') as (L24' & [[FM' _]|(_ & _ & _ & nv' & kids' & pol'' & ->)]).
  - exfalso. unfold is_free_marker in FM, FM'. rewrite ES in FM'.
    apply andb_true_iff in FM' as [Es FM']. rewrite Es in FM. cbn [andb] in FM.
    assert (E : rd 20 3 fb = 16777215) by lia.
    specialize (L32 E). rewrite Len in FM'.
    replace (zlen fb <? 32) with false in FM, FM' by lia.
    rewrite (E8 E) in FM'. congruence.
  - rewrite EX. eauto.
Qed.

(* C09_body_detects, local form *)
Lemma file_body_detects_local nvar rs nvar2 rs2 pol pol2 fb fb' j h fbuf kids pol' :
  file_body nvar rs pol fb = Ok (Some (NFile h fbuf kids), pol') ->
  validate_file h fbuf = Ok [] -> attr_checksum (f_attr h) = true ->
  single_change fb j fb' -> file_hs h <= j < f_ext h ->
  forall r, file_body nvar2 rs2 pol2 fb' = Ok r -> exists f', fst r = Some f' /\ reports f'.
Proof.
  intros HP HV Hck HS Hj r HP'.
  destruct (file_body_inv _ _ _ _ _ HP) as (L24 & [[_ K]|(FM & L32 & Lext & nv & kids0 & pol0 & K)]);
    [discriminate|].
  injection K as -> -> -> ->.
  unfold file_hs in Hj. cbn [file_hdr_of file_hdr_gen f_attr f_ext] in Hj, Hck.
  destruct (nonhdr_change_inv _ _ _ _ _ _ _ _ _ _ _ _ _ HP HV HS ltac:(right; lia) HP')
    as (EA & ES & ET & EX & EK & nv' & kids' & pol'' & ->).
  cbn [fst]. eexists; split; [reflexivity|].
  destruct (validate_file_total true (file_hdr_of fb' nv') (sub 0 (file_ext_of fb) fb')) as [l Hl].
  destruct l as [|e l]; [|eapply reports_file_self; [exact Hl|discriminate]].
  exfalso. apply validate_file_clean in Hl. apply validate_file_clean in HV.
  destruct HV as (C1 & C2 & _ & _ & _ & _ & C7). destruct Hl as (D1 & D2 & _ & _ & _ & _ & D7).
  unfold file_hs in *. cbn [file_hdr_of file_hdr_gen f_attr f_ext f_ckf] in *.
  rewrite EA in D1, D7. rewrite (EK ltac:(destruct (attr_large _); lia)) in D7.
  specialize (C7 Hck). specialize (D7 Hck).
  set (HSZ := if attr_large (rd 19 1 fb) then 32 else 24) in *.
  assert (HSZ0 : 24 <= HSZ <= 32) by (subst HSZ; destruct (attr_large _); lia).
  pose proof (single_change_len _ _ _ HS) as Len.
  rewrite zlen_sub0 in C7, D7 by lia.
  rewrite sub_sub0 in C7, D7 by lia.
  destruct (single_change_sub fb j fb' HSZ (file_ext_of fb - HSZ) HS ltac:(lia) ltac:(lia))
    as (p & x & y & s & Eb & Eb' & _ & Hne & Hx & Hy).
  rewrite Eb in C7. rewrite Eb' in D7.
  apply (sum8_single_change p x y s Hx Hy Hne).
  eapply mod256_cancel_add; [apply sum8_range|apply sum8_range|exact C7|exact D7].
Qed.

(* C09_bodysum_detects, local form *)
Lemma file_bodysum_detects_local nvar rs nvar2 rs2 pol pol2 fb fb' h fbuf kids pol' :
  file_body nvar rs pol fb = Ok (Some (NFile h fbuf kids), pol') ->
  validate_file h fbuf = Ok [] -> bytes_ok fb = true ->
  single_change fb 17 fb' ->
  forall r, file_body nvar2 rs2 pol2 fb' = Ok r -> exists f', fst r = Some f' /\ reports f'.
Proof.
  intros HP HV Hok HS r HP'.
  destruct (file_body_inv _ _ _ _ _ HP) as (L24 & [[_ K]|(FM & L32 & Lext & nv & kids0 & pol0 & K)]);
    [discriminate|].
  injection K as -> -> -> ->.
  destruct (nonhdr_change_inv _ _ _ _ _ _ _ _ _ _ _ _ _ HP HV HS ltac:(left; reflexivity) HP')
    as (EA & ES & ET & EX & _ & nv' & kids' & pol'' & ->).
  cbn [fst]. eexists; split; [reflexivity|].
  destruct (validate_file_total true (file_hdr_of fb' nv') (sub 0 (file_ext_of fb) fb')) as [l Hl].
  destruct l as [|e l]; [|eapply reports_file_self; [exact Hl|discriminate]].
  exfalso. apply validate_file_clean in Hl. apply validate_file_clean in HV.
  destruct HV as (C1 & C2 & _ & _ & _ & C6 & C7). destruct Hl as (D1 & D2 & _ & _ & _ & D6 & D7).
  unfold file_hs in *. cbn [file_hdr_of file_hdr_gen f_attr f_ext f_ckf] in *.
  rewrite EA in D1, D6, D7.
  assert (EK : rd 17 1 fb' <> rd 17 1 fb) by (eapply single_change_rd_diff; [exact HS|lia|lia]).
  pose proof (single_change_ok _ _ _ HS Hok) as Hok'.
  assert (R : 0 <= rd 17 1 fb < 256).
  { unfold rd. pose proof (le_dec_bound (sub 17 (Z.of_nat 1) fb) (bytes_ok_sub _ _ _ Hok)) as B.
    rewrite zlen_sub in B by lia. exact B. }
  assert (R' : 0 <= rd 17 1 fb' < 256).
  { unfold rd. pose proof (le_dec_bound (sub 17 (Z.of_nat 1) fb') (bytes_ok_sub _ _ _ Hok')) as B.
    pose proof (single_change_len _ _ _ HS).
    rewrite zlen_sub in B by lia. exact B. }
  destruct (attr_checksum (rd 19 1 fb)) eqn:Hck.
  - specialize (C7 eq_refl). specialize (D7 eq_refl).
    set (HSZ := if attr_large (rd 19 1 fb) then 32 else 24) in *.
    assert (HSZ0 : 24 <= HSZ <= 32) by (subst HSZ; destruct (attr_large _); lia).
    pose proof (single_change_len _ _ _ HS) as Len.
    rewrite zlen_sub0 in C7, D7 by lia.
    rewrite sub_sub0 in C7, D7 by lia.
    rewrite (single_change_sub_same fb 17 fb' HSZ _ HS) in D7 by lia.
    apply EK. rewrite Z.add_comm in C7, D7.
    eapply mod256_cancel_add; [exact R'|exact R|exact D7|exact C7].
  - specialize (C6 eq_refl). specialize (D6 eq_refl). congruence.
Qed.

(* ---- E.3 files inside a volume ---- *)

(* the k-th file of a parsed volume and its offset in the volume: files sit at 8-aligned offsets,
   each after the end of its predecessor, the first at the volume's data offset *)
Fixpoint file_at (off : Z) (files : list node) (k : nat) : option (node * Z) :=
  match files with
  | [] => None
  | f :: r => let o := align8 off in
              match k with
              | O => Some (f, o)
              | S k' => file_at (o + file_ext f) r k'
              end
  end.

Definition file_clean (f : node) : Prop :=
  match f with NFile h b _ => validate_file h b = Ok [] | _ => False end.

Lemma align8_ge v : v <= align8 v.
Proof.
  unfold align8, align. pose proof (Z.div_mod (v + 8 - 1) 8 ltac:(lia)).
  pose proof (Z.mod_pos_bound (v + 8 - 1) 8 ltac:(lia)). lia.
Qed.

Lemma file_at_ge files : forall off k f o, (forall g, In g files -> 0 <= file_ext g) ->
  file_at off files k = Some (f, o) -> off <= o.
Proof.
  induction files as [|g files IH]; intros off k f o Hpos; cbn [file_at]; [discriminate|].
  destruct k as [|k].
  - intros [= _ <-]. apply align8_ge.
  - intros H. apply IH in H; [|intros; apply Hpos; right; auto].
    pose proof (align8_ge off). specialize (Hpos g (or_introl eq_refl)). lia.
Qed.

Lemma file_clean_ext f : file_clean f -> 24 <= file_ext f.
Proof.
  destruct f as [| h b kids | |]; cbn [file_clean file_ext]; try contradiction.
  intros H. apply validate_file_clean in H. destruct H as (C1 & C2 & _).
  unfold file_hs in C1. destruct (attr_large _); lia.
Qed.

Lemma zlen_sub_tail (data : bytes) o len : 0 <= o -> o <= len -> len <= zlen data ->
  zlen (sub o (len - o) data) = len - o.
Proof. intros. apply zlen_sub; lia. Qed.

(* the parser call that produced the k-th file *)
Lemma files_loop_at rf n : forall data len pol off files pol' fs k f o,
  files_loop rf n data len pol off = Ok (files, pol', fs) ->
  (forall g, In g files -> 0 <= file_ext g) ->
  file_at off files k = Some (f, o) ->
  exists polk polk', rf polk (sub o (len - o) data) = Ok (Some f, polk') /\ o + 24 <= len.
Proof.
  induction n as [|n IH]; intros data len pol off files pol' fs k f o; cbn [files_loop]; [discriminate|].
  destruct (off + 24 <=? len) eqn:E1; [|intros H; apply Ok_inj in H; injection H as <- _ _; discriminate].
  destruct (len <? align8 off + 24) eqn:E2; [intros H; apply Ok_inj in H; injection H as <- _ _; discriminate|].
  destruct (rf pol (sub (align8 off) (len - align8 off) data)) as [[fo pol1]| | |] eqn:EF;
    cbn [bind]; try discriminate.
  destruct fo as [f0|]; [|intros H; apply Ok_inj in H; injection H as <- _ _; discriminate].
  destruct (file_ext f0 =? 0) eqn:E0; [discriminate|].
  destruct (files_loop rf n data len pol1 (align8 off + file_ext f0)) as [[[r0 p0] fs0]| | |] eqn:ER;
    cbn [bind]; try discriminate.
  intros H Hpos. apply Ok_inj in H. injection H as <- <- <-. cbn [file_at].
  destruct k as [|k].
  - intros [= <- <-]. exists pol, pol1. split; [exact EF|lia].
  - intros Hat. eapply IH; [exact ER| |exact Hat]. intros; apply Hpos; right; auto.
Qed.

Lemma files_loop_detect nvar rs (Q : Prop) n : forall data data' len pol off files pol' fs k f o i,
  files_loop (file_body nvar rs) n data len pol off = Ok (files, pol', fs) ->
  Forall file_clean files ->
  file_at off files k = Some (f, o) ->
  single_change data i data' -> o <= i -> 0 <= off -> len <= zlen data ->
  (forall pol2 r, file_body nvar rs pol2 (sub o (len - o) data') = Ok r ->
                  (exists f', fst r = Some f' /\ reports f') \/ (fst r = None /\ Q)) ->
  forall r, files_loop (file_body nvar rs) n data' len pol off = Ok r ->
  (exists f', In f' (fst (fst r)) /\ reports f') \/ (snd r = (len - o) mod U64 /\ Q).
Proof.
  induction n as [|n IH]; intros data data' len pol off files pol' fs k f o i; cbn [files_loop];
    [discriminate|].
  destruct (off + 24 <=? len) eqn:E1; [|intros H; apply Ok_inj in H; injection H as <- _ _; discriminate].
  destruct (len <? align8 off + 24) eqn:E2; [intros H; apply Ok_inj in H; injection H as <- _ _; discriminate|].
  destruct (file_body nvar rs pol (sub (align8 off) (len - align8 off) data)) as [[fo pol1]| | |] eqn:EF;
    cbn [bind]; try discriminate.
  destruct fo as [f0|]; [|intros H; apply Ok_inj in H; injection H as <- _ _; discriminate].
  destruct (file_ext f0 =? 0) eqn:E0; [discriminate|].
  destruct (files_loop (file_body nvar rs) n data len pol1 (align8 off + file_ext f0))
    as [[[r0 p0] fs0]| | |] eqn:ER; cbn [bind]; try discriminate.
  intros H Hcl Hat HS Hoi Hoff Hlen Hloc r H'. apply Ok_inj in H. injection H as <- <- <-.
  cbn [file_at] in Hat. pose proof (align8_ge off) as Ha.
  inversion Hcl as [|? ? Hc0 Hcr]; subst.
  destruct k as [|k].
  - injection Hat as <- <-.
    destruct (file_body nvar rs pol (sub (align8 off) (len - align8 off) data')) as [[fo' pol1']| | |] eqn:EF';
      cbn [bind] in H'; try discriminate.
    destruct (Hloc _ _ EF') as [(f' & Hf' & Hr')|[Hf' HQ]]; cbn [fst] in Hf'; subst fo'.
    + destruct (file_ext f' =? 0); [discriminate|].
      destruct (files_loop (file_body nvar rs) n data' len pol1' (align8 off + file_ext f'))
        as [[[r' p'] fs']| | |]; cbn [bind] in H'; try discriminate.
      apply Ok_inj in H'. subst r. cbn [fst]. left. exists f'. split; [left; reflexivity|exact Hr'].
    + apply Ok_inj in H'. subst r. cbn [snd]. right. split; [reflexivity|exact HQ].
  - assert (Hpos : forall g, In g r0 -> 0 <= file_ext g).
    { intros g Hg. rewrite Forall_forall in Hcr. pose proof (file_clean_ext g (Hcr g Hg)). lia. }
    pose proof (file_at_ge r0 _ _ _ _ Hpos Hat) as Hge.
    pose proof (file_clean_ext f0 Hc0) as He0.
    (* the first file is parsed as before *)
    assert (EF'' : file_body nvar rs pol (sub (align8 off) (len - align8 off) data') = Ok (Some f0, pol1)).
    { destruct f0 as [| h0 b0 k0 | |]; cbn [file_clean] in Hc0; try contradiction.
      cbn [file_ext] in *.
      pose proof Hc0 as Hc. apply validate_file_clean in Hc. destruct Hc as (C1 & C2 & C3 & _).
      destruct (file_body_inv _ _ _ _ _ EF) as (_ & [[_ K]|(_ & _ & Lext & nv & kk & pp & K)]); [discriminate|].
      injection K as -> -> -> ->. cbn [file_hdr_of file_hdr_gen f_ext] in *.
      rewrite zlen_sub_tail in Lext by lia.
      eapply file_body_prefix; [exact EF|cbn [file_hdr_of file_hdr_gen f_ext]; lia| | |].
      - intros E. apply C3. exact E.
      - cbn [file_hdr_of file_hdr_gen f_ext].
        set (E := file_ext_of (sub (align8 off) (len - align8 off) data)) in *.
        unfold sub. rewrite !zfirstn_zfirstn by lia.
        change (zfirstn E (zskipn (align8 off) data')) with (sub (align8 off) E data').
        change (zfirstn E (zskipn (align8 off) data)) with (sub (align8 off) E data).
        eapply single_change_sub_same; [exact HS|lia|left; lia].
      - pose proof (single_change_len _ _ _ HS). rewrite !zlen_sub_tail by lia. reflexivity. }
    rewrite EF'' in H'. cbn [bind] in H'. rewrite E0 in H'.
    destruct (files_loop (file_body nvar rs) n data' len pol1 (align8 off + file_ext f0))
      as [[[r' p'] fs']| | |] eqn:ER'; cbn [bind] in H'; try discriminate.
    apply Ok_inj in H'. subst r. cbn [fst snd].
    destruct (IH _ _ _ _ _ _ _ _ _ _ _ _ ER Hcr Hat HS Hoi ltac:(lia) Hlen Hloc _ ER') as [(f' & Hin & Hr')|[Hs HQ]].
    + cbn [fst] in Hin. left. exists f'. split; [right; exact Hin|exact Hr'].
    + cbn [snd] in Hs. right. split; [exact Hs|exact HQ].
Qed.

(* the bytes the volume-header part of the parser reads: the fixed header and block map
   (HeaderLen bytes once validate accepts it) and the extended header *)
Definition fv_hdr_extent (data : bytes) : Z :=
  Z.max (rd 48 2 data) (if fv_has_ext data then rd 52 2 data + 20 else 0).

Lemma rd_nonneg off w b : bytes_ok b = true -> 0 <= rd off w b.
Proof. intros H. unfold rd. apply (le_dec_bound (sub off (Z.of_nat w) b)). apply bytes_ok_sub. exact H. Qed.

(* a change beyond everything the header parse reads leaves the header parse unchanged *)
Lemma fv_header_same b b' i blocks : single_change b i b' -> bytes_ok b = true ->
  fv_hdr_extent b <= i -> 56 + 8 * (zlen blocks + 1) <= i ->
  parse_blocks (Z.to_nat (zlen b) + 1) (zskipn 56 b) = Ok blocks ->
  sub 16 16 b' = sub 16 16 b /\ rd 32 8 b' = rd 32 8 b /\ rd 44 4 b' = rd 44 4 b /\
  fv_doff b' = fv_doff b /\
  parse_blocks (Z.to_nat (zlen b') + 1) (zskipn 56 b') = Ok blocks.
Proof.
  intros HS Hok Hext Hblk HB. unfold fv_hdr_extent in Hext.
  pose proof (zlen_nonneg blocks) as Nb.
  pose proof (single_change_len _ _ _ HS) as Len.
  assert (E16 : sub 16 16 b' = sub 16 16 b) by (eapply single_change_sub_same; [exact HS|lia|left; lia]).
  assert (E32 : rd 32 8 b' = rd 32 8 b) by (eapply single_change_rd_same; [exact HS|lia|left; lia]).
  assert (E44 : rd 44 4 b' = rd 44 4 b) by (eapply single_change_rd_same; [exact HS|lia|left; lia]).
  assert (E48 : rd 48 2 b' = rd 48 2 b) by (eapply single_change_rd_same; [exact HS|lia|left; lia]).
  assert (E52 : rd 52 2 b' = rd 52 2 b) by (eapply single_change_rd_same; [exact HS|lia|left; lia]).
  assert (EH : fv_has_ext b' = fv_has_ext b) by (unfold fv_has_ext; rewrite E32, E52; reflexivity).
  assert (EX : fv_extsize b' = fv_extsize b).
  { unfold fv_extsize. rewrite EH, E52. destruct (fv_has_ext b) eqn:He; [|reflexivity].
    pose proof (rd_nonneg 52 2 b Hok).
    eapply single_change_rd_same; [exact HS|lia|left; lia]. }
  assert (ED : fv_doff b' = fv_doff b) by (unfold fv_doff; rewrite EH, EX, E52, E48; reflexivity).
  repeat (split; [assumption|]).
  rewrite Len. eapply parse_blocks_prefix; [exact HB|].
  change (zfirstn (8 * (zlen blocks + 1)) (zskipn 56 b')) with (sub 56 (8 * (zlen blocks + 1)) b').
  change (zfirstn (8 * (zlen blocks + 1)) (zskipn 56 b)) with (sub 56 (8 * (zlen blocks + 1)) b).
  eapply single_change_sub_same; [exact HS|lia|left; lia].
Qed.

Lemma files_loop_all_files nvar rs n : forall data len pol off files pol' fs,
  files_loop (file_body nvar rs) n data len pol off = Ok (files, pol', fs) ->
  Forall (fun f => exists h b k, f = NFile h b k) files.
Proof.
  induction n as [|n IH]; intros data len pol off files pol' fs; cbn [files_loop]; [discriminate|].
  destruct (off + 24 <=? len); [|intros H; apply Ok_inj in H; injection H as <- _ _; constructor].
  destruct (len <? align8 off + 24); [intros H; apply Ok_inj in H; injection H as <- _ _; constructor|].
  destruct (file_body nvar rs pol _) as [[fo pol1]| | |] eqn:EF; cbn [bind]; try discriminate.
  destruct fo as [f0|]; [|intros H; apply Ok_inj in H; injection H as <- _ _; constructor].
  destruct (file_ext f0 =? 0); [discriminate|].
  destruct (files_loop _ n data len pol1 _) as [[[r0 p0] fs0]| | |] eqn:ER; cbn [bind]; try discriminate.
  intros H. apply Ok_inj in H. injection H as <- <- <-. constructor; [|eapply IH; exact ER].
  destruct (file_body_inv _ _ _ _ _ EF) as (_ & [[_ K]|(_ & _ & _ & nv & kk & pp & K)]); [discriminate|].
  injection K as -> _. eauto.
Qed.

(* a parsed volume that validates clean: the pieces used below *)
Lemma clean_volume_facts nvar rs pol b fvoff res h buf kids pol' :
  fv_body (file_body nvar rs) pol b fvoff res = Ok (NVol h buf kids, pol') ->
  validate (NVol h buf kids) = Ok [] ->
  exists blocks pol1 fs,
    h = fv_hdr b fvoff res blocks fs /\ buf = sub 0 (rd 32 8 b) b /\
    parse_blocks (Z.to_nat (zlen b) + 1) (zskipn 56 b) = Ok blocks /\
    set_polarity pol (fv_polarity (rd 44 4 b)) = Some pol1 /\
    64 <= rd 32 8 b <= zlen b /\ rd 48 2 b = 56 + 8 * (zlen blocks + 1) /\
    Forall file_clean kids /\
    (kids <> [] -> supported_fv (sub 16 16 b) = true /\
       files_loop (file_body nvar rs) (Z.to_nat (zlen b) + 1) b (rd 32 8 b) pol1 (fv_doff b)
         = Ok (kids, pol', fs)).
Proof.
  intros HP HV.
  destruct (fv_body_inv _ _ _ _ _ _ _ HP) as (blocks & pol1 & kids0 & fs & Hn & HB & HPol & L0 & L1 & Hk).
  injection Hn as -> -> ->.
  apply validate_vol_node_clean in HV. destruct HV as [HV HK].
  apply validate_vol_clean in HV. cbn [fv_hdr v_hdrlen v_blocks] in HV. destruct HV as (_ & V2 & _).
  rewrite (parse_blocks_nblocks _ _ _ HB) in V2.
  exists blocks, pol1, fs. repeat (split; [first [reflexivity|assumption|lia]|]).
  split.
  - destruct Hk as [[_ ->]|[_ HL]]; [constructor|].
    pose proof (files_loop_all_files _ _ _ _ _ _ _ _ _ _ HL) as HA.
    rewrite Forall_forall in *. intros f Hf. destruct (HA f Hf) as (fh & fb & fk & ->).
    cbn [file_clean]. apply (validate_file_node_clean true fh fb fk). apply HK. exact Hf.
  - intros Hne. destruct Hk as [[_ ->]|[Hs HL]]; [congruence|]. split; assumption.
Qed.

(* lifting a local detection result to the volume: either a file of the new tree is reported, or
   the volume's free space now starts at the altered file and is not erased *)
Lemma fv_polarity_cases a : fv_polarity a = 0 \/ fv_polarity a = 255.
Proof. unfold fv_polarity. destruct (Z.land a 2048 =? 0); auto. Qed.

Lemma fv_file_detect nvar rs pol b b' fvoff res h buf kids pol' k f o i :
  fv_body (file_body nvar rs) pol b fvoff res = Ok (NVol h buf kids, pol') ->
  validate (NVol h buf kids) = Ok [] ->
  bytes_ok b = true -> fv_hdr_extent b <= v_dataoff h ->
  file_at (v_dataoff h) kids k = Some (f, o) ->
  single_change b i b' -> o <= i ->
  (forall pol2 r, file_body nvar rs pol2 (sub o (v_length h - o) b') = Ok r ->
     (exists f', fst r = Some f' /\ reports f') \/
     (fst r = None /\ forall P, P = 0 \/ P = 255 ->
                       forallb (fun x => x =? P) (sub o (v_length h - o) b') = false)) ->
  forall r, fv_body (file_body nvar rs) pol b' fvoff res = Ok r -> reports (fst r).
Proof.
  intros HP HV Hok Hext Hat HS Hoi Hloc [n' pol''] HP'.
  destruct (clean_volume_facts _ _ _ _ _ _ _ _ _ _ HP HV)
    as (blocks & pol1 & fs & -> & -> & HB & HPol & L1 & V2 & Hcl & Hk).
  cbn [fv_hdr v_dataoff v_length] in *.
  assert (Hne : kids <> []) by (intros ->; discriminate).
  destruct (Hk Hne) as [Hs HL].
  assert (Hpos : forall g, In g kids -> 0 <= file_ext g).
  { intros g Hg. rewrite Forall_forall in Hcl. pose proof (file_clean_ext g (Hcl g Hg)). lia. }
  pose proof (file_at_ge kids _ _ _ _ Hpos Hat) as Hge.
  destruct (files_loop_at _ _ _ _ _ _ _ _ _ _ _ _ HL Hpos Hat) as (_ & _ & _ & Ho24).
  assert (Hd0 : 0 <= fv_doff b).
  { assert (0 <= rd 48 2 b) by (apply rd_nonneg; exact Hok).
    unfold fv_hdr_extent in Hext. lia. }
  assert (Hx : fv_hdr_extent b <= i) by lia.
  assert (Hblk : 56 + 8 * (zlen blocks + 1) <= i) by (unfold fv_hdr_extent in Hx; lia).
  destruct (fv_header_same b b' i blocks HS Hok Hx Hblk HB) as (E16 & E32 & E44 & ED & HB').
  destruct (fv_body_inv _ _ _ _ _ _ _ HP') as (blocks' & pol1' & kids' & fs' & -> & HB'' & HPol' & _ & L1' & Hk').
  rewrite E16, E32, E44, ED in *.
  assert (pol1' = pol1) by congruence. subst pol1'.
  destruct Hk' as [[Hs' _]|[_ HL']]; [congruence|].
  pose proof (single_change_len _ _ _ HS) as Len. rewrite Len in HL'.
  destruct (files_loop_detect nvar rs _ _ b b' _ _ _ _ _ _ k f o i HL Hcl Hat HS Hoi Hd0 ltac:(lia) Hloc _ HL')
    as [(f' & Hin & Hr')|[Hfs HQ]]; cbn [fst snd] in *.
  - eapply reports_child_vol; eauto.
  - (* the free space of the new tree is [o, Length) and is not erased *)
    assert (LU : rd 32 8 b < U64).
    { unfold rd. pose proof (le_dec_bound (sub 32 (Z.of_nat 8) b) (bytes_ok_sub _ _ _ Hok)) as B.
      rewrite zlen_sub in B by lia. unfold U64. change (256 ^ Z.of_nat 8) with (2 ^ 64) in B. lia. }
    rewrite Z.mod_small in Hfs by lia. subst fs'.
    set (hv := fv_hdr b' fvoff res blocks' (rd 32 8 b - o)).
    destruct (validate_vol_total true hv (sub 0 (rd 32 8 b) b')) as [l Hl].
    destruct l as [|e l]; [|eapply reports_vol_self; [exact Hl|discriminate]].
    exfalso. apply validate_vol_clean in Hl. destruct Hl as (_ & _ & _ & _ & _ & _ & _ & HF).
    rewrite zlen_sub0 in HF by lia. subst hv. cbn [fv_hdr v_freespace v_attrs] in HF.
    specialize (HF eq_refl ltac:(lia)).
    replace (rd 32 8 b - (rd 32 8 b - o)) with o in HF by lia.
    rewrite sub_sub0 in HF by lia.
    rewrite (HQ _ (fv_polarity_cases (rd 44 4 b'))) in HF. discriminate.
Qed.

(* ---- E.4 the three file theorems, for a file directly inside a parsed volume ---- *)

Section FileInVolume.
Variables (nvar : bytes -> option bytes) (rs : Z -> bytes -> Z -> outcome (node * Z)).
Variables (pol : Z) (b b' : bytes) (fvoff : Z) (res : bool).
Variables (h : volhdr) (buf : bytes) (kids : list node) (pol' : Z).
Variables (k : nat) (fh : filehdr) (fb : bytes) (fk : list node) (o : Z).
Hypothesis HP : fv_body (file_body nvar rs) pol b fvoff res = Ok (NVol h buf kids, pol').
Hypothesis HV : validate (NVol h buf kids) = Ok [].
Hypothesis Hok : bytes_ok b = true.
Hypothesis Hext : fv_hdr_extent b <= v_dataoff h.
Hypothesis Hat : file_at (v_dataoff h) kids k = Some (NFile fh fb fk, o).

(* the file's own parse and the geometry *)
Lemma file_in_volume_facts :
  validate_file fh fb = Ok [] /\ 0 <= o /\ o + f_ext fh <= v_length h /\ v_length h <= zlen b /\
  exists polk polk',
    file_body nvar rs polk (sub o (v_length h - o) b) = Ok (Some (NFile fh fb fk), polk').
Proof.
  destruct (clean_volume_facts _ _ _ _ _ _ _ _ _ _ HP HV)
    as (blocks & pol1 & fs & Eh & Eb & HB & HPol & L1 & V2 & Hcl & Hk).
  assert (Hne : kids <> []) by (intros E; rewrite E in Hat; discriminate).
  destruct (Hk Hne) as [Hs HL].
  assert (Hpos : forall g, In g kids -> 0 <= file_ext g).
  { intros g Hg. rewrite Forall_forall in Hcl. pose proof (file_clean_ext g (Hcl g Hg)). lia. }
  pose proof (file_at_ge kids _ _ _ _ Hpos Hat) as Hge.
  rewrite Eh in Hext, Hat, Hge |- *. cbn [fv_hdr v_dataoff v_length] in *.
  assert (Hd0 : 0 <= fv_doff b).
  { assert (0 <= rd 48 2 b) by (apply rd_nonneg; exact Hok). unfold fv_hdr_extent in Hext. lia. }
  destruct (files_loop_at _ _ _ _ _ _ _ _ _ _ _ _ HL Hpos Hat) as (polk & polk' & HF & Ho).
  assert (Hin : In (NFile fh fb fk) kids).
  { clear - Hat. revert Hat. generalize (fv_doff b) as off. revert k.
    induction kids as [|g l IH]; intros k off; cbn [file_at]; [discriminate|].
    destruct k; [intros [= -> _]; left; reflexivity|intros H; right; eapply IH; exact H]. }
  rewrite Forall_forall in Hcl. pose proof (Hcl _ Hin) as Hc. cbn [file_clean] in Hc.
  split; [exact Hc|]. split; [lia|].
  destruct (file_body_inv _ _ _ _ _ HF) as (_ & [[_ K]|(_ & _ & Lext & nv & kk & pp & K)]); [discriminate|].
  injection K as -> -> -> ->. cbn [file_hdr_of file_hdr_gen f_ext] in *.
  rewrite zlen_sub_tail in Lext by lia.
  split; [lia|]. split; [lia|]. eauto.
Qed.

(* C09_file_header_detects *)
Lemma file_header_detects j :
  zlen b < 2 ^ 55 ->
  prot_hdr (attr_large (f_attr fh)) j -> single_change b (o + j) b' ->
  forall r, fv_body (file_body nvar rs) pol b' fvoff res = Ok r -> reports (fst r).
Proof.
  intros Hsmall Hj HS.
  destruct file_in_volume_facts as (Hc & Ho0 & Hoe & Hlen & polk & polk' & HF).
  assert (J : 0 <= j < f_ext fh).
  { apply validate_file_clean in Hc. destruct Hc as (C1 & C2 & _). unfold file_hs in C1.
    destruct Hj as [?|[?|[E ?]]]; [destruct (attr_large _); lia|destruct (attr_large _); lia|].
    rewrite E in C1. lia. }
  eapply (fv_file_detect _ _ _ _ _ _ _ _ _ _ _ _ _ _ (o + j) HP HV Hok Hext Hat HS); [lia|].
  intros pol2 r HF'.
  eapply (file_header_detects_local2 _ _ _ _ _ _ _ _ j _ _ _ _ HF Hc); [| | |exact Hj|exact HF'].
  - apply bytes_ok_sub. exact Hok.
  - rewrite zlen_sub_tail by lia. pose proof (zlen_nonneg b). lia.
  - replace j with (o + j - o) at 1 by lia. apply single_change_sub; [exact HS|lia|lia].
Qed.

(* C09_body_detects *)
Lemma file_body_detects j :
  attr_checksum (f_attr fh) = true -> file_hs fh <= j < f_ext fh -> single_change b (o + j) b' ->
  forall r, fv_body (file_body nvar rs) pol b' fvoff res = Ok r -> reports (fst r).
Proof.
  intros Hck Hj HS.
  destruct file_in_volume_facts as (Hc & Ho0 & Hoe & Hlen & polk & polk' & HF).
  assert (J : 0 <= j) by (unfold file_hs in Hj; destruct (attr_large _); lia).
  eapply (fv_file_detect _ _ _ _ _ _ _ _ _ _ _ _ _ _ (o + j) HP HV Hok Hext Hat HS); [lia|].
  intros pol2 r HF'. left.
  eapply (file_body_detects_local _ _ _ _ _ _ _ _ j _ _ _ _ HF Hc Hck); [|exact Hj|exact HF'].
  replace j with (o + j - o) at 1 by lia. apply single_change_sub; [exact HS|lia|lia].
Qed.

(* C09_bodysum_detects *)
Lemma file_bodysum_detects :
  single_change b (o + 17) b' ->
  forall r, fv_body (file_body nvar rs) pol b' fvoff res = Ok r -> reports (fst r).
Proof.
  intros HS.
  destruct file_in_volume_facts as (Hc & Ho0 & Hoe & Hlen & polk & polk' & HF).
  assert (J : 24 <= f_ext fh).
  { apply validate_file_clean in Hc. destruct Hc as (C1 & C2 & _). unfold file_hs in C1.
    destruct (attr_large _); lia. }
  eapply (fv_file_detect _ _ _ _ _ _ _ _ _ _ _ _ _ _ (o + 17) HP HV Hok Hext Hat HS); [lia|].
  intros pol2 r HF'. left.
  eapply (file_bodysum_detects_local _ _ _ _ _ _ _ _ _ _ _ _ HF Hc); [| |exact HF'].
  - apply bytes_ok_sub. exact Hok.
  - replace 17 with (o + 17 - o) at 1 by lia. apply single_change_sub; [exact HS|lia|lia].
Qed.

End FileInVolume.

(* ================= Part F: no false alarm on what the assembler builds ================= *)

(* ---- F.1 files: ChecksumAndAssemble after SetSize ---- *)

Lemma hdr_sum_fix A c0 f0 st f :
  ((A + ((c0 - (((A + c0 + f0 + st) mod 256 - f0 - st) mod 256)) mod 256) + f + st) mod 256 - f - st)
    mod 256 = 0.
Proof. Z.div_mod_to_equations; lia. Qed.

Lemma land_1_cases a : Z.land a 1 = 0 \/ Z.land a 1 = 1.
Proof.
  pose proof (Z.land_ones a 1 ltac:(lia)) as H.
  change (Z.ones 1) with 1 in H. change (2 ^ 1) with 2 in H. rewrite H.
  pose proof (Z.mod_pos_bound a 2 ltac:(lia)). lia.
Qed.

Lemma attr_large_set a : attr_large (set_large a true) = true.
Proof.
  unfold attr_large, set_large. rewrite Z.land_lor_distr_l. change (Z.land 1 1) with 1.
  destruct (land_1_cases a) as [-> | ->]; reflexivity.
Qed.

Lemma attr_large_clear a : attr_large (set_large a false) = false.
Proof.
  unfold attr_large, set_large. rewrite <- Z.land_assoc. change (Z.land 254 1) with 0.
  rewrite Z.land_0_r. reflexivity.
Qed.

Lemma zlen_le_enc3 v : zlen (le_enc 3 v) = 3. Proof. exact (zlen_le_enc 3 v). Qed.

(* the converse of [validate_file_clean], for a buffer split into header and body *)
Lemma validate_file_intro h hdr data :
  zlen hdr = file_hs h -> f_ext h = zlen hdr + zlen data ->
  (f_size3 h = 16777215 <-> attr_large (f_attr h) = true) ->
  (f_size3 h <> 16777215 -> f_size3 h = f_ext h) ->
  (sum8 hdr - f_ckf h - f_state h) mod 256 = 0 ->
  (attr_checksum (f_attr h) = false -> f_ckf h = 170) ->
  (attr_checksum (f_attr h) = true -> (sum8 data + f_ckf h) mod 256 = 0) ->
  validate_file h (hdr ++ data) = Ok [].
Proof.
  intros Hh He H3 H3' Hs Hk Hb. pose proof (zlen_nonneg data) as Nd.
  unfold file_hs in Hh.
  assert (LN : zlen (hdr ++ data) = f_ext h) by (rewrite zlen_app; lia).
  assert (SB : sub 0 (if attr_large (f_attr h) then 32 else 24) (hdr ++ data) = hdr)
    by (apply sub_app_here; exact Hh).
  assert (HS : 24 <= zlen hdr <= 32) by (destruct (attr_large (f_attr h)); lia).
  unfold validate_file, validate_file_gen. unfold_c09. cbv zeta. rewrite !LN.
  replace (f_ext h <? 24) with false by lia.
  rewrite checksum_header_total by (rewrite LN; lia). rewrite SB, Hs. cbn [bind].
  change (0 =? 0) with true. cbv iota. rewrite Z.eqb_refl. cbn [negb].
  assert (BD : slice (if attr_large (f_attr h) then 32 else 24) (f_ext h) (hdr ++ data) = Some data).
  { rewrite slice_ok by (try rewrite LN; lia). f_equal. rewrite <- Hh.
    rewrite (sub_app_skip hdr data (zlen hdr) _ (zlen hdr)) by lia.
    rewrite Z.sub_diag. apply sub_here_exact. lia. }
  destruct (f_size3 h =? 16777215) eqn:E3.
  - assert (L : attr_large (f_attr h) = true) by (apply H3; lia). rewrite L in *.
    replace (f_ext h <? 32) with false by lia. cbn [negb].
    destruct (attr_checksum (f_attr h)) eqn:Ec; cbn [negb andb].
    + rewrite BD. cbn [of_opt bind app]. rewrite (Hb eq_refl). reflexivity.
    + rewrite (Hk eq_refl). reflexivity.
  - assert (L : attr_large (f_attr h) = false).
    { destruct (attr_large (f_attr h)) eqn:L; [|reflexivity]. exfalso.
      assert (f_size3 h = 16777215) by (apply H3; reflexivity). lia. }
    rewrite L in *. rewrite (H3' ltac:(lia)). rewrite Z.eqb_refl. cbn [negb].
    destruct (attr_checksum (f_attr h)) eqn:Ec; cbn [negb andb].
    + rewrite BD. cbn [of_opt bind app]. rewrite (Hb eq_refl). reflexivity.
    + rewrite (Hk eq_refl). reflexivity.
Qed.

(* C09_no_false_alarm, files: what SetSize + ChecksumAndAssemble build validates clean *)
Lemma no_false_alarm_file h data ext attr :
  set_size (f_attr h) (24 + zlen data) true = (ext, attr) ->
  zlen (f_guid h) = 16 ->
  validate_file (fst (checksum_and_assemble h ext attr data))
                (snd (checksum_and_assemble h ext attr data)) = Ok [].
Proof.
  intros Hss Hg. pose proof (zlen_nonneg data) as Nd.
  unfold set_size in Hss.
  assert (HL : attr_large attr = (16777215 <=? 24 + zlen data) /\
               ext = (if 16777215 <=? 24 + zlen data then 24 + zlen data + 8 else 24 + zlen data)).
  { destruct (16777215 <=? 24 + zlen data); apply pair_equal_spec in Hss; destruct Hss as [<- <-].
    - rewrite attr_large_set. auto.
    - rewrite attr_large_clear. auto. }
  destruct HL as [HL He]. clear Hss.
  unfold checksum_and_assemble. cbv zeta. cbn [fst snd].
  unfold file_header_bytes. rewrite HL.
  set (ckf := if attr_checksum attr then (0 - sum8 data) mod 256 else 170).
  set (g := f_guid h) in *. set (c0 := f_ckh h). set (f0 := f_ckf h). set (ty := f_type h).
  set (st := f_state h). set (s3 := le_enc 3 (write3 ext)).
  set (G := sum_list g). set (S3 := sum_list s3).
  assert (L3 : zlen s3 = 3) by apply zlen_le_enc3.
  assert (CK : (attr_checksum attr = false -> ckf = 170) /\
               (attr_checksum attr = true -> (sum8 data + ckf) mod 256 = 0)).
  { subst ckf. destruct (attr_checksum attr); split; intros; try discriminate; auto. apply sum8_fix. }
  destruct CK as [CK1 CK2].
  destruct (16777215 <=? 24 + zlen data) eqn:EB.
  - (* large *)
    set (e8 := le_enc 8 ext). set (E8 := sum_list e8).
    assert (L8 : zlen e8 = 8) by apply le8.
    assert (F1 : zfirstn 32 (g ++ [c0; f0; ty; attr] ++ s3 ++ [st] ++ e8) = g ++ [c0; f0; ty; attr] ++ s3 ++ [st] ++ e8).
    { unfold zfirstn. apply firstn_all2. unfold zlen in *. rewrite !app_length. cbn [length]. lia. }
    rewrite F1.
    assert (S1 : sum8 (g ++ [c0; f0; ty; attr] ++ s3 ++ [st] ++ e8) = (G + ty + attr + S3 + E8 + c0 + f0 + st) mod 256).
    { unfold sum8. rewrite !sum_list_app. cbn [sum_list fold_right]. f_equal. fold G S3 E8. lia. }
    rewrite S1.
    set (ckh := (c0 - ((G + ty + attr + S3 + E8 + c0 + f0 + st) mod 256 - f0 - st) mod 256) mod 256).
    assert (W3 : write3 ext = 16777215) by (unfold write3; replace (16777215 <=? ext) with true by lia; reflexivity).
    apply validate_file_intro; unfold file_hs; cbn [f_size3 f_ext f_attr f_ckf f_state]; rewrite ?HL, ?W3; auto.
    + rewrite !zlen_app. rewrite Hg, L3, L8. reflexivity.
    + rewrite !zlen_app. rewrite Hg, L3, L8. change (zlen [ckh; ckf; ty; attr]) with 4. change (zlen [st]) with 1. lia.
    + split; auto.
    + intros E; congruence.
    + assert (S2 : sum8 (g ++ [ckh; ckf; ty; attr] ++ s3 ++ [st] ++ e8) = (G + ty + attr + S3 + E8 + ckh + ckf + st) mod 256).
      { unfold sum8. rewrite !sum_list_app. cbn [sum_list fold_right]. f_equal. fold G S3 E8. lia. }
      rewrite S2. subst ckh. apply hdr_sum_fix.
  - (* small *)
    assert (F1 : zfirstn 24 (g ++ [c0; f0; ty; attr] ++ s3 ++ [st] ++ le_enc 8 ext) = g ++ [c0; f0; ty; attr] ++ s3 ++ [st]).
    { replace (g ++ [c0; f0; ty; attr] ++ s3 ++ [st] ++ le_enc 8 ext)
        with ((g ++ [c0; f0; ty; attr] ++ s3 ++ [st]) ++ le_enc 8 ext) by (rewrite <- !app_assoc; reflexivity).
      assert (L : zlen (g ++ [c0; f0; ty; attr] ++ s3 ++ [st]) = 24).
      { rewrite !zlen_app. rewrite Hg, L3. reflexivity. }
      rewrite <- L. apply zfirstn_app_exact. }
    rewrite F1.
    assert (S1 : sum8 (g ++ [c0; f0; ty; attr] ++ s3 ++ [st]) = (G + ty + attr + S3 + c0 + f0 + st) mod 256).
    { unfold sum8. rewrite !sum_list_app. cbn [sum_list fold_right]. f_equal. fold G S3. lia. }
    rewrite S1.
    set (ckh := (c0 - ((G + ty + attr + S3 + c0 + f0 + st) mod 256 - f0 - st) mod 256) mod 256).
    assert (W3 : write3 ext = ext) by (unfold write3; replace (16777215 <=? ext) with false by lia; reflexivity).
    rewrite app_nil_r.
    apply validate_file_intro; unfold file_hs; cbn [f_size3 f_ext f_attr f_ckf f_state]; rewrite ?HL, ?W3; auto.
    + rewrite !zlen_app. rewrite Hg, L3. reflexivity.
    + rewrite !zlen_app. rewrite Hg, L3. change (zlen [ckh; ckf; ty; attr]) with 4. change (zlen [st]) with 1. lia.
    + split; [lia|discriminate].
    + assert (S2 : sum8 (g ++ [ckh; ckf; ty; attr] ++ s3 ++ [st]) = (G + ty + attr + S3 + ckh + ckf + st) mod 256).
      { unfold sum8. rewrite !sum_list_app. cbn [sum_list fold_right]. f_equal. fold G S3. lia. }
      rewrite S2. subst ckh. apply hdr_sum_fix.
Qed.

(* ---- F.2 sections: GenSecHeader ---- *)

Lemma no_false_alarm_section h body :
  zlen body + 28 < U32 ->
  (forall g, s_gd h = Some g -> zlen (gd_guid g) = 16) ->
  validate_sec (fst (gen_sec_header h body)) (snd (gen_sec_header h body)) = [].
Proof.
  intros Hb Hg. pose proof (zlen_nonneg body) as Nb. unfold U32 in *.
  unfold gen_sec_header. cbv zeta. cbn [fst snd]. unfold U32.
  set (hl0 := 4 + match s_gd h with Some _ => 20 | None => 0 end).
  assert (H0 : hl0 = 4 \/ hl0 = 24) by (subst hl0; destruct (s_gd h); auto).
  assert (E0 : (zlen body + hl0) mod 2 ^ 32 = zlen body + hl0) by (apply Z.mod_small; lia).
  rewrite E0.
  set (tsh := match match s_gd h with
                    | Some g => Some (mkGd (gd_guid g)
                        ((if 16777215 <=? zlen body + hl0 then hl0 + 4 else hl0) mod 65536)
                        (gd_attrs g) (gd_kind g))
                    | None => None end with
              | Some g => gd_guid g ++ le_enc 2 (gd_dataoff g) ++ le_enc 2 (gd_attrs g)
              | None => [] end).
  assert (LT : zlen tsh = hl0 - 4).
  { subst tsh hl0. destruct (s_gd h) as [g|] eqn:Eg; [|reflexivity].
    cbn [gd_guid gd_dataoff gd_attrs]. rewrite !zlen_app, !le2. rewrite (Hg g eq_refl). lia. }
  unfold validate_sec. cbn [s_size3 s_ext]. unfold_c09. unfold U32.
  destruct (16777215 <=? zlen body + hl0) eqn:EB.
  - assert (E1 : (zlen body + hl0 + 4) mod 2 ^ 32 = zlen body + hl0 + 4) by (apply Z.mod_small; lia).
    rewrite E1. replace (16777215 <=? zlen body + hl0 + 4) with true by lia.
    assert (W : write3 (zlen body + hl0 + 4) = 16777215)
      by (unfold write3; replace (16777215 <=? zlen body + hl0 + 4) with true by lia; reflexivity).
    rewrite W. cbn [Z.eqb Pos.eqb].
    rewrite !zlen_app, zlen_le_enc3, le4, LT. change (zlen [s_type h]) with 1.
    rewrite Z.mod_small by lia.
    match goal with |- context [?a <? 8] => replace (a <? 8) with false by lia end.
    match goal with |- context [negb (?a =? ?b)] => replace (a =? b) with true by lia end.
    reflexivity.
  - replace (16777215 <=? zlen body + hl0) with false by lia.
    assert (W : write3 (zlen body + hl0) = zlen body + hl0)
      by (unfold write3; replace (16777215 <=? zlen body + hl0) with false by lia; reflexivity).
    rewrite W. replace (zlen body + hl0 =? 16777215) with false by lia.
    rewrite Z.eqb_refl. cbn [negb].
    rewrite !zlen_app, zlen_le_enc3, LT. change (zlen [s_type h]) with 1. change (zlen (@nil Z)) with 0.
    rewrite Z.mod_small by lia.
    match goal with |- context [negb (?a =? ?b)] => replace (a =? b) with true by lia end.
    reflexivity.
Qed.

(* ---- F.3 volumes: the FirmwareVolume case of Assemble ---- *)

Lemma splice_splice off d d' (b : bytes) : 0 <= off -> off + zlen d <= zlen b -> zlen d' = zlen d ->
  splice off d' (splice off d b) = splice off d' b.
Proof.
  intros H0 H1 Hd. unfold splice.
  assert (LA : zlen (zfirstn off b) = off) by (apply zlen_zfirstn; pose proof (zlen_nonneg d); lia).
  f_equal.
  - rewrite <- LA at 1. apply zfirstn_app_exact.
  - f_equal. rewrite Hd.
    replace (off + zlen d) with (zlen (zfirstn off b ++ d)) at 1 by (rewrite zlen_app; lia).
    rewrite app_assoc. apply zskipn_app_exact.
Qed.

Lemma sub0_three (pre x post : bytes) H : zlen pre + zlen x <= H ->
  sub 0 H (pre ++ x ++ post) = pre ++ x ++ zfirstn (H - zlen pre - zlen x) post.
Proof.
  intros HH. unfold sub. change (zskipn 0 (pre ++ x ++ post)) with (pre ++ x ++ post).
  pose proof (zlen_nonneg x).
  rewrite zfirstn_app_gt by lia. f_equal. rewrite zfirstn_app_gt by lia. reflexivity.
Qed.

Lemma known_ffs3 : known_fv_guid FFS3 = true.
Proof. vm_compute. reflexivity. Qed.

(* Go's Align never rounds down (no 64-bit wrap) *)
Lemma ldiff_land_self y k : Z.ldiff (Z.land y k) y = 0.
Proof.
  apply Z.bits_inj'. intros n Hn. rewrite Z.ldiff_spec, Z.land_spec, Z.bits_0.
  destruct (Z.testbit y n), (Z.testbit k n); reflexivity.
Qed.

Lemma ldiff_land_r y k : Z.ldiff y (Z.land y k) = Z.ldiff y k.
Proof.
  apply Z.bits_inj'. intros n Hn. rewrite !Z.ldiff_spec, Z.land_spec.
  destruct (Z.testbit y n), (Z.testbit k n); reflexivity.
Qed.

Lemma sub_land y k : y - Z.land y k = Z.ldiff y k.
Proof. rewrite (Z.sub_nocarry_ldiff y (Z.land y k) (ldiff_land_self y k)). apply ldiff_land_r. Qed.

Lemma land_le_r y k : 0 <= k -> Z.land y k <= k.
Proof.
  intros Hk. rewrite Z.land_comm. pose proof (sub_land k y) as H.
  assert (0 <= Z.ldiff k y) by (apply Z.ldiff_nonneg; auto). lia.
Qed.

Lemma align_go_bounds v b : 0 <= v -> 0 < b -> v + b - 1 < 2 ^ 64 -> v <= align_go v b <= v + b - 1.
Proof.
  intros Hv Hb Hlt. unfold align_go.
  rewrite (Z.mod_small (v + b - 1)) by lia.
  rewrite (Z.mod_small (2 ^ 64 - b)) by lia.
  set (y := v + b - 1). set (k := b - 1).
  assert (Hk : 0 <= k < 2 ^ 64) by (subst k; lia).
  assert (E1 : 2 ^ 64 - b = Z.ldiff (Z.ones 64) k).
  { rewrite <- Z.sub_nocarry_ldiff.
    - rewrite Z.ones_equiv. subst k. lia.
    - apply Z.ldiff_ones_r_low; [lia|].
      destruct (Z.eq_dec k 0) as [->|Hn]; [reflexivity|]. apply Z.log2_lt_pow2; lia. }
  rewrite E1. rewrite Z.ldiff_land. rewrite Z.land_assoc.
  rewrite (Z.land_ones y 64) by lia. rewrite (Z.mod_small y) by (subst y; lia).
  rewrite <- Z.ldiff_land. rewrite <- sub_land.
  pose proof (land_le_r y k ltac:(lia)).
  assert (0 <= Z.land y k) by (apply Z.land_nonneg; left; subst y; lia). subst y k. lia.
Qed.

Lemma align_go_ge v b : 0 <= v -> 0 < b -> v + b - 1 < 2 ^ 64 -> v <= align_go v b.
Proof. intros. apply align_go_bounds; assumption. Qed.

(* the blocks of the block-map entries after the first one (uint64 arithmetic, as Assemble adds them) *)
Definition rest_sum (rest : list (Z * Z)) : Z :=
  fold_left (fun a b => (a + fst b * snd b) mod U64) rest 0.

Lemma fold_mod_nonneg rest : forall a, 0 <= a ->
  0 <= fold_left (fun a b => (a + fst b * snd b) mod U64) rest a.
Proof.
  induction rest as [|x rest IH]; intros a Ha; cbn [fold_left]; [exact Ha|].
  apply IH. apply Z.mod_pos_bound. unfold U64. lia.
Qed.

Lemma rest_sum_nonneg rest : 0 <= rest_sum rest.
Proof. apply fold_mod_nonneg. lia. Qed.

(* the length Assemble gives a volume it has to enlarge: the first entry is resized to whole blocks *)
Definition grown_len (newlen s : Z) (rest : list (Z * Z)) : Z :=
  (rest_sum rest + align_go (if rest_sum rest <? newlen then newlen - rest_sum rest else 0) s) mod U64.

Lemma grown_len_ge newlen s rest : 0 <= newlen < 2 ^ 63 -> 0 < s < 2 ^ 32 -> rest_sum rest < 2 ^ 62 ->
  newlen <= grown_len newlen s rest.
Proof.
  intros Hn Hs Hr. unfold grown_len. pose proof (rest_sum_nonneg rest) as R0.
  set (rs := rest_sum rest) in *.
  set (need := if rs <? newlen then newlen - rs else 0).
  assert (Nd : 0 <= need <= newlen /\ newlen <= rs + need) by (subst need; destruct (rs <? newlen) eqn:E; lia).
  change (2 ^ 63) with 9223372036854775808 in *. change (2 ^ 62) with 4611686018427387904 in *.
  change (2 ^ 32) with 4294967296 in *.
  pose proof (align_go_bounds need s ltac:(lia) ltac:(lia)) as B.
  change (2 ^ 64) with 18446744073709551616 in B. specialize (B ltac:(lia)).
  unfold U64. change (2 ^ 64) with 18446744073709551616. rewrite Z.mod_small by lia. lia.
Qed.

Lemma sub_splice_after off d (b : bytes) a l : 0 <= off -> off + zlen d <= zlen b -> off + zlen d <= a ->
  sub a l (splice off d b) = sub a l b.
Proof.
  intros H0 H1 Ha. pose proof (zlen_nonneg d) as Nd. unfold splice.
  rewrite (sub_app_skip (zfirstn off b) _ a l off) by (try apply zlen_zfirstn; lia).
  rewrite (sub_app_skip d _ (a - off) l (zlen d)) by lia.
  unfold sub. rewrite zskipn_zskipn by lia. do 2 f_equal. lia.
Qed.

Lemma insert_file_len pol fvbuf aligned fb b : insert_file pol fvbuf aligned fb = Ok b -> zlen fvbuf <= zlen b.
Proof.
  unfold insert_file. destruct (aligned <? zlen fvbuf); [discriminate|].
  destruct (zlen fb =? 0); [discriminate|]. intros H; apply Ok_inj in H. subst b.
  rewrite !zlen_app. pose proof (zlen_nonneg (zrepeat pol (aligned - zlen fvbuf))). pose proof (zlen_nonneg fb). lia.
Qed.

Lemma place_files_len pol limit files : forall fvbuf off b,
  place_files pol limit fvbuf off files = Ok b -> zlen fvbuf <= zlen b.
Proof.
  induction files as [|f files IH]; intros fvbuf off b; cbn [place_files].
  - intros H; apply Ok_inj in H. subst b. lia.
  - cbv zeta. destruct (zlen (node_buf f) =? 0); [discriminate|].
    match goal with |- context [if ?c then Err E_NOSPACE else _] => destruct c end; [discriminate|].
    match goal with |- context [bind ?x _] => destruct x as [[fvbuf1 a1]| | |] eqn:ES end; cbn [bind]; try discriminate.
    destruct (insert_file pol fvbuf1 a1 (node_buf f)) as [b2| | |] eqn:EI; cbn [bind]; try discriminate.
    intros H. apply IH in H. apply insert_file_len in EI.
    assert (zlen fvbuf <= zlen fvbuf1); [|lia].
    revert ES. match goal with |- context [if ?c then _ else _] => destruct c end.
    + intros E; apply Ok_inj in E. apply pair_equal_spec in E. destruct E as [<- _]. lia.
    + destruct (create_pad_file pol _) as [pf| | |]; cbn [bind]; try discriminate.
      destruct (insert_file pol fvbuf _ pf) as [bb| | |] eqn:EI2; cbn [bind]; try discriminate.
      intros E; apply Ok_inj in E. apply pair_equal_spec in E. destruct E as [<- _].
      apply insert_file_len in EI2. exact EI2.
Qed.

Lemma forallb_repeatz v n : forallb (fun x => x =? v) (repeatz v n) = true.
Proof. induction n as [|n IH]; [reflexivity|]. cbn [repeatz forallb]. rewrite Z.eqb_refl. exact IH. Qed.

Lemma zlen_zrepeat v n : 0 <= n -> zlen (zrepeat v n) = n.
Proof.
  intros Hn. unfold zrepeat.
  assert (R : forall k, zlen (repeatz v k) = Z.of_nat k).
  { induction k as [|k IHk]; [reflexivity|]. cbn [repeatz]. rewrite zlen_cons, IHk. lia. }
  rewrite R. lia.
Qed.

Lemma asm_vol_inv pol ffs3 h buf files h' nb :
  asm_vol pol ffs3 h buf files = Ok (h', nb) -> files <> [] ->
  exists len blocks b5 newlen,
    h' = mkVol (v_zero h) (if ffs3 && bytes_eqb (v_guid h) FFS2 then FFS3 else v_guid h) len (v_sig h)
               (v_attrs h) (v_hdrlen h) (v_cksum h) (v_exthdroff h) (v_reserved h) (v_rev h) blocks
               (v_extname h) (v_extsize h) (v_dataoff h) (v_fvoffset h) (v_resizable h)
               ((len - align8 newlen) mod U64) /\
    nb = splice 50 (le_enc 2 ((0 - sum16 (sub 0 (v_hdrlen h) (splice 50 [0; 0] b5))) mod 65536))
                (splice 50 [0; 0] b5) /\
    60 <= zlen b5 /\ 0 <= v_hdrlen h <= zlen b5 /\ Z.even (v_hdrlen h) = true /\
    nblocks blocks = nblocks (v_blocks h) /\ 0 <= newlen /\
    zlen b5 = (if newlen <? len then len else newlen) /\
    (v_resizable h = false -> newlen <= len) /\
    (newlen <= len \/ exists c0 s0 rest, v_blocks h = (c0, s0) :: rest /\ s0 <> 0 /\
                                        len = grown_len newlen s0 rest) /\
    v_hdrlen h <= newlen /\
    (newlen < len -> forall a l, 60 <= a -> newlen <= a ->
       sub a l b5 = sub (a - newlen) l (zrepeat pol (len - newlen))).
Proof.
  intros H Hne. destruct files as [|f0 fs]; [congruence|]. unfold asm_vol in H. cbv zeta in H.
  cbn [andb] in H.
  destruct (v_length h <? zlen buf); [discriminate|].
  destruct (v_blocks h) as [|[c0 s0] rest] eqn:EBl; [discriminate|].
  destruct (v_dataoff h <? v_hdrlen h) eqn:EDo; [discriminate|].
  destruct (zlen buf <? v_dataoff h) eqn:EDb; [discriminate|].
  destruct (slice 0 (v_dataoff h) buf) as [hdr|] eqn:EHd; cbn [of_opt bind] in H; [|discriminate].
  destruct (place_files pol _ hdr (v_dataoff h) (f0 :: fs)) as [b1| | |] eqn:EPl; cbn [bind] in H; try discriminate.
  assert (LD : v_hdrlen h <= zlen b1).
  { apply place_files_len in EPl. apply slice_some in EHd. destruct EHd as (S1 & S2 & ->).
    rewrite zlen_sub in EPl by lia. lia. }
  destruct ((v_length h <? zlen b1) && negb (v_resizable h)) eqn:EG; [discriminate|].
  set (newlen := zlen b1) in *.
  assert (exists len blocks,
    (if v_length h <? newlen
     then if s0 =? 0 then Err E_BLOCK0
          else Ok (grown_len newlen s0 rest,
                   ((((grown_len newlen s0 rest - rest_sum rest) mod U64) / s0) mod U32, s0) :: rest)
     else Ok (v_length h, (c0, s0) :: rest)) = Ok (len, blocks) /\
    nblocks blocks = nblocks ((c0, s0) :: rest) /\ (v_resizable h = false -> newlen <= len) /\
    (newlen <= len \/ (s0 <> 0 /\ len = grown_len newlen s0 rest))) as (len & blocks & Elb & Lb & Lr & Lg).
  { destruct (v_length h <? newlen) eqn:EN.
    - destruct (s0 =? 0) eqn:Es0; [cbn [bind] in H; discriminate|].
      eexists _, _. split; [reflexivity|]. split; [cbn [nblocks]; rewrite Es0, !andb_false_r; reflexivity|]. split.
      + intros Hr. rewrite Hr in EG. cbn in EG. discriminate.
      + right. split; [lia|reflexivity].
    - eexists _, _. split; [reflexivity|]. split; [reflexivity|]. split; [intros _; lia|left; lia]. }
  unfold grown_len, rest_sum in Elb. rewrite Elb in H. cbn [bind] in H.
  set (b2 := if newlen <? len then b1 ++ zrepeat pol (len - newlen) else b1) in *.
  destruct (zlen b2 <? 40) eqn:E40; [discriminate|].
  set (b3 := splice 32 (le_enc 8 len) b2) in *.
  set (b4 := if ffs3 && bytes_eqb (v_guid h) FFS2 then splice 16 FFS3 b3 else b3) in *.
  destruct blocks as [|[c s] brest]; [discriminate|].
  destruct (zlen b4 <? 60) eqn:E60; [discriminate|].
  set (b5 := splice 56 (le_enc 4 c) b4) in *.
  destruct (slice 0 (v_hdrlen h) (splice 50 [0; 0] b5)) as [hb|] eqn:ESl; [|discriminate].
  destruct (negb (Z.even (v_hdrlen h))) eqn:EE; [discriminate|].
  apply Ok_inj in H. apply pair_equal_spec in H. destruct H as [<- <-].
  apply slice_some in ESl. destruct ESl as (S1 & S2 & ->). rewrite Z.sub_0_r.
  assert (L3 : zlen b3 = zlen b2) by (apply zlen_splice; rewrite ?le8; lia).
  assert (L4 : zlen b4 = zlen b2).
  { subst b4. destruct (ffs3 && bytes_eqb (v_guid h) FFS2); [|exact L3].
    rewrite zlen_splice; [exact L3| lia | change (zlen FFS3) with 16; lia]. }
  assert (L5 : zlen b5 = zlen b2) by (subst b5; rewrite zlen_splice; rewrite ?le4; lia).
  assert (L6 : zlen (splice 50 [0; 0] b5) = zlen b5) by (apply zlen_splice; change (zlen [0; 0]) with 2; lia).
  exists len, ((c, s) :: brest), b5, newlen.
  split; [reflexivity|]. split; [reflexivity|]. split; [lia|]. split; [lia|].
  split; [destruct (Z.even (v_hdrlen h)); [reflexivity|discriminate]|].
  split; [exact Lb|]. split; [apply zlen_nonneg|].
  split; [|split; [exact Lr|split; [destruct Lg as [?|[? ?]]; [left; assumption|right; exists c0, s0, rest; auto]|split; [exact LD|]]]].
  2: { intros Hlt a l Ha Hna.
       subst b5. rewrite sub_splice_after by (rewrite ?le4; lia).
       assert (E4 : sub a l b4 = sub a l b3).
       { subst b4. destruct (ffs3 && bytes_eqb (v_guid h) FFS2); [|reflexivity].
         apply sub_splice_after; [lia|change (zlen FFS3) with 16; lia|change (zlen FFS3) with 16; lia]. }
       rewrite E4. subst b3. rewrite sub_splice_after by (rewrite ?le8; lia).
       subst b2. replace (newlen <? len) with true by lia.
       apply sub_app_skip; [reflexivity|lia]. }
  rewrite L5. subst b2. destruct (newlen <? len) eqn:EL; [|reflexivity].
  rewrite zlen_app. unfold zrepeat.
  assert (R : forall n, zlen (repeatz pol n) = Z.of_nat n).
  { induction n as [|n IHn]; [reflexivity|]. cbn [repeatz]. rewrite zlen_cons, IHn. lia. }
  rewrite R. fold newlen. apply Z.ltb_lt in EL. clear - EL. lia.
Qed.

(* C09_no_false_alarm, volumes *)
Lemma asm_vol_clean pol ffs3 h buf files h' nb :
  asm_vol pol ffs3 h buf files = Ok (h', nb) -> files <> [] ->
  pol = fv_polarity (v_attrs h) -> zlen nb < 2 ^ 63 ->
  v_hdrlen h = 56 + 8 * (nblocks (v_blocks h) + 1) -> v_rev h = 2 -> v_sig h = c09_fv_signature ->
  known_fv_guid (v_guid h) = true ->
  zlen nb = v_length h' ->
  validate_vol h' nb = Ok [].
Proof.
  intros HA Hne Hpol Hsm HH HR HSg HG HLen.
  destruct (asm_vol_inv _ _ _ _ _ _ _ HA Hne) as (len & blocks & b5 & newlen & -> & -> & L60 & LH & EV & LB & N0 & L5 & _ & _ & LD & Ltail).
  cbn [v_length] in HLen.
  pose proof (nblocks_nonneg (v_blocks h)) as Nb.
  set (b6 := splice 50 [0; 0] b5) in *.
  assert (L6 : zlen b6 = zlen b5) by (apply zlen_splice; change (zlen [0; 0]) with 2; lia).
  set (sum := (0 - sum16 (sub 0 (v_hdrlen h) b6)) mod 65536) in *.
  assert (L7 : zlen (splice 50 (le_enc 2 sum) b6) = zlen b5) by (rewrite zlen_splice; rewrite ?le2; lia).
  unfold validate_vol, validate_vol_gen. unfold_c09.
  cbn [v_hdrlen v_blocks v_guid v_rev v_sig v_length v_freespace v_attrs].
  rewrite L7 in *.
  replace (zlen b5 <? 64) with false by lia.
  replace (v_hdrlen h <? 64) with false by lia.
  replace (zlen b5 <? v_hdrlen h) with false by lia.
  rewrite slice_ok by lia. cbn [of_opt bind]. rewrite Z.sub_0_r.
  rewrite LB. replace (v_hdrlen h =? 56 + 8 * (nblocks (v_blocks h) + 1)) with true by lia.
  assert (G : known_fv_guid (if ffs3 && bytes_eqb (v_guid h) FFS2 then FFS3 else v_guid h) = true)
    by (destruct (ffs3 && bytes_eqb (v_guid h) FFS2); [apply known_ffs3|exact HG]).
  rewrite G, HR, HSg, !Z.eqb_refl. rewrite HLen, Z.eqb_refl.
  (* the checksum *)
  assert (CK : sum16 (sub 0 (v_hdrlen h) (splice 50 (le_enc 2 sum) b6)) = 0).
  { subst b6. rewrite splice_splice by (try reflexivity; change (zlen [0; 0]) with 2; lia).
    subst sum. unfold splice. change (zlen [0; 0]) with 2. rewrite le2.
    set (pre := zfirstn 50 b5). set (post := zskipn (50 + 2) b5).
    assert (LP : zlen pre = 50) by (apply zlen_zfirstn; lia).
    rewrite !sub0_three by (rewrite LP, ?le2; change (zlen [0; 0]) with 2; lia).
    rewrite le2. change (zlen [0; 0]) with 2.
    apply sum16_fix. rewrite LP. reflexivity. }
  rewrite CK.
  assert (LS : zlen (sub 0 (v_hdrlen h) (splice 50 (le_enc 2 sum) b6)) = v_hdrlen h)
    by (apply zlen_sub0; lia).
  rewrite LS, EV. cbn [negb Z.eqb app].
  (* the free space *)
  set (FS := (len - align8 newlen) mod U64).
  destruct (true && (0 <? FS) && (FS <=? len)) eqn:EF; cbn [bind]; [|reflexivity].
  assert (A8 : newlen <= align8 newlen <= newlen + 7).
  { pose proof (align8_ge newlen). unfold align8, align in *.
    pose proof (Z.div_mod (newlen + 8 - 1) 8 ltac:(lia)). pose proof (Z.mod_pos_bound (newlen + 8 - 1) 8 ltac:(lia)). lia. }
  assert (LenB : len = zlen b5) by lia.
  assert (NL5 : newlen <= zlen b5) by (rewrite L5; destruct (newlen <? len) eqn:E5; lia).
  assert (FSv : FS = len - align8 newlen /\ align8 newlen < len).
  { subst FS. unfold U64 in *. change (2 ^ 64) with 18446744073709551616 in *. change (2 ^ 63) with 9223372036854775808 in Hsm.
    destruct (Z_lt_ge_dec (align8 newlen) len) as [Hlt|Hge].
    - rewrite Z.mod_small by lia. lia.
    - exfalso. destruct (Z.eq_dec (align8 newlen) len) as [E|E].
      + rewrite E, Z.sub_diag in EF. cbn in EF. discriminate.
      + assert (M : (len - align8 newlen) mod 18446744073709551616 = len - align8 newlen + 18446744073709551616).
        { symmetry. apply Z.mod_unique with (q := -1); [left|]; lia. }
        rewrite M in EF. lia. }
  destruct FSv as [FSv Alt].
  assert (Nlt : newlen < len) by lia.
  rewrite slice_ok by lia. cbn [of_opt bind].
  replace (len - (len - FS)) with FS by lia.
  replace (len - FS) with (align8 newlen) by lia.
  subst b6. rewrite !sub_splice_after by (rewrite ?le2, ?zlen_splice; change (zlen [0; 0]) with 2; rewrite ?zlen_splice; change (zlen [0; 0]) with 2; lia).
  rewrite (Ltail Nlt) by lia.
  assert (AE : forallb (fun x => x =? fv_polarity (v_attrs h))
                 (sub (align8 newlen - newlen) FS (zrepeat pol (len - newlen))) = true).
  { rewrite Hpol. unfold sub, zfirstn, zskipn, zrepeat. apply forallb_firstn, forallb_skipn, forallb_repeatz. }
  rewrite AE. reflexivity.
Qed.

Lemma asm_vol_len_fixed pol ffs3 h buf files h' nb :
  asm_vol pol ffs3 h buf files = Ok (h', nb) -> files <> [] -> v_resizable h = false ->
  zlen nb = v_length h'.
Proof.
  intros HA Hne Hr.
  destruct (asm_vol_inv _ _ _ _ _ _ _ HA Hne) as (len & blocks & b5 & newlen & -> & -> & L60 & LH & EV & LB & _ & L5 & Lr & _ & _ & _).
  cbn [v_length]. specialize (Lr Hr).
  set (b6 := splice 50 [0; 0] b5) in *.
  assert (L6 : zlen b6 = zlen b5) by (apply zlen_splice; change (zlen [0; 0]) with 2; lia).
  rewrite zlen_splice by (rewrite ?le2; lia). rewrite L6, L5.
  destruct (newlen <? len) eqn:E; lia.
Qed.

Lemma no_false_alarm_volume pol ffs3 h buf files h' nb :
  asm_vol pol ffs3 h buf files = Ok (h', nb) -> files <> [] -> v_resizable h = false ->
  pol = fv_polarity (v_attrs h) -> zlen nb < 2 ^ 63 ->
  v_hdrlen h = 56 + 8 * (nblocks (v_blocks h) + 1) -> v_rev h = 2 -> v_sig h = c09_fv_signature ->
  known_fv_guid (v_guid h) = true ->
  validate_vol h' nb = Ok [].
Proof.
  intros HA Hne Hr Hpol Hsm HH HR HSg HG. eapply asm_vol_clean; eauto. eapply asm_vol_len_fixed; eauto.
Qed.

(* resizable (nested) volumes may grow to the next multiple of the block size *)
Lemma asm_vol_len_any pol ffs3 h buf files h' nb :
  asm_vol pol ffs3 h buf files = Ok (h', nb) -> files <> [] ->
  (forall c s rest, v_blocks h = (c, s) :: rest -> 0 < s < 2 ^ 32 /\ rest_sum rest < 2 ^ 62) ->
  zlen nb < 2 ^ 63 ->
  zlen nb = v_length h'.
Proof.
  intros HA Hne Hs Hsmall.
  destruct (asm_vol_inv _ _ _ _ _ _ _ HA Hne) as (len & blocks & b5 & newlen & -> & -> & L60 & LH & EV & LB & N0 & L5 & _ & Lg & _ & _).
  cbn [v_length].
  set (b6 := splice 50 [0; 0] b5) in *.
  assert (L6 : zlen b6 = zlen b5) by (apply zlen_splice; change (zlen [0; 0]) with 2; lia).
  rewrite zlen_splice in Hsmall |- * by (rewrite ?le2; lia). rewrite L6, L5 in *.
  destruct Lg as [Hle|(c0 & s0 & rest & EB & Hs0 & ->)].
  - destruct (newlen <? len) eqn:E; lia.
  - destruct (Hs _ _ _ EB) as [Hs1 Hs2].
    assert (newlen < 2 ^ 63) by (destruct (newlen <? grown_len newlen s0 rest) eqn:E; lia).
    pose proof (grown_len_ge newlen s0 rest ltac:(lia) Hs1 Hs2).
    destruct (newlen <? grown_len newlen s0 rest) eqn:E; lia.
Qed.

Lemma no_false_alarm_volume_any pol ffs3 h buf files h' nb :
  asm_vol pol ffs3 h buf files = Ok (h', nb) -> files <> [] ->
  (forall c s rest, v_blocks h = (c, s) :: rest -> 0 < s < 2 ^ 32 /\ rest_sum rest < 2 ^ 62) ->
  zlen nb < 2 ^ 63 ->
  pol = fv_polarity (v_attrs h) ->
  v_hdrlen h = 56 + 8 * (nblocks (v_blocks h) + 1) -> v_rev h = 2 -> v_sig h = c09_fv_signature ->
  known_fv_guid (v_guid h) = true ->
  validate_vol h' nb = Ok [].
Proof.
  intros HA Hne Hs Hsm Hpol HH HR HSg HG. eapply asm_vol_clean; eauto. eapply asm_vol_len_any; eauto.
Qed.

(* ---- F.4 the same, phrased for what Assemble.Visit does to a node ---- *)

Lemma file_asm_clean h buf kids' st n st' :
  file_asm h buf kids' st = Ok (n, st') -> (kids' <> [] \/ f_nvar h <> None) ->
  zlen (f_guid h) = 16 ->
  exists h' nb, n = NFile h' nb kids' /\ validate_file h' nb = Ok [].
Proof.
  intros HA Hre Hg. unfold file_asm in HA. destruct st as [pol ffs3].
  set (data := match f_nvar h with Some nb => nb | None => join4 [] (map node_buf kids') end) in *.
  assert (HA' : (let '(ext, attr) := set_size (f_attr h) (24 + zlen data) true in
                 let '(h', nb) := checksum_and_assemble h ext attr data in
                 Ok (NFile h' nb kids', (pol, ffs3 || (16777215 <? ext)))) = Ok (n, st')).
  { destruct kids' as [|k0 kr]; [|exact HA]. destruct (f_nvar h) eqn:En; [exact HA|].
    destruct Hre as [Hre|Hre]; congruence. }
  clear HA. destruct (set_size (f_attr h) (24 + zlen data) true) as [ext attr] eqn:Ess.
  pose proof (no_false_alarm_file h data ext attr Ess Hg) as HV.
  destruct (checksum_and_assemble h ext attr data) as [h' nb]. cbn [fst snd] in HV.
  apply Ok_inj in HA'. apply pair_equal_spec in HA'. destruct HA' as [<- _]. eauto.
Qed.

Lemma vol_asm_clean h buf kids' st n st' :
  vol_asm h buf kids' st = Ok (n, st') -> kids' <> [] ->
  (forall c s rest, v_blocks h = (c, s) :: rest -> 0 < s < 2 ^ 32 /\ rest_sum rest < 2 ^ 62) ->
  zlen (node_buf n) < 2 ^ 63 ->
  fst st = fv_polarity (v_attrs h) ->
  v_hdrlen h = 56 + 8 * (nblocks (v_blocks h) + 1) -> v_rev h = 2 -> v_sig h = c09_fv_signature ->
  known_fv_guid (v_guid h) = true ->
  exists h' nb, n = NVol h' nb kids' /\ validate_vol h' nb = Ok [].
Proof.
  intros HA Hne Hs Hsm Hpol HH HR HSg HG. unfold vol_asm in HA. destruct st as [pol ffs3]. cbn [fst] in Hpol.
  destruct (asm_vol pol ffs3 h buf kids') as [[h' nb]| | |] eqn:EA; cbn [bind] in HA; try discriminate.
  apply Ok_inj in HA. apply pair_equal_spec in HA. destruct HA as [<- _]. cbn [node_buf] in Hsm.
  exists h', nb. split; [reflexivity|]. eapply no_false_alarm_volume_any; eauto.
Qed.

(* ================= Part G: witnesses ================= *)

Definition dec0 (_ : Z) (_ : bytes) : option bytes := None.
Definition u2s0 (b : bytes) : bytes := b.
Definition nvar0 (_ : bytes) : option bytes := None.

(* a 72-byte volume header (one block entry, revision 2, correct checksum) *)
Definition ex_fv_header (guid : bytes) (len attrs : Z) : bytes :=
  let h0 := zrepeat 0 16 ++ guid ++ le_enc 8 len ++ [95; 70; 86; 72] ++ le_enc 4 attrs ++
            le_enc 2 72 ++ [0; 0] ++ [0; 0] ++ [0; 2] ++ le_enc 4 1 ++ le_enc 4 len ++ zrepeat 0 8 in
  splice 50 (le_enc 2 ((0 - sum16 h0) mod 65536)) h0.

(* a file built by the model's own SetSize + ChecksumAndAssemble *)
Definition ex_file (g0 ftype attr0 : Z) (data : bytes) : bytes :=
  let h := mkFile (g0 :: zrepeat 0 15) 0 0 ftype attr0 0 248 0 24 None in
  let '(ext, attr) := set_size attr0 (24 + zlen data) true in
  snd (checksum_and_assemble h ext attr data).

Definition pad8 (pol : Z) (b : bytes) : bytes := b ++ zrepeat pol (align8 (zlen b) - zlen b).

Definition vol_default : volhdr := mkVol [] [] 0 0 0 0 0 0 0 0 [] [] 0 0 0 false 0.
Definition res_node (r : outcome (node * Z)) : node := match r with Ok (n, _) => n | _ => NPad 0 [] end.
Definition node_vh (n : node) : volhdr := match n with NVol h _ _ => h | _ => vol_default end.
Definition node_kids (n : node) : list node :=
  match n with NVol _ _ k | NFile _ _ k | NSec _ _ k => k | NPad _ _ => [] end.

(* G.1 the free-space marker: a raw file of 0xFFFF bytes whose body starts with eight FF bytes,
   followed by a second file; byte 22 of the first header (the top size byte, 00) becomes FF *)
Definition ex_big_files : bytes :=
  pad8 255 (ex_file 17 1 0 (zrepeat 255 8 ++ zrepeat 7 (65535 - 32))) ++
  pad8 255 (ex_file 34 1 0 [1; 2; 3; 4; 5]) ++ zrepeat 255 24.
Definition ex_big : bytes := ex_fv_header FFS2 (72 + zlen ex_big_files) 327423 ++ ex_big_files.
Definition ex_big' : bytes := splice 94 [255] ex_big.
Definition ex_big_node := res_node (parse_fv dec0 u2s0 nvar0 3 240 ex_big 0 false).
Definition ex_big_node' := res_node (parse_fv dec0 u2s0 nvar0 3 240 ex_big' 0 false).

(* all computations on the 64 KiB witness return small values (no big term is ever reified) *)
Lemma ex_big_change : single_change ex_big (72 + 22) ex_big'.
Proof.
  exists (zfirstn 94 ex_big), 0, 255, (zskipn 95 ex_big).
  split; [apply bytes_eqb_eq; vm_compute; reflexivity|].
  split; [apply bytes_eqb_eq; vm_compute; reflexivity|].
  split; [vm_compute; reflexivity|]. repeat split; lia.
Qed.

Definition res_pol (r : outcome (node * Z)) : Z := match r with Ok (_, p) => p | _ => -1 end.
Definition is_vol (n : node) : bool := match n with NVol _ _ _ => true | _ => false end.

Lemma ex_big_facts :
  let r := parse_fv dec0 u2s0 nvar0 3 240 ex_big 0 false in
  is_ok r = true /\ is_vol (res_node r) = true /\ res_pol r = 255 /\
  validate_gen false (res_node r) = Ok [] /\ validate (res_node r) = Ok [] /\ length (node_kids (res_node r)) = 2%nat /\
  v_dataoff (node_vh (res_node r)) = 72 /\ v_length (node_vh (res_node r)) = 65664 /\
  match file_at 72 (node_kids (res_node r)) 0 with
  | Some (NFile fh _ _, o) => (o =? 72) && negb (attr_large (f_attr fh))
  | _ => false end = true.
Proof.
  cbv zeta.
  split; [vm_compute; reflexivity|]. split; [vm_compute; reflexivity|].
  split; [vm_compute; reflexivity|]. split; [vm_compute; reflexivity|].
  split; [vm_compute; reflexivity|]. split; [vm_compute; reflexivity|].
  split; [vm_compute; reflexivity|]. split; vm_compute; reflexivity.
Qed.

Lemma ex_big_facts' :
  let r := parse_fv dec0 u2s0 nvar0 3 240 ex_big' 0 false in
  is_ok r = true /\ is_vol (res_node r) = true /\ res_pol r = 255 /\
  validate_gen false (res_node r) = Ok [] /\ validate (res_node r) = Ok [V_FV_FREESPACE] /\
  length (node_kids (res_node r)) = 0%nat.
Proof.
  cbv zeta.
  split; [vm_compute; reflexivity|]. split; [vm_compute; reflexivity|].
  split; [vm_compute; reflexivity|]. split; [vm_compute; reflexivity|].
  split; vm_compute; reflexivity.
Qed.

(* generic packaging (no big term in sight): from the computed facts to the readable statement *)
Lemma witness_from_facts (b b' : bytes) (r r' : outcome (node * Z)) :
  r = parse_fv dec0 u2s0 nvar0 3 240 b 0 false ->
  r' = parse_fv dec0 u2s0 nvar0 3 240 b' 0 false ->
  (is_ok r = true /\ is_vol (res_node r) = true /\ res_pol r = 255 /\
   validate_gen false (res_node r) = Ok [] /\ validate (res_node r) = Ok [] /\ length (node_kids (res_node r)) = 2%nat /\
   v_dataoff (node_vh (res_node r)) = 72 /\ v_length (node_vh (res_node r)) = 65664 /\
   match file_at 72 (node_kids (res_node r)) 0 with
   | Some (NFile fh _ _, o) => (o =? 72) && negb (attr_large (f_attr fh))
   | _ => false end = true) ->
  (is_ok r' = true /\ is_vol (res_node r') = true /\ res_pol r' = 255 /\
   validate_gen false (res_node r') = Ok [] /\ validate (res_node r') = Ok [V_FV_FREESPACE] /\
   length (node_kids (res_node r')) = 0%nat) ->
  bytes_ok b = true -> fv_hdr_extent b <= 72 -> single_change b (72 + 22) b' ->
  becomes_free_marker (sub 72 (65664 - 72) b') ->
  exists h buf kids fh fb fk,
    parse_fv dec0 u2s0 nvar0 3 240 b 0 false = Ok (NVol h buf kids, 255) /\
    validate_gen false (NVol h buf kids) = Ok [] /\ validate (NVol h buf kids) = Ok [] /\
    bytes_ok b = true /\ fv_hdr_extent b <= v_dataoff h /\
    length kids = 2%nat /\
    file_at (v_dataoff h) kids 0 = Some (NFile fh fb fk, 72) /\
    prot_hdr (attr_large (f_attr fh)) 22 /\
    single_change b (72 + 22) b' /\
    becomes_free_marker (sub 72 (v_length h - 72) b') /\
    exists h' buf', parse_fv dec0 u2s0 nvar0 3 240 b' 0 false = Ok (NVol h' buf' [], 255) /\
                    validate_gen false (NVol h' buf' []) = Ok [] /\
                    validate (NVol h' buf' []) = Ok [V_FV_FREESPACE].
Proof.
  intros Hr Hr' F F' Hok Hext HS Hfm. rewrite <- Hr, <- Hr'. clear Hr Hr'.
  destruct r as [[n p]| | |]; destruct F as (F1 & F2 & F3 & F4 & F4' & F5 & F6 & F7 & F8); try discriminate.
  destruct n as [| |h buf kids|]; try discriminate.
  cbn [res_node res_pol node_vh node_kids] in *. subst p.
  destruct r' as [[n' p']| | |]; destruct F' as (G1 & G2 & G3 & G4 & G4' & G5); try discriminate.
  destruct n' as [| |h' buf' kids'|]; try discriminate.
  cbn [res_node res_pol node_vh node_kids] in *. subst p'.
  destruct kids' as [|? ?]; [|discriminate].
  destruct (file_at 72 kids 0) as [[f o]|] eqn:EA; [|discriminate].
  destruct f as [|fh fb fk| |]; try discriminate.
  apply andb_true_iff in F8 as [Fo Fl]. apply Z.eqb_eq in Fo. subst o.
  exists h, buf, kids, fh, fb, fk. rewrite F6, F7.
  split; [reflexivity|]. split; [exact F4|]. split; [exact F4'|]. split; [exact Hok|]. split; [exact Hext|].
  split; [exact F5|]. split; [exact EA|]. split; [right; left; lia|]. split; [exact HS|].
  split; [exact Hfm|]. exists h', buf'. split; [reflexivity|]. split; [exact G4|exact G4'].
Qed.

Lemma ex_big_side : bytes_ok ex_big = true /\ fv_hdr_extent ex_big <= 72 /\
  becomes_free_marker (sub 72 (65664 - 72) ex_big').
Proof.
  split; [vm_compute; reflexivity|]. split; [vm_compute; discriminate|].
  split; [vm_compute; reflexivity|]. split; [vm_compute; discriminate|]. vm_compute; reflexivity.
Qed.

(* the pinned validate (neither repair) misses it: the image parses and validates clean, the altered
   image parses (both files have vanished) and the pinned validate reports nothing; the repaired one
   reports the free space *)
Lemma free_marker_witness :
  exists b b' h buf kids fh fb fk,
    parse_fv dec0 u2s0 nvar0 3 240 b 0 false = Ok (NVol h buf kids, 255) /\
    validate_gen false (NVol h buf kids) = Ok [] /\ validate (NVol h buf kids) = Ok [] /\
    bytes_ok b = true /\ fv_hdr_extent b <= v_dataoff h /\
    length kids = 2%nat /\
    file_at (v_dataoff h) kids 0 = Some (NFile fh fb fk, 72) /\
    prot_hdr (attr_large (f_attr fh)) 22 /\
    single_change b (72 + 22) b' /\
    becomes_free_marker (sub 72 (v_length h - 72) b') /\
    exists h' buf', parse_fv dec0 u2s0 nvar0 3 240 b' 0 false = Ok (NVol h' buf' [], 255) /\
                    validate_gen false (NVol h' buf' []) = Ok [] /\
                    validate (NVol h' buf' []) = Ok [V_FV_FREESPACE].
Proof.
  exists ex_big, ex_big'.
  exact (witness_from_facts ex_big ex_big' _ _ eq_refl eq_refl ex_big_facts ex_big_facts'
           (proj1 ex_big_side) (proj1 (proj2 ex_big_side)) ex_big_change (proj2 (proj2 ex_big_side))).
Qed.

(* G.2 the body-checksum check of the pinned code (body bytes alone must sum to zero) *)

(* it flags what ChecksumAndAssemble builds ... *)
Lemma old_body_check_false_alarm :
  exists h data ext attr,
    set_size (f_attr h) (24 + zlen data) true = (ext, attr) /\ zlen (f_guid h) = 16 /\
    validate_file_old (fst (checksum_and_assemble h ext attr data))
                      (snd (checksum_and_assemble h ext attr data)) = Ok [V_F_BODYSUM].
Proof.
  exists (mkFile (zrepeat 9 16) 0 0 2 64 0 248 0 24 None), [1; 2; 3], 27, 64.
  repeat split; vm_compute; reflexivity.
Qed.

(* ... and does not look at the body-checksum byte of a file that has the checksum attribute *)
Definition ex_sum_file : bytes := zrepeat 9 16 ++ [20; 0; 1; 64] ++ [27; 0; 0] ++ [248] ++ [1; 255; 0].
Definition ex_sum_file' : bytes := splice 17 [77] ex_sum_file.

Lemma old_bodysum_miss :
  exists fb fb' h fbuf h' fbuf',
    file_body nvar0 (parse_section dec0 u2s0 nvar0 2) 255 fb = Ok (Some (NFile h fbuf []), 255) /\
    validate_file_old h fbuf = Ok [] /\ attr_checksum (f_attr h) = true /\
    bytes_ok fb = true /\ single_change fb 17 fb' /\
    file_body nvar0 (parse_section dec0 u2s0 nvar0 2) 255 fb' = Ok (Some (NFile h' fbuf' []), 255) /\
    validate_file_old h' fbuf' = Ok [].
Proof.
  exists ex_sum_file, ex_sum_file'.
  exists (mkFile (zrepeat 9 16) 20 0 1 64 27 248 27 24 None), ex_sum_file.
  exists (mkFile (zrepeat 9 16) 20 77 1 64 27 248 27 24 None), ex_sum_file'.
  split; [vm_compute; reflexivity|]. split; [vm_compute; reflexivity|].
  split; [vm_compute; reflexivity|]. split; [vm_compute; reflexivity|].
  split.
  - exists (zfirstn 17 ex_sum_file), 0, 77, (zskipn 18 ex_sum_file).
    split; [vm_compute; reflexivity|]. split; [vm_compute; reflexivity|].
    split; [vm_compute; reflexivity|]. repeat split; lia.
  - split; vm_compute; reflexivity.
Qed.

(* ================= Part H: the statements for the depth-fuelled parsers ================= *)

Section Parsers.
Variables (dec : Z -> bytes -> option bytes) (u2s : bytes -> bytes) (nvar : bytes -> option bytes).

Lemma thm_fv_header_detects d pol pol2 b b' fvoff fvoff' res res' h buf kids pol' i :
  parse_fv dec u2s nvar (S d) pol b fvoff res = Ok (NVol h buf kids, pol') ->
  validate (NVol h buf kids) = Ok [] ->
  single_change b i b' -> i < v_hdrlen h -> ~ (40 <= i < 44) ->
  forall r, parse_fv dec u2s nvar (S d) pol2 b' fvoff' res' = Ok r -> reports (fst r).
Proof.
  intros HP HV. apply validate_vol_node_clean in HV. destruct HV as [HV _].
  exact (fv_header_detects (parse_file dec u2s nvar d) (parse_file dec u2s nvar d)
           pol pol2 b b' fvoff fvoff' res res' h buf kids pol' i HP HV).
Qed.

Lemma thm_file_header_detects d pol b b' fvoff res h buf kids pol' k fh fb fk o j :
  parse_fv dec u2s nvar (S (S d)) pol b fvoff res = Ok (NVol h buf kids, pol') ->
  validate (NVol h buf kids) = Ok [] -> bytes_ok b = true -> fv_hdr_extent b <= v_dataoff h ->
  file_at (v_dataoff h) kids k = Some (NFile fh fb fk, o) ->
  zlen b < 2 ^ 55 ->
  prot_hdr (attr_large (f_attr fh)) j -> single_change b (o + j) b' ->
  forall r, parse_fv dec u2s nvar (S (S d)) pol b' fvoff res = Ok r -> reports (fst r).
Proof.
  intros HP HV Hok Hext Hat.
  exact (file_header_detects nvar (parse_section dec u2s nvar d) pol b b' fvoff res h buf kids pol' k fh fb fk o
           HP HV Hok Hext Hat j).
Qed.

Lemma thm_body_detects d pol b b' fvoff res h buf kids pol' k fh fb fk o j :
  parse_fv dec u2s nvar (S (S d)) pol b fvoff res = Ok (NVol h buf kids, pol') ->
  validate (NVol h buf kids) = Ok [] -> bytes_ok b = true -> fv_hdr_extent b <= v_dataoff h ->
  file_at (v_dataoff h) kids k = Some (NFile fh fb fk, o) ->
  attr_checksum (f_attr fh) = true -> file_hs fh <= j < f_ext fh -> single_change b (o + j) b' ->
  forall r, parse_fv dec u2s nvar (S (S d)) pol b' fvoff res = Ok r -> reports (fst r).
Proof.
  intros HP HV Hok Hext Hat.
  exact (file_body_detects nvar (parse_section dec u2s nvar d) pol b b' fvoff res h buf kids pol' k fh fb fk o
           HP HV Hok Hext Hat j).
Qed.

Lemma thm_bodysum_detects d pol b b' fvoff res h buf kids pol' k fh fb fk o :
  parse_fv dec u2s nvar (S (S d)) pol b fvoff res = Ok (NVol h buf kids, pol') ->
  validate (NVol h buf kids) = Ok [] -> bytes_ok b = true -> fv_hdr_extent b <= v_dataoff h ->
  file_at (v_dataoff h) kids k = Some (NFile fh fb fk, o) ->
  single_change b (o + 17) b' ->
  forall r, parse_fv dec u2s nvar (S (S d)) pol b' fvoff res = Ok r -> reports (fst r).
Proof. exact (file_bodysum_detects nvar (parse_section dec u2s nvar d) pol b b' fvoff res h buf kids pol' k fh fb fk o). Qed.

End Parsers.

Lemma report_propagates fixed h buf kids f : In f kids -> reports_gen fixed f ->
  reports_gen fixed (NVol h buf kids) /\ reports_gen fixed (NSec (sec_default 0 0 0 0 0) buf kids).
Proof. intros; split; [eapply reports_child_vol|eapply reports_child_sec]; eauto. Qed.

Lemma sum_fix data pre post :
  (sum8 data + (0 - sum8 data) mod 256) mod 256 = 0 /\
  (Z.even (zlen pre) = true ->
   sum16 (pre ++ le_enc 2 ((0 - sum16 (pre ++ [0; 0] ++ post)) mod 65536) ++ post) = 0).
Proof. split; [apply sum8_fix|apply sum16_fix]. Qed.
