(* Proofs/FfsCodecProofs.v — property C06: compressed and nested content survives a save, and
   saving is a fixed point.  Lemmas about Model/Ffs.v under the codec hypothesis
   [dec_enc : enc k x = Some y -> dec k y = Some x] (no converse, no byte stability). *)
From Fiano Require Import Base.Bytes Base.BytesLemmas Model.Ffs Model.FfsSpec Proofs.FfsVolLemmas.
From Coq Require Import ZifyBool ZifyNat.
Open Scope Z_scope.

(* ------------------------------------------------------------------------------------------ *)
(* small facts about byte strings                                                              *)
(* ------------------------------------------------------------------------------------------ *)

Lemma zfirstn_app_l {A} n (a b : list A) : n <= zlen a -> zfirstn n (a ++ b) = zfirstn n a.
Proof.
  intros H. unfold zfirstn, zlen in *. rewrite firstn_app.
  replace (Z.to_nat n - length a)%nat with 0%nat by lia. simpl. apply app_nil_r.
Qed.

Lemma zskipn_app_l {A} n (a b : list A) : n <= zlen a -> zskipn n (a ++ b) = zskipn n a ++ b.
Proof.
  intros H. unfold zskipn, zlen in *. rewrite skipn_app.
  replace (Z.to_nat n - length a)%nat with 0%nat by lia. reflexivity.
Qed.

Lemma sub_app_l (a b : bytes) off len : 0 <= off -> 0 <= len -> off + len <= zlen a ->
  sub off len (a ++ b) = sub off len a.
Proof.
  intros Ho Hl H. unfold sub. rewrite zskipn_app_l by lia.
  apply zfirstn_app_l. rewrite zlen_zskipn by (pose proof (zlen_nonneg a); lia). lia.
Qed.

Lemma rd_app_l (a b : bytes) off w : 0 <= off -> off + Z.of_nat w <= zlen a ->
  rd off w (a ++ b) = rd off w a.
Proof. intros. unfold rd. rewrite sub_app_l by lia. reflexivity. Qed.

Lemma zfirstn_all {A} n (l : list A) : zlen l <= n -> zfirstn n l = l.
Proof. intros. unfold zfirstn, zlen in *. apply firstn_all2. lia. Qed.

Lemma zfirstn_nonpos {A} n (l : list A) : n <= 0 -> zfirstn n l = [].
Proof. intros. unfold zfirstn. replace (Z.to_nat n) with 0%nat by lia. reflexivity. Qed.

Lemma zskipn_0 {A} (l : list A) : zskipn 0 l = l.
Proof. reflexivity. Qed.

Lemma zskipn_all {A} n (l : list A) : zlen l <= n -> zskipn n l = [].
Proof. intros. unfold zskipn, zlen in *. apply skipn_all2. lia. Qed.

Lemma zlen_zfirstn_min {A} n (l : list A) : 0 <= n -> zlen (zfirstn n l) = Z.min n (zlen l).
Proof. intros. unfold zfirstn, zlen. rewrite firstn_length. lia. Qed.

(* a prefix that is the whole list has the list's length *)
Lemma sub0_whole (ext : Z) (b : bytes) : 0 < zlen b -> ext <= zlen b -> sub 0 ext b = b -> ext = zlen b.
Proof.
  intros Hp Hle H. unfold sub in H. rewrite zskipn_0 in H.
  destruct (Z_le_gt_dec ext 0) as [Hn|Hn].
  - rewrite zfirstn_nonpos in H by lia. subst b. unfold zlen in Hp. simpl in Hp. lia.
  - assert (Hl : zlen (zfirstn ext b) = zlen b) by (rewrite H; reflexivity).
    rewrite zlen_zfirstn_min in Hl by lia. lia.
Qed.

Lemma zlen_zrepeat x n : 0 <= n -> zlen (zrepeat x n) = n.
Proof.
  intros. unfold zrepeat, zlen.
  assert (forall k, length (repeatz x k) = k) as E by (induction k; simpl; congruence).
  rewrite E. lia.
Qed.

Lemma zrepeat_nonpos x n : n <= 0 -> zrepeat x n = [].
Proof. intros. unfold zrepeat. replace (Z.to_nat n) with 0%nat by lia. reflexivity. Qed.

Lemma le_dec_single x : le_dec [x] = x.
Proof. simpl. lia. Qed.

Lemma rd1_at (a : bytes) x (r : bytes) : rd (zlen a) 1 (a ++ x :: r) = x.
Proof.
  unfold rd. change (x :: r) with ([x] ++ r).
  change (Z.of_nat 1) with (zlen [x]). rewrite sub_app_mid. apply le_dec_single.
Qed.

Lemma rd_at (a d r : bytes) w : zlen d = Z.of_nat w -> rd (zlen a) w (a ++ d ++ r) = le_dec d.
Proof. intros H. unfold rd. rewrite <- H. rewrite sub_app_mid. reflexivity. Qed.

Lemma sub_at (a d r : bytes) n : zlen d = n -> sub (zlen a) n (a ++ d ++ r) = d.
Proof. intros H. rewrite <- H. apply sub_app_mid. Qed.

(* ------------------------------------------------------------------------------------------ *)
(* alignment                                                                                   *)
(* ------------------------------------------------------------------------------------------ *)

Lemma align4_ge v : 0 <= v -> v <= align4 v < v + 4.
Proof.
  intros. unfold align4, align.
  pose proof (Z.div_mod (v + 4 - 1) 4 ltac:(lia)). pose proof (Z.mod_pos_bound (v + 4 - 1) 4 ltac:(lia)). lia.
Qed.

Lemma align4_mod v : (align4 v) mod 4 = 0.
Proof. unfold align4, align. apply Z.mod_mul. lia. Qed.

Lemma align4_add v a : a mod 4 = 0 -> align4 (a + v) = a + align4 v.
Proof.
  intros Ha. unfold align4, align.
  assert (E : a = 4 * (a / 4)) by (pose proof (Z.div_mod a 4 ltac:(lia)); lia).
  rewrite E at 1. replace (4 * (a / 4) + v + 4 - 1) with ((v + 4 - 1) + (a / 4) * 4) by lia.
  rewrite Z.div_add by lia. lia.
Qed.

Lemma align4_fix v : v mod 4 = 0 -> align4 v = v.
Proof.
  intros. unfold align4, align.
  pose proof (Z.div_mod v 4 ltac:(lia)).
  replace (v + 4 - 1) with (3 + (v / 4) * 4) by lia.
  rewrite Z.div_add by lia. change (3 / 4) with 0. lia.
Qed.

(* ------------------------------------------------------------------------------------------ *)
(* induction on nodes; order-insensitive view; the fully decompressed tree                     *)
(* ------------------------------------------------------------------------------------------ *)

Section NodeInd.
  Variable P : node -> Prop.
  Hypothesis Hsec : forall h buf kids, Forall P kids -> P (NSec h buf kids).
  Hypothesis Hfile : forall h buf kids, Forall P kids -> P (NFile h buf kids).
  Hypothesis Hvol : forall h buf kids, Forall P kids -> P (NVol h buf kids).
  Hypothesis Hpad : forall off buf, P (NPad off buf).
  Fixpoint node_ind' (n : node) : P n :=
    let fix go (l : list node) : Forall P l :=
      match l with
      | [] => Forall_nil P
      | x :: r => Forall_cons x (node_ind' x) (go r)
      end in
    match n with
    | NSec h buf kids => Hsec h buf kids (go kids)
    | NFile h buf kids => Hfile h buf kids (go kids)
    | NVol h buf kids => Hvol h buf kids (go kids)
    | NPad off buf => Hpad off buf
    end.
End NodeInd.

Definition set_order (h : sechdr) (o : Z) : sechdr :=
  mkSec (s_size3 h) (s_type h) (s_ext h) (s_hlen h) (s_gd h) (s_name h) (s_build h) (s_version h)
        (s_depex h) o.

Definition set_fdo (h : filehdr) (o : Z) : filehdr :=
  mkFile (f_guid h) (f_ckh h) (f_ckf h) (f_type h) (f_attr h) (f_size3 h) (f_state h) (f_ext h) o (f_nvar h).

(* volumes: the header checksum and the free-space figure kept in the node are stale after Assemble
   (it writes the new checksum into the bytes only, and computes free space differently from the
   parser when less than a file header of free space is left); Assemble reads neither *)
Definition vnorm (h : volhdr) : volhdr :=
  mkVol (v_zero h) (v_guid h) (v_length h) (v_sig h) (v_attrs h) (v_hdrlen h) 0 (v_exthdroff h)
        (v_reserved h) (v_rev h) (v_blocks h) (v_extname h) (v_extsize h) (v_dataoff h)
        (v_fvoffset h) (v_resizable h) 0.

(* [strip] forgets two pieces of metadata that neither Assemble nor the bytes depend on: the
   FileOrder of sections (the index at which the parser met the section) and the DataOffset of
   files (24 or 32, recomputed by the parser from the size field; Assemble leaves the old value in
   the node when a file changes between the two header forms) *)
Fixpoint strip (n : node) : node :=
  match n with
  | NSec h buf kids => NSec (set_order h 0) buf (map strip kids)
  | NFile h buf kids => NFile (set_fdo h 0) buf (map strip kids)
  | NVol h buf kids => NVol (vnorm h) buf (map strip kids)
  | NPad off buf => NPad off buf
  end.

Lemma set_order_set h a b : set_order (set_order h a) b = set_order h b.
Proof. reflexivity. Qed.

Lemma node_buf_strip n : node_buf (strip n) = node_buf n.
Proof. destruct n; reflexivity. Qed.

Lemma map_node_buf_strip l : map node_buf (map strip l) = map node_buf l.
Proof. induction l; simpl; [reflexivity|]. rewrite node_buf_strip, IHl. reflexivity. Qed.

Lemma strip_bufs l l' : map strip l = map strip l' -> map node_buf l = map node_buf l'.
Proof. intros H. rewrite <- (map_node_buf_strip l), <- (map_node_buf_strip l'), H. reflexivity. Qed.

(* the fully decompressed tree: node kind, the header fields that identify the node, leaf bodies;
   recursively through compressed sections and nested volumes.  Derived data (sizes, checksums,
   the large-file bit, compressed bytes, volume length / block count / free space / checksum,
   the FFS2->FFS3 switch) and pad files (layout artefacts) are not part of it. *)
Inductive dtree : Type := D (kind : Z) (fields : list bytes) (kids : list dtree).

Definition gd_fields (g : option gdhdr) : list bytes :=
  match g with Some g => [gd_guid g; [gd_attrs g]] | None => [] end.

Definition is_pad_file (n : node) : bool :=
  match n with NFile h _ _ => f_type h =? 240 | _ => false end.

Definition ffs_norm (g : bytes) : bytes := if bytes_eqb g FFS3 then FFS2 else g.

Fixpoint deep (n : node) : dtree :=
  match n with
  | NSec h buf kids =>
    match kids with
    | [] => D 0 [buf] []
    | _ => D 1 ([s_type h] :: gd_fields (s_gd h)) (map deep kids)
    end
  | NFile h buf kids =>
    match kids with
    | [] => D 2 [buf] []
    | _ => D 3 [f_guid h; [f_type h; Z.land (f_attr h) 254; f_state h]] (map deep kids)
    end
  | NVol h buf kids =>
    match kids with
    | [] => D 4 [buf] []
    | _ => D 5 [v_zero h; ffs_norm (v_guid h);
                [v_sig h; v_attrs h; v_hdrlen h; v_exthdroff h; v_reserved h; v_rev h; v_dataoff h];
                map snd (v_blocks h); v_extname h]
             ((fix go (l : list node) : list dtree :=
                 match l with
                 | [] => []
                 | x :: r => if is_pad_file x then go r else deep x :: go r
                 end) kids)
    end
  | NPad off buf => D 6 [[off]; buf] []
  end.

Lemma deep_strip n : deep (strip n) = deep n.
Proof.
  induction n using node_ind'; simpl; try reflexivity.
  - destruct kids; simpl; [reflexivity|]. inversion H; subst. f_equal. f_equal; [assumption|].
    clear - H3. induction H3; simpl; congruence.
  - destruct kids; simpl; [reflexivity|]. inversion H; subst. f_equal. f_equal; [assumption|].
    clear - H3. induction H3; simpl; congruence.
  - assert (G : forall l, Forall (fun n => deep (strip n) = deep n) l ->
      (fix go (l : list node) : list dtree :=
         match l with
         | [] => []
         | x :: r => if is_pad_file x then go r else deep x :: go r
         end) (map strip l) =
      (fix go (l : list node) : list dtree :=
         match l with
         | [] => []
         | x :: r => if is_pad_file x then go r else deep x :: go r
         end) l).
    { induction 1 as [|x l Hx Hl IH]; simpl; [reflexivity|].
      replace (is_pad_file (strip x)) with (is_pad_file x) by (destruct x; reflexivity).
      rewrite Hx, IH. reflexivity. }
    destruct kids; simpl; [reflexivity|]. f_equal. exact (G (n :: kids) H).
Qed.

Lemma strip_deep a b : strip a = strip b -> deep a = deep b.
Proof. intros H. rewrite <- (deep_strip a), <- (deep_strip b), H. reflexivity. Qed.

(* ------------------------------------------------------------------------------------------ *)
(* the codec section                                                                           *)
(* ------------------------------------------------------------------------------------------ *)

Section Codec.

Variable dec : Z -> bytes -> option bytes.
Variable enc : Z -> bytes -> option bytes.
Variable u2s : bytes -> bytes.
Variable s2u : bytes -> bytes.
Variable nvar : bytes -> option bytes.

(* the only thing assumed of the codecs: decoding what the encoder produced gives the input back *)
Hypothesis dec_enc : forall k x y, enc k x = Some y -> dec k y = Some x.

(* lemmas that do not need the codec hypothesis (or a variable) drop it first, so that they are
   not generalised over it when the section closes *)
Ltac clear_sec := try clear dec_enc; try clear dec; try clear enc; try clear u2s; try clear s2u; try clear nvar.

Notation psec := (parse_section dec u2s nvar).
Notation pfile := (parse_file dec u2s nvar).
Notation pfv := (parse_fv dec u2s nvar).
Notation sbody := (section_body dec u2s).
Notation fbody := (file_body nvar).
Notation asm' := (asm enc s2u).
Notation asml := (asm_elems enc s2u).
Notation secasm := (sec_asm enc s2u).

(* ---------- Assemble: unfolding ---------- *)

Lemma asm_list_eq : forall l st,
  (fix asm_list (l : list node) (st : ast) {struct l} : outcome (list node * ast) :=
     match l with
     | [] => Ok ([], st)
     | x :: r =>
       do xs <- asm' x st; let '(x', st1) := xs in
       do rs <- asm_list r st1; let '(r', st2) := rs in
       Ok (x' :: r', st2)
     end) l st = asml l st.
Proof using Type. clear_sec.
  reflexivity.
Qed.

Lemma asm_sec h buf kids st :
  asm' (NSec h buf kids) st =
  (do ks <- asml kids st; let '(kids', st1) := ks in secasm h buf kids' st1).
Proof using Type. clear_sec. cbn [asm]. rewrite asm_list_eq. reflexivity. Qed.

Lemma asm_file h buf kids st :
  asm' (NFile h buf kids) st =
  (do ks <- asml kids st; let '(kids', st1) := ks in file_asm h buf kids' st1).
Proof using Type. clear_sec. cbn [asm]. rewrite asm_list_eq. reflexivity. Qed.

Lemma asm_volume h buf kids st :
  asm' (NVol h buf kids) st =
  match set_polarity (fst st) (fv_polarity (v_attrs h)) with
  | None => Err E_POLARITY
  | Some pol0 =>
    do ks <- asml kids (pol0, false); let '(kids', st1) := ks in
    do r <- vol_asm h buf kids' st1; let '(n', st2) := r in Ok (n', (fst st2, snd st))
  end.
Proof using Type. clear_sec. cbn [asm]. destruct (set_polarity _ _); [|reflexivity]. rewrite asm_list_eq. reflexivity. Qed.

(* ---------- NewSection split into header decoding and the type-specific part ---------- *)

Definition sec_head (buf : bytes) : outcome (Z * Z) :=
  let size3 := rd 0 3 buf in
  let stype := rd 3 1 buf in
  if known_section stype then
    if size3 =? 16777215 then
      if zlen buf <? 8 then Err E_SHORT else
      let e := rd 4 4 buf in
      if e =? 4294967295 then Err E_FREEINFILE else Ok (8, e)
    else Ok (4, size3)
  else Ok (4, Z.min size3 (zlen buf)).

Definition sec_tail (rs : Z -> bytes -> Z -> outcome (node * Z))
    (rf : Z -> bytes -> Z -> bool -> outcome (node * Z))
    (pol : Z) (sbuf : bytes) (size3 stype ext hlen order : Z) : outcome (node * Z) :=
    let h0 := sec_default size3 stype ext hlen order in
    if stype =? 2 then
      if zlen sbuf <? hlen + 20 then Err E_OVERSIZEHDR else
      let g := sub hlen 16 sbuf in
      let doff := rd (hlen + 16) 2 sbuf in
      let attrs := rd (hlen + 18) 2 sbuf in
      if zlen sbuf <? doff then Err E_BEYOND else
      let kind := if negb (Z.land attrs 1 =? 0) then codec_kind g else 0 in
      do ek <-
        (if kind =? 0 then Ok ([], 0) else
           match slice doff (zlen sbuf) sbuf with
           | None => Panic 101
           | Some payload =>
             match dec kind payload with
             | Some e => Ok (e, kind)
             | None => Ok ([], 0)
             end
           end);
      let '(encap, kind') := ek in
      do kp <- sections_loop rs (Z.to_nat (zlen encap) + 1) encap pol 0 0;
      let '(kids, pol') := kp in
      Ok (NSec (mkSec size3 stype ext hlen (Some (mkGd g doff attrs kind')) [] 0 [] None order)
               sbuf kids, pol')
    else if stype =? 21 then
      if zlen sbuf <=? hlen then Err E_OVERSIZEHDR else
      Ok (NSec (mkSec size3 stype ext hlen None (u2s (zskipn hlen sbuf)) 0 [] None order) sbuf [], pol)
    else if stype =? 20 then
      if zlen sbuf <=? hlen + 2 then Err E_OVERSIZEHDR else
      Ok (NSec (mkSec size3 stype ext hlen None [] (rd hlen 2 sbuf) (u2s (zskipn (hlen + 2) sbuf)) None order)
               sbuf [], pol)
    else if stype =? 23 then
      if zlen sbuf <=? hlen then Err E_OVERSIZEHDR else
      do vp <- rf pol (zskipn hlen sbuf) 0 true;
      let '(v, pol') := vp in
      Ok (NSec h0 sbuf [v], pol')
    else if (stype =? 19) || (stype =? 27) || (stype =? 28) then
      if zlen sbuf <=? hlen then Err E_OVERSIZEHDR else
      let body := zskipn hlen sbuf in
      Ok (NSec (mkSec size3 stype ext hlen None [] 0 []
                      (match parse_depex (length body + 1) body with Some l => Some l | None => Some [] end)
                      order) sbuf [], pol)
    else Ok (NSec h0 sbuf [], pol).

Lemma section_body_eq rs rf pol buf order :
  sbody rs rf pol buf order =
  if zlen buf <? 4 then Err E_SHORT else
  do he <- sec_head buf;
  let '(hlen, ext) := he in
  if zlen buf <? ext then Err E_SIZE else
  if ext <? hlen then Err E_OVERSIZEHDR else
  sec_tail rs rf pol (sub 0 ext buf) (rd 0 3 buf) (rd 3 1 buf) ext hlen order.
Proof. reflexivity. Qed.


(* parsing a buffer that starts with a self-sized section reads the same header *)
Lemma sec_head_app sb rest hlen ext :
  4 <= zlen sb -> sec_head sb = Ok (hlen, ext) -> ext = zlen sb ->
  (known_section (rd 3 1 sb) = false -> rd 0 3 sb <= zlen sb) ->
  sec_head (sb ++ rest) = Ok (hlen, ext).
Proof using Type. clear_sec.
  intros H4 Hh He Hu. unfold sec_head in *.
  rewrite (rd_app_l sb rest 0 3) by (simpl; lia). rewrite (rd_app_l sb rest 3 1) by (simpl; lia).
  destruct (known_section (rd 3 1 sb)).
  - destruct (rd 0 3 sb =? 16777215); [|assumption].
    destruct (zlen sb <? 8) eqn:E8; [discriminate|].
    rewrite zlen_app. pose proof (zlen_nonneg rest).
    replace (zlen sb + zlen rest <? 8) with false by lia.
    rewrite (rd_app_l sb rest 4 4) by (simpl; lia). assumption.
  - specialize (Hu eq_refl). inversion Hh; subst. f_equal. f_equal.
    rewrite zlen_app. pose proof (zlen_nonneg rest). lia.
Qed.

Definition bad_rs : Z -> bytes -> Z -> outcome (node * Z) := fun _ _ _ => Fuel.
Definition bad_rf : Z -> bytes -> Z -> bool -> outcome (node * Z) := fun _ _ _ _ => Fuel.

(* a section that parses to a leaf without any recursive call parses to the same leaf whatever the
   recursive parsers and the order index are *)
Lemma sec_tail_leaf rs rf pol sbuf size3 stype ext hlen o h b pol' :
  sec_tail bad_rs bad_rf pol sbuf size3 stype ext hlen o = Ok (NSec h b [], pol') ->
  b = sbuf /\ pol' = pol /\
  forall i, sec_tail rs rf pol sbuf size3 stype ext hlen i = Ok (NSec (set_order h i) sbuf [], pol).
Proof.
  unfold sec_tail. destruct (stype =? 2).
  { destruct (zlen sbuf <? hlen + 20); [discriminate|].
    destruct (zlen sbuf <? rd (hlen + 16) 2 sbuf); [discriminate|].
    match goal with |- context [bind ?e _] => destruct e as [[encap kind']| | |] end; cbn [bind]; try discriminate.
    rewrite !Nat.add_1_r. cbn [sections_loop].
    destruct (0 <? zlen encap); [cbn; discriminate|]. cbn [bind].
    intros H; inversion H; subst. repeat split. }
  destruct (stype =? 21).
  { destruct (zlen sbuf <=? hlen); [discriminate|]. intros H; inversion H; subst. repeat split. }
  destruct (stype =? 20).
  { destruct (zlen sbuf <=? hlen + 2); [discriminate|]. intros H; inversion H; subst. repeat split. }
  destruct (stype =? 23).
  { destruct (zlen sbuf <=? hlen); [discriminate|]. cbn. discriminate. }
  destruct ((stype =? 19) || (stype =? 27) || (stype =? 28)).
  { destruct (zlen sbuf <=? hlen); [discriminate|]. intros H; inversion H; subst. repeat split. }
  intros H; inversion H; subst. repeat split.
Qed.

(* leaf sections: [leaf_ok] says that the section's own bytes parse (without recursion) to this very
   node; it is what "obtained by parsing" gives for a leaf.  The extra clause concerns section types
   the parser does not know: their size is clamped to the available data, so the size field must
   not exceed the node. *)
Definition leaf_ok (pol : Z) (h : sechdr) (buf : bytes) : Prop :=
  sbody bad_rs bad_rf pol buf (s_order h) = Ok (NSec h buf [], pol) /\
  (known_section (s_type h) = false -> s_size3 h <= zlen buf).

Lemma sec_tail_type rs rf pol sbuf size3 stype ext hlen o h b kids pol' :
  sec_tail rs rf pol sbuf size3 stype ext hlen o = Ok (NSec h b kids, pol') ->
  s_type h = stype /\ s_size3 h = size3 /\ s_ext h = ext /\ s_hlen h = hlen /\ b = sbuf.
Proof.
  unfold sec_tail.
  repeat match goal with
  | |- context [if ?c then _ else _] => destruct c
  | |- Err _ = Ok _ -> _ => discriminate
  | |- bind ?e _ = Ok _ -> _ => destruct e as [[? ?]| | |]; cbn [bind]; try discriminate
  end; intros H; inversion H; subst; repeat split.
Qed.

Lemma leaf_reparse pol h buf : leaf_ok pol h buf ->
  forall rs rf rest i, sbody rs rf pol (buf ++ rest) i = Ok (NSec (set_order h i) buf [], pol).
Proof.
  intros [Hp Hu] rs rf rest i. rewrite section_body_eq in Hp |- *.
  destruct (zlen buf <? 4) eqn:E4; [discriminate|].
  destruct (sec_head buf) as [[hlen ext]| | |] eqn:Hh; cbn [bind] in Hp; try discriminate.
  destruct (zlen buf <? ext) eqn:Ee; [discriminate|].
  destruct (ext <? hlen) eqn:Ehl; [discriminate|].
  pose proof (sec_tail_type _ _ _ _ _ _ _ _ _ _ _ _ _ Hp) as (Ht & Hs3 & Hext & Hhl & Hb).
  assert (Hx : ext = zlen buf) by (apply sub0_whole; [lia|lia|symmetry; exact Hb]).
  assert (Hh' : sec_head (buf ++ rest) = Ok (hlen, ext)).
  { apply sec_head_app; try assumption; [lia|]. rewrite <- Ht, <- Hs3. exact Hu. }
  rewrite zlen_app. pose proof (zlen_nonneg rest).
  replace (zlen buf + zlen rest <? 4) with false by lia.
  rewrite Hh'. cbn [bind].
  replace (zlen buf + zlen rest <? ext) with false by lia. rewrite Ehl.
  rewrite (rd_app_l buf rest 0 3) by (simpl; lia). rewrite (rd_app_l buf rest 3 1) by (simpl; lia).
  replace (sub 0 ext (buf ++ rest)) with buf.
  2:{ rewrite Hx. symmetry. apply sub_app_here. reflexivity. }
  rewrite <- Hb in Hp.
  destruct (sec_tail_leaf rs rf _ _ _ _ _ _ _ _ _ _ Hp) as (_ & _ & Hall).
  apply Hall.
Qed.


(* ---------- GenSecHeader ---------- *)

Definition tshdr (g : option gdhdr) : bytes :=
  match g with
  | Some g => gd_guid g ++ le_enc 2 (gd_dataoff g) ++ le_enc 2 (gd_attrs g)
  | None => []
  end.

Definition tslen (g : option gdhdr) : Z := match g with Some _ => 20 | None => 0 end.

Definition regd (hl : Z) (g : option gdhdr) : option gdhdr :=
  match g with
  | Some g => Some (mkGd (gd_guid g) hl (gd_attrs g) (gd_kind g))
  | None => None
  end.

(* what GenSecHeader produces when the section stays below 4 GiB (no uint32 wrap) *)
Lemma gen_shape h body : zlen body < 4294967000 ->
  exists chdr hl size3,
    (hl = 4 \/ hl = 8) /\ zlen chdr = hl /\
    let ext := hl + tslen (s_gd h) + zlen body in
    gen_sec_header h body =
      (mkSec size3 (s_type h) ext hl (regd (hl + tslen (s_gd h)) (s_gd h)) (s_name h) (s_build h)
             (s_version h) (s_depex h) (s_order h),
       chdr ++ tshdr (regd (hl + tslen (s_gd h)) (s_gd h)) ++ body) /\
    (forall X, rd 0 3 (chdr ++ X) = size3 /\ rd 3 1 (chdr ++ X) = s_type h) /\
    (forall X, known_section (s_type h) = true -> sec_head (chdr ++ X) = Ok (hl, ext)) /\
    (16777215 <? ext = (hl =? 8)).
Proof using Type. clear_sec.
  intros Hb. pose proof (zlen_nonneg body) as Hn.
  unfold gen_sec_header.
  set (hl0 := 4 + match s_gd h with Some _ => 20 | None => 0 end).
  assert (Hhl0 : hl0 = 4 + tslen (s_gd h)) by (unfold hl0, tslen; destruct (s_gd h); reflexivity).
  assert (Hts : tslen (s_gd h) = 0 \/ tslen (s_gd h) = 20) by (unfold tslen; destruct (s_gd h); auto).
  assert (He0 : (zlen body + hl0) mod U32 = zlen body + hl0).
  { apply Z.mod_small. unfold U32. change (2 ^ 32) with 4294967296. lia. }
  rewrite He0.
  destruct (16777215 <=? zlen body + hl0) eqn:Ebig.
  - (* extended header *)
    assert (He1 : (zlen body + hl0 + 4) mod U32 = zlen body + hl0 + 4).
    { apply Z.mod_small. unfold U32. change (2 ^ 32) with 4294967296. lia. }
    rewrite He1.
    replace (16777215 <=? zlen body + hl0 + 4) with true by lia.
    exists (le_enc 3 16777215 ++ [s_type h] ++ le_enc 4 (zlen body + hl0 + 4)), 8, 16777215.
    split; [auto|]. split; [reflexivity|].
    assert (Hw : write3 (zlen body + hl0 + 4) = 16777215) by (unfold write3; replace (16777215 <=? zlen body + hl0 + 4) with true by lia; reflexivity).
    rewrite Hw.
    replace (8 + tslen (s_gd h) + zlen body) with (zlen body + hl0 + 4) by lia.
    replace ((hl0 + 4) mod 65536) with (8 + tslen (s_gd h)) by (rewrite Z.mod_small; lia).
    split; [|split; [|split]].
    + destruct (s_gd h) as [g|]; unfold regd, tshdr, tslen; cbn [gd_guid gd_dataoff gd_attrs];
        rewrite <- ?app_assoc, ?app_nil_r; reflexivity.
    + intros X. split.
      * rewrite <- !app_assoc. rewrite rd_app_here by reflexivity. reflexivity.
      * rewrite <- !app_assoc. exact (rd1_at (le_enc 3 16777215) (s_type h) _).
    + intros X Hk. unfold sec_head.
      assert (R0 : rd 0 3 ((le_enc 3 16777215 ++ [s_type h] ++ le_enc 4 (zlen body + hl0 + 4)) ++ X) = 16777215).
      { rewrite <- !app_assoc. rewrite rd_app_here by reflexivity. reflexivity. }
      assert (R3 : rd 3 1 ((le_enc 3 16777215 ++ [s_type h] ++ le_enc 4 (zlen body + hl0 + 4)) ++ X) = s_type h).
      { rewrite <- !app_assoc. exact (rd1_at (le_enc 3 16777215) (s_type h) _). }
      rewrite R0, R3, Hk. change (16777215 =? 16777215) with true. cbv iota.
      rewrite !zlen_app, le4. pose proof (zlen_nonneg X).
      change (zlen (le_enc 3 16777215)) with 3. change (zlen [s_type h]) with 1.
      replace (3 + (1 + 4) + zlen X <? 8) with false by lia.
      assert (R4 : rd 4 4 ((le_enc 3 16777215 ++ [s_type h] ++ le_enc 4 (zlen body + hl0 + 4)) ++ X) = zlen body + hl0 + 4).
      { replace ((le_enc 3 16777215 ++ [s_type h] ++ le_enc 4 (zlen body + hl0 + 4)) ++ X)
          with ((le_enc 3 16777215 ++ [s_type h]) ++ le_enc 4 (zlen body + hl0 + 4) ++ X)
          by (rewrite <- !app_assoc; reflexivity).
        change 4 with (zlen (le_enc 3 16777215 ++ [s_type h])) at 1.
        rewrite rd_at by (apply le4). apply le_dec_enc. change (256 ^ Z.of_nat 4) with 4294967296. lia. }
      rewrite R4. replace (zlen body + hl0 + 4 =? 4294967295) with false by lia. reflexivity.
    + lia.
  - (* short header *)
    replace (16777215 <=? zlen body + hl0) with false by lia.
    exists (le_enc 3 (zlen body + hl0) ++ [s_type h]), 4, (zlen body + hl0).
    split; [auto|]. split; [rewrite zlen_app; reflexivity|].
    assert (Hw : write3 (zlen body + hl0) = zlen body + hl0) by (unfold write3; replace (16777215 <=? zlen body + hl0) with false by lia; reflexivity).
    rewrite Hw.
    replace (4 + tslen (s_gd h) + zlen body) with (zlen body + hl0) by lia.
    replace (hl0 mod 65536) with (4 + tslen (s_gd h)) by (rewrite Z.mod_small; lia).
    assert (R0 : forall X, rd 0 3 ((le_enc 3 (zlen body + hl0) ++ [s_type h]) ++ X) = zlen body + hl0).
    { intros X. rewrite <- !app_assoc. rewrite rd_app_here by reflexivity.
      apply le_dec_enc. change (256 ^ Z.of_nat 3) with 16777216. lia. }
    assert (R3 : forall X, rd 3 1 ((le_enc 3 (zlen body + hl0) ++ [s_type h]) ++ X) = s_type h).
    { intros X. rewrite <- !app_assoc. exact (rd1_at (le_enc 3 (zlen body + hl0)) (s_type h) _). }
    split; [|split; [|split]].
    + destruct (s_gd h) as [g|]; unfold regd, tshdr, tslen; cbn [gd_guid gd_dataoff gd_attrs];
        rewrite <- ?app_assoc, ?app_nil_r; reflexivity.
    + intros X. split; [apply R0|apply R3].
    + intros X Hk. unfold sec_head. rewrite R0, R3, Hk.
      replace (zlen body + hl0 =? 16777215) with false by lia. reflexivity.
    + lia.
Qed.


(* ---------- the encapsulated form: join4 and the section loop ---------- *)

Definition pad4 (o : Z) : bytes := zrepeat 0 (align4 o - o).

Fixpoint tailj (o : Z) (l : list bytes) : bytes :=
  match l with
  | [] => []
  | b :: r => pad4 o ++ b ++ tailj (align4 o + zlen b) r
  end.

Lemma zlen_pad4 o : 0 <= o -> zlen (pad4 o) = align4 o - o.
Proof using Type. clear_sec. intros. unfold pad4. apply zlen_zrepeat. pose proof (align4_ge o). lia. Qed.

Lemma join4_tailj : forall l acc, join4 acc l = acc ++ tailj (zlen acc) l.
Proof using Type. clear_sec.
  induction l as [|b r IH]; intros acc; cbn [join4 tailj]; [rewrite app_nil_r; reflexivity|].
  rewrite IH. rewrite <- !app_assoc. fold (pad4 (zlen acc)).
  rewrite !zlen_app, zlen_pad4 by apply zlen_nonneg.
  replace (zlen acc + (align4 (zlen acc) - zlen acc + zlen b)) with (align4 (zlen acc) + zlen b) by lia.
  reflexivity.
Qed.

Lemma pad4_shift a o : a mod 4 = 0 -> pad4 (a + o) = pad4 o.
Proof using Type. clear_sec. intros. unfold pad4. rewrite align4_add by assumption. f_equal. lia. Qed.

Lemma tailj_shift a : a mod 4 = 0 -> forall l o, tailj (a + o) l = tailj o l.
Proof using Type. clear_sec.
  intros Ha. induction l as [|b r IH]; intros o; cbn [tailj]; [reflexivity|].
  rewrite pad4_shift by assumption. rewrite align4_add by assumption.
  rewrite <- Z.add_assoc. rewrite IH. reflexivity.
Qed.

(* what a recursive section parser must do on the children for the loop lemma *)
Definition reparses_sec (rs : Z -> bytes -> Z -> outcome (node * Z)) (pol : Z) (k : node) : Prop :=
  0 < zlen (node_buf k) /\
  forall rest i, exists k2, rs pol (node_buf k ++ rest) i = Ok (k2, pol) /\
                            strip k2 = strip k /\ sec_ext k2 = zlen (node_buf k).

Lemma loop_tailj rs pol : forall kids, Forall (reparses_sec rs pol) kids ->
  forall pre o n i, zlen pre = o -> (length kids < n)%nat ->
  exists kids2,
    sections_loop rs n (pre ++ tailj o (map node_buf kids)) pol (align4 o) i = Ok (kids2, pol) /\
    map strip kids2 = map strip kids.
Proof using Type. clear_sec.
  induction 1 as [|k r [Hpos Hk] Hr IH]; intros pre o n i Ho Hn.
  - destruct n as [|n]; [simpl in Hn; lia|]. cbn [map tailj sections_loop]. rewrite app_nil_r.
    pose proof (zlen_nonneg pre). pose proof (align4_ge o ltac:(lia)).
    replace (align4 o <? zlen pre) with false by lia. exists []. split; reflexivity.
  - destruct n as [|n]; [simpl in Hn; lia|]. cbn [map tailj sections_loop].
    pose proof (zlen_nonneg pre) as Hp. pose proof (align4_ge o ltac:(lia)) as Ha.
    set (kb := node_buf k) in *. set (tl := tailj (align4 o + zlen kb) (map node_buf r)).
    assert (Hoff : align4 o = zlen (pre ++ pad4 o)) by (rewrite zlen_app, zlen_pad4 by lia; lia).
    replace (align4 o <? zlen (pre ++ pad4 o ++ kb ++ tl)) with true
      by (rewrite !zlen_app, zlen_pad4 by lia; pose proof (zlen_nonneg tl); lia).
    replace (zskipn (align4 o) (pre ++ pad4 o ++ kb ++ tl)) with (kb ++ tl).
    2:{ rewrite Hoff. rewrite app_assoc. rewrite zskipn_app_exact. reflexivity. }
    destruct (Hk tl i) as (k2 & Hrs & Hs & He). rewrite Hrs. cbn [bind].
    rewrite He. replace (zlen kb =? 0) with false by lia.
    destruct (IH (pre ++ pad4 o ++ kb) (align4 o + zlen kb) n (i + 1)) as (r2 & Hl & Hm).
    { rewrite !zlen_app, zlen_pad4 by lia. lia. }
    { simpl in Hn. lia. }
    replace (pre ++ pad4 o ++ kb ++ tl) with ((pre ++ pad4 o ++ kb) ++ tl) by (rewrite <- !app_assoc; reflexivity).
    unfold tl. rewrite Hl. cbn [bind]. exists (k2 :: r2). split; [reflexivity|].
    cbn [map]. rewrite Hs, Hm. reflexivity.
Qed.

Lemma align4_0 : align4 0 = 0. Proof. reflexivity. Qed.

(* the loop over a decompressed payload *)
Lemma loop_join4 rs pol kids n i : Forall (reparses_sec rs pol) kids -> (length kids < n)%nat ->
  exists kids2,
    sections_loop rs n (join4 [] (map node_buf kids)) pol 0 i = Ok (kids2, pol) /\
    map strip kids2 = map strip kids.
Proof using Type. clear_sec.
  intros H Hn. rewrite join4_tailj.
  exact (loop_tailj rs pol kids H [] 0 n i eq_refl Hn).
Qed.

(* the loop over the body of a file whose header is [hdr] (24 or 32 bytes) *)
Lemma loop_file rs pol kids hdr n i : Forall (reparses_sec rs pol) kids -> (length kids < n)%nat ->
  (zlen hdr) mod 4 = 0 ->
  exists kids2,
    sections_loop rs n (hdr ++ join4 [] (map node_buf kids)) pol (zlen hdr) i = Ok (kids2, pol) /\
    map strip kids2 = map strip kids.
Proof using Type. clear_sec.
  intros H Hn Hm. rewrite join4_tailj. cbn [app]. change (zlen (@nil Z)) with 0.
  pose proof (loop_tailj rs pol kids H hdr (zlen hdr) n i eq_refl Hn) as G.
  rewrite (align4_fix (zlen hdr) Hm) in G.
  assert (E : tailj (zlen hdr) (map node_buf kids) = tailj 0 (map node_buf kids)).
  { rewrite <- (tailj_shift (zlen hdr) Hm (map node_buf kids) 0). f_equal. lia. }
  rewrite E in G. exact G.
Qed.

Lemma length_le_zlen_join (kids : list node) :
  Forall (fun k => 0 < zlen (node_buf k)) kids ->
  Z.of_nat (length kids) <= zlen (join4 [] (map node_buf kids)).
Proof using Type. clear_sec.
  intros H. rewrite join4_tailj. cbn [app]. generalize (zlen (@nil Z)). 
  induction H as [|k r Hk Hr IH]; intros o; cbn [map tailj length]; [unfold zlen; simpl; lia|].
  rewrite !zlen_app. specialize (IH (align4 o + zlen (node_buf k))).
  pose proof (zlen_nonneg (pad4 o)). lia.
Qed.


(* ---------- re-parsing a compressed GUID-defined section written by Assemble ---------- *)

Lemma sbody_comp rs rf pol h h' g c buf kids rest i :
  s_type h = 2 -> s_gd h = Some g -> zlen (gd_guid g) = 16 -> 0 <= gd_attrs g < 65536 ->
  Z.land (gd_attrs g) 1 <> 0 -> codec_kind (gd_guid g) <> 0 ->
  enc (codec_kind (gd_guid g)) (join4 [] (map node_buf kids)) = Some c ->
  zlen c < 4294967000 ->
  gen_sec_header h c = (h', buf) ->
  Forall (reparses_sec rs pol) kids ->
  exists kids2,
    sbody rs rf pol (buf ++ rest) i =
      Ok (NSec (mkSec (s_size3 h') 2 (s_ext h') (s_hlen h')
                      (Some (mkGd (gd_guid g) (s_hlen h' + 20) (gd_attrs g) (codec_kind (gd_guid g))))
                      [] 0 [] None i) buf kids2, pol) /\
    map strip kids2 = map strip kids /\ s_ext h' = zlen buf /\ 4 <= zlen buf /\
    s_gd h' = Some (mkGd (gd_guid g) (s_hlen h' + 20) (gd_attrs g) (gd_kind g)) /\
    s_type h' = 2 /\ s_name h' = s_name h /\ s_build h' = s_build h /\ s_version h' = s_version h /\
    s_depex h' = s_depex h /\ s_order h' = s_order h.
Proof.
  intros Ht Hg Hg16 Hattr Hbit Hkind Henc Hc Hgen Hkids.
  destruct (gen_shape h c Hc) as (chdr & hl & size3 & Hhl & Hlen & Hgen' & Hrd & Hhead & _).
  rewrite Hgen in Hgen'. rewrite Hg in Hgen', Hhead. cbn [tslen regd tshdr gd_guid gd_dataoff gd_attrs] in Hgen', Hhead.
  pose proof (f_equal fst Hgen') as Hh'. pose proof (f_equal snd Hgen') as Hbuf.
  cbn [fst snd] in Hh', Hbuf. clear Hgen' Hgen. subst h' buf.
  cbn [s_size3 s_ext s_hlen s_gd s_type s_name s_build s_version s_depex s_order].
  set (guid := gd_guid g) in *. set (attrs := gd_attrs g) in *.
  set (tsh := guid ++ le_enc 2 (hl + 20) ++ le_enc 2 attrs).
  pose proof (zlen_nonneg c) as Hcn. pose proof (zlen_nonneg rest) as Hrn.
  assert (Htsh : zlen tsh = 20) by (unfold tsh; rewrite !zlen_app, !le2; lia).
  assert (Hzb : zlen (chdr ++ tsh ++ c) = hl + 20 + zlen c) by (rewrite !zlen_app; lia).
  set (B := chdr ++ tsh ++ c) in *.
  assert (Hdata : dec (codec_kind guid) c = Some (join4 [] (map node_buf kids))) by (apply dec_enc; exact Henc).
  assert (Hn : (length kids < Z.to_nat (zlen (join4 [] (map node_buf kids))) + 1)%nat).
  { pose proof (length_le_zlen_join kids) as L.
    assert (Forall (fun k => 0 < zlen (node_buf k)) kids) as F.
    { clear - Hkids. induction Hkids as [|k r [Hp _] _ IH]; constructor; assumption. }
    specialize (L F). lia. }
  destruct (loop_join4 rs pol kids _ 0 Hkids Hn) as (kids2 & Hloop & Hstrip).
  exists kids2. split; [|repeat split; try assumption; try lia].
  rewrite section_body_eq.
  replace (zlen (B ++ rest) <? 4) with false by (rewrite zlen_app; lia).
  assert (HB : B ++ rest = chdr ++ (tsh ++ c) ++ rest) by (unfold B; rewrite <- !app_assoc; reflexivity).
  rewrite HB at 1. rewrite (Hhead _ ltac:(rewrite Ht; reflexivity)). cbn [bind].
  cbn [tslen]. replace (zlen (B ++ rest) <? hl + 20 + zlen c) with false by (rewrite zlen_app; lia).
  replace (hl + 20 + zlen c <? hl) with false by lia.
  replace (sub 0 (hl + 20 + zlen c) (B ++ rest)) with B by (symmetry; apply sub_app_here; exact Hzb).
  rewrite HB. destruct (Hrd ((tsh ++ c) ++ rest)) as [R0 R3]. rewrite R0, R3. rewrite Ht.
  unfold sec_tail. change (2 =? 2) with true. cbv iota.
  replace (zlen B <? hl + 20) with false by lia.
  assert (Sg : sub hl 16 B = guid).
  { unfold B, tsh. rewrite <- Hlen. rewrite <- !app_assoc. apply sub_at. exact Hg16. }
  assert (Rd : rd (hl + 16) 2 B = hl + 20).
  { unfold B, tsh. replace (chdr ++ (guid ++ le_enc 2 (hl + 20) ++ le_enc 2 attrs) ++ c)
      with ((chdr ++ guid) ++ le_enc 2 (hl + 20) ++ (le_enc 2 attrs ++ c)) by (rewrite <- !app_assoc; reflexivity).
    replace (hl + 16) with (zlen (chdr ++ guid)) by (rewrite zlen_app; lia).
    rewrite rd_at by apply le2. apply le_dec_enc. change (256 ^ Z.of_nat 2) with 65536. lia. }
  assert (Ra : rd (hl + 18) 2 B = attrs).
  { unfold B, tsh. replace (chdr ++ (guid ++ le_enc 2 (hl + 20) ++ le_enc 2 attrs) ++ c)
      with ((chdr ++ guid ++ le_enc 2 (hl + 20)) ++ le_enc 2 attrs ++ c) by (rewrite <- !app_assoc; reflexivity).
    replace (hl + 18) with (zlen (chdr ++ guid ++ le_enc 2 (hl + 20))) by (rewrite !zlen_app, le2; lia).
    rewrite rd_at by apply le2. apply le_dec_enc. change (256 ^ Z.of_nat 2) with 65536. exact Hattr. }
  rewrite Sg, Rd, Ra.
  replace (zlen B <? hl + 20) with false by lia.
  replace (Z.land attrs 1 =? 0) with false by lia. cbn [negb].
  replace (codec_kind guid =? 0) with false by lia.
  rewrite slice_ok by lia.
  replace (sub (hl + 20) (zlen B - (hl + 20)) B) with c.
  2:{ unfold B. replace (chdr ++ tsh ++ c) with ((chdr ++ tsh) ++ c ++ []) by (rewrite app_nil_r, <- app_assoc; reflexivity).
      replace (hl + 20) with (zlen (chdr ++ tsh)) by (rewrite zlen_app; lia).
      symmetry. apply sub_at. rewrite !zlen_app. change (zlen (@nil Z)) with 0. lia. }
  rewrite Hdata. cbn [bind]. rewrite Hloop. cbn [bind]. reflexivity.
Qed.


(* ---------- canonical (assembled) trees ---------- *)

Definition is_sec (n : node) : Prop := match n with NSec _ _ _ => True | _ => False end.

Definition asm_node (r : outcome (node * ast)) : option node :=
  match r with Ok (n, _) => Some n | _ => None end.

(* the node Assemble makes of a section does not depend on the visitor state *)
Lemma sec_asm_node_st h buf kids st st' :
  asm_node (secasm h buf kids st) = asm_node (secasm h buf kids st').
Proof using Type. clear_sec.
  destruct st as [p f], st' as [p' f']. unfold sec_asm.
  destruct kids as [|k r].
  - match goal with |- context [bind ?e _] => destruct e as [[b|]| | |] end; cbn [bind asm_node]; reflexivity.
  - match goal with |- context [bind ?e _] => destruct e as [b| | |] end; cbn [bind asm_node]; reflexivity.
Qed.

(* a leaf section that Assemble leaves as it is: any section that is not regenerated (everything
   but UI, version and dependency sections), and those three when their bytes are already what
   Assemble regenerates from the decoded fields *)
Definition leaf_stable (h : sechdr) (buf : bytes) : Prop :=
  asm_node (secasm h buf [] (255, false)) = Some (NSec h buf []).

Lemma leaf_stable_asm h buf st : leaf_stable h buf ->
  exists st', secasm h buf [] st = Ok (NSec h buf [], st').
Proof using Type. clear_sec.
  unfold leaf_stable. rewrite (sec_asm_node_st h buf [] (255, false) st).
  destruct (secasm h buf [] st) as [[n st']| | |]; cbn [asm_node]; try discriminate.
  intros [= ->]. eauto.
Qed.

Fixpoint height (n : node) : nat :=
  match n with
  | NSec _ _ kids | NFile _ _ kids | NVol _ _ kids => S (fold_right (fun k m => Nat.max (height k) m) 0%nat kids)
  | NPad _ _ => 1%nat
  end.

Lemma height_kids k kids : In k kids ->
  (height k <= fold_right (fun k m => Nat.max (height k) m) 0%nat kids)%nat.
Proof using Type. clear_sec.
  induction kids as [|x r IH]; intros H; [destruct H|].
  cbn [fold_right]. destruct H as [->|H]; [lia|]. specialize (IH H). lia.
Qed.

(* the file header Assemble regenerates for section data [data] *)
Definition file_regen (h : filehdr) (data : bytes) : filehdr * bytes :=
  let '(ext, attr) := set_size (f_attr h) (24 + zlen data) true in
  checksum_and_assemble h ext attr data.

Definition bad_rsec : Z -> bytes -> Z -> outcome (node * Z) := fun _ _ _ => Fuel.

(* a file without sections: its own bytes parse (without recursion) to this very node *)
Definition file_leaf_ok (pol : Z) (h : filehdr) (buf : bytes) : Prop :=
  fbody bad_rsec pol buf = Ok (Some (NFile h buf []), pol).

(* ---------- stage 1: sections (any nesting of compressed sections over leaf sections) ---------- *)

Lemma psec_S d pol buf i : psec (S d) pol buf i = sbody (psec d) (pfv d) pol buf i.
Proof. reflexivity. Qed.

Lemma pfile_S d pol buf : pfile (S d) pol buf = fbody (psec d) pol buf.
Proof. reflexivity. Qed.

(* ---------- stage 2: files ---------- *)

Lemma attr_large_set a : attr_large (set_large a true) = true.
Proof using Type. clear_sec.
  unfold attr_large, set_large. rewrite Z.land_lor_distr_l. change (Z.land 1 1) with 1.
  destruct (Z.lor (Z.land a 1) 1 =? 0) eqn:E; [|reflexivity].
  apply Z.eqb_eq in E. apply Z.lor_eq_0_iff in E. destruct E; discriminate.
Qed.

Lemma attr_large_clear a : attr_large (set_large a false) = false.
Proof using Type. clear_sec.
  unfold attr_large, set_large. rewrite <- Z.land_assoc. change (Z.land 254 1) with 0.
  rewrite Z.land_0_r. reflexivity.
Qed.

Lemma set_large_idem a b : set_large (set_large a b) b = set_large a b.
Proof using Type. clear_sec.
  unfold set_large. destruct b.
  - rewrite <- Z.lor_assoc. reflexivity.
  - rewrite <- Z.land_assoc. reflexivity.
Qed.

Lemma sum8_app a b : sum8 (a ++ b) = (sum8 a + sum8 b) mod 256.
Proof using Type. clear_sec.
  unfold sum8. assert (E : sum_list (a ++ b) = sum_list a + sum_list b).
  { induction a as [|x a IH]; simpl; [reflexivity|]. rewrite IH. lia. }
  rewrite E. apply Z.add_mod. lia.
Qed.

(* what SetSize + ChecksumAndAssemble produce for section data [data] *)
Lemma file_regen_shape h data : zlen (f_guid h) = 16 -> zlen data < 4294967000 ->
  exists hdr ckh ckf attr size3 hl,
    (hl = 24 \/ hl = 32) /\ zlen hdr = hl /\
    file_regen h data =
      (mkFile (f_guid h) ckh ckf (f_type h) attr size3 (f_state h) (hl + zlen data) (f_dataoff h) (f_nvar h),
       hdr ++ data) /\
    attr_large attr = (hl =? 32) /\ attr = set_large (f_attr h) (hl =? 32) /\
    (size3 =? 16777215) = (hl =? 32) /\
    (16777215 <? hl + zlen data) = (hl =? 32) /\
    (forall X, sub 0 16 (hdr ++ X) = f_guid h /\ rd 16 1 (hdr ++ X) = ckh /\ rd 17 1 (hdr ++ X) = ckf /\
               rd 18 1 (hdr ++ X) = f_type h /\ rd 19 1 (hdr ++ X) = attr /\ rd 20 3 (hdr ++ X) = size3 /\
               rd 23 1 (hdr ++ X) = f_state h /\ (hl = 32 -> rd 24 8 (hdr ++ X) = hl + zlen data)) /\
    (hl = 24 -> size3 = hl + zlen data).
Proof using Type. clear_sec.
  intros Hg Hd. pose proof (zlen_nonneg data) as Hn.
  unfold file_regen, set_size, checksum_and_assemble.
  destruct (16777215 <=? 24 + zlen data) eqn:Ebig.
  - (* large *)
    rewrite attr_large_set.
    set (ext := 24 + zlen data + 8). set (attr := set_large (f_attr h) true).
    assert (Hw : write3 ext = 16777215) by (unfold write3, ext; replace (16777215 <=? 24 + zlen data + 8) with true by lia; reflexivity).
    rewrite Hw.
    match goal with |- context [mkFile _ ?a ?b _ _ _ _ _ _ _] => set (ckh := a); set (ckf := b) end.
    exists (file_header_bytes (f_guid h) ckh ckf (f_type h) attr 16777215 (f_state h) ext true), ckh, ckf, attr, 16777215, 32.
    assert (Hl : zlen (file_header_bytes (f_guid h) ckh ckf (f_type h) attr 16777215 (f_state h) ext true) = 32).
    { unfold file_header_bytes. rewrite !zlen_app, Hg, le8. reflexivity. }
    split; [auto|]. split; [exact Hl|].
    split; [unfold ext; f_equal; f_equal; lia|].
    split; [apply attr_large_set|]. split; [reflexivity|]. split; [reflexivity|]. split; [lia|].
    split; [|intros; lia].
    intros X. unfold file_header_bytes.
    set (g := f_guid h) in *.
    repeat split.
    + rewrite <- !app_assoc. apply sub_app_here. exact Hg.
    + rewrite <- !app_assoc. rewrite <- Hg. cbn [app]. apply rd1_at.
    + replace ((g ++ [ckh; ckf; f_type h; attr] ++ le_enc 3 16777215 ++ [f_state h] ++ le_enc 8 ext) ++ X)
        with ((g ++ [ckh]) ++ ckf :: ([f_type h; attr] ++ le_enc 3 16777215 ++ [f_state h] ++ le_enc 8 ext) ++ X)
        by (rewrite <- !app_assoc; reflexivity).
      replace 17 with (zlen (g ++ [ckh])) by (rewrite zlen_app, Hg; reflexivity). apply rd1_at.
    + replace ((g ++ [ckh; ckf; f_type h; attr] ++ le_enc 3 16777215 ++ [f_state h] ++ le_enc 8 ext) ++ X)
        with ((g ++ [ckh; ckf]) ++ f_type h :: ([attr] ++ le_enc 3 16777215 ++ [f_state h] ++ le_enc 8 ext) ++ X)
        by (rewrite <- !app_assoc; reflexivity).
      replace 18 with (zlen (g ++ [ckh; ckf])) by (rewrite zlen_app, Hg; reflexivity). apply rd1_at.
    + replace ((g ++ [ckh; ckf; f_type h; attr] ++ le_enc 3 16777215 ++ [f_state h] ++ le_enc 8 ext) ++ X)
        with ((g ++ [ckh; ckf; f_type h]) ++ attr :: (le_enc 3 16777215 ++ [f_state h] ++ le_enc 8 ext) ++ X)
        by (rewrite <- !app_assoc; reflexivity).
      replace 19 with (zlen (g ++ [ckh; ckf; f_type h])) by (rewrite zlen_app, Hg; reflexivity). apply rd1_at.
    + replace ((g ++ [ckh; ckf; f_type h; attr] ++ le_enc 3 16777215 ++ [f_state h] ++ le_enc 8 ext) ++ X)
        with ((g ++ [ckh; ckf; f_type h; attr]) ++ le_enc 3 16777215 ++ ([f_state h] ++ le_enc 8 ext) ++ X)
        by (rewrite <- !app_assoc; reflexivity).
      replace 20 with (zlen (g ++ [ckh; ckf; f_type h; attr])) by (rewrite zlen_app, Hg; reflexivity).
      rewrite rd_at by reflexivity. reflexivity.
    + replace ((g ++ [ckh; ckf; f_type h; attr] ++ le_enc 3 16777215 ++ [f_state h] ++ le_enc 8 ext) ++ X)
        with ((g ++ [ckh; ckf; f_type h; attr] ++ le_enc 3 16777215) ++ f_state h :: le_enc 8 ext ++ X)
        by (rewrite <- !app_assoc; reflexivity).
      replace 23 with (zlen (g ++ [ckh; ckf; f_type h; attr] ++ le_enc 3 16777215)) by (rewrite !zlen_app, Hg; reflexivity).
      apply rd1_at.
    + intros _.
      replace ((g ++ [ckh; ckf; f_type h; attr] ++ le_enc 3 16777215 ++ [f_state h] ++ le_enc 8 ext) ++ X)
        with ((g ++ [ckh; ckf; f_type h; attr] ++ le_enc 3 16777215 ++ [f_state h]) ++ le_enc 8 ext ++ X)
        by (rewrite <- !app_assoc; reflexivity).
      replace 24 with (zlen (g ++ [ckh; ckf; f_type h; attr] ++ le_enc 3 16777215 ++ [f_state h])) at 1
        by (rewrite !zlen_app, Hg; reflexivity).
      rewrite rd_at by apply le8. unfold ext. rewrite le_dec_enc; [lia|].
      change (256 ^ Z.of_nat 8) with 18446744073709551616. lia.
  - (* small *)
    rewrite attr_large_clear.
    set (ext := 24 + zlen data). set (attr := set_large (f_attr h) false).
    assert (Hw : write3 ext = ext) by (unfold write3, ext; replace (16777215 <=? 24 + zlen data) with false by lia; reflexivity).
    rewrite Hw.
    match goal with |- context [mkFile _ ?a ?b _ _ _ _ _ _ _] => set (ckh := a); set (ckf := b) end.
    exists (file_header_bytes (f_guid h) ckh ckf (f_type h) attr ext (f_state h) ext false), ckh, ckf, attr, ext, 24.
    assert (Hl : zlen (file_header_bytes (f_guid h) ckh ckf (f_type h) attr ext (f_state h) ext false) = 24).
    { unfold file_header_bytes. rewrite !zlen_app, Hg. reflexivity. }
    split; [auto|]. split; [exact Hl|].
    split; [reflexivity|].
    split; [apply attr_large_clear|]. split; [reflexivity|].
    split; [unfold ext; change (24 =? 32) with false; lia|]. split; [change (24 =? 32) with false; lia|].
    split; [|intros; reflexivity].
    intros X. unfold file_header_bytes. rewrite app_nil_r.
    set (g := f_guid h) in *.
    repeat split.
    + rewrite <- !app_assoc. apply sub_app_here. exact Hg.
    + rewrite <- !app_assoc. rewrite <- Hg. cbn [app]. apply rd1_at.
    + replace ((g ++ [ckh; ckf; f_type h; attr] ++ le_enc 3 ext ++ [f_state h]) ++ X)
        with ((g ++ [ckh]) ++ ckf :: ([f_type h; attr] ++ le_enc 3 ext ++ [f_state h]) ++ X)
        by (rewrite <- !app_assoc; reflexivity).
      replace 17 with (zlen (g ++ [ckh])) by (rewrite zlen_app, Hg; reflexivity). apply rd1_at.
    + replace ((g ++ [ckh; ckf; f_type h; attr] ++ le_enc 3 ext ++ [f_state h]) ++ X)
        with ((g ++ [ckh; ckf]) ++ f_type h :: ([attr] ++ le_enc 3 ext ++ [f_state h]) ++ X)
        by (rewrite <- !app_assoc; reflexivity).
      replace 18 with (zlen (g ++ [ckh; ckf])) by (rewrite zlen_app, Hg; reflexivity). apply rd1_at.
    + replace ((g ++ [ckh; ckf; f_type h; attr] ++ le_enc 3 ext ++ [f_state h]) ++ X)
        with ((g ++ [ckh; ckf; f_type h]) ++ attr :: (le_enc 3 ext ++ [f_state h]) ++ X)
        by (rewrite <- !app_assoc; reflexivity).
      replace 19 with (zlen (g ++ [ckh; ckf; f_type h])) by (rewrite zlen_app, Hg; reflexivity). apply rd1_at.
    + replace ((g ++ [ckh; ckf; f_type h; attr] ++ le_enc 3 ext ++ [f_state h]) ++ X)
        with ((g ++ [ckh; ckf; f_type h; attr]) ++ le_enc 3 ext ++ [f_state h] ++ X)
        by (rewrite <- !app_assoc; reflexivity).
      replace 20 with (zlen (g ++ [ckh; ckf; f_type h; attr])) by (rewrite zlen_app, Hg; reflexivity).
      rewrite rd_at by reflexivity. apply le_dec_enc. change (256 ^ Z.of_nat 3) with 16777216. unfold ext. lia.
    + replace ((g ++ [ckh; ckf; f_type h; attr] ++ le_enc 3 ext ++ [f_state h]) ++ X)
        with ((g ++ [ckh; ckf; f_type h; attr] ++ le_enc 3 ext) ++ f_state h :: X)
        by (rewrite <- !app_assoc; reflexivity).
      replace 23 with (zlen (g ++ [ckh; ckf; f_type h; attr] ++ le_enc 3 ext)) by (rewrite !zlen_app, Hg; reflexivity).
      apply rd1_at.
    + intros; lia.
Qed.


Lemma supported_not_1 t : supported_file t = true -> (t =? 1) = false.
Proof using Type. clear_sec. intros H. destruct (t =? 1) eqn:E; [|reflexivity]. apply Z.eqb_eq in E. subst t. discriminate. Qed.

Lemma fbody_file rs pol h buf kids rest :
  f_nvar h = None -> supported_file (f_type h) = true -> zlen (f_guid h) = 16 ->
  zlen (join4 [] (map node_buf kids)) < 4294967000 ->
  file_regen h (join4 [] (map node_buf kids)) = (h, buf) ->
  Forall (reparses_sec rs pol) kids ->
  exists kids2 o,
    fbody rs pol (buf ++ rest) = Ok (Some (NFile (set_fdo h o) buf kids2), pol) /\
    map strip kids2 = map strip kids /\ f_ext h = zlen buf /\ 24 <= zlen buf.
Proof.
  intros Hnv Hsup Hg Hd Hreg Hkids.
  set (data := join4 [] (map node_buf kids)) in *.
  destruct (file_regen_shape h data Hg Hd) as
    (hdr & ckh & ckf & attr & size3 & hl & Hhl & Hlen & Hreg' & Hlarge & Hattr & Hs3 & Hbig & Hrd & Hsz).
  rewrite Hreg in Hreg'.
  pose proof (f_equal fst Hreg') as Eh. pose proof (f_equal snd Hreg') as Eb. cbn [fst snd] in Eh, Eb.
  clear Hreg Hreg'.
  destruct h as [g0 ckh0 ckf0 t0 a0 s30 st0 e0 do0 nv0].
  cbn [f_guid f_ckh f_ckf f_type f_attr f_size3 f_state f_ext f_dataoff f_nvar] in *.
  injection Eh as Eckh Eckf Ea Es3 Ee. subst nv0 ckh0 ckf0 a0 s30 e0.
  pose proof (zlen_nonneg data) as Hdn. pose proof (zlen_nonneg rest) as Hrn.
  assert (Hzb : zlen buf = hl + zlen data) by (rewrite Eb, zlen_app; lia).
  assert (Hn : (length kids < Z.to_nat (hl + zlen data) + 1)%nat).
  { pose proof (length_le_zlen_join kids) as L.
    assert (Forall (fun k => 0 < zlen (node_buf k)) kids) as F.
    { clear - Hkids. induction Hkids as [|k r [Hp _] _ IH]; constructor; assumption. }
    specialize (L F). fold data in L. lia. }
  assert (Hm4 : zlen hdr mod 4 = 0) by (rewrite Hlen; destruct Hhl; subst hl; reflexivity).
  destruct (loop_file rs pol kids hdr _ 0 Hkids Hn Hm4) as (kids2 & Hloop & Hstrip).
  fold data in Hloop. rewrite Hlen in Hloop. rewrite <- Eb in Hloop.
  exists kids2, hl. split; [|repeat split; try assumption; try lia].
  unfold file_body, set_fdo. cbv zeta.
  cbn [f_guid f_ckh f_ckf f_type f_attr f_size3 f_state f_ext f_dataoff f_nvar].
  replace (zlen (buf ++ rest) <? 24) with false by (rewrite zlen_app; lia).
  assert (HB : buf ++ rest = hdr ++ data ++ rest) by (rewrite Eb, <- app_assoc; reflexivity).
  destruct (Hrd (data ++ rest)) as (R0 & R16 & R17 & R18 & R19 & R20 & R23 & R24).
  rewrite <- HB in R0, R16, R17, R18, R19, R20, R23, R24.
  rewrite R0, R16, R17, R18, R19, R20, R23. rewrite Hs3.
  rewrite (supported_not_1 _ Hsup). cbn [andb]. rewrite Hsup. cbn [negb].
  destruct Hhl; subst hl.
  - change (24 =? 32) with false. cbv iota. cbn [bind andb]. rewrite (Hsz eq_refl).
    replace (zlen (buf ++ rest) <? 24 + zlen data) with false by (rewrite zlen_app; lia).
    replace (24 + zlen data <? 24) with false by lia.
    replace (sub 0 (24 + zlen data) (buf ++ rest)) with buf by (symmetry; apply sub_app_here; exact Hzb).
    cbn [bind]. rewrite Hloop. cbn [bind]. reflexivity.
  - change (32 =? 32) with true. cbv iota.
    replace (zlen (buf ++ rest) <? 32) with false by (rewrite zlen_app; lia).
    rewrite (R24 eq_refl). cbn [bind andb].
    replace (32 + zlen data =? U64 - 1) with false by (unfold U64; change (2 ^ 64) with 18446744073709551616; lia).
    replace (zlen (buf ++ rest) <? 32 + zlen data) with false by (rewrite zlen_app; lia).
    replace (32 + zlen data <? 32) with false by lia.
    replace (sub 0 (32 + zlen data) (buf ++ rest)) with buf by (symmetry; apply sub_app_here; exact Hzb).
    cbn [bind]. rewrite Hloop. cbn [bind].
    assert (Es : size3 = 16777215) by lia. rewrite Es. reflexivity.
Qed.


Lemma sub0_app (a b : bytes) ext : ext <= zlen a -> sub 0 ext (a ++ b) = sub 0 ext a.
Proof using Type. clear_sec. intros. unfold sub. rewrite !zskipn_0. apply zfirstn_app_l. assumption. Qed.

(* a file that parses to a section-less node without recursion does so in any context *)
Lemma file_leaf_reparse pol h buf : file_leaf_ok pol h buf ->
  forall rs rest, fbody rs pol (buf ++ rest) = Ok (Some (NFile h buf []), pol).
Proof.
  unfold file_leaf_ok, file_body. cbv zeta. intros H rs rest.
  destruct (zlen buf <? 24) eqn:E24; [discriminate|].
  pose proof (zlen_nonneg rest) as Hr.
  rewrite zlen_app. replace (zlen buf + zlen rest <? 24) with false by lia.
  rewrite (sub_app_l buf rest 0 16) by lia.
  rewrite (rd_app_l buf rest 16 1), (rd_app_l buf rest 17 1), (rd_app_l buf rest 18 1),
    (rd_app_l buf rest 19 1), (rd_app_l buf rest 20 3), (rd_app_l buf rest 23 1) by (simpl; lia).
  assert (Tail : forall ext doff,
    (if zlen buf <? ext then Err E_SIZE else if ext <? doff then Err E_SIZE else
      do nv <- (if (rd 18 1 buf =? 1) && bytes_eqb (sub 0 16 buf) NVAR_GUID
                then if zlen (sub 0 ext buf) <=? doff then Err E_BEYOND else Ok (nvar (zskipn doff (sub 0 ext buf)))
                else Ok None);
      if negb (supported_file (rd 18 1 buf))
      then Ok (Some (NFile (mkFile (sub 0 16 buf) (rd 16 1 buf) (rd 17 1 buf) (rd 18 1 buf) (rd 19 1 buf)
                                   (rd 20 3 buf) (rd 23 1 buf) ext doff nv) (sub 0 ext buf) []), pol)
      else do kp <- sections_loop bad_rsec (Z.to_nat ext + 1) (sub 0 ext buf) pol doff 0;
           let '(kids, pol') := kp in
           Ok (Some (NFile (mkFile (sub 0 16 buf) (rd 16 1 buf) (rd 17 1 buf) (rd 18 1 buf) (rd 19 1 buf)
                                   (rd 20 3 buf) (rd 23 1 buf) ext doff nv) (sub 0 ext buf) kids), pol'))
      = Ok (Some (NFile h buf []), pol) ->
    (if zlen buf + zlen rest <? ext then Err E_SIZE else if ext <? doff then Err E_SIZE else
      do nv <- (if (rd 18 1 buf =? 1) && bytes_eqb (sub 0 16 buf) NVAR_GUID
                then if zlen (sub 0 ext (buf ++ rest)) <=? doff then Err E_BEYOND
                     else Ok (nvar (zskipn doff (sub 0 ext (buf ++ rest))))
                else Ok None);
      if negb (supported_file (rd 18 1 buf))
      then Ok (Some (NFile (mkFile (sub 0 16 buf) (rd 16 1 buf) (rd 17 1 buf) (rd 18 1 buf) (rd 19 1 buf)
                                   (rd 20 3 buf) (rd 23 1 buf) ext doff nv) (sub 0 ext (buf ++ rest)) []), pol)
      else do kp <- sections_loop rs (Z.to_nat ext + 1) (sub 0 ext (buf ++ rest)) pol doff 0;
           let '(kids, pol') := kp in
           Ok (Some (NFile (mkFile (sub 0 16 buf) (rd 16 1 buf) (rd 17 1 buf) (rd 18 1 buf) (rd 19 1 buf)
                                   (rd 20 3 buf) (rd 23 1 buf) ext doff nv) (sub 0 ext (buf ++ rest)) kids), pol'))
      = Ok (Some (NFile h buf []), pol)).
  { intros ext doff T. destruct (zlen buf <? ext) eqn:Ee; [discriminate|].
    replace (zlen buf + zlen rest <? ext) with false by lia.
    destruct (ext <? doff); [discriminate|].
    rewrite (sub0_app buf rest ext) by lia.
    match type of T with context [bind ?e _] => destruct e as [nv| | |] end; cbn [bind] in T |- *; try discriminate.
    destruct (negb (supported_file (rd 18 1 buf))); [exact T|].
    rewrite Nat.add_1_r in T |- *. cbn [sections_loop] in T |- *.
    destruct (doff <? zlen (sub 0 ext buf)); [discriminate|]. exact T. }
  destruct (rd 20 3 buf =? 16777215) eqn:Es3.
  - destruct (zlen buf <? 32) eqn:E32.
    + destruct (forallb (fun x => x =? pol) buf); cbn [bind] in H; [|discriminate].
      cbn [andb] in H. rewrite Z.eqb_refl in H. discriminate.
    + replace (zlen buf + zlen rest <? 32) with false by lia.
      rewrite (rd_app_l buf rest 24 8) by (simpl; lia).
      cbn [bind andb] in H |- *.
      destruct (rd 24 8 buf =? U64 - 1); [discriminate|]. apply Tail. exact H.
  - cbn [bind andb] in H |- *. apply Tail. exact H.
Qed.

Lemma file_leaf_ext pol h buf : file_leaf_ok pol h buf ->
  f_ext h = zlen buf /\ 24 <= zlen buf /\ f_attr h = rd 19 1 buf.
Proof.
  unfold file_leaf_ok, file_body. cbv zeta. intros H.
  destruct (zlen buf <? 24) eqn:E24; [discriminate|].
  assert (Tail : forall ext doff g ckh ckf t a s3 st,
    (if zlen buf <? ext then Err E_SIZE else if ext <? doff then Err E_SIZE else
      do nv <- (if (t =? 1) && bytes_eqb g NVAR_GUID
                then if zlen (sub 0 ext buf) <=? doff then Err E_BEYOND else Ok (nvar (zskipn doff (sub 0 ext buf)))
                else Ok None);
      if negb (supported_file t)
      then Ok (Some (NFile (mkFile g ckh ckf t a s3 st ext doff nv) (sub 0 ext buf) []), pol)
      else do kp <- sections_loop bad_rsec (Z.to_nat ext + 1) (sub 0 ext buf) pol doff 0;
           let '(kids, pol') := kp in
           Ok (Some (NFile (mkFile g ckh ckf t a s3 st ext doff nv) (sub 0 ext buf) kids), pol'))
      = Ok (Some (NFile h buf []), pol) -> f_ext h = zlen buf /\ f_attr h = a).
  { intros ext doff g ckh ckf t a s3 st T. destruct (zlen buf <? ext) eqn:Ee; [discriminate|].
    destruct (ext <? doff); [discriminate|].
    match type of T with context [bind ?e _] => destruct e as [nv| | |] end; cbn [bind] in T; try discriminate.
    assert (G : forall kids, Ok (Some (NFile (mkFile g ckh ckf t a s3 st ext doff nv) (sub 0 ext buf) kids), pol)
                  = Ok (Some (NFile h buf []), pol) -> f_ext h = zlen buf /\ f_attr h = a).
    { intros kids E. injection E as Eh Eb _. subst h. cbn [f_ext f_attr]. split; [|reflexivity]. apply sub0_whole; [lia|lia|exact Eb]. }
    destruct (negb (supported_file t)); [exact (G _ T)|].
    destruct (sections_loop bad_rsec (Z.to_nat ext + 1) (sub 0 ext buf) pol doff 0) as [[k p]| | |];
      cbn [bind] in T; try discriminate.
    injection T as Eh Eb Ek Ep. subst h. cbn [f_ext f_attr]. split; [|reflexivity]. apply sub0_whole; [lia|lia|exact Eb]. }
  cut (f_ext h = zlen buf /\ f_attr h = rd 19 1 buf); [intros [? ?]; repeat split; [assumption|lia|assumption]|].
  destruct (rd 20 3 buf =? 16777215) eqn:Es3.
  - destruct (zlen buf <? 32) eqn:E32.
    + destruct (forallb (fun x => x =? pol) buf); cbn [bind] in H; [|discriminate].
      cbn [andb] in H. rewrite Z.eqb_refl in H. discriminate.
    + cbn [bind andb] in H. destruct (rd 24 8 buf =? U64 - 1); [discriminate|]. eapply Tail. exact H.
  - cbn [bind andb] in H. eapply Tail. exact H.
Qed.


Definition is_file (n : node) : Prop := match n with NFile _ _ _ => True | _ => False end.

Definition reparses_file (rf : Z -> bytes -> outcome (option node * Z)) (pol : Z) (k : node) : Prop :=
  24 <= zlen (node_buf k) /\
  forall rest, exists k2, rf pol (node_buf k ++ rest) = Ok (Some k2, pol) /\
                          strip k2 = strip k /\ file_ext k2 = zlen (node_buf k).

(* ---------- Assemble on canonical trees: a fixed point ---------- *)

(* ---------- Assemble does not look at the metadata [strip] forgets ---------- *)

Definition ostrip (r : outcome (node * ast)) : outcome (node * ast) :=
  match r with Ok (m, s) => Ok (strip m, s) | Err e => Err e | Panic p => Panic p | Fuel => Fuel end.

Definition olstrip (r : outcome (list node * ast)) : outcome (list node * ast) :=
  match r with Ok (l, s) => Ok (map strip l, s) | Err e => Err e | Panic p => Panic p | Fuel => Fuel end.

Lemma gen_sec_header_order h o b :
  gen_sec_header (set_order h o) b = (set_order (fst (gen_sec_header h b)) o, snd (gen_sec_header h b)).
Proof using Type. clear_sec. reflexivity. Qed.

Lemma sec_asm_strip h buf kids st :
  secasm (set_order h 0) buf (map strip kids) st = ostrip (secasm h buf kids st).
Proof using Type. clear_sec.
  unfold sec_asm. destruct st as [p f]. destruct kids as [|k r]; cbn [map].
  - change (s_type (set_order h 0)) with (s_type h). change (s_name (set_order h 0)) with (s_name h).
    change (s_build (set_order h 0)) with (s_build h). change (s_version (set_order h 0)) with (s_version h).
    change (s_depex (set_order h 0)) with (s_depex h).
    match goal with |- context [bind ?e _] => destruct e as [[b|]| | |] end; cbn [bind ostrip]; try reflexivity.
  - rewrite node_buf_strip, map_node_buf_strip.
    change (s_type (set_order h 0)) with (s_type h). change (s_gd (set_order h 0)) with (s_gd h).
    match goal with |- context [bind ?e _] => destruct e as [b| | |] end; cbn [bind ostrip]; try reflexivity.
Qed.

Lemma file_asm_strip h buf kids st :
  file_asm (set_fdo h 0) buf (map strip kids) st =
  match file_asm h buf kids st with
  | Ok (m, s) => Ok (strip m, s) | Err e => Err e | Panic p => Panic p | Fuel => Fuel end.
Proof using Type. clear_sec.
  unfold file_asm. destruct st as [p f].
  change (f_nvar (set_fdo h 0)) with (f_nvar h). change (f_attr (set_fdo h 0)) with (f_attr h).
  destruct kids as [|k r]; cbn [map].
  - destruct (f_nvar h); [|reflexivity].
    destruct (set_size (f_attr h) (24 + zlen b) true) as [ext attr]. reflexivity.
  - rewrite node_buf_strip, map_node_buf_strip.
    destruct (set_size _ _ true) as [ext attr]. reflexivity.
Qed.

Lemma place_files_strip pol limit : forall files fvbuf off,
  place_files pol limit fvbuf off (map strip files) = place_files pol limit fvbuf off files.
Proof using Type. clear_sec.
  induction files as [|f r IH]; intros fvbuf off; [reflexivity|]. cbn [map place_files].
  rewrite node_buf_strip.
  replace (match strip f with NFile h _ _ => f_attr h | _ => 0 end)
    with (match f with NFile h _ _ => f_attr h | _ => 0 end) by (destruct f; reflexivity).
  destruct (zlen (node_buf f) =? 0); [reflexivity|].
  match goal with |- (if ?c then _ else _) = _ => destruct c end; [reflexivity|].
  match goal with |- bind ?e _ = _ => destruct e as [[b1 a1]| | |] end; cbn [bind]; try reflexivity.
  destruct (insert_file pol b1 a1 (node_buf f)); cbn [bind]; try reflexivity. apply IH.
Qed.

Lemma asm_vol_strip pol ffs3 h buf files :
  asm_vol pol ffs3 h buf (map strip files) = asm_vol pol ffs3 h buf files.
Proof using Type. clear_sec.
  unfold asm_vol.
  replace (match map strip files with [] => true | _ => false end)
    with (match files with [] => true | _ => false end) by (destruct files; reflexivity).
  match goal with |- (if ?c then _ else _) = _ => destruct c end; [reflexivity|].
  destruct (v_length h <? zlen buf); [reflexivity|].
  destruct (v_blocks h) as [|b0 bl] eqn:Eb; [reflexivity|].
  destruct (v_dataoff h <? v_hdrlen h); [reflexivity|].
  destruct (zlen buf <? v_dataoff h); [reflexivity|].
  destruct (of_opt 202 (slice 0 (v_dataoff h) buf)) as [hdr| | |]; cbn [bind]; try reflexivity.
  rewrite place_files_strip. reflexivity.
Qed.

(* Assemble of a volume, split after the files have been laid out *)
Definition vol_finish (pol : Z) (ffs3 : bool) (h : volhdr) (b1 : bytes) (len : Z) (blocks : list (Z * Z))
  : outcome (volhdr * bytes) :=
    let newlen := zlen b1 in
    let b2 := if newlen <? len then b1 ++ zrepeat pol (len - newlen) else b1 in
    if zlen b2 <? 40 then Panic 204 else
    let b3 := splice 32 (le_enc 8 len) b2 in
    let g := if ffs3 && bytes_eqb (v_guid h) FFS2 then FFS3 else v_guid h in
    let b4 := if ffs3 && bytes_eqb (v_guid h) FFS2 then splice 16 FFS3 b3 else b3 in
    match blocks with
    | [] => Panic 205
    | (c, s) :: _ =>
      if zlen b4 <? 60 then Panic 206 else
      let b5 := splice 56 (le_enc 4 c) b4 in
      let b6 := splice 50 [0; 0] b5 in
      match slice 0 (v_hdrlen h) b6 with
      | None => Panic 207
      | Some hb =>
        if negb (Z.even (v_hdrlen h)) then Err E_ODD else
        let sum := (0 - sum16 hb) mod 65536 in
        let b7 := splice 50 (le_enc 2 sum) b6 in
        Ok (mkVol (v_zero h) g len (v_sig h) (v_attrs h) (v_hdrlen h) (v_cksum h) (v_exthdroff h)
                  (v_reserved h) (v_rev h) blocks (v_extname h) (v_extsize h) (v_dataoff h)
                  (v_fvoffset h) (v_resizable h) ((len - align8 newlen) mod U64), b7)
      end
    end.

(* the new length and first block count of a volume that has to grow (uint64 arithmetic; only the
   first block-map entry is resized) *)
Definition resize_len (newlen s : Z) (rest : list (Z * Z)) : Z * Z :=
  let rs := fold_left (fun a b => (a + fst b * snd b) mod U64) rest 0 in
  let need := if rs <? newlen then newlen - rs else 0 in
  let l := (rs + align_go need s) mod U64 in
  (l, (((l - rs) mod U64) / s) mod U32).

Lemma asm_vol_eq pol ffs3 h buf files :
  asm_vol pol ffs3 h buf files =
  if (match files with [] => true | _ => false end) && negb (supported_fv (v_guid h)) then Ok (h, buf) else
    if v_length h <? zlen buf then Err E_BUFBIG else
    match v_blocks h with [] => Err E_BLOCK0 | _ =>
    if v_dataoff h <? v_hdrlen h then Err E_BUFBIG else
    if zlen buf <? v_dataoff h then Err E_BUFBIG else
    do hdr <- of_opt 202 (slice 0 (v_dataoff h) buf);
    do b1 <- place_files pol (if v_resizable h then None else Some (v_length h)) hdr (v_dataoff h) files;
    if (v_length h <? zlen b1) && negb (v_resizable h) then Err E_NOSPACE else
    do lb <-
      (if v_length h <? zlen b1 then
         match v_blocks h with
         | [] => Panic 203
         | (c, s) :: rest =>
           if s =? 0 then Err E_BLOCK0 else
           Ok (fst (resize_len (zlen b1) s rest), (snd (resize_len (zlen b1) s rest), s) :: rest)
         end
       else Ok (v_length h, v_blocks h));
    let '(len, blocks) := lb in vol_finish pol ffs3 h b1 len blocks
    end.
Proof using Type. clear_sec. reflexivity. Qed.

Definition ovnorm (r : outcome (volhdr * bytes)) : outcome (volhdr * bytes) :=
  match r with Ok (h, b) => Ok (vnorm h, b) | Err e => Err e | Panic p => Panic p | Fuel => Fuel end.

Lemma vol_finish_vnorm pol ffs3 h b1 len blocks :
  ovnorm (vol_finish pol ffs3 (vnorm h) b1 len blocks) = ovnorm (vol_finish pol ffs3 h b1 len blocks).
Proof using Type. clear_sec.
  unfold vol_finish. cbv zeta.
  change (v_guid (vnorm h)) with (v_guid h). change (v_hdrlen (vnorm h)) with (v_hdrlen h).
  match goal with |- context [if ?c then Panic 204 else _] => destruct c end; [reflexivity|].
  destruct blocks as [|[c s] bt]; [reflexivity|].
  match goal with |- context [if ?c then Panic 206 else _] => destruct c end; [reflexivity|].
  match goal with |- context [match ?e with Some _ => _ | None => Panic 207 end] => destruct e end; [|reflexivity].
  destruct (negb (Z.even (v_hdrlen h))); reflexivity.
Qed.

Lemma asm_vol_vnorm pol ffs3 h buf files :
  ovnorm (asm_vol pol ffs3 (vnorm h) buf files) = ovnorm (asm_vol pol ffs3 h buf files).
Proof using Type. clear_sec.
  rewrite !asm_vol_eq.
  change (v_guid (vnorm h)) with (v_guid h). change (v_hdrlen (vnorm h)) with (v_hdrlen h).
  change (v_length (vnorm h)) with (v_length h). change (v_blocks (vnorm h)) with (v_blocks h).
  change (v_dataoff (vnorm h)) with (v_dataoff h). change (v_resizable (vnorm h)) with (v_resizable h).
  match goal with |- ovnorm (if ?c then _ else _) = _ => destruct c end; [reflexivity|].
  destruct (v_length h <? zlen buf); [reflexivity|].
  destruct (v_blocks h) as [|[c0 s0] bl]; [reflexivity|].
  destruct (v_dataoff h <? v_hdrlen h); [reflexivity|].
  destruct (zlen buf <? v_dataoff h); [reflexivity|].
  destruct (of_opt 202 (slice 0 (v_dataoff h) buf)) as [hdr| | |]; cbn [bind]; try reflexivity.
  destruct (place_files pol _ hdr (v_dataoff h) files) as [b1| | |]; cbn [bind]; try reflexivity.
  destruct ((v_length h <? zlen b1) && negb (v_resizable h)); [reflexivity|].
  match goal with |- ovnorm (bind ?e _) = _ => destruct e as [[len blocks]| | |] end; cbn [bind]; try reflexivity.
  apply vol_finish_vnorm.
Qed.

Lemma strip_strip n : strip (strip n) = strip n.
Proof using Type. clear_sec.
  induction n as [h buf kids IH|h buf kids IH|h buf kids IH|] using node_ind'; cbn [strip]; try reflexivity;
    f_equal; rewrite map_map; apply map_ext_in; intros k Hk; rewrite Forall_forall in IH; auto.
Qed.

(* Assemble does not look at what [strip] forgets: the results agree up to [strip] *)
Lemma asm_strip : forall n st, ostrip (asm' (strip n) st) = ostrip (asm' n st).
Proof using Type. clear_sec.
  assert (L : forall kids, Forall (fun n => forall st, ostrip (asm' (strip n) st) = ostrip (asm' n st)) kids ->
              forall st, olstrip (asml (map strip kids) st) = olstrip (asml kids st)).
  { induction 1 as [|k r Hk Hr IH]; intros st; cbn [map asm_elems]; [reflexivity|].
    specialize (Hk st).
    destruct (asm' (strip k) st) as [[k1 s1]| | |], (asm' k st) as [[k' st1]| | |];
      cbn [ostrip] in Hk; try discriminate; cbn [bind olstrip]; try congruence.
    injection Hk as Ek Es. subst s1. specialize (IH st1).
    destruct (asml (map strip r) st1) as [[r1 s2]| | |], (asml r st1) as [[r' st2]| | |];
      cbn [olstrip] in IH; try discriminate; cbn [bind olstrip]; try congruence.
    injection IH as Er Es. subst s2. cbn [map]. rewrite Ek, Er. reflexivity. }
  induction n as [h buf kids IH|h buf kids IH|h buf kids IH|] using node_ind'; intros st; cbn [strip].
  - rewrite !asm_sec. specialize (L kids IH st).
    destruct (asml (map strip kids) st) as [[K1 s1]| | |], (asml kids st) as [[kids' st1]| | |];
      cbn [olstrip] in L; try discriminate; cbn [bind ostrip]; try congruence.
    injection L as EK Es. subst s1.
    rewrite <- (sec_asm_strip h buf kids' st1). rewrite <- EK.
    rewrite <- (set_order_set h 0 0) at 2. apply eq_sym. apply sec_asm_strip.
  - rewrite !asm_file. specialize (L kids IH st).
    destruct (asml (map strip kids) st) as [[K1 s1]| | |], (asml kids st) as [[kids' st1]| | |];
      cbn [olstrip] in L; try discriminate; cbn [bind ostrip]; try congruence.
    injection L as EK Es. subst s1.
    pose proof (file_asm_strip h buf kids' st1) as A. pose proof (file_asm_strip (set_fdo h 0) buf K1 st1) as B.
    change (set_fdo (set_fdo h 0) 0) with (set_fdo h 0) in B. rewrite EK in B. rewrite A in B.
    unfold ostrip. exact (eq_sym B).
  - rewrite !asm_volume. change (v_attrs (vnorm h)) with (v_attrs h).
    destruct (set_polarity _ _); [|reflexivity].
    specialize (L kids IH (z, false)).
    destruct (asml (map strip kids) (z, false)) as [[K1 s1]| | |], (asml kids (z, false)) as [[kids' st1]| | |];
      cbn [olstrip] in L; try discriminate; cbn [bind ostrip]; try congruence.
    injection L as EK Es. subst s1.
    unfold vol_asm. destruct st1 as [p f].
    pose proof (asm_vol_vnorm p f h buf K1) as V.
    rewrite <- (asm_vol_strip p f h buf K1), EK, asm_vol_strip in V.
    rewrite <- (asm_vol_strip p f (vnorm h) buf K1), EK, asm_vol_strip in V.
    rewrite <- (asm_vol_strip p f (vnorm h) buf K1), EK, asm_vol_strip.
    destruct (asm_vol p f (vnorm h) buf kids') as [[h1 nb1]| | |], (asm_vol p f h buf kids') as [[h' nb]| | |];
      cbn [ovnorm] in V; try discriminate; cbn [bind ostrip strip]; try congruence.
    assert (Eh : vnorm h1 = vnorm h') by congruence. assert (Eb : nb1 = nb) by congruence.
    rewrite Eh, Eb, EK. reflexivity.
  - reflexivity.
Qed.

(* equal up to metadata: the second Assemble produces the same buffers *)
Lemma asm_same_bufs a b st ra sa : strip a = strip b -> asm' a st = Ok (ra, sa) ->
  exists rb, asm' b st = Ok (rb, sa) /\ strip rb = strip ra.
Proof using Type. clear_sec.
  intros E Ha. pose proof (asm_strip a st) as Sa. pose proof (asm_strip b st) as Sb.
  rewrite E, Sb, Ha in Sa. cbn [ostrip] in Sa.
  destruct (asm' b st) as [[rb sb]| | |]; cbn [ostrip] in Sa; try discriminate.
  injection Sa as E1 E2. subst. eauto.
Qed.


(* ---------- idempotence of the header generators ---------- *)

Theorem gen_sec_header_idem h b :
  gen_sec_header (fst (gen_sec_header h b)) b = gen_sec_header h b.
Proof. unfold gen_sec_header. destruct (s_gd h); reflexivity. Qed.

Lemma sum_list_app a b : sum_list (a ++ b) = sum_list a + sum_list b.
Proof using Type. clear_sec. induction a as [|x a IH]; simpl; [reflexivity|]. rewrite IH. lia. Qed.

Definition hdr_const (g : bytes) (t a s3 ext : Z) (large : bool) : Z :=
  sum_list g + t + a + sum_list (le_enc 3 s3) + (if large then sum_list (le_enc 8 ext) else 0).

Lemma hdr_sum g ckh ckf t a s3 st ext (large : bool) : zlen g = 16 ->
  sum8 (zfirstn (if large then 32 else 24) (file_header_bytes g ckh ckf t a s3 st ext true)) =
  (hdr_const g t a s3 ext large + ckh + ckf + st) mod 256.
Proof using Type. clear_sec.
  intros Hg. unfold file_header_bytes, zfirstn, hdr_const, sum8. rewrite firstn_app.
  assert (Lg : length g = 16%nat) by (unfold zlen in Hg; lia).
  rewrite firstn_all2 by (destruct large; simpl; lia). rewrite Lg.
  destruct large.
  - change (Z.to_nat 32 - 16)%nat with 16%nat. cbn [le_enc app firstn].
    rewrite sum_list_app. cbn [sum_list fold_right]. f_equal. lia.
  - change (Z.to_nat 24 - 16)%nat with 8%nat. cbn [le_enc app firstn].
    rewrite sum_list_app. cbn [sum_list fold_right]. f_equal. lia.
Qed.

(* the header checksum ChecksumAndAssemble writes does not depend on the two checksum bytes that
   were in the header before: it is the negated sum of the other header bytes *)
Lemma cka_ckh h ext attr data : zlen (f_guid h) = 16 ->
  f_ckh (fst (checksum_and_assemble h ext attr data)) =
  (- hdr_const (f_guid h) (f_type h) attr (write3 ext) ext (attr_large attr)) mod 256.
Proof using Type. clear_sec.
  intros Hg. unfold checksum_and_assemble. cbn [fst f_ckh].
  rewrite (hdr_sum _ _ _ _ _ _ _ _ (attr_large attr) Hg).
  set (K := hdr_const _ _ _ _ _ _).
  rewrite Zminus_mod_idemp_r.
  set (Xm := (K + f_ckh h + f_ckf h + f_state h) mod 256).
  replace (f_ckh h - (Xm - f_ckf h - f_state h)) with ((f_ckh h + f_ckf h + f_state h) - Xm) by lia.
  unfold Xm. rewrite Zminus_mod_idemp_r. f_equal. lia.
Qed.

Lemma cka_fields h ext attr data :
  let h' := fst (checksum_and_assemble h ext attr data) in
  f_guid h' = f_guid h /\ f_type h' = f_type h /\ f_attr h' = attr /\ f_state h' = f_state h /\
  f_size3 h' = write3 ext /\ f_ext h' = ext /\ f_dataoff h' = f_dataoff h /\ f_nvar h' = f_nvar h /\
  f_ckf h' = (if attr_checksum attr then (0 - sum8 data) mod 256 else 170).
Proof using Type. clear_sec. cbv zeta. unfold checksum_and_assemble. cbn [fst f_guid f_type f_attr f_state f_size3 f_ext f_dataoff f_nvar f_ckf]. repeat split. Qed.

Lemma cka_eq h1 h2 ext attr data :
  f_guid h1 = f_guid h2 -> f_type h1 = f_type h2 -> f_state h1 = f_state h2 ->
  f_dataoff h1 = f_dataoff h2 -> f_nvar h1 = f_nvar h2 ->
  f_ckh (fst (checksum_and_assemble h1 ext attr data)) = f_ckh (fst (checksum_and_assemble h2 ext attr data)) ->
  checksum_and_assemble h1 ext attr data = checksum_and_assemble h2 ext attr data.
Proof using Type. clear_sec.
  intros Eg Et Es Ed En Ec. unfold checksum_and_assemble in *. cbn [fst f_ckh] in Ec.
  rewrite Ec. rewrite Eg, Et, Es, Ed, En. reflexivity.
Qed.

Theorem checksum_and_assemble_idem h ext attr data : zlen (f_guid h) = 16 ->
  checksum_and_assemble (fst (checksum_and_assemble h ext attr data)) ext attr data =
  checksum_and_assemble h ext attr data.
Proof using Type. clear_sec.
  intros Hg. destruct (cka_fields h ext attr data) as (Eg & Et & Ea & Es & _ & _ & Ed & En & _).
  apply cka_eq; try assumption.
  rewrite !cka_ckh by (try rewrite Eg; assumption). rewrite Eg, Et. reflexivity.
Qed.

Lemma set_size_idem a size : set_size (snd (set_size a size true)) size true = set_size a size true.
Proof using Type. clear_sec.
  unfold set_size. destruct (16777215 <=? size); cbn [snd]; rewrite set_large_idem; reflexivity.
Qed.

Theorem file_regen_idem h data : zlen (f_guid h) = 16 ->
  file_regen (fst (file_regen h data)) data = file_regen h data.
Proof using Type. clear_sec.
  intros Hg. unfold file_regen.
  destruct (set_size (f_attr h) (24 + zlen data) true) as [ext attr] eqn:Es.
  destruct (cka_fields h ext attr data) as (_ & _ & Ea & _).
  rewrite Ea. pose proof (set_size_idem (f_attr h) (24 + zlen data)) as Hi. rewrite Es in Hi. cbn [snd] in Hi.
  rewrite Hi. apply checksum_and_assemble_idem. assumption.
Qed.


(* ---------- well-formed input trees, and what Assemble makes of them ---------- *)

Definition SZ : Z := 4294967000.   (* every buffer stays below 4 GiB: no uint32 wrap in GenSecHeader *)

Fixpoint small (n : node) : Prop :=
  let all := fix all (l : list node) : Prop :=
               match l with [] => True | x :: r => small x /\ all r end in
  match n with
  | NSec _ b k => zlen b < SZ /\ all k
  | NFile _ b k => zlen b < SZ /\ all k
  | NVol _ b k => zlen b < SZ /\ all k
  | NPad _ b => zlen b < SZ
  end.

Lemma small_all l :
  (fix all (l : list node) : Prop := match l with [] => True | x :: r => small x /\ all r end) l <->
  Forall small l.
Proof using Type. clear_sec.
  induction l as [|x r IH].
  - split; intros; [constructor|exact I].
  - split.
    + intros [Hx Hr]. constructor; [assumption|apply IH; assumption].
    + intros H. inversion H; subst. split; [assumption|apply IH; assumption].
Qed.

Lemma asml_inv : forall kids st kids' st', asml kids st = Ok (kids', st') ->
  Forall2 (fun k k' => exists s s', asm' k s = Ok (k', s')) kids kids'.
Proof using Type. clear_sec.
  induction kids as [|k r IH]; intros st kids' st' H; cbn [asm_elems] in H.
  - injection H as <- _. constructor.
  - destruct (asm' k st) as [[k1 st1]| | |] eqn:E1; cbn [bind] in H; try discriminate.
    destruct (asml r st1) as [[r1 st2]| | |] eqn:E2; cbn [bind] in H; try discriminate.
    injection H as <- _. constructor; [eauto|]. eapply IH. exact E2.
Qed.

Lemma land_set_large a b : Z.land (set_large a b) 254 = Z.land a 254.
Proof using Type. clear_sec.
  unfold set_large. destruct b.
  - rewrite Z.land_lor_distr_l. change (Z.land 1 254) with 0. apply Z.lor_0_r.
  - rewrite <- Z.land_assoc. reflexivity.
Qed.

Definition same_kind (a b : node) : Prop :=
  match a, b with
  | NSec _ _ _, NSec _ _ _ | NFile _ _ _, NFile _ _ _ | NVol _ _ _, NVol _ _ _ | NPad _ _, NPad _ _ => True
  | _, _ => False
  end.

(* ---------- the property, for sections and files ---------- *)

Lemma same_kind_sec a b : same_kind a b -> is_sec a -> is_sec b.
Proof using Type. clear_sec. destruct a, b; simpl; tauto. Qed.

Lemma same_kind_file a b : same_kind a b -> is_file a -> is_file b.
Proof using Type. clear_sec. destruct a, b; simpl; tauto. Qed.

(* the base case spelt out: one compressed section around leaf sections *)
Lemma leaf_reparses pol h buf : leaf_ok pol h buf ->
  forall d, (1 <= d)%nat -> reparses_sec (psec d) pol (NSec h buf []).
Proof.
  intros Hl d Hd. destruct d as [|d]; [lia|].
  pose proof (leaf_reparse pol h buf Hl) as Hr. destruct Hl as [Hp _].
  assert (H4 : 4 <= zlen buf).
  { rewrite section_body_eq in Hp. destruct (zlen buf <? 4) eqn:E; [discriminate|]. lia. }
  split; [cbn [node_buf]; lia|]. intros rest i. cbn [node_buf].
  exists (NSec (set_order h i) buf []). rewrite psec_S, Hr. split; [reflexivity|]. split; [reflexivity|].
  cbn [sec_ext set_order s_ext].
  rewrite section_body_eq in Hp. destruct (zlen buf <? 4); [discriminate|].
  destruct (sec_head buf) as [[hl ext]| | |]; cbn [bind] in Hp; try discriminate.
  destruct (zlen buf <? ext) eqn:Ee; [discriminate|].
  destruct (ext <? hl) eqn:Ehl; [discriminate|].
  pose proof (sec_tail_type _ _ _ _ _ _ _ _ _ _ _ _ _ Hp) as (_ & _ & Hext & _ & Hb).
  rewrite Hext. apply sub0_whole; [lia|lia|symmetry; exact Hb].
Qed.

Theorem compressed_leaves_roundtrip pol h g kids c :
  Forall (fun k => exists hk bk, k = NSec hk bk [] /\ leaf_ok pol hk bk) kids ->
  s_type h = 2 -> s_gd h = Some g -> zlen (gd_guid g) = 16 -> 0 <= gd_attrs g < 65536 ->
  Z.land (gd_attrs g) 1 <> 0 -> codec_kind (gd_guid g) <> 0 ->
  enc (codec_kind (gd_guid g)) (join4 [] (map node_buf kids)) = Some c -> zlen c < SZ ->
  forall d rest i, (2 <= d)%nat ->
  exists h2 kids2,
    psec d pol (snd (gen_sec_header h c) ++ rest) i = Ok (NSec h2 (snd (gen_sec_header h c)) kids2, pol) /\
    map strip kids2 = map strip kids /\ map node_buf kids2 = map node_buf kids.
Proof.
  intros Hk Ht Hg Hg16 Ha Hb Hc He Hz d rest i Hd.
  destruct d as [|d]; [lia|].
  assert (Hkids : Forall (reparses_sec (psec d) pol) kids).
  { rewrite Forall_forall in *. intros k Hin. destruct (Hk k Hin) as (hk & bk & -> & Hl).
    apply leaf_reparses; [assumption|lia]. }
  destruct (gen_sec_header h c) as [h' nb] eqn:Eg. cbn [snd].
  destruct (sbody_comp (psec d) (pfv d) pol h h' g c nb kids rest i Ht Hg Hg16 Ha Hb Hc He Hz Eg Hkids)
    as (kids2 & Hp & Hs & _).
  eexists. exists kids2. rewrite psec_S. split; [exact Hp|]. split; [exact Hs|]. apply strip_bufs. exact Hs.
Qed.

(* ---------- the FFS2 -> FFS3 switch ---------- *)

Lemma sub_zfirstn lo len off (b : bytes) : 0 <= lo -> 0 <= len -> lo + len <= off -> off <= zlen b ->
  sub lo len (zfirstn off b) = sub lo len b.
Proof using Type. clear_sec.
  intros. rewrite <- (zfirstn_zskipn off b) at 2.
  symmetry. apply sub_app_l; try lia. rewrite zlen_zfirstn by lia. lia.
Qed.

Lemma sub_splice_lo lo len off d (b : bytes) : 0 <= lo -> 0 <= len -> lo + len <= off ->
  off + zlen d <= zlen b -> sub lo len (splice off d b) = sub lo len b.
Proof using Type. clear_sec.
  intros. unfold splice. pose proof (zlen_nonneg d).
  rewrite sub_app_l by (try rewrite zlen_zfirstn; lia). apply sub_zfirstn; lia.
Qed.

Lemma asm_vol_ffs3 pol h buf files h' nb :
  asm_vol pol true h buf files = Ok (h', nb) -> files <> [] -> v_guid h = FFS2 ->
  v_guid h' = FFS3 /\ sub 16 16 nb = FFS3.
Proof using Type. clear_sec.
  unfold asm_vol. intros H Hne Hg. destruct files as [|f0 fr]; [congruence|]. cbn [andb] in H.
  destruct (v_length h <? zlen buf); [discriminate|].
  destruct (v_blocks h) as [|b0 bl] eqn:Eb; [discriminate|].
  destruct (v_dataoff h <? v_hdrlen h); [discriminate|].
  destruct (zlen buf <? v_dataoff h); [discriminate|].
  destruct (of_opt 202 (slice 0 (v_dataoff h) buf)) as [hdr| | |]; cbn [bind] in H; try discriminate.
  destruct (place_files pol _ hdr (v_dataoff h) (f0 :: fr)) as [b1| | |]; cbn [bind] in H; try discriminate.
  destruct ((v_length h <? zlen b1) && negb (v_resizable h)); [discriminate|].
  match type of H with bind ?e _ = _ => destruct e as [[len blocks]| | |] end; cbn [bind] in H; try discriminate.
  set (b2 := if zlen b1 <? len then b1 ++ zrepeat pol (len - zlen b1) else b1) in *.
  destruct (zlen b2 <? 40) eqn:E40; [discriminate|].
  rewrite Hg in H. change (bytes_eqb FFS2 FFS2) with true in H. cbn [andb] in H.
  set (b3 := splice 32 (le_enc 8 len) b2) in *.
  assert (Z3 : zlen b3 = zlen b2) by (unfold b3; apply zlen_splice; rewrite ?le8; lia).
  set (b4 := splice 16 FFS3 b3) in *.
  assert (Z4 : zlen b4 = zlen b3) by (unfold b4; apply zlen_splice; [lia|change (zlen FFS3) with 16; lia]).
  destruct blocks as [|[c s] bt]; [discriminate|].
  destruct (zlen b4 <? 60) eqn:E60; [discriminate|].
  set (b5 := splice 56 (le_enc 4 c) b4) in *.
  assert (Z5 : zlen b5 = zlen b4) by (unfold b5; apply zlen_splice; rewrite ?le4; lia).
  set (b6 := splice 50 [0; 0] b5) in *.
  assert (Z6 : zlen b6 = zlen b5) by (unfold b6; apply zlen_splice; [lia|change (zlen [0;0]) with 2; lia]).
  destruct (slice 0 (v_hdrlen h) b6) as [hb|]; [|discriminate].
  destruct (negb (Z.even (v_hdrlen h))); [discriminate|].
  injection H as <- <-. cbn [v_guid]. split; [reflexivity|].
  assert (L2 : forall x y : Z, zlen [x; y] = 2) by reflexivity.
  rewrite sub_splice_lo by (rewrite ?L2; lia).
  unfold b6. rewrite sub_splice_lo by (change (zlen [0;0]) with 2; lia).
  unfold b5. rewrite sub_splice_lo by (rewrite ?le4; lia).
  unfold b4. change 16 with (zlen FFS3) at 2. apply sub_splice; [lia|change (zlen FFS3) with 16; lia].
Qed.

Lemma asml_app : forall a b st,
  asml (a ++ b) st =
  (do r <- asml a st; let '(a', s) := r in do r2 <- asml b s; let '(b', s') := r2 in Ok (a' ++ b', s')).
Proof using Type. clear_sec.
  induction a as [|x a IH]; intros b st; cbn [app asm_elems bind].
  - destruct (asml b st) as [[b' s']| | |]; reflexivity.
  - destruct (asm' x st) as [[x' s1]| | |]; cbn [bind]; try reflexivity.
    rewrite IH. destruct (asml a s1) as [[a' s2]| | |]; cbn [bind]; try reflexivity.
    destruct (asml b s2) as [[b' s3]| | |]; cbn [bind]; reflexivity.
Qed.

(* once raised, the flag stays raised until the enclosing volume consumes it *)
Lemma asm_flag_mono : forall n p n' st', asm' n (p, true) = Ok (n', st') -> snd st' = true.
Proof using Type. clear_sec.
  assert (L : forall kids, Forall (fun n => forall p n' st', asm' n (p, true) = Ok (n', st') -> snd st' = true) kids ->
              forall p kids' st', asml kids (p, true) = Ok (kids', st') -> snd st' = true).
  { induction 1 as [|k r Hk Hr IH]; intros p kids' st' H; cbn [asm_elems] in H.
    - injection H as _ <-. reflexivity.
    - destruct (asm' k (p, true)) as [[k1 [p1 f1]]| | |] eqn:E1; cbn [bind] in H; try discriminate.
      pose proof (Hk _ _ _ E1) as F. cbn [snd] in F. subst f1.
      destruct (asml r (p1, true)) as [[r1 s2]| | |] eqn:E2; cbn [bind] in H; try discriminate.
      injection H as _ <-. eapply IH. exact E2. }
  induction n as [h buf kids IH|h buf kids IH|h buf kids IH|] using node_ind'; intros p n' st' H.
  - rewrite asm_sec in H. destruct (asml kids (p, true)) as [[kids' [p1 f1]]| | |] eqn:El; cbn [bind] in H; try discriminate.
    pose proof (L kids IH _ _ _ El) as F. cbn [snd] in F. subst f1.
    unfold sec_asm in H. destruct kids'.
    + match type of H with context [bind ?e _] => destruct e as [[b|]| | |] end; cbn [bind] in H; try discriminate.
      * destruct (gen_sec_header h b). injection H as _ <-. reflexivity.
      * injection H as _ <-. reflexivity.
    + match type of H with context [bind ?e _] => destruct e as [b| | |] end; cbn [bind] in H; try discriminate.
      destruct (gen_sec_header h b). injection H as _ <-. reflexivity.
  - rewrite asm_file in H. destruct (asml kids (p, true)) as [[kids' [p1 f1]]| | |] eqn:El; cbn [bind] in H; try discriminate.
    pose proof (L kids IH _ _ _ El) as F. cbn [snd] in F. subst f1.
    unfold file_asm in H.
    destruct kids'; [destruct (f_nvar h)|].
    + destruct (set_size _ _ _). destruct (checksum_and_assemble _ _ _ _). injection H as _ <-. reflexivity.
    + injection H as _ <-. reflexivity.
    + destruct (set_size _ _ _). destruct (checksum_and_assemble _ _ _ _). injection H as _ <-. reflexivity.
  - rewrite asm_volume in H. destruct (set_polarity _ _); [|discriminate].
    destruct (asml kids _) as [[kids' s1]| | |]; cbn [bind] in H; try discriminate.
    destruct (vol_asm h buf kids' s1) as [[n1 s2]| | |]; cbn [bind] in H; try discriminate.
    injection H as _ <-. reflexivity.
  - cbn [asm] in H. injection H as _ <-. reflexivity.
Qed.

Lemma asml_flag_mono kids p kids' st' : asml kids (p, true) = Ok (kids', st') -> snd st' = true.
Proof using Type. clear_sec.
  revert p kids' st'. induction kids as [|k r IH]; intros p kids' st' H; cbn [asm_elems] in H.
  - injection H as _ <-. reflexivity.
  - destruct (asm' k (p, true)) as [[k1 [p1 f1]]| | |] eqn:E1; cbn [bind] in H; try discriminate.
    pose proof (asm_flag_mono _ _ _ _ E1) as F. cbn [snd] in F. subst f1.
    destruct (asml r (p1, true)) as [[r1 s2]| | |] eqn:E2; cbn [bind] in H; try discriminate.
    injection H as _ <-. eapply IH. exact E2.
Qed.

(* a file that is re-assembled (it has sections) and comes out larger than 0xFFFFFF raises the flag;
   so does a section *)
Lemma file_raises h buf kids st h' nb kids' st' :
  asm' (NFile h buf kids) st = Ok (NFile h' nb kids', st') -> kids <> [] -> 16777215 < f_ext h' ->
  snd st' = true.
Proof using Type. clear_sec.
  intros H Hne Hbig. rewrite asm_file in H.
  destruct (asml kids st) as [[k1 [p f]]| | |] eqn:El; cbn [bind] in H; try discriminate.
  pose proof (asml_inv _ _ _ _ El) as F2. unfold file_asm in H.
  destruct k1 as [|x r]; [inversion F2; subst; congruence|].
  assert (G : forall data, (let '(ext, attr) := set_size (f_attr h) (24 + zlen data) true in
                            let '(h'0, nb0) := checksum_and_assemble h ext attr data in
                            Ok (NFile h'0 nb0 (x :: r), (p, f || (16777215 <? ext)))) = Ok (NFile h' nb kids', st') ->
                           snd st' = true).
  { clear H. intros data G. destruct (set_size (f_attr h) (24 + zlen data) true) as [ext attr].
    pose proof (cka_fields h ext attr data) as (_ & _ & _ & _ & _ & Ee & _).
    destruct (checksum_and_assemble h ext attr data) as [h0 nb0]. cbn [fst] in Ee.
    injection G as <- _ _ <-. cbn [snd]. rewrite Ee in Hbig.
    replace (16777215 <? ext) with true by lia. apply orb_true_r. }
  destruct (f_nvar h); eapply G; exact H.
Qed.

Lemma sec_raises h buf kids st h' nb kids' st' :
  asm' (NSec h buf kids) st = Ok (NSec h' nb kids', st') -> kids <> [] -> 16777215 < s_ext h' ->
  snd st' = true.
Proof using Type. clear_sec.
  intros H Hne Hbig. rewrite asm_sec in H.
  destruct (asml kids st) as [[k1 [p f]]| | |] eqn:El; cbn [bind] in H; try discriminate.
  pose proof (asml_inv _ _ _ _ El) as F2. unfold sec_asm in H.
  destruct k1 as [|x r]; [inversion F2; subst; congruence|].
  match type of H with context [bind ?e _] => destruct e as [b| | |] end; cbn [bind] in H; try discriminate.
  destruct (gen_sec_header h b) as [h0 nb0]. injection H as <- _ _ <-. cbn [snd].
  replace (16777215 <? s_ext h0) with true by lia. apply orb_true_r.
Qed.

Theorem ffs3_switch h buf l1 k l2 st h' nb kids' st' :
  asm' (NVol h buf (l1 ++ k :: l2)) st = Ok (NVol h' nb kids', st') -> v_guid h = FFS2 ->
  (forall s k1 s1, asm' k s = Ok (k1, s1) -> snd s1 = true) ->
  v_guid h' = FFS3 /\ sub 16 16 nb = FFS3 /\ snd st' = snd st.
Proof using Type. clear_sec.
  intros H Hg Hk. rewrite asm_volume in H. destruct (set_polarity _ _) as [pol0|]; [|discriminate].
  rewrite asml_app in H.
  destruct (asml l1 (pol0, false)) as [[l1' s1]| | |]; cbn [bind] in H; try discriminate.
  cbn [asm_elems] in H.
  destruct (asm' k s1) as [[k' [p2 f2]]| | |] eqn:Ek; cbn [bind] in H; try discriminate.
  pose proof (Hk _ _ _ Ek) as F. cbn [snd] in F. subst f2.
  destruct (asml l2 (p2, true)) as [[l2' [p3 f3]]| | |] eqn:E2; cbn [bind] in H; try discriminate.
  pose proof (asml_flag_mono _ _ _ _ E2) as F. cbn [snd] in F. subst f3.
  unfold vol_asm in H.
  destruct (asm_vol p3 true h buf (l1' ++ k' :: l2')) as [[h1 nb1]| | |] eqn:Ev; cbn [bind] in H; try discriminate.
  injection H as <- <- _ <-.
  destruct (asm_vol_ffs3 _ _ _ _ _ _ Ev) as [G1 G2]; try assumption.
  { destruct l1'; discriminate. }
  repeat split; assumption.
Qed.


(* ---------- a nested (resizable) volume that has to grow ---------- *)

Lemma sub_splice_hi lo len off d (b : bytes) : 0 <= off -> 0 <= len -> off + zlen d <= lo ->
  lo + len <= zlen b -> sub lo len (splice off d b) = sub lo len b.
Proof using Type. clear_sec.
  intros. unfold splice. pose proof (zlen_nonneg d).
  replace (zfirstn off b ++ d ++ zskipn (off + zlen d) b) with ((zfirstn off b ++ d) ++ zskipn (off + zlen d) b)
    by (rewrite <- app_assoc; reflexivity).
  rewrite (sub_app_skip _ _ lo len (off + zlen d)) by (try rewrite zlen_app, zlen_zfirstn; lia).
  unfold sub. rewrite zskipn_zskipn by lia. f_equal. f_equal. lia.
Qed.

Theorem nested_volume_grows pol ffs3 h buf files h' nb c s rest hdr b1 :
  files <> [] -> v_resizable h = true -> v_blocks h = (c, s) :: rest ->
  slice 0 (v_dataoff h) buf = Some hdr ->
  place_files pol None hdr (v_dataoff h) files = Ok b1 ->
  v_length h < zlen b1 ->
  asm_vol pol ffs3 h buf files = Ok (h', nb) ->
  let len := fst (resize_len (zlen b1) s rest) in
  let cnt := snd (resize_len (zlen b1) s rest) in
  v_length h' = len /\ v_blocks h' = (cnt, s) :: rest /\
  zlen nb = Z.max (zlen b1) len /\
  sub 32 8 nb = le_enc 8 len /\ sub 56 4 nb = le_enc 4 cnt.
Proof using Type. clear_sec.
  intros Hne Hres Hbl Hsl Hpl Hgrow H. cbv zeta. rewrite asm_vol_eq in H.
  destruct files as [|f0 fr]; [congruence|]. cbn [andb] in H.
  destruct (v_length h <? zlen buf); [discriminate|].
  rewrite Hbl in H.
  destruct (v_dataoff h <? v_hdrlen h); [discriminate|].
  destruct (zlen buf <? v_dataoff h); [discriminate|].
  rewrite Hsl, Hres in H. cbn [of_opt bind] in H. rewrite Hpl in H. cbn [bind] in H.
  replace (v_length h <? zlen b1) with true in H by lia. cbn [negb andb] in H.
  destruct (s =? 0); [discriminate|]. cbn [bind] in H.
  set (len := fst (resize_len (zlen b1) s rest)) in *. set (cnt := snd (resize_len (zlen b1) s rest)) in *.
  unfold vol_finish in H. cbv zeta in H.
  set (b2 := if zlen b1 <? len then b1 ++ zrepeat pol (len - zlen b1) else b1) in *.
  assert (Z2 : zlen b2 = Z.max (zlen b1) len).
  { unfold b2. destruct (zlen b1 <? len) eqn:E; [rewrite zlen_app, zlen_zrepeat by lia|]; lia. }
  destruct (zlen b2 <? 40) eqn:E40; [discriminate|].
  set (b3 := splice 32 (le_enc 8 len) b2) in *.
  assert (Z3 : zlen b3 = zlen b2) by (unfold b3; apply zlen_splice; rewrite ?le8; lia).
  set (b4 := if ffs3 && bytes_eqb (v_guid h) FFS2 then splice 16 FFS3 b3 else b3) in *.
  assert (Z4 : zlen b4 = zlen b3).
  { unfold b4. destruct (ffs3 && bytes_eqb (v_guid h) FFS2); [|reflexivity].
    apply zlen_splice; [lia|change (zlen FFS3) with 16; lia]. }
  destruct (zlen b4 <? 60) eqn:E60; [discriminate|].
  set (b5 := splice 56 (le_enc 4 cnt) b4) in *.
  assert (Z5 : zlen b5 = zlen b4) by (unfold b5; apply zlen_splice; rewrite ?le4; lia).
  set (b6 := splice 50 [0; 0] b5) in *.
  assert (Z6 : zlen b6 = zlen b5) by (unfold b6; apply zlen_splice; [lia|change (zlen [0;0]) with 2; lia]).
  destruct (slice 0 (v_hdrlen h) b6) as [hb|]; [|discriminate].
  destruct (negb (Z.even (v_hdrlen h))); [discriminate|].
  pose proof (f_equal fst (f_equal (fun o => match o with Ok x => x | _ => (h, []) end) H)) as Eh.
  pose proof (f_equal snd (f_equal (fun o => match o with Ok x => x | _ => (h, []) end) H)) as En.
  cbn [fst snd] in Eh, En. clear H. subst h' nb. cbn [v_length v_blocks].
  set (ck := le_enc 2 ((0 - sum16 hb) mod 65536)).
  assert (Zck : zlen ck = 2) by apply le2.
  split; [reflexivity|]. split; [reflexivity|]. split.
  { rewrite zlen_splice by lia. lia. }
  split.
  - rewrite sub_splice_lo by lia. unfold b6. rewrite sub_splice_lo by (change (zlen [0;0]) with 2; lia).
    unfold b5. rewrite sub_splice_lo by (rewrite ?le4; lia).
    assert (E3 : sub 32 8 b3 = le_enc 8 len).
    { unfold b3. change 8 with (zlen (le_enc 8 len)) at 1. apply sub_splice; rewrite ?le8; lia. }
    unfold b4. destruct (ffs3 && bytes_eqb (v_guid h) FFS2); [|exact E3].
    rewrite sub_splice_hi by (change (zlen FFS3) with 16; lia). exact E3.
  - rewrite sub_splice_hi by lia. unfold b6. rewrite sub_splice_hi by (change (zlen [0;0]) with 2; lia).
    unfold b5. change 4 with (zlen (le_enc 4 cnt)) at 1. apply sub_splice; rewrite ?le4; lia.
Qed.

(* Go's Align for a power-of-two block size is rounding up to whole blocks *)
Lemma land_high_mask x k : 0 <= k < 64 -> 0 <= x < 2 ^ 64 ->
  Z.land x (2 ^ 64 - 2 ^ k) = (x / 2 ^ k) * 2 ^ k.
Proof using Type. clear_sec.
  intros Hk Hx.
  assert (Hm : 2 ^ 64 - 2 ^ k = Z.shiftl (Z.ones (64 - k)) k).
  { rewrite Z.shiftl_mul_pow2 by lia. rewrite Z.ones_equiv. unfold Z.pred.
    rewrite Z.mul_add_distr_r. rewrite <- Z.pow_add_r by lia. replace (64 - k + k) with 64 by lia. lia. }
  rewrite Hm. rewrite <- Z.shiftr_div_pow2, <- Z.shiftl_mul_pow2 by lia.
  apply Z.bits_inj'. intros n Hn.
  rewrite Z.land_spec. rewrite !Z.shiftl_spec by lia.
  destruct (Z_lt_ge_dec n k) as [Hlt|Hge].
  - rewrite (Z.testbit_neg_r _ (n - k)) by lia. rewrite (Z.testbit_neg_r _ (n - k)) by lia. apply andb_false_r.
  - rewrite Z.shiftr_spec by lia. replace (n - k + k) with n by lia.
    destruct (Z_lt_ge_dec n 64) as [H64|H64].
    + rewrite Z.ones_spec_low by lia. apply andb_true_r.
    + rewrite Z.ones_spec_high by lia. rewrite andb_false_r.
      destruct (Z.eq_dec x 0) as [->|Hx0]; [rewrite Z.bits_0; reflexivity|].
      symmetry. apply Z.bits_above_log2; [lia|].
      assert (Z.log2 x < 64) by (apply Z.log2_lt_pow2; lia). lia.
Qed.

Theorem align_go_pow2 v k : 0 <= k < 64 -> 0 <= v -> v + 2 ^ k <= 2 ^ 64 ->
  align_go v (2 ^ k) = align v (2 ^ k) /\
  v <= align v (2 ^ k) < v + 2 ^ k /\ (align v (2 ^ k)) mod 2 ^ k = 0.
Proof using Type. clear_sec.
  intros Hk Hv Hb. assert (Hp : 0 < 2 ^ k) by (apply Z.pow_pos_nonneg; lia).
  assert (Hlt : 2 ^ k < 2 ^ 64) by (apply Z.pow_lt_mono_r; lia).
  split.
  - unfold align_go, align. rewrite (Z.mod_small (v + 2 ^ k - 1)) by lia.
    rewrite (Z.mod_small (2 ^ 64 - 2 ^ k)) by lia. apply land_high_mask; lia.
  - unfold align. set (P := 2 ^ k) in *.
    pose proof (Z.div_mod (v + P - 1) P ltac:(lia)) as D. pose proof (Z.mod_pos_bound (v + P - 1) P Hp) as M.
    split; [nia|]. apply Z.mod_mul. lia.
Qed.


(* ---------- sizes of regenerated sections and files ---------- *)

Lemma sec_sizes h body h' nb : s_gd h = None -> zlen body < SZ -> gen_sec_header h body = (h', nb) ->
  s_ext h' = zlen nb /\ zlen nb = s_hlen h' + zlen body /\
  (s_hlen h' = 4 \/ s_hlen h' = 8) /\ ((16777215 <? s_ext h') = (s_hlen h' =? 8)).
Proof using Type. clear_sec.
  intros Hn Hz Hg. destruct (gen_shape h body Hz) as (chdr & hl & size3 & Hhl & Hlen & Hgen & _ & _ & Hbig).
  rewrite Hg, Hn in Hgen. rewrite Hn in Hbig. cbn [tslen regd tshdr] in Hgen, Hbig.
  pose proof (f_equal fst Hgen) as Eh. pose proof (f_equal snd Hgen) as Eb.
  cbn [fst snd] in Eh, Eb. subst h' nb. cbn [s_ext s_hlen app]. rewrite !zlen_app.
  repeat split; try assumption; lia.
Qed.

Lemma file_sizes h data h' nb : zlen (f_guid h) = 16 -> zlen data < SZ -> file_regen h data = (h', nb) ->
  f_ext h' = zlen nb /\ (zlen nb = 24 + zlen data \/ zlen nb = 32 + zlen data) /\
  ((16777215 <? f_ext h') = attr_large (f_attr h')) /\ sum8 (zskipn (zlen nb - zlen data) nb) = sum8 data.
Proof using Type. clear_sec.
  intros Hg Hz Hr.
  destruct (file_regen_shape h data Hg Hz) as (hdr & ckh & ckf & attr & size3 & hl & Hhl & Hlen & Hreg & Hl & _ & _ & Hbig & _).
  rewrite Hr in Hreg. pose proof (f_equal fst Hreg) as Eh. pose proof (f_equal snd Hreg) as Eb.
  cbn [fst snd] in Eh, Eb. subst h' nb. cbn [f_ext f_attr]. rewrite zlen_app, Hlen.
  repeat split; try lia.
  replace (hl + zlen data - zlen data) with (zlen hdr) by lia. rewrite zskipn_app_exact. reflexivity.
Qed.

(* ---------- the two halves of the property, separately ---------- *)

(* ---------- FV-image sections are transparent ---------- *)

(* the section Assemble writes around a nested volume [vb] parses, in any context, to a section whose
   only child is whatever the volume parser makes of exactly [vb]: the section (and, by stage 2, the
   file) layers around a nested volume add nothing to the open volume-layer question *)
Theorem fvimage_section_transparent rs rf pol h vb h' nb rest i v2 pol' :
  s_type h = 23 -> s_gd h = None -> 0 < zlen vb < SZ -> gen_sec_header h vb = (h', nb) ->
  rf pol vb 0 true = Ok (v2, pol') ->
  sbody rs rf pol (nb ++ rest) i =
    Ok (NSec (sec_default (s_size3 h') 23 (s_ext h') (s_hlen h') i) nb [v2], pol') /\
  s_ext h' = zlen nb /\ zlen nb = s_hlen h' + zlen vb.
Proof using Type. clear_sec.
  intros Ht Hn Hz Hgen Hrf.
  destruct (gen_shape h vb ltac:(unfold SZ in Hz; lia)) as (chdr & hl & size3 & Hhl & Hlen & Hgen' & Hrd & Hhead & _).
  rewrite Hgen, Hn in Hgen'. rewrite Hn in Hhead. cbn [tslen regd tshdr] in Hgen', Hhead.
  pose proof (f_equal fst Hgen') as Eh. pose proof (f_equal snd Hgen') as Eb.
  cbn [fst snd app] in Eh, Eb. subst h' nb. cbn [s_size3 s_ext s_hlen].
  pose proof (zlen_nonneg rest) as Hr.
  assert (Hzb : zlen (chdr ++ vb) = hl + 0 + zlen vb) by (rewrite zlen_app; lia).
  split; [|split; [lia|rewrite zlen_app; lia]].
  rewrite section_body_eq.
  replace (zlen ((chdr ++ vb) ++ rest) <? 4) with false by (rewrite !zlen_app; lia).
  rewrite <- app_assoc. rewrite (Hhead _ ltac:(rewrite Ht; reflexivity)). cbn [bind].
  replace (zlen (chdr ++ vb ++ rest) <? hl + 0 + zlen vb) with false by (rewrite !zlen_app; lia).
  replace (hl + 0 + zlen vb <? hl) with false by lia.
  replace (sub 0 (hl + 0 + zlen vb) (chdr ++ vb ++ rest)) with (chdr ++ vb).
  2:{ rewrite app_assoc. symmetry. apply sub_app_here. exact Hzb. }
  destruct (Hrd (vb ++ rest)) as [R0 R3]. rewrite R0, R3, Ht.
  unfold sec_tail. change (23 =? 2) with false. change (23 =? 21) with false. change (23 =? 20) with false.
  change (23 =? 23) with true. cbv iota.
  replace (zlen (chdr ++ vb) <=? hl) with false by lia.
  replace (zskipn hl (chdr ++ vb)) with vb by (rewrite <- Hlen; symmetry; apply zskipn_app_exact).
  rewrite Hrf. cbn [bind]. reflexivity.
Qed.


(* ========================================================================================== *)
(* stage 3: volumes                                                                            *)
(* ========================================================================================== *)

(* ---------- the file loop over a laid-out file list ---------- *)

Lemma play_flay_len : forall F u, 0 <= u ->
  align8 (u + zlen (play u F)) = align8 u + zlen (flay F).
Proof using Type. clear_sec.
  induction F as [|f r IH]; intros u Hu.
  - cbn [play flay]. change (zlen (@nil Z)) with 0. rewrite !Z.add_0_r. reflexivity.
  - cbn [play]. rewrite zlen_flay_cons. destruct (align8_spec u Hu) as [B M].
    pose proof (zlen_nonneg f) as Hf.
    rewrite !zlen_app, FfsVolLemmas.zlen_zrepeat by lia.
    replace (u + (align8 u - u + (zlen f + zlen (play (align8 u + zlen f) r))))
      with ((align8 u + zlen f) + zlen (play (align8 u + zlen f) r)) by lia.
    rewrite IH by lia. rewrite align8_add by lia. lia.
Qed.

Lemma align8_le a x : 0 <= x -> x <= a -> a mod 8 = 0 -> align8 x <= a.
Proof using Type. clear_sec.
  intros Hx Hle Hm. destruct (align8_spec x Hx) as [B M].
  destruct (Z_le_gt_dec (align8 x) a) as [|Hgt]; [assumption|].
  pose proof (align8_unique x a Hx ltac:(lia) Hm). lia.
Qed.

Lemma files_loop_strip d kids : Forall (reparses_file (pfile (S d)) 255) kids ->
  forall free rest P u n, 0 <= free -> 0 <= u -> u <= zlen P < u + 8 -> (zlen P) mod 8 = 0 ->
  (length kids < n)%nat ->
  exists kids2 fs,
    files_loop (pfile (S d)) n (P ++ flay (map node_buf kids) ++ zrepeat 255 free ++ rest)
               (zlen P + zlen (flay (map node_buf kids)) + free) 255 u = Ok (kids2, 255, fs) /\
    map strip kids2 = map strip kids.
Proof.
  induction 1 as [|k r Hk Hr IH]; intros free rest P u n Hfree Hu HP HM Hn.
  - destruct n as [|n]; [cbn in Hn; lia|]. cbn [map flay app]. change (zlen (@nil Z)) with 0.
    cbn [files_loop].
    rewrite (align8_unique u (zlen P)) by lia.
    destruct (u + 24 <=? zlen P + 0 + free) eqn:E1.
    + destruct (zlen P + 0 + free <? zlen P + 24) eqn:E2.
      * exists [], 0. split; reflexivity.
      * replace (zlen P + 0 + free - zlen P) with free by lia.
        assert (Es : sub (zlen P) free (P ++ zrepeat 255 free ++ rest) = zrepeat 255 free).
        { rewrite (sub_app_skip P _ (zlen P) free (zlen P)) by lia. rewrite Z.sub_diag.
          apply sub_app_here. apply FfsVolLemmas.zlen_zrepeat; lia. }
        rewrite Es. rewrite parse_free by lia. cbn [bind].
        eexists [], _. split; reflexivity.
    + exists [], 0. split; reflexivity.
  - destruct n as [|n]; [cbn in Hn; lia|]. cbn [length] in Hn. cbn [map].
    destruct Hk as (H24 & Hp). set (f := node_buf k) in *. set (F := map node_buf r) in *.
    pose proof (zlen_nonneg f) as Hfn. destruct (align8_spec (zlen f) Hfn) as [Bf Mf].
    pose proof (zlen_nonneg (flay F)) as Hrn.
    rewrite zlen_flay_cons.
    set (len := zlen P + (align8 (zlen f) + zlen (flay F)) + free).
    cbn [files_loop].
    replace (u + 24 <=? len) with true by (unfold len; lia).
    rewrite (align8_unique u (zlen P)) by lia.
    replace (len <? zlen P + 24) with false by (unfold len; lia).
    set (pad := zrepeat 255 (align8 (zlen f) - zlen f)).
    assert (Lpad : zlen pad = align8 (zlen f) - zlen f) by (apply FfsVolLemmas.zlen_zrepeat; lia).
    assert (Es : sub (zlen P) (len - zlen P) (P ++ flay (f :: F) ++ zrepeat 255 free ++ rest)
                 = f ++ (pad ++ flay F ++ zrepeat 255 free)).
    { rewrite (sub_app_skip P _ (zlen P) _ (zlen P)) by lia. rewrite Z.sub_diag.
      cbn [flay]. fold pad.
      replace ((f ++ pad ++ flay F) ++ zrepeat 255 free ++ rest)
        with ((f ++ pad ++ flay F ++ zrepeat 255 free) ++ rest) by (rewrite <- !app_assoc; reflexivity).
      apply sub_app_here. rewrite !zlen_app, Lpad, FfsVolLemmas.zlen_zrepeat by lia. unfold len. lia. }
    rewrite Es.
    destruct (Hp (pad ++ flay F ++ zrepeat 255 free)) as (k2 & Ep & Est & Ee).
    fold f in Ep. rewrite Ep. cbn [bind]. fold f in Ee. rewrite Ee.
    replace (zlen f =? 0) with false by lia.
    destruct (IH free rest (P ++ f ++ pad) (zlen P + zlen f) n) as (kids2 & fs & El & Em); try lia.
    { rewrite !zlen_app, Lpad. lia. }
    { rewrite !zlen_app, Lpad. replace (zlen P + (zlen f + (align8 (zlen f) - zlen f)))
        with (zlen P + align8 (zlen f)) by lia.
      rewrite Z.add_mod by lia. rewrite HM, Mf. reflexivity. }
    replace ((P ++ f ++ pad) ++ flay F ++ zrepeat 255 free ++ rest)
      with (P ++ flay (f :: F) ++ zrepeat 255 free ++ rest) in El
      by (cbn [flay]; fold pad; rewrite <- !app_assoc; reflexivity).
    replace (zlen (P ++ f ++ pad) + zlen (flay F) + free) with len in El
      by (rewrite !zlen_app, Lpad; unfold len; lia).
    rewrite El. cbn [bind].
    exists (k2 :: kids2), fs. split; [reflexivity|]. cbn [map]. rewrite Est, Em. reflexivity.
Qed.


(* ---------- parsing a volume in the reference layout ---------- *)

(* the region between the header and the first file: nothing (eo = 0), or an extended header right
   after the header followed by the bytes up to the next 8-byte boundary (as ext_ok of C01) *)
Definition xh_ok (hl eo : Z) (ext : bytes) : Prop :=
  (eo = 0 /\ ext = []) \/
  (eo = hl /\ exists name edata gap, ext = ext_bytes name edata gap /\ zlen name = 16 /\
     20 + zlen edata < 2 ^ 32 /\ zlen gap < 8 /\ (hl + zlen ext) mod 8 = 0).

Definition xname (eo : Z) (ext : bytes) : bytes := if eo =? 0 then [] else sub 0 16 ext.
Definition xsize (eo : Z) (ext : bytes) : Z := if eo =? 0 then 0 else rd 16 4 ext.

Definition SIG : Z := 1213613663.   (* "_FVH" *)

(* the header record the parser builds for a reference-layout volume *)
Definition ref_hdr (zero g : bytes) (len attrs ck eo reserved rev count bsize : Z) (more : list (Z * Z))
           (ext : bytes) (off : Z) (rz : bool) (fs : Z) : volhdr :=
  mkVol zero g len SIG attrs (fv_hlen more) ck eo reserved rev ((count, bsize) :: more)
        (xname eo ext) (xsize eo ext) (fv_hlen more + zlen ext) off rz fs.

Record vparams := mkVP {
  vp_zero : bytes; vp_attrs : Z; vp_reserved : Z; vp_rev : Z; vp_bsize : Z; vp_more : list (Z * Z);
  vp_eo : Z; vp_ext : bytes }.

Definition vp_ok (p : vparams) : Prop :=
  zlen (vp_zero p) = 16 /\ 0 <= vp_attrs p < 2 ^ 32 /\ Z.land (vp_attrs p) 2048 <> 0 /\
  0 < vp_bsize p < 2 ^ 32 /\ forallb block_ok (vp_more p) = true /\ fv_hlen (vp_more p) < 65536 /\
  xh_ok (fv_hlen (vp_more p)) (vp_eo p) (vp_ext p).

Definition vp_bytes (p : vparams) (g : bytes) (count : Z) (F : list bytes) (free : Z) : bytes :=
  vol_bytes_x (vp_zero p) g (vp_attrs p) (vp_reserved p) (vp_rev p) count (vp_bsize p) (vp_more p)
              (vp_eo p) (vp_ext p) F free.

Definition vp_hdr (p : vparams) (g : bytes) (len ck count off : Z) (rz : bool) (fs : Z) : volhdr :=
  ref_hdr (vp_zero p) g len (vp_attrs p) ck (vp_eo p) (vp_reserved p) (vp_rev p) count (vp_bsize p)
          (vp_more p) (vp_ext p) off rz fs.

Definition vp_D (p : vparams) : Z := fv_hlen (vp_more p) + zlen (vp_ext p).

Lemma vp_D_mod8 p : vp_ok p -> vp_D p mod 8 = 0 /\ 72 <= vp_D p /\ 0 <= vp_eo p < 65536.
Proof using Type. clear_sec.
  intros (_ & _ & _ & _ & _ & Hhl & Hx). unfold vp_D.
  pose proof (fv_hlen_ge (vp_more p)). pose proof (fv_hlen_mod8 (vp_more p)). pose proof (zlen_nonneg (vp_ext p)).
  destruct Hx as [(-> & ->)|(-> & name & edata & gap & _ & _ & _ & _ & M)].
  - change (zlen (@nil Z)) with 0. rewrite Z.add_0_r. lia.
  - lia.
Qed.

Lemma parse_fv_ref d pol p g count kids free rest off rz :
  vp_ok p -> (g = FFS2 \/ g = FFS3) -> 0 <= count < 2 ^ 32 -> 0 <= free ->
  (pol = 240 \/ pol = 255) ->
  Forall (reparses_file (pfile (S d)) 255) kids ->
  let F := map node_buf kids in
  let vb := vp_bytes p g count F free in
  zlen vb < 2 ^ 64 ->
  exists kids2 fs ck,
    pfv (S (S d)) pol (vb ++ rest) off rz = Ok (NVol (vp_hdr p g (zlen vb) ck count off rz fs) vb kids2, 255) /\
    map strip kids2 = map strip kids /\
    zlen vb = vp_D p + zlen (flay F) + free.
Proof.
  intros Hp Hg Hc Hfree Hpol0 Hkids F vb Hlen.
  pose proof (vp_D_mod8 p Hp) as (HD8 & HD72 & Heo).
  destruct Hp as (Lz & Hat & Hpolb & Hs & Hmore & Hhl & Hext).
  destruct p as [zero attrs reserved rev bsize more eo ext].
  cbn [vp_zero vp_attrs vp_reserved vp_rev vp_bsize vp_more vp_eo vp_ext] in *.
  unfold vp_D in *. cbn [vp_more vp_ext] in *.
  pose proof (zlen_nonneg ext) as Hextn.
  pose proof (fv_hlen_ge more) as Hhg. pose proof (fv_hlen_mod8 more) as Hh8.
  set (HL := fv_hlen more) in *. set (D := HL + zlen ext) in *.
  assert (AD : align8 D = D) by (apply align8_unique; lia).
  assert (Lg : zlen g = 16) by (destruct Hg as [-> | ->]; reflexivity).
  assert (Sg : supported_fv g = true) by (destruct Hg as [-> | ->]; reflexivity).
  pose proof (zlen_nonneg (flay F)) as Hfl.
  unfold vp_hdr, ref_hdr, vp_bytes in *. cbn [vp_zero vp_attrs vp_reserved vp_rev vp_bsize vp_more vp_eo vp_ext] in *.
  unfold vol_bytes_x in vb. fold HL in vb.
  set (len := HL + zlen ext + zlen (flay F) + free) in *.
  set (ck := fv_cksum zero g len attrs eo reserved rev count bsize more) in *.
  assert (Hck : 0 <= ck < 65536) by (apply Z.mod_pos_bound; lia).
  set (hdr := fv_header zero g len attrs ck eo reserved rev count bsize more) in *.
  set (tail := ext ++ flay F ++ zrepeat 255 free).
  assert (Lh : zlen hdr = HL) by (apply zlen_fv_header; auto).
  assert (Lt : zlen tail = zlen ext + zlen (flay F) + free)
    by (unfold tail; rewrite !zlen_app, FfsVolLemmas.zlen_zrepeat by lia; lia).
  assert (Evb : vb = hdr ++ tail) by reflexivity.
  assert (Lv : zlen vb = len) by (rewrite Evb, zlen_app, Lh, Lt; unfold len; lia).
  assert (Hf24 : Forall (fun f => 24 <= zlen f) F).
  { unfold F. clear - Hkids. induction Hkids as [|k r [H _] _ IH]; constructor; assumption. }
  rewrite Lv in Hlen |- *.
  destruct (fv_header_fields zero g len attrs ck eo reserved rev count bsize more (tail ++ rest) Lz Lg
              ltac:(lia) Hat Hck Heo Hhl) as (F0 & F16 & F32 & F40 & F44 & F48 & F50 & F52 & F54 & F55 & F56).
  fold hdr in F0, F16, F32, F40, F44, F48, F50, F52, F54, F55, F56.
  rewrite app_assoc in F0, F16, F32, F40, F44, F48, F50, F52, F54, F55, F56.
  rewrite <- Evb in F0, F16, F32, F40, F44, F48, F50, F52, F54, F55, F56.
  set (data := vb ++ rest) in *.
  pose proof (zlen_nonneg rest) as Hrest.
  assert (Ld : zlen data = len + zlen rest) by (unfold data; rewrite zlen_app, Lv; reflexivity).
  assert (Epol : fv_polarity attrs = 255).
  { unfold fv_polarity. destruct (Z.land attrs 2048 =? 0) eqn:E; [lia|reflexivity]. }
  assert (Esp : set_polarity pol 255 = Some 255) by (destruct Hpol0 as [-> | ->]; reflexivity).
  change (pfv (S (S d)) pol data off rz) with (fv_body (pfile (S d)) pol data off rz).
  unfold fv_body. rewrite Ld.
  replace (len + zlen rest <? 64) with false by lia.
  rewrite F0, F16, F32, F40, F44, F48, F50, F52, F54, F55, F56.
  rewrite parse_blocks_one by (auto; unfold HL, fv_hlen in *; lia). cbn [bind].
  rewrite Epol, Esp.
  replace (len + zlen rest <? len) with false by lia.
  replace (len <? 64) with false by lia.
  cbv zeta. fold HL.
  set (hb := negb (eo =? 0) && (20 <=? len) && (eo <? len - 20)).
  assert (Ext : (if hb then sub eo 16 data else []) = xname eo ext /\
                (if hb then rd (eo + 16) 4 data else 0) = xsize eo ext /\
                align8 (if hb then eo + (if hb then rd (eo + 16) 4 data else 0) else HL) = D).
  { destruct Hext as [(-> & ->)|(-> & name & edata & gap & Ee & Ln & Hes & Hg8 & M)].
    - unfold hb. change (negb (0 =? 0)) with false. cbn [andb]. cbv iota. unfold xname, xsize.
      change (0 =? 0) with true. cbv iota. repeat split. unfold D. change (zlen (@nil Z)) with 0.
      rewrite Z.add_0_r. apply align8_unique; lia.
    - assert (Le : zlen ext = 16 + 4 + zlen edata + zlen gap).
      { rewrite Ee. unfold ext_bytes. rewrite !zlen_app, Ln, le4'. lia. }
      pose proof (zlen_nonneg edata). pose proof (zlen_nonneg gap).
      assert (Hx8 : zlen ext mod 8 = 0).
      { pose proof M as M'. rewrite Z.add_mod in M' by lia. rewrite Hh8 in M'. rewrite Z.add_0_l, Z.mod_mod in M' by lia. exact M'. }
      assert (Hx24 : 24 <= zlen ext).
      { pose proof (Z.div_mod (zlen ext) 8 ltac:(lia)) as Dm. rewrite Hx8 in Dm. lia. }
      replace hb with true by (unfold hb, len; lia).
      unfold xname, xsize. replace (HL =? 0) with false by lia.
      assert (Hd : data = hdr ++ ext ++ (flay F ++ zrepeat 255 free) ++ rest).
      { unfold data. rewrite Evb. unfold tail. rewrite <- !app_assoc. reflexivity. }
      assert (Esn : sub HL 16 data = sub 0 16 ext).
      { rewrite Hd. rewrite (sub_app_skip hdr _ HL 16 HL) by (auto; lia). rewrite Z.sub_diag.
        apply sub_app_l; lia. }
      assert (Esz0 : rd (HL + 16) 4 data = rd 16 4 ext).
      { rewrite Hd. rewrite (rd_app_skip hdr _ (HL + 16) 4 HL) by (auto; lia).
        replace (HL + 16 - HL) with 16 by lia. apply rd_app_l; simpl; lia. }
      assert (Esz : rd 16 4 ext = 20 + zlen edata).
      { rewrite Ee. unfold ext_bytes.
        rewrite (rd_app_skip name _ 16 4 16) by (auto; lia). change (16 - 16) with 0.
        rewrite rd_app_here by apply le4'. apply le_dec_enc. change (256 ^ Z.of_nat 4) with (2 ^ 32). lia. }
      rewrite Esn, Esz0. repeat split. rewrite Esz. apply align8_unique; unfold D; lia. }
  destruct Ext as (E1 & E2 & E3). rewrite E1, E3.
  match goal with |- context [mkVol _ _ _ _ _ _ _ _ _ _ _ _ ?es _ _ _ _] =>
    replace es with (xsize eo ext) by (symmetry; exact E2) end.
  assert (Esub : sub 0 len data = vb) by (unfold data; apply sub_app_here; exact Lv).
  rewrite Esub. rewrite Sg. cbn [negb]. cbv iota.
  assert (LP : zlen (hdr ++ ext) = D) by (rewrite zlen_app, Lh; reflexivity).
  assert (G1 : D <= zlen (hdr ++ ext) < D + 8) by lia.
  assert (G2 : zlen (hdr ++ ext) mod 8 = 0) by (rewrite LP; exact HD8).
  assert (G3 : (length kids < Z.to_nat (len + zlen rest) + 1)%nat).
  { pose proof (zlen_flay_ge F Hf24) as HG. unfold F in HG. rewrite map_length in HG. fold F in HG.
    unfold len. unfold bytes in *. lia. }
  destruct (files_loop_strip d kids Hkids free rest (hdr ++ ext) D
              (Z.to_nat (len + zlen rest) + 1)%nat Hfree ltac:(lia) G1 G2 G3)
    as (kids2 & fs & El & Em).
  fold F in El. rewrite LP in El.
  replace ((hdr ++ ext) ++ flay F ++ zrepeat 255 free ++ rest) with data in El
    by (unfold data; rewrite Evb; unfold tail; rewrite <- !app_assoc; reflexivity).
  replace (D + zlen (flay F) + free) with len in El by (unfold len, D; lia).
  rewrite El. cbn [bind].
  exists kids2, fs, ck. split; [reflexivity|]. split; [exact Em|]. unfold len, D. lia.
Qed.


(* ---------- the header fix-ups of Assemble on a reference header ---------- *)

Lemma hdr_splice_len zero g l l' attrs ck eo reserved rev count bsize more T :
  zlen zero = 16 -> zlen g = 16 ->
  splice 32 (le_enc 8 l') (fv_header zero g l attrs ck eo reserved rev count bsize more ++ T) =
  fv_header zero g l' attrs ck eo reserved rev count bsize more ++ T.
Proof using Type. clear_sec.
  intros Lz Lg. unfold fv_header. rewrite <- !app_assoc.
  rewrite (app_assoc zero g). replace 32 with (zlen (zero ++ g)) by (rewrite zlen_app; lia).
  rewrite (splice_mid (zero ++ g) (le_enc 8 l') (le_enc 8 l)) by (rewrite !le8'; reflexivity).
  rewrite <- !app_assoc. reflexivity.
Qed.

Lemma hdr_splice_guid zero g g' l attrs ck eo reserved rev count bsize more T :
  zlen zero = 16 -> zlen g = 16 -> zlen g' = 16 ->
  splice 16 g' (fv_header zero g l attrs ck eo reserved rev count bsize more ++ T) =
  fv_header zero g' l attrs ck eo reserved rev count bsize more ++ T.
Proof using Type. clear_sec.
  intros Lz Lg Lg'. unfold fv_header. rewrite <- !app_assoc. rewrite <- Lz.
  apply splice_mid. lia.
Qed.

Lemma hdr_splice_count zero g l attrs ck eo reserved rev count count' bsize more T :
  zlen zero = 16 -> zlen g = 16 ->
  splice 56 (le_enc 4 count') (fv_header zero g l attrs ck eo reserved rev count bsize more ++ T) =
  fv_header zero g l attrs ck eo reserved rev count' bsize more ++ T.
Proof using Type. clear_sec.
  intros Lz Lg. unfold fv_header. rewrite <- !app_assoc.
  set (A := zero ++ g ++ le_enc 8 l ++ [95; 70; 86; 72] ++ le_enc 4 attrs ++ le_enc 2 (fv_hlen more) ++
            le_enc 2 ck ++ le_enc 2 eo ++ [reserved; rev]).
  assert (LA : zlen A = 56).
  { unfold A. rewrite !zlen_app, Lz, Lg, le8', le4', !le2'. reflexivity. }
  replace (zero ++ g ++ le_enc 8 l ++ [95; 70; 86; 72] ++ le_enc 4 attrs ++ le_enc 2 (fv_hlen more) ++
           le_enc 2 ck ++ le_enc 2 eo ++ [reserved; rev] ++ le_enc 4 count ++
           le_enc 4 bsize ++ blocks_bytes more ++ zrepeat 0 8 ++ T)
    with (A ++ le_enc 4 count ++ le_enc 4 bsize ++ blocks_bytes more ++ zrepeat 0 8 ++ T)
    by (unfold A; rewrite <- !app_assoc; reflexivity).
  rewrite <- LA. rewrite splice_mid by (rewrite !le4'; reflexivity).
  unfold A. rewrite <- !app_assoc. reflexivity.
Qed.

Lemma hdr_splice_ck zero g l attrs ck ck' eo reserved rev count bsize more T :
  zlen zero = 16 -> zlen g = 16 ->
  splice 50 (le_enc 2 ck') (fv_header zero g l attrs ck eo reserved rev count bsize more ++ T) =
  fv_header zero g l attrs ck' eo reserved rev count bsize more ++ T.
Proof using Type. clear_sec.
  intros Lz Lg. unfold fv_header. rewrite <- !app_assoc.
  set (A := zero ++ g ++ le_enc 8 l ++ [95; 70; 86; 72] ++ le_enc 4 attrs ++ le_enc 2 (fv_hlen more)).
  assert (LA : zlen A = 50).
  { unfold A. rewrite !zlen_app, Lz, Lg, le8', le4', !le2'. reflexivity. }
  replace (zero ++ g ++ le_enc 8 l ++ [95; 70; 86; 72] ++ le_enc 4 attrs ++ le_enc 2 (fv_hlen more) ++
           le_enc 2 ck ++ le_enc 2 eo ++ [reserved; rev] ++ le_enc 4 count ++
           le_enc 4 bsize ++ blocks_bytes more ++ zrepeat 0 8 ++ T)
    with (A ++ le_enc 2 ck ++ le_enc 2 eo ++ [reserved; rev] ++ le_enc 4 count ++
           le_enc 4 bsize ++ blocks_bytes more ++ zrepeat 0 8 ++ T)
    by (unfold A; rewrite <- !app_assoc; reflexivity).
  rewrite <- LA. rewrite splice_mid by (rewrite !le2'; reflexivity).
  unfold A. rewrite <- !app_assoc. reflexivity.
Qed.

(* Assemble of a volume after the files have been placed in the reference layout: the bytes are the
   reference layout again, with the new length, block count, file-system GUID and checksum *)
Lemma vol_finish_ref ffs3 p g len0 ckr ck0 count0 off rz fs F len' count' :
  vp_ok p -> zlen g = 16 ->
  let D := vp_D p in
  let b1 := (fv_header (vp_zero p) g len0 (vp_attrs p) ck0 (vp_eo p) (vp_reserved p) (vp_rev p) count0
                       (vp_bsize p) (vp_more p) ++ vp_ext p) ++ play D F in
  zlen b1 <= len' -> len' mod 8 = 0 ->
  let g' := if ffs3 && bytes_eqb g FFS2 then FFS3 else g in
  let free' := len' - D - zlen (flay F) in
  0 <= free' /\
  vol_finish 255 ffs3 (vp_hdr p g len0 ckr count0 off rz fs) b1 len' ((count', vp_bsize p) :: vp_more p) =
    Ok (vp_hdr p g' len' ckr count' off rz (free' mod U64),
        vp_bytes p g' count' F free').
Proof using Type. clear_sec.
  intros Hp Lg D b1 Hle Hm8 g' free'.
  pose proof (vp_D_mod8 p Hp) as (HD8 & HD72 & Heo).
  destruct Hp as (Lz & Hat & Hpolb & Hs & Hmore & Hhl & Hext).
  destruct p as [zero attrs reserved rev bsize more eo ext].
  unfold vp_D, vp_hdr, vp_bytes, ref_hdr in *.
  cbn [vp_zero vp_attrs vp_reserved vp_rev vp_bsize vp_more vp_eo vp_ext] in *.
  pose proof (fv_hlen_ge more) as Hhg. pose proof (fv_hlen_even more) as Hev.
  set (HL := fv_hlen more) in *.
  set (hdr0 := fv_header zero g len0 attrs ck0 eo reserved rev count0 bsize more) in *.
  assert (Lh0 : zlen hdr0 = HL) by (apply zlen_fv_header; auto).
  assert (LP : zlen (hdr0 ++ ext) = D) by (rewrite zlen_app, Lh0; reflexivity).
  assert (AD : align8 D = D) by (apply align8_unique; lia).
  pose proof (zlen_nonneg (play D F)) as Hpl. pose proof (zlen_nonneg (flay F)) as Hfl.
  assert (Lb1 : zlen b1 = D + zlen (play D F)) by (unfold b1; rewrite zlen_app, LP; reflexivity).
  pose proof (play_flay_len F D ltac:(lia)) as PL. rewrite AD in PL.
  assert (Hal : align8 (zlen b1) = D + zlen (flay F)) by (rewrite Lb1; exact PL).
  assert (Hfree : 0 <= free').
  { pose proof (align8_le len' (zlen b1) ltac:(lia) Hle Hm8). unfold free'. lia. }
  split; [exact Hfree|].
  assert (Lg' : zlen g' = 16) by (unfold g'; destruct (ffs3 && bytes_eqb g FFS2); [reflexivity|exact Lg]).
  set (tail := ext ++ flay F ++ zrepeat 255 free').
  assert (Eb2 : (if zlen b1 <? len' then b1 ++ zrepeat 255 (len' - zlen b1) else b1) = hdr0 ++ tail).
  { pose proof (play_flay F (hdr0 ++ ext) free' Hfree) as PF. rewrite LP in PF.
    rewrite AD, Z.sub_diag in PF. change (zrepeat 255 0) with (@nil Z) in PF. cbn [app] in PF.
    fold b1 in PF.
    replace (D + zlen (flay F) + free' - zlen b1) with (len' - zlen b1) in PF by (unfold free'; lia).
    replace ((hdr0 ++ ext) ++ flay F ++ zrepeat 255 free') with (hdr0 ++ tail) in PF
      by (unfold tail; rewrite <- !app_assoc; reflexivity).
    rewrite PF. destruct (zlen b1 <? len') eqn:E; [reflexivity|].
    replace (len' - zlen b1) with 0 by lia. change (zrepeat 255 0) with (@nil Z). rewrite app_nil_r. reflexivity. }
  assert (Lt : zlen tail = zlen ext + zlen (flay F) + free')
    by (unfold tail; rewrite !zlen_app, FfsVolLemmas.zlen_zrepeat by lia; lia).
  assert (Lv : zlen (hdr0 ++ tail) = len') by (rewrite zlen_app, Lh0, Lt; unfold free', D; lia).
  pose proof (zlen_nonneg tail) as Htl. pose proof (zlen_nonneg ext) as Hxn.
  unfold vol_finish. cbv zeta. rewrite Eb2. rewrite Lv.
  cbn [v_guid v_hdrlen v_zero v_sig v_attrs v_cksum v_exthdroff v_reserved v_rev v_extname v_extsize
       v_dataoff v_fvoffset v_resizable].
  replace (len' <? 40) with false by lia.
  unfold hdr0. rewrite hdr_splice_len by assumption.
  set (hdr1 := fv_header zero g len' attrs ck0 eo reserved rev count0 bsize more).
  assert (E4 : (if ffs3 && bytes_eqb g FFS2 then splice 16 FFS3 (hdr1 ++ tail) else hdr1 ++ tail) =
               fv_header zero g' len' attrs ck0 eo reserved rev count0 bsize more ++ tail).
  { unfold g'. destruct (ffs3 && bytes_eqb g FFS2); [|reflexivity].
    unfold hdr1. apply hdr_splice_guid; auto. }
  rewrite E4. fold g'.
  assert (Lh2 : forall l c k, zlen (fv_header zero g' l attrs c eo reserved rev k bsize more) = HL)
    by (intros; apply zlen_fv_header; auto).
  rewrite zlen_app, Lh2, Lt.
  replace (HL + (zlen ext + zlen (flay F) + free') <? 60) with false by lia.
  rewrite hdr_splice_count by assumption.
  change [0; 0] with (le_enc 2 0). rewrite hdr_splice_ck by assumption.
  set (hdrz := fv_header zero g' len' attrs 0 eo reserved rev count' bsize more).
  rewrite slice_ok by (rewrite ?zlen_app; unfold hdrz; rewrite ?Lh2; lia).
  rewrite Z.sub_0_r.
  replace (sub 0 HL (hdrz ++ tail)) with hdrz by (symmetry; apply sub_app_here; apply Lh2).
  rewrite Hev. cbn [negb]. cbv iota.
  unfold hdrz. rewrite hdr_splice_ck by assumption.
  rewrite Hal. replace (len' - (D + zlen (flay F))) with free' by (unfold free'; lia).
  f_equal. f_equal.
  unfold vol_bytes_x. fold HL.
  replace (HL + zlen ext + zlen (flay F) + free') with len' by (unfold free', D; lia).
  unfold fv_cksum. unfold tail. reflexivity.
Qed.


Lemma mod_pow2_8 x k : 3 <= k -> x mod 2 ^ k = 0 -> x mod 8 = 0.
Proof using Type. clear_sec.
  intros Hk Hm. assert (Hp : 0 < 2 ^ k) by (apply Z.pow_pos_nonneg; lia).
  pose proof (Z.div_mod x (2 ^ k) ltac:(lia)) as Dm. rewrite Hm in Dm.
  replace (2 ^ k) with (8 * 2 ^ (k - 3)) in Dm
    by (change 8 with (2 ^ 3); rewrite <- Z.pow_add_r by lia; f_equal; lia).
  rewrite Dm. rewrite Z.add_0_r. rewrite <- Z.mul_assoc. rewrite Z.mul_comm. apply Z.mod_mul. lia.
Qed.

Lemma resize_single newlen k : 0 <= k < 64 -> 0 < newlen -> newlen + 2 ^ k <= 2 ^ 64 ->
  resize_len newlen (2 ^ k) [] = (align_go newlen (2 ^ k), (align_go newlen (2 ^ k) / 2 ^ k) mod U32).
Proof using Type. clear_sec.
  intros Hk Hn Hb. destruct (align_go_pow2 newlen k Hk ltac:(lia) Hb) as (Eal & Bal & _).
  unfold resize_len. cbn [fold_left]. replace (0 <? newlen) with true by lia.
  rewrite Z.sub_0_r, Z.add_0_l.
  assert (Hr : align_go newlen (2 ^ k) mod U64 = align_go newlen (2 ^ k)).
  { apply Z.mod_small. rewrite Eal. unfold U64. lia. }
  rewrite Hr, Z.sub_0_r, Hr. reflexivity.
Qed.

(* Assemble of a reference-layout volume whose files have been re-assembled: the new volume is in the
   reference layout again; it keeps its length when the files fit, and a nested volume grows to whole
   blocks when they do not *)
Lemma asm_vol_ref ffs3 p g len0 ckr ck0 count0 off rz fs buf kids :
  vp_ok p -> (g = FFS2 \/ g = FFS3) -> kids <> [] -> 0 <= count0 < 2 ^ 32 ->
  let D := vp_D p in
  let F := map node_buf kids in
  sub 0 D buf = fv_header (vp_zero p) g len0 (vp_attrs p) ck0 (vp_eo p) (vp_reserved p) (vp_rev p) count0
                          (vp_bsize p) (vp_more p) ++ vp_ext p ->
  D <= zlen buf <= len0 ->
  Forall (fun k => 0 < zlen (node_buf k)) kids -> files_aligned D F = true ->
  map node_attr kids = map (rd 19 1) F ->
  let newlen := D + zlen (play D F) in
  (newlen <= len0 /\ len0 mod 8 = 0 \/
   rz = true /\ len0 < newlen /\ vp_more p = [] /\
   exists k, 3 <= k < 64 /\ vp_bsize p = 2 ^ k /\ newlen + 2 ^ k <= 2 ^ 64) ->
  let g' := if ffs3 && bytes_eqb g FFS2 then FFS3 else g in
  exists len' count' free',
    asm_vol 255 ffs3 (vp_hdr p g len0 ckr count0 off rz fs) buf kids =
      Ok (vp_hdr p g' len' ckr count' off rz (free' mod U64), vp_bytes p g' count' F free') /\
    (newlen <= len0 -> len' = len0 /\ count' = count0) /\
    0 <= free' /\ 0 <= count' < 2 ^ 32 /\ len' = D + zlen (flay F) + free' /\ len0 <= len' /\ len' mod 8 = 0 /\
    (len' = len0 \/ (rz = true /\ len' = align newlen (vp_bsize p) /\ count' = (len' / vp_bsize p) mod U32)).
Proof using Type. clear_sec.
  intros Hp Hg Hne Hc0 D F Hsub Hbuf Hpos Hal Hattr newlen Hcase g'.
  pose proof (vp_D_mod8 p Hp) as (HD8 & HD72 & Heo). fold D in HD8, HD72.
  assert (Lg : zlen g = 16) by (destruct Hg as [-> | ->]; reflexivity).
  assert (Sg : supported_fv g = true) by (destruct Hg as [-> | ->]; reflexivity).
  assert (AD : align8 D = D) by (apply align8_unique; lia).
  set (hdr0 := fv_header (vp_zero p) g len0 (vp_attrs p) ck0 (vp_eo p) (vp_reserved p) (vp_rev p) count0
                         (vp_bsize p) (vp_more p)) in *.
  assert (LP : zlen (hdr0 ++ vp_ext p) = D).
  { unfold hdr0. rewrite zlen_app, zlen_fv_header by (try apply Hp; assumption). reflexivity. }
  rewrite asm_vol_eq. set (h := vp_hdr p g len0 ckr count0 off rz fs).
  change (v_guid h) with g. change (v_length h) with len0.
  change (v_blocks h) with ((count0, vp_bsize p) :: vp_more p). change (v_dataoff h) with D.
  change (v_hdrlen h) with (fv_hlen (vp_more p)). change (v_resizable h) with rz. rewrite Sg.
  destruct kids as [|k0 kr]; [congruence|]. cbn [andb]. set (kids := k0 :: kr) in *.
  replace (len0 <? zlen buf) with false by lia.
  replace (D <? fv_hlen (vp_more p)) with false by (unfold D, vp_D; pose proof (zlen_nonneg (vp_ext p)); lia).
  replace (zlen buf <? D) with false by lia.
  rewrite slice_ok by lia. rewrite Z.sub_0_r. cbn [of_opt bind]. rewrite Hsub.
  assert (PP : place_files 255 (if rz then None else Some len0) (hdr0 ++ vp_ext p) (zlen (hdr0 ++ vp_ext p)) kids =
               Ok ((hdr0 ++ vp_ext p) ++ play (zlen (hdr0 ++ vp_ext p)) (map node_buf kids))).
  { apply place_files_play; auto.
    - rewrite LP, AD. exact Hal.
    - rewrite LP. destruct rz; [exact I|]. fold F. fold newlen.
      destruct Hcase as [[H1 _]|[H1 _]]; [exact H1|discriminate]. }
  rewrite LP in PP. fold F in PP. rewrite PP. cbn [bind].
  set (b1 := (hdr0 ++ vp_ext p) ++ play D F).
  assert (Lb1 : zlen b1 = newlen) by (unfold b1, newlen; rewrite zlen_app, LP; reflexivity).
  pose proof (zlen_nonneg (play D F)) as Hpl.
  destruct Hcase as [[Hfit Hm8]|(Hrz & Hgrow & Hmr & k & Hk & Hbs & Hbound)].
  - (* the files fit *)
    replace ((len0 <? zlen b1) && negb rz) with false by lia.
    replace (len0 <? zlen b1) with false by lia. cbn [bind].
    destruct (vol_finish_ref ffs3 p g len0 ckr ck0 count0 off rz fs F len0 count0 Hp Lg ltac:(fold D; fold hdr0; fold b1; lia) Hm8)
      as (Hfree & Hfin).
    fold D in Hfin, Hfree. fold hdr0 in Hfin. fold b1 in Hfin. fold g' in Hfin.
    fold h in Hfin. rewrite Hfin.
    eexists len0, count0, _. split; [reflexivity|]. repeat split; try lia.
  - (* a nested volume grows *)
    subst rz. replace ((len0 <? zlen b1) && negb true) with false by (rewrite andb_false_r; reflexivity).
    replace (len0 <? zlen b1) with true by lia.
    assert (Hbp : 0 < vp_bsize p) by (rewrite Hbs; apply Z.pow_pos_nonneg; lia).
    replace (vp_bsize p =? 0) with false by lia. cbn [bind].
    assert (Ers : resize_len (zlen b1) (vp_bsize p) (vp_more p) =
                  (align_go (zlen b1) (vp_bsize p), (align_go (zlen b1) (vp_bsize p) / vp_bsize p) mod U32)).
    { rewrite Hmr, Hbs. apply resize_single; lia. }
    rewrite Ers. cbn [fst snd].
    destruct (align_go_pow2 (zlen b1) k ltac:(lia) ltac:(lia) ltac:(lia)) as (Eal & Bal & Mal).
    rewrite <- Hbs in Eal, Bal, Mal.
    set (len' := align_go (zlen b1) (vp_bsize p)) in *.
    assert (Hm8 : len' mod 8 = 0).
    { rewrite Eal. apply (mod_pow2_8 _ k); [lia|]. rewrite <- Hbs. exact Mal. }
    destruct (vol_finish_ref ffs3 p g len0 ckr ck0 count0 off true fs F len' ((len' / vp_bsize p) mod U32) Hp Lg
                ltac:(fold D; fold hdr0; fold b1; rewrite Eal; lia) Hm8) as (Hfree & Hfin).
    fold D in Hfin, Hfree. fold hdr0 in Hfin. fold b1 in Hfin. fold g' in Hfin.
    fold h in Hfin. rewrite Hfin.
    eexists len', _, _. split; [reflexivity|].
    assert (0 <= (len' / vp_bsize p) mod U32 < 2 ^ 32) by (apply Z.mod_pos_bound; reflexivity).
    repeat split; try lia.
    right. repeat split. rewrite Eal, Lb1. reflexivity.
Qed.


Lemma zlen_vp_bytes p g count F free : vp_ok p -> (g = FFS2 \/ g = FFS3) -> 0 <= free ->
  zlen (vp_bytes p g count F free) = vp_D p + zlen (flay F) + free.
Proof using Type. clear_sec.
  intros Hp Hg Hf. unfold vp_bytes, vol_bytes_x, vp_D.
  rewrite !zlen_app, FfsVolLemmas.zlen_zrepeat by lia.
  rewrite zlen_fv_header by (try apply Hp; destruct Hg as [-> | ->]; reflexivity). lia.
Qed.

(* ========================================================================================== *)
(* canonical trees with volumes; the three stages together                                     *)
(* ========================================================================================== *)

Definition is_vol (n : node) : Prop := match n with NVol _ _ _ => True | _ => False end.

(* a nested volume as the parser builds it: offset 0, resizable *)
Definition nested_hdr (v : node) : Prop :=
  match v with NVol h _ _ => v_fvoffset h = 0 /\ v_resizable h = true | _ => False end.

(* every buffer below 16 MiB: no file or section needs the extended header forms, the FFS3 flag is
   never raised *)
Definition SZ16 : Z := 16777215.

Fixpoint small16 (n : node) : Prop :=
  let all := fix all (l : list node) : Prop :=
               match l with [] => True | x :: r => small16 x /\ all r end in
  match n with
  | NSec _ b k => zlen b < SZ16 /\ all k
  | NFile _ b k => zlen b < SZ16 /\ all k
  | NVol _ b k => zlen b < SZ16 /\ all k
  | NPad _ b => zlen b < SZ16
  end.

Lemma small16_all l :
  (fix all (l : list node) : Prop := match l with [] => True | x :: r => small16 x /\ all r end) l <->
  Forall small16 l.
Proof using Type. clear_sec.
  induction l as [|x r IH].
  - split; intros; [constructor|exact I].
  - split.
    + intros [Hx Hr]. constructor; [assumption|apply IH; assumption].
    + intros H. inversion H; subst. split; [assumption|apply IH; assumption].
Qed.

Lemma small16_inv n : small16 n ->
  zlen (node_buf n) < SZ16 /\
  Forall small16 (match n with NSec _ _ k | NFile _ _ k | NVol _ _ k => k | NPad _ _ => [] end).
Proof using Type. clear_sec.
  destruct n; cbn [small16 node_buf]; intros H; try (destruct H as [H1 H2]; split; [exact H1|apply small16_all; exact H2]).
  split; [exact H|constructor].
Qed.

(* [canon pol n]: n is in the form Assemble writes.
   Sections: leaves that are stable; compressed sections whose buffer is GenSecHeader applied to the
   encoding of the children; FV-image sections around a canonical nested volume.
   Files: the regenerated header followed by the joined sections, or section-less files.
   Volumes (erase polarity 0xFF): the reference layout of Model/FfsSpec.v around canonical files. *)
Inductive canon (pol : Z) : node -> Prop :=
| canon_leaf h buf :
    leaf_ok pol h buf -> leaf_stable h buf -> canon pol (NSec h buf [])
| canon_comp h buf kids g c :
    kids <> [] -> Forall (canon pol) kids -> Forall is_sec kids ->
    s_type h = 2 -> s_gd h = Some g -> zlen (gd_guid g) = 16 -> 0 <= gd_attrs g < 65536 ->
    Z.land (gd_attrs g) 1 <> 0 -> codec_kind (gd_guid g) <> 0 ->
    gd_kind g = codec_kind (gd_guid g) ->
    s_name h = [] -> s_build h = 0 -> s_version h = [] -> s_depex h = None ->
    enc (codec_kind (gd_guid g)) (join4 [] (map node_buf kids)) = Some c ->
    zlen c < 4294967000 ->
    gen_sec_header h c = (h, buf) ->
    canon pol (NSec h buf kids)
| canon_fvimg h buf v :
    pol = 255 -> canon pol v -> nested_hdr v ->
    s_type h = 23 -> s_gd h = None ->
    s_name h = [] -> s_build h = 0 -> s_version h = [] -> s_depex h = None ->
    zlen (node_buf v) < 4294967000 ->
    gen_sec_header h (node_buf v) = (h, buf) ->
    canon pol (NSec h buf [v])
| canon_file_leaf h buf :
    file_leaf_ok pol h buf -> f_nvar h = None -> canon pol (NFile h buf [])
| canon_file h buf kids :
    kids <> [] -> Forall (canon pol) kids -> Forall is_sec kids ->
    f_nvar h = None -> supported_file (f_type h) = true -> zlen (f_guid h) = 16 ->
    zlen (join4 [] (map node_buf kids)) < 4294967000 ->
    file_regen h (join4 [] (map node_buf kids)) = (h, buf) ->
    canon pol (NFile h buf kids)
| canon_vol p g ck count off rz buf kids free :
    pol = 255 -> vp_ok p -> (g = FFS2 \/ g = FFS3) -> 0 <= count < 2 ^ 32 -> 0 <= free ->
    kids <> [] -> Forall (canon pol) kids -> Forall is_file kids -> Forall small16 kids ->
    files_aligned (vp_D p) (map node_buf kids) = true ->
    buf = vp_bytes p g count (map node_buf kids) free -> zlen buf < 2 ^ 64 -> zlen buf mod 8 = 0 ->
    canon pol (NVol (vp_hdr p g (zlen buf) ck count off rz free) buf kids).

Definition reparses_vol (rv : Z -> bytes -> Z -> bool -> outcome (node * Z)) (v : node) : Prop :=
  match v with
  | NVol h buf _ =>
    forall pol rest, (pol = 240 \/ pol = 255) ->
      exists v2, rv pol (buf ++ rest) (v_fvoffset h) (v_resizable h) = Ok (v2, 255) /\ strip v2 = strip v
  | _ => False
  end.

Definition reparses (pol : Z) (d : nat) (n : node) : Prop :=
  match n with
  | NSec _ _ _ => reparses_sec (psec d) pol n
  | NFile _ _ _ => reparses_file (pfile d) pol n
  | NVol _ _ _ => reparses_vol (pfv d) n
  | NPad _ _ => True
  end.

Lemma pfv_S d pol data off rz : pfv (S d) pol data off rz = fv_body (pfile d) pol data off rz.
Proof. reflexivity. Qed.

Lemma join4_single b : join4 [] [b] = b.
Proof using Type. clear_sec. reflexivity. Qed.

(* parsing what Assemble wrote gives the same tree up to metadata: all node kinds *)
Theorem canon_reparses pol : forall n, canon pol n -> forall d, (height n <= d)%nat -> reparses pol d n.
Proof.
  induction n as [h buf kids IH|h buf kids IH|h buf kids IH|] using node_ind'; intros Hc d Hd; [| | |exact I].
  - (* sections *)
    cbn [reparses]. inversion Hc; subst.
    + (* leaf *)
      destruct d as [|d]; [simpl in Hd; lia|].
      match goal with H : leaf_ok _ _ _ |- _ => pose proof (leaf_reparse pol h buf H) as Hl; destruct H as [Hp _] end.
      assert (H4 : 4 <= zlen buf).
      { rewrite section_body_eq in Hp. destruct (zlen buf <? 4) eqn:E; [discriminate|]. lia. }
      split; [cbn [node_buf]; lia|]. intros rest i. cbn [node_buf].
      exists (NSec (set_order h i) buf []). rewrite psec_S, Hl. split; [reflexivity|]. split; [reflexivity|].
      cbn [sec_ext set_order s_ext].
      rewrite section_body_eq in Hp. destruct (zlen buf <? 4); [discriminate|].
      destruct (sec_head buf) as [[hl ext]| | |]; cbn [bind] in Hp; try discriminate.
      destruct (zlen buf <? ext) eqn:Ee; [discriminate|].
      destruct (ext <? hl) eqn:Ehl; [discriminate|].
      pose proof (sec_tail_type _ _ _ _ _ _ _ _ _ _ _ _ _ Hp) as (_ & _ & Hext & _ & Hb).
      rewrite Hext. apply sub0_whole; [lia|lia|symmetry; exact Hb].
    + (* compressed *)
      destruct d as [|d]; [simpl in Hd; lia|].
      assert (Hkids : Forall (reparses_sec (psec d) pol) kids).
      { rewrite Forall_forall in *. intros k Hin.
        match goal with H : forall x, In x kids -> canon pol x |- _ => pose proof (H k Hin) as Hck end.
        match goal with H : forall x, In x kids -> is_sec x |- _ => pose proof (H k Hin) as Hsk end.
        assert (Hh : (height k <= d)%nat) by (cbn [height] in Hd; pose proof (height_kids k kids Hin); lia).
        pose proof (IH k Hin Hck d Hh) as R. destruct k; try (destruct Hsk). exact R. }
      match goal with Hg : gen_sec_header h ?c = (h, buf), He : enc _ _ = Some ?c |- _ =>
        pose proof (fun rest i => sbody_comp (psec d) (pfv d) pol h h g c buf kids rest i
          ltac:(assumption) ltac:(assumption) ltac:(assumption) ltac:(assumption) ltac:(assumption)
          ltac:(assumption) He ltac:(assumption) Hg Hkids) as Hsb end.
      destruct (Hsb [] 0) as (_ & _ & _ & _ & Hge4 & _).
      split; [cbn [node_buf]; lia|]. intros rest i. cbn [node_buf].
      destruct (Hsb rest i) as (kids2 & Hparse & Hstrip & Hext & _ & Hgd & _).
      eexists. rewrite psec_S. split; [exact Hparse|]. split; [|cbn [sec_ext s_ext]; exact Hext].
      cbn [strip]. rewrite Hstrip. f_equal.
      unfold set_order. cbn [s_size3 s_type s_ext s_hlen s_gd s_name s_build s_version s_depex].
      match goal with E1 : s_type h = 2, E2 : s_name h = [], E3 : s_build h = 0, E4 : s_version h = [],
        E5 : s_depex h = None, E6 : gd_kind g = _ |- _ => rewrite E1, E2, E3, E4, E5, Hgd, E6 end.
      reflexivity.
    + (* FV-image section *)
      destruct d as [|d]; [simpl in Hd; lia|].
      inversion IH as [|? ? IHv _]; subst.
      assert (Hh : (height v <= d)%nat) by (cbn [height fold_right] in Hd; lia).
      match goal with Hcv : canon 255 v |- _ => pose proof (IHv Hcv d Hh) as Rv end.
      destruct v as [| |hv vb vk|]; try (exfalso; match goal with H : nested_hdr _ |- _ => exact H end).
      match goal with H : nested_hdr _ |- _ => destruct H as [Hoff Hrz] end.
      cbn [reparses reparses_vol] in Rv. rewrite Hoff, Hrz in Rv.
      destruct (Rv 255 [] (or_intror eq_refl)) as (v2 & Hpv & Hsv). rewrite app_nil_r in Hpv.
      cbn [node_buf] in *.
      assert (Hvpos : 0 < zlen vb).
      { match goal with Hcv : canon 255 (NVol hv vb vk) |- _ => inversion Hcv; subst end.
        match goal with Hp : vp_ok ?p, Hgg : _ = FFS2 \/ _ = FFS3, Hf : 0 <= ?free |- _ =>
          rewrite (zlen_vp_bytes p _ _ _ free Hp Hgg Hf); pose proof (vp_D_mod8 p Hp) as (_ & H72 & _) end.
        match goal with |- context [zlen (flay ?F)] => pose proof (zlen_nonneg (flay F)) end. lia. }
      match goal with Hg : gen_sec_header h vb = (h, buf), Ht : s_type h = 23, Hn : s_gd h = None |- _ =>
        pose proof (fun rest i => fvimage_section_transparent (psec d) (pfv d) 255 h vb h buf rest i v2 255
                      Ht Hn ltac:(unfold SZ; lia) Hg Hpv) as Hfv end.
      destruct (Hfv [] 0) as (_ & He & Hl).
      assert (Hhl : s_hlen h = 4 \/ s_hlen h = 8).
      { match goal with Hg : gen_sec_header h vb = (h, buf) |- _ =>
          destruct (gen_shape h vb ltac:(lia)) as (chdr & hl & s3 & Hhl & _ & Hgen & _); rewrite Hg in Hgen end.
        pose proof (f_equal (fun x => s_hlen (fst x)) Hgen) as E. cbn [fst s_hlen] in E. lia. }
      split; [cbn [node_buf]; lia|]. intros rest i. cbn [node_buf].
      destruct (Hfv rest i) as (Hparse & _ & _).
      eexists. rewrite psec_S. split; [exact Hparse|]. split; [|cbn [sec_ext sec_default s_ext]; exact He].
      cbn [strip map]. rewrite Hsv. f_equal.
      destruct h as [s3 ty ex hl gd nm bu ve de od]. cbn [s_type s_gd s_name s_build s_version s_depex] in *.
      subst. reflexivity.
  - (* files *)
    cbn [reparses]. destruct d as [|d]; [simpl in Hd; lia|]. inversion Hc; subst.
    + match goal with H : file_leaf_ok _ _ _ |- _ =>
        pose proof (file_leaf_reparse pol h buf H) as Hl; destruct (file_leaf_ext pol h buf H) as (He & H24 & _) end.
      split; [exact H24|]. intros rest. exists (NFile h buf []). rewrite pfile_S, Hl.
      split; [reflexivity|]. split; [reflexivity|]. exact He.
    + assert (Hkids : Forall (reparses_sec (psec d) pol) kids).
      { rewrite Forall_forall in *. intros k Hin.
        match goal with H : forall x, In x kids -> canon pol x |- _ => pose proof (H k Hin) as Hck end.
        match goal with H : forall x, In x kids -> is_sec x |- _ => pose proof (H k Hin) as Hsk end.
        assert (Hh : (height k <= d)%nat) by (cbn [height] in Hd; pose proof (height_kids k kids Hin); lia).
        pose proof (IH k Hin Hck d Hh) as R. destruct k; try (destruct Hsk). exact R. }
      match goal with Hr : file_regen h _ = (h, buf) |- _ =>
        pose proof (fun rest => fbody_file (psec d) pol h buf kids rest ltac:(assumption) ltac:(assumption)
                                  ltac:(assumption) ltac:(assumption) Hr Hkids) as Hfb end.
      destruct (Hfb []) as (_ & _ & _ & _ & _ & H24).
      split; [exact H24|]. intros rest. cbn [node_buf].
      destruct (Hfb rest) as (kids2 & o & Hparse & Hstrip & Hext & _).
      eexists. rewrite pfile_S. split; [exact Hparse|]. split; [|cbn [file_ext set_fdo f_ext]; exact Hext].
      cbn [strip]. rewrite Hstrip. reflexivity.
  - (* volumes *)
    inversion Hc; subst. cbn [reparses reparses_vol]. intros pol0 rest Hpol0.
    destruct d as [|[|d]].
    { simpl in Hd; lia. }
    { exfalso. cbn [height] in Hd. destruct kids as [|k0 kr]; [congruence|].
      cbn [fold_right] in Hd. assert (1 <= height k0)%nat by (destruct k0; cbn [height]; lia). lia. }
    assert (Hkids : Forall (reparses_file (pfile (S d)) 255) kids).
    { rewrite Forall_forall in *. intros k Hin.
      match goal with H : forall x, In x kids -> canon 255 x |- _ => pose proof (H k Hin) as Hck end.
      match goal with H : forall x, In x kids -> is_file x |- _ => pose proof (H k Hin) as Hsk end.
      assert (Hh : (height k <= S d)%nat) by (cbn [height] in Hd; pose proof (height_kids k kids Hin); lia).
      pose proof (IH k Hin Hck (S d) Hh) as R. destruct k; try (destruct Hsk). exact R. }
    unfold vp_hdr, ref_hdr. cbn [v_fvoffset v_resizable].
    match goal with Hlen : zlen (vp_bytes p g count (map node_buf kids) free) < 2 ^ 64 |- _ =>
      destruct (parse_fv_ref d pol0 p g count kids free rest off rz ltac:(assumption) ltac:(assumption)
                  ltac:(assumption) ltac:(assumption) Hpol0 Hkids Hlen) as (kids2 & fs & ck2 & Hparse & Hstrip & _) end.
    eexists. split; [exact Hparse|]. cbn [strip]. rewrite Hstrip. reflexivity.
Qed.


(* ---------- Assemble on canonical trees: an exact fixed point ---------- *)

Lemma leaf_ext pol h buf : leaf_ok pol h buf -> s_ext h = zlen buf /\ 4 <= zlen buf.
Proof using Type. clear_sec.
  intros [Hp _]. rewrite section_body_eq in Hp. destruct (zlen buf <? 4) eqn:E4; [discriminate|].
  destruct (sec_head buf) as [[hl ext]| | |]; cbn [bind] in Hp; try discriminate.
  destruct (zlen buf <? ext) eqn:Ee; [discriminate|].
  destruct (ext <? hl) eqn:Ehl; [discriminate|].
  pose proof (sec_tail_type _ _ _ _ _ _ _ _ _ _ _ _ _ Hp) as (_ & _ & Hext & _ & Hb).
  split; [|lia]. rewrite Hext. apply sub0_whole; [lia|lia|symmetry; exact Hb].
Qed.

Lemma leaf_stable_flag h buf p f : leaf_stable h buf ->
  exists b, secasm h buf [] (p, f) = Ok (NSec h buf [], (p, f || b)) /\
            (b = false \/ b = (16777215 <? s_ext h)).
Proof using Type. clear_sec.
  unfold leaf_stable. rewrite (sec_asm_node_st h buf [] (255, false) (p, f)).
  unfold sec_asm.
  match goal with |- context [bind ?e _] => destruct e as [[b|]| | |] end; cbn [bind asm_node]; try discriminate.
  - destruct (gen_sec_header h b) as [h' nb]. cbn [asm_node]. intros [= -> ->].
    eexists. split; [reflexivity|]. right; reflexivity.
  - intros _. exists false. rewrite orb_false_r. split; [reflexivity|left; reflexivity].
Qed.

Lemma gen_ext_gd h g b h' nb : s_gd h = Some g -> zlen (gd_guid g) = 16 -> zlen b < SZ ->
  gen_sec_header h b = (h', nb) -> s_ext h' = zlen nb.
Proof using Type. clear_sec.
  intros Hg Hg16 Hz Hgen.
  destruct (gen_shape h b Hz) as (chdr & hl & size3 & Hhl & Hlen & Hgen' & _).
  rewrite Hgen, Hg in Hgen'. cbn [tslen regd tshdr gd_guid gd_dataoff gd_attrs] in Hgen'.
  pose proof (f_equal fst Hgen') as Eh. pose proof (f_equal snd Hgen') as Eb.
  cbn [fst snd] in Eh, Eb. subst h' nb. cbn [s_ext]. rewrite !zlen_app, !le2, Hg16, Hlen. lia.
Qed.

Lemma canon_file_attr pol k : canon pol k -> is_file k -> node_attr k = rd 19 1 (node_buf k).
Proof.
  intros Hc Hf. destruct k as [|h buf kids| |]; try (destruct Hf). cbn [node_attr node_buf].
  inversion Hc; subst.
  - match goal with H : file_leaf_ok _ _ _ |- _ => destruct (file_leaf_ext pol h buf H) as (_ & _ & Ha) end. exact Ha.
  - match goal with Hr : file_regen h ?data = (h, buf), Hg : zlen (f_guid h) = 16, Hz : zlen ?data < _ |- _ =>
      destruct (file_regen_shape h data Hg Hz) as (hdr & ckh & ckf & attr & size3 & hl & _ & _ & Hreg & _ & _ & _ & _ & Hrd & _);
      rewrite Hr in Hreg end.
    pose proof (f_equal (fun x => f_attr (fst x)) Hreg) as Ea. pose proof (f_equal snd Hreg) as Eb.
    cbn [fst snd f_attr] in Ea, Eb. rewrite Ea, Eb.
    match goal with |- _ = rd 19 1 (hdr ++ ?data) => destruct (Hrd data) as (_ & _ & _ & _ & R19 & _) end.
    symmetry. exact R19.
Qed.

Definition fixes (pol : Z) (n : node) : Prop :=
  forall f, exists f', asm' n (pol, f) = Ok (n, (pol, f')) /\ (small16 n \/ is_vol n -> f' = f).

Lemma asml_fixes pol kids : Forall (fixes pol) kids ->
  forall f, exists f', asml kids (pol, f) = Ok (kids, (pol, f')) /\ (Forall small16 kids -> f' = f).
Proof using Type. clear_sec.
  induction 1 as [|k r Hk Hr IH]; intros f; cbn [asm_elems].
  - exists f. split; [reflexivity|auto].
  - destruct (Hk f) as (f1 & E1 & F1). rewrite E1. cbn [bind].
    destruct (IH f1) as (f2 & E2 & F2). rewrite E2. cbn [bind]. exists f2. split; [reflexivity|].
    intros Hs. inversion Hs; subst. rewrite F2 by assumption. apply F1. left; assumption.
Qed.

Theorem canon_asm_fixed pol n : canon pol n -> fixes pol n.
Proof.
  induction n as [h buf kids IH|h buf kids IH|h buf kids IH|] using node_ind'; intros Hc f; inversion Hc; subst.
  - (* leaf section *)
    rewrite asm_sec. cbn [asm_elems bind].
    match goal with Hs : leaf_stable h buf, Hl : leaf_ok _ h buf |- _ =>
      destruct (leaf_stable_flag h buf pol f Hs) as (b & E & Hb); destruct (leaf_ext pol h buf Hl) as (He & _) end.
    exists (f || b). split; [exact E|]. intros [Hs|[]]. cbn [small16] in Hs. destruct Hs as [Hs _].
    destruct Hb as [-> | ->]; [apply orb_false_r|].
    replace (16777215 <? s_ext h) with false by (unfold SZ16 in Hs; lia). apply orb_false_r.
  - (* compressed section *)
    rewrite asm_sec.
    assert (Hk : Forall (fixes pol) kids) by (rewrite Forall_forall in *; intros k Hin; apply IH; auto).
    destruct (asml_fixes pol kids Hk f) as (f1 & E & F1). rewrite E. cbn [bind].
    unfold sec_asm. destruct kids as [|k0 r]; [congruence|].
    match goal with Ht : s_type h = 2, Hg : s_gd h = Some g, Hb : Z.land _ 1 <> 0, Hk0 : codec_kind _ <> 0,
      He : enc _ _ = Some ?c, Hgen : gen_sec_header h ?c = _, Hz : zlen ?c < _, Hg16 : zlen (gd_guid g) = 16 |- _ =>
      rewrite Ht, Hg; change (2 =? 2) with true; cbv iota;
      replace (Z.land (gd_attrs g) 1 =? 0) with false by lia; cbn [negb];
      replace (codec_kind (gd_guid g) =? 0) with false by lia;
      rewrite He; cbn [bind]; rewrite Hgen;
      pose proof (gen_ext_gd h g c h buf Hg Hg16 Hz Hgen) as Hext end.
    eexists. split; [reflexivity|]. intros [Hs|[]].
    destruct (small16_inv _ Hs) as [Hz Hks]. cbn [node_buf] in Hz. rewrite (F1 Hks).
    replace (16777215 <? s_ext h) with false by (unfold SZ16 in Hz; lia). apply orb_false_r.
  - (* FV-image section *)
    rewrite asm_sec. cbn [asm_elems]. inversion IH as [|? ? IHv _]; subst.
    match goal with Hcv : canon 255 v |- _ => destruct (IHv Hcv f) as (f1 & E1 & F1) end.
    rewrite E1. cbn [bind]. unfold sec_asm.
    lazymatch goal with Ht : s_type h = 23, Hgen : gen_sec_header h _ = _, Hn : s_gd h = None, Hz : zlen (node_buf v) < _ |- _ =>
      rewrite Ht; change (23 =? 2) with false; cbv iota; cbn [map bind]; rewrite join4_single, Hgen;
      pose proof (sec_sizes h _ h buf Hn Hz Hgen) as (Hext & _) end.
    eexists. split; [reflexivity|]. intros [Hs|[]].
    destruct (small16_inv _ Hs) as [Hz Hks]. cbn [node_buf] in Hz.
    rewrite F1 by (right; destruct v; try exact I; match goal with H : nested_hdr _ |- _ => destruct H end).
    replace (16777215 <? s_ext h) with false by (unfold SZ16 in Hz; lia). apply orb_false_r.
  - (* file without sections *)
    rewrite asm_file. cbn [asm_elems bind]. unfold file_asm.
    match goal with H : f_nvar h = None |- _ => rewrite H end. exists f. split; [reflexivity|auto].
  - (* file with sections *)
    rewrite asm_file.
    assert (Hk : Forall (fixes pol) kids) by (rewrite Forall_forall in *; intros k Hin; apply IH; auto).
    destruct (asml_fixes pol kids Hk f) as (f1 & E & F1). rewrite E. cbn [bind].
    unfold file_asm. destruct kids as [|k0 r]; [congruence|].
    match goal with H : f_nvar h = None, Hr : file_regen h ?data = _, Hg : zlen (f_guid h) = 16, Hz : zlen ?data < _ |- _ =>
      rewrite H; pose proof (file_sizes h data h buf Hg Hz Hr) as (Hext & _); unfold file_regen in Hr;
      destruct (set_size (f_attr h) (24 + zlen data) true) as [ext attr] eqn:Ess;
      pose proof (cka_fields h ext attr data) as (_ & _ & _ & _ & _ & Ee & _);
      rewrite Hr in *; cbn [fst] in Ee end.
    eexists. split; [reflexivity|]. intros [Hs|[]].
    destruct (small16_inv _ Hs) as [Hz' Hks]. cbn [node_buf] in Hz'. rewrite (F1 Hks).
    replace (16777215 <? ext) with false by (unfold SZ16 in Hz'; lia). apply orb_false_r.
  - (* volume *)
    rewrite asm_volume. cbn [fst snd]. unfold vp_hdr at 1, ref_hdr at 1. cbn [v_attrs].
    match goal with Hp : vp_ok p |- _ => pose proof Hp as (Lz & Hat & Hpolb & Hs & Hmore & Hhl & Hext);
      pose proof (vp_D_mod8 p Hp) as (HD8 & HD72 & Heo) end.
    replace (fv_polarity (vp_attrs p)) with 255
      by (unfold fv_polarity; destruct (Z.land (vp_attrs p) 2048 =? 0) eqn:E; [lia|reflexivity]).
    change (set_polarity 255 255) with (Some 255). cbv iota.
    assert (Hk : Forall (fixes 255) kids) by (rewrite Forall_forall in *; intros k Hin; apply IH; auto).
    destruct (asml_fixes 255 kids Hk false) as (f1 & E & F1). rewrite E. cbn [bind].
    rewrite (F1 ltac:(assumption)). unfold vol_asm.
    set (F := map node_buf kids) in *. set (buf := vp_bytes p g count F free) in *.
    assert (Lb : zlen buf = vp_D p + zlen (flay F) + free) by (apply zlen_vp_bytes; assumption).
    assert (AD : align8 (vp_D p) = vp_D p) by (apply align8_unique; lia).
    pose proof (zlen_play_le F (vp_D p) ltac:(lia)) as Hple. rewrite AD, Z.sub_diag in Hple.
    pose proof (zlen_nonneg (flay F)) as Hfl. pose proof (zlen_nonneg (play (vp_D p) F)) as Hpl.
    assert (Hsub : sub 0 (vp_D p) buf =
                   fv_header (vp_zero p) g (zlen buf) (vp_attrs p)
                     (fv_cksum (vp_zero p) g (zlen buf) (vp_attrs p) (vp_eo p) (vp_reserved p) (vp_rev p) count
                        (vp_bsize p) (vp_more p)) (vp_eo p) (vp_reserved p) (vp_rev p) count (vp_bsize p) (vp_more p)
                   ++ vp_ext p).
    { unfold buf at 1, vp_bytes, vol_bytes_x. fold (vp_D p). rewrite <- Lb at 1 2.
      rewrite app_assoc. apply sub_app_here. rewrite zlen_app, zlen_fv_header; [reflexivity|exact Lz|].
      match goal with Hg : g = FFS2 \/ g = FFS3 |- _ => destruct Hg as [-> | ->]; reflexivity end. }
    assert (Hpos : Forall (fun k => 0 < zlen (node_buf k)) kids).
    { rewrite Forall_forall in *. intros k Hin.
      match goal with Hc' : forall x, In x kids -> canon 255 x, Hf' : forall x, In x kids -> is_file x |- _ =>
        pose proof (canon_reparses 255 k (Hc' k Hin) (height k) (le_n _)) as R; pose proof (Hf' k Hin) as Hfk end.
      destruct k; try (destruct Hfk). destruct R as [H24 _]. lia. }
    assert (Hattr : map node_attr kids = map (rd 19 1) F).
    { unfold F. rewrite map_map. apply map_ext_in. intros k Hin. rewrite Forall_forall in *.
      apply (canon_file_attr 255); auto. }
    match goal with Hg : g = FFS2 \/ g = FFS3, Hc0 : 0 <= count < 2 ^ 32, Hne : kids <> [], Hal : files_aligned _ _ = true |- _ =>
      destruct (asm_vol_ref false p g (zlen buf) ck _ count off rz free buf kids ltac:(assumption) Hg Hne Hc0 Hsub
                  ltac:(lia) Hpos Hal Hattr ltac:(left; split; [fold F; lia|assumption]))
        as (len' & count' & free' & Hasm & Hsame & Hfree' & _ & Hlen' & _) end.
    destruct (Hsame ltac:(fold F; lia)) as [-> ->]. fold F in Hasm, Hlen'.
    assert (free' = free) by lia. subst free'.
    cbn [andb] in Hasm. rewrite Z.mod_small in Hasm by (unfold U64; lia).
    rewrite Hasm. cbn [bind fst snd]. exists f. split; [reflexivity|auto].
Qed.


(* ---------- Assemble of a volume, from its success ---------- *)

Lemma place_files_limit pol l : forall kids acc off b,
  place_files pol (Some l) acc off kids = Ok b -> place_files pol None acc off kids = Ok b.
Proof using Type. clear_sec.
  induction kids as [|k r IH]; intros acc off b H; [exact H|].
  cbn [place_files] in H |- *.
  destruct (zlen (node_buf k) =? 0); [exact H|].
  match type of H with (if ?c then _ else _) = _ => destruct c end; [discriminate|].
  match type of H with bind ?e _ = _ => destruct e as [[b1 a1]| | |] end; cbn [bind] in H |- *; try discriminate.
  destruct (insert_file pol b1 a1 (node_buf k)) as [b2| | |]; cbn [bind] in H |- *; try discriminate.
  apply IH. exact H.
Qed.

Lemma asm_vol_ref_ok ffs3 p g len0 ckr ck0 count0 off rz fs buf kids h' nb :
  vp_ok p -> (g = FFS2 \/ g = FFS3) -> kids <> [] -> 0 <= count0 < 2 ^ 32 ->
  let D := vp_D p in
  let F := map node_buf kids in
  sub 0 D buf = fv_header (vp_zero p) g len0 (vp_attrs p) ck0 (vp_eo p) (vp_reserved p) (vp_rev p) count0
                          (vp_bsize p) (vp_more p) ++ vp_ext p ->
  D <= zlen buf <= len0 -> len0 mod 8 = 0 -> len0 < 2 ^ 64 ->
  (rz = true -> vp_more p = [] /\ exists k, 3 <= k < 64 /\ vp_bsize p = 2 ^ k) ->
  Forall (fun k => 0 < zlen (node_buf k)) kids -> files_aligned D F = true ->
  map node_attr kids = map (rd 19 1) F -> D + zlen (flay F) < 2 ^ 63 ->
  asm_vol 255 ffs3 (vp_hdr p g len0 ckr count0 off rz fs) buf kids = Ok (h', nb) ->
  let g' := if ffs3 && bytes_eqb g FFS2 then FFS3 else g in
  exists len' count' free',
    h' = vp_hdr p g' len' ckr count' off rz (free' mod U64) /\ nb = vp_bytes p g' count' F free' /\
    0 <= free' /\ 0 <= count' < 2 ^ 32 /\ len' = D + zlen (flay F) + free' /\ len' mod 8 = 0 /\ len' < 2 ^ 64.
Proof using Type. clear_sec.
  intros Hp Hg Hne Hc0 D F Hsub Hbuf Hm8 Hl64 Hpow Hpos Hal Hattr Hbound Hasm g'.
  pose proof (vp_D_mod8 p Hp) as (HD8 & HD72 & Heo). fold D in HD8, HD72.
  assert (AD : align8 D = D) by (apply align8_unique; lia).
  pose proof (zlen_play_le F D ltac:(lia)) as Hple. rewrite AD, Z.sub_diag in Hple.
  pose proof (zlen_nonneg (play D F)) as Hpl.
  set (newlen := D + zlen (play D F)).
  assert (Hbs : 0 < vp_bsize p < 2 ^ 32) by apply Hp.
  assert (Hcase : newlen <= len0 /\ len0 mod 8 = 0 \/
                  rz = true /\ len0 < newlen /\ vp_more p = [] /\
                  exists k, 3 <= k < 64 /\ vp_bsize p = 2 ^ k /\ newlen + 2 ^ k <= 2 ^ 64).
  { destruct (Z_le_gt_dec newlen len0) as [Hle|Hgt]; [left; split; assumption|].
    destruct rz.
    - right. split; [reflexivity|]. split; [lia|]. destruct (Hpow eq_refl) as (Hmr & k & Hk & Hb).
      split; [exact Hmr|]. exists k. split; [exact Hk|]. split; [exact Hb|]. rewrite <- Hb. unfold newlen.
      change (2 ^ 64) with (2 ^ 63 + 2 ^ 63). change (2 ^ 32) with 4294967296 in Hbs.
      change (2 ^ 63) with 9223372036854775808 in *. lia.
    - (* a fixed-size volume that is too small is refused *)
      exfalso. rewrite asm_vol_eq in Hasm. set (h := vp_hdr p g len0 ckr count0 off false fs) in Hasm.
      change (v_guid h) with g in Hasm. change (v_length h) with len0 in Hasm.
      change (v_blocks h) with ((count0, vp_bsize p) :: vp_more p) in Hasm. change (v_dataoff h) with D in Hasm.
      change (v_hdrlen h) with (fv_hlen (vp_more p)) in Hasm. change (v_resizable h) with false in Hasm.
      destruct kids as [|k0 kr]; [congruence|]. cbn [andb] in Hasm.
      destruct (len0 <? zlen buf); [discriminate|].
      destruct (D <? fv_hlen (vp_more p)); [discriminate|].
      destruct (zlen buf <? D); [discriminate|].
      rewrite slice_ok in Hasm by lia. rewrite Z.sub_0_r in Hasm. cbn [of_opt bind] in Hasm. rewrite Hsub in Hasm.
      set (P := fv_header (vp_zero p) g len0 (vp_attrs p) ck0 (vp_eo p) (vp_reserved p) (vp_rev p) count0
                          (vp_bsize p) (vp_more p) ++ vp_ext p) in *.
      assert (LP : zlen P = D).
      { unfold P. rewrite zlen_app, zlen_fv_header by (try apply Hp; destruct Hg as [-> | ->]; reflexivity). reflexivity. }
      destruct (place_files 255 (Some len0) P D (k0 :: kr)) as [b1| | |] eqn:Epl; cbn [bind] in Hasm; try discriminate.
      apply place_files_limit in Epl.
      pose proof (place_files_play (k0 :: kr) None P Hpos ltac:(rewrite LP, AD; exact Hal) Hattr I) as PP.
      rewrite LP in PP. rewrite PP in Epl. fold F in Epl.
      assert (Eb1 : b1 = P ++ play D F) by congruence. subst b1. clear Epl.
      rewrite zlen_app, LP in Hasm. fold F in Hasm. fold newlen in Hasm.
      replace ((len0 <? newlen) && negb false) with true in Hasm by lia. cbv iota in Hasm. discriminate. }
  destruct (asm_vol_ref ffs3 p g len0 ckr ck0 count0 off rz fs buf kids Hp Hg Hne Hc0 Hsub Hbuf Hpos Hal Hattr Hcase)
    as (len' & count' & free' & Hasm' & _ & Hfree & Hcnt & Hlen & Hge & Hm & Hor).
  rewrite Hasm' in Hasm. injection Hasm as <- <-.
  exists len', count', free'. repeat split; try assumption; try lia.
  fold D F in Hlen.
  destruct Hor as [->|(Hrz & -> & _)]; [exact Hl64|].
  fold D. fold F. fold newlen.
  destruct (Hpow Hrz) as (_ & k & Hk & Hb). rewrite Hb.
  destruct (align_go_pow2 newlen k ltac:(lia) ltac:(unfold newlen; lia)
              ltac:(rewrite <- Hb; unfold newlen; change (2 ^ 64) with 18446744073709551616;
                    change (2 ^ 63) with 9223372036854775808 in Hbound; change (2 ^ 32) with 4294967296 in Hbs; lia))
    as (_ & Bal & _).
  rewrite <- Hb in Bal |- *. assert (Hnl : newlen <= D + zlen (flay F)) by (unfold newlen; lia).
  change (2 ^ 64) with 18446744073709551616. change (2 ^ 63) with 9223372036854775808 in Hbound.
  change (2 ^ 32) with 4294967296 in Hbs. lia.
Qed.


Lemma asm_vol_dataoff pol ffs3 h buf files h' nb :
  asm_vol pol ffs3 h buf files = Ok (h', nb) -> v_dataoff h' = v_dataoff h.
Proof using Type. clear_sec.
  rewrite asm_vol_eq.
  match goal with |- (if ?c then _ else _) = _ -> _ => destruct c end; [intros [= <- _]; reflexivity|].
  destruct (v_length h <? zlen buf); [discriminate|].
  destruct (v_blocks h) as [|[c0 s0] bl]; [discriminate|].
  destruct (v_dataoff h <? v_hdrlen h); [discriminate|].
  destruct (zlen buf <? v_dataoff h); [discriminate|].
  destruct (of_opt 202 (slice 0 (v_dataoff h) buf)) as [hdr| | |]; cbn [bind]; try discriminate.
  destruct (place_files pol _ hdr (v_dataoff h) files) as [b1| | |]; cbn [bind]; try discriminate.
  destruct ((v_length h <? zlen b1) && negb (v_resizable h)); [discriminate|].
  match goal with |- bind ?e _ = _ -> _ => destruct e as [[len blocks]| | |] end; cbn [bind]; try discriminate.
  unfold vol_finish. cbv zeta.
  match goal with |- context [if ?c then Panic 204 else _] => destruct c end; [discriminate|].
  destruct blocks as [|[c s] bt]; [discriminate|].
  match goal with |- context [if ?c then Panic 206 else _] => destruct c end; [discriminate|].
  match goal with |- context [match ?e with Some _ => _ | None => Panic 207 end] => destruct e end; [|discriminate].
  destruct (negb (Z.even (v_hdrlen h))); [discriminate|].
  intros [= <- _]. reflexivity.
Qed.

(* ---------- well-formed input trees (with volumes), and what Assemble makes of them ---------- *)

(* conditions on the SAVED tree that concern the layout inside volumes: the files of a volume are
   below 16 MiB (and so is everything in them), meet their data alignment at their natural position
   (no pad file has to be inserted), and their total size is below 2^63 *)
Fixpoint laid (n : node) : Prop :=
  let all := fix all (l : list node) : Prop :=
               match l with [] => True | x :: r => laid x /\ all r end in
  match n with
  | NSec _ _ k => all k
  | NFile _ _ k => all k
  | NVol h _ k =>
    all k /\ Forall small16 k /\ files_aligned (v_dataoff h) (map node_buf k) = true /\
    v_dataoff h + zlen (flay (map node_buf k)) < 2 ^ 63
  | NPad _ _ => True
  end.

Lemma laid_all l :
  (fix all (l : list node) : Prop := match l with [] => True | x :: r => laid x /\ all r end) l <->
  Forall laid l.
Proof using Type. clear_sec.
  induction l as [|x r IH].
  - split; intros; [constructor|exact I].
  - split.
    + intros [Hx Hr]. constructor; [assumption|apply IH; assumption].
    + intros H. inversion H; subst. split; [assumption|apply IH; assumption].
Qed.

Inductive wf (pol : Z) : node -> Prop :=
| wf_leaf h buf :
    leaf_ok pol h buf -> leaf_stable h buf -> wf pol (NSec h buf [])
| wf_comp h buf kids g :
    kids <> [] -> Forall (wf pol) kids -> Forall is_sec kids ->
    s_type h = 2 -> s_gd h = Some g -> zlen (gd_guid g) = 16 -> 0 <= gd_attrs g < 65536 ->
    Z.land (gd_attrs g) 1 <> 0 -> codec_kind (gd_guid g) <> 0 ->
    gd_kind g = codec_kind (gd_guid g) ->
    s_name h = [] -> s_build h = 0 -> s_version h = [] -> s_depex h = None ->
    wf pol (NSec h buf kids)
| wf_fvimg h buf v :
    pol = 255 -> wf pol v -> nested_hdr v -> s_type h = 23 -> s_gd h = None ->
    s_name h = [] -> s_build h = 0 -> s_version h = [] -> s_depex h = None ->
    wf pol (NSec h buf [v])
| wf_file_leaf h buf :
    file_leaf_ok pol h buf -> f_nvar h = None -> wf pol (NFile h buf [])
| wf_file h buf kids :
    kids <> [] -> Forall (wf pol) kids -> Forall is_sec kids ->
    f_nvar h = None -> supported_file (f_type h) = true -> zlen (f_guid h) = 16 ->
    wf pol (NFile h buf kids)
| wf_vol p g len0 ckr ck0 count0 off rz fs buf kids :
    pol = 255 -> vp_ok p -> (g = FFS2 \/ g = FFS3) -> 0 <= count0 < 2 ^ 32 ->
    kids <> [] -> Forall (wf pol) kids -> Forall is_file kids ->
    sub 0 (vp_D p) buf = fv_header (vp_zero p) g len0 (vp_attrs p) ck0 (vp_eo p) (vp_reserved p) (vp_rev p)
                                   count0 (vp_bsize p) (vp_more p) ++ vp_ext p ->
    vp_D p <= zlen buf <= len0 -> len0 mod 8 = 0 -> len0 < 2 ^ 64 ->
    (rz = true -> vp_more p = [] /\ exists k, 3 <= k < 64 /\ vp_bsize p = 2 ^ k) ->
    wf pol (NVol (vp_hdr p g len0 ckr count0 off rz fs) buf kids).


Definition asm_good (pol : Z) (t : node) (f : bool) (t1 : node) (st1 : ast) : Prop :=
  canon pol t1 /\ deep t1 = deep t /\ same_kind t t1 /\ is_pad_file t1 = is_pad_file t /\
  fst st1 = pol /\ (small16 t1 \/ is_vol t -> snd st1 = f) /\ (nested_hdr t -> nested_hdr t1).

Lemma kids_canon pol kids :
  Forall (fun t => wf pol t -> forall f t1 st1, asm' t (pol, f) = Ok (t1, st1) -> small t1 -> laid t1 ->
                   asm_good pol t f t1 st1) kids ->
  Forall (wf pol) kids ->
  forall f kids' st', asml kids (pol, f) = Ok (kids', st') -> Forall small kids' -> Forall laid kids' ->
  Forall (canon pol) kids' /\ Forall2 same_kind kids kids' /\ map deep kids' = map deep kids /\
  map is_pad_file kids' = map is_pad_file kids /\ fst st' = pol /\ (Forall small16 kids' -> snd st' = f).
Proof using Type. clear_sec.
  induction 1 as [|k r Hk Hr IH]; intros Hw f kids' st' Ha Hs Hl; cbn [asm_elems] in Ha.
  - injection Ha as <- <-. repeat split; try constructor.
  - inversion Hw; subst.
    destruct (asm' k (pol, f)) as [[k1 [p1 f1]]| | |] eqn:E1; cbn [bind] in Ha; try discriminate.
    destruct (asml r (p1, f1)) as [[r1 s2]| | |] eqn:E2; cbn [bind] in Ha; try discriminate.
    injection Ha as <- <-. inversion Hs; subst. inversion Hl; subst.
    destruct (Hk ltac:(assumption) f k1 (p1, f1) E1 ltac:(assumption) ltac:(assumption))
      as (C & Dk & K & Pk & Ep & Ef & _).
    cbn [fst snd] in Ep, Ef. subst p1.
    destruct (IH ltac:(assumption) f1 r1 s2 E2 ltac:(assumption) ltac:(assumption)) as (C' & K' & D' & P' & Ep' & Ef').
    repeat split.
    + constructor; assumption.
    + constructor; assumption.
    + cbn [map]. rewrite Dk, D'. reflexivity.
    + cbn [map]. rewrite Pk, P'. reflexivity.
    + exact Ep'.
    + intros H16. inversion H16; subst. rewrite Ef' by assumption. apply Ef. left; assumption.
Qed.

Lemma same_kind_all (P Q : node -> Prop) kids kids' :
  (forall a b, same_kind a b -> P a -> Q b) -> Forall2 same_kind kids kids' -> Forall P kids -> Forall Q kids'.
Proof using Type. clear_sec.
  intros HPQ. induction 1 as [|a b r r' Hab Hr IH]; intros H; [constructor|].
  inversion H; subst. constructor; [eapply HPQ; eassumption|apply IH; assumption].
Qed.

Lemma deep_files_eq kids kids' :
  map deep kids' = map deep kids -> map is_pad_file kids' = map is_pad_file kids ->
  (fix go (l : list node) : list dtree :=
     match l with [] => [] | x :: r => if is_pad_file x then go r else deep x :: go r end) kids' =
  (fix go (l : list node) : list dtree :=
     match l with [] => [] | x :: r => if is_pad_file x then go r else deep x :: go r end) kids.
Proof using Type. clear_sec.
  revert kids'. induction kids as [|k r IH]; intros [|k' r'] Hd Hp; try discriminate; [reflexivity|].
  cbn [map] in Hd, Hp. injection Hd as Hd1 Hd2. injection Hp as Hp1 Hp2.
  rewrite Hp1, Hd1, (IH r' Hd2 Hp2). reflexivity.
Qed.


Lemma small_kids n : small n ->
  zlen (node_buf n) < SZ /\
  Forall small (match n with NSec _ _ k | NFile _ _ k | NVol _ _ k => k | NPad _ _ => [] end).
Proof using Type. clear_sec.
  destruct n; cbn [small node_buf]; intros H; try (destruct H as [H1 H2]; split; [exact H1|apply small_all; exact H2]).
  split; [exact H|constructor].
Qed.

Lemma small16_small n : small16 n -> small n.
Proof using Type. clear_sec.
  induction n as [h b k IH|h b k IH|h b k IH|] using node_ind'; intros H;
    try (destruct (small16_inv _ H) as [Hz Hk]; cbn [node_buf] in Hz; cbn [small]; split;
         [unfold SZ, SZ16 in *; lia|apply small_all; rewrite Forall_forall in *; auto]).
  cbn [small small16] in *. unfold SZ, SZ16 in *. lia.
Qed.

(* Assemble turns a well-formed tree into a canonical one with the same decompressed content *)
Theorem asm_canon pol : forall t, wf pol t -> forall f t1 st1, asm' t (pol, f) = Ok (t1, st1) ->
  small t1 -> laid t1 -> asm_good pol t f t1 st1.
Proof.
  induction t as [h buf kids IH|h buf kids IH|h buf kids IH|] using node_ind';
    intros Hw f t1 st1 Ha Hs Hl; inversion Hw; subst.
  - (* leaf section *)
    rewrite asm_sec in Ha. cbn [asm_elems bind] in Ha.
    match goal with Hst : leaf_stable h buf, Hlo : leaf_ok _ h buf |- _ =>
      destruct (leaf_stable_flag h buf pol f Hst) as (b & E & Hb); destruct (leaf_ext pol h buf Hlo) as (He & _) end.
    rewrite E in Ha. injection Ha as <- <-.
    split; [constructor; assumption|]. repeat split; try reflexivity; try (intros Hnh; exact Hnh).
    intros [H16|[]]. cbn [small16] in H16. destruct H16 as [H16 _]. cbn [snd].
    destruct Hb as [-> | ->]; [apply orb_false_r|].
    replace (16777215 <? s_ext h) with false by (unfold SZ16 in H16; lia). apply orb_false_r.
  - (* compressed section *)
    rewrite asm_sec in Ha.
    destruct (asml kids (pol, f)) as [[kids' [p2 f2]]| | |] eqn:El; cbn [bind] in Ha; try discriminate.
    unfold sec_asm in Ha.
    destruct kids' as [|k0' r'].
    { pose proof (asml_inv _ _ _ _ El) as F2. inversion F2; subst. congruence. }
    match goal with Ht : s_type h = 2, Hg : s_gd h = Some g, Hb : Z.land _ 1 <> 0, Hk0 : codec_kind _ <> 0 |- _ =>
      rewrite Ht, Hg in Ha; change (2 =? 2) with true in Ha; cbv iota in Ha;
      replace (Z.land (gd_attrs g) 1 =? 0) with false in Ha by lia; cbn [negb] in Ha;
      replace (codec_kind (gd_guid g) =? 0) with false in Ha by lia end.
    destruct (enc (codec_kind (gd_guid g)) (join4 [] (map node_buf (k0' :: r')))) as [c|] eqn:Ec;
      cbn [bind] in Ha; [|discriminate].
    destruct (gen_sec_header h c) as [h' nb] eqn:Eg. injection Ha as <- <-.
    destruct (small_kids _ Hs) as [Hsz Hsk]. cbn [node_buf] in Hsz.
    cbn [laid] in Hl. apply (proj1 (laid_all (k0' :: r'))) in Hl.
    destruct (kids_canon pol kids IH ltac:(assumption) f (k0' :: r') (p2, f2) El Hsk Hl)
      as (Hc' & K' & Hd' & _ & Ep & Ef). cbn [fst snd] in Ep, Ef. subst p2.
    assert (Hs' : Forall is_sec (k0' :: r')) by (apply (same_kind_all is_sec is_sec kids); [exact same_kind_sec|assumption|assumption]).
    pose proof (f_equal fst Eg) as Eh'. cbn [fst] in Eh'.
    assert (Hcz : zlen c < SZ).
    { pose proof (f_equal snd Eg) as Enb. cbn [snd] in Enb. unfold gen_sec_header in Enb. cbn [snd] in Enb.
      rewrite <- Enb in Hsz. rewrite !zlen_app in Hsz.
      repeat match type of Hsz with context [zlen ?x] => lazymatch x with c => fail | _ => let H := fresh in pose proof (zlen_nonneg x) as H; generalize dependent (zlen x); intros end end.
      lia. }
    assert (Hgd' : s_gd h' = Some (mkGd (gd_guid g) (gd_dataoff (match s_gd h' with Some x => x | None => g end)) (gd_attrs g) (gd_kind g))).
    { rewrite <- Eh'. unfold gen_sec_header. cbn [fst s_gd].
      match goal with Hg : s_gd h = Some g |- _ => rewrite Hg end. reflexivity. }
    assert (Hext : s_ext h' = zlen nb).
    { match goal with Hg : s_gd h = Some g, Hg16 : zlen (gd_guid g) = 16 |- _ => exact (gen_ext_gd h g c h' nb Hg Hg16 Hcz Eg) end. }
    split; [|repeat split; try exact I; try (intros Hnh; exact Hnh); try reflexivity].
    + apply (canon_comp pol h' nb (k0' :: r') (mkGd (gd_guid g) (gd_dataoff (match s_gd h' with Some x => x | None => g end)) (gd_attrs g) (gd_kind g)) c ltac:(discriminate) Hc' Hs');
        try assumption; try discriminate;
        try (rewrite <- Eh'; unfold gen_sec_header; cbn [fst s_type s_name s_build s_version s_depex]; assumption).
      rewrite <- Eh'. rewrite gen_sec_header_idem. rewrite Eg. reflexivity.
    + cbn [deep]. destruct kids as [|k0 r]; [congruence|].
      rewrite Hd'. f_equal. f_equal.
      * rewrite <- Eh'. reflexivity.
      * rewrite Hgd'. match goal with Hg : s_gd h = Some g |- _ => rewrite Hg end. reflexivity.
    + intros [H16|[]]. destruct (small16_inv _ H16) as [Hz16 Hk16]. cbn [node_buf snd] in *.
      rewrite (Ef Hk16). replace (16777215 <? s_ext h') with false by (unfold SZ16 in Hz16; lia). apply orb_false_r.
  - (* FV-image section *)
    rewrite asm_sec in Ha. cbn [asm_elems] in Ha. inversion IH as [|? ? IHv _]; subst.
    destruct (asm' v (255, f)) as [[v' [p2 f2]]| | |] eqn:Ev; cbn [bind] in Ha; try discriminate.
    unfold sec_asm in Ha.
    match goal with Ht : s_type h = 23 |- _ => rewrite Ht in Ha; change (23 =? 2) with false in Ha; cbv iota in Ha end.
    cbn [map bind] in Ha. rewrite join4_single in Ha.
    destruct (gen_sec_header h (node_buf v')) as [h' nb] eqn:Eg. injection Ha as <- <-.
    destruct (small_kids _ Hs) as [Hsz Hsk]. cbn [node_buf] in Hsz. inversion Hsk as [|? ? Hsv _]; subst.
    cbn [laid] in Hl. destruct Hl as [Hlv _].
    match goal with Hwv : wf 255 v |- _ => destruct (IHv Hwv f v' (p2, f2) Ev Hsv Hlv) as (Cv & Dv & Kv & _ & Ep & Ef & Hn) end.
    cbn [fst snd] in Ep, Ef. subst p2.
    assert (Hvol : is_vol v) by (destruct v; try exact I; match goal with H : nested_hdr _ |- _ => destruct H end).
    rewrite (Ef (or_intror Hvol)) in *.
    pose proof (f_equal fst Eg) as Eh'. cbn [fst] in Eh'.
    destruct (small_kids _ Hsv) as [Hvz _].
    match goal with Hn0 : s_gd h = None |- _ =>
      assert (Hn' : s_gd h' = None) by (rewrite <- Eh'; unfold gen_sec_header; cbn [fst s_gd]; rewrite Hn0; reflexivity) end.
    assert (Hgen' : gen_sec_header h' (node_buf v') = (h', nb))
      by (rewrite <- Eh' at 1; rewrite gen_sec_header_idem; rewrite Eg; reflexivity).
    destruct (sec_sizes h' (node_buf v') h' nb Hn' Hvz Hgen') as (Hext & _).
    split; [|repeat split; try exact I; try (intros Hnh; exact Hnh); try reflexivity].
    + apply canon_fvimg; try assumption; try reflexivity;
        try (rewrite <- Eh'; unfold gen_sec_header; cbn [fst s_type s_name s_build s_version s_depex]; assumption).
      apply Hn. assumption.
    + cbn [deep map]. rewrite Dv. f_equal. f_equal.
      * rewrite <- Eh'. reflexivity.
      * rewrite Hn'. match goal with Hn0 : s_gd h = None |- _ => rewrite Hn0 end. reflexivity.
    + intros [H16|[]]. destruct (small16_inv _ H16) as [Hz16 _]. cbn [node_buf snd] in *.
      replace (16777215 <? s_ext h') with false by (unfold SZ16 in Hz16; lia). apply orb_false_r.
  - (* file without sections *)
    rewrite asm_file in Ha. cbn [asm_elems bind] in Ha. unfold file_asm in Ha.
    match goal with H : f_nvar h = None |- _ => rewrite H in Ha end. injection Ha as <- <-.
    split; [constructor; assumption|]. repeat split; try reflexivity; try (intros Hnh; exact Hnh); auto.
  - (* file with sections *)
    rewrite asm_file in Ha.
    destruct (asml kids (pol, f)) as [[kids' [p2 f2]]| | |] eqn:El; cbn [bind] in Ha; try discriminate.
    unfold file_asm in Ha.
    destruct kids' as [|k0' r'].
    { pose proof (asml_inv _ _ _ _ El) as F2. inversion F2; subst. congruence. }
    match goal with H : f_nvar h = None |- _ => rewrite H in Ha end.
    pose proof (file_regen_idem h (join4 [] (map node_buf (k0' :: r'))) ltac:(assumption)) as Hidem.
    unfold file_regen in Hidem at 2 3.
    destruct (set_size (f_attr h) (24 + zlen (join4 [] (map node_buf (k0' :: r')))) true) as [ext attr] eqn:Ess.
    destruct (checksum_and_assemble h ext attr (join4 [] (map node_buf (k0' :: r')))) as [h' nb] eqn:Eck.
    injection Ha as <- <-. cbn [fst] in Hidem.
    destruct (small_kids _ Hs) as [Hsz Hsk]. cbn [node_buf] in Hsz.
    cbn [laid] in Hl. apply (proj1 (laid_all (k0' :: r'))) in Hl.
    destruct (kids_canon pol kids IH ltac:(assumption) f (k0' :: r') (p2, f2) El Hsk Hl)
      as (Hc' & K' & Hd' & _ & Ep & Ef). cbn [fst snd] in Ep, Ef. subst p2.
    assert (Hs' : Forall is_sec (k0' :: r')) by (apply (same_kind_all is_sec is_sec kids); [exact same_kind_sec|assumption|assumption]).
    destruct (cka_fields h ext attr (join4 [] (map node_buf (k0' :: r')))) as (Eg & Et & Ea & Est & _ & Ee & _ & En & _).
    rewrite Eck in Eg, Et, Ea, Est, En, Ee. cbn [fst] in Eg, Et, Ea, Est, En, Ee.
    assert (Hdz : zlen (join4 [] (map node_buf (k0' :: r'))) < SZ).
    { pose proof (f_equal snd Eck) as Enb. cbn [snd] in Enb. unfold checksum_and_assemble in Enb. cbn [snd] in Enb.
      rewrite <- Enb in Hsz. rewrite zlen_app in Hsz.
      match type of Hsz with zlen ?x + _ < _ => pose proof (zlen_nonneg x) end. lia. }
    assert (Hg16 : zlen (f_guid h') = 16) by congruence.
    destruct (file_sizes h' _ h' nb Hg16 Hdz Hidem) as (Hext & _).
    split; [|repeat split; try exact I; try (intros Hnh; exact Hnh); try reflexivity].
    + apply canon_file; try assumption; try discriminate; try congruence.
    + cbn [deep]. destruct kids as [|k0 r]; [congruence|].
      rewrite Hd'. f_equal. rewrite Eg, Et, Est, Ea.
      assert (Hattr : attr = set_large (f_attr h) (16777215 <=? 24 + zlen (join4 [] (map node_buf (k0' :: r'))))).
      { unfold set_size in Ess. destruct (16777215 <=? _); injection Ess as _ <-; reflexivity. }
      rewrite Hattr, land_set_large. reflexivity.
    + cbn [is_pad_file]. rewrite Et. reflexivity.
    + intros [H16|[]]. destruct (small16_inv _ H16) as [Hz16 Hk16]. cbn [node_buf snd] in *.
      rewrite (Ef Hk16). replace (16777215 <? ext) with false by (unfold SZ16 in Hz16; lia). apply orb_false_r.
  - (* volume *)
    rewrite asm_volume in Ha. cbn [fst snd] in Ha. unfold vp_hdr at 1, ref_hdr at 1 in Ha. cbn [v_attrs] in Ha.
    match goal with Hp : vp_ok p |- _ => pose proof Hp as (Lz & Hat & Hpolb & Hbs & Hmore & Hhl & Hext);
      pose proof (vp_D_mod8 p Hp) as (HD8 & HD72 & Heo) end.
    replace (fv_polarity (vp_attrs p)) with 255 in Ha
      by (unfold fv_polarity; destruct (Z.land (vp_attrs p) 2048 =? 0) eqn:E; [lia|reflexivity]).
    change (set_polarity 255 255) with (Some 255) in Ha. cbv iota in Ha.
    destruct (asml kids (255, false)) as [[kids' [p2 f2]]| | |] eqn:El; cbn [bind] in Ha; try discriminate.
    unfold vol_asm in Ha.
    set (h := vp_hdr p g len0 ckr count0 off rz fs) in *.
    destruct (asm_vol p2 f2 h buf kids') as [[h' nb]| | |] eqn:Ev; cbn [bind] in Ha; try discriminate.
    injection Ha as <- <-. cbn [fst snd].
    destruct (small_kids _ Hs) as [Hsz Hsk]. cbn [node_buf] in Hsz.
    cbn [laid] in Hl. destruct Hl as (Hlk & H16k & Hal & Hbound). apply (proj1 (laid_all kids')) in Hlk.
    destruct (kids_canon 255 kids IH ltac:(assumption) false kids' (p2, f2) El Hsk Hlk)
      as (Hc' & K' & Hd' & Hp' & Ep & Ef). cbn [fst snd] in Ep, Ef. subst p2. rewrite (Ef H16k) in *.
    assert (Hf' : Forall is_file kids') by (apply (same_kind_all is_file is_file kids); [exact same_kind_file|assumption|assumption]).
    assert (Hne' : kids' <> []).
    { intros ->. inversion K'; subst. congruence. }
    rewrite (asm_vol_dataoff _ _ _ _ _ _ _ Ev) in Hal, Hbound. change (v_dataoff h) with (vp_D p) in Hal, Hbound.
    assert (Hpos : Forall (fun k => 0 < zlen (node_buf k)) kids').
    { rewrite Forall_forall in *. intros k Hin.
      pose proof (canon_reparses 255 k (Hc' k Hin) (height k) (le_n _)) as R. pose proof (Hf' k Hin) as Hfk.
      destruct k; try (destruct Hfk). destruct R as [H24 _]. lia. }
    assert (Hattr : map node_attr kids' = map (rd 19 1) (map node_buf kids')).
    { rewrite map_map. apply map_ext_in. intros k Hin. rewrite Forall_forall in *.
      apply (canon_file_attr 255); auto. }
    match goal with Hg : g = FFS2 \/ g = FFS3, Hc0 : 0 <= count0 < 2 ^ 32, Hsub : sub 0 _ buf = _, Hb : _ <= zlen buf <= _,
                    Hm8 : len0 mod 8 = 0, Hl64 : len0 < 2 ^ 64, Hpow : rz = true -> _ |- _ =>
      destruct (asm_vol_ref_ok false p g len0 ckr ck0 count0 off rz fs buf kids' h' nb ltac:(assumption) Hg Hne' Hc0
                  Hsub Hb Hm8 Hl64 Hpow Hpos Hal Hattr Hbound Ev)
        as (len' & count' & free' & -> & -> & Hfree' & Hcnt' & Hlen' & Hm8' & Hl64') end.
    cbn [andb] in *.
    assert (Lnb : zlen (vp_bytes p g count' (map node_buf kids') free') = len').
    { rewrite zlen_vp_bytes by assumption. lia. }
    rewrite Z.mod_small by (unfold U64; pose proof (zlen_nonneg (flay (map node_buf kids'))); lia).
    split; [|repeat split; try exact I; try reflexivity].
    + rewrite <- Lnb at 1. apply canon_vol; try assumption; try reflexivity; try (rewrite Lnb; assumption).
    + cbn [deep]. destruct kids as [|k0 r]; [congruence|]. destruct kids' as [|k0' r']; [congruence|].
      unfold h, vp_hdr, ref_hdr.
      cbn [v_zero v_guid v_sig v_attrs v_hdrlen v_exthdroff v_reserved v_rev v_dataoff v_blocks v_extname map snd].
      f_equal. exact (deep_files_eq (k0 :: r) (k0' :: r') Hd' Hp').
    + match goal with Hn : nested_hdr _ |- _ => destruct Hn as [Hn1 Hn2]; exact Hn1 end.
    + match goal with Hn : nested_hdr _ |- _ => destruct Hn as [Hn1 Hn2]; exact Hn2 end.
Qed.


(* ---------- the property: sections, files, volumes ---------- *)

Lemma second_save pol t1 t2 : canon pol t1 -> strip t2 = strip t1 ->
  forall f, exists t3 st3, asm' t2 (pol, f) = Ok (t3, st3) /\ node_buf t3 = node_buf t1.
Proof.
  intros Hc Hs f. destruct (canon_asm_fixed pol t1 Hc f) as (f1 & E1 & _).
  destruct (asm_same_bufs t1 t2 (pol, f) t1 (pol, f1) (eq_sym Hs) E1) as (rb & E2 & E3).
  exists rb, (pol, f1). split; [exact E2|]. rewrite <- (node_buf_strip rb), E3. apply node_buf_strip.
Qed.

Definition vol_off (n : node) : Z := match n with NVol h _ _ => v_fvoffset h | _ => 0 end.
Definition vol_rz (n : node) : bool := match n with NVol h _ _ => v_resizable h | _ => false end.

Theorem sec_preserved_and_fixed pol t : wf pol t -> is_sec t ->
  forall f t1 st1, asm' t (pol, f) = Ok (t1, st1) -> small t1 -> laid t1 ->
  forall d rest i, (height t1 <= d)%nat ->
  exists t2, psec d pol (node_buf t1 ++ rest) i = Ok (t2, pol) /\
             deep t2 = deep t /\
             forall f', exists t3 st3, asm' t2 (pol, f') = Ok (t3, st3) /\ node_buf t3 = node_buf t1.
Proof.
  intros Hw Hs f t1 st1 Ha Hsm Hl d rest i Hd.
  destruct (asm_canon pol t Hw f t1 st1 Ha Hsm Hl) as (Hc & Hdeep & Hk & _).
  pose proof (canon_reparses pol t1 Hc d Hd) as R.
  destruct t; try (destruct Hs). destruct t1; try (destruct Hk). cbn [reparses] in R. destruct R as [_ Hr].
  destruct (Hr rest i) as (t2 & Hp & Hst & _).
  exists t2. split; [exact Hp|]. split.
  - rewrite (strip_deep t2 _ Hst). exact Hdeep.
  - apply (second_save pol _ t2 Hc Hst).
Qed.

Theorem file_preserved_and_fixed pol t : wf pol t -> is_file t ->
  forall f t1 st1, asm' t (pol, f) = Ok (t1, st1) -> small t1 -> laid t1 ->
  forall d rest, (height t1 <= d)%nat ->
  exists t2, pfile d pol (node_buf t1 ++ rest) = Ok (Some t2, pol) /\
             deep t2 = deep t /\
             forall f', exists t3 st3, asm' t2 (pol, f') = Ok (t3, st3) /\ node_buf t3 = node_buf t1.
Proof.
  intros Hw Hs f t1 st1 Ha Hsm Hl d rest Hd.
  destruct (asm_canon pol t Hw f t1 st1 Ha Hsm Hl) as (Hc & Hdeep & Hk & _).
  pose proof (canon_reparses pol t1 Hc d Hd) as R.
  destruct t; try (destruct Hs). destruct t1; try (destruct Hk). cbn [reparses] in R. destruct R as [_ Hr].
  destruct (Hr rest) as (t2 & Hp & Hst & _).
  exists t2. split; [exact Hp|]. split.
  - rewrite (strip_deep t2 _ Hst). exact Hdeep.
  - apply (second_save pol _ t2 Hc Hst).
Qed.

(* Stage 3 (volumes, top-level or nested, with files that hold compressed sections that hold nested
   volumes ... to any depth): save the tree, parse the written volume in any context (erase polarity
   still unknown or 0xFF): the decompressed tree is the one we started from, and saving the re-parsed
   tree writes the same bytes *)
Theorem vol_preserved_and_fixed t : wf 255 t -> is_vol t ->
  forall f t1 st1, asm' t (255, f) = Ok (t1, st1) -> small t1 -> laid t1 ->
  forall d pol0 rest, (height t1 <= d)%nat -> (pol0 = 240 \/ pol0 = 255) ->
  exists t2, pfv d pol0 (node_buf t1 ++ rest) (vol_off t1) (vol_rz t1) = Ok (t2, 255) /\
             deep t2 = deep t /\
             forall f', exists t3 st3, asm' t2 (255, f') = Ok (t3, st3) /\ node_buf t3 = node_buf t1.
Proof.
  intros Hw Hs f t1 st1 Ha Hsm Hl d pol0 rest Hd Hpol.
  destruct (asm_canon 255 t Hw f t1 st1 Ha Hsm Hl) as (Hc & Hdeep & Hk & _).
  pose proof (canon_reparses 255 t1 Hc d Hd) as R.
  destruct t; try (destruct Hs). destruct t1; try (destruct Hk). cbn [reparses reparses_vol] in R.
  destruct (R pol0 rest Hpol) as (t2 & Hp & Hst).
  exists t2. split; [exact Hp|]. split.
  - rewrite (strip_deep t2 _ Hst). exact Hdeep.
  - apply (second_save 255 _ t2 Hc Hst).
Qed.

Theorem vol_semantic_preservation t : wf 255 t -> is_vol t ->
  forall f t1 st1, asm' t (255, f) = Ok (t1, st1) -> small t1 -> laid t1 ->
  forall d pol0 rest, (height t1 <= d)%nat -> (pol0 = 240 \/ pol0 = 255) ->
  exists t2, pfv d pol0 (node_buf t1 ++ rest) (vol_off t1) (vol_rz t1) = Ok (t2, 255) /\ deep t2 = deep t.
Proof.
  intros Hw Hs f t1 st1 Ha Hsm Hl d pol0 rest Hd Hpol.
  destruct (vol_preserved_and_fixed t Hw Hs f t1 st1 Ha Hsm Hl d pol0 rest Hd Hpol) as (t2 & H1 & H2 & _). eauto.
Qed.

Theorem vol_save_fixed_point t : wf 255 t -> is_vol t ->
  forall f t1 st1, asm' t (255, f) = Ok (t1, st1) -> small t1 -> laid t1 ->
  forall d pol0 rest t2, (height t1 <= d)%nat -> (pol0 = 240 \/ pol0 = 255) ->
  pfv d pol0 (node_buf t1 ++ rest) (vol_off t1) (vol_rz t1) = Ok (t2, 255) ->
  forall f', exists t3 st3, asm' t2 (255, f') = Ok (t3, st3) /\ node_buf t3 = node_buf t1.
Proof.
  intros Hw Hs f t1 st1 Ha Hsm Hl d pol0 rest t2 Hd Hpol Hp.
  destruct (vol_preserved_and_fixed t Hw Hs f t1 st1 Ha Hsm Hl d pol0 rest Hd Hpol) as (t2' & H1 & _ & H3).
  rewrite H1 in Hp. injection Hp as <-. exact H3.
Qed.

Theorem file_semantic_preservation pol t : wf pol t -> is_file t ->
  forall f t1 st1, asm' t (pol, f) = Ok (t1, st1) -> small t1 -> laid t1 ->
  forall d rest, (height t1 <= d)%nat ->
  exists t2, pfile d pol (node_buf t1 ++ rest) = Ok (Some t2, pol) /\ deep t2 = deep t.
Proof.
  intros Hw Hf f t1 st1 Ha Hs Hl d rest Hd.
  destruct (file_preserved_and_fixed pol t Hw Hf f t1 st1 Ha Hs Hl d rest Hd) as (t2 & H1 & H2 & _). eauto.
Qed.

Theorem file_save_fixed_point pol t : wf pol t -> is_file t ->
  forall f t1 st1, asm' t (pol, f) = Ok (t1, st1) -> small t1 -> laid t1 ->
  forall d rest t2, (height t1 <= d)%nat ->
  pfile d pol (node_buf t1 ++ rest) = Ok (Some t2, pol) ->
  forall f', exists t3 st3, asm' t2 (pol, f') = Ok (t3, st3) /\ node_buf t3 = node_buf t1.
Proof.
  intros Hw Hf f t1 st1 Ha Hs Hl d rest t2 Hd Hp.
  destruct (file_preserved_and_fixed pol t Hw Hf f t1 st1 Ha Hs Hl d rest Hd) as (t2' & H1 & _ & H3).
  rewrite H1 in Hp. injection Hp as <-. exact H3.
Qed.

Theorem sec_semantic_preservation pol t : wf pol t -> is_sec t ->
  forall f t1 st1, asm' t (pol, f) = Ok (t1, st1) -> small t1 -> laid t1 ->
  forall d rest i, (height t1 <= d)%nat ->
  exists t2, psec d pol (node_buf t1 ++ rest) i = Ok (t2, pol) /\ deep t2 = deep t.
Proof.
  intros Hw Hf f t1 st1 Ha Hs Hl d rest i Hd.
  destruct (sec_preserved_and_fixed pol t Hw Hf f t1 st1 Ha Hs Hl d rest i Hd) as (t2 & H1 & H2 & _). eauto.
Qed.

Theorem sec_save_fixed_point pol t : wf pol t -> is_sec t ->
  forall f t1 st1, asm' t (pol, f) = Ok (t1, st1) -> small t1 -> laid t1 ->
  forall d rest i t2, (height t1 <= d)%nat ->
  psec d pol (node_buf t1 ++ rest) i = Ok (t2, pol) ->
  forall f', exists t3 st3, asm' t2 (pol, f') = Ok (t3, st3) /\ node_buf t3 = node_buf t1.
Proof.
  intros Hw Hf f t1 st1 Ha Hs Hl d rest i t2 Hd Hp.
  destruct (sec_preserved_and_fixed pol t Hw Hf f t1 st1 Ha Hs Hl d rest i Hd) as (t2' & H1 & _ & H3).
  rewrite H1 in Hp. injection Hp as <-. exact H3.
Qed.

(* what Assemble wrote is an exact fixed point of Assemble *)
Theorem assembled_is_fixed pol t : wf pol t ->
  forall f t1 st1, asm' t (pol, f) = Ok (t1, st1) -> small t1 -> laid t1 ->
  forall f', exists f'', asm' t1 (pol, f') = Ok (t1, (pol, f'')).
Proof.
  intros Hw f t1 st1 Ha Hs Hl f'.
  destruct (asm_canon pol t Hw f t1 st1 Ha Hs Hl) as (Hc & _).
  destruct (canon_asm_fixed pol t1 Hc f') as (f'' & E & _). eauto.
Qed.

(* trees without volumes need no layout condition *)
Fixpoint novol (n : node) : Prop :=
  let all := fix all (l : list node) : Prop :=
               match l with [] => True | x :: r => novol x /\ all r end in
  match n with
  | NSec _ _ k => all k
  | NFile _ _ k => all k
  | NVol _ _ _ => False
  | NPad _ _ => True
  end.

Lemma novol_laid : forall n, novol n -> laid n.
Proof using Type. clear_sec.
  induction n as [h b k IH|h b k IH|h b k IH|] using node_ind'; cbn [novol laid]; intros H; try exact I; try (destruct H).
  - induction IH as [|x r Hx Hr IHr]; [exact I|]. destruct H as [H1 H2]. split; [apply Hx; exact H1|apply IHr; exact H2].
  - induction IH as [|x r Hx Hr IHr]; [exact I|]. destruct H as [H1 H2]. split; [apply Hx; exact H1|apply IHr; exact H2].
Qed.


Lemma gen_hlen_threshold h body : zlen body < SZ ->
  (s_hlen (fst (gen_sec_header h body)) = 8 <-> 16777215 <= zlen body + 4 + tslen (s_gd h)) /\
  (s_hlen (fst (gen_sec_header h body)) = 4 <-> zlen body + 4 + tslen (s_gd h) < 16777215).
Proof using Type. clear_sec.
  intros Hz. pose proof (zlen_nonneg body) as Hn. unfold SZ in Hz.
  unfold gen_sec_header. cbn [fst s_hlen].
  set (hl0 := 4 + match s_gd h with Some _ => 20 | None => 0 end).
  assert (Hhl0 : hl0 = 4 + tslen (s_gd h)) by (unfold hl0, tslen; destruct (s_gd h); reflexivity).
  assert (Hts : tslen (s_gd h) = 0 \/ tslen (s_gd h) = 20) by (unfold tslen; destruct (s_gd h); auto).
  rewrite (Z.mod_small (zlen body + hl0)) by (unfold U32; change (2 ^ 32) with 4294967296; lia).
  destruct (16777215 <=? zlen body + hl0) eqn:E.
  - rewrite (Z.mod_small (zlen body + hl0 + 4)) by (unfold U32; change (2 ^ 32) with 4294967296; lia).
    replace (16777215 <=? zlen body + hl0 + 4) with true by lia. split; split; intros; lia.
  - rewrite E. split; split; intros; lia.
Qed.

(* ---------- the DataOffset GenSecHeader writes is where the payload starts ---------- *)

(* for EVERY payload size below 4 GiB, in particular in the branch where the section reaches 0xFFFFFF
   bytes and gets the 8-byte common header: the DataOffset kept in the node and written into the
   bytes (little-endian at common header + 16) is the offset at which the payload begins *)
Theorem gen_dataoff_is_payload_start h g body h' nb :
  s_gd h = Some g -> zlen (gd_guid g) = 16 -> zlen body < SZ -> gen_sec_header h body = (h', nb) ->
  exists g', s_gd h' = Some g' /\
    gd_dataoff g' = s_hlen h' + 20 /\
    rd (s_hlen h' + 16) 2 nb = gd_dataoff g' /\
    zskipn (gd_dataoff g') nb = body /\
    (s_hlen h' = 8 <-> 16777215 <= zlen body + 24).
Proof using Type. clear_sec.
  intros Hg Hg16 Hz Hgen.
  pose proof (proj1 (gen_hlen_threshold h body Hz)) as T. rewrite Hgen in T. cbn [fst] in T. rewrite Hg in T. cbn [tslen] in T.
  destruct (gen_shape h body Hz) as (chdr & hl & size3 & Hhl & Hlen & Hgen' & _ & _ & Hbig).
  rewrite Hgen, Hg in Hgen'. rewrite Hg in Hbig. cbn [tslen regd tshdr gd_guid gd_dataoff gd_attrs] in Hgen', Hbig.
  pose proof (f_equal fst Hgen') as Eh. pose proof (f_equal snd Hgen') as Eb.
  cbn [fst snd] in Eh, Eb. subst h' nb. cbn [s_gd s_hlen].
  eexists. split; [reflexivity|]. cbn [gd_dataoff]. split; [reflexivity|]. split; [|split].
  - replace (chdr ++ (gd_guid g ++ le_enc 2 (hl + 20) ++ le_enc 2 (gd_attrs g)) ++ body)
      with ((chdr ++ gd_guid g) ++ le_enc 2 (hl + 20) ++ (le_enc 2 (gd_attrs g) ++ body))
      by (rewrite <- !app_assoc; reflexivity).
    replace (hl + 16) with (zlen (chdr ++ gd_guid g)) by (rewrite zlen_app; lia).
    rewrite rd_at by apply le2. apply le_dec_enc. change (256 ^ Z.of_nat 2) with 65536. lia.
  - replace (chdr ++ (gd_guid g ++ le_enc 2 (hl + 20) ++ le_enc 2 (gd_attrs g)) ++ body)
      with ((chdr ++ gd_guid g ++ le_enc 2 (hl + 20) ++ le_enc 2 (gd_attrs g)) ++ body)
      by (rewrite <- !app_assoc; reflexivity).
    set (A := chdr ++ gd_guid g ++ le_enc 2 (hl + 20) ++ le_enc 2 (gd_attrs g)).
    assert (LA : zlen A = hl + 20) by (unfold A; rewrite !zlen_app, !le2; lia).
    rewrite <- LA. apply zskipn_app_exact.
  - cbn [s_hlen] in T. rewrite T. lia.
Qed.

End Codec.
